(** C11 - Allocation keys are unambiguous and the API releases what it lists.
    Property theorems only; proofs are in Proofs/KeysP.v, Proofs/PageP.v and Proofs/IpApiP.v.
    [cur_kflags] is the model variant that the correspondence check ties to /repo's current tree
    (both repairs applied: F5 013594f, F6 d6ba6ca); the theorems are about it. *)
From Coq Require Import List String NArith Permutation Sorted.
Open Scope string_scope.
From Galaxy.Base Require Import Strs.
From Galaxy.Model Require Import Keys Page IpApi.
From Galaxy.Proofs Require Import KeysP PageP IpApiP.
Import ListNotations.

(** Hypotheses on names are WEAKER than DNS-1123: [name_ok s] = non-empty and '_'-free;
    [owners_ok] = owner names are name_ok; [kind_free]/[kind_nonempty] = owner kinds are '_'-free /
    non-empty; [pool_ok] = the pool annotation's value is '_'-free (may be absent = empty). *)

(** distinct pods map to distinct keys: with ANY owner kind (or none) and ANY pool annotation,
    equal keys imply equal (namespace, app, pod name) *)
Theorem key_injective : forall p q kp kq,
  format_key p = Some kp -> format_key q = Some kq ->
  name_ok (pd_ns p) -> name_ok (pd_name p) -> owners_ok p ->
  name_ok (pd_ns q) -> name_ok (pd_name q) -> owners_ok q ->
  ko_key kp = ko_key kq ->
  pd_ns p = pd_ns q /\ ko_app kp = ko_app kq /\ pd_name p = pd_name q.
Proof. exact key_injective_l. Qed.
Print Assumptions key_injective.

(** a key decodes back to exactly the pool, type prefix, namespace, app and pod it was built from.
    FULL statement of the property text: for any pool name.  It is refuted for pool names containing
    '_' (parse_format_refuted_pool_underscore, open known finding K4); proved under [pool_ok]. *)
Theorem parse_format : forall p k,
  format_key p = Some k -> name_ok (pd_ns p) -> name_ok (pd_name p) -> owners_ok p -> kind_free p -> pool_ok p ->
  parse_key (ko_key k) = k.
Proof. exact parse_format_l. Qed.
Print Assumptions parse_format.

(** every key IPAM stores for a pod (the pod's key, its pool prefix, its app prefix) is listed as
    an entry which, posted back, addresses exactly that key *)
Theorem list_release_roundtrip : forall p k,
  format_key p = Some k -> name_ok (pd_ns p) -> name_ok (pd_name p) -> owners_ok p ->
  kind_free p -> kind_nonempty p -> pool_ok p ->
  forall key, In key [ko_key k; pool_prefix k; pool_app_prefix k] ->
  release_key cur_kflags (convert key) = key.
Proof. exact list_release_roundtrip_l. Qed.
Print Assumptions list_release_roundtrip.

(** app type omitted means statefulset, for every posted entry *)
Theorem blank_type_is_statefulset : forall e,
  release_key cur_kflags (blank_type e) = gen_key sts_pfx (e_ns e) (e_app e) (e_pod e) (e_pool e) /\
  release_key cur_kflags (blank_type e) =
  release_key cur_kflags {| e_ns := e_ns e; e_app := e_app e; e_pod := e_pod e; e_pool := e_pool e;
                            e_type := L "statefulset" |}.
Proof. exact blank_type_is_statefulset_l. Qed.
Print Assumptions blank_type_is_statefulset.

(** a POST frees an IP only if the IP's current key is the key the entry denotes (for either
    variant of the flags, any entry, any lister state) *)
Theorem release_exact : forall fl e cur found,
  api_release fl e cur found = RReleased -> cur = Some (release_key fl e).
Proof. exact release_exact_l. Qed.
Print Assumptions release_exact.

(** ... hence never another owner's IP: the listed entry of pod q's key, posted against an IP that
    currently belongs to pod p, releases it only if p and q are the same (namespace, app, pod) *)
Theorem release_exact_owner : forall p kp q kq found,
  format_key p = Some kp -> name_ok (pd_ns p) -> name_ok (pd_name p) -> owners_ok p ->
  format_key q = Some kq -> name_ok (pd_ns q) -> name_ok (pd_name q) -> owners_ok q ->
  kind_free q -> kind_nonempty q -> pool_ok q ->
  api_release cur_kflags (convert (ko_key kq)) (Some (ko_key kp)) found = RReleased ->
  pd_ns p = pd_ns q /\ ko_app kp = ko_app kq /\ pd_name p = pd_name q.
Proof. exact release_exact_owner_l. Qed.
Print Assumptions release_exact_owner.

(** a release request with SEVERAL entries ([post_entries]: handled one after the other, each on its own):
    nothing is added or re-keyed, and only posted IPs disappear, each only when its current key is the key
    SOME entry posted with that IP denotes (IP texts of the state pairwise distinct) *)
Theorem batch_release_exact : forall fl s pods es,
  (forall a, In a (snd (post_entries fl s pods es)) -> In a s) /\
  (NoDup (map fst s) ->
   forall ip key, In (ip, key) s -> ~ In (ip, key) (snd (post_entries fl s pods es)) ->
                  exists e, In (ip, e) es /\ key = release_key fl e).
Proof. exact post_entries_exact_l. Qed.
Print Assumptions batch_release_exact.

(** ... and the list/release round trip holds for such a request in ANY order: when every entry denotes the
    current key of its IP (for the statefulset entries: with or without appType, by blank_type_is_statefulset)
    and its pod is not running, then every rearrangement [es'] of the request answers 200 and removes exactly
    the posted IPs.  The same IP may be posted several times, unless its key is the empty key (a repeated
    entry finds the IP unallocated, and an unallocated IP posted with the empty key is reported). *)
Theorem batch_roundtrip_any_order : forall fl s pods es,
  (forall ip e, In (ip, e) es ->
     lookup_ip s ip = Some (release_key fl e) /\ releasable e (pod_listed pods e) = true) ->
  (forall ip e, In (ip, e) es -> is_empty (release_key fl e) = true -> (count_occ str_dec (map fst es) ip <= 1)%nat) ->
  forall es', Permutation es es' ->
  post_entries fl s pods es' = (false, filter (fun a => negb (existsb (fun e => str_eqb (fst e) (fst a)) es)) s).
Proof. exact post_entries_roundtrip_any_order_l. Qed.
Print Assumptions batch_roundtrip_any_order.

(** met by a request with three app types, the statefulset entry without appType in the middle *)
Example batch_nonvacuous :
  option_map ko_key (format_key {| pd_name := L "bare-0"; pd_ns := L "ns1"; pd_owners := []; pd_pool := [] |})
    = Some (L "NULL_ns1_NULL_bare-0") /\
  NoDup (map fst ex_state) /\ NoDup (map fst ex_entries) /\
  Forall (fun x => lookup_ip ex_state (fst x) = Some (release_key cur_kflags (snd x)) /\
                   releasable (snd x) (pod_listed ex_pods (snd x)) = true /\
                   is_empty (release_key cur_kflags (snd x)) = false) ex_entries /\
  e_type (snd (nth 1 ex_entries (L "", convert []))) = [] /\
  post_entries cur_kflags ex_state ex_pods ex_entries = (false, [(L "10.0.0.4", L "sts_ns1_web_web-1")]) /\
  post_entries cur_kflags ex_state ex_pods (rev ex_entries) = (false, [(L "10.0.0.4", L "sts_ns1_web_web-1")]).
Proof. exact post_entries_example. Qed.
Print Assumptions batch_nonvacuous.

(** paging: for every list, every size in [1, 9999] and up to the documented cap of 100000 pages,
    the pages 0 .. totalPages-1, requested by their decimal number, concatenate to the list itself
    (so every element appears exactly once, in order) *)
Theorem pages_partition : forall (A : Type) (l : list A) (size : N),
  (1 <= size <= 9999)%N -> (N.of_nat (List.length l) <= 100000 * size)%N ->
  List.concat (map (fun n => request_page n size l) (nrange (total_pages size (N.of_nat (List.length l))))) = l.
Proof. exact @pages_partition_l. Qed.
Print Assumptions pages_partition.

(** ... and every page number from totalPages up to the cap 99999 is empty *)
Theorem pages_beyond_empty : forall (A : Type) (l : list A) (size n : N),
  (1 <= size <= 9999)%N -> (total_pages size (N.of_nat (List.length l)) <= n)%N -> (n <= 99999)%N ->
  request_page n size l = [].
Proof. exact @pages_beyond_empty_l. Qed.
Print Assumptions pages_beyond_empty.

(** the list that is paged - all selected entries sorted by IP text - contains every selected
    entry exactly once, neighbours in non-descending order *)
Theorem sort_by_ip_permutation : forall (l : list (str * entry)),
  Permutation (sort_by fst l) l /\ LocallySorted (key_le fst) (sort_by fst l).
Proof. intros l. split; [apply sort_perm_l|apply sort_sorted_l]. Qed.
Print Assumptions sort_by_ip_permutation.

(** the hypotheses are met by a concrete non-trivial pod (63-byte deployment name, 63-byte pod
    name, pool annotation) *)
Example hypotheses_nonvacuous :
  exists k, format_key pod_example = Some k /\ name_ok (pd_ns pod_example) /\ name_ok (pd_name pod_example) /\
            owners_ok pod_example /\ kind_free pod_example /\ kind_nonempty pod_example /\ pool_ok pod_example /\
            ko_app k = L "dp1234567890dp1234567890dp1234567890dp1234567890dp1234567890dp1" /\
            List.length (ko_key k) = 156%nat.
Proof. exact example_pod_ok. Qed.

(** K4 (open known finding): a pool annotation containing '_' refutes parse_format and the round trip *)
Theorem parse_format_refuted_pool_underscore :
  exists p k, format_key p = Some k /\ name_ok (pd_ns p) /\ name_ok (pd_name p) /\ owners_ok p /\ kind_free p /\
              ko_key k = L "pool__my_pool_dp_ns1_dp_dp-abc-x" /\ ko_pool k = L "my_pool" /\
              ko_pool (parse_key (ko_key k)) = L "my" /\ ko_app (parse_key (ko_key k)) = [] /\
              parse_key (ko_key k) <> k.
Proof. exact parse_format_refuted_pool_underscore_l. Qed.
Print Assumptions parse_format_refuted_pool_underscore.

Theorem list_release_refuted_pool_underscore :
  exists p k, format_key p = Some k /\ name_ok (pd_ns p) /\ name_ok (pd_name p) /\ owners_ok p /\
              release_key cur_kflags (convert (ko_key k)) = L "pool__my_" /\
              release_key cur_kflags (convert (ko_key k)) <> ko_key k.
Proof. exact list_release_refuted_pool_underscore_l. Qed.
Print Assumptions list_release_refuted_pool_underscore.

(** Defects of the pinned commit, repaired by `fix:` commits; the witnesses are corpus cases.
    F5: without the else, the blanked entry of a statefulset pod addresses "_ns1_sts_sts-0" and is
    refused as "allocated to another pod" *)
Theorem list_release_refuted_omitted_type :
  exists p k, format_key p = Some k /\
              release_key {| f5_omitted_is_sts := false; f6_null_exact := true |} (blank_type (convert (ko_key k)))
              = L "_ns1_sts_sts-0" /\
              gen_key sts_pfx (L "ns1") (L "sts") (L "sts-0") [] = ko_key k /\
              api_release {| f5_omitted_is_sts := false; f6_null_exact := true |}
                          (blank_type (convert (ko_key k))) (Some (ko_key k)) false = ROther.
Proof. exact list_release_refuted_omitted_type_l. Qed.
Print Assumptions list_release_refuted_omitted_type.

(** F6: the listed entry of a pod without owner (appType "NULL") addresses "null_ns1_NULL_bare-0" *)
Theorem list_release_refuted_null_type :
  exists p k, format_key p = Some k /\ ko_key k = L "NULL_ns1_NULL_bare-0" /\
              release_key {| f5_omitted_is_sts := true; f6_null_exact := false |} (convert (ko_key k))
              = L "null_ns1_NULL_bare-0" /\
              api_release {| f5_omitted_is_sts := true; f6_null_exact := false |}
                          (convert (ko_key k)) (Some (ko_key k)) false = ROther.
Proof. exact list_release_refuted_null_type_l. Qed.
Print Assumptions list_release_refuted_null_type.
