(** C11 - Allocation keys are unambiguous and the API releases what it lists.
    Property theorems only; proofs are in Proofs/KeysP.v and Proofs/PageP.v.
    [cur_kflags] is the model variant that the correspondence check ties to /repo's current tree. *)
From Coq Require Import List NArith.
From Galaxy.Base Require Import Strs.
From Galaxy.Model Require Import Keys Page IpApi.
From Galaxy.Proofs Require Import KeysP.
Import ListNotations.

(** distinct pods map to distinct keys: for pods whose namespace, pod name and owner name are
    non-empty and '_'-free (weaker than DNS-1123), with ANY owner kind (or none) and ANY pool
    annotation, equal keys imply equal (namespace, app, pod name) *)
Theorem key_injective : forall p q kp kq,
  format_key p = Some kp -> format_key q = Some kq ->
  name_ok (pd_ns p) -> name_ok (pd_name p) -> owners_ok p ->
  name_ok (pd_ns q) -> name_ok (pd_name q) -> owners_ok q ->
  ko_key kp = ko_key kq ->
  pd_ns p = pd_ns q /\ ko_app kp = ko_app kq /\ pd_name p = pd_name q.
Proof. exact key_injective_l. Qed.
Print Assumptions key_injective.

(** a key decodes back to exactly the pool, type prefix, namespace, app and pod it was built from,
    when additionally the owner kind and the pool annotation are '_'-free *)
Theorem parse_format : forall p k,
  format_key p = Some k -> name_ok (pd_ns p) -> name_ok (pd_name p) -> owners_ok p -> kind_free p -> pool_ok p ->
  parse_key (ko_key k) = k.
Proof. exact parse_format_l. Qed.
Print Assumptions parse_format.
