(** C12 - CNI multi-network ADD/DEL is ordered, paired, rolled back and isolated.
    Property theorems only; proofs are in Proofs/CniP.v, the model in Model/Cni.v.
    [cur_flags] is the model variant that the correspondence check ties to /repo's current tree
    (after `fix:` 6dc20c6, F7); [old_flags] is the pinned commit. *)
From Coq Require Import List NArith Bool String.
Open Scope string_scope.
Open Scope list_scope.
From Galaxy.Base Require Import Strs.
From Galaxy.Model Require Import Pool Cni.
From Galaxy.Proofs Require Import CniP.
Import ListNotations.

(** the plugins invoked are those of the networks the pod selects - networks annotation (comma list or
    JSON form), else the ENI network for pods requesting an ENI IP, else the default networks
    ([selection]) - in that order, each with the configuration object found under that name *)
Theorem selection_order : forall fl cf r sh infos,
  resolve_networks fl cf r sh = Ok infos ->
  exists sel, selection cf r = Ok sel /\ List.length infos = List.length sel /\
    forall i ni, nth_error infos i = Some ni ->
      exists name ifr shd, nth_error sel i = Some (Some (name, ifr)) /\ ni_name ni = name /\
                           find_net cf name = Some (ni_tag ni, shd).
Proof. exact selection_order_l. Qed.
Print Assumptions selection_order.

(** the first network is set up on the interface kubelet named, the i-th on the interface its
    annotation entry names or eth<i> *)
Theorem ifnames : forall fl cf r sh infos sel i ni name ifr,
  resolve_networks fl cf r sh = Ok infos -> selection cf r = Ok sel ->
  nth_error infos i = Some ni -> nth_error sel i = Some (Some (name, ifr)) ->
  ni_if ni = match i with
             | O => r_ifname r
             | S _ => match ifr with [] => L "eth" ++ print_dec (N.of_nat i) | _ => ifr end
             end.
Proof. exact ifnames_l. Qed.
Print Assumptions ifnames.

(** without interface requests the interfaces of one pod are pairwise distinct *)
Theorem ifnames_distinct : forall fl cf r sh infos sel,
  resolve_networks fl cf r sh = Ok infos -> selection cf r = Ok sel ->
  (forall s, In s sel -> exists name, s = Some (name, [])) ->
  (forall k, r_ifname r <> L "eth" ++ print_dec (N.of_nat (S k))) ->
  NoDup (map ni_if infos).
Proof. exact ifnames_distinct_l. Qed.
Print Assumptions ifnames_distinct.

(** ADD invokes ADD n0 .. nj in order; without a failing plugin it succeeds and saves the whole list;
    if nj is the first to fail, DEL nj .. n0 follow, the ADD fails, and exactly the networks whose
    rollback DEL failed stay saved; other containers' state is untouched - for every state [st]
    (every history), every failure script of the ADDs [fa] and of the rollback DELs [fd] *)
Theorem add_order : forall fl cf rq st c fa fd infos st' es res,
  resolve_networks fl cf (rq c) (shared st) = Ok infos -> infos <> [] ->
  step fl cf rq st (Add c fa fd) = (st', es, res) ->
  match first_fail fa 0 (List.length infos) with
  | None => map e_sig es = map (ni_sig ADD) infos /\ res = ROk /\ sv_get (saved st') c = Some infos
  | Some j => let part := firstn (S j) infos in
              map e_sig es = map (ni_sig ADD) part ++ map (ni_sig DEL) (rev part) /\ res = RErr /\
              sv_get (saved st') c = nonempty (remaining part fd)
  end /\ forall c', c' <> c -> sv_get (saved st') c' = sv_get (saved st) c'.
Proof. exact add_order_l. Qed.
Print Assumptions add_order.

(** DEL invokes the saved list in reverse and saves exactly the failed ones again (original order);
    with nothing saved it invokes nothing and succeeds *)
Theorem del_retry : forall fl cf rq st c fd st' es res,
  step fl cf rq st (Del c fd) = (st', es, res) ->
  match sv_get (saved st) c with
  | None => es = [] /\ res = ROk /\ sv_get (saved st') c = None
  | Some infos => map e_sig es = map (ni_sig DEL) (rev infos) /\
                  sv_get (saved st') c = nonempty (remaining infos fd) /\
                  (res = ROk <-> remaining infos fd = []) /\ (res = ROk \/ res = RErr)
  end /\ (forall c', c' <> c -> sv_get (saved st') c' = sv_get (saved st) c') /\ shared st' = shared st.
Proof. exact del_retry_l. Qed.
Print Assumptions del_retry.

(** by induction over DEL sequences: the k-th DEL retries exactly what failed in all DELs before,
    and once nothing is left every further DEL invokes nothing and succeeds *)
Theorem del_retry_seq : forall fl cf rq c fds st st' outs,
  run fl cf rq st (map (Del c) fds) = (st', outs) ->
  map (fun o => (map e_sig (fst o), snd o)) outs = del_seq_spec (saved_list st c) fds /\
  saved_list st' c = pending (saved_list st c) fds /\
  del_seq_spec [] fds = map (fun _ => ([], ROk)) fds.
Proof.
  intros fl cf rq c fds st st' outs H. destruct (del_retry_seq_l _ _ _ _ _ _ _ _ H) as [A B].
  split; [exact A|]. split; [exact B|apply del_seq_spec_nil].
Qed.
Print Assumptions del_retry_seq.

(** for ALL histories of requests (any containers, any failure scripts) everything a plugin receives
    for container c - configuration object, interface, args, prevResult - is what the static
    configuration and c's own pod / kubelet request prescribe ([payload_okb], spelled out by
    [payload_okb_spec]): prevResult is absent on the first ADD and on DEL, and otherwise the result of
    the previous network of the SAME container *)
Theorem isolation : forall cf rq h e,
  In e (run_log cur_flags cf rq init h) -> payload_okb cf rq e = true.
Proof. exact isolation_l. Qed.
Print Assumptions isolation.

Theorem payload_ok_meaning : forall cf rq e,
  payload_okb cf rq e = true <->
  exists infos i ni, resolve_networks cur_flags cf (rq (e_cid e)) [] = Ok infos /\ nth_error infos i = Some ni /\
    e_tag e = ni_tag ni /\ e_if e = ni_if ni /\ e_args e = r_args (rq (e_cid e)) ++ ni_args ni /\
    e_prev e = expected_prev (e_cmd e) (e_cid e) i.
Proof. exact payload_okb_spec. Qed.
Print Assumptions payload_ok_meaning.

(** schedules: requests in flight are threads of atomic steps (state-file operations, plugin
    executions); for EVERY interleaving [sched] of requests with pairwise distinct container ids
    (the pool is keyed by container id), a request that has completed returned the same result, made
    the same plugin invocations and left the same state for its container as when run alone *)
Theorem independence : forall cf rq sched p st p' st' log o res st1 es1 res1,
  prun cur_flags cf rq sched p st = (p', st', log) ->
  p_get p (op_cid o) = Some (start_of o) ->
  p_get p' (op_cid o) = Some (TDone res) ->
  step cur_flags cf rq st o = (st1, es1, res1) ->
  res = res1 /\ filter (for_cid (op_cid o)) log = es1 /\
  sv_get (saved st') (op_cid o) = sv_get (saved st1) (op_cid o).
Proof. exact independence_l. Qed.
Print Assumptions independence.

(** isolation also for concurrent requests: started in any state reachable by a history [h], under any
    schedule, once the requests (pairwise distinct container ids) have completed, everything any
    plugin received is what the static configuration and that container's own pod prescribe *)
Theorem isolation_concurrent : forall cf rq h st outs ops sched p' st' log,
  run cur_flags cf rq init h = (st, outs) ->
  NoDup (map op_cid ops) ->
  prun cur_flags cf rq sched (pool_of ops) st = (p', st', log) ->
  (forall o, In o ops -> exists res, p_get p' (op_cid o) = Some (TDone res)) ->
  forall e, In e log -> payload_okb cf rq e = true.
Proof. exact isolation_concurrent_l. Qed.
Print Assumptions isolation_concurrent.

(** the hypotheses are met by concrete non-trivial inputs: a pod selecting two networks; an
    interleaving of two ADDs (one rolled back) that completes *)
Example resolve_nonvacuous : exists a b,
  resolve_networks cur_flags f7_conf (f7_rq (L "cid7")) [] = Ok [a; b] /\ ni_if a = L "eth0" /\ ni_if b = L "eth1".
Proof. eexists. eexists. vm_compute. repeat split. Qed.
Example independence_nonvacuous :
  let p := [(L "cid7", TAddStart [false; true] [true]); (L "cid8", TAddStart [] [])] in
  let sched := [L "cid7"; L "cid8"; L "cid7"; L "cid7"; L "cid8"; L "cid7"; L "cid7"; L "cid7"; L "cid7"] in
  let '(p', st', log) := prun cur_flags f7_conf f7_rq sched p init in
  p_get p' (L "cid7") = Some (TDone RErr) /\ p_get p' (L "cid8") = Some (TDone ROk) /\ List.length log = 5%nat.
Proof. vm_compute. repeat split. Qed.

(** F7 (pinned commit): getNetworkConf handed out the daemon's shared map and CmdAdd wrote prevResult
    into it - a container whose FIRST network was an earlier container's later network received that
    container's prevResult.  Repaired by `fix:` 6dc20c6; the witness is corpus scenario 0. *)
Theorem isolation_refuted :
  exists cf rq h e, In e (run_log old_flags cf rq init h) /\ payload_okb cf rq e = false /\
                    exists c', e_prev e = Some (c', 0%nat) /\ c' <> e_cid e.
Proof. exact isolation_refuted_l. Qed.
Print Assumptions isolation_refuted.
