(** C19 - Shared state is free of data races under concurrent requests.
    Property theorems only; proofs are in Proofs/LocksetP.v.  The theorem is generic: the program
    it is applied to is extracted from /repo's Go source on every run of the check
    (build/gen/Locks.v) and [galaxy_race_free] is re-proved there by
    [lockset_sound _ generated eq_refl] after [vm_compute] of [disciplined]. *)
From Coq Require Import List NArith Bool.
From Galaxy.Model Require Import Lockset.
From Galaxy.Proofs Require Import LocksetP.
Import ListNotations.

(** For every set of thread programs P that follows the lock discipline (every write under the
    location's lock held exclusively, every read under it held shared or exclusively, unlocks only
    of held locks), for any number of threads each running any program of P and for every
    schedule: no reachable state has two distinct threads about to perform conflicting accesses
    (same location, at least one write). *)
Theorem lockset_sound : forall (lock_of : loc -> option lock) (P : list prog),
  disciplined lock_of P = true -> forall s, reachable P s -> ~ race s.
Proof. exact lockset_sound_l. Qed.
Print Assumptions lockset_sound.

(** the invariant behind it: in every reachable state a thread about to write a location holds that
    location's lock exclusively in the global lock state; a thread about to read it holds it exclusively
    or is among its readers *)
Theorem access_holds_lock : forall (lock_of : loc -> option lock) (P : list prog),
  disciplined lock_of P = true -> forall s, reachable P s ->
  forall t x r, (st_threads s t = Wr x :: r -> exists l, lock_of x = Some l /\ st_locks s l = Excl t) /\
                (st_threads s t = Rd x :: r -> forall l, lock_of x = Some l ->
                   st_locks s l = Excl t \/ exists ts, st_locks s l = Shared ts /\ In t ts).
Proof. exact access_holds_lock_l. Qed.
Print Assumptions access_holds_lock.

(** non-vacuity: a program with writers, readers, a nested read lock and an immutable location passes;
    a program that reads after RUnlock fails the check AND really reaches a race state *)
Example discipline_nonvacuous : disciplined ex_lock_of ex_good = true /\ disciplined ex_lock_of ex_bad = false.
Proof. split; [exact ex_good_disciplined | exact ex_bad_undisciplined]. Qed.

Theorem undisciplined_races : exists s, reachable ex_bad s /\ race s.
Proof. exact ex_bad_races. Qed.
Print Assumptions undisciplined_races.
