(** C09 - Reserved and de-configured IPs are never allocated; reload is lossless (crdIpam layer).
    Property theorems only; proofs in Proofs/IpamP.v. *)
From Coq Require Import String.
From stdpp Require Import gmap.
From Galaxy.Base Require Import Strs.
From Galaxy.Model Require Import Nets Pool Ipam.
From Galaxy.Proofs Require Import IpamP.
From Galaxy.Proofs Require Import IpamResvP.
Local Open Scope N_scope.

(** every IP handed out by a fresh allocation (AllocateInSubnet, AllocateInSubnetsAndIPRange,
    AllocateSpecificIP) - in ANY reachable state, for ANY oracle choice - had no object at all in
    the store (hence no administrator reservation, whether its watch event was delivered or not)
    and lies in the configuration loaded at that moment *)
Theorem never_hand_reserved : ∀ ops o s' ips, let s := run ipam0 ops in
  fresh_alloc_op o = true → step s o = (s', AOk, ips) →
  ∀ x, (x ∈ ips ∨ ∃ key a f, o = OAllocSpecific key x a f) →
       i_store s !! x = None ∧ x ∈ i_unalloc s ∧ configured (i_pools s) x = true ∧ is_Some (i_alloc s' !! x).
Proof. intros ops o s' ips s. apply never_hand_reserved_l. apply run_inv, inv0. Qed.
Print Assumptions never_hand_reserved.

(** the two tables hold exactly the configured addresses, in every reachable state *)
Theorem tables_are_configured : ∀ ops x, let s := run ipam0 ops in
  (is_Some (i_alloc s !! x) ∨ x ∈ i_unalloc s) ↔ configured (i_pools s) x = true.
Proof. intros ops x s. apply inv_conf. apply run_inv, inv0. Qed.
Print Assumptions tables_are_configured.

(** a reload (one atomic step since the lock is taken before the list) keeps every persisted
    allocation whose IP the new configuration contains - unchanged, in memory and in the store -
    and drops exactly the others (their objects are deleted unless that deletion failed) *)
Theorem reload_lossless : ∀ s ps delfail, pools_ok ps →
  let s' := configure_with s ps (i_store s) delfail in
  (∀ x, configured (sort_pools ps) x = true → i_alloc s' !! x = i_store s !! x ∧ i_store s' !! x = i_store s !! x) ∧
  (∀ x, configured (sort_pools ps) x = false → i_alloc s' !! x = None ∧ x ∉ i_unalloc s' ∧ (x ∉ delfail → i_store s' !! x = None)).
Proof. exact reload_lossless_l. Qed.
Print Assumptions reload_lossless.

(** a rejected configuration text changes nothing (also cited by C20) *)
Theorem reject_changes_nothing : ∀ s conf lf df, decode_pools conf = None → step s (OConfigure conf lf df) = (s, AErr, []).
Proof. intros s conf lf df H. simpl. rewrite H. done. Qed.
Print Assumptions reject_changes_nothing.

(** reserved IPs are never REWRITTEN or REMOVED by a request either.  An allocation request (AllocateSpecificIP,
    AllocateInSubnet, AllocateInSubnetsAndIPRange) - successful, failed at any store call (an injected fault, or
    AlreadyExists because of a reservation whose watch event has not been delivered), or rolled back after a partial
    creation - leaves every object that was in the store before it exactly as it was: in particular an administrator's
    reservation object ([e_reserved e = true]), delivered or not.  Proofs in Proofs/IpamResvP.v.  The statement holds
    for ALL objects, not only the reserved ones; the premise [Inv s] is the one asked for (the proof does not use it). *)
Theorem requests_keep_store_objects : ∀ s o s' r ips, Inv s → fresh_alloc_op o = true →
  step s o = (s', r, ips) → ∀ x e, i_store s !! x = Some e → i_store s' !! x = Some e.
Proof. exact IpamResvP.requests_keep_store_objects. Qed.
Print Assumptions requests_keep_store_objects.

(** in every reachable state: the reservation object survives the request unchanged and its IP is not among the IPs the
    request hands out *)
Theorem reservations_survive_requests : ∀ ops o s' r ips, let s := run ipam0 ops in fresh_alloc_op o = true →
  step s o = (s', r, ips) → ∀ x e, i_store s !! x = Some e → e_reserved e = true → i_store s' !! x = Some e ∧ x ∉ ips.
Proof. exact reservations_survive_requests_r. Qed.
Print Assumptions reservations_survive_requests.

(** the premises are satisfiable and each outcome occurs.  One pool 10.100.0.2~10.100.0.3; an administrator has reserved
    10.100.0.2 and the watch event is not delivered yet, so the address is still free in memory ([resv_state]).
    (1) AllocateInSubnet picks it: Create answers AlreadyExists, the request fails, the store is what it was;
    (2) AllocateInSubnetsAndIPRange for [10.100.0.3] and [10.100.0.2]: the first object is created, the second Create
        fails, the first is deleted again - the store is what it was;
    (3) AllocateInSubnet picks 10.100.0.3: success; the reservation is untouched and not handed out. *)
Example reservations_survive_requests_nonvacuous :
  let s := resv_state in
  let k := L "sts_ns1_a_a-0"%string in
  Inv s ∧ map_to_list (i_store s) = [(resv_ip, resv_obj)] ∧ e_reserved resv_obj = true ∧
  bool_decide (resv_ip ∈ i_unalloc s) = true ∧ bool_decide (resv_ip ∈ i_pending s) = true ∧
  (let '(s1, r1, ips1) := step s (OAllocInSubnet k resv_sn wattr (Some resv_ip) false) in
   r1 = AErr ∧ ips1 = [] ∧ map_to_list (i_store s1) = [(resv_ip, resv_obj)]) ∧
  (let '(s2, r2, ips2) := step s (OAllocRanges k resv_sn [[(resv_ip + 1, resv_ip + 1)]; [(resv_ip, resv_ip)]] wattr None) in
   r2 = AErr ∧ ips2 = [] ∧ map_to_list (i_store s2) = [(resv_ip, resv_obj)]) ∧
  (let '(s3, r3, ips3) := step s (OAllocInSubnet k resv_sn wattr (Some (resv_ip + 1)) false) in
   r3 = AOk ∧ ips3 = [resv_ip + 1] ∧ i_store s3 !! resv_ip = Some resv_obj ∧ is_Some (i_store s3 !! (resv_ip + 1))).
Proof. exact reservations_survive_requests_ex. Qed.
Print Assumptions reservations_survive_requests_nonvacuous.
