(** C09 - Reserved and de-configured IPs are never allocated; reload is lossless (crdIpam layer).
    Property theorems only; proofs in Proofs/IpamP.v. *)
From stdpp Require Import gmap.
From Galaxy.Base Require Import Strs.
From Galaxy.Model Require Import Nets Pool Ipam.
From Galaxy.Proofs Require Import IpamP.
Local Open Scope N_scope.

(** every IP handed out by a fresh allocation (AllocateInSubnet, AllocateInSubnetsAndIPRange,
    AllocateSpecificIP) - in ANY reachable state, for ANY oracle choice - had no object at all in
    the store (hence no administrator reservation, whether its watch event was delivered or not)
    and lies in the configuration loaded at that moment *)
Theorem never_hand_reserved : ∀ ops o s' ips, let s := run ipam0 ops in
  fresh_alloc_op o = true → step s o = (s', AOk, ips) →
  ∀ x, (x ∈ ips ∨ ∃ key a f, o = OAllocSpecific key x a f) →
       i_store s !! x = None ∧ x ∈ i_unalloc s ∧ configured (i_pools s) x = true ∧ is_Some (i_alloc s' !! x).
Proof. intros ops o s' ips s. apply never_hand_reserved_l. apply run_inv, inv0. Qed.
Print Assumptions never_hand_reserved.

(** the two tables hold exactly the configured addresses, in every reachable state *)
Theorem tables_are_configured : ∀ ops x, let s := run ipam0 ops in
  (is_Some (i_alloc s !! x) ∨ x ∈ i_unalloc s) ↔ configured (i_pools s) x = true.
Proof. intros ops x s. apply inv_conf. apply run_inv, inv0. Qed.
Print Assumptions tables_are_configured.

(** a reload (one atomic step since the lock is taken before the list) keeps every persisted
    allocation whose IP the new configuration contains - unchanged, in memory and in the store -
    and drops exactly the others (their objects are deleted unless that deletion failed) *)
Theorem reload_lossless : ∀ s ps delfail, pools_ok ps →
  let s' := configure_with s ps (i_store s) delfail in
  (∀ x, configured (sort_pools ps) x = true → i_alloc s' !! x = i_store s !! x ∧ i_store s' !! x = i_store s !! x) ∧
  (∀ x, configured (sort_pools ps) x = false → i_alloc s' !! x = None ∧ x ∉ i_unalloc s' ∧ (x ∉ delfail → i_store s' !! x = None)).
Proof. exact reload_lossless_l. Qed.
Print Assumptions reload_lossless.

(** a rejected configuration text changes nothing (also cited by C20) *)
Theorem reject_changes_nothing : ∀ s conf lf df, decode_pools conf = None → step s (OConfigure conf lf df) = (s, AErr, []).
Proof. intros s conf lf df H. simpl. rewrite H. done. Qed.
Print Assumptions reject_changes_nothing.
