(** C06 - Filter-approved nodes can be bound and get a routable IP (scheduler plugin, sections [filter_section] and
    [bind_section true true] of Model/Plugin.v).  Property theorems only; proofs in Proofs/PluginStickyP.v.
    Quantifier: ANY world satisfying the invariant [WInv] (every world reachable by a well-formed history does), any
    topology the configuration loader accepts, any table state, oracle and - except [filter_then_bind] - fault record;
    pairwise-disjoint requested ranges where stated.

    [filter_then_bind] is proved for pairwise-disjoint requested range lists (and, without that premise, for no
    requested ranges / at most one range list without an IP of the key: [filter_then_bind_partial]).
    [bind_routable] is proved as asked for, for every pod - with or without requested ranges, whatever the number of
    IPs its key holds ([bind_routable_ranges] and [bind_routable_partial] are special cases kept for reference).

    Three defects found by refutation of these statements have been REPAIRED in the Go code, and the model follows the
    repaired code; the witnesses are kept as statements about the OLD behaviour ([*_old]):
    - K7 (repaired in Go commit d08b5a9): a pod WITHOUT requested ranges whose key holds several IPs: Filter and Bind each
      took "the first" IP of the key in Go map order, possibly different ones, so Bind could write an IP that is not
      routable from the approved node.  Now ByKeyAndIPRanges(key, nil) lists the key's IPs in ascending order: "the
      first" is the SMALLEST IP of the key ([first_of_key]) for Filter and Bind alike.  The old behaviour
      ([first_of_key_old], sections [filter_section_old7] / [bind_section_old7]) is refuted by
      [bind_routable_refuted_old]; the witness world is reachable and the repaired sections write a routable IP there
      ([bind_routable_witness_reachable], [bind_routable_nonvacuous]);
    - F15 (repaired in Go commit 07fe1a3): requested ranges, the IPs already held have no common node subnet: the
      pinned Filter dropped the empty intersection (`if allocatedSubnets.Len() > 0`) and Bind returned them all; now
      the restriction is never dropped and Filter offers no node ([bind_routable_refuted_ranges_old]);
    - F14 (repaired in Go commit 948e55d): NodeSubnetsByIPRanges restarted from an EMPTY intersection
      (`if subnetSet.Len() == 0`), so with three range lists whose first two have no common node subnet Filter
      answered with the third list's subnets and Bind there failed with "no enough IP"; now only the first list
      initialises the set ([filter_then_bind_refuted_restart_old]). *)
From Coq Require Import String.
From stdpp Require Import gmap.
From Galaxy.Base Require Import Strs.
From Galaxy.Model Require Import Nets Pool Ipam Plugin PluginInfo.
From Galaxy.Model Require Keys.
From Galaxy.Proofs Require Import IpamP PluginInv PluginStickyP.
Local Open Scope N_scope.

(** * every IP written by a bind on a filter-approved node is routable from that node *)

(** The statement asked for.  No requested ranges and the key holds IPs: Filter offers the nodes from which the
    SMALLEST IP of the key is routable and changes nothing; Bind re-uses the smallest IP of the key - the same one.
    The key holds nothing: Bind writes the IP Filter took for the pod, or a fresh one routable from the node.  Requested
    ranges: the IPs re-used are the ones Filter restricted the nodes by, the others are allocated in the node's subnet.
    (The premise [w_pods w !! (ns, name) = Some p] is not used.) *)
Theorem bind_routable : ∀ w p nodes o fl w1 l ns name uid node o2 fl2 w2 ips nip sn pl,
  WInv w → w_pods w !! (ns, name) = Some p → filter_section w p nodes o fl = (w1, FNodes l) → In node l →
  w_lister w1 !! (ns, name) = Some pl → same_static p pl →
  bind_section true true w1 ns name uid node o2 fl2 = (w2, BOk ips) →
  w_nodes w !! node = Some nip → node_subnet (w_ipam w) nip = Some sn →
  ∀ x, x ∈ ips → ip_has_subnet (i_pools (w_ipam w2)) x sn = true.
Proof. intros * HW _. by eapply bind_routable_w. Qed.
Print Assumptions bind_routable.

(** the hypotheses are satisfiable by a world whose key holds two IPs in different pools - [wit1], the K7 witness world
    (pools A = 10.100.0.2-4 on the subnets of node1, node2; B = 10.101.0.2-3 on those of node1, node3): statefulset pod
    web-0, policy never, no requested ranges, whose key holds 10.100.0.3 (A) and 10.101.0.2 (B).  Filter looks at the
    smaller one and offers node1, node2; Bind on node2 writes 10.100.0.3, routable from node2 (10.101.0.2 is not); an
    oracle naming 10.101.0.2 as the first IP is not a possible one any more (Stuck) *)
Example bind_routable_nonvacuous :
  let w := wit1 in let p := wit_pod in let x1 := ip4 10 100 0 3 in let x2 := ip4 10 101 0 2 in
  let sn := (ip4 10 2 0 0, 24) in
  let b := bind_section true true w (L "ns1") (L "web-0") (L "u2") (L "node2") (o_first_is x1) no_faults in
  WInv w ∧ w_pods w !! (L "ns1", L "web-0") = Some p ∧ pd_ranges p = [] ∧
  (∃ e1 e2, i_alloc (w_ipam w) !! x1 = Some e1 ∧ e_key e1 = pod_key p ∧ i_alloc (w_ipam w) !! x2 = Some e2 ∧ e_key e2 = pod_key p) ∧
  pool_of (i_pools (w_ipam w)) x1 ≠ pool_of (i_pools (w_ipam w)) x2 ∧
  filter_section w p ex_allnodes (o_first_is x1) no_faults = (w, FNodes [L "node1"; L "node2"]) ∧
  w_lister w !! (L "ns1", L "web-0") = Some p ∧ same_static p p ∧
  b.2 = BOk [x1] ∧
  w_nodes w !! L "node2" = Some (ip4 10 2 0 9) ∧ node_subnet (w_ipam w) (ip4 10 2 0 9) = Some sn ∧
  ip_has_subnet (i_pools (w_ipam b.1)) x1 sn = true ∧ ip_has_subnet (i_pools (w_ipam b.1)) x2 sn = false ∧
  (filter_section w p ex_allnodes (o_first_is x2) no_faults).2 = FStuck ∧
  (bind_section true true w (L "ns1") (L "web-0") (L "u2") (L "node2") (o_first_is x2) no_faults).2 = BStuck.
Proof. exact ex_bind_routable_l. Qed.

(** K7, the OLD behaviour ([filter_section_old7], [bind_section_old7]: the sections of the model with [first_of_key_old],
    which accepts ANY IP of the key as "the first", in place of [first_of_key]; Proofs/PluginStickyP.v,
    [filter_section_g_model] / [bind_section_g_model]).  Witness [wit1]: Filter met 10.100.0.3 first: nodes node1,
    node2.  Bind on node2 met 10.101.0.2 first and wrote it: not routable from node2. *)
Theorem bind_routable_refuted_old :
  ∃ w p nodes o fl w1 l ns name uid node o2 fl2 w2 ips nip sn pl,
    WInv w ∧ w_pods w !! (ns, name) = Some p ∧ filter_section_old7 w p nodes o fl = (w1, FNodes l) ∧ In node l ∧
    w_lister w1 !! (ns, name) = Some pl ∧ same_static p pl ∧
    bind_section_old7 w1 ns name uid node o2 fl2 = (w2, BOk ips) ∧
    w_nodes w !! node = Some nip ∧ node_subnet (w_ipam w) nip = Some sn ∧
    ∃ x, x ∈ ips ∧ ip_has_subnet (i_pools (w_ipam w2)) x sn = false.
Proof. exact bind_routable_refuted_old_l. Qed.
Print Assumptions bind_routable_refuted_old.

(** ... the same at the level of the function naming the key's first IP: on the tables of [wit1] the old function
    accepted the oracle naming 10.100.0.3 and the one naming 10.101.0.2 - two IPs whose only common node subnet is
    node1's; the repaired one accepts only the first *)
Theorem first_of_key_old_two :
  let i := w_ipam wit1 in let key := pod_key wit_pod in
  let x1 := ip4 10 100 0 3 in let x2 := ip4 10 101 0 2 in
  first_of_key_old i key (o_first_is x1) = Some (Some x1) ∧ first_of_key_old i key (o_first_is x2) = Some (Some x2) ∧
  first_of_key i key (o_first_is x1) = Some (Some x1) ∧ first_of_key i key (o_first_is x2) = None ∧
  (∀ sn, ip_has_subnet (i_pools i) x1 sn = true → ip_has_subnet (i_pools i) x2 sn = true → sn = (ip4 10 1 0 0, 24)).
Proof. exact first_of_key_old_two_l. Qed.
Print Assumptions first_of_key_old_two.

(** the repaired function: the IP it names is an IP of the key and the smallest one, so two calls on the same tables
    agree whatever the oracles *)
Theorem first_of_key_smallest : ∀ i key o x, first_of_key i key o = Some (Some x) →
  ∃ e, i_alloc i !! x = Some e ∧ e_key e = key ∧ ∀ y ey, i_alloc i !! y = Some ey → e_key ey = key → x <= y.
Proof. exact PluginBindP.first_of_key_some. Qed.
Print Assumptions first_of_key_smallest.

(** ... and that state is reached by ordinary operations: the pod first requested [10.100.0.3] and [10.101.0.2], ran
    on node1, was deleted (policy never: both IPs stay reserved under its key) and was re-created without the range
    request.  [pouts] lists the results of the history's steps.  There the sections as they were before the repair
    offered node2 and wrote 10.101.0.2, not routable from it; the repaired ones ([pstep]) write 10.100.0.3, routable
    from node2, and the oracle naming 10.101.0.2 is not a possible one (RStuck). *)
Theorem bind_routable_witness_reachable :
  let init := (pstep (world0 false ex_nodes) (PIpam (OConfigure ex_conf2b false []))).1 in
  let k := (L "ns1", L "web-0") in
  let w := prun init wit1_hist in
  let x1 := ip4 10 100 0 3 in let x2 := ip4 10 101 0 2 in
  let sn := (ip4 10 2 0 0, 24) in
  let bold := bind_section_old7 w (L "ns1") (L "web-0") (L "u2") (L "node2") (o_first_is x2) no_faults in
  let fop x := PFilter k ex_allnodes (o_first_is x) no_faults in
  let bop x := PBind (L "ns1") (L "web-0") (L "u2") (L "node2") (o_first_is x) no_faults in
  pouts init wit1_hist = [ROk; ROk; RNodes [L "node1"]; RIps [x1; x2]; ROk; ROk; ROk; ROk; ROk] ∧
  w_pods w !! k = Some wit_pod ∧ w_lister w !! k = Some wit_pod ∧
  w_nodes w !! L "node2" = Some (ip4 10 2 0 9) ∧ node_subnet (w_ipam w) (ip4 10 2 0 9) = Some sn ∧
  (* before the repair of K7 *)
  filter_section_old7 w wit_pod ex_allnodes (o_first_is x1) no_faults = (w, FNodes [L "node1"; L "node2"]) ∧
  bold.2 = BOk [x2] ∧ ip_has_subnet (i_pools (w_ipam bold.1)) x2 sn = false ∧
  (* repaired: both sections take the smaller IP; the oracle naming the other one is not a possible one *)
  pstep w (fop x1) = (w, RNodes [L "node1"; L "node2"]) ∧
  (pstep w (bop x1)).2 = RIps [x1] ∧ ip_has_subnet (i_pools (w_ipam (pstep w (bop x1)).1)) x1 sn = true ∧
  (pstep w (fop x2)).2 = RStuck ∧ (pstep w (bop x2)).2 = RStuck.
Proof. exact bind_routable_witness_reachable_l. Qed.
Print Assumptions bind_routable_witness_reachable.

(** witness [wit2] (pools A on the subnets of node1, node2; B on that of node3 - no common subnet): the pod requests
    the three addresses 10.100.0.3, 10.101.0.2, 10.100.0.4 (pairwise disjoint) and its key holds the first two.
    Their subnet intersection [os] is empty.  The pinned Filter ([restrict_old]) then did not restrict at all and kept
    node1's subnet (10.100.0.4 is free in A) although the held IP 10.101.0.2 is not routable from node1 - Bind on
    node1 wrote all three (F15).  The repaired restriction ([restrict_subnets _ (Some os)] = [sn_inter _ os]) removes
    that subnet, and the repaired Filter offers no node. *)
Theorem bind_routable_refuted_ranges_old :
  ∃ w p node nip sn x,
    let i := w_ipam w in
    let held := owned_in_ranges i p in                                 (* the IPs the key holds in the requested ranges *)
    let subnets := node_subnets_by_ranges i (missing_ranges i p) in    (* subnets with free IPs for the other range lists *)
    let os := owned_subnets_of i held in                               (* common node subnets of the held IPs *)
    WInv w ∧ w_pods w !! pk p = Some p ∧ ranges_disjoint (pd_ranges p) ∧
    w_nodes w !! node = Some nip ∧ node_subnet i nip = Some sn ∧
    x ∈ held ∧ os = [] ∧
    sn ∈ restrict_old subnets os ∧ sn ∉ restrict_subnets subnets (Some os) ∧
    ip_has_subnet (i_pools i) x sn = false ∧
    filter_section w p ex_allnodes no_oracle no_faults = (w, FNodes []).
Proof. exact bind_routable_refuted_ranges_old_l. Qed.
Print Assumptions bind_routable_refuted_ranges_old.

(** special cases of [bind_routable], kept for reference: the form proved before the repair of K7, with the premise
    that (no requested ranges) the pod's key holds at most one IP ([key_single]) - no longer needed - *)
Theorem bind_routable_partial : ∀ w p nodes o fl w1 l ns name uid node o2 fl2 w2 ips nip sn pl,
  WInv w → filter_section w p nodes o fl = (w1, FNodes l) → In node l →
  w_lister w1 !! (ns, name) = Some pl → same_static p pl →
  (pd_ranges p = [] → key_single (w_ipam w) (pod_key p)) →
  bind_section true true w1 ns name uid node o2 fl2 = (w2, BOk ips) →
  w_nodes w !! node = Some nip → node_subnet (w_ipam w) nip = Some sn →
  ∀ x, x ∈ ips → ip_has_subnet (i_pools (w_ipam w2)) x sn = true.
Proof. intros * HW Hf Hn Hl Hst _. by eapply bind_routable_w. Qed.
Print Assumptions bind_routable_partial.

(** ... and the statement for pods with requested ranges (for them it held before the repair of K7 already: if the IPs
    the key holds inside the requested ranges have no common node subnet, Filter offers no node, F15) *)
Theorem bind_routable_ranges : ∀ w p nodes o fl w1 l ns name uid node o2 fl2 w2 ips nip sn pl,
  WInv w → w_pods w !! (ns, name) = Some p → pd_ranges p ≠ [] →
  filter_section w p nodes o fl = (w1, FNodes l) → In node l →
  w_lister w1 !! (ns, name) = Some pl → same_static p pl →
  bind_section true true w1 ns name uid node o2 fl2 = (w2, BOk ips) →
  w_nodes w !! node = Some nip → node_subnet (w_ipam w) nip = Some sn →
  ∀ x, x ∈ ips → ip_has_subnet (i_pools (w_ipam w2)) x sn = true.
Proof. intros * HW Hp _. by eapply bind_routable. Qed.
Print Assumptions bind_routable_ranges.

(** * mask, gateway, vlan: [ip_info] (Model/PluginInfo.v) of every IP a successful bind writes is that of a pool of the
      loaded configuration that contains the IP; bind does not change the configuration *)
Theorem bind_info_configured : ∀ w ns name uid node o fl w' ips,
  WInv w → uid ≠ [] → bind_section true true w ns name uid node o fl = (w', BOk ips) →
  i_pools (w_ipam w') = i_pools (w_ipam w) ∧
  ∀ x, x ∈ ips → ∃ pl, In pl (i_pools (w_ipam w')) ∧ pool_contains pl x = true ∧
                       ip_info (w_ipam w') x = Some (p_masklen pl, p_gateway pl, p_vlan pl).
Proof. exact bind_info_configured_l. Qed.
Print Assumptions bind_info_configured.

(** * a pod that holds an IP (no requested ranges) is offered exactly the candidate nodes whose subnet is listed by the
      pool of the IP the oracle names ([y]; K7 repaired: the smallest IP of the key, [first_of_key_smallest]); filter
      changes nothing *)
Theorem owned_restricts : ∀ w p nodes o fl x e w' l,
  pd_ranges p = [] → i_alloc (w_ipam w) !! x = Some e → e_key e = pod_key p →
  filter_section w p nodes o fl = (w', FNodes l) →
  w' = w ∧ ∃ y ey, i_alloc (w_ipam w) !! y = Some ey ∧ e_key ey = pod_key p ∧
    ∀ n, In n l ↔ In n nodes ∧ ∃ nip sn, w_nodes w !! n = Some nip ∧ node_subnet (w_ipam w) nip = Some sn ∧
                                      ip_has_subnet (i_pools (w_ipam w)) y sn = true.
Proof. exact owned_restricts_l. Qed.
Print Assumptions owned_restricts.

(** * a fresh pod - no IP under its key, no requested ranges, not a deployment pod with a non-default policy (a pool
      annotation means policy never, so this also excludes sized pools) - is offered exactly the candidate nodes that
      have a free routable IP; filter changes nothing.  (For a bare pod with an unsupported policy filter returns an
      error, not nodes.)  [WInv w] and the separate "no sized pool" premise of the statement asked for are not needed. *)
Theorem fresh_exact : ∀ w p nodes o fl w' l,
  pd_ranges p = [] → (∀ y ey, i_alloc (w_ipam w) !! y = Some ey → e_key ey ≠ pod_key p) →
  (pd_kind p = KDp → policy_of p = 0) →
  filter_section w p nodes o fl = (w', FNodes l) →
  w' = w ∧ ∀ n, In n l ↔ In n nodes ∧ ∃ nip sn x, w_nodes w !! n = Some nip ∧ node_subnet (w_ipam w) nip = Some sn ∧
                                           x ∈ i_unalloc (w_ipam w) ∧ ip_has_subnet (i_pools (w_ipam w)) x sn = true.
Proof. exact fresh_exact_l. Qed.
Print Assumptions fresh_exact.

(** * filter then bind *)

(** with no injected fault, the informer showing the pod, the pod still pending in the API server, bind on a
    filter-approved node succeeds - or the oracle given is not one the implementation could have taken (BStuck), or an
    IP of the key is still stored for an earlier incarnation (the documented wait for its deletion event).
    This is the statement asked for, plus the premise that the requested range lists are pairwise disjoint
    ([ranges_disjoint]; trivially true without requested ranges).  It was FALSE before the repair of F14
    ([filter_then_bind_refuted_restart_old]); with overlapping range lists it is false
    ([filter_then_bind_overlap_refuted]). *)
Theorem filter_then_bind : ∀ w p nodes o fl w1 l ns name node o2 w2 r,
  WInv w → w_pods w !! (ns, name) = Some p → pd_node p = [] → ranges_disjoint (pd_ranges p) →
  filter_section w p nodes o fl = (w1, FNodes l) → In node l →
  w_lister w1 !! (ns, name) = Some p →
  bind_section true true w1 ns name (pd_uid p) node o2 no_faults = (w2, r) →
  (∃ ips, r = BOk ips) ∨ r = BStuck ∨
  (r = BErr ∧ ∃ y ey, i_alloc (w_ipam w1) !! y = Some ey ∧ e_key ey = pod_key p ∧ e_uid ey ≠ [] ∧ e_uid ey ≠ pd_uid p).
Proof. exact filter_then_bind_l. Qed.
Print Assumptions filter_then_bind.

(** the disjointness premise is necessary.  Witness [wit5]: freshly loaded tables, a pod requesting the SAME address
    10.100.0.3 in two range lists.  Each list has a free address routable from node1 and node2, so Filter offers both
    (NodeSubnetsByIPRanges looks at each list separately); Bind needs two different addresses and fails with
    "no enough IP" although nothing else happened; the table is empty. *)
Theorem filter_then_bind_overlap_refuted :
  ∃ w p nodes o fl w1 l ns name node o2 w2,
    WInv w ∧ w_pods w !! (ns, name) = Some p ∧ pd_node p = [] ∧
    filter_section w p nodes o fl = (w1, FNodes l) ∧ In node l ∧ w_lister w1 !! (ns, name) = Some p ∧
    bind_section true true w1 ns name (pd_uid p) node o2 no_faults = (w2, BErr) ∧
    i_alloc (w_ipam w1) = ∅.
Proof. exact filter_then_bind_overlap_refuted_l. Qed.
Print Assumptions filter_then_bind_overlap_refuted.

(** F14, the OLD behaviour.  Tables of witness [wit3] = the world after process start, creation of the pod and its
    delivery to the informer ([filter_then_bind_witness_reachable_old]): three pools on the subnets of node1, node2,
    node3 respectively; the pod requests one address of each (pairwise disjoint, all free).  The pinned
    NodeSubnetsByIPRanges ([node_subnets_by_ranges_gen true]) approved node3's subnet, from which the allocation of
    the request is impossible ([pick_ips] = the pick phase of AllocateInSubnetsAndIPRange, which Bind runs): Bind
    on node3 failed although nothing else had happened.  The repaired intersection does not approve that subnet. *)
Theorem filter_then_bind_refuted_restart_old :
  ∃ i rss sn, Inv2 i ∧ ranges_disjoint rss ∧
    sn ∈ node_subnets_by_ranges_gen true i rss ∧ sn ∉ node_subnets_by_ranges i rss ∧ pick_ips i sn rss [] = None.
Proof. exact filter_then_bind_refuted_restart_old_l. Qed.
Print Assumptions filter_then_bind_refuted_restart_old.

(** those tables are reachable, and the repaired Filter offers no node there *)
Theorem filter_then_bind_witness_reachable_old :
  prun (pstep (world0 false ex_nodes) (PIpam (OConfigure ex_conf3 false []))).1
       [PEnv (EPodPut wit3_pod); PEnv (EInformer (pk wit3_pod))] = wit3 ∧
  WInv wit3 ∧ w_pods wit3 !! pk wit3_pod = Some wit3_pod ∧
  filter_section wit3 wit3_pod ex_allnodes no_oracle no_faults = (wit3, FNodes []).
Proof. split; [exact wit3_reachable|exact wit3_filter_now]. Qed.
Print Assumptions filter_then_bind_witness_reachable_old.

(** special cases that need no disjointness premise: pods without requested ranges *)
Theorem filter_then_bind_noranges : ∀ w p nodes o fl w1 l ns name node o2 w2 r,
  WInv w → w_pods w !! (ns, name) = Some p → pd_node p = [] → pd_ranges p = [] →
  filter_section w p nodes o fl = (w1, FNodes l) → In node l →
  w_lister w1 !! (ns, name) = Some p →
  bind_section true true w1 ns name (pd_uid p) node o2 no_faults = (w2, r) →
  (∃ ips, r = BOk ips) ∨ r = BStuck ∨
  (r = BErr ∧ ∃ y ey, i_alloc (w_ipam w1) !! y = Some ey ∧ e_key ey = pod_key p ∧ e_uid ey ≠ [] ∧ e_uid ey ≠ pd_uid p).
Proof. exact filter_then_bind_noranges_l. Qed.
Print Assumptions filter_then_bind_noranges.

(** ... and for requested ranges each of which already holds an IP of the key (nothing to allocate) *)
Theorem filter_then_bind_owned_ranges : ∀ w p nodes o fl w1 l ns name node o2 w2 r,
  WInv w → w_pods w !! (ns, name) = Some p → pd_node p = [] → pd_ranges p ≠ [] →
  Forall is_Some (by_key_ranges (w_ipam w) (pod_key p) (pd_ranges p)) →
  filter_section w p nodes o fl = (w1, FNodes l) → In node l →
  w_lister w1 !! (ns, name) = Some p →
  bind_section true true w1 ns name (pd_uid p) node o2 no_faults = (w2, r) →
  (∃ ips, r = BOk ips) ∨
  (r = BErr ∧ ∃ y ey, i_alloc (w_ipam w1) !! y = Some ey ∧ e_key ey = pod_key p ∧ e_uid ey ≠ [] ∧ e_uid ey ≠ pd_uid p).
Proof. exact filter_then_bind_owned_l. Qed.
Print Assumptions filter_then_bind_owned_ranges.

(** ... and, more generally, whenever at most ONE requested range list has no IP of the key yet ([missing_ranges]):
    overlapping needs two *)
Theorem filter_then_bind_partial : ∀ w p nodes o fl w1 l ns name node o2 w2 r,
  WInv w → w_pods w !! (ns, name) = Some p → pd_node p = [] →
  (pd_ranges p = [] ∨ List.length (missing_ranges (w_ipam w) p) ≤ 1)%nat →
  filter_section w p nodes o fl = (w1, FNodes l) → In node l →
  w_lister w1 !! (ns, name) = Some p →
  bind_section true true w1 ns name (pd_uid p) node o2 no_faults = (w2, r) →
  (∃ ips, r = BOk ips) ∨ r = BStuck ∨
  (r = BErr ∧ ∃ y ey, i_alloc (w_ipam w1) !! y = Some ey ∧ e_key ey = pod_key p ∧ e_uid ey ≠ [] ∧ e_uid ey ≠ pd_uid p).
Proof. exact filter_then_bind_partial_l. Qed.
Print Assumptions filter_then_bind_partial.

(** the hypotheses are satisfiable: a fresh statefulset pod on the tables of the process start ([ipam_init] = the
    tables of [pstep (world0 false nodes) (PIpam (OConfigure conf false []))], two pools): filter offers the three
    nodes that have a free routable IP (not node4) and changes nothing; bind on node3 with the choice 10.101.0.2
    succeeds and the IP comes with mask 24, gateway 10.101.0.1, vlan 0 - the values configured for its pool *)
Example filter_bind_nonvacuous :
  let w := ex_fresh_world in let p := ex_fresh_pod in let y := ip4 10 101 0 2 in
  WInv w ∧ w_pods w !! (L "ns1", L "web-0") = Some p ∧ w_lister w !! (L "ns1", L "web-0") = Some p ∧
  pd_node p = [] ∧ pd_ranges p = [] ∧ pd_kind p ≠ KDp ∧
  (∀ z ez, i_alloc (w_ipam w) !! z = Some ez → e_key ez ≠ pod_key p) ∧
  filter_section w p ex_allnodes no_oracle no_faults = (w, FNodes [L "node1"; L "node2"; L "node3"]) ∧
  (bind_section true true w (L "ns1") (L "web-0") (pd_uid p) (L "node3") (o_choice_is y) no_faults).2 = BOk [y] ∧
  ip_info (w_ipam (bind_section true true w (L "ns1") (L "web-0") (pd_uid p) (L "node3") (o_choice_is y) no_faults).1) y =
    Some (24, ip4 10 101 0 1, 0) ∧
  w_nodes w !! L "node3" = Some (ip4 10 3 0 5) ∧ node_subnet (w_ipam w) (ip4 10 3 0 5) = Some (ip4 10 3 0 0, 24) ∧
  ip_has_subnet (i_pools (w_ipam w)) y (ip4 10 3 0 0, 24) = true.
Proof. exact ex_fresh_l. Qed.

(** ... and with two range lists to allocate: a fresh pod requesting 10.100.0.3 (pool A: subnets of node1, node2) and
    10.101.0.2 (pool B: subnets of node1, node3) is offered node1 only; bind there writes both addresses *)
Example filter_then_bind_ranges_nonvacuous :
  let w := ex_ftb_world in let p := ex_ranges_pod in
  WInv w ∧ w_pods w !! (L "ns1", L "web-0") = Some p ∧ w_lister w !! (L "ns1", L "web-0") = Some p ∧ pd_node p = [] ∧
  ranges_disjoint (pd_ranges p) ∧ List.length (missing_ranges (w_ipam w) p) = 2%nat ∧
  filter_section w p ex_allnodes no_oracle no_faults = (w, FNodes [L "node1"]) ∧
  (bind_section true true w (L "ns1") (L "web-0") (pd_uid p) (L "node1") no_oracle no_faults).2 =
    BOk [ip4 10 100 0 3; ip4 10 101 0 2].
Proof. exact ex_ftb_ranges_l. Qed.
