(** C15 - Network-policy sync converges and leaves foreign rules alone.
    Property theorems only; proofs are in Proofs/PolicyP.v (witnesses, policy batch, composition of a Run),
    Proofs/PolicySetsP.v (createIPSet) and Proofs/PolicyPodsP.v (SyncPodChains / syncPods), on top of
    Proofs/NetfilterP.v.  The model is Model/Policy.v over the strict netfilter semantics of Model/Netfilter.v;
    the predicates (glx_exact, foreign_same, kernel_consistent, kernel_eqv and the shapes stale_referenced,
    stale_pod_state, nomatch_flip, conflicting_flags) are the decidable ones of Model/PolicySpec.v, which the
    driver also evaluates on the IMPLEMENTATION's dumps.  [H] is the name hash (nameHash / tableNameHash),
    [host] this node; kernel_after H host c n k = the kernel after n consecutive Runs of a freshly started
    PolicyManager on cluster c from kernel k.

    The FULL statements of the property are FALSE for the current code (known findings K5, K5b, K5c, K5d):

      sync_exact : forall H host c k, kernel_consistent k = true ->
        glx_exact H host c (kernel_after H host c 1 k) = true /\
        foreign_same k (kernel_after H host c 1 k) = true.

      sync_idem : forall H host c k, kernel_consistent k = true ->
        kernel_eqv (kernel_after H host c 2 k) (kernel_after H host c 1 k) = true.

    Each is refuted below by a witness over the faithful model (identity hash), in four independent ways; the
    prior kernels of the witnesses are states galaxy ITSELF produced (one Run on an earlier cluster from a node
    with foreign chains and sets), and the same histories are replayed on the real code (corpus/C15.json).
    What IS proved for all inputs: no batch names a missing chain or set before the -X lines
    (policy_batch_no_dangling, pod_batch_no_dangling), an accepted policy batch is exact (policy_chains_exact),
    createIPSet is exact from every non-conflicting prior content (sync_sets_exact), and a whole Run on a node
    without GLX-owned state is accepted, exact and leaves all foreign state alone (sync_exact_partial_fresh).
    Restart (Proofs/PolicyRunP.v): from EVERY prior kernel that already holds galaxy state and satisfies
    restart_pre = PolicySpec.partial_pre (consistent, none of the shapes K5 / K5b / K5c / K5d) && glx_shape
    (the GLX-owned part looks like something galaxy wrote: see PolicyRunP.glx_shape), a whole Run is accepted,
    exact and leaves foreign state alone (sync_exact_partial_restart), the next Run changes nothing
    (sync_idem_restart), and the kernel it leaves is again consistent and galaxy-shaped (run_keeps_shape); kernels
    without GLX state satisfy restart_pre (restart_pre_fresh).  Hence on every kernel written by galaxy's own
    Runs [galaxy_written] the hypothesis is EXACTLY "none of the four recorded shapes" (sync_exact_partial_written).
    partial_pre alone is NOT sufficient on arbitrary consistent kernels (sync_exact_partial_needs_shape: a hook
    rule held twice, a GLX-POD rule pinning a stale set - states only a third party editing galaxy's chains makes).
    NOT proved: events_converge (the event handlers are other code paths; states they leave are not covered by
    galaxy_written) - monitored on the implementation's dumps by the driver. *)
From Coq Require Import List Ascii String NArith Bool.
From Galaxy.Base Require Import Strs.
From Galaxy.Model Require Import Nets Netfilter Policy PolicySpec.
From Galaxy.Proofs Require Import NetfilterP PolicySetsP PolicyPodsP PolicyP PolicyRunP.
Import ListNotations.

(** ---- refutations of the full statements *)

(** K5: galaxy restarted across "policy old deleted, policy new created": the chain of the deleted policy is
    still referenced by a pod chain, its -X is refused, the whole batch is rejected - and that repeats: after
    ANY number of Runs the kernel is not the exact state *)
Theorem sync_exact_refuted_stale_referenced : exists (host : str) (c0 c : cluster) (k0 : kernel),
  let k := kernel_after idH host c0 1 k0 in
  kernel_consistent k = true /\ glx_exact idH host c0 k = true /\ stale_referenced idH c k = true /\
  forall n, glx_exact idH host c (kernel_after idH host c (S n) k) = false.
Proof. exact refuted_stale_referenced_l. Qed.
Print Assumptions sync_exact_refuted_stale_referenced.

(** K5b: a pod deleted while galaxy was down: its GLX-POD chain and hook rule survive every Run (no stale
    policy chain is involved) *)
Theorem sync_exact_refuted_stale_pod_chain : exists (host : str) (c0 c : cluster) (k0 : kernel),
  let k := kernel_after idH host c0 1 k0 in
  kernel_consistent k = true /\ glx_exact idH host c0 k = true /\
  stale_pod_state idH host c k = true /\ stale_referenced idH c k = false /\
  forall n, glx_exact idH host c (kernel_after idH host c (S n) k) = false.
Proof. exact refuted_stale_pod_chain_l. Qed.
Print Assumptions sync_exact_refuted_stale_pod_chain.

(** K5c: an ipBlock address moves from except to cidr: the Run re-adds the element with the new flag and then
    deletes it as a stale entry - the state after the Run is not exact (and none of the other shapes is present) *)
Theorem sync_exact_refuted_nomatch_flip : exists (host : str) (c0 c : cluster) (k0 : kernel),
  let k := kernel_after idH host c0 1 k0 in
  kernel_consistent k = true /\ glx_exact idH host c0 k = true /\ nomatch_flip idH c k = true /\
  stale_referenced idH c k = false /\ stale_pod_state idH host c k = false /\ conflicting_flags idH c = false /\
  glx_exact idH host c (kernel_after idH host c 1 k) = false.
Proof. exact refuted_nomatch_flip_exact_l. Qed.
Print Assumptions sync_exact_refuted_nomatch_flip.

(** ... and the second Run changes the kernel again (it restores the element): Run is not idempotent *)
Theorem sync_idem_refuted_nomatch_flip : exists (host : str) (c0 c : cluster) (k0 : kernel),
  let k := kernel_after idH host c0 1 k0 in
  kernel_consistent k = true /\ glx_exact idH host c0 k = true /\ nomatch_flip idH c k = true /\
  kernel_eqv (kernel_after idH host c 2 k) (kernel_after idH host c 1 k) = false /\
  glx_exact idH host c (kernel_after idH host c 2 k) = true.
Proof. exact refuted_nomatch_flip_idem_l. Qed.
Print Assumptions sync_idem_refuted_nomatch_flip.

(** K5d: one rule lists an address as the cidr of one ipBlock and as an except of another: from a node without
    any galaxy state, two consecutive Runs NEVER leave the same kernel, and no Run leaves the exact one *)
Theorem sync_idem_refuted_conflicting_flags : exists (host : str) (c : cluster) (k : kernel),
  kernel_consistent k = true /\ conflicting_flags idH c = true /\
  forall n, kernel_eqv (kernel_after idH host c (S (S n)) k) (kernel_after idH host c (S n) k) = false /\
            glx_exact idH host c (kernel_after idH host c (S n) k) = false.
Proof. exact refuted_conflicting_flags_l. Qed.
Print Assumptions sync_idem_refuted_conflicting_flags.

(** ---- what holds for all inputs *)

(** no_dangling, policy batch (syncIptables / writeChains): for EVERY hash, cluster and kernel, once createIPSet
    has succeeded for the compiled sets, every chain line and every -A line of the batch is accepted - they
    name only chains the batch itself creates and ipsets that exist.  The fate of the whole batch is decided
    by its trailing -X lines alone; these name existing, flushed, non-built-in chains, so the only possible
    refusal is "still referenced" (K5) *)
Theorem policy_batch_no_dangling : forall (H : str -> str) (c : cluster) (k : kernel) (s1 : sets),
  sync_sets (all_sets (compile H c)) (k_sets k) = (s1, true) ->
  let pols := compile H c in
  let stale := stale_policy_chains H pols (k_filter k) in
  exists t', apply_lines (set_names s1) (k_filter k) (policy_batch_head H pols stale) = Some t' /\
    apply_lines (set_names s1) (k_filter k) (policy_batch H pols stale) =
      apply_lines (set_names s1) t' (map LDelete stale) /\
    (forall cp, In cp pols -> has_chain (policy_chain H (cp_np cp)) t' = true) /\
    (forall x, In x stale -> tlookup x t' = Some [] /\ is_builtin x = false).
Proof. exact policy_batch_no_dangling_l. Qed.
Print Assumptions policy_batch_no_dangling.

(** whenever that batch IS accepted, the table holds exactly the compiled policy chains with exactly their
    rules, no other GLX-PLCY chain, and every other chain is untouched (chain names distinct under the hash) *)
Theorem policy_chains_exact : forall (H : str -> str) (c : cluster) (k : kernel) (s1 : sets) (t'' : table),
  NoDup (map (policy_chain H) (c_pols c)) ->
  sync_sets (all_sets (compile H c)) (k_sets k) = (s1, true) ->
  let pols := compile H c in
  restore (set_names s1) (k_filter k) (policy_batch H pols (stale_policy_chains H pols (k_filter k))) = (t'', true) ->
  (forall cp, In cp pols -> tlookup (policy_chain H (cp_np cp)) t'' = Some (policy_chain_rules cp)) /\
  (forall x, has_prefix plcy_prefix x = true -> has_chain x t'' = true ->
             In x (map (fun cp => policy_chain H (cp_np cp)) pols)) /\
  (forall x, has_prefix plcy_prefix x = false -> tlookup x t'' = tlookup x (k_filter k)).
Proof. exact policy_chains_exact_l. Qed.
Print Assumptions policy_chains_exact.

(** no_dangling, pod batch (SyncPodChains): for EVERY hash, list of compiled policies, pod, table and set list:
    if the chains of the policies selecting the pod exist, the batch is accepted, the pod chain holds exactly
    pod_chain_rules, and no other chain is changed *)
Theorem pod_batch_no_dangling : forall (H : str -> str) (pols : list cpolicy) (p : pod) (sn : list str) (t : table),
  (forall cp, In cp pols -> selects cp p = true -> has_chain (policy_chain H (cp_np cp)) t = true) ->
  exists t', restore sn t (pod_batch H pols p) = (t', true) /\
    tlookup (pod_chain H p) t' = Some (pod_chain_rules H pols p) /\
    (forall x, x <> pod_chain H p -> tlookup x t' = tlookup x t) /\ tpres t t'.
Proof. exact pod_batch_accepted_l. Qed.
Print Assumptions pod_batch_no_dangling.

(** createIPSet over a list of distinctly named sets, from ANY prior ipset state in which, for each wanted set
    that already exists: it has one entry per address, no wanted address is present with the other nomatch
    flag (K5c), no printed element contains a blank; and no wanted set lists one address with both flags (K5d)
    [set_pre].  Then: if nothing is refused every wanted set exists with the wanted type and exactly the wanted
    entries; sets not named are untouched; no set disappears and only wanted names appear; and nothing is
    refused unless an existing set has another type *)
Theorem sync_sets_exact : forall (l : list cset) (s s' : sets) (ok : bool),
  NoDup (map cs_name l) ->
  (forall cs, In cs l -> set_pre cs s) ->
  sync_sets l s = (s', ok) ->
  (ok = true -> forall cs, In cs l ->
     exists x, slookup (cs_name cs) s' = Some x /\ cset_eqv cs x = true /\ NoDup (map fst (s_elems x))) /\
  (forall n, ~ In n (map cs_name l) -> slookup n s' = slookup n s) /\
  (forall n, In n (set_names s) -> In n (set_names s')) /\
  (forall n, In n (set_names s') -> In n (set_names s) \/ In n (map cs_name l)) /\
  (NoDup (set_names s) -> NoDup (set_names s')) /\
  ((forall cs, In cs l -> match slookup (cs_name cs) s with Some x => s_type x = cs_type cs | None => True end) ->
   ok = true).
Proof. exact sync_sets_exact_l. Qed.
Print Assumptions sync_sets_exact.

(** sync_exact restricted to a FRESH node: for every hash H, node, cluster, manager memory and every consistent
    prior kernel that has no GLX-owned chain or set (arbitrary foreign chains, rules and sets) [fresh], provided
    H does not collide on the keys (name_namespace) of the cluster's policies nor on the keys of this node's
    pods [hash_distinct] and no rule lists one address with both nomatch flags (K5d): the whole Run
    (syncNetworkPolices; syncNetworkPolicyRules; syncPods) is accepted (no batch or command refused), the
    GLX-owned state afterwards is EXACTLY compile / pod_chain_rules / hooks of the cluster, and everything not
    GLX-owned is as before (FORWARD / INPUT / OUTPUT gain at most the jumps to GLX-INGRESS / GLX-EGRESS).
    Prior kernels that already hold GLX state: sync_exact_partial_restart below *)
Theorem sync_exact_partial_fresh : forall (H : str -> str) (host : str) (c : cluster) (k : kernel) (m : mgr),
  fresh k = true -> hash_distinct H host c = true -> conflicting_flags H c = false ->
  exists m' k', run H host c (m, k) = (m', k', true) /\
    glx_exact H host c k' = true /\ foreign_same k k' = true.
Proof. exact run_fresh_hash. Qed.
Print Assumptions sync_exact_partial_fresh.

(** the hypotheses are met by concrete non-trivial inputs: a node with a foreign chain, rule and set and the
    corpus cluster (three compiled sets); an existing set with an entry to keep, one to delete and one to add *)
Example c15_nonvacuous_fresh :
  fresh w_k0 = true /\ hash_distinct idH w_host w5_c0 = true /\ conflicting_flags idH w5_c0 = false /\
  List.length (all_sets (compile idH w5_c0)) = 3%nat /\ List.length (k_filter w_k0) = 4%nat.
Proof. exact c15_example_hash_l. Qed.

Example c15_nonvacuous_sets :
  NoDup (map cs_name [ex_cset]) /\ (forall cs, In cs [ex_cset] -> set_pre cs ex_sets) /\
  exists s', sync_sets [ex_cset] ex_sets = (s', true).
Proof. exact c15_example_sets_l. Qed.

(** ---- restart: prior kernels that already hold galaxy state *)

(** sync_exact for EVERY prior kernel k (any GLX-owned and foreign content) with restart_pre H host c k = true, i.e.
      partial_pre: kernel_consistent k; no GLX-PLCY chain the current policies do not have is still referenced (K5);
        every GLX-POD chain and every GLX-INGRESS / GLX-EGRESS rule belongs to a pod that is on this node with
        that address now (K5b); no element of a wanted set is present with the other nomatch flag (K5c); no rule
        lists one address with both flags (K5d);
      glx_shape: every "GLX..." chain is GLX-INGRESS, GLX-EGRESS, GLX-PLCY-* or GLX-POD-*; no rule outside the
        GLX-PLCY chains names a GLX set; no GLX-POD rule jumps to a GLX-POD chain; GLX-INGRESS / GLX-EGRESS hold no
        rule twice; no element of a GLX set contains a blank
    and every hash that does not collide on the cluster's policy keys and this node's pod keys: the whole Run is
    accepted, the GLX-owned state afterwards is exactly compile / pod_chain_rules / hooks of c - stale GLX sets
    destroyed, stale GLX-PLCY chains deleted, set contents corrected, chains of pods no policy selects any more and
    their hook rules removed - and everything not GLX-owned is as before *)
Theorem sync_exact_partial_restart : forall (H : str -> str) (host : str) (c : cluster) (k : kernel) (m : mgr),
  hash_distinct H host c = true -> restart_pre H host c k = true ->
  exists m' k', run H host c (m, k) = (m', k', true) /\
    glx_exact H host c k' = true /\ foreign_same k k' = true.
Proof. exact run_restart_bool. Qed.
Print Assumptions sync_exact_partial_restart.

(** sync_idem under the same hypotheses: the Run after a Run is accepted and changes nothing (finite maps; pod
    chains and hook chains up to rule order) *)
Theorem sync_idem_restart : forall (H : str -> str) (host : str) (c : cluster) (k : kernel) (m m' : mgr) (k' : kernel),
  hash_distinct H host c = true -> restart_pre H host c k = true ->
  run H host c (m, k) = (m', k', true) ->
  exists m'' k'', run H host c (m', k') = (m'', k'', true) /\ kernel_eqv k'' k' = true.
Proof. exact run_idem_bool. Qed.
Print Assumptions sync_idem_restart.

(** who satisfies the hypothesis: every kernel without GLX state (for every cluster without K5d) ... *)
Theorem restart_pre_fresh : forall (H : str -> str) (host : str) (c : cluster) (k : kernel),
  fresh k = true -> conflicting_flags H c = false -> restart_pre H host c k = true.
Proof. exact fresh_restart_pre. Qed.
Print Assumptions restart_pre_fresh.

(** ... and the cluster-independent part of it is kept by every such Run: the kernel it leaves is consistent and
    galaxy-shaped, so for ANY later cluster c2 it satisfies restart_pre iff it shows none of the four shapes *)
Theorem run_keeps_shape : forall (H : str -> str) (host : str) (c : cluster) (k : kernel) (m m' : mgr) (k' : kernel),
  hash_distinct H host c = true -> restart_pre H host c k = true ->
  run H host c (m, k) = (m', k', true) ->
  kernel_consistent k' = true /\ glx_shape k' = true.
Proof. exact run_keeps_wf. Qed.
Print Assumptions run_keeps_shape.

(** galaxy restarts (any number of times, any sequence of clusters): on a kernel written by galaxy's own Runs from
    a node without GLX state [galaxy_written: closure of the fresh kernels under successful Runs from states
    outside the four shapes], the ONLY hypothesis is partial_pre - none of the four recorded defect shapes: the
    Run is accepted, exact, leaves foreign state alone, its result is again galaxy_written, and the next Run
    changes nothing *)
Theorem sync_exact_partial_written : forall (H : str -> str) (host : str) (c : cluster) (k : kernel) (m : mgr),
  galaxy_written H host k -> hash_distinct H host c = true -> partial_pre H host c k = true ->
  exists m' k', run H host c (m, k) = (m', k', true) /\
    glx_exact H host c k' = true /\ foreign_same k k' = true /\ galaxy_written H host k' /\
    exists m'' k'', run H host c (m', k') = (m'', k'', true) /\ kernel_eqv k'' k' = true.
Proof. exact run_written. Qed.
Print Assumptions sync_exact_partial_written.

(** partial_pre alone does NOT suffice on arbitrary consistent kernels: (1) GLX-INGRESS holding pod web's hook
    rule twice - consistent, none of the four shapes, and NO number of Runs reaches the exact state; (2) a
    GLX-POD chain with a rule that names a GLX set no policy wants - the set survives the first Run (destroy
    refused: still referenced) and the second Run changes the kernel again *)
Theorem sync_exact_partial_needs_shape :
  (let k := dup_hooks r_k in
   partial_pre idH w_host w5_c0 k = true /\ hash_distinct idH w_host w5_c0 = true /\ glx_shape k = false /\
   forall n, glx_exact idH w_host w5_c0 (kernel_after idH w_host w5_c0 (S n) k) = false) /\
  (let k := pin_set r_k in
   partial_pre idH w_host w5_c0 k = true /\ glx_shape k = false /\
   glx_exact idH w_host w5_c0 (kernel_after idH w_host w5_c0 1 k) = false /\
   kernel_eqv (kernel_after idH w_host w5_c0 2 k) (kernel_after idH w_host w5_c0 1 k) = false).
Proof. exact partial_pre_insufficient_l. Qed.
Print Assumptions sync_exact_partial_needs_shape.

(** the restart hypothesis is met by a non-fresh kernel: what galaxy left for corpus cluster 0 (foreign chain, rule
    and set; 3 GLX sets, policy and pod chains, hooks) restarted on a cluster with another local pod, another
    remote pod and a second policy (6 compiled sets); and the four corpus defect cases FAIL it *)
Example c15_nonvacuous_restart :
  fresh r_k = false /\ restart_pre idH w_host r_c r_k = true /\ hash_distinct idH w_host r_c = true /\
  List.length (all_sets (compile idH r_c)) = 6%nat /\
  restart_pre idH w_host w5_c r_k = false /\
  restart_pre idH w_host w5b_c (kernel_after idH w_host w5b_c0 1 w_k0) = false /\
  restart_pre idH w_host w5c_c (kernel_after idH w_host w5b_c0 1 w_k0) = false /\
  restart_pre idH w_host w5d_c w_k0 = false.
Proof. exact restart_example_l. Qed.

(** events, the part that is a Run: the AddPolicy / UpdatePolicy handler (syncNetworkPolices; syncNetworkPolicyRules;
    syncPods with the pod informer started) on a galaxy-written kernel outside the four shapes is accepted, exact,
    leaves foreign state alone and its result is again galaxy-written.  The DeletePolicy and pod handlers are NOT
    covered (see the header) *)
Theorem events_policy_added_exact : forall (H : str -> str) (host : str) (c : cluster) (k : kernel) (m : mgr),
  galaxy_written H host k -> hash_distinct H host c = true -> partial_pre H host c k = true ->
  exists m' k', on_policy_added H host c (m, k) = (m', k', true) /\ glx_exact H host c k' = true /\
    foreign_same k k' = true /\ galaxy_written H host k'.
Proof. exact policy_added_written. Qed.
Print Assumptions events_policy_added_exact.
