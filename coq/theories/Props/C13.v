(** C13 - The IPs a plugin configures are exactly the IPs IPAM allocated.
    Property theorems only; proofs are in Proofs/IpInfoCodecP.v (dotted-quad / CIDR round trips come
    from Proofs/NetsP.v). *)
From Coq Require Import List Ascii String NArith ZArith Permutation.
From Galaxy.Base Require Import Strs.
From Galaxy.Model Require Import Nets IpInfoCodec.
From Galaxy.Proofs Require Import IpInfoCodecP.
Import ListNotations.
Open Scope N_scope.

(** [ipinfo_ok i]: address < 2^32, prefix length <= 32, VLAN < 2^16, gateway (if any) < 2^32 - the
    ranges of the Go types.  [rr_ok rr]: the re-encoded request_ip_range member, if present, is any
    JSON value of the scanner's domain (escape-free ASCII strings, numbers < 2^16).

    End to end: for every non-empty list of allocated IPs, whatever request_ip_range accompanies it,
    WHATEVER arguments the kubelet sent (even ones naming an ipinfos key themselves), for every
    network position (number of networks = length of [orders], the one being configured is the
    last) and every iteration order of galaxy's argument maps: the daemon extracts exactly the
    encoder's text from the annotation Bind wrote, and the plugins' decoder applied to the
    accumulated CNI_ARGS returns exactly the allocated addresses, prefix lengths, gateways and
    VLAN ids, in order. *)
Theorem ipinfos_end_to_end : forall l rr kubelet orders,
  Forall ipinfo_ok l -> l <> [] -> rr_ok rr -> orders <> [] ->
  exists ext, ext_args (annotation rr l) = Some ext /\
    (Forall (fun o => Permutation ext o) orders ->
     allocate (accumulate kubelet (map build_args orders)) =
     DOk (map ii_vlan l) (map (fun i => (ii_addr i, ii_len i, ii_gw i)) l)).
Proof. exact ipinfos_end_to_end_l. Qed.
Print Assumptions ipinfos_end_to_end.

(** no IP allocated: after any number of networks nothing is configured from IPAM - the decoder
    reports "no ipinfos" - provided the kubelet's own arguments carry no ipinfos key *)
Theorem no_ipinfos_nothing_configured : forall rr kubelet n,
  rr_ok rr -> get_arg (L "ipinfos") kubelet = None ->
  exists ext, ext_args (annotation rr []) = Some ext /\
    allocate (accumulate kubelet (repeat (build_args ext) n)) = DNone.
Proof. exact no_ipinfos_l. Qed.
Print Assumptions no_ipinfos_nothing_configured.

(** the daemon's raw-member scanner returns exactly the encoder's text for the annotation Bind writes *)
Theorem annotation_scanned : forall rr l, rr_ok rr -> Forall ipinfo_ok l ->
  ext_args (annotation rr l) = Some (match l with [] => [] | _ => [(L "ipinfos", enc_ipinfos l)] end).
Proof. exact annotation_scanned_l. Qed.
Print Assumptions annotation_scanned.

(** lemmas that make the k=v;... layer lossless: the encoder emits no ';', no white space at either
    end, and the key contains neither '=' nor ';' nor outer white space *)
Theorem enc_no_semicolon : forall l, Forall ipinfo_ok l -> ~ In ";"%char (enc_ipinfos l).
Proof. exact enc_no_semicolon_l. Qed.
Print Assumptions enc_no_semicolon.

Theorem enc_no_outer_space : forall l, trim_space (enc_ipinfos l) = enc_ipinfos l /\ enc_ipinfos l <> [].
Proof. exact enc_no_outer_space_l. Qed.
Print Assumptions enc_no_outer_space.

Theorem ipinfos_key_no_equals :
  ~ In "="%char (L "ipinfos") /\ ~ In ";"%char (L "ipinfos") /\ trim_space (L "ipinfos") = L "ipinfos".
Proof. exact ipinfos_key_no_equals_l. Qed.
Print Assumptions ipinfos_key_no_equals.

(** the JSON scanner reads back every printed value of its domain (and, inside objects, hands out
    the raw text of each member: top_members_print) *)
Theorem json_print_parse : forall v, jv_ok v ->
  parse_json (print_json v) = Some v /\
  (forall m, v = VObj m -> top_members (print_json v) = Some (map (fun kv => (fst kv, snd kv, print_json (snd kv))) m)).
Proof.
  intros v H. split; [apply parse_json_print, H|]. intros m ->. exact (top_members_print m H).
Qed.
Print Assumptions json_print_parse.

(** the decoder inverts the encoder *)
Theorem decode_encode : forall l, Forall ipinfo_ok l -> l <> [] ->
  dec_ipinfos (enc_ipinfos l) = DOk (map ii_vlan l) (map (fun i => (ii_addr i, ii_len i, ii_gw i)) l).
Proof. exact decode_encoded. Qed.
Print Assumptions decode_encode.

(** the hypotheses are met by a concrete non-trivial list (two IPs, boundary values, one without gateway) *)
Example hypotheses_nonvacuous : Forall ipinfo_ok example_infos /\ example_infos <> [] /\
  annotation None example_infos =
  L "{""common"":{""ipinfos"":[{""ip"":""10.0.0.5/24"",""vlan"":2,""gateway"":""10.0.0.1""},{""ip"":""255.255.255.255/32"",""vlan"":65535,""gateway"":""""}]}}".
Proof. exact example_infos_ok. Qed.
