(** C13 - The IPs a plugin configures are exactly the IPs IPAM allocated. (theorems follow) *)
From Galaxy.Model Require Import IpInfoCodec.
