(** C20 - Floating-IP configuration and IP ranges decode, validate and round-trip.
    Property theorems only; proofs are in Proofs/NetsP.v and Proofs/PoolP.v.
    [cur_flags] is the model variant that the correspondence check ties to /repo's current tree. *)
From Coq Require Import List NArith.
From Galaxy.Base Require Import Strs.
From Galaxy.Model Require Import Nets Pool.
From Galaxy.Proofs Require Import NetsP PoolP.
Import ListNotations.
Open Scope N_scope.

(** every dotted quad, CIDR and range prints to text that parses back to itself *)
Theorem ipv4_roundtrip : forall n, n < two32 -> parse_ipv4 (print_ipv4 n) = Some n.
Proof. exact ipv4_roundtrip_l. Qed.
Print Assumptions ipv4_roundtrip.

Theorem cidr_roundtrip : forall a l, a < two32 -> l <= 32 -> parse_cidr (print_cidr a l) = Some (a, l).
Proof. exact cidr_roundtrip_l. Qed.
Print Assumptions cidr_roundtrip.

Theorem range_roundtrip : forall f l, f <= l -> l < two32 -> parse_range (print_range (f, l)) = Some (f, l).
Proof. exact range_roundtrip_l. Qed.
Print Assumptions range_roundtrip.

(** every accepted configuration has ranges inside the pool's subnet, each first <= last, sorted,
    disjoint and not mergeable (gap of at least one address) *)
Theorem accepted_valid : forall j p, unmarshal_pool cur_flags j = Ok p -> pool_valid p = true.
Proof. exact accepted_valid_l. Qed.
Print Assumptions accepted_valid.

(** for pod subnets other than /0: the walk returns, Size() is the number of addresses it
    yields, and no address is yielded twice *)
Theorem size_card : forall j p, unmarshal_pool cur_flags j = Ok p -> 1 <= p_masklen p ->
  exists l, enumerate cur_flags (N.to_nat (total_size p) + 2) p = Some l /\
            pool_size32 p = N.of_nat (List.length l) /\ NoDup l.
Proof. intros j p H L. exists (pool_list p). apply size_card_l; [eapply accepted_wf; eassumption|assumption]. Qed.
Print Assumptions size_card.

(** membership agrees with the enumeration *)
Theorem contains_enumerate : forall j p x, unmarshal_pool cur_flags j = Ok p ->
  forall l, enumerate cur_flags (N.to_nat (total_size p) + 2) p = Some l ->
  (pool_contains p x = true <-> In x l).
Proof.
  intros j p x H l E. pose proof (wf_ranges _ (accepted_wf _ _ H)) as F.
  rewrite enumerate_spec in E by assumption. inversion E; subst. apply contains_enumerate_l; assumption.
Qed.
Print Assumptions contains_enumerate.

(** the walk over ANY list of ordered ranges below 2^32 (accepted or requested by a pod)
    returns within the stated fuel - including ranges ending at 255.255.255.255 *)
Theorem enumerate_terminates : forall p, Forall range_ok (p_ranges p) ->
  enumerate cur_flags (N.to_nat (total_size p) + 2) p <> None.
Proof. exact enumerate_terminates_l. Qed.
Print Assumptions enumerate_terminates.

(** encoding an accepted pool and decoding it again yields the same pool *)
Theorem pool_roundtrip : forall j p, unmarshal_pool cur_flags j = Ok p ->
  unmarshal_pool cur_flags (marshal_pool p) = Ok p.
Proof. exact pool_roundtrip_l. Qed.
Print Assumptions pool_roundtrip.

(** the hypotheses are met by a concrete non-trivial configuration *)
Example accepted_nonvacuous : exists p, unmarshal_pool cur_flags example_conf = Ok p /\
  List.length (p_nodesubnets p) = 2%nat /\ List.length (p_ranges p) = 3%nat /\ total_size p = 10 /\ p_masklen p = 24.
Proof. exact example_accepted. Qed.

(** Defects of the pinned commit, repaired by `fix:` commits (F9, F4); the witnesses are corpus cases. *)
Theorem accepted_valid_refuted_wrap :
  exists j p, unmarshal_pool old_flags j = Ok p /\ pool_valid p = false /\ pool_size32 p = 2.
Proof. exact accepted_valid_refuted_wrap_l. Qed.
Print Assumptions accepted_valid_refuted_wrap.

Theorem walk_refuted_wrap : forall fuel cur acc, cur < two32 ->
  walk_range old_flags fuel cur 4294967295 acc = None.
Proof. exact walk_refuted_wrap_l. Qed.
Print Assumptions walk_refuted_wrap.
