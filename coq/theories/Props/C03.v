(** C03 - IPs are released exactly when the release policy says so.

    "With the default policy an IP returns to the free pool once its pod is deleted or has finished; with immutable
    it is kept until the owning workload is deleted or scaled below that pod (for deployments: while the app holds no
    more IPs than replicas); with never, and for every pod using a named IP pool, it is kept until an administrator
    releases it through the API.  Once pending pod events have been handled and one resync pass has run, no IP stays
    assigned to a pod that no longer exists unless its policy reserves it."

    Model: Model/Plugin.v (sections [unbind_section], [resync_section], [api_release_section], ...).
    Specification (written from the text above, not from the code): Proofs/PluginPolicyP.v, section 1 -
    [verdict], [policy_verdict], [pod_ordinal], [sts_named], [lost], [verdict_allows], [licence], [cleared],
    [resync_pass]; further [keeps], [still_reserved], [can_reserve], [pod_gone].  Proofs: Proofs/PluginPolicyP.v.
    The only assumptions on histories are [wf_op] / [WInv] of Proofs/PluginInv.v.
    Section 6 (the converse direction: nothing is released while the pod is alive; invariant [KeyUid], F18):
    Proofs/PluginLiveP.v.

    Policy codes: 0 default, 1 immutable, 2 never ([policy_of]: a pool annotation means never).  Codes above 2
    are not produced by parseReleasePolicy; statements that depend on the decision carry the premise [pol ≤ 2]
    (the model's deployment branch treats an unknown code as immutable, the other branch ignores it). *)
From Coq Require Import String.
From stdpp Require Import gmap.
From Galaxy.Base Require Import Strs.
From Galaxy.Model Require Import Nets Pool Ipam Plugin.
From Galaxy.Model Require Keys.
From Galaxy.Proofs Require Import IpamP PluginInv PluginUnbindP PluginWitness PluginStaleP PluginPolicyP PluginLiveP.
From Galaxy.Proofs Require Import PluginReplicasP.
From Galaxy.Proofs Require Import PluginRoundsP.
Local Open Scope N_scope.

(** 1. Safety, one step of a well-formed history: an IP allocated under the key of pod [q] that is free or keyed
    differently after the step was taken away with a licence - an API release of exactly that IP and key while the
    pod is not running; a reload / restart whose configuration no longer contains the IP; or a pod event / resync
    item for that key whose pod is not a live incarnation and whose policy verdict (policy of the event's pod object,
    resp. the stored policy of the item) is [MustFree] if the IP is now free, [KeepForApp] if it is now parked under
    the application / pool prefix. *)
Theorem release_only_when_licensed : ∀ w o x e q,
  WInv w → wf_op w o → i_alloc (w_ipam w) !! x = Some e → wf_pod q → e_key e = pod_key q →
  lost (w_ipam (pstep w o).1) x (pod_key q) → licence w o x q (w_ipam (pstep w o).1).
Proof. exact release_only_when_licensed_l. Qed.
Print Assumptions release_only_when_licensed.

(** never (and every pod with a pool annotation: [policy_of] = 2): no pod event and no resync item takes the IP
    away - it stays under the pod key, or parked under the application / pool prefix (deployments) *)
Theorem never_kept : ∀ w x e q,
  WInv w → i_alloc (w_ipam w) !! x = Some e → wf_pod q → e_key e = pod_key q → can_reserve q →
  (∀ n orc oun fl qe, w_queue w !! n = Some qe → pod_key qe = pod_key q → policy_of qe = 2 →
     still_reserved (w_ipam (pstep w (PEvent n orc oun fl)).1) x q) ∧
  (∀ x0 orc ocl fl e0, i_alloc (w_ipam w) !! x0 = Some e0 → e_key e0 = pod_key q → e_policy e0 = 2 →
     still_reserved (w_ipam (pstep w (PResync x0 orc ocl fl)).1) x q).
Proof. exact never_kept_l. Qed.
Print Assumptions never_kept.

(** immutable, statefulset exists and the pod's ordinal is below its replicas: the IP stays under the pod key *)
Theorem immutable_kept_sts : ∀ w x e q r idx,
  WInv w → i_alloc (w_ipam w) !! x = Some e → wf_pod q → e_key e = pod_key q →
  pd_kind q = KSts → w_sts w !! (pd_ns q, pd_app q) = Some r → pod_ordinal (pd_name q) = Some idx → idx < r →
  (∀ n orc oun fl qe, w_queue w !! n = Some qe → pod_key qe = pod_key q → policy_of qe = 1 →
     keeps (w_ipam (pstep w (PEvent n orc oun fl)).1) x (pod_key q)) ∧
  (∀ x0 orc ocl fl e0, i_alloc (w_ipam w) !! x0 = Some e0 → e_key e0 = pod_key q → e_policy e0 = 1 →
     keeps (w_ipam (pstep w (PResync x0 orc ocl fl)).1) x (pod_key q)).
Proof. exact immutable_kept_sts_l. Qed.
Print Assumptions immutable_kept_sts.

(** 2. Default policy: the handled delete / finish event of the pod frees every IP of its key (premise of the F1
    test: no IP of the key is stored for another incarnation) *)
Theorem default_released_by_event : ∀ w n q o oun fl w',
  WInv w → w_queue w !! n = Some q → policy_of q = 0 → f_store fl = None →
  (∀ x e, i_alloc (w_ipam w) !! x = Some e → e_key e = pod_key q → e_uid e = [] ∨ e_uid e = pd_uid q) →
  pstep w (PEvent n o oun fl) = (w', ROk) →
  ∀ x e, i_alloc (w_ipam w) !! x = Some e → e_key e = pod_key q → i_alloc (w_ipam w') !! x = None.
Proof. exact default_released_by_event_w. Qed.
Print Assumptions default_released_by_event.

(** 3. One resync item (with or without cloud provider) does to ALL IPs of the key exactly what the verdict for the
    stored policy says: free / keep under the pod key with node and uid cleared / park under the prefix *)
Theorem resync_item_exact : ∀ w ip e q o ocl fl w' r,
  WInv w → i_alloc (w_ipam w) !! ip = Some e → wf_pod q → e_key e = pod_key q →
  resync_skip e (keyobj_of q) = false → pod_running w (pd_ns q) (pd_name q) (e_uid e) = false →
  e_policy e ≤ 2 → (pd_kind q = KSts → sts_named (pd_name q)) →
  f_store fl = None → f_cloud fl = None →
  resync_section w ip o ocl fl = (w', r) → r ≠ SStuck →
  same_env w w' ∧
  ∀ y ey, i_alloc (w_ipam w) !! y = Some ey → e_key ey = pod_key q →
    match policy_verdict w (keyobj_of q) (e_policy e) with
    | MustFree => i_alloc (w_ipam w') !! y = None
    | KeepForPod => ∃ ey', i_alloc (w_ipam w') !! y = Some ey' ∧ cleared ey ey' (pod_key q)
    | KeepForApp => ∃ ey', i_alloc (w_ipam w') !! y = Some ey' ∧ cleared ey ey' (Keys.pool_prefix (keyobj_of q))
    end.
Proof. exact resync_item_exact_w. Qed.
Print Assumptions resync_item_exact.

(** 4. After one resync pass over (at least) all allocated IPs, in any order: every entry under a pod key that the
    pass does not skip and whose pod is not running is one that the policy keeps for the pod - in particular its
    verdict is not [MustFree].  (Holds for any event queue and informer state.) *)
Theorem resync_pass_exact : ∀ w items w',
  WInv w → (∀ x, is_Some (i_alloc (w_ipam w) !! x) → x ∈ items) → resync_pass w items w' →
  ∀ x e q, i_alloc (w_ipam w') !! x = Some e → wf_pod q → e_key e = pod_key q → e_policy e ≤ 2 →
           resync_skip e (keyobj_of q) = false → pod_running w' (pd_ns q) (pd_name q) (e_uid e) = false →
           policy_verdict w' (keyobj_of q) (e_policy e) = KeepForPod.
Proof. exact resync_pass_exact_w. Qed.
Print Assumptions resync_pass_exact.

(** the same in the words of the property: informer = API server; no IP stays assigned to a pod incarnation that
    no longer exists (or has finished) unless the policy reserves it for the pod *)
Theorem resync_pass_no_orphans : ∀ w items w',
  WInv w → w_lister w = w_pods w → (∀ x, is_Some (i_alloc (w_ipam w) !! x) → x ∈ items) → resync_pass w items w' →
  ∀ x e q, i_alloc (w_ipam w') !! x = Some e → wf_pod q → e_key e = pod_key q → e_policy e ≤ 2 →
           resync_skip e (keyobj_of q) = false → pod_gone w' q (e_uid e) →
           policy_verdict w' (keyobj_of q) (e_policy e) = KeepForPod.
Proof. exact resync_pass_no_orphans_l. Qed.
Print Assumptions resync_pass_no_orphans.

(** 5. K1 (defect): the property says an immutable IP is kept only "until the owning workload is deleted".  A reachable
    world: the IP 10.100.0.2 parked under the application prefix "dp_ns1_app_" (policy immutable) of a deployment
    that has been deleted, no pod, no event left - and no resync item, hence no resync pass, ever releases it
    ([resync_skip] skips every key without a pod name). *)
Theorem dp_reserve_leak_refuted :
  ∃ w x e, WInv w ∧ w_pods w = ∅ ∧ w_lister w = ∅ ∧ w_queue w = [] ∧ w_dps w = ∅ ∧
    i_alloc (w_ipam w) !! x = Some e ∧ e_key e = L "dp_ns1_app_" ∧ e_policy e = 1 ∧ e_uid e = [] ∧
    (∀ ip o ocl fl, i_alloc (w_ipam (resync_section w ip o ocl fl).1) !! x = Some e) ∧
    (∀ items w', resync_pass w items w' → i_alloc (w_ipam w') !! x = Some e).
Proof. exact dp_reserve_leak_refuted_l. Qed.
Print Assumptions dp_reserve_leak_refuted.

(** in general: an entry whose key has no pod name (the reserve of a deployment / pool) survives every resync item *)
Theorem prefix_reserve_survives_resync : ∀ w x e ip o ocl fl,
  WInv w → i_alloc (w_ipam w) !! x = Some e → Keys.is_empty (Keys.ko_pod (Keys.parse_key (e_key e))) = true →
  i_alloc (w_ipam (resync_section w ip o ocl fl).1) !! x = Some e.
Proof. exact prefix_reserve_survives_resync_w. Qed.
Print Assumptions prefix_reserve_survives_resync.

(** The hypotheses are satisfiable and the conclusions non-trivial: the immutable pod web-0 of statefulset ns1/web gets
    10.100.0.2 and is deleted, its event is lost.  Statefulset scaled to 0: verdict [MustFree], one resync pass frees
    the IP.  Scaled to 1: verdict [KeepForPod], the pass keeps the IP under the pod key with node and uid cleared. *)
Example c03_nonvacuous :
  let q := c03_spod 1 in
  let w := c03_w_sts 1 (Some 0) in
  let w2 := c03_w_sts 1 (Some 1) in
  wf_pod q ∧ sts_named (pd_name q) ∧
  WInv w ∧ w_queue w = [] ∧ w_lister w = w_pods w ∧
  (∃ e, i_alloc (w_ipam w) !! c03_ip = Some e ∧ e_key e = pod_key q ∧ e_policy e = 1 ∧ e_uid e = L "uA" ∧
        resync_skip e (keyobj_of q) = false ∧ pod_running w (pd_ns q) (pd_name q) (e_uid e) = false ∧
        pod_gone w q (e_uid e) ∧ policy_verdict w (keyobj_of q) (e_policy e) = MustFree) ∧
  (∀ x, is_Some (i_alloc (w_ipam w) !! x) → x ∈ [c03_ip]) ∧
  (∃ w', resync_pass w [c03_ip] w' ∧ i_alloc (w_ipam w') !! c03_ip = None) ∧
  WInv w2 ∧ policy_verdict w2 (keyobj_of q) 1 = KeepForPod ∧
  (∃ w' e', resync_pass w2 [c03_ip] w' ∧ i_alloc (w_ipam w') !! c03_ip = Some e' ∧ e_key e' = pod_key q ∧
            e_uid e' = [] ∧ e_node e' = [] ∧ e_policy e' = 1).
Proof. exact c03_example_l. Qed.
Print Assumptions c03_nonvacuous.

(** 6. The IP of a pod that is alive is not released - whether the pod is bound or not (F18).

    [WInv] speaks about live BOUND pods only.  A deployment pod handed a reserved IP at Filter time holds an entry stored
    for its UID before it is bound.  What protects that entry is the invariant [KeyUid]: all entries of one key carry the
    same UID or the empty UID.  It holds in every reachable world: Filter gives a key an entry only when it has none, Bind
    and the pod-IP sync refuse while an IP of the key is stored for another UID (F13, F18), events / resync items / API
    releases only remove entries or clear their UID, reload / restart rebuild the table from the store. *)
Theorem keyuid_preserved : ∀ w o, WInv w → KeyUid w → wf_op w o → KeyUid (pstep w o).1.
Proof. exact keyuid_step. Qed.
Print Assumptions keyuid_preserved.

Theorem keyuid_invariant : ∀ provider nodes ops, wf_hist (world0 provider nodes) ops →
  let w := prun (world0 provider nodes) ops in
  ∀ x e y e', i_alloc (w_ipam w) !! x = Some e → i_alloc (w_ipam w) !! y = Some e' → e_key e = e_key e' →
              e_uid e = [] ∨ e_uid e' = [] ∨ e_uid e = e_uid e'.
Proof. exact keyuid_reachable. Qed.
Print Assumptions keyuid_invariant.

(** one resync item - of ANY IP - leaves an entry stored for the UID of an alive pod of the API server under the pod's key
    (same key: the item's entry is stored for the pod's UID or for none, so "pod running" holds and nothing happens;
    other key: the item does not touch the entry) *)
Theorem resync_keeps_alive_pod : ∀ w ip o ocl fl x e p, WInv w → KeyUid w →
  i_alloc (w_ipam w) !! x = Some e → e_uid e ≠ [] → e_uid e = pd_uid p →
  w_pods w !! pk p = Some p → finished p = false → pod_key p = e_key e →
  ∃ e', i_alloc (w_ipam (resync_section w ip o ocl fl).1) !! x = Some e' ∧ e_key e' = e_key e.
Proof. exact resync_keeps_alive. Qed.
Print Assumptions resync_keeps_alive_pod.

(** a pod event of another incarnation ([q], any well-formed pod object) does not touch it either: under the same key the
    F1 test fires on the entry itself ... *)
Theorem event_keeps_alive_pod : ∀ w q o oun fl x e p, WInv w →
  i_alloc (w_ipam w) !! x = Some e → e_uid e ≠ [] → e_uid e = pd_uid p → pod_key p = e_key e →
  wf_pod q → pd_uid q ≠ pd_uid p →
  ∃ e', i_alloc (w_ipam (unbind_section true w q o oun fl).1) !! x = Some e' ∧ e_key e' = e_key e.
Proof. exact event_keeps_alive. Qed.
Print Assumptions event_keeps_alive_pod.

(** ... and the queue never holds an event of an incarnation that is alive *)
Theorem queued_event_keeps_alive_pod : ∀ w n o oun fl x e p, WInv w →
  i_alloc (w_ipam w) !! x = Some e → e_uid e ≠ [] → e_uid e = pd_uid p →
  w_pods w !! pk p = Some p → finished p = false → pod_key p = e_key e →
  ∃ e', i_alloc (w_ipam (pstep w (PEvent n o oun fl)).1) !! x = Some e' ∧ e_key e' = e_key e.
Proof. exact event_step_keeps_alive. Qed.
Print Assumptions queued_event_keeps_alive_pod.

(** in every reachable world, for every pod event and every resync item ([release_step]) *)
Theorem alive_pod_keeps_ip : ∀ provider nodes ops op x e p,
  wf_hist (world0 provider nodes) ops → release_step op →
  let w := prun (world0 provider nodes) ops in
  i_alloc (w_ipam w) !! x = Some e → e_uid e ≠ [] → e_uid e = pd_uid p →
  w_pods w !! pk p = Some p → finished p = false → pod_key p = e_key e →
  ∃ e', i_alloc (w_ipam (pstep w op).1) !! x = Some e' ∧ e_key e' = e_key e.
Proof. exact alive_pod_keeps_ip_l. Qed.
Print Assumptions alive_pod_keeps_ip.

(** F18 (defect, repaired in 58ad117): before the repair the pod-IP sync ([sync_pod_ip_old] of Proofs/PluginStaleP.v: no test
    of the UIDs the key's IPs are stored for) broke this on a reachable world - the history the real code ran
    (Proofs/PluginLiveP.v [h_live1], [h_live2]).  Deployment ns1/dp, policy immutable: dp-aaa (uA) and dp-bbb are bound to
    10.100.0.2 / 10.100.0.3, dp-aaa runs - [pa] is the object the informer shows; dp-bbb is deleted (10.100.0.3 parked
    under the deployment prefix), the deployment is scaled to 1, dp-aaa is deleted (10.100.0.2 released); a new pod
    dp-aaa (uB) - [p] - is created and Filter hands it 10.100.0.3 (stored for uB; alive, not bound, not yet seen by the
    informer).  The sync with the earlier object [pa] takes 10.100.0.2 back under the shared key, stored for uA: [WInv]
    still holds, [KeyUid] does not; the resync item of 10.100.0.2 finds "pod (uA) not running" and releases every IP of the
    key - 10.100.0.3 of the alive pod included.  The repaired sync is refused and the same continuation keeps it. *)
Theorem alive_pod_keeps_ip_refuted_old : ∃ nodes ops1 ops pa ip o ocl x e p,
  (* a well-formed history - continued with the (repaired) sync step and the resync item - in which no step is stuck *)
  wf_hist (world0 false nodes) ((ops1 ++ ops) ++ [PSyncPod pa no_faults; PResync ip o ocl no_faults]) ∧
  existsb is_stuck (trace_fl true true true (world0 false nodes)
                      ((ops1 ++ ops) ++ [PSyncPod pa no_faults; PResync ip o ocl no_faults])) = false ∧
  (* [pa] is the object the informer showed after [ops1]: Running, annotated with [ip] *)
  w_lister (prun (world0 false nodes) ops1) !! pk pa = Some pa ∧ pd_phase pa = 1 ∧ pd_ips pa = [ip] ∧
  let w := prun (world0 false nodes) (ops1 ++ ops) in
  WInv w ∧ KeyUid w ∧ wf_op w (PSyncPod pa no_faults) ∧
  (* the informer shows no pod of that name now: the object is synced as given, by the old code and by the repaired *)
  w_lister w !! pk pa = None ∧
  (* [p] is the pod of that name now: another incarnation, alive, not bound, holding [x] under its key for its UID *)
  i_alloc (w_ipam w) !! x = Some e ∧ e_uid e ≠ [] ∧ e_uid e = pd_uid p ∧
  w_pods w !! pk p = Some p ∧ finished p = false ∧ pod_key p = e_key e ∧ pd_ips p = [] ∧
  pk p = pk pa ∧ pd_uid p ≠ pd_uid pa ∧ pod_key pa = pod_key p ∧ ip ≠ x ∧
  (* old behaviour: the sync takes [ip] back under the shared key for the old UID - [WInv] still holds, [KeyUid] does
     not - and the resync item of [ip] (not stuck) frees the alive pod's [x] *)
  let wo := sync_pod_ip_old w pa no_faults in
  (∃ e0, i_alloc (w_ipam wo) !! ip = Some e0 ∧ e_key e0 = pod_key p ∧ e_uid e0 = pd_uid pa) ∧
  i_alloc (w_ipam wo) !! x = Some e ∧ w_pods wo !! pk p = Some p ∧ WInv wo ∧ ¬ KeyUid wo ∧
  (resync_section wo ip o ocl no_faults).2 = SOk ∧
  i_alloc (w_ipam (resync_section wo ip o ocl no_faults).1) !! x = None ∧
  i_alloc (w_ipam (resync_section wo ip o ocl no_faults).1) !! ip = None ∧
  (* repaired behaviour, same continuation: the sync is refused, the resync item finds nothing, the pod keeps [x] *)
  sync_given true w pa no_faults = w ∧
  (resync_section (sync_given true w pa no_faults) ip o ocl no_faults).2 = SOk ∧
  i_alloc (w_ipam (resync_section (sync_given true w pa no_faults) ip o ocl no_faults).1) !! x = Some e ∧
  i_alloc (w_ipam (prun (world0 false nodes) ((ops1 ++ ops) ++ [PSyncPod pa no_faults; PResync ip o ocl no_faults]))) !! x = Some e.
Proof. exact alive_pod_keeps_ip_refuted_old_l. Qed.
Print Assumptions alive_pod_keeps_ip_refuted_old.

(** The hypotheses of [alive_pod_keeps_ip] are satisfiable and say something [WInv] does not: in the world after that
    history the pod dp-aaa (uB) is alive and NOT bound, 10.100.0.3 is keyed by its key and stored for its UID; the resync
    item of that very IP is not skipped, reaches the "pod running" test and leaves the entry as it is. *)
Example alive_pod_keeps_ip_nonvacuous : ∃ nodes ops x o ocl fl e p,
  wf_hist (world0 false nodes) (ops ++ [PResync x o ocl fl]) ∧ release_step (PResync x o ocl fl) ∧
  let w := prun (world0 false nodes) ops in
  WInv w ∧ KeyUid w ∧
  i_alloc (w_ipam w) !! x = Some e ∧ e_uid e ≠ [] ∧ e_uid e = pd_uid p ∧
  w_pods w !! pk p = Some p ∧ finished p = false ∧ pod_key p = e_key e ∧
  pd_ips p = [] ∧ ¬ live_bound p ∧ w_lister w !! pk p = None ∧
  resync_skip e (Keys.parse_key (e_key e)) = false ∧
  i_alloc (w_ipam (pstep w (PResync x o ocl fl)).1) !! x = Some e.
Proof. exact alive_pod_keeps_ip_nonvacuous_l. Qed.
Print Assumptions alive_pod_keeps_ip_nonvacuous.

(** 7. Immutable deployment: the app keeps at most [replicas] IPs (Proofs/PluginReplicasP.v).

    The app (key prefix "dp_ns_app_") holds MORE IPs than the deployment has replicas - it was scaled down, or a
    rolling update over-shot: the handled delete / finish event of a pod with the immutable policy frees every IP of the
    pod's key (same shape as [default_released_by_event]; the replicas are read as [unbind_dp] reads them, through the
    fields of [keyobj_of q]).
    Deviations from the statement asked for: the premises [pd_pool q = []] and [f_cloud fl = None] were dropped.  The
    first follows from [policy_of q = 1] (a pool annotation means never, [policy1_no_pool]).  The second is not needed
    and [w_provider w] stays general: with a provider the unassign loop runs first, the result [ROk] says that it went
    through, and it leaves the tables and the workloads as they were. *)
Theorem immutable_dp_over_replicas_releases : ∀ w n q o oun fl w',
  WInv w → w_queue w !! n = Some q → pd_kind q = KDp → policy_of q = 1 → f_store fl = None →
  (∀ x e, i_alloc (w_ipam w) !! x = Some e → e_key e = pod_key q → e_uid e = [] ∨ e_uid e = pd_uid q) →
  (default 0 (w_dps w !! (Keys.ko_ns (keyobj_of q), Keys.ko_app (keyobj_of q))) <
   N.of_nat (List.length (by_prefix (w_ipam w) (Keys.pool_prefix (keyobj_of q)))))%N →
  pstep w (PEvent n o oun fl) = (w', ROk) →
  ∀ x e, i_alloc (w_ipam w) !! x = Some e → e_key e = pod_key q → i_alloc (w_ipam w') !! x = None.
Proof. exact immutable_dp_over_replicas_releases_l. Qed.
Print Assumptions immutable_dp_over_replicas_releases.

(** the complement: the deployment exists with [replicas ≠ 0] and the app holds no more IPs than that.  After the event
    every IP of the pod's key is parked in the app's reserve - keyed by the pool prefix, node and uid cleared, the stored
    policy kept ([cleared]) - and no IP at all is freed *)
Theorem immutable_dp_within_replicas_reserves : ∀ w n q o oun fl w',
  WInv w → w_queue w !! n = Some q → pd_kind q = KDp → policy_of q = 1 → f_store fl = None →
  (∀ x e, i_alloc (w_ipam w) !! x = Some e → e_key e = pod_key q → e_uid e = [] ∨ e_uid e = pd_uid q) →
  default 0 (w_dps w !! (Keys.ko_ns (keyobj_of q), Keys.ko_app (keyobj_of q))) ≠ 0 →
  ¬ (default 0 (w_dps w !! (Keys.ko_ns (keyobj_of q), Keys.ko_app (keyobj_of q))) <
     N.of_nat (List.length (by_prefix (w_ipam w) (Keys.pool_prefix (keyobj_of q)))))%N →
  pstep w (PEvent n o oun fl) = (w', ROk) →
  (∀ x e, i_alloc (w_ipam w) !! x = Some e → e_key e = pod_key q →
          ∃ e', i_alloc (w_ipam w') !! x = Some e' ∧ cleared e e' (Keys.pool_prefix (keyobj_of q))) ∧
  dom (i_alloc (w_ipam w')) = dom (i_alloc (w_ipam w)).
Proof. exact immutable_dp_within_replicas_reserves_l. Qed.
Print Assumptions immutable_dp_within_replicas_reserves.

(** The hypotheses are satisfiable.  Reachable worlds ([c03_w_dp repl]): the pods app-5c-x1 (uD) and app-5c-x2 (uE) of
    deployment ns1/app, policy immutable, are bound to 10.100.0.2 / 10.100.0.3; the deployment is scaled to [repl];
    app-5c-x1 is deleted and its event is queued.  [repl] = 1 - the app holds 2 IPs: the event frees 10.100.0.2 (and
    leaves 10.100.0.3 alone).  [repl] = 2: the event parks 10.100.0.2 under "dp_ns1_app_". *)
Example immutable_dp_nonvacuous :
  let q := c03_dpod in
  let ev := PEvent 0 (c03_orc None None [c03_ip]) [] no_faults in
  let w := c03_w_dp 1 in
  let w2 := c03_w_dp 2 in
  WInv w ∧ w_queue w !! 0%nat = Some q ∧ pd_kind q = KDp ∧ pd_pool q = [] ∧ policy_of q = 1 ∧
  (∃ e, i_alloc (w_ipam w) !! c03_ip = Some e ∧ e_key e = pod_key q ∧ e_uid e = pd_uid q) ∧
  (∀ x e, i_alloc (w_ipam w) !! x = Some e → e_key e = pod_key q → e_uid e = [] ∨ e_uid e = pd_uid q) ∧
  default 0 (w_dps w !! (Keys.ko_ns (keyobj_of q), Keys.ko_app (keyobj_of q))) = 1 ∧
  List.length (by_prefix (w_ipam w) (Keys.pool_prefix (keyobj_of q))) = 2%nat ∧
  (pstep w ev).2 = ROk ∧ i_alloc (w_ipam (pstep w ev).1) !! c03_ip = None ∧
  is_Some (i_alloc (w_ipam (pstep w ev).1) !! (c03_ip + 1)) ∧
  WInv w2 ∧ w_queue w2 !! 0%nat = Some q ∧
  (∀ x e, i_alloc (w_ipam w2) !! x = Some e → e_key e = pod_key q → e_uid e = [] ∨ e_uid e = pd_uid q) ∧
  default 0 (w_dps w2 !! (Keys.ko_ns (keyobj_of q), Keys.ko_app (keyobj_of q))) = 2 ∧
  List.length (by_prefix (w_ipam w2) (Keys.pool_prefix (keyobj_of q))) = 2%nat ∧
  (pstep w2 ev).2 = ROk ∧
  (∃ e', i_alloc (w_ipam (pstep w2 ev).1) !! c03_ip = Some e' ∧ e_key e' = L "dp_ns1_app_" ∧ e_uid e' = [] ∧
         e_node e' = [] ∧ e_policy e' = 1).
Proof. exact c03_dp_example_l. Qed.
Print Assumptions immutable_dp_nonvacuous.

(** 8. Two events of ONE immutable deployment, handled one after the other, free exactly the surplus
    (Proofs/PluginRoundsP.v; twin of the monitor immutable_dp_concurrent_events_release_the_surplus).

    ANY world satisfying [WInv].  [q1], [q2] are the FIRST and the SECOND queued event ([w_queue w !! 0], [w_queue w !! 1]);
    a worker handles the head of the queue twice: [PEvent 0] on [w], then [PEvent 0] again on the world reached (a handled
    event leaves the queue, so position 0 then holds [q2]); both are answered ROk.  [q1] and [q2] are two different pods
    (different names) of one deployment ns/app with the immutable policy ([policy_of q = 1], hence no pool annotation);
    the key of each holds exactly one IP ([x1] resp. [x2]), stored for the UID of the event's pod; the store calls of the
    two sections do not fail.  With [n0] = the number of IPs the app holds under its prefix "dp_ns_app_" before, and
    [r] = the replicas of the deployment, [r ≠ 0] (a deployment that is gone, or scaled to 0, releases everything:
    [immutable_dp_over_replicas_releases] does not need [r ≠ 0]):
    afterwards the app holds [n0 - min 2 (n0 - r)] IPs (natural-number subtraction) - the two events free exactly what
    the app holds beyond its replicas, at most the two pods' own IPs; what is not freed is parked under the prefix key.
    Deviations from the statement asked for: no premise on the provider or on [f_cloud] (the answer ROk says that the
    provider loop went through; it leaves tables and workloads alone); [r] is [N.to_nat] of the model's replica count. *)
Theorem two_events_release_the_surplus : ∀ w q1 q2 o1 oun1 fl1 o2 oun2 fl2 w1 w2 x1 e1 x2 e2,
  WInv w → w_queue w !! 0%nat = Some q1 → w_queue w !! 1%nat = Some q2 →
  pd_kind q1 = KDp → pd_kind q2 = KDp → policy_of q1 = 1 → policy_of q2 = 1 →
  pd_ns q2 = pd_ns q1 → pd_app q2 = pd_app q1 → pd_name q2 ≠ pd_name q1 →
  f_store fl1 = None → f_store fl2 = None →
  i_alloc (w_ipam w) !! x1 = Some e1 → e_key e1 = pod_key q1 → e_uid e1 = pd_uid q1 →
  (∀ y e, i_alloc (w_ipam w) !! y = Some e → e_key e = pod_key q1 → y = x1) →
  i_alloc (w_ipam w) !! x2 = Some e2 → e_key e2 = pod_key q2 → e_uid e2 = pd_uid q2 →
  (∀ y e, i_alloc (w_ipam w) !! y = Some e → e_key e = pod_key q2 → y = x2) →
  default 0 (w_dps w !! (pd_ns q1, pd_app q1)) ≠ 0 →
  pstep w (PEvent 0 o1 oun1 fl1) = (w1, ROk) → pstep w1 (PEvent 0 o2 oun2 fl2) = (w2, ROk) →
  let prefix := Keys.pool_prefix (keyobj_of q1) in
  let n0 := List.length (by_prefix (w_ipam w) prefix) in
  let r := N.to_nat (default 0 (w_dps w !! (pd_ns q1, pd_app q1))) in
  List.length (by_prefix (w_ipam w2) prefix) = (n0 - min 2 (n0 - r))%nat.
Proof. exact two_events_release_the_surplus_l. Qed.
Print Assumptions two_events_release_the_surplus.

(** The hypotheses are satisfiable.  Reachable worlds [c03_w_dp2 repl] = [c03_w_dp repl] continued with the deletion of
    app-5c-x2: the events of app-5c-x1 (10.100.0.2, uD) and app-5c-x2 (10.100.0.3, uE) are queued in this order, the app
    holds 2 IPs.  [repl] = 1: the first event frees 10.100.0.2, the second parks 10.100.0.3: 2 - min 2 (2 - 1) = 1.
    [repl] = 2: both are parked: 2 - min 2 (2 - 2) = 2. *)
Example two_events_nonvacuous :
  let q1 := c03_dpod in let q2 := c03_dpod2 in
  let ev1 := PEvent 0 (c03_orc None None [c03_ip]) [] no_faults in
  let ev2 := PEvent 0 (c03_orc None None [c03_ip + 1]) [] no_faults in
  let prefix := Keys.pool_prefix (keyobj_of q1) in
  ∀ repl, repl = 1 ∨ repl = 2 →
  let w := c03_w_dp2 repl in
  WInv w ∧ w_queue w !! 0%nat = Some q1 ∧ w_queue w !! 1%nat = Some q2 ∧
  pd_kind q1 = KDp ∧ pd_kind q2 = KDp ∧ policy_of q1 = 1 ∧ policy_of q2 = 1 ∧
  pd_ns q2 = pd_ns q1 ∧ pd_app q2 = pd_app q1 ∧ pd_name q2 ≠ pd_name q1 ∧
  (∃ e1, i_alloc (w_ipam w) !! c03_ip = Some e1 ∧ e_key e1 = pod_key q1 ∧ e_uid e1 = pd_uid q1) ∧
  (∀ y e, i_alloc (w_ipam w) !! y = Some e → e_key e = pod_key q1 → y = c03_ip) ∧
  (∃ e2, i_alloc (w_ipam w) !! (c03_ip + 1) = Some e2 ∧ e_key e2 = pod_key q2 ∧ e_uid e2 = pd_uid q2) ∧
  (∀ y e, i_alloc (w_ipam w) !! y = Some e → e_key e = pod_key q2 → y = c03_ip + 1) ∧
  default 0 (w_dps w !! (pd_ns q1, pd_app q1)) = repl ∧
  List.length (by_prefix (w_ipam w) prefix) = 2%nat ∧
  (pstep w ev1).2 = ROk ∧ (pstep (pstep w ev1).1 ev2).2 = ROk ∧
  List.length (by_prefix (w_ipam (pstep (pstep w ev1).1 ev2).1) prefix) = (if repl =? 1 then 1%nat else 2%nat).
Proof. exact c03_two_events_example_l. Qed.
Print Assumptions two_events_nonvacuous.
