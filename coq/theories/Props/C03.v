(** C03 - IPs are released exactly when the release policy says so.

    "With the default policy an IP returns to the free pool once its pod is deleted or has finished; with immutable
    it is kept until the owning workload is deleted or scaled below that pod (for deployments: while the app holds no
    more IPs than replicas); with never, and for every pod using a named IP pool, it is kept until an administrator
    releases it through the API.  Once pending pod events have been handled and one resync pass has run, no IP stays
    assigned to a pod that no longer exists unless its policy reserves it."

    Model: Model/Plugin.v (sections [unbind_section], [resync_section], [api_release_section], ...).
    Specification (written from the text above, not from the code): Proofs/PluginPolicyP.v, section 1 -
    [verdict], [policy_verdict], [pod_ordinal], [sts_named], [lost], [verdict_allows], [licence], [cleared],
    [resync_pass]; further [keeps], [still_reserved], [can_reserve], [pod_gone].  Proofs: Proofs/PluginPolicyP.v.
    The only assumptions on histories are [wf_op] / [WInv] of Proofs/PluginInv.v.

    Policy codes: 0 default, 1 immutable, 2 never ([policy_of]: a pool annotation means never).  Codes above 2
    are not produced by parseReleasePolicy; statements that depend on the decision carry the premise [pol ≤ 2]
    (the model's deployment branch treats an unknown code as immutable, the other branch ignores it). *)
From Coq Require Import String.
From stdpp Require Import gmap.
From Galaxy.Base Require Import Strs.
From Galaxy.Model Require Import Nets Pool Ipam Plugin.
From Galaxy.Model Require Keys.
From Galaxy.Proofs Require Import IpamP PluginInv PluginPolicyP.
Local Open Scope N_scope.

(** 1. Safety, one step of a well-formed history: an IP allocated under the key of pod [q] that is free or keyed
    differently after the step was taken away with a licence - an API release of exactly that IP and key while the
    pod is not running; a reload / restart whose configuration no longer contains the IP; or a pod event / resync
    item for that key whose pod is not a live incarnation and whose policy verdict (policy of the event's pod object,
    resp. the stored policy of the item) is [MustFree] if the IP is now free, [KeepForApp] if it is now parked under
    the application / pool prefix. *)
Theorem release_only_when_licensed : ∀ w o x e q,
  WInv w → wf_op w o → i_alloc (w_ipam w) !! x = Some e → wf_pod q → e_key e = pod_key q →
  lost (w_ipam (pstep w o).1) x (pod_key q) → licence w o x q (w_ipam (pstep w o).1).
Proof. exact release_only_when_licensed_l. Qed.
Print Assumptions release_only_when_licensed.

(** never (and every pod with a pool annotation: [policy_of] = 2): no pod event and no resync item takes the IP
    away - it stays under the pod key, or parked under the application / pool prefix (deployments) *)
Theorem never_kept : ∀ w x e q,
  WInv w → i_alloc (w_ipam w) !! x = Some e → wf_pod q → e_key e = pod_key q → can_reserve q →
  (∀ n orc oun fl qe, w_queue w !! n = Some qe → pod_key qe = pod_key q → policy_of qe = 2 →
     still_reserved (w_ipam (pstep w (PEvent n orc oun fl)).1) x q) ∧
  (∀ x0 orc ocl fl e0, i_alloc (w_ipam w) !! x0 = Some e0 → e_key e0 = pod_key q → e_policy e0 = 2 →
     still_reserved (w_ipam (pstep w (PResync x0 orc ocl fl)).1) x q).
Proof. exact never_kept_l. Qed.
Print Assumptions never_kept.

(** immutable, statefulset exists and the pod's ordinal is below its replicas: the IP stays under the pod key *)
Theorem immutable_kept_sts : ∀ w x e q r idx,
  WInv w → i_alloc (w_ipam w) !! x = Some e → wf_pod q → e_key e = pod_key q →
  pd_kind q = KSts → w_sts w !! (pd_ns q, pd_app q) = Some r → pod_ordinal (pd_name q) = Some idx → idx < r →
  (∀ n orc oun fl qe, w_queue w !! n = Some qe → pod_key qe = pod_key q → policy_of qe = 1 →
     keeps (w_ipam (pstep w (PEvent n orc oun fl)).1) x (pod_key q)) ∧
  (∀ x0 orc ocl fl e0, i_alloc (w_ipam w) !! x0 = Some e0 → e_key e0 = pod_key q → e_policy e0 = 1 →
     keeps (w_ipam (pstep w (PResync x0 orc ocl fl)).1) x (pod_key q)).
Proof. exact immutable_kept_sts_l. Qed.
Print Assumptions immutable_kept_sts.

(** 2. Default policy: the handled delete / finish event of the pod frees every IP of its key (premise of the F1
    test: no IP of the key is stored for another incarnation) *)
Theorem default_released_by_event : ∀ w n q o oun fl w',
  WInv w → w_queue w !! n = Some q → policy_of q = 0 → f_store fl = None →
  (∀ x e, i_alloc (w_ipam w) !! x = Some e → e_key e = pod_key q → e_uid e = [] ∨ e_uid e = pd_uid q) →
  pstep w (PEvent n o oun fl) = (w', ROk) →
  ∀ x e, i_alloc (w_ipam w) !! x = Some e → e_key e = pod_key q → i_alloc (w_ipam w') !! x = None.
Proof. exact default_released_by_event_w. Qed.
Print Assumptions default_released_by_event.

(** 3. One resync item (with or without cloud provider) does to ALL IPs of the key exactly what the verdict for the
    stored policy says: free / keep under the pod key with node and uid cleared / park under the prefix *)
Theorem resync_item_exact : ∀ w ip e q o ocl fl w' r,
  WInv w → i_alloc (w_ipam w) !! ip = Some e → wf_pod q → e_key e = pod_key q →
  resync_skip e (keyobj_of q) = false → pod_running w (pd_ns q) (pd_name q) (e_uid e) = false →
  e_policy e ≤ 2 → (pd_kind q = KSts → sts_named (pd_name q)) →
  f_store fl = None → f_cloud fl = None →
  resync_section w ip o ocl fl = (w', r) → r ≠ SStuck →
  same_env w w' ∧
  ∀ y ey, i_alloc (w_ipam w) !! y = Some ey → e_key ey = pod_key q →
    match policy_verdict w (keyobj_of q) (e_policy e) with
    | MustFree => i_alloc (w_ipam w') !! y = None
    | KeepForPod => ∃ ey', i_alloc (w_ipam w') !! y = Some ey' ∧ cleared ey ey' (pod_key q)
    | KeepForApp => ∃ ey', i_alloc (w_ipam w') !! y = Some ey' ∧ cleared ey ey' (Keys.pool_prefix (keyobj_of q))
    end.
Proof. exact resync_item_exact_w. Qed.
Print Assumptions resync_item_exact.

(** 4. After one resync pass over (at least) all allocated IPs, in any order: every entry under a pod key that the
    pass does not skip and whose pod is not running is one that the policy keeps for the pod - in particular its
    verdict is not [MustFree].  (Holds for any event queue and informer state.) *)
Theorem resync_pass_exact : ∀ w items w',
  WInv w → (∀ x, is_Some (i_alloc (w_ipam w) !! x) → x ∈ items) → resync_pass w items w' →
  ∀ x e q, i_alloc (w_ipam w') !! x = Some e → wf_pod q → e_key e = pod_key q → e_policy e ≤ 2 →
           resync_skip e (keyobj_of q) = false → pod_running w' (pd_ns q) (pd_name q) (e_uid e) = false →
           policy_verdict w' (keyobj_of q) (e_policy e) = KeepForPod.
Proof. exact resync_pass_exact_w. Qed.
Print Assumptions resync_pass_exact.

(** the same in the words of the property: informer = API server; no IP stays assigned to a pod incarnation that
    no longer exists (or has finished) unless the policy reserves it for the pod *)
Theorem resync_pass_no_orphans : ∀ w items w',
  WInv w → w_lister w = w_pods w → (∀ x, is_Some (i_alloc (w_ipam w) !! x) → x ∈ items) → resync_pass w items w' →
  ∀ x e q, i_alloc (w_ipam w') !! x = Some e → wf_pod q → e_key e = pod_key q → e_policy e ≤ 2 →
           resync_skip e (keyobj_of q) = false → pod_gone w' q (e_uid e) →
           policy_verdict w' (keyobj_of q) (e_policy e) = KeepForPod.
Proof. exact resync_pass_no_orphans_l. Qed.
Print Assumptions resync_pass_no_orphans.

(** 5. K1 (defect): the property says an immutable IP is kept only "until the owning workload is deleted".  A reachable
    world: the IP 10.100.0.2 parked under the application prefix "dp_ns1_app_" (policy immutable) of a deployment
    that has been deleted, no pod, no event left - and no resync item, hence no resync pass, ever releases it
    ([resync_skip] skips every key without a pod name). *)
Theorem dp_reserve_leak_refuted :
  ∃ w x e, WInv w ∧ w_pods w = ∅ ∧ w_lister w = ∅ ∧ w_queue w = [] ∧ w_dps w = ∅ ∧
    i_alloc (w_ipam w) !! x = Some e ∧ e_key e = L "dp_ns1_app_" ∧ e_policy e = 1 ∧ e_uid e = [] ∧
    (∀ ip o ocl fl, i_alloc (w_ipam (resync_section w ip o ocl fl).1) !! x = Some e) ∧
    (∀ items w', resync_pass w items w' → i_alloc (w_ipam w') !! x = Some e).
Proof. exact dp_reserve_leak_refuted_l. Qed.
Print Assumptions dp_reserve_leak_refuted.

(** in general: an entry whose key has no pod name (the reserve of a deployment / pool) survives every resync item *)
Theorem prefix_reserve_survives_resync : ∀ w x e ip o ocl fl,
  WInv w → i_alloc (w_ipam w) !! x = Some e → Keys.is_empty (Keys.ko_pod (Keys.parse_key (e_key e))) = true →
  i_alloc (w_ipam (resync_section w ip o ocl fl).1) !! x = Some e.
Proof. exact prefix_reserve_survives_resync_w. Qed.
Print Assumptions prefix_reserve_survives_resync.

(** The hypotheses are satisfiable and the conclusions non-trivial: the immutable pod web-0 of statefulset ns1/web gets
    10.100.0.2 and is deleted, its event is lost.  Statefulset scaled to 0: verdict [MustFree], one resync pass frees
    the IP.  Scaled to 1: verdict [KeepForPod], the pass keeps the IP under the pod key with node and uid cleared. *)
Example c03_nonvacuous :
  let q := c03_spod 1 in
  let w := c03_w_sts 1 (Some 0) in
  let w2 := c03_w_sts 1 (Some 1) in
  wf_pod q ∧ sts_named (pd_name q) ∧
  WInv w ∧ w_queue w = [] ∧ w_lister w = w_pods w ∧
  (∃ e, i_alloc (w_ipam w) !! c03_ip = Some e ∧ e_key e = pod_key q ∧ e_policy e = 1 ∧ e_uid e = L "uA" ∧
        resync_skip e (keyobj_of q) = false ∧ pod_running w (pd_ns q) (pd_name q) (e_uid e) = false ∧
        pod_gone w q (e_uid e) ∧ policy_verdict w (keyobj_of q) (e_policy e) = MustFree) ∧
  (∀ x, is_Some (i_alloc (w_ipam w) !! x) → x ∈ [c03_ip]) ∧
  (∃ w', resync_pass w [c03_ip] w' ∧ i_alloc (w_ipam w') !! c03_ip = None) ∧
  WInv w2 ∧ policy_verdict w2 (keyobj_of q) 1 = KeepForPod ∧
  (∃ w' e', resync_pass w2 [c03_ip] w' ∧ i_alloc (w_ipam w') !! c03_ip = Some e' ∧ e_key e' = pod_key q ∧
            e_uid e' = [] ∧ e_node e' = [] ∧ e_policy e' = 1).
Proof. exact c03_example_l. Qed.
Print Assumptions c03_nonvacuous.
