(** C07 - "A sized IP pool never grows beyond its size": when a Pool object defines a size, scheduling pods of the
    deployments that share the pool and pre-allocating through the API never bring the number of IPs held under
    that pool above the size in force, no matter how many filter, bind and pool-update requests run concurrently.

    Property theorems only; the proofs are in Proofs/PluginPoolP.v.  Model: Model/Plugin.v (filter, bind, unbind,
    resync, ...) and Model/PluginPool.v (POST /v1/pool with preAllocateIP).  Every request runs under the pool mutex
    in the Go code, so each is one atomic step; "all interleavings" = all histories (lists of steps) in any order.
    The number of IPs held under pool [P] in world [w] is [pool_count (w_ipam w) P], the number of allocated
    entries whose key extends the pool prefix [pool_key P] = "pool__P_".

    RESULT.  The property holds for filter and for the pool API, and it is REFUTED for bind: bind allocates without
    looking at the Pool object whenever filter did not allocate, which happens when the Pool object is not (yet)
    visible to the plugin's lister at filter time ([pool_cap_refuted_late_pool], the recorded defect K2, reproduced
    on the real code).  What is proved:

    - [pool_cap_filter]: one filter call never brings the pool above max(current count, the size the lister shows);
      [pool_cap_filter_other]: and no other pool moves.  Premise [ns_ok]: every loaded pool has a node subnet.  This
      is what the configuration decoder guarantees and it holds in every reachable world ([ns_ok_reachable]), so
      [pool_cap_filter_reachable] states the bound at any point of ANY well-formed history without that premise.
      (Without it the bound fails - checked by computation on a hand-built, unreachable world: an IP parked under
      the pool prefix that lies in a pool without node subnets is invisible to filter's "unused" list but is
      counted, so filter allocates a second IP for a pool of size 1.)
    - [pool_cap_prealloc]: one pre-allocating API request never brings the pool above max(count, requested size),
      reaches the size when it answers OK, never shrinks the pool, keeps the invariant; [pool_cap_prealloc_other].
    - [pool_count_release_steps]: queued pod events, resync items and API releases never add an IP to a pool.
    - [pool_cap_bind_partial]: bind leaves every pool's count unchanged when the pod's key already holds an IP
      (i.e. when filter allocated, which it always does for a visible sized pool).
    - [pool_cap_history]: in every history in which (a) bind never has to allocate for a pod that carries a pool
      annotation, (b) the pod-IP sync finds no lost IP of a pool pod to re-adopt (for the object it works with,
      [synced_obj] of Proofs/PluginEnvP.v: the informer's current object unless it was handed an earlier incarnation,
      which it skips; the given object when the informer shows no pod of that name) and (c) pool names in API
      requests are '_'-free ([wf_c07], otherwise exactly [wf_op]), EVERY step keeps the pool under
      max(count before, size in force), where the size in force ([size_in_force]) is the lister's size for a filter
      call of a deployment pod of the pool, the requested size for a pre-allocating API request, and 0 (no growth)
      for every other step: environment (including the informer's pod-IP sync, which is shown to change nothing),
      bind, events, resync, API release, periodic sync, reload, restart.
      [pool_cap_invariant]: hence, while all sizes in force are <= S, the pool never holds more than S IPs.
    - [c07_nonvacuous]: a concrete history satisfying all hypotheses in which filter allocates up to the size, the
      next pod is refused, the API grows the pool and the second pod then takes a pre-allocated IP.

    Pool names are non-empty and '_'-free throughout ([wf_pod] for annotations): a name with '_' aliases the prefix
    of another pool (finding K4).  NOT covered by the cap (by design of the Go code, and excluded by (a)): pods of
    statefulsets or bare pods that carry a pool annotation - their key extends the pool prefix, filter never
    allocates for them, so their first bind always adds an IP to the pool unchecked. *)
From Coq Require Import String.
From stdpp Require Import gmap.
From Galaxy.Base Require Import Strs.
From Galaxy.Model Require Import Nets Pool Ipam Plugin PluginPool.
From Galaxy.Model Require Keys.
From Galaxy.Proofs Require Import IpamP PluginInv PluginKeyFacts PluginPoolP.
Local Open Scope N_scope.

(** [pool_key P] is the pool prefix of every key object of pool [P], and every pod key of a pod annotated with
    pool [P] extends it *)
Theorem pool_key_is_prefix : ∀ k, Keys.ko_pool k ≠ [] → Keys.pool_prefix k = pool_key (Keys.ko_pool k).
Proof. exact pool_prefix_pool_key. Qed.
Print Assumptions pool_key_is_prefix.

Theorem pool_pod_counted : ∀ p, wf_pod p → pd_pool p ≠ [] → has_prefix (pool_key (pd_pool p)) (pod_key p) = true.
Proof. exact pod_key_pool. Qed.
Print Assumptions pool_pod_counted.

(** a filter step never brings the pool above the size the Pool lister shows at that step *)
Theorem pool_cap_filter : ∀ w p nodes o fl w' r size,
  WInv w → ns_ok (w_ipam w) → wf_pod p → pd_kind p = KDp → pd_pool p ≠ [] → w_poolobjs w !! pd_pool p = Some size →
  filter_section w p nodes o fl = (w', r) →
  (N.of_nat (pool_count (w_ipam w') (pd_pool p)) <= N.max (N.of_nat (pool_count (w_ipam w) (pd_pool p))) size)%N.
Proof. exact pool_cap_filter_l. Qed.
Print Assumptions pool_cap_filter.

(** ... and the count of every other pool is unchanged (any pod, any kind) *)
Theorem pool_cap_filter_other : ∀ w p nodes o fl w' r Q,
  WInv w → wf_pod p → Q ≠ [] → free Keys.us Q → pd_pool p ≠ Q →
  filter_section w p nodes o fl = (w', r) →
  pool_count (w_ipam w') Q = pool_count (w_ipam w) Q.
Proof. exact pool_cap_filter_other_l. Qed.
Print Assumptions pool_cap_filter_other.

(** every loaded pool has a node subnet in every reachable world of a well-formed history, with or without pool
    requests ([wf_hist2]: [wf_op] for the plugin steps, nothing for pool requests) *)
Theorem ns_ok_reachable : ∀ provider nodes ops, wf_hist2 (world0 provider nodes) ops →
  WInv (prun2 (world0 provider nodes) ops) ∧ ns_ok (w_ipam (prun2 (world0 provider nodes) ops)).
Proof. intros provider nodes ops H. exact (cinv_run2 ops _ (cinv_init provider nodes) H). Qed.
Print Assumptions ns_ok_reachable.

(** the filter bound at any point of any well-formed history *)
Theorem pool_cap_filter_reachable : ∀ provider nodes ops key p nodes' o fl w' r size,
  wf_hist2 (world0 provider nodes) ops → let w := prun2 (world0 provider nodes) ops in
  w_pods w !! key = Some p → pd_kind p = KDp → pd_pool p ≠ [] → w_poolobjs w !! pd_pool p = Some size →
  filter_section w p nodes' o fl = (w', r) →
  (N.of_nat (pool_count (w_ipam w') (pd_pool p)) <= N.max (N.of_nat (pool_count (w_ipam w) (pd_pool p))) size)%N.
Proof. exact pool_cap_filter_reachable_l. Qed.
Print Assumptions pool_cap_filter_reachable.

(** pre-allocation through the API never brings the pool above the requested size, reaches it on success, never
    shrinks the pool and keeps the world invariant *)
Theorem pool_cap_prealloc : ∀ w name size picks nfail w' r,
  WInv w → prealloc_section w name size picks nfail = (w', r) →
  (N.of_nat (pool_count (w_ipam w') name) <= N.max (N.of_nat (pool_count (w_ipam w) name)) size)%N ∧
  (r = PoolOk → (size <= N.of_nat (pool_count (w_ipam w') name))%N) ∧
  (pool_count (w_ipam w) name <= pool_count (w_ipam w') name)%nat ∧
  WInv w'.
Proof.
  intros w name size picks nfail w' r HW H.
  destruct (prealloc_section_spec _ _ _ _ _ _ _ HW H) as (HW' & _ & Hb & Hok & _ & Hmono). split_and!; try done.
  apply (Hmono (pool_key name)).
Qed.
Print Assumptions pool_cap_prealloc.

Theorem pool_cap_prealloc_other : ∀ w name size picks nfail w' r Q,
  WInv w → Q ≠ [] → free Keys.us Q → free Keys.us name → name ≠ Q →
  prealloc_section w name size picks nfail = (w', r) → pool_count (w_ipam w') Q = pool_count (w_ipam w) Q.
Proof. exact pool_cap_prealloc_other_l. Qed.
Print Assumptions pool_cap_prealloc_other.

(** queued pod events, resync items and API releases never increase a pool's count (unbind of a deployment pod
    parks its IPs under the pool prefix: same pool) *)
Theorem pool_count_release_steps : ∀ w o P, WInv w → P ≠ [] →
  (match o with PEvent _ _ _ _ | PResync _ _ _ _ | PApiRelease _ _ _ _ => True | _ => False end) →
  (pool_count (w_ipam (pstep w o).1) P <= pool_count (w_ipam w) P)%nat.
Proof. exact pool_count_release_steps_l. Qed.
Print Assumptions pool_count_release_steps.

(** bind: no pool moves when the pod's key already holds an IP *)
Theorem pool_cap_bind_partial : ∀ w ns name uid node o fl l w' r P,
  w_lister w !! (ns, name) = Some l → pd_ranges l = [] →
  (∃ x e, i_alloc (w_ipam w) !! x = Some e ∧ e_key e = pod_key l) →
  bind_section true true w ns name uid node o fl = (w', r) →
  pool_count (w_ipam w') P = pool_count (w_ipam w) P.
Proof. exact pool_cap_bind_partial_l. Qed.
Print Assumptions pool_cap_bind_partial.

(** ... and bind of a pod without pool annotation never touches a pool either: under [bind_no_alloc] (a pod with a
    pool annotation is bound only when its key already holds an IP) bind leaves every pool's count unchanged *)
Theorem pool_cap_bind_no_alloc : ∀ w ns name uid node o fl w' r P,
  WInv w → uid ≠ [] → bind_no_alloc w ns name → P ≠ [] →
  bind_section true true w ns name uid node o fl = (w', r) →
  pool_count (w_ipam w') P = pool_count (w_ipam w) P.
Proof. exact bind_c07_cnt. Qed.
Print Assumptions pool_cap_bind_no_alloc.

(** the defect K2: two pods of pool p1 are filtered while no Pool object is visible (filter allocates nothing), the
    Pool object with size 1 appears, both pods are bound: the pool holds 2 IPs, its size is 1.  The witness is
    [k2_ops] (Proofs/PluginPoolP.v), the history the real code ran; [k2_results] records every step's outcome. *)
Theorem pool_cap_refuted_late_pool : ∃ nodes ops P size, let w := prun (world0 false nodes) ops in
  wf_hist (world0 false nodes) ops ∧ w_poolobjs w !! P = Some size ∧ (size < N.of_nat (pool_count (w_ipam w) P))%N.
Proof. exact pool_cap_refuted_late_pool_l. Qed.
Print Assumptions pool_cap_refuted_late_pool.

(** whole histories with pool requests: every step keeps the pool under max(count before, size in force) *)
Theorem pool_cap_history : ∀ provider nodes ops P, P ≠ [] → free Keys.us P →
  wf_c07_hist (world0 provider nodes) ops →
  ∀ ops1 o ops2, ops = (ops1 ++ o :: ops2)%list →
    let w := prun2 (world0 provider nodes) ops1 in
    let w' := (pstep2 w o).1 in
    (N.of_nat (pool_count (w_ipam w') P) <= N.max (N.of_nat (pool_count (w_ipam w) P)) (size_in_force w o P))%N.
Proof.
  intros provider nodes ops P HP FP Hwf ops1 o ops2 E. by apply (pool_cap_history_l _ ops P (cinv_init provider nodes) HP FP Hwf ops1 o ops2).
Qed.
Print Assumptions pool_cap_history.

(** while every size in force is at most [S], the pool never holds more than [S] IPs *)
Theorem pool_cap_invariant : ∀ provider nodes ops P S, P ≠ [] → free Keys.us P →
  wf_c07_hist (world0 provider nodes) ops → sizes_le S P (world0 provider nodes) ops →
  (N.of_nat (pool_count (w_ipam (prun2 (world0 provider nodes) ops)) P) <= S)%N.
Proof.
  intros provider nodes ops P S HP FP Hwf Hsz.
  apply (pool_cap_invariant_l S P ops _ (cinv_init provider nodes) HP FP Hwf Hsz). vm_compute. destruct S; discriminate.
Qed.
Print Assumptions pool_cap_invariant.

(** the hypotheses are satisfiable by a history in which the cap is at work: results and counts of pool p1 after
    each step of [c07_ex_ops] *)
Example c07_nonvacuous :
  wf_c07_hist (world0 false k2_nodes) c07_ex_ops ∧
  pouts2 (L "p1") (world0 false k2_nodes) c07_ex_ops =
    [(R1 ROk, 0%nat); (R1 ROk, 0%nat); (R1 ROk, 0%nat); (R1 ROk, 0%nat); (R1 ROk, 0%nat);
     (R1 (RNodes [L "node1"]), 1%nat);                     (* Pool size 1 visible: filter allocates *)
     (R1 ROk, 1%nat); (R1 ROk, 1%nat);
     (R1 RErr, 1%nat);                                     (* second pod refused: the pool is full *)
     (R1 (RIps [174325762]), 1%nat);                       (* bind re-uses the IP filter allocated *)
     (RPool PoolOk, 3%nat);                                (* POST /v1/pool size 3, preAllocateIP *)
     (R1 ROk, 3%nat);
     (R1 (RNodes [L "node1"]), 3%nat);                     (* second pod takes a pre-allocated IP *)
     (R1 (RIps [174325764]), 3%nat); (R1 ROk, 3%nat)].
Proof. split; [exact c07_ex_wf|exact c07_ex_results]. Qed.
Print Assumptions c07_nonvacuous.
