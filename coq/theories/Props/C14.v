(** C14 - Host-port mappings are set up, held and removed completely.
    Property theorems only; proofs are in Proofs/NetfilterP.v, Proofs/PortMapP.v and Proofs/PortDaemonP.v.
    The NAT table is any association list of chains (arbitrary foreign chains and rules, other pods'
    KUBE-HP-* chains); the chain-name hash is the Section variable [cname] and the theorems state what
    they need of it (distinct names carrying the KUBE-HP- prefix, fresh for a new pod). *)
From Coq Require Import List NArith Bool.
From Galaxy.Base Require Import Strs.
From Galaxy.Model Require Import Netfilter PortMap PortDaemon.
From Galaxy.Proofs Require Import NetfilterP PortMapP PortDaemonP.
Import ListNotations.
Open Scope N_scope.

Section C14.
Variable cname : port -> str.

(** setting up the ports of one pod and cleaning them up again: no batch or command is rejected, and
    the table is as before on every chain except KUBE-MARK-MASQ (co-owned with kubelet, rewritten to
    the single mark rule) - no chain or rule of the pod is left, nothing else is changed *)
Theorem setup_clean_inverse : forall (t : table) (ps : list port),
  has_chain hostports t = true ->
  NoDup (map cname ps) ->
  (forall p, In p ps -> proto_plain p) ->
  (forall p, In p ps -> fresh_chain t (cname p)) ->
  exists t1 t2, setup cname ps t = (t1, true) /\ clean cname ps t1 = (t2, true) /\
    forall c, c <> markmasq -> tlookup c t2 = tlookup c t.
Proof. exact (setup_clean_inverse_l cname). Qed.

(** a full synchronisation is accepted and leaves exactly the chains and rules of the given ports,
    whatever stale KUBE-HP-* chains existed, and touches no chain that is not galaxy's (beyond the two
    portal rules EnsureBasicRule makes sure of) *)
Theorem setup_all_exact : forall (t : table) (ps : list port),
  sync_pre cname ps t ->
  exists t', setup_all cname ps t = (t', true) /\ sync_post cname ps t t'.
Proof. exact (setup_all_exact_l cname). Qed.

(** synchronising again changes nothing *)
Theorem setup_all_idem : forall (t t' : table) (ps : list port),
  sync_pre cname ps t -> setup_all cname ps t = (t', true) ->
  exists t'', setup_all cname ps t' = (t'', true) /\ forall c, tlookup c t'' = tlookup c t'.
Proof. exact (setup_all_idem_l cname). Qed.

(** CleanPortMapping cannot fail for lack of the ports' chains (F17): whatever the ports' chains hold,
    and whether they exist or not, it is accepted as soon as nothing that stays - other than
    KUBE-HOSTPORTS, through the ports' own jump rules - jumps to them; afterwards the chains are gone,
    KUBE-HOSTPORTS has lost exactly the rules that jumped to them, everything else is untouched *)
Theorem clean_total : forall (t : table) (ps : list port),
  clean_pre cname ps t -> exists t', clean cname ps t = (t', true) /\ clean_post cname ps t t'.
Proof. exact (clean_total_l cname). Qed.

(** in particular when nothing at all jumps to the ports' chains, e.g. when they do not exist *)
Theorem clean_total_unreferenced : forall (t : table) (ps : list port),
  NoDup (map fst t) -> NoDup (map cname ps) ->
  (forall p, In p ps -> is_builtin (cname p) = false /\ cname p <> hostports /\ proto_plain p) ->
  (forall p, In p ps -> referenced (cname p) t = false) ->
  exists t', clean cname ps t = (t', true) /\ clean_post cname ps t t'.
Proof. exact (clean_unreferenced_l cname). Qed.

(** ---- the daemon: state file, tear-down (CNI DEL, garbage collector, roll-back of a failed ADD) with a
    transient failure of one iptables call (Model/PortDaemon.v) *)

(** a CleanPortMapping that failed at any call is completed by the next fault-free one: it is accepted
    and ends in the very table the fault-free clean-up of the original table gives *)
Theorem cleanup_retry_completes : forall (ps : list port) (t : table) (k : nat) (t1 t2 : table),
  clean_f cname ps t (Some k) = (t1, false) -> clean cname ps t = (t2, true) ->
  exists t3, clean cname ps t1 = (t3, true) /\ forall c, tlookup c t3 = tlookup c t2.
Proof. exact (clean_resumes cname). Qed.

(** a tear-down that reports success has run a complete fault-free CleanPortMapping on the ports of the
    state file and has removed the file *)
Theorem teardown_success_is_complete : forall (cid : str) (f : option nat) (s s' : dstate),
  d_clean cname cid f s = (s', true) ->
  (d_lookup cid (d_files s') = None \/ d_lookup cid (d_files s) = Some []) /\
  forall ps, d_lookup cid (d_files s) = Some ps -> ps <> [] ->
    exists t2, clean cname ps (d_table s) = (t2, true) /\ d_table s' = t2 /\
      d_files s' = d_remove cid (d_files s).
Proof. exact (d_clean_ok_complete cname). Qed.

(** a tear-down that failed keeps the state files *)
Theorem failed_teardown_keeps_state_file : forall (cid : str) (f : option nat) (s s' : dstate),
  d_clean cname cid f s = (s', false) -> d_files s' = d_files s.
Proof. exact (d_clean_failed_keeps_file cname). Qed.

(** after a tear-down that failed at call k - from whatever partial state it left - the next fault-free
    tear-down succeeds, removes the file and leaves the table of the fault-free tear-down *)
Theorem teardown_retry_completes : forall (cid : str) (ps : list port) (k : nat) (s s1 : dstate) (t2 : table),
  d_lookup cid (d_files s) = Some ps -> ps <> [] ->
  clean cname ps (d_table s) = (t2, true) ->
  d_clean cname cid (Some k) s = (s1, false) ->
  exists s2, d_clean cname cid None s1 = (s2, true) /\ d_lookup cid (d_files s2) = None /\
    d_files s2 = d_remove cid (d_files s) /\ d_table s2 = t2.
Proof. exact (d_teardown_retry cname). Qed.

(** CNI ADD then DEL of a container with new ports: the set-up and the tear-down are accepted and the state
    is as before (no file of the container, the other files, every chain but KUBE-MARK-MASQ); and when
    the tear-down fails at any call, the file is kept and the retry ends in such a state *)
Theorem setup_then_teardown_with_retry : forall (cid : str) (ps : list port) (s : dstate),
  has_chain hostports (d_table s) = true ->
  NoDup (map cname ps) ->
  (forall p, In p ps -> proto_plain p) ->
  (forall p, In p ps -> fresh_chain (d_table s) (cname p)) ->
  d_lookup cid (d_files s) = None -> ps <> [] ->
  exists s1 s2, d_setup cname cid ps None s = (s1, true) /\ d_clean cname cid None s1 = (s2, true) /\
    back_to_start cid s s2 /\
    forall k s1', d_clean cname cid (Some k) s1 = (s1', false) ->
      d_files s1' = d_files s1 /\
      exists s2', d_clean cname cid None s1' = (s2', true) /\ back_to_start cid s s2'.
Proof. exact (d_setup_then_teardown cname). Qed.

(** a set-up that failed - the batch or any EnsureRule - is rolled back completely by the clean-up the
    daemon runs at once (before the repair of F17 a failed batch left the file for ever) *)
Theorem failed_setup_leaves_nothing : forall (cid : str) (ps : list port) (s : dstate) (k : nat) (s' : dstate),
  has_chain hostports (d_table s) = true ->
  NoDup (map cname ps) ->
  (forall p, In p ps -> proto_plain p) ->
  (forall p, In p ps -> fresh_chain (d_table s) (cname p)) ->
  d_lookup cid (d_files s) = None -> ps <> [] ->
  d_setup cname cid ps (Some k) s = (s', false) -> back_to_start cid s s'.
Proof. exact (d_failed_setup_leaves_nothing cname). Qed.
End C14.
Print Assumptions setup_clean_inverse.
Print Assumptions setup_all_exact.
Print Assumptions setup_all_idem.
Print Assumptions clean_total.
Print Assumptions clean_total_unreferenced.
Print Assumptions cleanup_retry_completes.
Print Assumptions teardown_success_is_complete.
Print Assumptions failed_teardown_keeps_state_file.
Print Assumptions teardown_retry_completes.
Print Assumptions setup_then_teardown_with_retry.
Print Assumptions failed_setup_leaves_nothing.

(** in every history of open / close calls (and binds / releases by other processes): all bound
    sockets - the ports handed out, including kernel-chosen ones, and everyone else's - are pairwise
    distinct per protocol; a pod's ports stay bound until that pod's close; a failed open leaves the
    port space as it was *)
Theorem ports_distinct_held : forall (st : pstate) (ops : list pop),
  NoDup (bound st) -> NoDup (bound (prun st ops)).
Proof. exact ports_distinct_l. Qed.
Print Assumptions ports_distinct_held.

Theorem ports_held_until_close : forall (st : pstate) (o : pop) (pod : str) (l : list hport),
  held_lookup pod (ps_held st) = Some l -> o <> PClose pod ->
  incl l (bound (pstep st o)) /\
  (match o with POpen p _ _ _ => p <> pod | _ => True end -> held_lookup pod (ps_held (pstep st o)) = Some l).
Proof. exact ports_held_l. Qed.
Print Assumptions ports_held_until_close.

Theorem failed_open_leaves_nothing : forall (st : pstate) pod random ps oracle,
  snd (open_hostports pod random ps oracle st) = OpenErr -> fst (open_hostports pod random ps oracle st) = st.
Proof. exact failed_open_l. Qed.
Print Assumptions failed_open_leaves_nothing.

(** the hypotheses are met by a concrete non-trivial table (foreign chain, another pod's chain, a stale chain) *)
Example c14_nonvacuous : sync_pre example_cname example_ports example_table /\
  (forall p, In p example_new_ports -> fresh_chain example_table (example_cname p)) /\
  List.length example_table = 8%nat.
Proof. exact c14_example_l. Qed.

(** F17: on a table without the port's chain the old CleanPortMapping returns an error and changes nothing
    (so every retry fails too); the repaired one is accepted and leaves the table as it is *)
Example teardown_refuted_missing_chain_old :
  clean_old example_cname example_new_ports dex_table = (dex_table, false) /\
  exists t', clean example_cname example_new_ports dex_table = (t', true) /\ table_eqb t' dex_table = true.
Proof. exact clean_old_refuted_l. Qed.
Print Assumptions teardown_refuted_missing_chain_old.

(** the daemon theorems' hypotheses are met and their scenario runs on a concrete state: two ports of one
    pod are set up; a tear-down whose third call (the second DeleteRule) fails keeps the file and the second
    jump; the next tear-down removes the file and gives the table back, but for KUBE-MARK-MASQ *)
Example daemon_teardown_nonvacuous :
  let r1 := d_setup example_cname dex_cid dex_ports None dex_state in
  let r2 := d_clean example_cname dex_cid (Some 2%nat) (fst r1) in
  let r3 := d_clean example_cname dex_cid None (fst r2) in
  (has_chain hostports dex_table = true /\ NoDup (map example_cname dex_ports) /\
   (forall p, In p dex_ports -> proto_plain p) /\
   (forall p, In p dex_ports -> fresh_chain dex_table (example_cname p)) /\
   d_lookup dex_cid (d_files dex_state) = None) /\
  snd r1 = true /\ d_lookup dex_cid (d_files (fst r1)) = Some dex_ports /\
  tlookup hostports (d_table (fst r1)) = Some (map (jump_rule example_cname) dex_ports) /\
  snd r2 = false /\ d_files (fst r2) = d_files (fst r1) /\
  tlookup hostports (d_table (fst r2)) = Some (map (jump_rule example_cname) (tl dex_ports)) /\
  (forall p, In p dex_ports -> tlookup (example_cname p) (d_table (fst r2)) = Some []) /\
  snd r3 = true /\ d_files (fst r3) = d_files dex_state /\
  table_eqb (tremove markmasq (d_table (fst r3))) dex_table = true /\
  tlookup markmasq (d_table (fst r3)) = Some [mark_rule].
Proof. exact daemon_example_l. Qed.
Print Assumptions daemon_teardown_nonvacuous.
