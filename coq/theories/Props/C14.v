(** C14 - Host-port mappings are set up, held and removed completely.
    Property theorems only; proofs are in Proofs/NetfilterP.v and Proofs/PortMapP.v.
    The NAT table is any association list of chains (arbitrary foreign chains and rules, other pods'
    KUBE-HP-* chains); the chain-name hash is the Section variable [cname] and the theorems state what
    they need of it (distinct names carrying the KUBE-HP- prefix, fresh for a new pod). *)
From Coq Require Import List NArith Bool.
From Galaxy.Base Require Import Strs.
From Galaxy.Model Require Import Netfilter PortMap.
From Galaxy.Proofs Require Import NetfilterP PortMapP.
Import ListNotations.
Open Scope N_scope.

Section C14.
Variable cname : port -> str.

(** setting up the ports of one pod and cleaning them up again: no batch or command is rejected, and
    the table is as before on every chain except KUBE-MARK-MASQ (co-owned with kubelet, rewritten to
    the single mark rule) - no chain or rule of the pod is left, nothing else is changed *)
Theorem setup_clean_inverse : forall (t : table) (ps : list port),
  has_chain hostports t = true ->
  NoDup (map cname ps) ->
  (forall p, In p ps -> proto_plain p) ->
  (forall p, In p ps -> fresh_chain t (cname p)) ->
  exists t1 t2, setup cname ps t = (t1, true) /\ clean cname ps t1 = (t2, true) /\
    forall c, c <> markmasq -> tlookup c t2 = tlookup c t.
Proof. exact (setup_clean_inverse_l cname). Qed.

(** a full synchronisation is accepted and leaves exactly the chains and rules of the given ports,
    whatever stale KUBE-HP-* chains existed, and touches no chain that is not galaxy's (beyond the two
    portal rules EnsureBasicRule makes sure of) *)
Theorem setup_all_exact : forall (t : table) (ps : list port),
  sync_pre cname ps t ->
  exists t', setup_all cname ps t = (t', true) /\ sync_post cname ps t t'.
Proof. exact (setup_all_exact_l cname). Qed.

(** synchronising again changes nothing *)
Theorem setup_all_idem : forall (t t' : table) (ps : list port),
  sync_pre cname ps t -> setup_all cname ps t = (t', true) ->
  exists t'', setup_all cname ps t' = (t'', true) /\ forall c, tlookup c t'' = tlookup c t'.
Proof. exact (setup_all_idem_l cname). Qed.
End C14.
Print Assumptions setup_clean_inverse.
Print Assumptions setup_all_exact.
Print Assumptions setup_all_idem.

(** in every history of open / close calls (and binds / releases by other processes): all bound
    sockets - the ports handed out, including kernel-chosen ones, and everyone else's - are pairwise
    distinct per protocol; a pod's ports stay bound until that pod's close; a failed open leaves the
    port space as it was *)
Theorem ports_distinct_held : forall (st : pstate) (ops : list pop),
  NoDup (bound st) -> NoDup (bound (prun st ops)).
Proof. exact ports_distinct_l. Qed.
Print Assumptions ports_distinct_held.

Theorem ports_held_until_close : forall (st : pstate) (o : pop) (pod : str) (l : list hport),
  held_lookup pod (ps_held st) = Some l -> o <> PClose pod ->
  incl l (bound (pstep st o)) /\
  (match o with POpen p _ _ _ => p <> pod | _ => True end -> held_lookup pod (ps_held (pstep st o)) = Some l).
Proof. exact ports_held_l. Qed.
Print Assumptions ports_held_until_close.

Theorem failed_open_leaves_nothing : forall (st : pstate) pod random ps oracle,
  snd (open_hostports pod random ps oracle st) = OpenErr -> fst (open_hostports pod random ps oracle st) = st.
Proof. exact failed_open_l. Qed.
Print Assumptions failed_open_leaves_nothing.

(** the hypotheses are met by a concrete non-trivial table (foreign chain, another pod's chain, a stale chain) *)
Example c14_nonvacuous : sync_pre example_cname example_ports example_table /\
  (forall p, In p example_new_ports -> fresh_chain example_table (example_cname p)) /\
  List.length example_table = 8%nat.
Proof. exact c14_example_l. Qed.
