(** Lemmas of C02 (float IP is sticky across reschedule and rolling update) and C06 (filter-approved nodes can
    be bound and get a routable IP) over the plugin model: sections [filter_section] and
    [bind_section true true] of Model/Plugin.v.  The property theorems are in Props/C02.v and Props/C06.v. *)
From Coq Require Import String.
From stdpp Require Import gmap.
From Galaxy.Base Require Import Strs.
From Galaxy.Model Require Import Nets Pool Ipam Plugin PluginInfo.
From Galaxy.Model Require Keys.
From Galaxy.Proofs Require Import IpamP PluginInv PluginInvL PluginKeyFacts PluginIpamFacts PluginBindP.
Local Open Scope N_scope.

(** * subnets *)

Lemma subnet_eqb_eq (a b : subnet) : subnet_eqb a b = true ↔ a = b.
Proof.
  unfold subnet_eqb. destruct a as [a1 a2], b as [b1 b2]. simpl. rewrite andb_true_iff, !N.eqb_eq.
  split; [intros [-> ->]; done|intros H; by inversion H].
Qed.

Lemma sn_in_spec l sn : sn_in l sn = true ↔ sn ∈ l.
Proof.
  unfold sn_in. rewrite existsb_exists. split.
  - intros (x & Hx & He). apply subnet_eqb_eq in He as ->. by apply elem_of_list_In.
  - intros H. exists sn. split; [by apply elem_of_list_In|by apply subnet_eqb_eq].
Qed.

Lemma ip_has_subnet_sn_in i x sn : ip_has_subnet (i_pools i) x sn = sn_in (subnets_of_ip i x) sn.
Proof. unfold ip_has_subnet, subnets_of_ip, pool_has_subnet, sn_in. by destruct (pool_of (i_pools i) x). Qed.

Lemma sn_in_inter a b sn : sn_in (sn_inter a b) sn = true ↔ sn_in a sn = true ∧ sn_in b sn = true.
Proof.
  rewrite !sn_in_spec. unfold sn_inter. rewrite elem_of_list_In, filter_In, <- elem_of_list_In, sn_in_spec. done.
Qed.

(** the filter's node test, unfolded *)
Lemma node_ok_spec w subnets n :
  node_ok w subnets n = true ↔ ∃ nip sn, w_nodes w !! n = Some nip ∧ node_subnet (w_ipam w) nip = Some sn ∧ sn ∈ subnets.
Proof.
  unfold node_ok. destruct (w_nodes w !! n) as [nip|]; [|split; [discriminate|intros (? & ? & ? & _); congruence]].
  destruct (node_subnet (w_ipam w) nip) as [sn|] eqn:Es.
  - rewrite sn_in_spec. split; [intros H; by exists nip, sn|]. intros (? & ? & H1 & H2 & H3). by simplify_eq.
  - split; [discriminate|]. intros (? & ? & H1 & H2 & _). simplify_eq.
Qed.

(** * the key's first IP *)

Lemma first_of_key_spec i key o r : first_of_key i key o = Some r →
  match r with
  | Some y => ∃ ey, i_alloc i !! y = Some ey ∧ e_key ey = key
  | None => ∀ y ey, i_alloc i !! y = Some ey → e_key ey ≠ key
  end.
Proof.
  destruct r as [y|]; intros H.
  - apply first_of_key_some in H as (ey & He & Hk & _). by exists ey.
  - by apply first_of_key_none in H as [_ ?].
Qed.

Lemma first_of_key_held i key o x e r : i_alloc i !! x = Some e → e_key e = key → first_of_key i key o = Some r →
  ∃ y ey, r = Some y ∧ i_alloc i !! y = Some ey ∧ e_key ey = key.
Proof.
  intros He Hk H. apply first_of_key_spec in H. destruct r as [y|]; [|by destruct (H x e He)].
  destruct H as (ey & ? & ?). by exists y, ey.
Qed.

Lemma first_of_key_free i key o r : (∀ y ey, i_alloc i !! y = Some ey → e_key ey ≠ key) → first_of_key i key o = Some r → r = None.
Proof.
  intros Hn H. apply first_of_key_spec in H. destruct r as [y|]; [|done]. destruct H as (ey & He & Hk). by destruct (Hn y ey He).
Qed.

(** * C02 / C06, filter side *)

(** a pod (any policy, no requested ranges) whose key holds IPs is offered exactly the nodes from which the IP the
    oracle names is routable, and filter changes nothing *)
Lemma sticky_filter_l w p nodes o fl x e w' r :
  pd_ranges p = [] → i_alloc (w_ipam w) !! x = Some e → e_key e = pod_key p →
  filter_section w p nodes o fl = (w', r) → r ≠ FStuck →
  w' = w ∧ ∃ y ey, i_alloc (w_ipam w) !! y = Some ey ∧ e_key ey = pod_key p ∧
                   r = FNodes (List.filter (node_ok w (subnets_of_ip (w_ipam w) y)) nodes).
Proof.
  intros Hr He Hk H Hns. unfold filter_section in H. cbv zeta in H. rewrite Hr in H.
  fold (pod_key p) in H.
  destruct (first_of_key (w_ipam w) (pod_key p) o) as [r0|] eqn:Ef; [|inversion H; congruence].
  destruct (first_of_key_held _ _ _ _ _ _ He Hk Ef) as (y & ey & -> & Hy & Hky).
  inversion H; subst. split; [done|]. by exists y, ey.
Qed.

Lemma in_filter_node_ok w subnets nodes n :
  In n (List.filter (node_ok w subnets) nodes) ↔
  In n nodes ∧ ∃ nip sn, w_nodes w !! n = Some nip ∧ node_subnet (w_ipam w) nip = Some sn ∧ sn ∈ subnets.
Proof. by rewrite filter_In, node_ok_spec. Qed.

Lemma elem_of_subnets_of_ip i x sn : sn ∈ subnets_of_ip i x ↔ ip_has_subnet (i_pools i) x sn = true.
Proof. by rewrite ip_has_subnet_sn_in, sn_in_spec. Qed.

(** ... restated with the node test unfolded *)
Lemma owned_restricts_l w p nodes o fl x e w' l :
  pd_ranges p = [] → i_alloc (w_ipam w) !! x = Some e → e_key e = pod_key p →
  filter_section w p nodes o fl = (w', FNodes l) →
  w' = w ∧ ∃ y ey, i_alloc (w_ipam w) !! y = Some ey ∧ e_key ey = pod_key p ∧
    ∀ n, In n l ↔ In n nodes ∧ ∃ nip sn, w_nodes w !! n = Some nip ∧ node_subnet (w_ipam w) nip = Some sn ∧
                                      ip_has_subnet (i_pools (w_ipam w)) y sn = true.
Proof.
  intros Hr He Hk H. destruct (sticky_filter_l _ _ _ _ _ _ _ _ _ Hr He Hk H) as (-> & y & ey & Hy & Hky & Hl); [done|].
  split; [done|]. exists y, ey. split_and!; try done. intros n. inversion Hl; subst.
  rewrite in_filter_node_ok. by setoid_rewrite elem_of_subnets_of_ip.
Qed.

Lemma elem_of_subnets_of_ips i ips sn :
  sn ∈ subnets_of_ips i ips ↔ ∃ x, x ∈ ips ∧ ip_has_subnet (i_pools i) x sn = true.
Proof.
  unfold subnets_of_ips. rewrite elem_of_list_In, in_concat. split.
  - intros (l & Hl & Hsn). apply in_map_iff in Hl as (x & <- & Hx). exists x. split; [by apply elem_of_list_In|].
    apply elem_of_subnets_of_ip. by apply elem_of_list_In.
  - intros (x & Hx & Hsn). exists (subnets_of_ip i x). split.
    + apply in_map_iff. exists x. split; [done|by apply elem_of_list_In].
    + apply elem_of_list_In. by apply elem_of_subnets_of_ip.
Qed.

Lemma policy0_no_pool p : policy_of p = 0 → pd_pool p = [].
Proof. unfold policy_of. destruct (pd_pool p); [done|discriminate]. Qed.

(** the [continue_with] part of [filter_section]: getAvailableSubnet + allocateDuringFilter *)
Definition filter_avail (w : world) (p : pod) (ranges : list (list range)) (replicas : N) (sized : bool)
  : option (list subnet * bool) :=
  let i := w_ipam w in
  let k := keyobj_of p in
  if ko_is_dp k && negb (policy_of p =? 0) then
    match ranges with
    | _ :: _ => None
    | [] =>
        let prefix := Keys.pool_prefix k in
        let app_prefix := Keys.pool_app_prefix k in
        let ips := by_prefix i prefix in
        let used := List.length (List.filter (fun kv =>
                      negb (str_eqb (e_key (snd kv)) prefix) &&
                      (sized || Keys.is_empty (Keys.ko_pool k) || has_prefix app_prefix (e_key (snd kv)))) ips) in
        let unused := List.concat (map (fun kv => subnets_of_ip i (fst kv))
                                       (List.filter (fun kv => str_eqb (e_key (snd kv)) prefix) ips)) in
        if (replicas <=? N.of_nat used) then None
        else match unused with
             | _ :: _ => Some (unused, true)
             | [] => Some (node_subnets_by_ranges i ranges, false)
             end
    end
  else Some (node_subnets_by_ranges i ranges, false).

Definition restrict_subnets (subnets : list subnet) (owned_subnets : option (list subnet)) : list subnet :=
  match owned_subnets with Some os => sn_inter subnets os | None => subnets end.

Definition filter_cont (w : world) (p : pod) (nodes : list str) (o : oracle) (fl : faults)
    (ranges : list (list range)) (owned_subnets : option (list subnet)) : world * fres :=
  let i := w_ipam w in
  let k := keyobj_of p in
  let key := pod_key p in
  let finish (w' : world) (subnets : list subnet) := (w', FNodes (List.filter (node_ok w' subnets) nodes)) in
  let policy := policy_of p in
  if negb (policy =? 0) && negb (supports_policy (ko_is_dp k) (ko_is_sts k) (pd_name p) policy) then (w, FErr) else
  let '(replicas, sized) := if ko_is_dp k then dp_replicas w k else (0, false) in
  match filter_avail w p ranges replicas sized with
  | None => (w, FErr)
  | Some (subnets, reserve) =>
      let subnets := restrict_subnets subnets owned_subnets in
      if (reserve || sized) then
        match min_subnet subnets with
        | None => finish w []
        | Some sn =>
            let a := {| a_policy := policy; a_node := []; a_uid := pd_uid p |} in
            let fail := match f_store fl with Some _ => true | None => false end in
            if reserve then
              match alloc_with_key i (Keys.pool_prefix k) key sn a (o_choice o) fail with
              | (i', AOk) => finish (set_ipam w i') [sn]
              | (_, AStuck) => (w, FStuck)
              | (_, _) => (w, FErr)
              end
            else
              match alloc_in_subnet i key sn a (o_choice o) fail with
              | (i', AOk, _) => finish (set_ipam w i') [sn]
              | (_, AStuck, _) => (w, FStuck)
              | (_, _, _) => (w, FErr)
              end
        end
      else finish w subnets
  end.

Definition owned_subnets_of (i : ipam) (owned : list N) : list subnet :=
  match owned with
  | [] => []
  | x :: r => fold_left (fun acc y => sn_inter acc (subnets_of_ip i y)) r (subnets_of_ip i x)
  end.
Definition missing_of (slots : list (option N)) (rss : list (list range)) : list (list range) :=
  List.concat (map (fun sr => match fst sr with None => [snd sr] | Some _ => [] end) (combine slots rss)).

Lemma filter_section_unfold w p nodes o fl :
  filter_section w p nodes o fl =
  match pd_ranges p with
  | [] =>
      match first_of_key (w_ipam w) (pod_key p) o with
      | None => (w, FStuck)
      | Some (Some x) => (w, FNodes (List.filter (node_ok w (subnets_of_ip (w_ipam w) x)) nodes))
      | Some None => filter_cont w p nodes o fl [] None
      end
  | rss =>
      let slots := by_key_ranges (w_ipam w) (pod_key p) rss in
      match missing_of slots rss with
      | [] => (w, FNodes (List.filter (node_ok w (owned_subnets_of (w_ipam w) (somes slots))) nodes))
      | _ => filter_cont w p nodes o fl (missing_of slots rss)
               (match somes slots with [] => None | _ => Some (owned_subnets_of (w_ipam w) (somes slots)) end)
      end
  end.
Proof. reflexivity. Qed.

Lemma fresh_exact_l w p nodes o fl w' l :
  pd_ranges p = [] → (∀ y ey, i_alloc (w_ipam w) !! y = Some ey → e_key ey ≠ pod_key p) →
  (pd_kind p = KDp → policy_of p = 0) →
  filter_section w p nodes o fl = (w', FNodes l) →
  w' = w ∧ ∀ n, In n l ↔ In n nodes ∧ ∃ nip sn x, w_nodes w !! n = Some nip ∧ node_subnet (w_ipam w) nip = Some sn ∧
                                           x ∈ i_unalloc (w_ipam w) ∧ ip_has_subnet (i_pools (w_ipam w)) x sn = true.
Proof.
  intros Hr Hfree Hdp H. rewrite filter_section_unfold, Hr in H.
  destruct (first_of_key (w_ipam w) (pod_key p) o) as [r0|] eqn:Ef; [|inversion H].
  rewrite (first_of_key_free _ _ _ _ Hfree Ef) in H. unfold filter_cont in H. cbv zeta in H.
  destruct (negb (policy_of p =? 0) && negb _) eqn:Esup; [inversion H|].
  assert (ko_is_dp (keyobj_of p) && negb (policy_of p =? 0) = false) as Hnd.
  { rewrite ko_is_dp_pod. destruct (decide (pd_kind p = KDp)) as [Hk|Hk].
    - rewrite (Hdp Hk). apply andb_false_r.
    - by rewrite bool_decide_eq_false_2. }
  assert ((if ko_is_dp (keyobj_of p) then dp_replicas w (keyobj_of p) else (0, false)).2 = false) as Hsz.
  { rewrite ko_is_dp_pod. destruct (decide (pd_kind p = KDp)) as [Hk|Hk]; [|by rewrite bool_decide_eq_false_2].
    rewrite bool_decide_eq_true_2 by done. unfold dp_replicas.
    replace (Keys.ko_pool (keyobj_of p)) with (pd_pool p) by reflexivity. rewrite (policy0_no_pool p (Hdp Hk)). done. }
  destruct (if ko_is_dp (keyobj_of p) then dp_replicas w (keyobj_of p) else (0, false)) as [replicas sized].
  simpl in Hsz. subst sized. unfold filter_avail in H. cbv zeta in H. rewrite Hnd in H. cbn [restrict_subnets orb] in H.
  inversion H; subst. split; [done|]. intros n. rewrite in_filter_node_ok.
  unfold node_subnets_by_ranges. setoid_rewrite elem_of_subnets_of_ips. setoid_rewrite elem_of_elements.
  split; intros [Hn (nip & sn & H1)]; (split; [done|]).
  - destruct H1 as (H1 & H2 & x & H3 & H4). by exists nip, sn, x.
  - destruct H1 as (x & H1 & H2 & H3 & H4). exists nip, sn. split_and!; try done. by exists x.
Qed.

Lemma has_prefix_refl s : has_prefix s s = true.
Proof. rewrite <- (app_nil_r s) at 2. apply KeysP.has_prefix_app. Qed.

Lemma min_subnet_cons sn l : min_subnet (sn :: l) ≠ None.
Proof. simpl. destruct (min_subnet l); [destruct (str_ltb _ _)|]; done. Qed.

Lemma min_subnet_in l sn : min_subnet l = Some sn → sn ∈ l.
Proof.
  revert sn. induction l as [|a l IH]; intros sn H; simpl in H; [discriminate|].
  destruct (min_subnet l) as [m|].
  - destruct (str_ltb _ _); inversion H; subst; [right; by apply IH|left].
  - inversion H; subst. left.
Qed.

(** a deployment / pool pod with policy immutable or never and no IP under its own key, whose app (pool) holds a
    reserve IP that is routable from somewhere: filter re-keys ONE reserve IP to the pod and allocates nothing
    fresh, or changes nothing; it returns nodes only in the first case *)
Lemma dp_takes_reserve_l w p nodes o fl w' r :
  pd_kind p = KDp → policy_of p ≠ 0 → pd_ranges p = [] →
  (∀ y ey, i_alloc (w_ipam w) !! y = Some ey → e_key ey ≠ pod_key p) →
  (∃ y ey, i_alloc (w_ipam w) !! y = Some ey ∧ e_key ey = Keys.pool_prefix (keyobj_of p) ∧ subnets_of_ip (w_ipam w) y ≠ []) →
  filter_section w p nodes o fl = (w', r) →
  dom (i_alloc (w_ipam w')) = dom (i_alloc (w_ipam w)) ∧
  ((w' = w ∧ ∀ l, r ≠ FNodes l) ∨
   ((∃ l, r = FNodes l) ∧ w_pods w' = w_pods w ∧ w_lister w' = w_lister w ∧
    ∃ y ey ey', i_alloc (w_ipam w) !! y = Some ey ∧ e_key ey = Keys.pool_prefix (keyobj_of p) ∧
                i_alloc (w_ipam w') !! y = Some ey' ∧ e_key ey' = pod_key p ∧ e_uid ey' = pd_uid p ∧
                i_unalloc (w_ipam w') = i_unalloc (w_ipam w) ∧ i_pools (w_ipam w') = i_pools (w_ipam w) ∧
                ∀ z, z ≠ y → i_alloc (w_ipam w') !! z = i_alloc (w_ipam w) !! z)).
Proof.
  intros Hk Hpol Hr Hfree (y & ey & Hy & Hky & Hsn) H. rewrite filter_section_unfold, Hr in H.
  assert (∀ r0, (w, r0) = (w', r) → (∀ l, r0 ≠ FNodes l) →
    dom (i_alloc (w_ipam w')) = dom (i_alloc (w_ipam w)) ∧ ((w' = w ∧ ∀ l, r ≠ FNodes l) ∨
   ((∃ l, r = FNodes l) ∧ w_pods w' = w_pods w ∧ w_lister w' = w_lister w ∧
    ∃ y ey ey', i_alloc (w_ipam w) !! y = Some ey ∧ e_key ey = Keys.pool_prefix (keyobj_of p) ∧
                i_alloc (w_ipam w') !! y = Some ey' ∧ e_key ey' = pod_key p ∧ e_uid ey' = pd_uid p ∧
                i_unalloc (w_ipam w') = i_unalloc (w_ipam w) ∧ i_pools (w_ipam w') = i_pools (w_ipam w) ∧
                ∀ z, z ≠ y → i_alloc (w_ipam w') !! z = i_alloc (w_ipam w) !! z))) as Hsame.
  { intros r0 E Hr0. inversion E; subst. split; [done|]. by left. }
  destruct (first_of_key (w_ipam w) (pod_key p) o) as [r0|] eqn:Ef; [|by apply (Hsame _ H)].
  rewrite (first_of_key_free _ _ _ _ Hfree Ef) in H. unfold filter_cont in H. cbv zeta in H.
  destruct (negb (policy_of p =? 0) && negb _) eqn:Esup; [by apply (Hsame _ H)|].
  destruct (if ko_is_dp (keyobj_of p) then dp_replicas w (keyobj_of p) else (0, false)) as [replicas sized].
  unfold filter_avail in H. cbv zeta in H.
  rewrite ko_is_dp_pod, bool_decide_eq_true_2 in H by done.
  replace (negb (policy_of p =? 0)) with true in H by (symmetry; by apply negb_true_iff, N.eqb_neq).
  cbn [andb] in H.
  destruct (replicas <=? _); [by apply (Hsame _ H)|].
  match type of H with context [match ?U with [] => Some (node_subnets_by_ranges _ _, false) | _ :: _ => _ end] =>
    assert (U ≠ []) as Hun; [|destruct U as [|sn0 unused] eqn:EU; [done|]] end.
  { intros Hnil. apply Hsn. destruct (subnets_of_ip (w_ipam w) y) as [|s0 l0] eqn:Es; [done|]. exfalso.
    assert (In s0 []) as Hin; [|done]. rewrite <- Hnil. apply in_concat. exists (subnets_of_ip (w_ipam w) y). split; [|rewrite Es; by left].
    apply in_map_iff. exists (y, ey). split; [done|]. apply filter_In. split.
    - apply by_prefix_spec. split; [done|]. rewrite Hky. apply has_prefix_refl.
    - simpl. rewrite Hky. apply str_eqb_refl. }
  cbn [restrict_subnets orb] in H.
  destruct (min_subnet (sn0 :: unused)) as [sn|] eqn:Em; [|by destruct (min_subnet_cons sn0 unused)].
  match type of H with context [alloc_with_key ?a ?b ?c ?d ?e ?f ?g] => destruct (alloc_with_key a b c d e f g) as [i' ra] eqn:Ea end.
  destruct ra; try (by apply (Hsame _ H)).
  inversion H; subst; clear H Hsame. cbn [set_ipam w_ipam w_pods w_lister].
  apply alloc_with_key_spec in Ea as [(_ & x & e & He & Hke & _ & Hal & Hun' & Hpo)|[? _]]; [|done].
  rewrite Hal. split.
  - rewrite dom_insert_L. apply elem_of_dom_2 in He. set_solver.
  - right. split; [eauto|]. split_and!; try done. exists x, e. eexists. rewrite lookup_insert.
    split_and!; try done. intros z Hz. by rewrite lookup_insert_ne.
Qed.

(** * Bind, decomposed *)

Definition bind_slots (i : ipam) (p : pod) (o : oracle) : option (list (option N)) :=
  match pd_ranges p with
  | [] => match first_of_key i (pod_key p) o with
          | None => None
          | Some None => Some []
          | Some (Some x) => Some [Some x]
          end
  | _ => Some (by_key_ranges i (pod_key p) (pd_ranges p))
  end.
Definition bind_guard (i : ipam) (p : pod) : bool :=
  existsb (fun x => match i_alloc i !! x with
                    | Some e => negb (Keys.is_empty (e_uid e)) && negb (str_eqb (e_uid e) (pd_uid p))
                    | None => false end) (map fst (by_key i (pod_key p))).
Definition bind_attr (p : pod) (node : str) : attr := {| a_policy := policy_of p; a_node := node; a_uid := pd_uid p |}.

Lemma bind_section_unfold w ns name uid node o fl :
  bind_section true true w ns name uid node o fl =
  match w_lister w !! (ns, name) with
  | None => (w, BErr)
  | Some p =>
      if negb (match uid, pd_uid p with [], _ => true | _, [] => true | _, _ => str_eqb uid (pd_uid p) end) then (w, BErr) else
      match bind_slots (w_ipam w) p o with
      | None => (w, BStuck)
      | Some slots =>
          if bind_guard (w_ipam w) p then (w, BErr) else
          match bind_alloc w (pod_key p) node (pd_ranges p) slots (bind_attr p node) o fl with
          | None => (w, BStuck)
          | Some (w1, None) => (w1, BErr)
          | Some (w1, Some ips) =>
              match assign_loop w1 (pod_key p) node (bind_attr p node) ips (somes slots) 0 0 fl with
              | (w2, SOk) =>
                  match api_bind w2 (ns, name) uid node ips (f_bind fl =? 1) with
                  | (w3, BindOk) => (w3, BOk ips)
                  | (w3, BindNotFound) => (set_queue w3 (w_queue w3 ++ [p]), BErr)
                  | (w3, BindFail) => (w3, BErr)
                  end
              | (w2, _) => (w2, BErr)
              end
          end
      end
  end.
Proof. reflexivity. Qed.

(** both sections with the function that names the key's first IP as a parameter [fok]: [first_of_key] gives the
    sections of the model (by computation), [first_of_key_old] the sections as they were before the repair of K7 *)
Definition filter_section_g (fok : ipam → str → oracle → option (option N))
    (w : world) (p : pod) (nodes : list str) (o : oracle) (fl : faults) : world * fres :=
  match pd_ranges p with
  | [] =>
      match fok (w_ipam w) (pod_key p) o with
      | None => (w, FStuck)
      | Some (Some x) => (w, FNodes (List.filter (node_ok w (subnets_of_ip (w_ipam w) x)) nodes))
      | Some None => filter_cont w p nodes o fl [] None
      end
  | rss =>
      let slots := by_key_ranges (w_ipam w) (pod_key p) rss in
      match missing_of slots rss with
      | [] => (w, FNodes (List.filter (node_ok w (owned_subnets_of (w_ipam w) (somes slots))) nodes))
      | _ => filter_cont w p nodes o fl (missing_of slots rss)
               (match somes slots with [] => None | _ => Some (owned_subnets_of (w_ipam w) (somes slots)) end)
      end
  end.

Definition bind_slots_g (fok : ipam → str → oracle → option (option N)) (i : ipam) (p : pod) (o : oracle)
  : option (list (option N)) :=
  match pd_ranges p with
  | [] => match fok i (pod_key p) o with
          | None => None
          | Some None => Some []
          | Some (Some x) => Some [Some x]
          end
  | _ => Some (by_key_ranges i (pod_key p) (pd_ranges p))
  end.

Definition bind_section_g (fok : ipam → str → oracle → option (option N))
    (w : world) (ns name uid node : str) (o : oracle) (fl : faults) : world * bres :=
  match w_lister w !! (ns, name) with
  | None => (w, BErr)
  | Some p =>
      if negb (match uid, pd_uid p with [], _ => true | _, [] => true | _, _ => str_eqb uid (pd_uid p) end) then (w, BErr) else
      match bind_slots_g fok (w_ipam w) p o with
      | None => (w, BStuck)
      | Some slots =>
          if bind_guard (w_ipam w) p then (w, BErr) else
          match bind_alloc w (pod_key p) node (pd_ranges p) slots (bind_attr p node) o fl with
          | None => (w, BStuck)
          | Some (w1, None) => (w1, BErr)
          | Some (w1, Some ips) =>
              match assign_loop w1 (pod_key p) node (bind_attr p node) ips (somes slots) 0 0 fl with
              | (w2, SOk) =>
                  match api_bind w2 (ns, name) uid node ips (f_bind fl =? 1) with
                  | (w3, BindOk) => (w3, BOk ips)
                  | (w3, BindNotFound) => (set_queue w3 (w_queue w3 ++ [p]), BErr)
                  | (w3, BindFail) => (w3, BErr)
                  end
              | (w2, _) => (w2, BErr)
              end
          end
      end
  end.

Lemma filter_section_g_model w p nodes o fl : filter_section_g first_of_key w p nodes o fl = filter_section w p nodes o fl.
Proof. reflexivity. Qed.
Lemma bind_section_g_model w ns name uid node o fl :
  bind_section_g first_of_key w ns name uid node o fl = bind_section true true w ns name uid node o fl.
Proof. reflexivity. Qed.

(** the sections before the repair of K7: "the first" IP of the key is whichever Go's map iteration produced first *)
Definition filter_section_old7 := filter_section_g first_of_key_old.
Definition bind_section_old7 := bind_section_g first_of_key_old.

(** the table changes of the attach loop: entries of the key are re-written under the same key; nothing is
    allocated or freed, the configuration stays *)
Definition upd (key : str) (i i' : ipam) : Prop :=
  i_pools i' = i_pools i ∧ i_unalloc i' = i_unalloc i ∧
  ∀ y, i_alloc i' !! y = i_alloc i !! y ∨
       ∃ e e', i_alloc i !! y = Some e ∧ e_key e = key ∧ i_alloc i' !! y = Some e' ∧ e_key e' = key.

Lemma upd_refl key i : upd key i i.
Proof. split_and!; try done. by left. Qed.

Lemma upd_trans key i1 i2 i3 : upd key i1 i2 → upd key i2 i3 → upd key i1 i3.
Proof.
  intros (P1 & U1 & H1) (P2 & U2 & H2). split_and!; [congruence|congruence|]. intros y.
  destruct (H2 y) as [E2|(e2 & e3 & He2 & Hk2 & He3 & Hk3)].
  - rewrite E2. apply H1.
  - destruct (H1 y) as [E1|(e1 & e2' & He1 & Hk1 & He2' & Hk2')]; right.
    + exists e2, e3. split_and!; try done. congruence.
    + exists e1, e3. done.
Qed.

Lemma upd_dom key i i' : upd key i i' → dom (i_alloc i') = dom (i_alloc i).
Proof.
  intros (_ & _ & H). apply set_eq. intros y. rewrite !elem_of_dom.
  destruct (H y) as [->|(e & e' & -> & _ & -> & _)]; [done|]. split; eauto.
Qed.

Lemma upd_keyed key i i' y e : upd key i i' → i_alloc i !! y = Some e → e_key e = key →
  ∃ e', i_alloc i' !! y = Some e' ∧ e_key e' = key.
Proof.
  intros (_ & _ & H) He Hk. destruct (H y) as [E|(e0 & e' & _ & _ & He' & Hk')]; [|by exists e'].
  exists e. split; [congruence|done].
Qed.

Lemma upd_keyed_rev key k i i' y e' : upd key i i' → i_alloc i' !! y = Some e' → e_key e' = k →
  ∃ e, i_alloc i !! y = Some e ∧ e_key e = k.
Proof.
  intros (_ & _ & H) He Hk. destruct (H y) as [E|(e0 & e1 & He0 & Hk0 & He1 & Hk1)].
  - exists e'. split; [congruence|done].
  - exists e0. split; [done|]. congruence.
Qed.

Lemma assign_loop_upd key node a reused fl ips : ∀ w idx ridx w' r,
  assign_loop w key node a ips reused idx ridx fl = (w', r) →
  upd key (w_ipam w) (w_ipam w') ∧ w_pods w' = w_pods w ∧ w_lister w' = w_lister w ∧ w_nodes w' = w_nodes w ∧
  w_queue w' = w_queue w.
Proof.
  induction ips as [|x rest IH]; intros w idx ridx w' r H; cbn [assign_loop] in H.
  { inversion H; subst. split_and!; try done. apply upd_refl. }
  destruct (w_provider w && bool_decide (f_cloud fl = Some idx)) eqn:Ef.
  { inversion H; subst. split_and!; try done. apply upd_refl. }
  set (w1 := if w_provider w then cloud_assign w x node else w) in *.
  assert (w_pods w1 = w_pods w ∧ w_lister w1 = w_lister w ∧ w_nodes w1 = w_nodes w ∧ w_queue w1 = w_queue w ∧ w_ipam w1 = w_ipam w)
    as (Ep1 & El1 & En1 & Eq1 & Ei1) by (unfold w1; destruct (w_provider w); done).
  clearbody w1.
  destruct (existsb (N.eqb x) reused) eqn:Ex.
  - destruct (update_attr (w_ipam w1) key x a (bool_decide (f_update fl = Some ridx))) as [i' ra] eqn:Eu.
    rewrite Ei1 in Eu.
    destruct ra; try (inversion H; subst; rewrite Ei1; split_and!; try done; apply upd_refl).
    apply IH in H as (Hu & Ep & El & En & Eq). cbn [set_ipam w_ipam w_pods w_lister w_nodes w_queue] in *.
    apply update_attr_spec in Eu as [(_ & e & He & Hk & Hal & Hun & Hpo)|[? _]]; [|done].
    split_and!; try congruence. eapply upd_trans; [|exact Hu].
    split_and!; try done. intros y. rewrite Hal. destruct (decide (y = x)) as [->|Hne].
    + right. exists e. eexists. rewrite lookup_insert. done.
    + left. by rewrite lookup_insert_ne.
  - apply IH in H as (Hu & Ep & El & En & Eq). rewrite Ei1 in Hu. split_and!; congruence.
Qed.

Lemma api_bind_ipam w key uid node ips inj w3 out : api_bind w key uid node ips inj = (w3, out) →
  w_ipam w3 = w_ipam w ∧ w_nodes w3 = w_nodes w ∧ w_lister w3 = w_lister w.
Proof.
  intros H. apply api_bind_cases in H. destruct out.
  - destruct H as (q & _ & _ & _ & ->). done.
  - by destruct H as [-> _].
  - by subst.
Qed.

(** a pod without requested ranges whose key holds IPs: a successful bind writes exactly ONE of the IPs the key
    already holds; whatever the outcome the IPs of the key stay keyed by it and nothing is allocated or freed *)
Lemma sticky_bind_l w ns name uid node o fl p x e w' r :
  w_lister w !! (ns, name) = Some p → pd_ranges p = [] →
  i_alloc (w_ipam w) !! x = Some e → e_key e = pod_key p →
  bind_section true true w ns name uid node o fl = (w', r) →
  (∀ ips, r = BOk ips → ∃ y ey, ips = [y] ∧ i_alloc (w_ipam w) !! y = Some ey ∧ e_key ey = pod_key p) ∧
  upd (pod_key p) (w_ipam w) (w_ipam w').
Proof.
  intros Hl Hr He Hk H. rewrite bind_section_unfold, Hl in H.
  assert (∀ r0, (w, r0) = (w', r) → (∀ ips, r0 ≠ BOk ips) →
    (∀ ips, r = BOk ips → ∃ y ey, ips = [y] ∧ i_alloc (w_ipam w) !! y = Some ey ∧ e_key ey = pod_key p) ∧
    upd (pod_key p) (w_ipam w) (w_ipam w')) as Hsame.
  { intros r0 E Hr0. inversion E; subst. split; [|apply upd_refl]. intros ips ->. by destruct (Hr0 ips). }
  destruct (negb _); [by apply (Hsame _ H)|].
  unfold bind_slots in H. rewrite Hr in H.
  destruct (first_of_key (w_ipam w) (pod_key p) o) as [r0|] eqn:Ef; [|by apply (Hsame _ H)].
  destruct (first_of_key_held _ _ _ _ _ _ He Hk Ef) as (y & ey & -> & Hy & Hky).
  destruct (bind_guard (w_ipam w) p); [by apply (Hsame _ H)|].
  change (bind_alloc w (pod_key p) node [] [Some y] (bind_attr p node) o fl) with (Some (w, Some [y])) in H.
  cbv beta iota in H.
  destruct (assign_loop w (pod_key p) node (bind_attr p node) [y] (somes [Some y]) 0 0 fl) as [w2 r2] eqn:Eloop.
  apply assign_loop_upd in Eloop as (Hu & _).
  assert (w_ipam w' = w_ipam w2 ∧ ∀ ips, r = BOk ips → ips = [y]) as [Ei Hips].
  { destruct r2; try (inversion H; subst; split; [done|intros ips; discriminate]).
    destruct (api_bind w2 (ns, name) uid node [y] (f_bind fl =? 1)) as [w3 out] eqn:Eb.
    apply api_bind_ipam in Eb as (Eb & _). destruct out; inversion H; subst; (split; [done|]); intros ips Hi; by inversion Hi. }
  rewrite Ei. split; [|done]. intros ips Hi. exists y, ey. split_and!; try done. by apply Hips.
Qed.

(** * requested range lists *)

Definition in_ranges (rs : list range) (x : N) : bool := existsb (λ r, range_contains r x) rs.
(** no address lies in two different range lists of the request *)
Definition ranges_disjoint (rss : list (list range)) : Prop :=
  ∀ i j rs rs' x, rss !! i = Some rs → rss !! j = Some rs' → i ≠ j → in_ranges rs x = true → in_ranges rs' x = true → False.

Definition keyedb (s : ipam) (key : str) (ip : N) : bool :=
  match i_alloc s !! ip with Some e => str_eqb (e_key e) key | None => false end.
Definition slot_of (s : ipam) (key : str) (rs : list range) : option N :=
  match first_in_ranges (keyedb s key) (ranges_fuel rs) rs with Some r => r | None => None end.

Lemma by_key_ranges_map s key rss : by_key_ranges s key rss = map (slot_of s key) rss.
Proof. reflexivity. Qed.

Lemma keyedb_true s key y : keyedb s key y = true ↔ ∃ e, i_alloc s !! y = Some e ∧ e_key e = key.
Proof.
  unfold keyedb. destruct (i_alloc s !! y) as [e|]; [|split; [discriminate|intros (? & ? & _); discriminate]].
  destruct (str_eqb_spec (e_key e) key) as [Hk|Hk].
  - split; [intros _; by exists e|done].
  - split; [discriminate|intros (e0 & H0 & Hk0); congruence].
Qed.

Lemma slot_of_some s key rs y : slot_of s key rs = Some y → keyedb s key y = true ∧ in_ranges rs y = true.
Proof.
  unfold slot_of. destruct (first_in_ranges _ _ rs) as [[z|]|] eqn:E; try discriminate. intros H. inversion H; subst.
  by apply first_in_ranges_spec in E.
Qed.

Lemma slot_of_none s key rs y : slot_of s key rs = None → in_ranges rs y = true → keyedb s key y = false.
Proof.
  unfold slot_of. destruct (first_in_ranges_total (keyedb s key) rs (ranges_fuel rs)) as (o & Ho & Hnone); [unfold ranges_fuel; lia|].
  rewrite Ho. intros ->. by apply Hnone.
Qed.

(** more entries under the key: a slot keeps its IP unless a NEW entry of the key lies in the slot's ranges *)
Lemma slot_of_grow s s' key rs y :
  (∀ z, keyedb s key z = true → keyedb s' key z = true) →
  (∀ z, in_ranges rs z = true → keyedb s' key z = true → keyedb s key z = true) →
  slot_of s key rs = Some y → slot_of s' key rs = Some y.
Proof.
  intros Hmono Hsame H. destruct (slot_of_some _ _ _ _ H) as [Hy Hin].
  destruct (slot_of s' key rs) as [z|] eqn:E'.
  - destruct (slot_of_some _ _ _ _ E') as [Hz Hzin]. pose proof (Hsame z Hzin Hz) as Hz0.
    unfold slot_of in E', H.
    destruct (first_in_ranges (keyedb s' key) (ranges_fuel rs) rs) as [[z'|]|] eqn:E1; try discriminate.
    inversion E'; subst z'. rewrite (first_in_ranges_mono _ _ Hmono _ _ _ E1 Hz0) in H. done.
  - apply Hmono in Hy. rewrite (slot_of_none _ _ _ _ E' Hin) in Hy. discriminate.
Qed.

Lemma missing_of_spec : ∀ slots rss, List.length slots = List.length rss →
  ∀ rs, rs ∈ missing_of slots rss ↔ ∃ j, rss !! j = Some rs ∧ slots !! j = Some None.
Proof.
  unfold missing_of. induction slots as [|s slots IH]; intros [|rs0 rss] Hlen rs; simpl in *; try lia.
  - split; [intros H; inversion H|intros (j & H & _); by rewrite lookup_nil in H].
  - rewrite elem_of_app, (IH rss) by lia. split.
    + intros [H|(j & H1 & H2)]; [|by exists (S j)]. destruct s; [inversion H|].
      apply elem_of_list_singleton in H as ->. by exists 0%nat.
    + intros ([|j] & H1 & H2); simpl in *; [|right; by exists j]. inversion H1; inversion H2; subst. left. set_solver.
Qed.

Lemma somes_all_some : ∀ slots, Forall is_Some slots →
  List.length (somes slots) = List.length slots ∧ ∀ i y, slots !! i = Some (Some y) → somes slots !! i = Some y.
Proof.
  unfold somes. induction 1 as [|s slots [y0 ->] _ [IH1 IH2]]; simpl; [split; [done|intros i y H; by rewrite lookup_nil in H]|].
  split; [lia|]. intros [|i] y H; simpl in *; [congruence|by apply IH2].
Qed.

Lemma missing_nil_all_some slots rss : List.length slots = List.length rss → missing_of slots rss = [] → Forall is_Some slots.
Proof.
  intros Hlen Hm. apply Forall_lookup. intros j s Hj. destruct s; [eauto|]. exfalso.
  destruct (lookup_lt_is_Some_2 rss j) as [rs Hrs]; [rewrite <- Hlen; by eapply lookup_lt_Some|].
  assert (rs ∈ missing_of slots rss) as Hin by (apply missing_of_spec; [done|by exists j]).
  rewrite Hm in Hin. inversion Hin.
Qed.

(** the allocation step of Bind with requested ranges: one IP per range list, and every range list that already
    had an IP of the key keeps it at its position *)
Lemma bind_alloc_ranges w key node rss a o fl w1 ips :
  Inv (w_ipam w) → rss ≠ [] → ranges_disjoint rss →
  bind_alloc w key node rss (by_key_ranges (w_ipam w) key rss) a o fl = Some (w1, Some ips) →
  List.length ips = List.length rss ∧
  ∀ i y, by_key_ranges (w_ipam w) key rss !! i = Some (Some y) → ips !! i = Some y.
Proof.
  intros HI Hne Hdisj H. unfold bind_alloc in H. cbv zeta in H.
  set (slots := by_key_ranges (w_ipam w) key rss) in *.
  assert (List.length slots = List.length rss) as Hlen by (unfold slots; rewrite by_key_ranges_map; apply map_length).
  fold (missing_of slots rss) in H. fold (somes slots) in H.
  destruct (missing_of slots rss) as [|rs0 missing'] eqn:Emiss.
  - destruct slots as [|s0 slots'] eqn:Eslots; [destruct rss; simpl in *; [done|lia]|].
    inversion H; subst w1 ips; clear H. rewrite <- Eslots in *.
    destruct (somes_all_some slots (missing_nil_all_some _ _ Hlen Emiss)) as [H1 H2]. split; [congruence|done].
  - rewrite <- Emiss in *. destruct (w_nodes w !! node) as [nip|]; [|inversion H].
    destruct (node_subnet (w_ipam w) nip) as [sn|]; [|inversion H].
    assert (missing_of slots rss ≠ []) as Hmne by (rewrite Emiss; done).
    destruct (missing_of slots rss) as [|rs1 m1] eqn:Em2 in H; [done|]. rewrite <- Em2 in H. clear Em2 rs1 m1.
    destruct (alloc_ranges (w_ipam w) key sn (missing_of slots rss) a (f_store fl)) as [[i' ra] fresh] eqn:Ea.
    destruct ra; try (inversion H; fail).
    inversion H; subst w1 ips; clear H. fold (somes (by_key_ranges i' key rss)).
    pose proof (alloc_ranges_in_ranges _ _ _ _ _ _ _ _ HI Ea) as HF.
    apply alloc_ranges_spec in Ea as [(_ & _ & Hflen & Hfresh & Hal & _)|[? _]]; [|done|done].
    assert (∀ z, keyedb i' key z = true ↔ z ∈ fresh ∨ keyedb (w_ipam w) key z = true) as Hk'.
    { intros z. unfold keyedb. rewrite Hal. destruct (bool_decide (z ∈ fresh)) eqn:Ez.
      - apply bool_decide_eq_true in Ez. simpl. rewrite str_eqb_refl. split; [by left|done].
      - apply bool_decide_eq_false in Ez. split; [by right|]. intros [?|?]; done. }
    assert (∀ j rs, rss !! j = Some rs → slots !! j = Some (slot_of (w_ipam w) key rs) ∧
                     by_key_ranges i' key rss !! j = Some (slot_of i' key rs)) as Hsl.
    { intros j rs Hj. unfold slots. rewrite !by_key_ranges_map, !list_lookup_fmap, Hj. done. }
    (* old slots keep their IP *)
    assert (∀ j y, slots !! j = Some (Some y) → by_key_ranges i' key rss !! j = Some (Some y)) as Hkeep.
    { intros j y Hj. destruct (lookup_lt_is_Some_2 rss j) as [rs Hrs]; [rewrite <- Hlen; by eapply lookup_lt_Some|].
      destruct (Hsl j rs Hrs) as [E1 E2]. rewrite E2. f_equal. rewrite E1 in Hj. injection Hj as Hs.
      eapply slot_of_grow; [| |exact Hs].
      - intros z Hz. apply Hk'. by right.
      - intros z Hzin Hz. apply Hk' in Hz as [Hz|Hz]; [|done]. exfalso.
        apply elem_of_list_lookup in Hz as [k Hk].
        destruct (Forall2_lookup_l _ _ _ _ _ HF Hk) as (rsk & Hrsk & Hex).
        assert (rsk ∈ missing_of slots rss) as Hin by (by eapply elem_of_list_lookup_2).
        apply missing_of_spec in Hin as (j' & Hj'1 & Hj'2); [|done].
        apply existsb_Exists in Hex. eapply (Hdisj j j' rs rsk z); try done. intros ->. congruence. }
    (* empty slots got one *)
    assert (Forall is_Some (by_key_ranges i' key rss)) as Hall.
    { apply Forall_lookup. intros j s Hj.
      destruct (lookup_lt_is_Some_2 rss j) as [rs Hrs].
      { erewrite <- map_length, <- by_key_ranges_map. by eapply lookup_lt_Some. }
      destruct (Hsl j rs Hrs) as [E1 E2]. rewrite E2 in Hj. inversion Hj; subst s.
      destruct (slot_of (w_ipam w) key rs) as [y|] eqn:Es.
      - rewrite (Hkeep j y) in E2 by done. injection E2 as E3. rewrite <- E3. eauto.
      - destruct (slot_of i' key rs) as [z|] eqn:Es'; [eauto|]. exfalso.
        assert (rs ∈ missing_of slots rss) as Hin by (apply missing_of_spec; [done|by exists j]).
        apply elem_of_list_lookup in Hin as [k Hk].
        destruct (Forall2_lookup_r _ _ _ _ _ HF Hk) as (z & Hz & Hex). apply existsb_Exists in Hex.
        pose proof (slot_of_none _ _ _ _ Es' Hex) as Hf.
        assert (keyedb i' key z = true) as Ht; [|congruence]. apply Hk'. left. by eapply elem_of_list_lookup_2. }
    destruct (somes_all_some _ Hall) as [H1 H2]. split.
    + rewrite H1, by_key_ranges_map. apply map_length.
    + intros j y Hj. apply H2. by apply Hkeep.
Qed.

(** what a successful bind went through *)
Lemma bind_ok_inv w ns name uid node o fl w' ips :
  bind_section true true w ns name uid node o fl = (w', BOk ips) →
  ∃ p slots w1 w2, w_lister w !! (ns, name) = Some p ∧ bind_slots (w_ipam w) p o = Some slots ∧
    bind_guard (w_ipam w) p = false ∧
    bind_alloc w (pod_key p) node (pd_ranges p) slots (bind_attr p node) o fl = Some (w1, Some ips) ∧
    assign_loop w1 (pod_key p) node (bind_attr p node) ips (somes slots) 0 0 fl = (w2, SOk) ∧
    api_bind w2 (ns, name) uid node ips (f_bind fl =? 1) = (w', BindOk).
Proof.
  intros H. rewrite bind_section_unfold in H.
  destruct (w_lister w !! (ns, name)) as [p|]; [|inversion H].
  destruct (negb _); [inversion H|].
  destruct (bind_slots (w_ipam w) p o) as [slots|] eqn:Es; [|inversion H].
  destruct (bind_guard (w_ipam w) p) eqn:Eg; [inversion H|].
  destruct (bind_alloc w (pod_key p) node (pd_ranges p) slots (bind_attr p node) o fl) as [[w1 [ips'|]]|] eqn:Ea; try (inversion H; fail).
  destruct (assign_loop w1 (pod_key p) node (bind_attr p node) ips' (somes slots) 0 0 fl) as [w2 r2] eqn:El.
  destruct r2; try (inversion H; fail).
  destruct (api_bind w2 (ns, name) uid node ips' (f_bind fl =? 1)) as [w3 out] eqn:Eb.
  destruct out; inversion H; subst. by exists p, slots, w1, w2.
Qed.

Lemma sticky_ranges_l w ns name uid node o fl p w' ips :
  Inv (w_ipam w) → w_lister w !! (ns, name) = Some p → pd_ranges p ≠ [] → ranges_disjoint (pd_ranges p) →
  bind_section true true w ns name uid node o fl = (w', BOk ips) →
  List.length ips = List.length (pd_ranges p) ∧
  ∀ i y, by_key_ranges (w_ipam w) (pod_key p) (pd_ranges p) !! i = Some (Some y) → ips !! i = Some y.
Proof.
  intros HI Hl Hne Hd H. apply bind_ok_inv in H as (p' & slots & w1 & w2 & Hl' & Hs & _ & Ha & _).
  assert (p' = p) as -> by congruence.
  assert (slots = by_key_ranges (w_ipam w) (pod_key p) (pd_ranges p)) as ->.
  { unfold bind_slots in Hs. destruct (pd_ranges p); [done|congruence]. }
  by eapply bind_alloc_ranges.
Qed.

(** * C06: routability *)

Lemma node_subnet_pools s s' n : i_pools s' = i_pools s → node_subnet s' n = node_subnet s n.
Proof. unfold node_subnet. by intros ->. Qed.

Lemma elem_of_sn_inter a b sn : sn ∈ sn_inter a b ↔ sn ∈ a ∧ sn ∈ b.
Proof. rewrite <- !sn_in_spec. apply sn_in_inter. Qed.

Lemma fold_inter_in (S : N → list subnet) r : ∀ acc sn,
  sn ∈ fold_left (λ acc y, sn_inter acc (S y)) r acc → sn ∈ acc ∧ ∀ y, y ∈ r → sn ∈ S y.
Proof.
  induction r as [|z r IH]; intros acc sn H; simpl in H; [split; [done|intros y Hy; inversion Hy]|].
  apply IH in H as [H1 H2]. apply elem_of_sn_inter in H1 as [H1 H3]. split; [done|].
  intros y Hy. apply elem_of_cons in Hy as [->|Hy]; auto.
Qed.

Lemma owned_subnets_in i owned sn : sn ∈ owned_subnets_of i owned → ∀ y, y ∈ owned → sn ∈ subnets_of_ip i y.
Proof.
  unfold owned_subnets_of. destruct owned as [|x r]; [intros H; inversion H|].
  intros H. apply fold_inter_in in H as [H1 H2]. intros y Hy. apply elem_of_cons in Hy as [->|Hy]; auto.
Qed.

Lemma configured_pool_of ps x : configured ps x = true →
  ∃ pl, pool_of ps x = Some pl ∧ In pl ps ∧ pool_contains pl x = true.
Proof.
  unfold configured, pool_of. intros H. destruct (find (λ p, pool_contains p x) ps) as [pl|] eqn:E.
  - apply find_some in E as [? ?]. by exists pl.
  - apply existsb_exists in H as (pl & Hin & Hc). by rewrite (find_none _ _ E pl Hin) in Hc.
Qed.

(** a sized pool means the pod carries a pool annotation, hence policy never *)
Lemma sized_policy w p : (dp_replicas w (keyobj_of p)).2 = true → policy_of p ≠ 0.
Proof.
  unfold dp_replicas, policy_of. replace (Keys.ko_pool (keyobj_of p)) with (pd_pool p) by reflexivity.
  destruct (pd_pool p); simpl; [discriminate|done].
Qed.

(** the two ways [filter_cont] returns nodes: without touching the tables, for the subnets that have free IPs in
    every missing range list (restricted to the owned IPs' subnets), or - no ranges - after taking ONE IP in the
    smallest subnet: a reserve IP of the app, or a free IP when the pool is sized *)
Lemma filter_cont_nodes w p nodes o fl ranges os w1 l :
  filter_cont w p nodes o fl ranges os = (w1, FNodes l) →
  (w1 = w ∧ (l = List.filter (node_ok w []) nodes ∨
             l = List.filter (node_ok w (restrict_subnets (node_subnets_by_ranges (w_ipam w) ranges) os)) nodes))
  ∨ (ranges = [] ∧ ∃ snf i' x e', w1 = set_ipam w i' ∧ l = List.filter (node_ok w1 [snf]) nodes ∧
       ip_has_subnet (i_pools (w_ipam w)) x snf = true ∧ i_pools i' = i_pools (w_ipam w) ∧
       i_alloc i' = <[x := e']> (i_alloc (w_ipam w)) ∧ e_key e' = pod_key p).
Proof.
  intros H. unfold filter_cont in H. cbv zeta in H.
  destruct (negb (policy_of p =? 0) && negb _) eqn:Esup; [inversion H|].
  assert ((if ko_is_dp (keyobj_of p) then dp_replicas w (keyobj_of p) else (0, false)).2 = true →
          ko_is_dp (keyobj_of p) && negb (policy_of p =? 0) = true) as Hsz.
  { destruct (ko_is_dp (keyobj_of p)); [|discriminate]. intros Hs. apply sized_policy in Hs.
    by apply andb_true_iff, conj, negb_true_iff, N.eqb_neq. }
  destruct (if ko_is_dp (keyobj_of p) then dp_replicas w (keyobj_of p) else (0, false)) as [replicas sized].
  simpl in Hsz.
  destruct (filter_avail w p ranges replicas sized) as [[subnets reserve]|] eqn:Eav; [|inversion H].
  assert ((reserve || sized = true → ranges = []) ∧ (reserve = false → subnets = node_subnets_by_ranges (w_ipam w) ranges)) as [Hr0 Hsub].
  { unfold filter_avail in Eav. cbv zeta in Eav. destruct (ko_is_dp (keyobj_of p) && negb (policy_of p =? 0)) eqn:Edp.
    - destruct ranges; [|discriminate]. split; [done|]. destruct (replicas <=? _); [discriminate|].
      match type of Eav with context [match ?U with [] => _ | _ :: _ => _ end] => destruct U end; inversion Eav; subst; done.
    - inversion Eav; subst. split; [|done]. simpl. intros ->. by discriminate Hsz. }
  destruct (reserve || sized) eqn:Ers.
  - destruct (min_subnet (restrict_subnets subnets os)) as [snf|] eqn:Em; [|inversion H; subst; left; split; [done|by left]].
    right. split; [by apply Hr0|]. destruct reserve.
    + match type of H with context [alloc_with_key ?a ?b ?c ?d ?e ?f ?g] => destruct (alloc_with_key a b c d e f g) as [i' ra] eqn:Ea end.
      destruct ra; try (inversion H; fail). inversion H; subst; clear H.
      apply alloc_with_key_spec in Ea as [(_ & x & e & He & Hke & Hsn & Hal & _ & Hpo)|[? _]]; [|done].
      exists snf, i', x. eexists. split_and!; try done.
    + match type of H with context [alloc_in_subnet ?a ?b ?c ?d ?e ?f] => destruct (alloc_in_subnet a b c d e f) as [[i' ra] ox] eqn:Ea end.
      destruct ra; try (inversion H; fail). inversion H; subst; clear H.
      apply alloc_in_subnet_spec in Ea as [(_ & x & _ & Hx & Hsn & Hal & _ & Hpo)|[? _]]; [|done].
      exists snf, i', x. eexists. split_and!; try done.
  - apply orb_false_iff in Ers as [-> ->]. inversion H; subst. left. split; [done|]. right. by rewrite Hsub.
Qed.

(** the allocation step of Bind: the IPs it returns are re-used ones (slots) or fresh ones routable from the node *)
Lemma bind_alloc_routable w key node rss slots a o fl w1 ips :
  Inv (w_ipam w) → (rss ≠ [] → slots = by_key_ranges (w_ipam w) key rss) →
  bind_alloc w key node rss slots a o fl = Some (w1, Some ips) →
  i_pools (w_ipam w1) = i_pools (w_ipam w) ∧ w_nodes w1 = w_nodes w ∧ w_pods w1 = w_pods w ∧ w_lister w1 = w_lister w ∧
  ∀ x, x ∈ ips → x ∈ somes slots ∨
       ∃ nip sn, w_nodes w !! node = Some nip ∧ node_subnet (w_ipam w) nip = Some sn ∧
                 ip_has_subnet (i_pools (w_ipam w)) x sn = true.
Proof.
  intros HI Hslots H. unfold bind_alloc in H. cbv zeta in H. fold (missing_of slots rss) in H. fold (somes slots) in H.
  match type of H with (if ?X then _ else _) = _ => destruct X eqn:Eneed end;
    [|inversion H; subst; split_and!; try done; intros x Hx; by left].
  destruct (w_nodes w !! node) as [nip|] eqn:En; [|inversion H].
  destruct (node_subnet (w_ipam w) nip) as [sn|] eqn:Esn; [|inversion H].
  destruct (missing_of slots rss) as [|rs0 missing'] eqn:Emiss.
  - destruct (alloc_in_subnet (w_ipam w) key sn a (o_choice o) (bool_decide (f_store fl = Some 0%nat))) as [[i' ra] ox] eqn:Ea.
    apply alloc_in_subnet_spec in Ea as [(-> & x & -> & Hx & Hsn & Hal & _ & Hpo)|(Hne & -> & ->)].
    + inversion H; subst; clear H. cbn [set_ipam w_ipam w_nodes w_pods w_lister]. split_and!; try done.
      intros y Hy. apply elem_of_list_singleton in Hy as ->. right. by exists nip, sn.
    + destruct ra; try done; inversion H.
  - assert (rss ≠ []) as Hrss.
    { intros ->. unfold missing_of in Emiss. destruct slots; discriminate Emiss. }
    specialize (Hslots Hrss). rewrite <- Emiss in H.
    destruct (alloc_ranges (w_ipam w) key sn (missing_of slots rss) a (f_store fl)) as [[i' ra] fresh] eqn:Ea.
    apply alloc_ranges_spec in Ea as [(-> & _ & _ & Hfresh & Hal & _ & Hpo)|(Hne & _)]; [| |done].
    + inversion H; subst w1 ips; clear H. cbn [set_ipam w_ipam w_nodes w_pods w_lister]. split_and!; try done.
      intros y Hy. fold (somes (by_key_ranges i' key rss)) in Hy.
      apply elem_of_somes in Hy. destruct (by_key_ranges_keyed _ _ _ _ Hy) as (e & He & Hk).
      rewrite Hal in He. destruct (bool_decide (y ∈ fresh)) eqn:Ey.
      * apply bool_decide_eq_true in Ey. right. exists nip, sn. split_and!; try done. by apply Hfresh.
      * left. apply elem_of_somes. rewrite Hslots.
        eapply by_key_ranges_old; [|exact Hy|by exists e].
        intros z ez Hz Hkz. rewrite Hal. destruct (bool_decide (z ∈ fresh)); eexists; done.
    + destruct ra; try done; inversion H.
Qed.

(** after the allocation step nothing touches the configuration, the node list or the returned IPs *)
Lemma bind_tail_frame w1 key node a ips reused fl w2 r2 ns name uid inj w3 out :
  assign_loop w1 key node a ips reused 0 0 fl = (w2, r2) → api_bind w2 (ns, name) uid node ips inj = (w3, out) →
  upd key (w_ipam w1) (w_ipam w3) ∧ w_nodes w3 = w_nodes w1.
Proof.
  intros Hl Hb. apply assign_loop_upd in Hl as (Hu & _ & _ & Hn & _). apply api_bind_ipam in Hb as (Hi & Hn' & _).
  rewrite Hi. split; [done|congruence].
Qed.

Lemma filter_inv w p nodes o fl w' r : Inv (w_ipam w) → filter_section w p nodes o fl = (w', r) → Inv (w_ipam w').
Proof.
  intros HI H. apply filter_section_frame in H as [->|(sn & a & ch & fail & i' & _ & -> & [Hal|[ox Hal]])]; [done|..]; simpl.
  - pose proof (alloc_with_key_inv (w_ipam w) (Keys.pool_prefix (keyobj_of p)) (pod_key p) sn a ch fail HI) as H. by rewrite Hal in H.
  - pose proof (alloc_in_subnet_inv (w_ipam w) (pod_key p) sn a ch fail HI) as H. by rewrite Hal in H.
Qed.

Lemma filter_inv2 w p nodes o fl w' r : Inv2 (w_ipam w) → filter_section w p nodes o fl = (w', r) → Inv2 (w_ipam w').
Proof.
  intros HI H. apply filter_section_frame in H as [->|(sn & a & ch & fail & i' & _ & -> & [Hal|[ox Hal]])]; [done|..]; simpl.
  - pose proof (inv2_alloc_with_key (w_ipam w) (Keys.pool_prefix (keyobj_of p)) (pod_key p) sn a ch fail HI) as H. by rewrite Hal in H.
  - pose proof (inv2_alloc_in_subnet (w_ipam w) (pod_key p) sn a ch fail HI) as H. by rewrite Hal in H.
Qed.

(** the key holds at most one IP *)
Definition key_single (i : ipam) (key : str) : Prop :=
  ∀ y y' e e', i_alloc i !! y = Some e → i_alloc i !! y' = Some e' → e_key e = key → e_key e' = key → y = y'.
(** the IPs the key already holds inside the requested ranges *)
Definition owned_in_ranges (i : ipam) (p : pod) : list N := somes (by_key_ranges i (pod_key p) (pd_ranges p)).

Lemma bind_routable_l w p nodes o fl w1 l ns name uid node o2 fl2 w2 ips nip sn pl :
  Inv (w_ipam w) → filter_section w p nodes o fl = (w1, FNodes l) → In node l →
  w_lister w1 !! (ns, name) = Some pl → same_static p pl →
  bind_section true true w1 ns name uid node o2 fl2 = (w2, BOk ips) →
  w_nodes w !! node = Some nip → node_subnet (w_ipam w) nip = Some sn →
  ∀ x, x ∈ ips → ip_has_subnet (i_pools (w_ipam w2)) x sn = true.
Proof.
  intros HI Hf Hnode Hl Hst Hb Hnip Hsn.
  pose proof (filter_inv _ _ _ _ _ _ _ HI Hf) as HI1.
  apply bind_ok_inv in Hb as (p' & slots & wa & wb & Hl' & Hs & _ & Ha & Hloop & Hapi).
  assert (p' = pl) as -> by congruence. clear Hl'.
  destruct (same_static_key _ _ Hst) as (Hkey & _ & _).
  assert (pd_ranges pl = pd_ranges p) as Hrs by (symmetry; apply Hst).
  assert (i_pools (w_ipam w1) = i_pools (w_ipam w) → w_nodes w1 = w_nodes w →
          (∀ x, x ∈ somes slots → ip_has_subnet (i_pools (w_ipam w)) x sn = true) →
          ∀ x, x ∈ ips → ip_has_subnet (i_pools (w_ipam w2)) x sn = true) as Hfin.
  { intros Hpo Hno Hown x Hx.
    destruct (bind_tail_frame _ _ _ _ _ _ _ _ _ _ _ _ _ _ _ Hloop Hapi) as [(Hpo2 & _) _].
    apply bind_alloc_routable in Ha as (Hpoa & _ & _ & _ & Hips); [|done|].
    - rewrite Hpo2, Hpoa, Hpo. destruct (Hips x Hx) as [Hin|(nip' & sn' & H1 & H2 & H3)]; [by apply Hown|].
      rewrite Hno, Hnip in H1. inversion H1; subst nip'. rewrite (node_subnet_pools _ _ _ Hpo), Hsn in H2.
      inversion H2; subst sn'. by rewrite <- Hpo.
    - intros Hne. unfold bind_slots in Hs. destruct (pd_ranges pl); [done|congruence]. }
  rewrite filter_section_unfold in Hf. destruct (pd_ranges p) as [|rs0 rss0] eqn:Er.
  - (* no requested ranges *)
    unfold bind_slots in Hs. rewrite Hrs, <- Hkey in Hs.
    destruct (first_of_key (w_ipam w) (pod_key p) o) as [[yf|]|] eqn:Ef; [| |inversion Hf].
    + inversion Hf; subst w1 l; clear Hf. apply in_filter_node_ok in Hnode as (_ & nip' & sn' & H1 & H2 & H3).
      assert (nip' = nip) as -> by congruence. assert (sn' = sn) as -> by congruence.
      apply elem_of_subnets_of_ip in H3.
      apply Hfin; try done. intros x Hx.
      destruct (first_of_key (w_ipam w) (pod_key p) o2) as [[y2|]|] eqn:Ef2; inversion Hs; subst slots; [|inversion Hx].
      (* K7 repaired: Bind re-uses the smallest IP of the key, the one Filter looked at *)
      apply elem_of_list_singleton in Hx as ->. by rewrite (first_of_key_agree _ _ _ _ _ _ Ef2 Ef).
    + pose proof (first_of_key_spec _ _ _ _ Ef) as Hnone. cbv beta iota in Hnone.
      apply filter_cont_nodes in Hf as [(-> & Hll)|(_ & snf & i' & x0 & e' & -> & -> & Hx0 & Hpo & Hal & Hke')].
      * apply Hfin; try done. intros x Hx.
        destruct (first_of_key (w_ipam w) (pod_key p) o2) as [r2|] eqn:Ef2; [|discriminate].
        rewrite (first_of_key_free _ _ _ _ Hnone Ef2) in Hs. inversion Hs; subst slots. inversion Hx.
      * cbn [set_ipam w_ipam w_nodes] in *.
        apply in_filter_node_ok in Hnode as (_ & nip' & sn' & H1 & H2 & H3). cbn [set_ipam w_ipam w_nodes] in *.
        assert (nip' = nip) as -> by congruence. rewrite (node_subnet_pools _ _ _ Hpo), Hsn in H2. inversion H2; subst sn'.
        apply elem_of_list_singleton in H3 as <-.
        apply Hfin; try done. intros x Hx.
        destruct (first_of_key i' (pod_key p) o2) as [[y2|]|] eqn:Ef2; inversion Hs; subst slots; [|inversion Hx].
        apply elem_of_list_singleton in Hx as ->. apply first_of_key_spec in Ef2 as (e2 & He2 & Hk2).
        rewrite Hal in He2. destruct (decide (y2 = x0)) as [->|Hne]; [done|].
        rewrite lookup_insert_ne in He2 by done. by destruct (Hnone y2 e2 He2).
  - (* requested ranges *)
    rewrite <- Er in *. cbv zeta in Hf.
    set (slots0 := by_key_ranges (w_ipam w) (pod_key p) (pd_ranges p)) in *.
    assert (w1 = w ∧ ∀ y, y ∈ somes slots0 → sn ∈ subnets_of_ip (w_ipam w) y) as [-> Hown].
    { destruct (missing_of slots0 (pd_ranges p)) as [|m0 ms] eqn:Em.
      - inversion Hf; subst w1 l; clear Hf. split; [done|].
        apply in_filter_node_ok in Hnode as (_ & nip' & sn' & H1 & H2 & H3).
        assert (nip' = nip) as -> by congruence. assert (sn' = sn) as -> by congruence.
        by apply owned_subnets_in.
      - apply filter_cont_nodes in Hf as [(-> & Hll)|(Hnil & _)]; [|discriminate Hnil]. split; [done|].
        intros y Hy. destruct Hll as [->| ->]; apply in_filter_node_ok in Hnode as (_ & nip' & sn' & H1 & H2 & H3); [inversion H3|].
        assert (nip' = nip) as -> by congruence. assert (sn' = sn) as -> by congruence.
        unfold restrict_subnets in H3. destruct (somes slots0) as [|y0 ys] eqn:Eso; [inversion Hy|]. rewrite <- Eso in *.
        apply elem_of_sn_inter in H3 as [_ H3]. by eapply owned_subnets_in. }
    apply Hfin; try done. intros x Hx. apply elem_of_subnets_of_ip, Hown.
    unfold bind_slots in Hs. rewrite Hrs, <- Hkey in Hs. destruct (pd_ranges p); [done|]. by inversion Hs; subst.
Qed.

(** * C06: mask, gateway and VLAN written with the IP are those of a configured pool that contains it *)
Lemma ip_info_configured i x : Inv i → is_Some (i_alloc i !! x) →
  ∃ pl, In pl (i_pools i) ∧ pool_contains pl x = true ∧ ip_info i x = Some (p_masklen pl, p_gateway pl, p_vlan pl).
Proof.
  intros HI Hx. assert (configured (i_pools i) x = true) as Hc by (apply (inv_conf _ HI); by left).
  apply configured_pool_of in Hc as (pl & Hpo & Hin & Hc). exists pl. unfold ip_info. by rewrite Hpo.
Qed.

Lemma bind_info_configured_l w ns name uid node o fl w' ips :
  WInv w → uid ≠ [] → bind_section true true w ns name uid node o fl = (w', BOk ips) →
  i_pools (w_ipam w') = i_pools (w_ipam w) ∧
  ∀ x, x ∈ ips → ∃ pl, In pl (i_pools (w_ipam w')) ∧ pool_contains pl x = true ∧
                       ip_info (w_ipam w') x = Some (p_masklen pl, p_gateway pl, p_vlan pl).
Proof.
  intros HW Hu H. split.
  - apply bind_ok_inv in H as (p & slots & wa & wb & Hl & Hs & _ & Ha & Hloop & Hapi).
    destruct (bind_tail_frame _ _ _ _ _ _ _ _ _ _ _ _ _ _ _ Hloop Hapi) as [(Hpo2 & _) _].
    apply bind_alloc_routable in Ha as (Hpoa & _); [congruence|by destruct (wi_ipam w HW)|].
    intros Hne. unfold bind_slots in Hs. destruct (pd_ranges p); [done|congruence].
  - apply bind_section_frame in H; [|done|done].
    destruct H as [[_ Hno]|(l & w2 & _ & _ & _ & _ & _ & _ & HI2 & _ & [[_ Hno]|(ips' & w3 & out & Hapi & Hips & Hout)])];
      [by destruct (Hno ips)|by destruct (Hno ips)|].
    destruct out; try (destruct Hout; discriminate). destruct Hout as [-> Hr]. inversion Hr; subst ips'.
    apply api_bind_ipam in Hapi as (-> & _). intros x Hx. destruct (Hips x Hx) as (e & He & _).
    apply ip_info_configured; [by destruct HI2|eauto].
Qed.

(** * C06: filter then bind, no injected fault *)

(** with a free routable IP and no store fault AllocateInSubnet succeeds for every valid choice *)
Lemma alloc_in_subnet_nofail s key sn a ch x : Inv2 s → x ∈ i_unalloc s → ip_has_subnet (i_pools s) x sn = true →
  (∃ s' ip, alloc_in_subnet s key sn a ch false = (s', AOk, Some ip)) ∨ alloc_in_subnet s key sn a ch false = (s, AStuck, None).
Proof.
  intros HI2 Hx Hsn. unfold alloc_in_subnet. destruct ch as [ip|].
  - destruct (subnet_candidate s sn ip) eqn:C; [|by right]. left.
    unfold create_both, st_create. destruct (i_store s !! ip) as [o|] eqn:Es; [|eauto].
    exfalso. destruct (inv2_store_alloc _ _ _ HI2 Es) as (e & He & _). destruct HI2 as [HI _].
    rewrite (inv_disj _ HI ip) in He; [done|]. by eapply subnet_candidate_unalloc.
  - destruct (forallb _ _) eqn:Ef; [|by right]. exfalso. rewrite forallb_forall in Ef.
    specialize (Ef x). rewrite Hsn in Ef. discriminate Ef. apply elem_of_list_In. by apply elem_of_elements.
Qed.

Lemma update_attr_nofail s key x a e : Inv2 s → i_alloc s !! x = Some e → e_key e = key →
  ∃ s', update_attr s key x a false = (s', AOk).
Proof.
  intros HI2 He Hk. unfold update_attr. rewrite He, Hk, str_eqb_refl. unfold update_both, st_update.
  destruct (inv2_alloc_store _ _ _ HI2 He) as (o & -> & _). eauto.
Qed.

Lemma assign_loop_nofail key node a reused ips : ∀ w idx ridx, Inv2 (w_ipam w) →
  (∀ x, x ∈ ips → existsb (N.eqb x) reused = true → ∃ e, i_alloc (w_ipam w) !! x = Some e ∧ e_key e = key) →
  ∃ w', assign_loop w key node a ips reused idx ridx no_faults = (w', SOk).
Proof.
  induction ips as [|x rest IH]; intros w idx ridx HI2 Hkeyed; cbn [assign_loop]; [eauto|].
  change (f_cloud no_faults) with (@None nat). change (f_update no_faults) with (@None nat).
  rewrite (bool_decide_eq_false_2 (None = Some idx)) by done. rewrite andb_false_r.
  set (w1 := if w_provider w then cloud_assign w x node else w).
  assert (w_ipam w1 = w_ipam w) as Ei1 by (unfold w1; destruct (w_provider w); done). clearbody w1.
  destruct (existsb (N.eqb x) reused) eqn:Ex.
  - rewrite (bool_decide_eq_false_2 (None = Some ridx)) by done. rewrite Ei1.
    destruct (Hkeyed x) as (e & He & Hk); [left|done|].
    destruct (update_attr_nofail _ _ _ a _ HI2 He Hk) as (s' & Hu). rewrite Hu.
    pose proof (inv2_update_attr (w_ipam w) key x a false HI2) as HI'. rewrite Hu in HI'. simpl in HI'.
    apply IH; [done|]. cbn [set_ipam w_ipam]. intros y Hy Hr.
    apply update_attr_spec in Hu as [(_ & e0 & He0 & Hk0 & Hal & _)|[? _]]; [|done]. rewrite Hal.
    destruct (decide (y = x)) as [->|Hne]; [rewrite lookup_insert; eauto|]. rewrite lookup_insert_ne by done.
    apply Hkeyed; [by right|done].
  - apply IH; rewrite Ei1; [done|]. intros y Hy Hr. apply Hkeyed; [by right|done].
Qed.

Lemma api_bind_ok w key p node ips : w_pods w !! key = Some p → pd_node p = [] →
  ∃ w3, api_bind w key (pd_uid p) node ips false = (w3, BindOk).
Proof.
  intros Hp Hn. unfold api_bind. rewrite Hp, Hn. simpl.
  destruct (pd_uid p) eqn:Eu; [eauto|]. rewrite str_eqb_refl. simpl. eauto.
Qed.

(** the attach loop and pods/binding succeed *)
Lemma bind_tail_ok w1 ns name p node ips reused :
  Inv2 (w_ipam w1) → w_pods w1 !! (ns, name) = Some p → pd_node p = [] →
  (∀ x, x ∈ ips → existsb (N.eqb x) reused = true → ∃ e, i_alloc (w_ipam w1) !! x = Some e ∧ e_key e = pod_key p) →
  ∃ w2 w3, assign_loop w1 (pod_key p) node (bind_attr p node) ips reused 0 0 no_faults = (w2, SOk) ∧
           api_bind w2 (ns, name) (pd_uid p) node ips (f_bind no_faults =? 1) = (w3, BindOk).
Proof.
  intros HI2 Hp Hn Hk. destruct (assign_loop_nofail (pod_key p) node (bind_attr p node) reused ips w1 0 0 HI2 Hk) as (w2 & Hl).
  exists w2. apply assign_loop_upd in Hl as Hf. destruct Hf as (_ & Ep & _).
  destruct (api_bind_ok w2 (ns, name) p node ips) as (w3 & Hb); [by rewrite Ep|done|]. by exists w3.
Qed.

Lemma bind_guard_true i p : bind_guard i p = true →
  ∃ y ey, i_alloc i !! y = Some ey ∧ e_key ey = pod_key p ∧ e_uid ey ≠ [] ∧ e_uid ey ≠ pd_uid p.
Proof.
  unfold bind_guard. intros H. apply existsb_exists in H as (y & Hin & Hy).
  apply in_map_iff in Hin as ([y' e] & <- & Hin). apply by_key_spec in Hin as [He Hk]. simpl in Hy. rewrite He in Hy.
  apply andb_prop in Hy as [H1 H2]. exists y', e. split_and!; try done.
  - intros E. by rewrite E in H1.
  - intros E. rewrite E, str_eqb_refl in H2. done.
Qed.

Lemma f2_guard_self p : negb (match pd_uid p, pd_uid p with [], _ => true | _, [] => true | _, _ => str_eqb (pd_uid p) (pd_uid p) end) = false.
Proof. destruct (pd_uid p) eqn:E; [done|]. by rewrite str_eqb_refl. Qed.

(** filter returned [node] for a pod without requested ranges; nothing else happened; the informer shows the pod;
    no fault is injected: bind succeeds, or the oracle was not a possible one, or an IP of the key is still stored
    for an earlier incarnation (the documented wait for its deletion event) *)
Lemma filter_then_bind_noranges_l w p nodes o fl w1 l ns name node o2 w2 r :
  WInv w → w_pods w !! (ns, name) = Some p → pd_node p = [] → pd_ranges p = [] →
  filter_section w p nodes o fl = (w1, FNodes l) → In node l →
  w_lister w1 !! (ns, name) = Some p →
  bind_section true true w1 ns name (pd_uid p) node o2 no_faults = (w2, r) →
  (∃ ips, r = BOk ips) ∨ r = BStuck ∨
  (r = BErr ∧ ∃ y ey, i_alloc (w_ipam w1) !! y = Some ey ∧ e_key ey = pod_key p ∧ e_uid ey ≠ [] ∧ e_uid ey ≠ pd_uid p).
Proof.
  intros HW Hp Hn Hr Hf Hnode Hl Hb.
  pose proof (filter_inv2 _ _ _ _ _ _ _ (wi_ipam w HW) Hf) as HI1.
  assert (w_pods w1 = w_pods w) as Ep1.
  { apply filter_section_frame in Hf as [->|(? & ? & ? & ? & ? & _ & -> & _)]; done. }
  rewrite bind_section_unfold, Hl, f2_guard_self in Hb. unfold bind_slots in Hb. rewrite Hr in Hb.
  destruct (first_of_key (w_ipam w1) (pod_key p) o2) as [r0|] eqn:Ef2; [|inversion Hb; by right; left].
  destruct (bind_guard (w_ipam w1) p) eqn:Eg.
  { right; right. destruct r0; inversion Hb; subst; (split; [done|]); by apply bind_guard_true. }
  apply first_of_key_spec in Ef2. destruct r0 as [y|].
  - (* the key holds an IP: it is re-used *)
    change (bind_alloc w1 (pod_key p) node [] [Some y] (bind_attr p node) o2 no_faults) with (Some (w1, Some [y])) in Hb.
    cbv beta iota in Hb.
    destruct (bind_tail_ok w1 ns name p node [y] (somes [Some y])) as (wa & wb & Hloop & Hapi); [done|congruence|done| |].
    { intros x Hx _. apply elem_of_list_singleton in Hx as ->. done. }
    rewrite Hloop, Hapi in Hb. inversion Hb; eauto.
  - (* the key holds nothing: filter did not allocate, and promised a free routable IP *)
    rewrite filter_section_unfold, Hr in Hf.
    destruct (first_of_key (w_ipam w) (pod_key p) o) as [[yf|]|] eqn:Ef; [| |inversion Hf].
    { inversion Hf; subst w1 l. apply first_of_key_spec in Ef as (ef & Hef & Hkf). by destruct (Ef2 yf ef). }
    apply filter_cont_nodes in Hf as [(-> & Hll)|(_ & snf & i' & x0 & e' & -> & -> & Hx0 & Hpo & Hal & Hke')].
    2:{ exfalso. apply (Ef2 x0 e'); [|done]. cbn [set_ipam w_ipam]. by rewrite Hal, lookup_insert. }
    destruct Hll as [->| ->]; apply in_filter_node_ok in Hnode as (_ & nip & sn & H1 & H2 & H3); [inversion H3|].
    cbn [restrict_subnets node_subnets_by_ranges] in H3. apply elem_of_subnets_of_ips in H3 as (x & Hx & Hsn).
    apply elem_of_elements in Hx.
    unfold bind_alloc in Hb. cbv zeta in Hb. cbn [combine map concat app] in Hb. rewrite H1, H2 in Hb.
    change (f_store no_faults) with (@None nat) in Hb. rewrite (bool_decide_eq_false_2 (None = Some 0%nat)) in Hb by done.
    destruct (alloc_in_subnet_nofail (w_ipam w) (pod_key p) sn (bind_attr p node) (o_choice o2) x HI1 Hx Hsn) as [(s' & ip & Ha)|Ha];
      rewrite Ha in Hb; [|inversion Hb; by right; left].
    pose proof (inv2_alloc_in_subnet (w_ipam w) (pod_key p) sn (bind_attr p node) (o_choice o2) false HI1) as HI'.
    rewrite Ha in HI'. simpl in HI'.
    destruct (bind_tail_ok (set_ipam w s') ns name p node [ip] (somes [])) as (wa & wb & Hloop & Hapi); [done|done|done| |].
    { intros z _ Hz. discriminate Hz. }
    rewrite Hloop, Hapi in Hb. inversion Hb; eauto.
Qed.

(** * concrete worlds for the non-vacuity examples and the refutation witnesses *)

(** a world with one pending pod (truth = informer), no events, any tables *)
Definition simple_world (i : ipam) (p : pod) (nodes : gmap str N) (dps : gmap pkey N) (poolobjs : gmap str N) : world :=
  {| w_ipam := i; w_pods := {[pk p := p]}; w_lister := {[pk p := p]}; w_sts := ∅; w_dps := dps; w_poolobjs := poolobjs;
     w_queue := []; w_provider := false; w_cloud := ∅; w_cloudlog := []; w_nodes := nodes |}.

Lemma winv_simple i p nodes dps poolobjs : Inv2 i → wf_pod p → pd_ips p = [] → WInv (simple_world i p nodes dps poolobjs).
Proof.
  intros HI Hwf Hips. split; cbn [simple_world w_ipam w_pods w_lister w_queue].
  - done.
  - intros k q H. apply lookup_singleton_Some in H as [<- <-]. done.
  - intros k q H. apply lookup_singleton_Some in H as [<- <-]. done.
  - constructor.
  - intros k q l H1 H2 _. apply lookup_singleton_Some in H1 as [<- <-]. apply lookup_singleton_Some in H2 as [_ <-].
    repeat split.
  - intros k q H Hne. apply lookup_singleton_Some in H as [<- <-]. done.
  - intros k q H [_ Hne]. apply lookup_singleton_Some in H as [<- <-]. done.
Qed.

Definition set_req (p : pod) (policy : N) (rss : list (list range)) : pod :=
  {| pd_ns := pd_ns p; pd_name := pd_name p; pd_uid := pd_uid p; pd_kind := pd_kind p; pd_app := pd_app p;
     pd_pool := pd_pool p; pd_policy := policy; pd_ranges := rss; pd_phase := pd_phase p; pd_node := pd_node p;
     pd_ips := pd_ips p |}.
Lemma set_req_wf p policy rss : wf_pod p → wf_pod (set_req p policy rss).
Proof. intros [H1 H2 H3 H4 H5]. split; done. Qed.

Definition jpool (nsn : list string) (subnet gw : string) (vlan : Z) (ips : list string) : json :=
  JObj [(L "nodeSubnets", JArr (map (fun s => JStr (L s)) nsn)); (L "ips", JArr (map (fun s => JStr (L s)) ips));
        (L "subnet", JStr (L subnet)); (L "gateway", JStr (L gw)); (L "vlan", JNum vlan)].
Definition ip4 (a b c d : N) : N := ((a * 256 + b) * 256 + c) * 256 + d.
Definition ex_nodes : gmap str N :=
  list_to_map [(L "node1", ip4 10 1 0 7); (L "node2", ip4 10 2 0 9); (L "node3", ip4 10 3 0 5); (L "node4", ip4 10 77 0 1)].
(** pool A: 10.100.0.2-4, routable from node1's and node2's subnet; pool B: 10.101.0.2-3, routable from node3's *)
Definition ex_conf2 : list json :=
  [jpool ["10.1.0.0/24"; "10.2.0.0/24"] "10.100.0.0/24" "10.100.0.1" 2 ["10.100.0.2~10.100.0.4"];
   jpool ["10.3.0.0/24"] "10.101.0.0/24" "10.101.0.1" 0 ["10.101.0.2~10.101.0.3"]]%string.
(** three pools with pairwise different node subnets *)
Definition ex_conf3 : list json :=
  [jpool ["10.1.0.0/24"] "10.100.0.0/24" "10.100.0.1" 0 ["10.100.0.2~10.100.0.4"];
   jpool ["10.2.0.0/24"] "10.101.0.0/24" "10.101.0.1" 0 ["10.101.0.2~10.101.0.3"];
   jpool ["10.3.0.0/24"] "10.102.0.0/24" "10.102.0.1" 0 ["10.102.0.2~10.102.0.3"]]%string.

(** the tables after the process has loaded [conf] *)
Definition ipam_init (conf : list json) : ipam := (step ipam0 (OConfigure conf false [])).1.1.
Lemma ipam_init_world conf nodes : w_ipam (pstep (world0 false nodes) (PIpam (OConfigure conf false []))).1 = ipam_init conf.
Proof. reflexivity. Qed.
Lemma ipam_init_inv2 conf : Inv2 (ipam_init conf).
Proof. apply inv2_configure, inv2_init. Qed.
(** ... and after [AllocateSpecificIP key x] calls *)
Fixpoint ipam_take (i : ipam) (l : list (str * N * attr)) : ipam :=
  match l with
  | [] => i
  | (key, x, a) :: r => ipam_take (alloc_specific i key x a false).1 r
  end.
Lemma ipam_take_inv2 l : ∀ i, Inv2 i → Inv2 (ipam_take i l).
Proof. induction l as [|[[key x] a] l IH]; intros i HI; simpl; [done|]. by apply IH, inv2_alloc_specific. Qed.

(** every requested range list already holds an IP of the key: bind re-uses them all *)
Lemma all_some_no_missing : ∀ slots rss, Forall is_Some slots → missing_of slots rss = [].
Proof.
  unfold missing_of. induction slots as [|s slots IH]; intros rss H; [done|]. destruct rss as [|rs rss]; [done|].
  inversion H as [|? ? [y ->] H']; subst. simpl. by apply IH.
Qed.

Lemma filter_then_bind_owned_l w p nodes o fl w1 l ns name node o2 w2 r :
  WInv w → w_pods w !! (ns, name) = Some p → pd_node p = [] → pd_ranges p ≠ [] →
  Forall is_Some (by_key_ranges (w_ipam w) (pod_key p) (pd_ranges p)) →
  filter_section w p nodes o fl = (w1, FNodes l) → In node l →
  w_lister w1 !! (ns, name) = Some p →
  bind_section true true w1 ns name (pd_uid p) node o2 no_faults = (w2, r) →
  (∃ ips, r = BOk ips) ∨
  (r = BErr ∧ ∃ y ey, i_alloc (w_ipam w1) !! y = Some ey ∧ e_key ey = pod_key p ∧ e_uid ey ≠ [] ∧ e_uid ey ≠ pd_uid p).
Proof.
  intros HW Hp Hn Hr Hall Hf Hnode Hl Hb.
  assert (w1 = w) as ->.
  { rewrite filter_section_unfold in Hf. destruct (pd_ranges p) as [|rs0 rss0] eqn:Er; [done|]. rewrite <- Er in *.
    cbv zeta in Hf. rewrite (all_some_no_missing _ _ Hall) in Hf. by inversion Hf. }
  rewrite bind_section_unfold, Hl, f2_guard_self in Hb.
  assert (bind_slots (w_ipam w) p o2 = Some (by_key_ranges (w_ipam w) (pod_key p) (pd_ranges p))) as Hs.
  { unfold bind_slots. by destruct (pd_ranges p). }
  rewrite Hs in Hb. destruct (bind_guard (w_ipam w) p) eqn:Eg.
  { right. inversion Hb; subst. split; [done|]. by apply bind_guard_true. }
  left. set (slots := by_key_ranges (w_ipam w) (pod_key p) (pd_ranges p)) in *.
  assert (bind_alloc w (pod_key p) node (pd_ranges p) slots (bind_attr p node) o2 no_faults = Some (w, Some (somes slots))) as Ha.
  { unfold bind_alloc. cbv zeta. fold (missing_of slots (pd_ranges p)). rewrite (all_some_no_missing _ _ Hall).
    destruct slots as [|s0 sl] eqn:Es; [|done]. exfalso. apply Hr.
    unfold slots in Es. rewrite by_key_ranges_map in Es. by destruct (pd_ranges p). }
  rewrite Ha in Hb.
  destruct (bind_tail_ok w ns name p node (somes slots) (somes slots)) as (wa & wb & Hloop & Hapi);
    [apply (wi_ipam w HW)|done|done| |].
  { intros x Hx _. apply elem_of_somes in Hx. by eapply by_key_ranges_keyed. }
  rewrite Hloop, Hapi in Hb. inversion Hb; eauto.
Qed.

Lemma pair_eq {A B} (q : A * B) a b : q.1 = a → q.2 = b → q = (a, b).
Proof. destruct q. simpl. by intros -> ->. Qed.

(** * witnesses: statements of C06 that are (wit1) or were before the repairs F14/F15 (wit2, wit3) false for the model
      and for the Go code it mirrors *)

(** pool A: 10.100.0.2-4 routable from the subnets of node1 and node2; pool B: 10.101.0.2-3 from those of node1 and node3 *)
Definition ex_conf2b : list json :=
  [jpool ["10.1.0.0/24"; "10.2.0.0/24"] "10.100.0.0/24" "10.100.0.1" 2 ["10.100.0.2~10.100.0.4"];
   jpool ["10.1.0.0/24"; "10.3.0.0/24"] "10.101.0.0/24" "10.101.0.1" 0 ["10.101.0.2~10.101.0.3"]]%string.
Definition ex_allnodes : list str := [L "node1"; L "node2"; L "node3"; L "node4"].
Definition o_first_is (x : N) : oracle := {| o_first := Some x; o_choice := None; o_order := [] |}.
(** attributes of an IP reserved for a deleted pod (policy never): no node, no uid *)
Definition held_attr (policy : N) : attr := {| a_policy := policy; a_node := []; a_uid := [] |}.
Definition one_ip (x : N) : list range := [(x, x)].

Definition wit_pod : pod := set_req (mk_pod "ns1" "web-0" "u2" KSts "web" "") 2 [].
Lemma wit_pod_wf : wf_pod wit_pod.
Proof. apply set_req_wf, mk_pod_wf; reflexivity. Qed.

(** witness 1: statefulset pod web-0, policy never, no requested ranges; its key holds TWO reserved IPs (left by an
    earlier incarnation that had requested two ranges and ran on node1): 10.100.0.3 in pool A, 10.101.0.2 in pool B *)
Definition wit1 : world :=
  simple_world (ipam_take (ipam_init ex_conf2b) [(pod_key wit_pod, ip4 10 100 0 3, held_attr 2);
                                                 (pod_key wit_pod, ip4 10 101 0 2, held_attr 2)]) wit_pod ex_nodes ∅ ∅.
Lemma wit1_winv : WInv wit1.
Proof. apply winv_simple; [apply ipam_take_inv2, ipam_init_inv2|apply wit_pod_wf|done]. Qed.

(** BEFORE the repair of K7: Filter met 10.100.0.3 first and offered node1 and node2; Bind (on node2) met 10.101.0.2
    first and wrote it: not routable from node2 *)
Lemma bind_routable_refuted_old_l :
  ∃ w p nodes o fl w1 l ns name uid node o2 fl2 w2 ips nip sn pl,
    WInv w ∧ w_pods w !! (ns, name) = Some p ∧ filter_section_old7 w p nodes o fl = (w1, FNodes l) ∧ In node l ∧
    w_lister w1 !! (ns, name) = Some pl ∧ same_static p pl ∧
    bind_section_old7 w1 ns name uid node o2 fl2 = (w2, BOk ips) ∧
    w_nodes w !! node = Some nip ∧ node_subnet (w_ipam w) nip = Some sn ∧
    ∃ x, x ∈ ips ∧ ip_has_subnet (i_pools (w_ipam w2)) x sn = false.
Proof.
  exists wit1, wit_pod, ex_allnodes, (o_first_is (ip4 10 100 0 3)), no_faults, wit1, [L "node1"; L "node2"],
    (L "ns1"), (L "web-0"), (L "u2"), (L "node2"), (o_first_is (ip4 10 101 0 2)), no_faults.
  eexists (bind_section_old7 wit1 (L "ns1") (L "web-0") (L "u2") (L "node2") (o_first_is (ip4 10 101 0 2)) no_faults).1.
  exists [ip4 10 101 0 2], (ip4 10 2 0 9), (ip4 10 2 0 0, 24), wit_pod.
  split_and!.
  - apply wit1_winv.
  - vm_compute. reflexivity.
  - vm_compute. reflexivity.
  - right. left. reflexivity.
  - vm_compute. reflexivity.
  - repeat split.
  - apply pair_eq; [reflexivity|vm_compute; reflexivity].
  - vm_compute. reflexivity.
  - vm_compute. reflexivity.
  - exists (ip4 10 101 0 2). split; [left|vm_compute; reflexivity].
Qed.

(** ... the same at the level of the function that names the key's first IP: on the tables of [wit1] the old function
    accepted both oracles, the repaired one accepts only the one naming the smaller IP, for Filter and Bind alike *)
Lemma first_of_key_old_two_l :
  let i := w_ipam wit1 in let key := pod_key wit_pod in
  let x1 := ip4 10 100 0 3 in let x2 := ip4 10 101 0 2 in
  first_of_key_old i key (o_first_is x1) = Some (Some x1) ∧ first_of_key_old i key (o_first_is x2) = Some (Some x2) ∧
  first_of_key i key (o_first_is x1) = Some (Some x1) ∧ first_of_key i key (o_first_is x2) = None ∧
  (∀ sn, ip_has_subnet (i_pools i) x1 sn = true → ip_has_subnet (i_pools i) x2 sn = true → sn = (ip4 10 1 0 0, 24)).
Proof.
  split_and!; try (vm_compute; reflexivity).
  intros sn H1 H2. rewrite ip_has_subnet_sn_in in H1, H2. apply sn_in_spec in H1, H2.
  vm_compute in H1, H2. set_solver.
Qed.

(** the hypotheses of [bind_routable] are met by the world of witness 1, whose key holds two IPs in different pools:
    Filter looks at the smaller one, 10.100.0.3, and offers node1 and node2; Bind on node2 writes that IP, routable
    from node2; an oracle naming the other IP is no longer a possible one (Stuck) *)
Lemma ex_bind_routable_l :
  let w := wit1 in let p := wit_pod in let x1 := ip4 10 100 0 3 in let x2 := ip4 10 101 0 2 in
  let sn := (ip4 10 2 0 0, 24) in
  let b := bind_section true true w (L "ns1") (L "web-0") (L "u2") (L "node2") (o_first_is x1) no_faults in
  WInv w ∧ w_pods w !! (L "ns1", L "web-0") = Some p ∧ pd_ranges p = [] ∧
  (∃ e1 e2, i_alloc (w_ipam w) !! x1 = Some e1 ∧ e_key e1 = pod_key p ∧ i_alloc (w_ipam w) !! x2 = Some e2 ∧ e_key e2 = pod_key p) ∧
  pool_of (i_pools (w_ipam w)) x1 ≠ pool_of (i_pools (w_ipam w)) x2 ∧
  filter_section w p ex_allnodes (o_first_is x1) no_faults = (w, FNodes [L "node1"; L "node2"]) ∧
  w_lister w !! (L "ns1", L "web-0") = Some p ∧ same_static p p ∧
  b.2 = BOk [x1] ∧
  w_nodes w !! L "node2" = Some (ip4 10 2 0 9) ∧ node_subnet (w_ipam w) (ip4 10 2 0 9) = Some sn ∧
  ip_has_subnet (i_pools (w_ipam b.1)) x1 sn = true ∧ ip_has_subnet (i_pools (w_ipam b.1)) x2 sn = false ∧
  (filter_section w p ex_allnodes (o_first_is x2) no_faults).2 = FStuck ∧
  (bind_section true true w (L "ns1") (L "web-0") (L "u2") (L "node2") (o_first_is x2) no_faults).2 = BStuck.
Proof.
  cbv zeta. split_and!.
  - apply wit1_winv.
  - vm_compute. reflexivity.
  - reflexivity.
  - do 2 eexists. split_and!; vm_compute; reflexivity.
  - vm_compute. discriminate.
  - vm_compute. reflexivity.
  - vm_compute. reflexivity.
  - repeat split.
  - vm_compute. reflexivity.
  - vm_compute. reflexivity.
  - vm_compute. reflexivity.
  - vm_compute. reflexivity.
  - vm_compute. reflexivity.
  - vm_compute. reflexivity.
  - vm_compute. reflexivity.
Qed.

Lemma in_one_ip x z : in_ranges (one_ip x) z = true → z = x.
Proof.
  unfold in_ranges, one_ip, range_contains. simpl. rewrite orb_false_r, andb_true_iff, !N.leb_le. lia.
Qed.
Lemma ranges_disjoint_ones xs : NoDup xs → ranges_disjoint (map one_ip xs).
Proof.
  intros Hnd i j rs rs' z Hi Hj Hne H1 H2. rewrite list_lookup_fmap in Hi, Hj.
  destruct (xs !! i) as [x|] eqn:Ei; [|discriminate]. destruct (xs !! j) as [x'|] eqn:Ej; [|discriminate].
  simpl in Hi, Hj. inversion Hi; inversion Hj; subst. apply in_one_ip in H1, H2. subst.
  apply Hne. by eapply NoDup_lookup.
Qed.

(** witness 2: the pod requests three single addresses; its key holds the first two, which lie in pools without a
    common node subnet (pools A and B of [ex_conf2]); the third is free in pool A.  The pinned Filter (F15) dropped
    the empty intersection and offered node1; Bind there returns all three: 10.101.0.2 is not routable from node1.
    Repaired (Go commit 07fe1a3): the restriction is never dropped, Filter offers no node *)
Definition wit2_pod : pod :=
  set_req (mk_pod "ns1" "web-0" "u2" KSts "web" "") 2 (map one_ip [ip4 10 100 0 3; ip4 10 101 0 2; ip4 10 100 0 4]).
Definition wit2 : world :=
  simple_world (ipam_take (ipam_init ex_conf2) [(pod_key wit2_pod, ip4 10 100 0 3, held_attr 2);
                                                (pod_key wit2_pod, ip4 10 101 0 2, held_attr 2)]) wit2_pod ex_nodes ∅ ∅.
Lemma wit2_winv : WInv wit2.
Proof. apply winv_simple; [apply ipam_take_inv2, ipam_init_inv2|apply set_req_wf, mk_pod_wf; reflexivity|done]. Qed.

(** the restriction of the pinned commit (F15): an EMPTY intersection of the held IPs' subnets was dropped *)
Definition restrict_old (subnets os : list subnet) : list subnet :=
  match os with [] => subnets | _ => sn_inter subnets os end.

(** on the tables of [wit2] the old restriction keeps node1's subnet, from which the held IP 10.101.0.2 is not
    routable; the repaired one ([restrict_subnets _ (Some os)] = [sn_inter _ os]) removes it, and the repaired filter
    offers no node at all *)
Lemma bind_routable_refuted_ranges_old_l :
  ∃ w p node nip sn x,
    let i := w_ipam w in
    let slots := by_key_ranges i (pod_key p) (pd_ranges p) in
    let subnets := node_subnets_by_ranges i (missing_of slots (pd_ranges p)) in
    let os := owned_subnets_of i (somes slots) in
    WInv w ∧ w_pods w !! pk p = Some p ∧ ranges_disjoint (pd_ranges p) ∧
    w_nodes w !! node = Some nip ∧ node_subnet i nip = Some sn ∧
    x ∈ somes slots ∧ os = [] ∧
    sn ∈ restrict_old subnets os ∧ sn ∉ restrict_subnets subnets (Some os) ∧
    ip_has_subnet (i_pools i) x sn = false ∧
    filter_section w p ex_allnodes no_oracle no_faults = (w, FNodes []).
Proof.
  exists wit2, wit2_pod, (L "node1"), (ip4 10 1 0 7), (ip4 10 1 0 0, 24), (ip4 10 101 0 2). cbv zeta.
  split_and!.
  - apply wit2_winv.
  - vm_compute. reflexivity.
  - apply ranges_disjoint_ones. refine (proj1 (bool_decide_eq_true _) _). vm_compute. reflexivity.
  - vm_compute. reflexivity.
  - vm_compute. reflexivity.
  - apply elem_of_list_In. vm_compute. right. left. reflexivity.
  - vm_compute. reflexivity.
  - apply sn_in_spec. vm_compute. reflexivity.
  - intros H. apply sn_in_spec in H. vm_compute in H. discriminate H.
  - vm_compute. reflexivity.
  - vm_compute. reflexivity.
Qed.

(** witness 3 (NodeSubnetsByIPRanges restarts from an empty intersection): fresh tables, three pools with pairwise
    different node subnets, a pod requesting one address of each.  The subnet sets of the first two range lists
    do not intersect, so the pinned code (F14) took the third list's set as the answer: filter offered node3; Bind on
    node3 failed (no address of the first list is routable from there), although no fault was injected and nothing
    was stored for another incarnation.  Repaired (Go commit 948e55d): only the first list initialises the set *)
Definition wit3_pod : pod :=
  set_req (mk_pod "ns1" "web-0" "u2" KSts "web" "") 0 (map one_ip [ip4 10 100 0 2; ip4 10 101 0 2; ip4 10 102 0 2]).
Definition wit3 : world := simple_world (ipam_init ex_conf3) wit3_pod ex_nodes ∅ ∅.
Lemma wit3_winv : WInv wit3.
Proof. apply winv_simple; [apply ipam_init_inv2|apply set_req_wf, mk_pod_wf; reflexivity|done]. Qed.

(** the old intersection ([node_subnets_by_ranges_gen true]) approved node3's subnet, from which the allocation of
    the request is impossible ([pick_ips] = the pick phase of AllocateInSubnetsAndIPRange); the repaired one approves
    no subnet and the repaired filter offers no node *)
Lemma filter_then_bind_refuted_restart_old_l :
  ∃ i rss sn, Inv2 i ∧ ranges_disjoint rss ∧
    sn ∈ node_subnets_by_ranges_gen true i rss ∧ sn ∉ node_subnets_by_ranges i rss ∧ pick_ips i sn rss [] = None.
Proof.
  exists (w_ipam wit3), (pd_ranges wit3_pod), (ip4 10 3 0 0, 24). split_and!.
  - apply ipam_init_inv2.
  - apply ranges_disjoint_ones. refine (proj1 (bool_decide_eq_true _) _). vm_compute. reflexivity.
  - apply sn_in_spec. vm_compute. reflexivity.
  - intros H. apply sn_in_spec in H. vm_compute in H. discriminate H.
  - vm_compute. reflexivity.
Qed.

Lemma wit3_filter_now :
  WInv wit3 ∧ w_pods wit3 !! pk wit3_pod = Some wit3_pod ∧
  filter_section wit3 wit3_pod ex_allnodes no_oracle no_faults = (wit3, FNodes []).
Proof. split_and!; [apply wit3_winv|vm_compute; reflexivity|vm_compute; reflexivity]. Qed.

(** * every loaded pool lists at least one node subnet (FloatingIPPool.UnmarshalJSON rejects the others) *)
Definition pools_routable (i : ipam) : Prop := Forall (λ pl, p_nodesubnets pl ≠ []) (i_pools i).

Lemma decode_pools_routable js ps : decode_pools js = Some ps → Forall (λ pl, p_nodesubnets pl ≠ []) ps.
Proof.
  revert ps. induction js as [|j js IH]; intros ps H; simpl in H.
  - inversion H. constructor.
  - destruct (unmarshal_pool cur_flags j) as [p| |] eqn:Ep; try discriminate.
    destruct (decode_pools js) as [ps'|]; [|discriminate]. inversion H; subst.
    constructor; [|by apply IH]. apply (PoolP.wf_ns_ne _ (PoolP.accepted_wf _ _ Ep)).
Qed.

Lemma sort_pools_forall (P : pool → Prop) ps : Forall P ps → Forall P (sort_pools ps).
Proof. unfold sort_pools. induction 1; simpl; [constructor|]. by apply Forall_insert_gw. Qed.

Lemma routable_init : pools_routable ipam0.
Proof. constructor. Qed.
Lemma routable_configure s conf lf df : pools_routable s → pools_routable (step s (OConfigure conf lf df)).1.1.
Proof.
  intros H. simpl. destruct (decode_pools conf) as [ps|] eqn:E; [|done]. unfold configure. destruct lf; [done|].
  simpl. unfold pools_routable, configure_with. simpl. apply sort_pools_forall. by eapply decode_pools_routable.
Qed.
Lemma routable_restart s conf : pools_routable s → pools_routable (step s (ORestart conf)).1.1.
Proof.
  intros H. simpl. destruct (decode_pools conf) as [ps|] eqn:E; [|done].
  simpl. unfold pools_routable, restart, configure_with. simpl. apply sort_pools_forall. by eapply decode_pools_routable.
Qed.

Lemma subnets_of_ip_nonempty i x : Inv i → pools_routable i → is_Some (i_alloc i !! x) → subnets_of_ip i x ≠ [].
Proof.
  intros HI Hr Hx. assert (configured (i_pools i) x = true) as Hc by (apply (inv_conf _ HI); by left).
  apply configured_pool_of in Hc as (pl & Hpo & Hin & _). unfold subnets_of_ip. rewrite Hpo.
  unfold pools_routable in Hr. rewrite Forall_forall in Hr. apply Hr. by apply elem_of_list_In.
Qed.

Lemma dp_takes_reserve_w w p nodes o fl w' r :
  WInv w → pools_routable (w_ipam w) → pd_kind p = KDp → policy_of p ≠ 0 → pd_ranges p = [] →
  (∀ y ey, i_alloc (w_ipam w) !! y = Some ey → e_key ey ≠ pod_key p) →
  (∃ y ey, i_alloc (w_ipam w) !! y = Some ey ∧ e_key ey = Keys.pool_prefix (keyobj_of p)) →
  filter_section w p nodes o fl = (w', r) →
  dom (i_alloc (w_ipam w')) = dom (i_alloc (w_ipam w)) ∧
  ((w' = w ∧ ∀ l, r ≠ FNodes l) ∨
   ((∃ l, r = FNodes l) ∧ w_pods w' = w_pods w ∧ w_lister w' = w_lister w ∧
    ∃ y ey ey', i_alloc (w_ipam w) !! y = Some ey ∧ e_key ey = Keys.pool_prefix (keyobj_of p) ∧
                i_alloc (w_ipam w') !! y = Some ey' ∧ e_key ey' = pod_key p ∧ e_uid ey' = pd_uid p ∧
                i_unalloc (w_ipam w') = i_unalloc (w_ipam w) ∧ i_pools (w_ipam w') = i_pools (w_ipam w) ∧
                ∀ z, z ≠ y → i_alloc (w_ipam w') !! z = i_alloc (w_ipam w) !! z)).
Proof.
  intros HW Hro Hk Hpol Hr Hfree (y & ey & Hy & Hky) H. eapply dp_takes_reserve_l; try done.
  exists y, ey. split_and!; try done. apply subnets_of_ip_nonempty; [by destruct (wi_ipam w HW)|done|eauto].
Qed.

(** * the hypotheses of the C02 / C06 theorems are satisfiable: concrete worlds and what the sections do there *)

Lemma ipam_take_pools l : ∀ i, i_pools (ipam_take i l) = i_pools i.
Proof.
  induction l as [|[[key x] a] l IH]; intros i; simpl; [done|]. rewrite IH.
  destruct (alloc_specific i key x a false) as [s' r] eqn:E. simpl.
  apply alloc_specific_spec in E as [(_ & _ & _ & _ & Hp)|[_ ->]]; done.
Qed.
Lemma ipam_take_routable conf l : pools_routable (ipam_take (ipam_init conf) l).
Proof. unfold pools_routable. rewrite ipam_take_pools. apply routable_configure, routable_init. Qed.

Lemma no_key_entries i key : by_key i key = [] → ∀ y ey, i_alloc i !! y = Some ey → e_key ey ≠ key.
Proof. intros H y ey Hy Hk. assert (In (y, ey) (by_key i key)) as Hin by (by apply by_key_spec). by rewrite H in Hin. Qed.

(** statefulset pod web-0 with policy never, scheduled again: its key holds 10.100.0.3 (pool A), reserved *)
Definition ex_sticky_world : world :=
  simple_world (ipam_take (ipam_init ex_conf2) [(pod_key wit_pod, ip4 10 100 0 3, held_attr 2)]) wit_pod ex_nodes ∅ ∅.
Lemma ex_sticky_l :
  let w := ex_sticky_world in let x := ip4 10 100 0 3 in
  WInv w ∧ w_lister w !! (L "ns1", L "web-0") = Some wit_pod ∧ pd_ranges wit_pod = [] ∧ policy_of wit_pod = 2 ∧
  (∃ e, i_alloc (w_ipam w) !! x = Some e ∧ e_key e = pod_key wit_pod) ∧
  (filter_section w wit_pod ex_allnodes (o_first_is x) no_faults).2 = FNodes [L "node1"; L "node2"] ∧
  (bind_section true true w (L "ns1") (L "web-0") (L "u2") (L "node2") (o_first_is x) no_faults).2 = BOk [x].
Proof.
  split_and!.
  - apply winv_simple; [apply ipam_take_inv2, ipam_init_inv2|apply wit_pod_wf|done].
  - vm_compute; reflexivity.
  - reflexivity.
  - reflexivity.
  - eexists. split; vm_compute; reflexivity.
  - vm_compute; reflexivity.
  - vm_compute; reflexivity.
Qed.

(** ... requesting two addresses, the first of which its key already holds; bound on node1 *)
Definition ex_ranges_pod : pod :=
  set_req (mk_pod "ns1" "web-0" "u2" KSts "web" "") 2 (map one_ip [ip4 10 100 0 3; ip4 10 101 0 2]).
Definition ex_ranges_world : world :=
  simple_world (ipam_take (ipam_init ex_conf2b) [(pod_key ex_ranges_pod, ip4 10 100 0 3, held_attr 2)]) ex_ranges_pod ex_nodes ∅ ∅.
Lemma ex_sticky_ranges_l :
  let w := ex_ranges_world in let p := ex_ranges_pod in
  WInv w ∧ w_lister w !! (L "ns1", L "web-0") = Some p ∧ pd_ranges p ≠ [] ∧ ranges_disjoint (pd_ranges p) ∧
  by_key_ranges (w_ipam w) (pod_key p) (pd_ranges p) = [Some (ip4 10 100 0 3); None] ∧
  (bind_section true true w (L "ns1") (L "web-0") (L "u2") (L "node1") no_oracle no_faults).2 =
    BOk [ip4 10 100 0 3; ip4 10 101 0 2].
Proof.
  split_and!.
  - apply winv_simple; [apply ipam_take_inv2, ipam_init_inv2|apply set_req_wf, mk_pod_wf; reflexivity|done].
  - vm_compute; reflexivity.
  - done.
  - apply ranges_disjoint_ones. refine (proj1 (bool_decide_eq_true _) _). vm_compute. reflexivity.
  - vm_compute; reflexivity.
  - vm_compute; reflexivity.
Qed.

(** replacement pod of deployment ns1/dp (2 replicas, policy immutable); the app holds 10.100.0.4 in reserve *)
Definition ex_dp_pod : pod := set_req (mk_pod "ns1" "dp-abc-xyz" "u5" KDp "dp" "") 1 [].
Definition ex_dp_world : world :=
  simple_world (ipam_take (ipam_init ex_conf2) [(Keys.pool_prefix (keyobj_of ex_dp_pod), ip4 10 100 0 4, held_attr 1)])
               ex_dp_pod ex_nodes {[ (L "ns1", L "dp") := 2 ]} ∅.
Definition o_choice_is (x : N) : oracle := {| o_first := None; o_choice := Some x; o_order := [] |}.
Lemma ex_dp_reserve_l :
  let w := ex_dp_world in let p := ex_dp_pod in let x := ip4 10 100 0 4 in
  WInv w ∧ pools_routable (w_ipam w) ∧ wf_pod p ∧ pd_kind p = KDp ∧ policy_of p ≠ 0 ∧ pd_ranges p = [] ∧
  (∀ y ey, i_alloc (w_ipam w) !! y = Some ey → e_key ey ≠ pod_key p) ∧
  (∃ ey, i_alloc (w_ipam w) !! x = Some ey ∧ e_key ey = Keys.pool_prefix (keyobj_of p)) ∧
  (filter_section w p ex_allnodes (o_choice_is x) no_faults).2 = FNodes [L "node1"] ∧
  (∃ ey', i_alloc (w_ipam (filter_section w p ex_allnodes (o_choice_is x) no_faults).1) !! x = Some ey' ∧ e_key ey' = pod_key p).
Proof.
  assert (wf_pod ex_dp_pod) as Hwf by (apply set_req_wf, mk_pod_wf; reflexivity).
  split_and!.
  - apply winv_simple; [apply ipam_take_inv2, ipam_init_inv2|done|done].
  - apply ipam_take_routable.
  - done.
  - reflexivity.
  - done.
  - reflexivity.
  - apply no_key_entries. vm_compute. reflexivity.
  - eexists. split; vm_compute; reflexivity.
  - vm_compute; reflexivity.
  - eexists. split; vm_compute; reflexivity.
Qed.

(** a fresh statefulset pod with the default policy on freshly loaded tables; bound on node3 *)
Definition ex_fresh_pod : pod := mk_pod "ns1" "web-0" "u2" KSts "web" "".
Definition ex_fresh_world : world := simple_world (ipam_init ex_conf2) ex_fresh_pod ex_nodes ∅ ∅.
Lemma ex_fresh_l :
  let w := ex_fresh_world in let p := ex_fresh_pod in let y := ip4 10 101 0 2 in
  WInv w ∧ w_pods w !! (L "ns1", L "web-0") = Some p ∧ w_lister w !! (L "ns1", L "web-0") = Some p ∧
  pd_node p = [] ∧ pd_ranges p = [] ∧ pd_kind p ≠ KDp ∧
  (∀ z ez, i_alloc (w_ipam w) !! z = Some ez → e_key ez ≠ pod_key p) ∧
  filter_section w p ex_allnodes no_oracle no_faults = (w, FNodes [L "node1"; L "node2"; L "node3"]) ∧
  (bind_section true true w (L "ns1") (L "web-0") (pd_uid p) (L "node3") (o_choice_is y) no_faults).2 = BOk [y] ∧
  ip_info (w_ipam (bind_section true true w (L "ns1") (L "web-0") (pd_uid p) (L "node3") (o_choice_is y) no_faults).1) y =
    Some (24, ip4 10 101 0 1, 0) ∧
  w_nodes w !! L "node3" = Some (ip4 10 3 0 5) ∧ node_subnet (w_ipam w) (ip4 10 3 0 5) = Some (ip4 10 3 0 0, 24) ∧
  ip_has_subnet (i_pools (w_ipam w)) y (ip4 10 3 0 0, 24) = true.
Proof.
  split_and!.
  - apply winv_simple; [apply ipam_init_inv2|apply mk_pod_wf; reflexivity|done].
  - vm_compute; reflexivity.
  - vm_compute; reflexivity.
  - reflexivity.
  - reflexivity.
  - done.
  - apply no_key_entries. vm_compute. reflexivity.
  - vm_compute; reflexivity.
  - vm_compute; reflexivity.
  - vm_compute; reflexivity.
  - vm_compute; reflexivity.
  - vm_compute; reflexivity.
  - vm_compute; reflexivity.
Qed.

(** the form of [sticky_bind_l] asked for by C02 *)
Lemma sticky_bind_w w ns name uid node o fl p x e w' r :
  w_lister w !! (ns, name) = Some p → pd_ranges p = [] →
  i_alloc (w_ipam w) !! x = Some e → e_key e = pod_key p →
  bind_section true true w ns name uid node o fl = (w', r) →
  (∀ ips, r = BOk ips → ∃ y ey, ips = [y] ∧ i_alloc (w_ipam w) !! y = Some ey ∧ e_key ey = pod_key p) ∧
  (∀ y ey, i_alloc (w_ipam w) !! y = Some ey → e_key ey = pod_key p →
           ∃ ey', i_alloc (w_ipam w') !! y = Some ey' ∧ e_key ey' = pod_key p) ∧
  dom (i_alloc (w_ipam w')) = dom (i_alloc (w_ipam w)) ∧ i_unalloc (w_ipam w') = i_unalloc (w_ipam w).
Proof.
  intros Hl Hr He Hk H. destruct (sticky_bind_l _ _ _ _ _ _ _ _ _ _ _ _ Hl Hr He Hk H) as [H1 Hu].
  split_and!; [done| |by eapply upd_dom|apply Hu]. intros y ey Hy Hky. by eapply upd_keyed.
Qed.

Lemma sticky_ranges_w w ns name uid node o fl p w' ips :
  WInv w → w_lister w !! (ns, name) = Some p → pd_ranges p ≠ [] → ranges_disjoint (pd_ranges p) →
  bind_section true true w ns name uid node o fl = (w', BOk ips) →
  List.length ips = List.length (pd_ranges p) ∧
  ∀ i y, by_key_ranges (w_ipam w) (pod_key p) (pd_ranges p) !! i = Some (Some y) → ips !! i = Some y.
Proof. intros HW. apply sticky_ranges_l. by destruct (wi_ipam w HW). Qed.

(** without pairwise-disjoint range lists the statement is false: the pod requests [10.100.0.2-10.100.0.4] and
    [10.100.0.2]; its key holds 10.100.0.4 (slot 0).  Bind allocates 10.100.0.2 for the second list; the re-query
    then finds 10.100.0.2 first in BOTH lists: the pod is bound with [10.100.0.2; 10.100.0.2] and 10.100.0.4 -
    still reserved under its key - is not written *)
Definition wit4_pod : pod :=
  set_req (mk_pod "ns1" "web-0" "u2" KSts "web" "") 2 [[(ip4 10 100 0 2, ip4 10 100 0 4)]; one_ip (ip4 10 100 0 2)].
Definition wit4 : world :=
  simple_world (ipam_take (ipam_init ex_conf2) [(pod_key wit4_pod, ip4 10 100 0 4, held_attr 2)]) wit4_pod ex_nodes ∅ ∅.
Lemma sticky_ranges_overlap_refuted_l :
  ∃ w ns name uid node o fl p w' ips,
    WInv w ∧ uid ≠ [] ∧ w_lister w !! (ns, name) = Some p ∧ pd_ranges p ≠ [] ∧
    bind_section true true w ns name uid node o fl = (w', BOk ips) ∧
    ∃ i y, by_key_ranges (w_ipam w) (pod_key p) (pd_ranges p) !! i = Some (Some y) ∧ ips !! i ≠ Some y.
Proof.
  exists wit4, (L "ns1"), (L "web-0"), (L "u2"), (L "node1"), no_oracle, no_faults, wit4_pod.
  eexists (bind_section true true wit4 (L "ns1") (L "web-0") (L "u2") (L "node1") no_oracle no_faults).1.
  exists [ip4 10 100 0 2; ip4 10 100 0 2]. split_and!.
  - apply winv_simple; [apply ipam_take_inv2, ipam_init_inv2|apply set_req_wf, mk_pod_wf; reflexivity|done].
  - done.
  - vm_compute; reflexivity.
  - done.
  - apply pair_eq; [reflexivity|vm_compute; reflexivity].
  - exists 0%nat, (ip4 10 100 0 4). split; [vm_compute; reflexivity|]. vm_compute. discriminate.
Qed.

(** [bind_routable] for worlds satisfying the invariant (K7 repaired: no premise on the number of IPs of the key) *)
Lemma bind_routable_w w p nodes o fl w1 l ns name uid node o2 fl2 w2 ips nip sn pl :
  WInv w → filter_section w p nodes o fl = (w1, FNodes l) → In node l →
  w_lister w1 !! (ns, name) = Some pl → same_static p pl →
  bind_section true true w1 ns name uid node o2 fl2 = (w2, BOk ips) →
  w_nodes w !! node = Some nip → node_subnet (w_ipam w) nip = Some sn →
  ∀ x, x ∈ ips → ip_has_subnet (i_pools (w_ipam w2)) x sn = true.
Proof. intros HW. apply bind_routable_l. by destruct (wi_ipam w HW). Qed.

(** witness 1 is reachable: a statefulset pod (policy never) requesting 10.100.0.3 and 10.101.0.2 runs on node1, is
    deleted (both IPs stay reserved under its key), and is re-created WITHOUT the range request (rolling update).
    In that world the sections as they were before the repair of K7 wrote 10.101.0.2 on node2; the repaired ones write
    10.100.0.3 *)
Definition wit1_old_pod : pod :=
  set_req (mk_pod "ns1" "web-0" "u1" KSts "web" "") 2 (map one_ip [ip4 10 100 0 3; ip4 10 101 0 2]).
Definition wit1_hist : list pop :=
  let k := (L "ns1", L "web-0") in
  [PEnv (EPodPut wit1_old_pod); PEnv (EInformer k); PFilter k ex_allnodes no_oracle no_faults;
   PBind (L "ns1") (L "web-0") (L "u1") (L "node1") no_oracle no_faults;
   PEnv (EPodDelete k); PEnv (EInformer k);
   PEvent 0 {| o_first := None; o_choice := None; o_order := [ip4 10 100 0 3; ip4 10 101 0 2] |} [] no_faults;
   PEnv (EPodPut wit_pod); PEnv (EInformer k)].
Fixpoint pouts (w : world) (ops : list pop) : list pout :=
  match ops with [] => [] | o :: r => (pstep w o).2 :: pouts (pstep w o).1 r end.

Lemma bind_routable_witness_reachable_l :
  let init := (pstep (world0 false ex_nodes) (PIpam (OConfigure ex_conf2b false []))).1 in
  let k := (L "ns1", L "web-0") in
  let w := prun init wit1_hist in
  let x1 := ip4 10 100 0 3 in let x2 := ip4 10 101 0 2 in
  let sn := (ip4 10 2 0 0, 24) in
  let bold := bind_section_old7 w (L "ns1") (L "web-0") (L "u2") (L "node2") (o_first_is x2) no_faults in
  let fop x := PFilter k ex_allnodes (o_first_is x) no_faults in
  let bop x := PBind (L "ns1") (L "web-0") (L "u2") (L "node2") (o_first_is x) no_faults in
  pouts init wit1_hist = [ROk; ROk; RNodes [L "node1"]; RIps [x1; x2]; ROk; ROk; ROk; ROk; ROk] ∧
  w_pods w !! k = Some wit_pod ∧ w_lister w !! k = Some wit_pod ∧
  w_nodes w !! L "node2" = Some (ip4 10 2 0 9) ∧ node_subnet (w_ipam w) (ip4 10 2 0 9) = Some sn ∧
  (* before the repair of K7 *)
  filter_section_old7 w wit_pod ex_allnodes (o_first_is x1) no_faults = (w, FNodes [L "node1"; L "node2"]) ∧
  bold.2 = BOk [x2] ∧ ip_has_subnet (i_pools (w_ipam bold.1)) x2 sn = false ∧
  (* repaired: both sections take the smaller IP; the oracle naming the other one is not a possible one *)
  pstep w (fop x1) = (w, RNodes [L "node1"; L "node2"]) ∧
  (pstep w (bop x1)).2 = RIps [x1] ∧ ip_has_subnet (i_pools (w_ipam (pstep w (bop x1)).1)) x1 sn = true ∧
  (pstep w (fop x2)).2 = RStuck ∧ (pstep w (bop x2)).2 = RStuck.
Proof. cbv zeta. split_and!; vm_compute; reflexivity. Qed.

(** witness 3 is the world after the process start, the creation of the pod and its delivery to the informer *)
Lemma wit3_reachable :
  prun (pstep (world0 false ex_nodes) (PIpam (OConfigure ex_conf3 false []))).1
       [PEnv (EPodPut wit3_pod); PEnv (EInformer (pk wit3_pod))] = wit3.
Proof. vm_compute. reflexivity. Qed.

(** * filter then bind with exactly ONE requested range list that has no IP of the key yet *)

Lemma elem_of_free_in_ranges s rs x : x ∈ free_in_ranges s rs ↔ x ∈ i_unalloc s ∧ in_ranges rs x = true.
Proof.
  unfold in_ranges. induction rs as [|r rs IH]; simpl; [split; [intros H; inversion H|intros [_ ?]; done]|].
  rewrite elem_of_app, IH, elem_of_list_In, filter_In, <- elem_of_list_In, elem_of_elements, orb_true_iff. naive_solver.
Qed.

(** the repaired intersection: an approved subnet has, in EVERY requested range list, a free address routable from it *)
Lemma subnets_by_ranges_false_in s sn : ∀ rss first acc, sn ∈ subnets_by_ranges_gen false s rss first acc →
  (first = false → sn ∈ acc) ∧
  ∀ rs, rs ∈ rss → ∃ x, x ∈ i_unalloc s ∧ in_ranges rs x = true ∧ ip_has_subnet (i_pools s) x sn = true.
Proof.
  induction rss as [|rs rest IH]; intros first acc H; cbn [subnets_by_ranges_gen] in H.
  { split; [done|]. intros rs Hrs. inversion Hrs. }
  destruct (free_in_ranges s rs) as [|f0 fr] eqn:Efr; [inversion H|]. rewrite <- Efr in H. cbv zeta in H.
  cbn [andb] in H. rewrite orb_false_r in H. apply IH in H as [Hacc Hrest]. specialize (Hacc eq_refl).
  assert (sn ∈ subnets_of_ips s (free_in_ranges s rs) ∧ (first = false → sn ∈ acc)) as [Hpart Ha].
  { destruct first; [split; [done|discriminate]|]. apply elem_of_list_In, filter_In in Hacc as [H1 H2].
    split; [by apply sn_in_spec|intros _; by apply elem_of_list_In]. }
  split; [done|]. intros rs' Hrs'. apply elem_of_cons in Hrs' as [->|Hrs']; [|by apply Hrest].
  apply elem_of_subnets_of_ips in Hpart as (x & Hx & Hxsn). apply elem_of_free_in_ranges in Hx as [Hx Hxin]. by exists x.
Qed.

Lemma elem_of_node_subnets_by_ranges s rss sn : sn ∈ node_subnets_by_ranges s rss →
  ∀ rs, rs ∈ rss → ∃ x, x ∈ i_unalloc s ∧ in_ranges rs x = true ∧ ip_has_subnet (i_pools s) x sn = true.
Proof.
  intros H rs Hrs. destruct rss as [|rs0 rss0] eqn:E; [inversion Hrs|]. rewrite <- E in *.
  unfold node_subnets_by_ranges, node_subnets_by_ranges_gen in H. rewrite E in H. rewrite <- E in H.
  by apply (subnets_by_ranges_false_in _ _ _ _ _ H).
Qed.

Lemma alloc_ranges_one s key sn rs a x : Inv2 s → x ∈ i_unalloc s → in_ranges rs x = true →
  ip_has_subnet (i_pools s) x sn = true → ∃ s' ip, alloc_ranges s key sn [rs] a None = (s', AOk, [ip]).
Proof.
  intros HI2 Hx Hin Hsn. unfold alloc_ranges. cbn [pick_ips].
  set (f := λ ip : N, subnet_candidate s sn ip && negb (existsb (N.eqb ip) [])).
  destruct (first_in_ranges_total f rs (ranges_fuel rs)) as (o & Ho & Hnone); [unfold ranges_fuel; lia|].
  rewrite Ho. destruct o as [ip|].
  2:{ exfalso. specialize (Hnone eq_refl x Hin). unfold f, subnet_candidate in Hnone.
      rewrite bool_decide_eq_true_2, Hsn in Hnone by done. discriminate. }
  apply first_in_ranges_spec in Ho as [Hf _]. unfold f in Hf. apply andb_prop in Hf as [Hc _].
  apply subnet_candidate_unalloc in Hc. cbn [rev app create_all]. unfold st_create.
  destruct (i_store s !! ip) as [o|] eqn:Es.
  { exfalso. destruct (inv2_store_alloc _ _ _ HI2 Es) as (e & He & _). destruct HI2 as [HI _].
    by rewrite (inv_disj _ HI ip Hc) in He. }
  eauto.
Qed.

Lemma filter_then_bind_one_missing_l w p nodes o fl w1 l ns name node o2 w2 r rs :
  WInv w → w_pods w !! (ns, name) = Some p → pd_node p = [] → pd_ranges p ≠ [] →
  missing_of (by_key_ranges (w_ipam w) (pod_key p) (pd_ranges p)) (pd_ranges p) = [rs] →
  filter_section w p nodes o fl = (w1, FNodes l) → In node l →
  w_lister w1 !! (ns, name) = Some p →
  bind_section true true w1 ns name (pd_uid p) node o2 no_faults = (w2, r) →
  (∃ ips, r = BOk ips) ∨
  (r = BErr ∧ ∃ y ey, i_alloc (w_ipam w1) !! y = Some ey ∧ e_key ey = pod_key p ∧ e_uid ey ≠ [] ∧ e_uid ey ≠ pd_uid p).
Proof.
  intros HW Hp Hn Hr Hmiss Hf Hnode Hl Hb. pose proof (wi_ipam w HW) as HI2.
  (* filter: unchanged world, and a free address of [rs] routable from the node *)
  assert (w1 = w ∧ ∃ nip sn x, w_nodes w !! node = Some nip ∧ node_subnet (w_ipam w) nip = Some sn ∧
            x ∈ i_unalloc (w_ipam w) ∧ in_ranges rs x = true ∧ ip_has_subnet (i_pools (w_ipam w)) x sn = true)
    as (-> & nip & sn & x & Hnip & Hsn & Hx & Hxin & Hxsn).
  { rewrite filter_section_unfold in Hf. destruct (pd_ranges p) as [|rs0 rss0] eqn:Er; [done|]. rewrite <- Er in *.
    cbv zeta in Hf. rewrite Hmiss in Hf.
    apply filter_cont_nodes in Hf as [(-> & Hll)|(Hnil & _)]; [|discriminate Hnil]. split; [done|].
    destruct Hll as [->| ->]; apply in_filter_node_ok in Hnode as (_ & nip & sn & H1 & H2 & H3); [inversion H3|].
    assert (sn ∈ node_subnets_by_ranges (w_ipam w) [rs]) as Hin.
    { unfold restrict_subnets in H3. destruct (somes _); [done|]. by apply elem_of_sn_inter in H3 as [? _]. }
    destruct (elem_of_node_subnets_by_ranges _ _ _ Hin rs) as (x & Hx & Hxin & Hxsn); [left|].
    by exists nip, sn, x. }
  set (slots := by_key_ranges (w_ipam w) (pod_key p) (pd_ranges p)) in *.
  rewrite bind_section_unfold, Hl, f2_guard_self in Hb.
  assert (bind_slots (w_ipam w) p o2 = Some slots) as Hs.
  { unfold bind_slots. by destruct (pd_ranges p). }
  rewrite Hs in Hb. destruct (bind_guard (w_ipam w) p) eqn:Eg.
  { right. inversion Hb; subst. split; [done|]. by apply bind_guard_true. }
  left.
  destruct (alloc_ranges_one (w_ipam w) (pod_key p) sn rs (bind_attr p node) x HI2 Hx Hxin Hxsn) as (s' & ip & Ha).
  assert (bind_alloc w (pod_key p) node (pd_ranges p) slots (bind_attr p node) o2 no_faults =
          Some (set_ipam w s', Some (somes (by_key_ranges s' (pod_key p) (pd_ranges p))))) as Hba.
  { unfold bind_alloc. cbv zeta. fold (missing_of slots (pd_ranges p)). rewrite Hmiss, Hnip, Hsn.
    change (f_store no_faults) with (@None nat). by rewrite Ha. }
  rewrite Hba in Hb.
  pose proof (inv2_alloc_ranges (w_ipam w) (pod_key p) sn [rs] (bind_attr p node) None HI2) as HI'. rewrite Ha in HI'. simpl in HI'.
  destruct (bind_tail_ok (set_ipam w s') ns name p node (somes (by_key_ranges s' (pod_key p) (pd_ranges p))) (somes slots))
    as (wa & wb & Hloop & Hapi); [done|done|done| |].
  { intros z Hz _. apply elem_of_somes in Hz. by eapply by_key_ranges_keyed. }
  rewrite Hloop, Hapi in Hb. inversion Hb; eauto.
Qed.

(** * filter then bind with any number of requested range lists, pairwise disjoint *)

(** no address of a range list lies in a later one *)
Fixpoint disjoint_list (rss : list (list range)) : Prop :=
  match rss with
  | [] => True
  | rs :: rest => (∀ rs' x, rs' ∈ rest → in_ranges rs x = true → in_ranges rs' x = true → False) ∧ disjoint_list rest
  end.

Lemma ranges_disjoint_tail rs rss : ranges_disjoint (rs :: rss) → ranges_disjoint rss.
Proof. intros H i j r r' x Hi Hj Hne. apply (H (S i) (S j) r r' x); [done|done|lia]. Qed.

Lemma missing_of_sub : ∀ slots rss rs, rs ∈ missing_of slots rss → rs ∈ rss.
Proof.
  unfold missing_of. induction slots as [|s slots IH]; intros [|rs0 rss] rs H; simpl in H; try (by inversion H).
  apply elem_of_app in H as [H|H]; [|right; by apply IH]. destruct s; [inversion H|].
  apply elem_of_list_singleton in H as ->. left.
Qed.

Lemma disjoint_missing : ∀ slots rss, ranges_disjoint rss → disjoint_list (missing_of slots rss).
Proof.
  induction slots as [|s slots IH]; intros [|rs0 rss] Hd; try exact I.
  pose proof (IH rss (ranges_disjoint_tail _ _ Hd)) as IH'.
  change (missing_of (s :: slots) (rs0 :: rss)) with
    ((match s with None => [rs0] | Some _ => [] end) ++ missing_of slots rss)%list.
  destruct s as [y|]; [exact IH'|]. split; [|exact IH'].
  intros rs' x Hin H1 H2. apply missing_of_sub, elem_of_list_lookup in Hin as [j Hj].
  apply (Hd 0%nat (S j) rs0 rs' x); done.
Qed.

(** the pick phase of AllocateInSubnetsAndIPRange finds an address for every range list *)
Lemma pick_ips_ok s sn : ∀ rss picked, disjoint_list rss →
  (∀ rs, rs ∈ rss → ∃ x, subnet_candidate s sn x = true ∧ in_ranges rs x = true) →
  (∀ rs y, rs ∈ rss → y ∈ picked → in_ranges rs y = false) →
  ∃ L, pick_ips s sn rss picked = Some L.
Proof.
  induction rss as [|rs rest IH]; intros picked Hd Hfree Hpicked; cbn [pick_ips]; [eauto|].
  destruct Hd as [Hd1 Hd2].
  set (f := λ ip : N, subnet_candidate s sn ip && negb (existsb (N.eqb ip) picked)).
  destruct (first_in_ranges_total f rs (ranges_fuel rs)) as (o & Ho & Hnone); [unfold ranges_fuel; lia|].
  rewrite Ho. destruct o as [ip|].
  2:{ exfalso. destruct (Hfree rs) as (x & Hc & Hin); [left|]. specialize (Hnone eq_refl x Hin). unfold f in Hnone.
      rewrite Hc in Hnone. cbn [andb] in Hnone. apply negb_false_iff, existsb_exists in Hnone as (y & Hy & Hxy).
      apply N.eqb_eq in Hxy as <-. rewrite (Hpicked rs x) in Hin; [done|left|by apply elem_of_list_In]. }
  apply first_in_ranges_spec in Ho as [Hf Hipin]. apply IH; [done| |].
  - intros rs' Hrs'. apply Hfree. by right.
  - intros rs' y Hrs' Hy. apply elem_of_cons in Hy as [->|Hy]; [|apply Hpicked; [by right|done]].
    destruct (in_ranges rs' ip) eqn:E; [|done]. by destruct (Hd1 rs' ip).
Qed.

Lemma create_all_ok key a t : ∀ ips st, NoDup ips → (∀ x, x ∈ ips → st !! x = None) →
  ∃ st', create_all st key a t ips None = (st', ips, true).
Proof.
  induction ips as [|x ips IH]; intros st Hnd Hnone; cbn [create_all]; [eauto|].
  apply NoDup_cons in Hnd as [Hx Hnd]. unfold st_create. rewrite (Hnone x) by left.
  destruct (IH (<[x := mk_entry key a false t]> st) Hnd) as (st' & ->); [|eauto].
  intros y Hy. rewrite lookup_insert_ne by (intros ->; done). apply Hnone. by right.
Qed.

(** with, for every range list, a free address routable from the subnet, pairwise-disjoint lists and no store fault,
    AllocateInSubnetsAndIPRange succeeds *)
Lemma alloc_ranges_ok s key sn rss a : Inv2 s → disjoint_list rss →
  (∀ rs, rs ∈ rss → ∃ x, x ∈ i_unalloc s ∧ in_ranges rs x = true ∧ ip_has_subnet (i_pools s) x sn = true) →
  ∃ s' ips, alloc_ranges s key sn rss a None = (s', AOk, ips).
Proof.
  intros HI2 Hd Hfree. unfold alloc_ranges.
  destruct (pick_ips_ok s sn rss [] Hd) as (L & HL).
  { intros rs Hrs. destruct (Hfree rs Hrs) as (x & Hx & Hin & Hsn). exists x. split; [|done].
    unfold subnet_candidate. by rewrite bool_decide_eq_true_2, Hsn. }
  { intros rs y _ Hy. inversion Hy. }
  rewrite HL. destruct (pick_ips_spec _ _ _ _ _ HL) as (L' & HL' & _ & HF & Hnd). simpl in HL'. subst L'.
  destruct (create_all_ok key a (i_clock s) L (i_store s)) as (st' & ->); [apply Hnd; constructor| |eauto].
  intros x Hx. apply elem_of_list_lookup in Hx as [k Hk]. destruct (Forall2_lookup_l _ _ _ _ _ HF Hk) as (rs & _ & Hc & _).
  apply subnet_candidate_unalloc in Hc. destruct (i_store s !! x) as [ob|] eqn:Es; [|done]. exfalso.
  destruct (inv2_store_alloc _ _ _ HI2 Es) as (e & He & _). destruct HI2 as [HI _]. by rewrite (inv_disj _ HI x Hc) in He.
Qed.

Lemma filter_then_bind_missing_l w p nodes o fl w1 l ns name node o2 w2 r :
  WInv w → w_pods w !! (ns, name) = Some p → pd_node p = [] → ranges_disjoint (pd_ranges p) →
  missing_of (by_key_ranges (w_ipam w) (pod_key p) (pd_ranges p)) (pd_ranges p) ≠ [] →
  filter_section w p nodes o fl = (w1, FNodes l) → In node l →
  w_lister w1 !! (ns, name) = Some p →
  bind_section true true w1 ns name (pd_uid p) node o2 no_faults = (w2, r) →
  (∃ ips, r = BOk ips) ∨
  (r = BErr ∧ ∃ y ey, i_alloc (w_ipam w1) !! y = Some ey ∧ e_key ey = pod_key p ∧ e_uid ey ≠ [] ∧ e_uid ey ≠ pd_uid p).
Proof.
  intros HW Hp Hn Hdisj Hmiss Hf Hnode Hl Hb. pose proof (wi_ipam w HW) as HI2.
  assert (pd_ranges p ≠ []) as Hr.
  { intros E. apply Hmiss. rewrite E. done. }
  (* filter: unchanged world, and for every missing range list a free address routable from the node *)
  assert (w1 = w ∧ ∃ nip sn, w_nodes w !! node = Some nip ∧ node_subnet (w_ipam w) nip = Some sn ∧
            ∀ rs, rs ∈ missing_of (by_key_ranges (w_ipam w) (pod_key p) (pd_ranges p)) (pd_ranges p) →
              ∃ x, x ∈ i_unalloc (w_ipam w) ∧ in_ranges rs x = true ∧ ip_has_subnet (i_pools (w_ipam w)) x sn = true)
    as (-> & nip & sn & Hnip & Hsn & Hfree).
  { rewrite filter_section_unfold in Hf. destruct (pd_ranges p) as [|rs0 rss0] eqn:Er; [done|]. rewrite <- Er in *.
    cbv zeta in Hf.
    destruct (missing_of (by_key_ranges (w_ipam w) (pod_key p) (pd_ranges p)) (pd_ranges p)) as [|m0 ms] eqn:Em; [done|].
    apply filter_cont_nodes in Hf as [(-> & Hll)|(Hnil & _)]; [|discriminate Hnil]. split; [done|].
    destruct Hll as [->| ->]; apply in_filter_node_ok in Hnode as (_ & nip & sn & H1 & H2 & H3); [inversion H3|].
    exists nip, sn. split_and!; try done. apply elem_of_node_subnets_by_ranges.
    unfold restrict_subnets in H3. destruct (somes _); [done|]. by apply elem_of_sn_inter in H3 as [? _]. }
  set (slots := by_key_ranges (w_ipam w) (pod_key p) (pd_ranges p)) in *.
  rewrite bind_section_unfold, Hl, f2_guard_self in Hb.
  assert (bind_slots (w_ipam w) p o2 = Some slots) as Hs.
  { unfold bind_slots. by destruct (pd_ranges p). }
  rewrite Hs in Hb. destruct (bind_guard (w_ipam w) p) eqn:Eg.
  { right. inversion Hb; subst. split; [done|]. by apply bind_guard_true. }
  left.
  destruct (alloc_ranges_ok (w_ipam w) (pod_key p) sn (missing_of slots (pd_ranges p)) (bind_attr p node) HI2
              (disjoint_missing _ _ Hdisj) Hfree) as (s' & fresh & Ha).
  assert (bind_alloc w (pod_key p) node (pd_ranges p) slots (bind_attr p node) o2 no_faults =
          Some (set_ipam w s', Some (somes (by_key_ranges s' (pod_key p) (pd_ranges p))))) as Hba.
  { unfold bind_alloc. cbv zeta. fold (missing_of slots (pd_ranges p)). rewrite Hnip, Hsn.
    change (f_store no_faults) with (@None nat). rewrite Ha.
    destruct (missing_of slots (pd_ranges p)); [done|]. reflexivity. }
  rewrite Hba in Hb.
  pose proof (inv2_alloc_ranges (w_ipam w) (pod_key p) sn (missing_of slots (pd_ranges p)) (bind_attr p node) None HI2) as HI'.
  rewrite Ha in HI'. simpl in HI'.
  destruct (bind_tail_ok (set_ipam w s') ns name p node (somes (by_key_ranges s' (pod_key p) (pd_ranges p))) (somes slots))
    as (wa & wb & Hloop & Hapi); [done|done|done| |].
  { intros z Hz _. apply elem_of_somes in Hz. by eapply by_key_ranges_keyed. }
  rewrite Hloop, Hapi in Hb. inversion Hb; eauto.
Qed.

(** filter then bind, the statement asked for, for pairwise-disjoint requested range lists *)
Lemma filter_then_bind_l w p nodes o fl w1 l ns name node o2 w2 r :
  WInv w → w_pods w !! (ns, name) = Some p → pd_node p = [] → ranges_disjoint (pd_ranges p) →
  filter_section w p nodes o fl = (w1, FNodes l) → In node l →
  w_lister w1 !! (ns, name) = Some p →
  bind_section true true w1 ns name (pd_uid p) node o2 no_faults = (w2, r) →
  (∃ ips, r = BOk ips) ∨ r = BStuck ∨
  (r = BErr ∧ ∃ y ey, i_alloc (w_ipam w1) !! y = Some ey ∧ e_key ey = pod_key p ∧ e_uid ey ≠ [] ∧ e_uid ey ≠ pd_uid p).
Proof.
  intros HW Hp Hn Hdisj Hf Hnode Hl Hb.
  destruct (decide (pd_ranges p = [])) as [Hr|Hr]; [by eapply filter_then_bind_noranges_l|].
  destruct (missing_of (by_key_ranges (w_ipam w) (pod_key p) (pd_ranges p)) (pd_ranges p)) as [|m0 ms] eqn:Em.
  - apply missing_nil_all_some in Em; [|rewrite by_key_ranges_map; apply map_length].
    destruct (filter_then_bind_owned_l _ _ _ _ _ _ _ _ _ _ _ _ _ HW Hp Hn Hr Em Hf Hnode Hl Hb) as [?|?]; auto.
  - assert (missing_of (by_key_ranges (w_ipam w) (pod_key p) (pd_ranges p)) (pd_ranges p) ≠ []) as Hne by (by rewrite Em).
    destruct (filter_then_bind_missing_l _ _ _ _ _ _ _ _ _ _ _ _ _ HW Hp Hn Hdisj Hne Hf Hnode Hl Hb) as [?|?]; auto.
Qed.

(** the requested range lists in which the key holds no IP yet *)
Definition missing_ranges (i : ipam) (p : pod) : list (list range) :=
  missing_of (by_key_ranges i (pod_key p) (pd_ranges p)) (pd_ranges p).

(** filter then bind, all true cases together: no requested ranges, or at most one requested range list without an
    IP of the key *)
Lemma filter_then_bind_partial_l w p nodes o fl w1 l ns name node o2 w2 r :
  WInv w → w_pods w !! (ns, name) = Some p → pd_node p = [] →
  (pd_ranges p = [] ∨ List.length (missing_ranges (w_ipam w) p) ≤ 1)%nat →
  filter_section w p nodes o fl = (w1, FNodes l) → In node l →
  w_lister w1 !! (ns, name) = Some p →
  bind_section true true w1 ns name (pd_uid p) node o2 no_faults = (w2, r) →
  (∃ ips, r = BOk ips) ∨ r = BStuck ∨
  (r = BErr ∧ ∃ y ey, i_alloc (w_ipam w1) !! y = Some ey ∧ e_key ey = pod_key p ∧ e_uid ey ≠ [] ∧ e_uid ey ≠ pd_uid p).
Proof.
  intros HW Hp Hn Hcase Hf Hnode Hl Hb.
  destruct (decide (pd_ranges p = [])) as [Hr|Hr]; [by eapply filter_then_bind_noranges_l|].
  destruct Hcase as [?|Hlen]; [done|]. unfold missing_ranges in Hlen.
  destruct (missing_of _ _) as [|rs [|rs' m]] eqn:Em; [| |simpl in Hlen; lia].
  - apply missing_nil_all_some in Em; [|rewrite by_key_ranges_map; apply map_length].
    destruct (filter_then_bind_owned_l _ _ _ _ _ _ _ _ _ _ _ _ _ HW Hp Hn Hr Em Hf Hnode Hl Hb) as [?|?]; auto.
  - destruct (filter_then_bind_one_missing_l _ _ _ _ _ _ _ _ _ _ _ _ _ _ HW Hp Hn Hr Em Hf Hnode Hl Hb) as [?|?]; auto.
Qed.

(** non-vacuity with TWO range lists to allocate: a fresh pod requesting 10.100.0.3 (pool A: node1, node2) and
    10.101.0.2 (pool B: node1, node3) is offered node1 only, and bind there writes both *)
Definition ex_ftb_world : world := simple_world (ipam_init ex_conf2b) ex_ranges_pod ex_nodes ∅ ∅.
Lemma ex_ftb_ranges_l :
  let w := ex_ftb_world in let p := ex_ranges_pod in
  WInv w ∧ w_pods w !! (L "ns1", L "web-0") = Some p ∧ w_lister w !! (L "ns1", L "web-0") = Some p ∧ pd_node p = [] ∧
  ranges_disjoint (pd_ranges p) ∧ List.length (missing_ranges (w_ipam w) p) = 2%nat ∧
  filter_section w p ex_allnodes no_oracle no_faults = (w, FNodes [L "node1"]) ∧
  (bind_section true true w (L "ns1") (L "web-0") (pd_uid p) (L "node1") no_oracle no_faults).2 =
    BOk [ip4 10 100 0 3; ip4 10 101 0 2].
Proof.
  split_and!.
  - apply winv_simple; [apply ipam_init_inv2|apply set_req_wf, mk_pod_wf; reflexivity|done].
  - vm_compute; reflexivity.
  - vm_compute; reflexivity.
  - reflexivity.
  - apply ranges_disjoint_ones. refine (proj1 (bool_decide_eq_true _) _). vm_compute. reflexivity.
  - vm_compute; reflexivity.
  - vm_compute; reflexivity.
  - vm_compute; reflexivity.
Qed.

(** the disjointness premise of [filter_then_bind_l] is necessary.  Witness 5: freshly loaded tables, a pod requesting
    the SAME address 10.100.0.3 in two range lists.  Each list has a free address routable from node1 and node2, so
    filter offers both; Bind needs two different addresses and fails ("no enough IP"), nothing is stored *)
Definition wit5_pod : pod :=
  set_req (mk_pod "ns1" "web-0" "u2" KSts "web" "") 0 (map one_ip [ip4 10 100 0 3; ip4 10 100 0 3]).
Definition wit5 : world := simple_world (ipam_init ex_conf2) wit5_pod ex_nodes ∅ ∅.
Lemma filter_then_bind_overlap_refuted_l :
  ∃ w p nodes o fl w1 l ns name node o2 w2,
    WInv w ∧ w_pods w !! (ns, name) = Some p ∧ pd_node p = [] ∧
    filter_section w p nodes o fl = (w1, FNodes l) ∧ In node l ∧ w_lister w1 !! (ns, name) = Some p ∧
    bind_section true true w1 ns name (pd_uid p) node o2 no_faults = (w2, BErr) ∧
    i_alloc (w_ipam w1) = ∅.
Proof.
  exists wit5, wit5_pod, ex_allnodes, no_oracle, no_faults, wit5, [L "node1"; L "node2"], (L "ns1"), (L "web-0"), (L "node1"), no_oracle.
  eexists (bind_section true true wit5 (L "ns1") (L "web-0") (L "u2") (L "node1") no_oracle no_faults).1.
  split_and!.
  - apply winv_simple; [apply ipam_init_inv2|apply set_req_wf, mk_pod_wf; reflexivity|done].
  - vm_compute. reflexivity.
  - reflexivity.
  - vm_compute. reflexivity.
  - left. reflexivity.
  - vm_compute. reflexivity.
  - apply pair_eq; [reflexivity|vm_compute; reflexivity].
  - vm_compute. reflexivity.
Qed.
