(** The two scheduler sections of the plugin model - [filter_section] and [bind_section] (Model/Plugin.v) -
    preserve the world invariant [WInv] (Proofs/PluginInv.v); what a successful bind wrote. *)
From Coq Require Import String.
From stdpp Require Import gmap.
From Galaxy.Base Require Import Strs.
From Galaxy.Model Require Import Nets Pool Ipam Plugin.
From Galaxy.Model Require Keys.
From Galaxy.Proofs Require Import IpamP PluginInv PluginInvL PluginKeyFacts PluginIpamFacts.
Local Open Scope N_scope.

(** * the table changes of both sections: some entries become keyed [key] and stored for [uid]; what was there
      before was free or keyed by a key in [K] *)
Definition chg (K : str → Prop) (key uid : str) (i i' : ipam) : Prop :=
  ∀ y, i_alloc i' !! y = i_alloc i !! y ∨
       ∃ e', i_alloc i' !! y = Some e' ∧ e_key e' = key ∧ e_uid e' = uid ∧ ∀ e, i_alloc i !! y = Some e → K (e_key e).

Lemma chg_refl K key uid i i' : i_alloc i' = i_alloc i → chg K key uid i i'.
Proof. intros E y. left. by rewrite E. Qed.

Lemma chg_trans K key uid i1 i2 i3 : chg K key uid i1 i2 → chg K key uid i2 i3 → chg K key uid i1 i3.
Proof.
  intros H1 H2 y. destruct (H2 y) as [E2|(e' & He' & Hk & Hu & Hold)].
  - destruct (H1 y) as [E1|(e1 & He1 & Hk1 & Hu1 & Hold1)].
    + left. congruence.
    + right. exists e1. split_and!; try done. congruence.
  - right. exists e'. split_and!; try done. intros e He.
    destruct (H1 y) as [E1|(e1 & He1 & Hk1 & Hu1 & Hold1)].
    + apply Hold. congruence.
    + by apply Hold1.
Qed.

Lemma chg_insert_free K key uid i i' x e' :
  i_alloc i !! x = None → i_alloc i' = <[x := e']> (i_alloc i) → e_key e' = key → e_uid e' = uid → chg K key uid i i'.
Proof.
  intros Hx E Hk Hu y. rewrite E. destruct (decide (y = x)) as [->|Hne].
  - right. exists e'. rewrite lookup_insert. split_and!; try done. intros e He. congruence.
  - left. by rewrite lookup_insert_ne.
Qed.

Lemma chg_insert_upd (K : str → Prop) key uid i i' x e e' :
  i_alloc i !! x = Some e → K (e_key e) → i_alloc i' = <[x := e']> (i_alloc i) → e_key e' = key → e_uid e' = uid →
  chg K key uid i i'.
Proof.
  intros Hx HK E Hk Hu y. rewrite E. destruct (decide (y = x)) as [->|Hne].
  - right. exists e'. rewrite lookup_insert. split_and!; try done. intros e0 He. congruence.
  - left. by rewrite lookup_insert_ne.
Qed.

(** an entry already keyed [key] for [uid] stays so *)
Lemma chg_keeps K key uid i i' x e : chg K key uid i i' → i_alloc i !! x = Some e → e_key e = key → e_uid e = uid →
  ∃ e', i_alloc i' !! x = Some e' ∧ e_key e' = key ∧ e_uid e' = uid.
Proof.
  intros H He Hk Hu. destruct (H x) as [E|(e' & He' & Hk' & Hu' & _)].
  - exists e. split_and!; try done. congruence.
  - exists e'. done.
Qed.

(** [owned] under a weaker frame condition than [owned_frame]: entries of the pod's key may be re-written as
    long as they stay under the key and keep their uid or get the pod's *)
Lemma owned_frame2 i i' p :
  owned i p →
  (∀ y e, i_alloc i !! y = Some e → e_key e = pod_key p →
          ∃ e', i_alloc i' !! y = Some e' ∧ e_key e' = pod_key p ∧ (e_uid e' = e_uid e ∨ e_uid e' = pd_uid p)) →
  (∀ y e', i_alloc i' !! y = Some e' → e_key e' = pod_key p →
           (∃ e, i_alloc i !! y = Some e ∧ e_key e = pod_key p ∧ e_uid e = e_uid e') ∨ e_uid e' = [] ∨ e_uid e' = pd_uid p) →
  owned i' p.
Proof.
  intros [Ho1 Ho2] Hkeep Hnew. split.
  - intros x Hx. destruct (Ho1 x Hx) as (e & He & Hk & Hu).
    destruct (Hkeep x e He Hk) as (e' & He' & Hk' & Hu'). exists e'. split_and!; try done.
    destruct Hu' as [Hu'|Hu']; congruence.
  - intros x e' He' Hk. destruct (Hnew x e' He' Hk) as [(e & He & Hke & Hue)|[?|?]]; [|by left|by right].
    rewrite <- Hue. by apply (Ho2 x e).
Qed.

Lemma owned_chg (K : str → Prop) key uid i i' q :
  owned i q → chg K key uid i i' →
  (K (pod_key q) → key = pod_key q) →
  (key = pod_key q → uid = pd_uid q) →
  owned i' q.
Proof.
  intros Ho Hc HK Hu. apply (owned_frame2 i i' q Ho).
  - intros y e He Hk. destruct (Hc y) as [E|(e' & He' & Hk' & Hu' & Hold)].
    + exists e. split_and!; [congruence|done|by left].
    + exists e'. specialize (Hold e He). rewrite Hk in Hold. specialize (HK Hold).
      split_and!; [done|congruence|]. right. rewrite Hu'. by apply Hu.
  - intros y e' He' Hk. destruct (Hc y) as [E|(e1 & He1 & Hk1 & Hu1 & Hold)].
    + left. exists e'. split_and!; [congruence|done|done].
    + right. right. assert (e1 = e') as -> by congruence. rewrite Hu1. apply Hu. congruence.
Qed.

(** a step that changes neither truth, informer cache nor queue *)
Lemma winv_same w w' :
  WInv w → w_pods w' = w_pods w → w_lister w' = w_lister w → w_queue w' = w_queue w → Inv2 (w_ipam w') →
  (∀ k p, w_pods w !! k = Some p → live_bound p → owned (w_ipam w') p) →
  WInv w'.
Proof.
  intros [H1 H2 H3 H4 H5 H6 H7] Ep El Eq Hi Ho. split; rewrite ?Ep, ?El, ?Eq; try done.
Qed.

Lemma entry_assign_proj e k a t : e_key (assign e k a t) = k ∧ e_uid (assign e k a t) = a_uid a.
Proof. done. Qed.
Lemma entry_mk_proj k a r t : e_key (mk_entry k a r t) = k ∧ e_uid (mk_entry k a r t) = a_uid a.
Proof. done. Qed.

(** * Filter *)

Ltac head_destruct H :=
  match type of H with
  | (match ?X with _ => _ end) = _ => destruct X eqn:?
  | (if ?X then _ else _) = _ => destruct X eqn:?
  | (let '(_, _) := ?X in _) = _ => destruct X eqn:?
  end.

Lemma filter_section_frame w p nodes o fl w' r : filter_section w p nodes o fl = (w', r) →
  w' = w ∨
  ∃ sn a ch fail i', a_uid a = pd_uid p ∧ w' = set_ipam w i' ∧
    (alloc_with_key (w_ipam w) (Keys.pool_prefix (keyobj_of p)) (pod_key p) sn a ch fail = (i', AOk) ∨
     ∃ ox, alloc_in_subnet (w_ipam w) (pod_key p) sn a ch fail = (i', AOk, ox)).
Proof.
  unfold filter_section. intros H. cbv zeta in H.
  repeat head_destruct H; try (left; inversion H; reflexivity).
  all: right; inversion H; subst; clear H.
  all: eexists _, _, _, _, _; split_and!; [|reflexivity|first [left; eassumption|right; eexists; eassumption]]; reflexivity.
Qed.

Lemma winv_filter w key nodes o fl : WInv w → WInv (pstep w (PFilter key nodes o fl)).1.
Proof.
  intros HW. cbn [pstep]. destruct (w_pods w !! key) as [p|] eqn:Ep; [|done].
  destruct (filter_section w p nodes o fl) as [w' r] eqn:E.
  assert (WInv w') as HW'; [|by destruct r].
  destruct (wi_pods w HW key p Ep) as [Hpk Hwf].
  apply filter_section_frame in E as [->|(sn & a & ch & fail & i' & Ha & -> & Hal)]; [done|].
  assert (Inv2 i' ∧ chg (eq (Keys.pool_prefix (keyobj_of p))) (pod_key p) (pd_uid p) (w_ipam w) i') as [Hi Hc].
  { destruct Hal as [Hal|[ox Hal]].
    - split.
      + pose proof (inv2_alloc_with_key (w_ipam w) (Keys.pool_prefix (keyobj_of p)) (pod_key p) sn a ch fail (wi_ipam w HW)) as HI.
        by rewrite Hal in HI.
      + apply alloc_with_key_spec in Hal as [(_ & x & e & He & Hk & _ & Hal & _)|[? _]]; [|done].
        eapply chg_insert_upd; [exact He|by symmetry|exact Hal|done|done].
    - split.
      + pose proof (inv2_alloc_in_subnet (w_ipam w) (pod_key p) sn a ch fail (wi_ipam w HW)) as HI.
        by rewrite Hal in HI.
      + apply alloc_in_subnet_spec in Hal as [(_ & x & _ & Hx & _ & Hal & _)|[? _]]; [|done].
        eapply chg_insert_free; [|exact Hal|done|done].
        destruct (wi_ipam w HW) as [HI _]. by apply (inv_disj _ HI). }
  apply winv_set_ipam; [done|done|]. intros k q Hq Hlb.
  destruct (wi_pods w HW k q Hq) as [Hqk Hqwf].
  eapply owned_chg; [by eapply wi_owned|exact Hc|..].
  - intros Hk. exfalso. by eapply pool_prefix_not_pod_key.
  - intros Hk. apply pod_key_inj in Hk; [|done|done]. assert (k = key) as -> by congruence.
    assert (q = p) as -> by congruence. done.
Qed.
