(** The two scheduler sections of the plugin model - [filter_section] and [bind_section] (Model/Plugin.v) -
    preserve the world invariant [WInv] (Proofs/PluginInv.v); what a successful bind wrote. *)
From Coq Require Import String.
From stdpp Require Import gmap.
From Galaxy.Base Require Import Strs.
From Galaxy.Model Require Import Nets Pool Ipam Plugin.
From Galaxy.Model Require Keys.
From Galaxy.Proofs Require Import IpamP PluginInv PluginInvL PluginKeyFacts PluginIpamFacts.
Local Open Scope N_scope.

(** * the key's first IP: the one ByKeyAndIPRanges(key, nil) lists first.  Repaired (K7): the SMALLEST IP of the
      key, so every caller gets the same one; before ([first_of_key_old]) any IP of the key *)

Lemma first_of_key_gen_some k7 i key o x : first_of_key_gen k7 i key o = Some (Some x) →
  o_first o = Some x ∧ ∃ e, i_alloc i !! x = Some e ∧ e_key e = key ∧
    (k7 = true → ∀ y ey, i_alloc i !! y = Some ey → e_key ey = key → x <= y).
Proof.
  unfold first_of_key_gen. destruct (by_key i key) as [|kv l] eqn:Ebk; destruct (o_first o) as [x0|]; try discriminate.
  destruct (i_alloc i !! x0) as [e|] eqn:He; [|discriminate].
  destruct (str_eqb_spec (e_key e) key) as [Hk|]; [|discriminate]. cbn [andb].
  destruct (negb k7 || forallb _ _) eqn:Emin; [|discriminate]. intros [= <-]. split; [done|]. exists e. split_and!; try done.
  intros -> y ey Hy Hky. cbn [negb orb] in Emin. rewrite forallb_forall in Emin.
  assert (In (y, ey) (kv :: l)) as Hin by (rewrite <- Ebk; by apply by_key_spec).
  apply Emin in Hin. by apply N.leb_le in Hin.
Qed.

Lemma first_of_key_gen_none k7 i key o : first_of_key_gen k7 i key o = Some None →
  by_key i key = [] ∧ ∀ y ey, i_alloc i !! y = Some ey → e_key ey ≠ key.
Proof.
  unfold first_of_key_gen. destruct (by_key i key) as [|kv l] eqn:Ebk; destruct (o_first o) as [x0|]; try discriminate.
  - intros _. split; [done|]. intros y ey Hy Hk.
    assert (In (y, ey) (by_key i key)) as Hin by (by apply by_key_spec). by rewrite Ebk in Hin.
  - destruct (i_alloc i !! x0) as [e|]; [|discriminate]. by destruct (_ && _).
Qed.

(** the characterisation: a named IP is an IP of the key, and the smallest one *)
Lemma first_of_key_some i key o x : first_of_key i key o = Some (Some x) →
  ∃ e, i_alloc i !! x = Some e ∧ e_key e = key ∧ ∀ y ey, i_alloc i !! y = Some ey → e_key ey = key → x <= y.
Proof. intros H. apply first_of_key_gen_some in H as (_ & e & He & Hk & Hmin). exists e. split_and!; try done. by apply Hmin. Qed.

Lemma first_of_key_none i key o : first_of_key i key o = Some None →
  by_key i key = [] ∧ ∀ y ey, i_alloc i !! y = Some ey → e_key ey ≠ key.
Proof. apply first_of_key_gen_none. Qed.

Lemma first_of_key_old_some i key o x : first_of_key_old i key o = Some (Some x) → ∃ e, i_alloc i !! x = Some e ∧ e_key e = key.
Proof. intros H. apply first_of_key_gen_some in H as (_ & e & He & Hk & _). by exists e. Qed.

(** converse: the oracle that names the smallest IP of the key is accepted; before the repair, the oracle naming ANY
    IP of the key was *)
Lemma first_of_key_gen_intro k7 i key o x e : o_first o = Some x → i_alloc i !! x = Some e → e_key e = key →
  (k7 = true → ∀ y ey, i_alloc i !! y = Some ey → e_key ey = key → x <= y) →
  first_of_key_gen k7 i key o = Some (Some x).
Proof.
  intros Ho He Hk Hmin. unfold first_of_key_gen. rewrite Ho.
  assert (In (x, e) (by_key i key)) as Hin by (by apply by_key_spec).
  destruct (by_key i key) as [|kv l] eqn:Ebk; [done|]. rewrite He, Hk, str_eqb_refl. cbn [andb].
  destruct k7; [|done]. cbn [negb orb].
  assert (forallb (λ kv0 : N * entry, x <=? kv0.1) (kv :: l) = true) as ->; [|done].
  apply forallb_forall. intros [y ey] Hy. rewrite <- Ebk in Hy. apply by_key_spec in Hy as [Hy Hky].
  apply N.leb_le. by eapply Hmin.
Qed.

Lemma first_of_key_intro i key o x e : o_first o = Some x → i_alloc i !! x = Some e → e_key e = key →
  (∀ y ey, i_alloc i !! y = Some ey → e_key ey = key → x <= y) → first_of_key i key o = Some (Some x).
Proof. intros Ho He Hk Hmin. by eapply first_of_key_gen_intro. Qed.

Lemma first_of_key_old_intro i key o x e : o_first o = Some x → i_alloc i !! x = Some e → e_key e = key →
  first_of_key_old i key o = Some (Some x).
Proof. intros Ho He Hk. by eapply first_of_key_gen_intro. Qed.

Lemma first_of_key_free_intro k7 i key o : o_first o = None → (∀ y ey, i_alloc i !! y = Some ey → e_key ey ≠ key) →
  first_of_key_gen k7 i key o = Some None.
Proof.
  intros Ho Hfree. unfold first_of_key_gen. rewrite Ho. destruct (by_key i key) as [|[y ey] l] eqn:Ebk; [done|].
  assert (In (y, ey) (by_key i key)) as Hin by (rewrite Ebk; by left). apply by_key_spec in Hin as [Hy Hk]. by destruct (Hfree y ey).
Qed.

(** the repaired function accepts fewer oracles than the old one and answers the same when it accepts *)
Lemma first_of_key_old_of i key o r : first_of_key i key o = Some r → first_of_key_old i key o = Some r.
Proof.
  destruct r as [x|]; intros H.
  - apply first_of_key_gen_some in H as (Ho & e & He & Hk & _). by eapply first_of_key_old_intro.
  - unfold first_of_key, first_of_key_old, first_of_key_gen in *.
    destruct (by_key i key); destruct (o_first o) as [x0|]; try done.
    destruct (i_alloc i !! x0); [|done]. by destruct (_ && _).
Qed.

(** K7 repaired: two calls on the same table - Filter's and Bind's - get the same IP whatever the oracles *)
Lemma first_of_key_agree i key o o2 x y : first_of_key i key o = Some (Some x) → first_of_key i key o2 = Some (Some y) → x = y.
Proof.
  intros H1 H2. apply first_of_key_some in H1 as (e1 & He1 & Hk1 & Hm1), H2 as (e2 & He2 & Hk2 & Hm2).
  specialize (Hm1 y e2 He2 Hk2). specialize (Hm2 x e1 He1 Hk1). lia.
Qed.

(** * the table changes of both sections: some entries become keyed [key] and stored for [uid]; what was there
      before was free or keyed by a key in [K] *)
Definition chg (K : str → Prop) (key uid : str) (i i' : ipam) : Prop :=
  ∀ y, i_alloc i' !! y = i_alloc i !! y ∨
       ∃ e', i_alloc i' !! y = Some e' ∧ e_key e' = key ∧ e_uid e' = uid ∧ ∀ e, i_alloc i !! y = Some e → K (e_key e).

Lemma chg_refl K key uid i i' : i_alloc i' = i_alloc i → chg K key uid i i'.
Proof. intros E y. left. by rewrite E. Qed.

Lemma chg_trans K key uid i1 i2 i3 : chg K key uid i1 i2 → chg K key uid i2 i3 → chg K key uid i1 i3.
Proof.
  intros H1 H2 y. destruct (H2 y) as [E2|(e' & He' & Hk & Hu & Hold)].
  - destruct (H1 y) as [E1|(e1 & He1 & Hk1 & Hu1 & Hold1)].
    + left. congruence.
    + right. exists e1. split_and!; try done. congruence.
  - right. exists e'. split_and!; try done. intros e He.
    destruct (H1 y) as [E1|(e1 & He1 & Hk1 & Hu1 & Hold1)].
    + apply Hold. congruence.
    + by apply Hold1.
Qed.

Lemma chg_insert_free K key uid i i' x e' :
  i_alloc i !! x = None → i_alloc i' = <[x := e']> (i_alloc i) → e_key e' = key → e_uid e' = uid → chg K key uid i i'.
Proof.
  intros Hx E Hk Hu y. rewrite E. destruct (decide (y = x)) as [->|Hne].
  - right. exists e'. rewrite lookup_insert. split_and!; try done. intros e He. congruence.
  - left. by rewrite lookup_insert_ne.
Qed.

Lemma chg_insert_upd (K : str → Prop) key uid i i' x e e' :
  i_alloc i !! x = Some e → K (e_key e) → i_alloc i' = <[x := e']> (i_alloc i) → e_key e' = key → e_uid e' = uid →
  chg K key uid i i'.
Proof.
  intros Hx HK E Hk Hu y. rewrite E. destruct (decide (y = x)) as [->|Hne].
  - right. exists e'. rewrite lookup_insert. split_and!; try done. intros e0 He. congruence.
  - left. by rewrite lookup_insert_ne.
Qed.

(** an entry already keyed [key] for [uid] stays so *)
Lemma chg_keeps K key uid i i' x e : chg K key uid i i' → i_alloc i !! x = Some e → e_key e = key → e_uid e = uid →
  ∃ e', i_alloc i' !! x = Some e' ∧ e_key e' = key ∧ e_uid e' = uid.
Proof.
  intros H He Hk Hu. destruct (H x) as [E|(e' & He' & Hk' & Hu' & _)].
  - exists e. split_and!; try done. congruence.
  - exists e'. done.
Qed.

(** [owned] under a weaker frame condition than [owned_frame]: entries of the pod's key may be re-written as
    long as they stay under the key and keep their uid or get the pod's *)
Lemma owned_frame2 i i' p :
  owned i p →
  (∀ y e, i_alloc i !! y = Some e → e_key e = pod_key p →
          ∃ e', i_alloc i' !! y = Some e' ∧ e_key e' = pod_key p ∧ (e_uid e' = e_uid e ∨ e_uid e' = pd_uid p)) →
  (∀ y e', i_alloc i' !! y = Some e' → e_key e' = pod_key p →
           (∃ e, i_alloc i !! y = Some e ∧ e_key e = pod_key p ∧ e_uid e = e_uid e') ∨ e_uid e' = [] ∨ e_uid e' = pd_uid p) →
  owned i' p.
Proof.
  intros [Ho1 Ho2] Hkeep Hnew. split.
  - intros x Hx. destruct (Ho1 x Hx) as (e & He & Hk & Hu).
    destruct (Hkeep x e He Hk) as (e' & He' & Hk' & Hu'). exists e'. split_and!; try done.
    destruct Hu' as [Hu'|Hu']; congruence.
  - intros x e' He' Hk. destruct (Hnew x e' He' Hk) as [(e & He & Hke & Hue)|[?|?]]; [|by left|by right].
    rewrite <- Hue. by apply (Ho2 x e).
Qed.

Lemma owned_chg (K : str → Prop) key uid i i' q :
  owned i q → chg K key uid i i' →
  (K (pod_key q) → key = pod_key q) →
  (key = pod_key q → uid = pd_uid q) →
  owned i' q.
Proof.
  intros Ho Hc HK Hu. apply (owned_frame2 i i' q Ho).
  - intros y e He Hk. destruct (Hc y) as [E|(e' & He' & Hk' & Hu' & Hold)].
    + exists e. split_and!; [congruence|done|by left].
    + exists e'. specialize (Hold e He). rewrite Hk in Hold. specialize (HK Hold).
      split_and!; [done|congruence|]. right. rewrite Hu'. by apply Hu.
  - intros y e' He' Hk. destruct (Hc y) as [E|(e1 & He1 & Hk1 & Hu1 & Hold)].
    + left. exists e'. split_and!; [congruence|done|done].
    + right. right. assert (e1 = e') as -> by congruence. rewrite Hu1. apply Hu. congruence.
Qed.

(** a step that changes neither truth, informer cache nor queue *)
Lemma winv_same w w' :
  WInv w → w_pods w' = w_pods w → w_lister w' = w_lister w → w_queue w' = w_queue w → Inv2 (w_ipam w') →
  (∀ k p, w_pods w !! k = Some p → live_bound p → owned (w_ipam w') p) →
  WInv w'.
Proof.
  intros [H1 H2 H3 H4 H5 H6 H7] Ep El Eq Hi Ho. split; rewrite ?Ep, ?El, ?Eq; try done.
Qed.

Lemma entry_assign_proj e k a t : e_key (assign e k a t) = k ∧ e_uid (assign e k a t) = a_uid a.
Proof. done. Qed.
Lemma entry_mk_proj k a r t : e_key (mk_entry k a r t) = k ∧ e_uid (mk_entry k a r t) = a_uid a.
Proof. done. Qed.

(** * Filter *)

Ltac head_destruct H :=
  match type of H with
  | (match ?X with _ => _ end) = _ => destruct X eqn:?
  | (if ?X then _ else _) = _ => destruct X eqn:?
  | (let '(_, _) := ?X in _) = _ => destruct X eqn:?
  end.

Lemma filter_section_frame w p nodes o fl w' r : filter_section w p nodes o fl = (w', r) →
  w' = w ∨
  ∃ sn a ch fail i', a_uid a = pd_uid p ∧ w' = set_ipam w i' ∧
    (alloc_with_key (w_ipam w) (Keys.pool_prefix (keyobj_of p)) (pod_key p) sn a ch fail = (i', AOk) ∨
     ∃ ox, alloc_in_subnet (w_ipam w) (pod_key p) sn a ch fail = (i', AOk, ox)).
Proof.
  unfold filter_section. intros H. cbv zeta in H.
  repeat head_destruct H; try (left; inversion H; reflexivity).
  all: right; inversion H; subst; clear H.
  all: eexists _, _, _, _, _; split_and!; [|reflexivity|first [left; eassumption|right; eexists; eassumption]]; reflexivity.
Qed.

Lemma winv_filter w key nodes o fl : WInv w → WInv (pstep w (PFilter key nodes o fl)).1.
Proof.
  intros HW. cbn [pstep]. destruct (w_pods w !! key) as [p|] eqn:Ep; [|done].
  destruct (filter_section w p nodes o fl) as [w' r] eqn:E.
  assert (WInv w') as HW'; [|by destruct r].
  destruct (wi_pods w HW key p Ep) as [Hpk Hwf].
  apply filter_section_frame in E as [->|(sn & a & ch & fail & i' & Ha & -> & Hal)]; [done|].
  assert (Inv2 i' ∧ chg (eq (Keys.pool_prefix (keyobj_of p))) (pod_key p) (pd_uid p) (w_ipam w) i') as [Hi Hc].
  { destruct Hal as [Hal|[ox Hal]].
    - split.
      + pose proof (inv2_alloc_with_key (w_ipam w) (Keys.pool_prefix (keyobj_of p)) (pod_key p) sn a ch fail (wi_ipam w HW)) as HI.
        by rewrite Hal in HI.
      + apply alloc_with_key_spec in Hal as [(_ & x & e & He & Hk & _ & Hal & _)|[? _]]; [|done].
        eapply chg_insert_upd; [exact He|by symmetry|exact Hal|done|done].
    - split.
      + pose proof (inv2_alloc_in_subnet (w_ipam w) (pod_key p) sn a ch fail (wi_ipam w HW)) as HI.
        by rewrite Hal in HI.
      + apply alloc_in_subnet_spec in Hal as [(_ & x & _ & Hx & _ & Hal & _)|[? _]]; [|done].
        eapply chg_insert_free; [|exact Hal|done|done].
        destruct (wi_ipam w HW) as [HI _]. by apply (inv_disj _ HI). }
  apply winv_set_ipam; [done|done|]. intros k q Hq Hlb.
  destruct (wi_pods w HW k q Hq) as [Hqk Hqwf].
  eapply owned_chg; [by eapply wi_owned|exact Hc|..].
  - intros Hk. exfalso. by eapply pool_prefix_not_pod_key.
  - intros Hk. apply pod_key_inj in Hk; [|done|done]. assert (k = key) as -> by congruence.
    assert (q = p) as -> by congruence. done.
Qed.

(** * Bind *)

Lemma assign_loop_frame key node a reused fl ips : ∀ w idx ridx w' r,
  assign_loop w key node a ips reused idx ridx fl = (w', r) →
  w_pods w' = w_pods w ∧ w_lister w' = w_lister w ∧ w_queue w' = w_queue w ∧
  (Inv2 (w_ipam w) → Inv2 (w_ipam w')) ∧
  chg (eq key) key (a_uid a) (w_ipam w) (w_ipam w') ∧
  (r = SOk → ∀ x, x ∈ ips → existsb (N.eqb x) reused = true →
     ∃ e, i_alloc (w_ipam w') !! x = Some e ∧ e_key e = key ∧ e_uid e = a_uid a).
Proof.
  induction ips as [|x rest IH]; intros w idx ridx w' r H; cbn [assign_loop] in H.
  { inversion H; subst. split_and!; try done; [by apply chg_refl|]. intros _ x Hx. set_solver. }
  destruct (w_provider w && bool_decide (f_cloud fl = Some idx)) eqn:Ef.
  { inversion H; subst. split_and!; try done. by apply chg_refl. }
  set (w1 := if w_provider w then cloud_assign w x node else w) in *.
  assert (w_pods w1 = w_pods w ∧ w_lister w1 = w_lister w ∧ w_queue w1 = w_queue w ∧ w_ipam w1 = w_ipam w)
    as (Ep1 & El1 & Eq1 & Ei1) by (unfold w1; destruct (w_provider w); done).
  clearbody w1.
  destruct (existsb (N.eqb x) reused) eqn:Ex.
  - destruct (update_attr (w_ipam w1) key x a (bool_decide (f_update fl = Some ridx))) as [i' ra] eqn:Eu.
    pose proof (inv2_update_attr (w_ipam w1) key x a (bool_decide (f_update fl = Some ridx))) as HI. rewrite Eu in HI.
    simpl in HI. rewrite Ei1 in *.
    destruct ra; try (inversion H; subst; split_and!; try done; try apply chg_refl; congruence).
    apply IH in H as (Ep & El & Eq & Hinv & Hc & Hok). cbn [set_ipam w_ipam w_pods w_lister w_queue] in *.
    apply update_attr_spec in Eu as [(_ & e & He & Hk & Hal & _)|[? _]]; [|done].
    assert (chg (eq key) key (a_uid a) (w_ipam w) i') as Hc1.
    { eapply chg_insert_upd; [exact He|by symmetry|exact Hal|done|done]. }
    split_and!; try congruence; [auto|by eapply chg_trans|].
    intros -> y Hy Hr. apply elem_of_cons in Hy as [->|Hy]; [|by apply Hok].
    apply (chg_keeps _ _ _ _ _ x (assign e key a (i_clock (w_ipam w))) Hc); [|done|done].
    rewrite Hal, lookup_insert. reflexivity.
  - apply IH in H as (Ep & El & Eq & Hinv & Hc & Hok). rewrite Ei1 in *.
    split_and!; try congruence; try done.
    intros -> y Hy Hr. apply elem_of_cons in Hy as [->|Hy]; [congruence|by apply Hok].
Qed.

(** ** pods/binding *)
Definition bound_pod (q : pod) (node : str) (ips : list N) : pod :=
  {| pd_ns := pd_ns q; pd_name := pd_name q; pd_uid := pd_uid q; pd_kind := pd_kind q; pd_app := pd_app q;
     pd_pool := pd_pool q; pd_policy := pd_policy q; pd_ranges := pd_ranges q; pd_phase := pd_phase q;
     pd_node := node; pd_ips := ips |}.

Lemma bound_pod_static q node ips : same_static (bound_pod q node ips) q.
Proof. repeat split. Qed.
Lemma bound_pod_wf q node ips : wf_pod q → wf_pod (bound_pod q node ips).
Proof. intros [H1 H2 H3 H4 H5]. split; done. Qed.

Lemma api_bind_cases w key uid node ips inj w3 out : api_bind w key uid node ips inj = (w3, out) →
  match out with
  | BindOk => ∃ q, w_pods w !! key = Some q ∧ (uid = [] ∨ uid = pd_uid q) ∧ pd_node q = [] ∧
                   w3 = set_pods w (<[key := bound_pod q node ips]> (w_pods w))
  | BindNotFound => w3 = w ∧ w_pods w !! key = None
  | BindFail => w3 = w
  end.
Proof.
  unfold api_bind. destruct inj; [intros H; by inversion H|].
  destruct (w_pods w !! key) as [q|] eqn:Eq; [|intros H; by inversion H].
  destruct (negb _) eqn:Eu; [intros H; by inversion H|].
  destruct (negb (Keys.is_empty (pd_node q))) eqn:En; intros H; inversion H; subst; clear H; [done|].
  exists q. split_and!; try done.
  - apply negb_false_iff in Eu. destruct uid; [by left|right]. by destruct (str_eqb_spec (a :: uid) (pd_uid q)).
  - apply negb_false_iff in En. by destruct (pd_node q).
Qed.

(** the truth object at [key] gets a node and IPs that are allocated to its key for its UID *)
Lemma winv_bound w key q l node ips :
  WInv w → w_pods w !! key = Some q → w_lister w !! key = Some l → pd_uid q = pd_uid l →
  (∀ x, x ∈ ips → ∃ e, i_alloc (w_ipam w) !! x = Some e ∧ e_key e = pod_key l ∧ e_uid e = pd_uid l) →
  (∀ x e, i_alloc (w_ipam w) !! x = Some e → e_key e = pod_key l → e_uid e = [] ∨ e_uid e = pd_uid l) →
  WInv (set_pods w (<[key := bound_pod q node ips]> (w_pods w))).
Proof.
  intros HW Hq Hl Hu Hips Hall. destruct (wi_pods w HW key q Hq) as [Hqk Hqwf].
  destruct (same_static_key _ _ (wi_static w HW key q l Hq Hl Hu)) as (Hkey & _ & _).
  split; cbn [set_pods w_ipam w_pods w_lister w_queue].
  - apply (wi_ipam w HW).
  - intros k p Hp. destruct (decide (k = key)) as [->|Hne].
    + rewrite lookup_insert in Hp. inversion Hp; subst. split; [done|by apply bound_pod_wf].
    + rewrite lookup_insert_ne in Hp by done. by apply (wi_pods w HW).
  - apply (wi_lister w HW).
  - eapply Forall_impl; [apply (wi_queue w HW)|]. intros e [Hewf He]. split; [done|]. intros p Hp Hpu.
    destruct (decide (pk e = key)) as [Hek|Hne].
    + rewrite Hek, lookup_insert in Hp. inversion Hp; subst p. rewrite <- Hek in Hq. apply (He q Hq Hpu).
    + rewrite lookup_insert_ne in Hp by done. by apply He.
  - intros k p l' Hp Hl' Hpu. destruct (decide (k = key)) as [->|Hne].
    + rewrite lookup_insert in Hp. inversion Hp; subst p. apply (wi_static w HW key q l' Hq Hl' Hpu).
    + rewrite lookup_insert_ne in Hp by done. by apply (wi_static w HW k).
  - intros k p Hp Hpi. destruct (decide (k = key)) as [->|Hne].
    + rewrite lookup_insert in Hp. inversion Hp; subst p. exists l. split; [done|]. by symmetry.
    + rewrite lookup_insert_ne in Hp by done. by apply (wi_seen w HW k).
  - intros k p Hp Hlb. destruct (decide (k = key)) as [->|Hne].
    + rewrite lookup_insert in Hp. inversion Hp; subst p.
      assert (pod_key (bound_pod q node ips) = pod_key l) as Hk by (rewrite <- Hkey; reflexivity).
      split; rewrite Hk; cbn [bound_pod pd_ips pd_uid]; rewrite Hu; [exact Hips|exact Hall].
    + rewrite lookup_insert_ne in Hp by done. by apply (wi_owned w HW k).
Qed.

(** ** the allocation step of Bind *)
Definition somes (slots : list (option N)) : list N :=
  List.concat (map (fun s => match s with Some x => [x] | None => [] end) slots).

Lemma elem_of_somes x slots : x ∈ somes slots ↔ Some x ∈ slots.
Proof.
  unfold somes. induction slots as [|[y|] slots IH]; simpl.
  - split; intros H; inversion H.
  - rewrite !elem_of_cons, IH. split; (intros [H|H]; [left; congruence|by right]).
  - rewrite elem_of_cons, IH. split; [by right|]. intros [H|H]; [discriminate|done].
Qed.

Lemma existsb_eqb_elem x (l : list N) : x ∈ l → existsb (N.eqb x) l = true.
Proof. intros H. apply existsb_exists. exists x. split; [by apply elem_of_list_In|apply N.eqb_refl]. Qed.

(** adding candidates can only put a NEW candidate into a slot *)
Lemma first_in_ranges_mono (f f' : N → bool) : (∀ y, f y = true → f' y = true) →
  ∀ rs fuel x, first_in_ranges f' fuel rs = Some (Some x) → f x = true → first_in_ranges f fuel rs = Some (Some x).
Proof.
  intros Hff. induction rs as [|r rs IH]; intros fuel x H Hx; simpl in H; [discriminate|]. simpl.
  assert (∀ fuel cur,
    (fix go (fuel : nat) (cur : N) {struct fuel} : option (option N) :=
       match fuel with
       | 0%nat => None
       | S fuel' =>
           if cur <=? snd r
           then if f' cur then Some (Some cur)
                else if cur =? snd r then first_in_ranges f' fuel' rs else go fuel' (cur + 1)
           else first_in_ranges f' fuel' rs
       end) fuel cur = Some (Some x) →
    (fix go (fuel : nat) (cur : N) {struct fuel} : option (option N) :=
       match fuel with
       | 0%nat => None
       | S fuel' =>
           if cur <=? snd r
           then if f cur then Some (Some cur)
                else if cur =? snd r then first_in_ranges f fuel' rs else go fuel' (cur + 1)
           else first_in_ranges f fuel' rs
       end) fuel cur = Some (Some x)) as Hgo.
  { clear H fuel. induction fuel as [|fuel IHf]; intros cur H; [discriminate|].
    destruct (cur <=? snd r) eqn:Ele; [|by apply IH].
    destruct (f' cur) eqn:Ef'.
    - inversion H; subst. by rewrite Hx.
    - destruct (f cur) eqn:Ef; [apply Hff in Ef; congruence|].
      destruct (cur =? snd r); [by apply IH|by apply IHf]. }
  by apply Hgo.
Qed.

Lemma by_key_ranges_old s s' key rss x :
  (∀ y e, i_alloc s !! y = Some e → e_key e = key → ∃ e', i_alloc s' !! y = Some e' ∧ e_key e' = key) →
  Some x ∈ by_key_ranges s' key rss → (∃ e, i_alloc s !! x = Some e ∧ e_key e = key) →
  Some x ∈ by_key_ranges s key rss.
Proof.
  intros Hmono Hin (e & He & Hk). unfold by_key_ranges in *.
  apply elem_of_list_fmap in Hin as (rs & Hrs & Hin). apply elem_of_list_fmap. exists rs. split; [|done].
  destruct (first_in_ranges _ (ranges_fuel rs) rs) as [o|] eqn:E1 in Hrs; [|discriminate]. subst o.
  erewrite first_in_ranges_mono; [done| |exact E1|].
  - intros y. simpl. destruct (i_alloc s !! y) as [ey|] eqn:Ey; [|discriminate]. intros Hy.
    destruct (str_eqb_spec (e_key ey) key) as [Hky|]; [|discriminate].
    destruct (Hmono y ey Ey Hky) as (e' & -> & ->). apply str_eqb_refl.
  - simpl. rewrite He, Hk. apply str_eqb_refl.
Qed.

Lemma by_key_ranges_keyed s key rss x : Some x ∈ by_key_ranges s key rss → ∃ e, i_alloc s !! x = Some e ∧ e_key e = key.
Proof.
  unfold by_key_ranges. intros Hin. apply elem_of_list_fmap in Hin as (rs & Hrs & Hin).
  destruct (first_in_ranges _ (ranges_fuel rs) rs) as [o|] eqn:E1 in Hrs; [|discriminate]. subst o.
  apply first_in_ranges_spec in E1 as [Hf _]. simpl in Hf.
  destruct (i_alloc s !! x) as [e|]; [|discriminate]. exists e. split; [done|].
  by destruct (str_eqb_spec (e_key e) key).
Qed.

(** the [alloc_res] expression of [bind_section] *)
Definition bind_alloc (w : world) (key node : str) (rss : list (list range)) (slots : list (option N)) (a : attr)
    (o : oracle) (fl : faults) : option (world * option (list N)) :=
  let i := w_ipam w in
  let reused := List.concat (map (fun s => match s with Some x => [x] | None => [] end) slots) in
  let missing := List.concat (map (fun sr => match fst sr with None => [snd sr] | Some _ => [] end) (combine slots rss)) in
  let need_alloc := match missing, slots with _ :: _, _ => true | _, [] => true | _, _ => false end in
  if need_alloc then
    match w_nodes w !! node with
    | None => Some (w, None)
    | Some nip =>
        match node_subnet i nip with
        | None => Some (w, None)
        | Some sn =>
            match missing with
            | [] => match alloc_in_subnet i key sn a (o_choice o) (bool_decide (f_store fl = Some 0%nat)) with
                    | (i', AOk, Some x) => Some (set_ipam w i', Some [x])
                    | (_, AStuck, _) => None
                    | (_, _, _) => Some (w, None)
                    end
            | _ => match alloc_ranges i key sn missing a (f_store fl) with
                   | (i', AOk, _) =>
                       Some (set_ipam w i', Some (List.concat (map (fun s => match s with Some x => [x] | None => [] end)
                                                                    (by_key_ranges i' key rss))))
                   | (_, AStuck, _) => None
                   | (_, _, _) => Some (w, None)
                   end
            end
        end
    end
  else Some (w, Some reused).

Lemma bind_alloc_spec w key node rss slots a o fl w1 oips :
  Inv2 (w_ipam w) → (rss ≠ [] → slots = by_key_ranges (w_ipam w) key rss) →
  bind_alloc w key node rss slots a o fl = Some (w1, oips) →
  w_pods w1 = w_pods w ∧ w_lister w1 = w_lister w ∧ w_queue w1 = w_queue w ∧ Inv2 (w_ipam w1) ∧
  chg (eq key) key (a_uid a) (w_ipam w) (w_ipam w1) ∧
  (oips = None → w1 = w) ∧
  (∀ ips, oips = Some ips → ∀ x, x ∈ ips →
     existsb (N.eqb x) (somes slots) = true ∨ ∃ e, i_alloc (w_ipam w1) !! x = Some e ∧ e_key e = key ∧ e_uid e = a_uid a).
Proof.
  intros HI Hslots H. unfold bind_alloc in H. cbv zeta in H.
  assert (∀ v, Some (w, v) = Some (w1, oips) → v = None ∨ v = Some (somes slots) →
    w_pods w1 = w_pods w ∧ w_lister w1 = w_lister w ∧ w_queue w1 = w_queue w ∧ Inv2 (w_ipam w1) ∧
    chg (eq key) key (a_uid a) (w_ipam w) (w_ipam w1) ∧ (oips = None → w1 = w) ∧
    (∀ ips, oips = Some ips → ∀ x, x ∈ ips →
       existsb (N.eqb x) (somes slots) = true ∨ ∃ e, i_alloc (w_ipam w1) !! x = Some e ∧ e_key e = key ∧ e_uid e = a_uid a))
    as Hsame.
  { intros v Hv Hvv. inversion Hv; subst. split_and!; try done; [by apply chg_refl|].
    intros ips Hips x Hx. left. destruct Hvv as [?|Hvv]; [congruence|]. apply existsb_eqb_elem. congruence. }
  match type of H with (if ?X then _ else _) = _ => destruct X eqn:Eneed end; [|apply (Hsame _ H); by right].
  destruct (w_nodes w !! node) as [nip|]; [|apply (Hsame _ H); by left].
  destruct (node_subnet (w_ipam w) nip) as [sn|]; [|apply (Hsame _ H); by left].
  match type of H with (match ?X with [] => _ | _ :: _ => _ end) = _ => destruct X as [|rs0 missing'] eqn:Emiss end.
  - destruct (alloc_in_subnet (w_ipam w) key sn a (o_choice o) (bool_decide (f_store fl = Some 0%nat))) as [[i' ra] ox] eqn:Ea.
    pose proof (inv2_alloc_in_subnet (w_ipam w) key sn a (o_choice o) (bool_decide (f_store fl = Some 0%nat)) HI) as HI'.
    rewrite Ea in HI'. simpl in HI'.
    apply alloc_in_subnet_spec in Ea as [(-> & x & -> & Hx & _ & Hal & _)|(Hne & -> & ->)].
    + inversion H; subst; clear H. cbn [set_ipam w_ipam w_pods w_lister w_queue]. split_and!; try done.
      * eapply chg_insert_free; [|exact Hal|done|done]. destruct HI as [HI _]. by apply (inv_disj _ HI).
      * intros ips Hips y Hy. inversion Hips; subst. apply elem_of_list_singleton in Hy as ->. right.
        eexists. rewrite Hal, lookup_insert. done.
    + destruct ra; try done; apply (Hsame _ H); by left.
  - destruct (alloc_ranges (w_ipam w) key sn (rs0 :: missing') a (f_store fl)) as [[i' ra] fresh] eqn:Ea.
    pose proof (inv2_alloc_ranges (w_ipam w) key sn (rs0 :: missing') a (f_store fl) HI) as HI'.
    rewrite Ea in HI'. simpl in HI'.
    assert (rss ≠ []) as Hrss.
    { intros ->. destruct slots; discriminate Emiss. }
    specialize (Hslots Hrss).
    apply alloc_ranges_spec in Ea as [(-> & _ & _ & Hfresh & Hal & _)|(Hne & _)]; [| |by destruct HI].
    + inversion H; subst w1 oips; clear H. cbn [set_ipam w_ipam w_pods w_lister w_queue]. split_and!; try done.
      * intros y. rewrite Hal. destruct (bool_decide (y ∈ fresh)) eqn:Ey; [|by left].
        apply bool_decide_eq_true in Ey. right. eexists. split_and!; try done.
        intros e He. destruct HI as [HI _]. rewrite (inv_disj _ HI y) in He; [done|]. by apply Hfresh.
      * intros ips Hips y Hy. inversion Hips; subst ips; clear Hips. fold (somes (by_key_ranges i' key rss)) in Hy.
        apply elem_of_somes in Hy. destruct (by_key_ranges_keyed _ _ _ _ Hy) as (e & He & Hk).
        rewrite Hal in He. destruct (bool_decide (y ∈ fresh)) eqn:Ey.
        -- right. exists e. inversion He; subst e. rewrite Hal, Ey. done.
        -- left. apply existsb_eqb_elem, elem_of_somes. rewrite Hslots.
           eapply by_key_ranges_old; [|exact Hy|by exists e].
           intros z ez Hz Hkz. rewrite Hal. destruct (bool_decide (z ∈ fresh)); eexists; done.
    + destruct ra; try done; apply (Hsame _ H); by left.
Qed.

(** the stored-UID guard over all IPs of the key *)
Lemma f13_guard i key u :
  existsb (fun x => match i_alloc i !! x with
                    | Some e => negb (Keys.is_empty (e_uid e)) && negb (str_eqb (e_uid e) u)
                    | None => false end) (map fst (by_key i key)) = false →
  ∀ x e, i_alloc i !! x = Some e → e_key e = key → e_uid e = [] ∨ e_uid e = u.
Proof.
  intros Hg x e He Hk. destruct (e_uid e) as [|c s] eqn:Eu; [by left|]. right.
  destruct (str_eqb_spec (c :: s) u) as [|Hne]; [done|]. exfalso.
  assert (existsb (fun x => match i_alloc i !! x with
                    | Some e => negb (Keys.is_empty (e_uid e)) && negb (str_eqb (e_uid e) u)
                    | None => false end) (map fst (by_key i key)) = true) as Ht; [|congruence].
  apply existsb_exists. exists x. split.
  - apply in_map_iff. exists (x, e). split; [done|]. by apply by_key_spec.
  - rewrite He, Eu. simpl. by destruct (str_eqb_spec (c :: s) u).
Qed.

Lemma bind_section_frame w ns name uid node o fl w' r :
  WInv w → uid ≠ [] → bind_section true true w ns name uid node o fl = (w', r) →
  (w' = w ∧ ∀ ips, r ≠ BOk ips) ∨
  ∃ l w2, w_lister w !! (ns, name) = Some l ∧ uid = pd_uid l ∧
    (∀ x e, i_alloc (w_ipam w) !! x = Some e → e_key e = pod_key l → e_uid e = [] ∨ e_uid e = pd_uid l) ∧
    w_pods w2 = w_pods w ∧ w_lister w2 = w_lister w ∧ w_queue w2 = w_queue w ∧ Inv2 (w_ipam w2) ∧
    chg (eq (pod_key l)) (pod_key l) (pd_uid l) (w_ipam w) (w_ipam w2) ∧
    ((w' = w2 ∧ ∀ ips, r ≠ BOk ips) ∨
     ∃ ips w3 out, api_bind w2 (ns, name) uid node ips (f_bind fl =? 1) = (w3, out) ∧
       (∀ x, x ∈ ips → ∃ e, i_alloc (w_ipam w2) !! x = Some e ∧ e_key e = pod_key l ∧ e_uid e = pd_uid l) ∧
       match out with
       | BindOk => w' = w3 ∧ r = BOk ips
       | BindNotFound => w' = set_queue w3 (w_queue w3 ++ [l]) ∧ r = BErr
       | BindFail => w' = w3 ∧ r = BErr
       end).
Proof.
  intros HW Huid H. unfold bind_section in H.
  destruct (w_lister w !! (ns, name)) as [l|] eqn:El; [|left; by inversion H].
  destruct (wi_lister w HW _ _ El) as [Hlk Hlwf].
  cbn [andb] in H.
  match type of H with (if negb ?X then _ else _) = _ => destruct X eqn:Ef2 end; cbn [negb] in H; [|left; by inversion H].
  assert (uid = pd_uid l) as Hul.
  { pose proof (wp_uid l Hlwf) as Hne. destruct uid as [|c u]; [done|]. destruct (pd_uid l) as [|c' u']; [done|].
    by destruct (str_eqb_spec (c :: u) (c' :: u')). }
  cbv zeta in H.
  match type of H with (match ?X with Some _ => _ | None => _ end) = _ => destruct X as [slots|] eqn:Eslots end;
    [|left; by inversion H].
  match type of H with (if ?X then _ else _) = _ => destruct X eqn:Ef13 end; [left; by inversion H|].
  pose proof (f13_guard _ _ _ Ef13) as Hf13. clear Ef13.
  assert (pd_ranges l ≠ [] → slots = by_key_ranges (w_ipam w) (pod_key l) (pd_ranges l)) as Hslots.
  { intros Hr. destruct (pd_ranges l); [done|]. by inversion Eslots. }
  set (a := {| a_policy := policy_of l; a_node := node; a_uid := pd_uid l |}) in *.
  change (match bind_alloc w (pod_key l) node (pd_ranges l) slots a o fl with
          | Some (w1, Some ips) =>
              match assign_loop w1 (pod_key l) node a ips (somes slots) 0 0 fl with
              | (w2, SOk) =>
                  match api_bind w2 (ns, name) uid node ips (f_bind fl =? 1) with
                  | (w3, BindOk) => (w3, BOk ips)
                  | (w3, BindNotFound) => (set_queue w3 (w_queue w3 ++ [l]), BErr)
                  | (w3, BindFail) => (w3, BErr)
                  end
              | (w2, _) => (w2, BErr)
              end
          | Some (w1, None) => (w1, BErr)
          | None => (w, BStuck)
          end = (w', r)) in H.
  destruct (bind_alloc w (pod_key l) node (pd_ranges l) slots a o fl) as [[w1 oips]|] eqn:Ealloc; [|left; by inversion H].
  apply bind_alloc_spec in Ealloc as (Ep1 & El1 & Eq1 & HI1 & Hc1 & Hnone & Hips); [|apply (wi_ipam w HW)|done].
  destruct oips as [ips|]; [|left; rewrite (Hnone eq_refl) in H; by inversion H].
  specialize (Hips ips eq_refl). clear Hnone. right.
  destruct (assign_loop w1 (pod_key l) node a ips (somes slots) 0 0 fl) as [w2 r2] eqn:Eloop.
  apply assign_loop_frame in Eloop as (Ep2 & El2 & Eq2 & HI2 & Hc2 & Hok).
  exists l, w2.
  refine (conj eq_refl (conj Hul (conj Hf13 (conj _ (conj _ (conj _ (conj _ (conj _ _))))))));
    [congruence|congruence|congruence|auto|by eapply chg_trans|].
  destruct r2; [|left; by inversion H..]. right.
  destruct (api_bind w2 (ns, name) uid node ips (f_bind fl =? 1)) as [w3 out] eqn:Ebind.
  exists ips, w3, out. split_and!; [done| |destruct out; by inversion H].
  intros x Hx. destruct (Hips x Hx) as [Hr|(e & He & Hk & Hu)].
  - by apply Hok.
  - by eapply chg_keeps.
Qed.

(** the world before pods/binding satisfies the invariant, and the guard still holds there *)
Lemma bind_pre_winv w w2 l k :
  WInv w → w_lister w !! k = Some l →
  (∀ x e, i_alloc (w_ipam w) !! x = Some e → e_key e = pod_key l → e_uid e = [] ∨ e_uid e = pd_uid l) →
  w_pods w2 = w_pods w → w_lister w2 = w_lister w → w_queue w2 = w_queue w → Inv2 (w_ipam w2) →
  chg (eq (pod_key l)) (pod_key l) (pd_uid l) (w_ipam w) (w_ipam w2) →
  WInv w2 ∧ (∀ x e, i_alloc (w_ipam w2) !! x = Some e → e_key e = pod_key l → e_uid e = [] ∨ e_uid e = pd_uid l).
Proof.
  intros HW El Hf13 Ep Ell Eq HI Hc. split.
  - apply (winv_same w w2 HW Ep Ell Eq HI). intros k' q Hq Hlb.
    destruct (wi_pods w HW k' q Hq) as [Hqk Hqwf].
    eapply owned_chg; [by eapply wi_owned|exact Hc|done|].
    intros Hk. destruct (wi_owned w HW k' q Hq Hlb) as [Ho1 _]. destruct Hlb as [_ Hips].
    destruct (pd_ips q) as [|x ips'] eqn:Eips; [done|]. destruct (Ho1 x) as (e & He & Hke & Hue); [left|].
    destruct (Hf13 x e He) as [Hu|Hu]; [congruence| |congruence]. rewrite Hue in Hu. exfalso. by apply (wp_uid q Hqwf).
  - intros x e He Hk. destruct (Hc x) as [E|(e' & He' & Hk' & Hu' & _)].
    + rewrite E in He. by eapply Hf13.
    + right. congruence.
Qed.

Lemma winv_bind w ns name uid node o fl : WInv w → uid ≠ [] → WInv (pstep w (PBind ns name uid node o fl)).1.
Proof.
  intros HW Huid. cbn [pstep]. destruct (bind_section true true w ns name uid node o fl) as [w' r] eqn:E.
  assert (WInv w') as HW'; [|by destruct r].
  apply bind_section_frame in E as [[-> _]|(l & w2 & El & Hul & Hf13 & Ep & Ell & Eq & HI & Hc & Hrest)]; [done| |done|done].
  destruct (bind_pre_winv w w2 l _ HW El Hf13 Ep Ell Eq HI Hc) as [HW2 Hf13'].
  destruct (wi_lister w HW _ _ El) as [Hlk Hlwf].
  destruct Hrest as [[-> _]|(ips & w3 & out & Ebind & Hips & Hout)]; [done|].
  apply api_bind_cases in Ebind. destruct out.
  - destruct Ebind as (q & Hq & Hu & Hnode & ->). destruct Hout as [-> _].
    apply (winv_bound w2 (ns, name) q l node ips HW2 Hq); [by rewrite Ell|destruct Hu; congruence|done|done].
  - destruct Ebind as [-> Hnone]. destruct Hout as [-> _].
    destruct HW2 as [H1 H2 H3 H4 H5 H6 H7]. split; cbn [set_queue w_ipam w_pods w_lister w_queue]; try done.
    apply Forall_app. split; [done|]. constructor; [|done]. split; [done|]. intros p Hp. rewrite Hlk in Hp. congruence.
  - destruct Hout as [-> _]. by subst.
Qed.

Lemma bind_ok_owned w ns name uid node o fl w' ips : WInv w → uid ≠ [] →
  bind_section true true w ns name uid node o fl = (w', BOk ips) →
  ∃ q, w_pods w' !! (ns, name) = Some q ∧ pd_uid q = uid ∧ pd_node q = node ∧ pd_ips q = ips ∧
       ∀ x, x ∈ ips → ∃ e, i_alloc (w_ipam w') !! x = Some e ∧ e_key e = pod_key q ∧ e_uid e = uid.
Proof.
  intros HW Huid E.
  apply bind_section_frame in E as [[_ Hno]|(l & w2 & El & Hul & Hf13 & Ep & Ell & Eq & HI & Hc & Hrest)];
    [by destruct (Hno ips)| |done|done].
  destruct (bind_pre_winv w w2 l _ HW El Hf13 Ep Ell Eq HI Hc) as [HW2 Hf13'].
  destruct Hrest as [[_ Hno]|(ips' & w3 & out & Ebind & Hips & Hout)]; [by destruct (Hno ips)|].
  apply api_bind_cases in Ebind. destruct out; [|by destruct Hout..].
  destruct Ebind as (q & Hq & Hu & Hnode & ->). destruct Hout as [-> Hr]. inversion Hr; subst ips'; clear Hr.
  assert (pd_uid q = pd_uid l) as Hql by (destruct Hu; congruence).
  assert (w_lister w2 !! (ns, name) = Some l) as El2 by (by rewrite Ell).
  destruct (same_static_key _ _ (wi_static w2 HW2 _ q l Hq El2 Hql)) as (Hkey & _ & _).
  exists (bound_pod q node ips). cbn [set_pods w_pods w_ipam]. rewrite lookup_insert. split_and!; try done; [cbn [bound_pod pd_uid]; congruence|].
  intros x Hx. destruct (Hips x Hx) as (e & He & Hk & Hue). exists e. split_and!; [done| |congruence].
  rewrite Hk, <- Hkey. reflexivity.
Qed.

Print Assumptions winv_filter.
Print Assumptions winv_bind.
Print Assumptions bind_ok_owned.
