(** C03 - "IPs are released exactly when the release policy says so" - for the scheduler-plugin model
    (Model/Plugin.v).

    The SPECIFICATION ([verdict], [policy_verdict], [licence], [resync_pass], [sts_named]) is written from the
    property text, not from the control flow of [unbind_dp] / [unbind_nondp]; the lemmas of this file relate the two.
    Property theorems are in Props/C03.v. *)
From Coq Require Import String Ascii.
From stdpp Require Import gmap.
From Galaxy.Base Require Import Strs.
From Galaxy.Model Require Import Nets Pool Ipam Plugin.
From Galaxy.Model Require Keys.
From Galaxy.Proofs Require Import KeysP IpamP PluginInv PluginInvL PluginKeyFacts PluginIpamFacts PluginEnvP PluginUnbindP PluginBindP PluginP.
Local Open Scope N_scope.

(** * 1. Specification *)

(** what the release policy demands for the IPs of a key whose pod is gone *)
Inductive verdict := MustFree | KeepForPod | KeepForApp.
Global Instance verdict_eq_dec : EqDecision verdict. Proof. solve_decision. Defined.

(** the number of IPs the application (or the named pool) of key [k] holds: every IP whose key starts with the
    application's prefix ("dp_ns_app_", or "pool__name_" for a named pool) *)
Definition app_ip_count (w : world) (k : Keys.keyobj) : N :=
  N.of_nat (List.length (by_prefix (w_ipam w) (Keys.pool_prefix k))).

(** the ordinal of a statefulset pod: the number after the last '-' of its name *)
Definition pod_ordinal (name : str) : option N :=
  if contains_char "-"%char name then pod_index name else None.

(** [pol] = the release policy in force (0 default, 1 immutable, 2 never; any other code means default).
    - default: free.
    - never: keep - statefulset pods and bare pods with an ordinal keep the IP for the pod, deployments for the
      application (any pod of the deployment / pool may take it over).  A bare pod without ordinal cannot reserve.
    - immutable statefulset: keep while the statefulset exists and the pod's ordinal is below its replicas.
    - immutable deployment: keep while the deployment exists with replicas > 0 and the application holds no more
      IPs than replicas. *)
Definition policy_verdict (w : world) (k : Keys.keyobj) (pol : N) : verdict :=
  if ko_is_dp k then
    if pol =? 2 then KeepForApp
    else if pol =? 1 then
      match w_dps w !! (Keys.ko_ns k, Keys.ko_app k) with
      | None => MustFree
      | Some r => if (r =? 0) || (r <? app_ip_count w k) then MustFree else KeepForApp
      end
    else MustFree
  else if ko_is_sts k then
    if pol =? 2 then KeepForPod
    else if pol =? 1 then
      match w_sts w !! (Keys.ko_ns k, Keys.ko_app k) with
      | None => MustFree
      | Some r => match pod_ordinal (Keys.ko_pod k) with
                  | Some idx => if idx <? r then KeepForPod else MustFree
                  | None => KeepForPod           (* no ordinal: cannot be "scaled below" *)
                  end
      end
    else MustFree
  else
    if (pol =? 2) && bool_decide (is_Some (pod_index (Keys.ko_pod k))) then KeepForPod else MustFree.

(** statefulset pods are named <statefulset>-<ordinal> *)
Definition sts_named (name : str) : Prop :=
  ∃ base ds, name = (base ++ "-"%char :: ds)%list ∧ ds ≠ [] ∧ all_digits ds = true.

(** the IP [x] is no longer allocated under key [K] *)
Definition lost (i' : ipam) (x : N) (K : str) : Prop := ∀ e', i_alloc i' !! x = Some e' → e_key e' ≠ K.

(** what may have happened to an IP of pod [q] that is no longer under the pod's key, by the verdict: it is free
    and the verdict was [MustFree], or it is parked (uid cleared) under the application / pool prefix and the
    verdict was [KeepForApp] *)
Definition verdict_allows (w : world) (q : pod) (pol : N) (x : N) (i' : ipam) : Prop :=
  match i_alloc i' !! x with
  | None => policy_verdict w (keyobj_of q) pol = MustFree
  | Some e' => e_key e' = Keys.pool_prefix (keyobj_of q) ∧ e_uid e' = [] ∧
               policy_verdict w (keyobj_of q) pol = KeepForApp
  end.

(** the licences for taking the IP [x] away from the key of pod [q] in step [o] from world [w]; [i'] = the
    allocation state after the step *)
Inductive licence (w : world) (o : pop) (x : N) (q : pod) (i' : ipam) : Prop :=
| lic_api k ocl fl e :
    o = PApiRelease k x ocl fl → Keys.ko_key k = pod_key q → i_alloc (w_ipam w) !! x = Some e →
    pod_running w (pd_ns q) (pd_name q) (e_uid e) = false → i_alloc i' !! x = None →
    licence w o x q i'
| lic_reload conf lf ps :
    o = PIpam (OConfigure conf lf []) → decode_pools conf = Some ps → configured ps x = false → licence w o x q i'
| lic_restart conf ps :
    o = PRestart conf → decode_pools conf = Some ps → configured ps x = false → licence w o x q i'
| lic_event n orc oun fl qe :
    o = PEvent n orc oun fl → w_queue w !! n = Some qe → pod_key qe = pod_key q →
    (∀ p, w_pods w !! pk qe = Some p → pd_uid p = pd_uid qe → finished p = true) →
    (policy_of qe ≤ 2 → verdict_allows w q (policy_of qe) x i') →
    licence w o x q i'
| lic_resync x0 orc ocl fl e0 :
    o = PResync x0 orc ocl fl → i_alloc (w_ipam w) !! x0 = Some e0 → e_key e0 = pod_key q →
    pod_running w (pd_ns q) (pd_name q) (e_uid e0) = false →
    (e_policy e0 ≤ 2 → verdict_allows w q (e_policy e0) x i') →
    licence w o x q i'.

(** [e'] is [e] parked under key [newk]: node and uid cleared, stored policy kept *)
Definition cleared (e e' : entry) (newk : str) : Prop :=
  e_key e' = newk ∧ e_uid e' = [] ∧ e_node e' = [] ∧ e_policy e' = e_policy e.

(** one resync pass: [resync_section] for every IP of [items], no injected fault, valid oracles *)
Inductive resync_pass : world → list N → world → Prop :=
| rp_nil w : resync_pass w [] w
| rp_cons w ip items o ocl w1 r w' :
    resync_section w ip o ocl no_faults = (w1, r) → r ≠ SStuck → resync_pass w1 items w' →
    resync_pass w (ip :: items) w'.

(** * 2. Strings: the ordinal read off a key is the ordinal of the pod name *)
Definition last_seg (c : ascii) (s : str) : str := hd [] (rev (split c s)).
Definition idx_of_seg (last : str) : option N :=
  match last with
  | [] => None
  | c :: r => let ds := if Ascii.eqb c "+"%char then r else last in
              match ds with [] => None | _ => if all_digits ds then Some (dec_val ds) else None end
  end.

Lemma pod_index_seg s : pod_index s = idx_of_seg (last_seg "-"%char s).
Proof. unfold pod_index, last_seg. destruct (rev (split "-"%char s)) as [|l r]; reflexivity. Qed.

Lemma split_aux_nonempty c s : ∀ cur, split_aux c s cur ≠ [].
Proof. induction s as [|x s IH]; intros cur; simpl; [done|]. destruct (Ascii.eqb x c); [done|apply IH]. Qed.

Lemma hd_rev_cons {A} (d y : A) l : l ≠ [] → hd d (rev (y :: l)) = hd d (rev l).
Proof.
  intros Hl. simpl. destruct (rev l) as [|z r] eqn:E; [|done].
  apply (f_equal (@rev A)) in E. rewrite rev_involutive in E. done.
Qed.

Lemma last_seg_aux c s : ∀ cur,
  hd [] (rev (split_aux c s cur)) = if contains_char c s then hd [] (rev (split_aux c s [])) else (rev cur ++ s)%list.
Proof.
  induction s as [|x s IH]; intros cur.
  - simpl. by rewrite app_nil_r.
  - cbn [split_aux contains_char existsb]. rewrite (Ascii.eqb_sym c x). destruct (Ascii.eqb x c) eqn:Ex; cbn [orb].
    + rewrite !hd_rev_cons by apply split_aux_nonempty. done.
    + fold (contains_char c s). rewrite (IH (x :: cur)), (IH [x]).
      destruct (contains_char c s); [done|]. simpl. by rewrite <- app_assoc.
Qed.

Lemma last_seg_app_aux c b a : ∀ cur,
  hd [] (rev (split_aux c (a ++ b) cur)) =
  if contains_char c b then last_seg c b else (hd [] (rev (split_aux c a cur)) ++ b)%list.
Proof.
  induction a as [|x a IH]; intros cur.
  - cbn [app split_aux rev hd]. rewrite last_seg_aux. done.
  - cbn [app split_aux]. destruct (Ascii.eqb x c).
    + rewrite !hd_rev_cons by apply split_aux_nonempty. apply IH.
    + apply IH.
Qed.

Lemma last_seg_app c a b :
  last_seg c (a ++ b) = if contains_char c b then last_seg c b else (last_seg c a ++ b)%list.
Proof. apply last_seg_app_aux. Qed.

Lemma pod_index_suffix pfx name : contains_char "-"%char name = true → pod_index (pfx ++ name) = pod_index name.
Proof. intros H. by rewrite !pod_index_seg, last_seg_app, H. Qed.

Lemma idx_of_seg_us l r : idx_of_seg (l ++ Keys.us :: r) = None.
Proof.
  assert (∀ l, all_digits (l ++ Keys.us :: r) = false) as Hd.
  { intros l0. unfold all_digits. rewrite forallb_app. cbn [forallb]. replace (is_digit Keys.us) with false by reflexivity.
    cbn [andb]. apply andb_false_r. }
  destruct l as [|c l]; cbn [app idx_of_seg].
  - replace (Ascii.eqb Keys.us "+"%char) with false by reflexivity. pose proof (Hd []) as H0. cbn [app] in H0. by rewrite H0.
  - destruct (Ascii.eqb c "+"%char).
    + rewrite Hd. by destruct l.
    + pose proof (Hd (c :: l)) as H0. cbn [app] in H0. by rewrite H0.
Qed.

Lemma pod_index_no_dash pfx name : contains_char "-"%char name = false → pod_index (pfx ++ Keys.us :: name) = None.
Proof.
  intros H. rewrite pod_index_seg, last_seg_app. cbn [contains_char existsb].
  replace (Ascii.eqb "-"%char Keys.us) with false by reflexivity. cbn [orb]. fold (contains_char "-"%char name).
  rewrite H. apply idx_of_seg_us.
Qed.

Lemma pod_key_tail p : wf_pod p → ∃ pfx, pod_key p = (pfx ++ Keys.us :: pd_name p)%list.
Proof.
  intros W. rewrite (pod_key_shape p W).
  exists (Keys.pool_part (pd_pool p) ++ type_prefix (pd_kind p) ++ pd_ns p ++ Keys.us :: app_of p)%list.
  rewrite <- !app_assoc. cbn [app]. by rewrite <- ?app_assoc.
Qed.

(** the number the code reads off the key is the ordinal of the pod name *)
Lemma pod_index_pod_key p : wf_pod p → pod_index (pod_key p) = pod_ordinal (pd_name p).
Proof.
  intros W. destruct (pod_key_tail p W) as [pfx ->]. unfold pod_ordinal.
  destruct (contains_char "-"%char (pd_name p)) eqn:E.
  - replace (pfx ++ Keys.us :: pd_name p)%list with ((pfx ++ [Keys.us]) ++ pd_name p)%list by (by rewrite <- app_assoc).
    by rewrite pod_index_suffix.
  - by rewrite pod_index_no_dash.
Qed.

Lemma sts_named_index name : sts_named name →
  contains_char "-"%char name = true ∧ ∃ n, pod_index name = Some n.
Proof.
  intros (base & ds & -> & Hne & Hd). split.
  - unfold contains_char. rewrite existsb_app. cbn [existsb]. rewrite Ascii.eqb_refl. cbn [orb]. apply orb_true_r.
  - exists (dec_val ds). rewrite pod_index_seg. unfold last_seg. rewrite split_app_sep.
    assert (free "-"%char ds) as Hf.
    { intros Hin. unfold all_digits in Hd. rewrite forallb_forall in Hd. by specialize (Hd _ Hin). }
    rewrite (split_free _ _ Hf), rev_app_distr. cbn [rev app hd].
    destruct ds as [|c r]; [done|]. cbn [idx_of_seg].
    assert (Ascii.eqb c "+"%char = false) as ->.
    { destruct (Ascii.eqb_spec c "+"%char) as [->|]; [|done]. cbn in Hd. done. }
    by rewrite Hd.
Qed.

Lemma sts_named_key_index p : wf_pod p → sts_named (pd_name p) → ∃ n, pod_index (pod_key p) = Some n.
Proof.
  intros W Hn. destruct (sts_named_index _ Hn) as [Hc [n Hi]]. exists n.
  rewrite (pod_index_pod_key p W). unfold pod_ordinal. by rewrite Hc.
Qed.

(** * 3. Building blocks *)

(** the parts of the world that a release-side section never changes *)
Definition same_env (w w' : world) : Prop :=
  w_pods w' = w_pods w ∧ w_lister w' = w_lister w ∧ w_queue w' = w_queue w ∧ w_sts w' = w_sts w ∧ w_dps w' = w_dps w ∧
  w_poolobjs w' = w_poolobjs w ∧ w_provider w' = w_provider w ∧ w_nodes w' = w_nodes w.

Lemma same_env_refl w : same_env w w.
Proof. by repeat split. Qed.
Lemma same_env_trans w1 w2 w3 : same_env w1 w2 → same_env w2 w3 → same_env w1 w3.
Proof. intros (?&?&?&?&?&?&?&?) (?&?&?&?&?&?&?&?). repeat split; congruence. Qed.
Lemma same_env_set_ipam w i : same_env w (set_ipam w i).
Proof. by repeat split. Qed.
Lemma same_env_cloud_unassign w x n : same_env w (cloud_unassign w x n).
Proof. by repeat split. Qed.

Lemma pod_running_env w w' ns name u : same_env w w' → pod_running w' ns name u = pod_running w ns name u.
Proof. intros (Hp & Hl & _). unfold pod_running. by rewrite Hp, Hl. Qed.

(** the verdict depends on the world only through the workloads and the keys of the allocation table *)
Definition same_keys (i i' : ipam) : Prop := ∀ y, e_key <$> (i_alloc i' !! y) = e_key <$> (i_alloc i !! y).

Lemma same_keys_refl i : same_keys i i.
Proof. done. Qed.
Lemma same_keys_eq i i' : i_alloc i' = i_alloc i → same_keys i i'.
Proof. intros E y. by rewrite E. Qed.

Lemma in_by_prefix_fst i P x :
  x ∈ map fst (by_prefix i P) ↔ ∃ e, i_alloc i !! x = Some e ∧ has_prefix P (e_key e) = true.
Proof.
  rewrite elem_of_list_fmap. split.
  - intros ([y e] & -> & Hin). apply elem_of_list_In, by_prefix_spec in Hin. by exists e.
  - intros (e & He & Hp). exists (x, e). split; [done|]. apply elem_of_list_In, by_prefix_spec. done.
Qed.

Lemma by_prefix_len_same_keys i i' P : same_keys i i' →
  List.length (by_prefix i' P) = List.length (by_prefix i P).
Proof.
  intros Hk. rewrite <- (map_length fst (by_prefix i' P)), <- (map_length fst (by_prefix i P)).
  apply Permutation_length, NoDup_Permutation; [apply by_prefix_nodup|apply by_prefix_nodup|].
  intros x. rewrite !in_by_prefix_fst. specialize (Hk x). split.
  - intros (e & He & Hp). rewrite He in Hk. destruct (i_alloc i !! x) as [e0|]; [|done].
    exists e0. split; [done|]. cbn in Hk. congruence.
  - intros (e & He & Hp). rewrite He in Hk. destruct (i_alloc i' !! x) as [e0|]; [|done].
    exists e0. split; [done|]. cbn in Hk. congruence.
Qed.

Lemma verdict_ext w w' k pol :
  w_sts w' = w_sts w → w_dps w' = w_dps w → same_keys (w_ipam w) (w_ipam w') →
  policy_verdict w' k pol = policy_verdict w k pol.
Proof.
  intros Hs Hd Hk. unfold policy_verdict, app_ip_count. by rewrite Hs, Hd, (by_prefix_len_same_keys _ _ _ Hk).
Qed.

Lemma verdict_pod_ext w w' k pol :
  w_sts w' = w_sts w → policy_verdict w k pol = KeepForPod → policy_verdict w' k pol = KeepForPod.
Proof.
  intros Hs. unfold policy_verdict. rewrite Hs. destruct (ko_is_dp k); [|done].
  destruct (pol =? 2); [done|]. destruct (pol =? 1); [|done].
  destruct (w_dps w !! _); [|done]. by destruct (_ || _).
Qed.

(** ** without an injected fault the store calls of ReserveIP / ReleaseIPs cannot fail *)
Lemma reserve_loop_noerr oldk newk a t order : ∀ s s' r, Inv2 s →
  reserve_loop s oldk newk a t order None = (s', r) → r = AOk ∨ r = AStuck.
Proof.
  induction order as [|ip rest IH]; intros s s' r Hi H; cbn [reserve_loop] in H.
  - left. by inversion H.
  - destruct (i_alloc s !! ip) as [e|] eqn:He; [|right; by inversion H].
    destruct (reserve_needed oldk newk a e); [|right; by inversion H].
    match type of H with (match ?X with _ => _ end) = _ => destruct X as [s1|] eqn:Eu end.
    + eapply IH; [|exact H]. eapply inv2_update_both; eauto.
    + exfalso. unfold update_both, st_update in Eu. destruct (inv2_alloc_store s ip e Hi He) as (o & Ho & _).
      rewrite Ho in Eu. done.
Qed.

Lemma reserve_ip_noerr s oldk newk a order s' r : Inv2 s →
  reserve_ip s oldk newk a order None = (s', r) → r = AOk ∨ r = AStuck.
Proof.
  intros Hi. unfold reserve_ip.
  destruct (reserve_loop s oldk newk a (i_clock s) order None) as [s1 r1] eqn:El.
  destruct (reserve_loop_noerr _ _ _ _ _ _ _ _ Hi El) as [-> | ->]; cbn [fst snd].
  - destruct (bool_decide _); [|intros [= _ <-]; by right].
    destruct (bool_decide _); intros [= _ <-]; [by left|by right].
  - destruct (bool_decide _); intros [= _ <-]; by right.
Qed.

Lemma release_loop_noerr m order : ∀ s s' r, Inv2 s →
  release_loop s m order None = (s', r) → r = AOk ∨ r = AStuck.
Proof.
  induction order as [|ip rest IH]; intros s s' r Hi H; cbn [release_loop] in H.
  - left. by inversion H.
  - destruct (i_alloc s !! ip) as [e|] eqn:He; [|right; by inversion H].
    destruct (List.find _ m) as [[z k]|]; [|right; by inversion H].
    destruct (str_eqb (e_key e) k); [|right; by inversion H].
    destruct (delete_both s ip false) as [s1|] eqn:Eu.
    + eapply IH; [|exact H]. eapply inv2_delete_both; eauto.
    + exfalso. unfold delete_both, st_delete in Eu. destruct (inv2_alloc_store s ip e Hi He) as (o & Ho & _).
      rewrite Ho in Eu. done.
Qed.

Lemma release_ips_noerr s m order s' r : Inv2 s →
  release_ips s m order None = (s', r) → r = AOk ∨ r = AStuck.
Proof.
  intros Hi. unfold release_ips.
  destruct (release_loop s m order None) as [s1 r1] eqn:El.
  destruct (release_loop_noerr _ _ _ _ _ Hi El) as [-> | ->]; cbn [fst snd].
  - destruct (bool_decide _); [|intros [= _ <-]; by right].
    destruct (bool_decide _); intros [= _ <-]; [by left|by right].
  - destruct (bool_decide _); intros [= _ <-]; by right.
Qed.

(** ** ReserveIP with the empty attribute *)
Lemma cleared_assign e newk t :
  cleared e (assign e newk {| a_policy := e_policy e; a_node := a_node free_entry_attr; a_uid := a_uid free_entry_attr |} t) newk.
Proof. done. Qed.

Lemma reserve_ip_cleared s K newk order nfail s' r : reserve_ip s K newk free_entry_attr order nfail = (s', r) →
  ∀ y, i_alloc s' !! y = i_alloc s !! y ∨
       ∃ e e', i_alloc s !! y = Some e ∧ e_key e = K ∧ i_alloc s' !! y = Some e' ∧ cleared e e' newk.
Proof.
  intros Er y. destruct (reserve_ip_spec _ _ _ _ _ _ _ _ Er) as (_ & _ & Hy).
  destruct (Hy y) as [E|(e & t & He & Hk & He')]; [by left|]. right. eexists e, _. split_and!; try done.
Qed.

Lemma reserve_ip_cleared_all s K newk order s' r : Inv2 s →
  reserve_ip s K newk free_entry_attr order None = (s', r) → r ≠ AStuck →
  ∀ y e, i_alloc s !! y = Some e → e_key e = K → ∃ e', i_alloc s' !! y = Some e' ∧ cleared e e' newk.
Proof.
  intros Hi Er Hns y e He Hk.
  destruct (reserve_ip_noerr _ _ _ _ _ _ _ Hi Er) as [-> | ->]; [|done].
  destruct (reserve_needed K newk free_entry_attr e) eqn:En.
  - destruct (reserve_ip_complete _ _ _ _ _ _ Er y e He En) as [t Ht]. eexists. split; [exact Ht|done].
  - destruct (reserve_ip_cleared _ _ _ _ _ _ _ Er y) as [E|(e0 & e' & He0 & _ & He' & Hc)].
    + exists e. split; [congruence|]. unfold reserve_needed in En. rewrite Hk, str_eqb_refl in En. cbn [andb] in En.
      apply negb_false_iff in En. apply andb_true_iff in En as [En Hn]. apply andb_true_iff in En as [Ekk Hu].
      apply KeysP.str_eqb_eq in Ekk, Hu, Hn. cbn in Hu, Hn. split_and!; congruence.
    + exists e'. split; [done|]. congruence.
Qed.

(** ** releaseIP key / reserveIP key prefix *)
Lemma release_key_complete w K o fl w' r :
  Inv2 (w_ipam w) → f_store fl = None → release_key w K o fl = (w', r) → r ≠ SStuck →
  ∀ y e, i_alloc (w_ipam w) !! y = Some e → e_key e = K → i_alloc (w_ipam w') !! y = None.
Proof.
  intros Hi Hf. unfold release_key. intros H Hr y e He Hk.
  assert (In (y, e) (by_key (w_ipam w) K)) as Hin by (by apply by_key_spec).
  destruct (by_key (w_ipam w) K) as [|kv l] eqn:Ebk; [done|]. rewrite <- Ebk in *. clear Ebk kv l.
  rewrite Hf in H.
  destruct (release_ips (w_ipam w) (map (λ kv : N * entry, (kv.1, K)) (by_key (w_ipam w) K)) (o_order o) None) as [s' ra] eqn:Er.
  cbn [fst snd] in H. injection H as <- <-. cbn [set_ipam w_ipam].
  destruct (release_ips_noerr _ _ _ _ _ Hi Er) as [-> | ->]; [|done].
  eapply (release_ips_complete _ _ _ _ _ Er y e He).
  rewrite Hk. apply in_map_iff. by exists (y, e).
  Unshelve. rewrite map_map. cbn [fst]. apply by_key_nodup.
Qed.

Lemma reserve_key_spec w K newk o fl w' r : reserve_key w K newk o fl = (w', r) →
  w' = set_ipam w (w_ipam w') ∧
  ∀ y, i_alloc (w_ipam w') !! y = i_alloc (w_ipam w) !! y ∨
       ∃ e e', i_alloc (w_ipam w) !! y = Some e ∧ e_key e = K ∧ i_alloc (w_ipam w') !! y = Some e' ∧ cleared e e' newk.
Proof.
  unfold reserve_key.
  destruct (reserve_ip (w_ipam w) K newk free_entry_attr (o_order o) (f_store fl)) as [s' ra] eqn:Er.
  cbn [fst snd]. intros [= <- <-]. split; [done|]. cbn [set_ipam w_ipam]. by eapply reserve_ip_cleared.
Qed.

Lemma reserve_key_complete w K newk o fl w' r :
  Inv2 (w_ipam w) → f_store fl = None → reserve_key w K newk o fl = (w', r) → r ≠ SStuck →
  ∀ y e, i_alloc (w_ipam w) !! y = Some e → e_key e = K → ∃ e', i_alloc (w_ipam w') !! y = Some e' ∧ cleared e e' newk.
Proof.
  intros Hi Hf. unfold reserve_key. rewrite Hf.
  destruct (reserve_ip (w_ipam w) K newk free_entry_attr (o_order o) None) as [s' ra] eqn:Er.
  cbn [fst snd]. intros [= <- <-] Hr. cbn [set_ipam w_ipam]. eapply reserve_ip_cleared_all; [done|exact Er|].
  intros ->. done.
Qed.

(** ** the frame of a release-side change: entries of key [K] are freed, cleared, or parked under [P] *)
Definition rchg (K P : str) (i i' : ipam) : Prop :=
  ∀ y, i_alloc i' !! y = i_alloc i !! y ∨
       ∃ e, i_alloc i !! y = Some e ∧ e_key e = K ∧
            (i_alloc i' !! y = None ∨ ∃ e', i_alloc i' !! y = Some e' ∧ (cleared e e' K ∨ cleared e e' P)).

Lemma rchg_refl K P i : rchg K P i i.
Proof. intros y. by left. Qed.
Lemma rchg_eq K P i i' : i_alloc i' = i_alloc i → rchg K P i i'.
Proof. intros E y. left. by rewrite E. Qed.

Lemma cleared_trans e1 e2 e3 k2 k3 : cleared e1 e2 k2 → cleared e2 e3 k3 → cleared e1 e3 k3.
Proof. intros (?&?&?&?) (?&?&?&?). split_and!; congruence. Qed.

Lemma rchg_trans K P i1 i2 i3 : rchg K P i1 i2 → rchg K P i2 i3 → rchg K P i1 i3.
Proof.
  intros H12 H23 y. destruct (H23 y) as [E23|(e2 & He2 & Hk2 & Hnew)].
  - rewrite E23. apply H12.
  - destruct (H12 y) as [E12|(e1 & He1 & Hk1 & [Hn|(e2' & He2' & Hc)])].
    + right. exists e2. rewrite <- E12. done.
    + congruence.
    + rewrite He2 in He2'. simplify_eq. right. exists e1. split_and!; try done.
      destruct Hnew as [?|(e3 & He3 & Hc3)]; [by left|]. right. exists e3. split; [done|].
      destruct Hc as [Hc|Hc], Hc3 as [Hc3|Hc3]; [left|right|left|right]; by eapply cleared_trans.
Qed.

Lemma release_key_rchg w K P o fl : rchg K P (w_ipam w) (w_ipam (release_key w K o fl).1).
Proof.
  destruct (release_key w K o fl) as [w' r] eqn:E. cbn [fst].
  destruct (release_key_frame _ _ _ _ _ _ E) as [_ Hy]. intros y.
  destruct (Hy y) as [?|(e & He & Hk & Hn)]; [by left|]. right. exists e. split_and!; try done. by left.
Qed.

Lemma reserve_key_rchg w K P newk o fl : newk = K ∨ newk = P → rchg K P (w_ipam w) (w_ipam (reserve_key w K newk o fl).1).
Proof.
  intros Hnk. destruct (reserve_key w K newk o fl) as [w' r] eqn:E. cbn [fst].
  destruct (reserve_key_spec _ _ _ _ _ _ _ E) as [_ Hy]. intros y.
  destruct (Hy y) as [?|(e & e' & He & Hk & He' & Hc)]; [by left|]. right. exists e. split_and!; try done.
  right. exists e'. split; [done|]. destruct Hnk as [-> | ->]; [by left|by right].
Qed.

Lemma release_key_env w K o fl : same_env w (release_key w K o fl).1.
Proof.
  destruct (release_key w K o fl) as [w' r] eqn:E. destruct (release_key_frame _ _ _ _ _ _ E) as [-> _].
  apply same_env_set_ipam.
Qed.
Lemma reserve_key_env w K newk o fl : same_env w (reserve_key w K newk o fl).1.
Proof. apply same_env_set_ipam. Qed.

(** ** unbindDpPod / unbindNoneDpPod *)
Definition unbind_any (w : world) (k : Keys.keyobj) (pol : N) (o : oracle) (fl : faults) : world * sres :=
  if ko_is_dp k then unbind_dp w k pol o fl else unbind_nondp w k pol o fl.

Lemma unbind_any_outcome w k pol o fl :
  unbind_any w k pol o fl = release_key w (Keys.ko_key k) o fl ∨
  unbind_any w k pol o fl = reserve_key w (Keys.ko_key k) (Keys.ko_key k) o fl ∨
  unbind_any w k pol o fl = reserve_key w (Keys.ko_key k) (Keys.pool_prefix k) o fl ∨
  (unbind_any w k pol o fl).1 = w.
Proof.
  unfold unbind_any. destruct (ko_is_dp k).
  - unfold unbind_dp. destruct (pol =? 0); [by left|]. destruct (pol =? 2).
    { destruct (str_eqb _ _); [by right; right; right|by right; right; left]. }
    destruct (_ =? 0); [by left|]. destruct (_ <? _); [by left|].
    destruct (str_eqb _ _); [by right; right; right|by right; right; left].
  - unfold unbind_nondp. destruct (_ || _)%bool; [by left|]. destruct (pol =? 2); [by right; left|].
    destruct (pol =? 1); [|by right; right; right]. destruct (ko_is_sts k); [|by right; right; right].
    destruct (w_sts w !! _); [|by left]. destruct (pod_index _); [|by right; right; right].
    destruct (_ <? _); [by left|by right; left].
Qed.

Lemma unbind_any_frame w k pol o fl : Inv2 (w_ipam w) →
  same_env w (unbind_any w k pol o fl).1 ∧ Inv2 (w_ipam (unbind_any w k pol o fl).1) ∧
  rchg (Keys.ko_key k) (Keys.pool_prefix k) (w_ipam w) (w_ipam (unbind_any w k pol o fl).1).
Proof.
  intros Hi. split_and!.
  - destruct (unbind_any_outcome w k pol o fl) as [-> |[-> |[-> | ->]]];
      [apply release_key_env|apply reserve_key_env|apply reserve_key_env|apply same_env_refl].
  - eapply confined_inv2. apply (unbind_any_confined w k pol o fl Hi).
  - destruct (unbind_any_outcome w k pol o fl) as [-> |[-> |[-> | ->]]];
      [apply release_key_rchg|apply reserve_key_rchg; by left|apply reserve_key_rchg; by right|apply rchg_refl].
Qed.

(** the code's decision is the verdict (a statefulset pod without ordinal: the code does nothing) *)
Lemma unbind_any_cases w k pol o fl :
  pol ≤ 2 → Keys.ko_key k ≠ Keys.pool_prefix k →
  pod_index (Keys.ko_key k) = pod_ordinal (Keys.ko_pod k) →
  match policy_verdict w k pol with
  | MustFree => unbind_any w k pol o fl = release_key w (Keys.ko_key k) o fl
  | KeepForPod => unbind_any w k pol o fl = reserve_key w (Keys.ko_key k) (Keys.ko_key k) o fl ∨
                  (unbind_any w k pol o fl = (w, SErr) ∧ pod_index (Keys.ko_key k) = None ∧ ko_is_sts k = true)
  | KeepForApp => unbind_any w k pol o fl = reserve_key w (Keys.ko_key k) (Keys.pool_prefix k) o fl
  end.
Proof.
  intros Hpol Hkp Hidx.
  assert (pol = 0 ∨ pol = 1 ∨ pol = 2) as Hp by lia.
  unfold policy_verdict, unbind_any, app_ip_count. destruct (ko_is_dp k) eqn:Edp.
  - unfold unbind_dp. destruct (str_eqb_spec (Keys.ko_key k) (Keys.pool_prefix k)) as [?|_]; [done|].
    destruct Hp as [-> |[-> | ->]]; cbn [N.eqb Pos.eqb]; try done.
    destruct (w_dps w !! _) as [r|]; cbn [default from_option id]; [|done].
    destruct (r =? 0); cbn [orb]; [done|]. by destruct (_ <? _).
  - unfold unbind_nondp, supports_policy. rewrite Edp. cbn [orb]. destruct (ko_is_sts k) eqn:Ests.
    + cbn [negb orb]. destruct Hp as [-> |[-> | ->]]; cbn [N.eqb Pos.eqb orb]; try done; [|by left].
      destruct (w_sts w !! _) as [r|]; [|done]. rewrite <- Hidx.
      destruct (pod_index (Keys.ko_key k)) as [idx|] eqn:Ei; [|by right].
      destruct (N.ltb_spec r (idx + 1)), (N.ltb_spec idx r); try done; try lia. by left.
    + destruct (pod_index (Keys.ko_pod k)) as [i|] eqn:Ei.
      * rewrite bool_decide_eq_true_2 by (by eexists).
        destruct Hp as [-> |[-> | ->]]; cbn [N.eqb Pos.eqb orb negb andb]; try done. by left.
      * cbn [negb]. rewrite orb_true_r, andb_false_intro2; [done|]. apply bool_decide_eq_false_2. by intros [? ?].
Qed.

(** * 4. The sections *)
Lemma unassign_loop_env fl order : ∀ w idx,
  same_env w (unassign_loop w order idx fl).1 ∧ w_ipam (unassign_loop w order idx fl).1 = w_ipam w.
Proof.
  induction order as [|x rest IH]; intros w idx; cbn [unassign_loop]; [split; [apply same_env_refl|done]|].
  destruct (i_alloc (w_ipam w) !! x) as [e|]; [|split; [apply same_env_refl|done]].
  destruct (bool_decide _); [split; [apply same_env_refl|done]|].
  destruct (IH (cloud_unassign w x (e_node e)) (S idx)) as [H1 H2]. split; [|by rewrite H2].
  eapply same_env_trans; [apply same_env_cloud_unassign|exact H1].
Qed.

(** a queued pod event: ignored (F1 test), stopped by the provider loop, or the policy decision *)
Lemma unbind_section_cases w q o oun fl :
  (f1_test w q = true ∧ unbind_section true w q o oun fl = (w, SOk)) ∨
  (f1_test w q = false ∧ ∃ w1, same_env w w1 ∧ w_ipam w1 = w_ipam w ∧
     ((∃ r, r ≠ SOk ∧ unbind_section true w q o oun fl = (w1, r)) ∨
      unbind_section true w q o oun fl = unbind_any w1 (keyobj_of q) (policy_of q) o fl)).
Proof.
  unfold unbind_section, f1_test. fold (pod_key q). cbn [andb].
  destruct (existsb _ (by_key (w_ipam w) (pod_key q))) eqn:Et; [by left|]. right. split; [done|].
  match goal with |- ∃ w1, _ ∧ _ ∧ (_ ∨ (match ?r with _ => _ end) = _) => set (r0 := r) end.
  assert (same_env w r0.1 ∧ w_ipam r0.1 = w_ipam w) as [Hr1 Hr2].
  { unfold r0. destruct (w_provider w); [|split; [apply same_env_refl|done]].
    destruct (_ && _ && _)%bool; [apply unassign_loop_env|].
    destruct (f_cloud fl); [|split; [apply same_env_refl|done]].
    destruct (_ && _ && _)%bool; [apply unassign_loop_env|split; [apply same_env_refl|done]]. }
  destruct r0 as [w1 [| |]]; cbn [fst] in *; exists w1; (split; [done|]); (split; [done|]).
  - right. reflexivity.
  - left. by exists SErr.
  - left. by exists SStuck.
Qed.

(** the provider step of a resync item / API release: the entries of the key are cleared in place *)
Definition pre_cleared (w w1 : world) (K : str) : Prop :=
  same_env w w1 ∧
  (w_ipam w1 = w_ipam w ∨
   ∃ ocl ra, ra ≠ AStuck ∧ reserve_ip (w_ipam w) K K free_entry_attr ocl None = (w_ipam w1, ra)).

Lemma pre_cleared_facts w w1 K : Inv2 (w_ipam w) → pre_cleared w w1 K →
  Inv2 (w_ipam w1) ∧ same_keys (w_ipam w) (w_ipam w1) ∧ rchg K K (w_ipam w) (w_ipam w1) ∧
  ∀ y e, i_alloc (w_ipam w) !! y = Some e → e_key e = K →
         ∃ e1, i_alloc (w_ipam w1) !! y = Some e1 ∧ e_key e1 = K ∧ e_policy e1 = e_policy e.
Proof.
  intros Hi [_ [E|(ocl & ra & Hra & Er)]].
  - rewrite E. split_and!; [done|done|apply rchg_refl|]. intros y e He Hk. by exists e.
  - pose proof (reserve_ip_cleared _ _ _ _ _ _ _ Er) as Hy. split_and!.
    + pose proof (inv2_reserve_ip (w_ipam w) K K free_entry_attr ocl None Hi) as H. by rewrite Er in H.
    + intros y. destruct (Hy y) as [->|(e & e' & -> & Hk & -> & Hc)]; [done|]. cbn. f_equal. destruct Hc as [-> _]. done.
    + intros y. destruct (Hy y) as [?|(e & e' & He & Hk & He' & Hc)]; [by left|]. right. exists e. split_and!; try done.
      right. exists e'. split; [done|by left].
    + intros y e He Hk. destruct (Hy y) as [E|(e0 & e' & He0 & _ & He' & Hc)].
      * exists e. split; [congruence|done].
      * exists e'. destruct Hc as (? & _ & _ & ?). split_and!; congruence.
Qed.

Definition squash (r : sres) : sres := match r with SStuck => SStuck | _ => SOk end.

(** one resync item *)
Lemma resync_section_cases w ip o ocl fl :
  match i_alloc (w_ipam w) !! ip with
  | None => resync_section w ip o ocl fl = (w, SOk)
  | Some e =>
      let k := Keys.parse_key (e_key e) in
      if resync_skip e k then resync_section w ip o ocl fl = (w, SOk) else
      if pod_running w (Keys.ko_ns k) (Keys.ko_pod k) (e_uid e) then resync_section w ip o ocl fl = (w, SOk) else
      (∃ w1 r, same_env w w1 ∧ w_ipam w1 = w_ipam w ∧ resync_section w ip o ocl fl = (w1, r) ∧
               (r = SStuck ∨ f_cloud fl ≠ None)) ∨
      (∃ w1, pre_cleared w w1 (e_key e) ∧
             resync_section w ip o ocl fl =
             ((unbind_any w1 k (e_policy e) o fl).1, squash (unbind_any w1 k (e_policy e) o fl).2))
  end.
Proof.
  unfold resync_section. destruct (i_alloc (w_ipam w) !! ip) as [e|]; [|done]. cbv zeta.
  destruct (resync_skip _ _); [done|]. destruct (pod_running _ _ _ _); [done|].
  destruct (w_provider w && _)%bool.
  2:{ right. exists w. split; [split; [apply same_env_refl|by left]|]. reflexivity. }
  match goal with |- context [if negb ?c then _ else _] => destruct c end; cbn [negb].
  2:{ left. exists w, SStuck. split_and!; [apply same_env_refl|done|done|by left]. }
  match goal with |- context [unassign_loop w ?oun 0 fl] => set (oun0 := oun) end.
  destruct (unassign_loop_env fl oun0 w 0) as [Henv Hip].
  destruct (unassign_loop w oun0 0 fl) as [w1 [| |]]; cbn [fst] in Henv, Hip.
  - match goal with |- context [if negb ?c then _ else _] => destruct c end; cbn [negb].
    2:{ left. exists w, SStuck. split_and!; [apply same_env_refl|done|done|by left]. }
    rewrite Hip.
    match goal with |- context [reserve_ip (w_ipam w) _ _ _ ?ocl0 None] => set (ocl1 := ocl0) end.
    destruct (reserve_ip (w_ipam w) (e_key e) (e_key e) free_entry_attr ocl1 None) as [s' ra] eqn:Er. cbn [fst snd].
    assert (ra = AStuck ∨ ra ≠ AStuck) as [-> |Hra] by (destruct ra; auto).
    + left. exists w1, SStuck. split; [done|]. split; [done|]. split; [done|by left].
    + right. exists (set_ipam w1 s'). split.
      { split; [eapply same_env_trans; [exact Henv|apply same_env_set_ipam]|].
        right. exists ocl1, ra. done. }
      unfold unbind_any, squash. by destruct ra.
  - destruct (f_cloud fl) as [j|] eqn:Efc.
    2:{ left. exists w, SStuck. split_and!; [apply same_env_refl|done|done|by left]. }
    destruct (_ || _)%bool.
    + left. exists w1, SOk. split_and!; [done|done|done|by right].
    + left. exists w, SStuck. split_and!; [apply same_env_refl|done|done|by left].
  - left. exists w1, SStuck. split_and!; [done|done|done|by left].
Qed.

(** ** liveness of one resync item *)
Lemma resync_item_exact_l w ip e q o ocl fl w' r :
  Inv2 (w_ipam w) → i_alloc (w_ipam w) !! ip = Some e → wf_pod q → e_key e = pod_key q →
  resync_skip e (keyobj_of q) = false → pod_running w (pd_ns q) (pd_name q) (e_uid e) = false →
  e_policy e ≤ 2 → (pd_kind q = KSts → sts_named (pd_name q)) →
  f_store fl = None → f_cloud fl = None →
  resync_section w ip o ocl fl = (w', r) → r ≠ SStuck →
  same_env w w' ∧
  ∀ y ey, i_alloc (w_ipam w) !! y = Some ey → e_key ey = pod_key q →
    match policy_verdict w (keyobj_of q) (e_policy e) with
    | MustFree => i_alloc (w_ipam w') !! y = None
    | KeepForPod => ∃ ey', i_alloc (w_ipam w') !! y = Some ey' ∧ cleared ey ey' (pod_key q)
    | KeepForApp => ∃ ey', i_alloc (w_ipam w') !! y = Some ey' ∧ cleared ey ey' (Keys.pool_prefix (keyobj_of q))
    end.
Proof.
  intros Hi He Wq Hk Hskip Hrun Hpol Hsts Hfs Hfc Hres Hr.
  pose proof (resync_section_cases w ip o ocl fl) as Hc. rewrite He in Hc. cbv zeta in Hc.
  rewrite Hk, (parse_pod_key q Wq), Hskip in Hc.
  change (Keys.ko_ns (keyobj_of q)) with (pd_ns q) in Hc. change (Keys.ko_pod (keyobj_of q)) with (pd_name q) in Hc.
  rewrite Hrun in Hc. destruct Hc as [(w1 & r1 & _ & _ & Hres1 & [-> |Hf])|(w1 & Hpre & Hres1)].
  { rewrite Hres in Hres1. by simplify_eq. }
  { congruence. }
  rewrite Hres in Hres1. injection Hres1 as -> ->.
  destruct (pre_cleared_facts w w1 (pod_key q) Hi Hpre) as (Hi1 & Hsk & _ & Hall).
  destruct Hpre as [Henv1 _].
  destruct (unbind_any_frame w1 (keyobj_of q) (e_policy e) o fl Hi1) as (Henv2 & _ & _).
  split; [by eapply same_env_trans|].
  intros y ey Hy Hky. destruct (Hall y ey Hy Hky) as (e1 & He1 & Hk1 & Hp1).
  assert (policy_verdict w (keyobj_of q) (e_policy e) = policy_verdict w1 (keyobj_of q) (e_policy e)) as ->.
  { symmetry. destruct Henv1 as (_ & _ & _ & Hs & Hd & _). by apply verdict_ext. }
  pose proof (unbind_any_cases w1 (keyobj_of q) (e_policy e) o fl Hpol) as Hv.
  change (Keys.ko_key (keyobj_of q)) with (pod_key q) in Hv. change (Keys.ko_pod (keyobj_of q)) with (pd_name q) in Hv.
  specialize (Hv (λ E, pool_prefix_not_pod_key (keyobj_of q) q Wq (eq_sym E)) (pod_index_pod_key q Wq)).
  destruct (unbind_any w1 (keyobj_of q) (e_policy e) o fl) as [w2 r2] eqn:Eu. cbn [fst snd] in *.
  assert (r2 ≠ SStuck) as Hr2 by (intros ->; done).
  destruct (policy_verdict w1 (keyobj_of q) (e_policy e)).
  - symmetry in Hv. eapply (release_key_complete w1 _ _ _ _ _ Hi1 Hfs Hv Hr2); eauto.
  - destruct Hv as [Hv|(_ & Hnone & Hs)].
    2:{ exfalso. rewrite ko_is_sts_pod in Hs. apply bool_decide_eq_true in Hs.
        destruct (sts_named_key_index q Wq (Hsts Hs)) as [n Hn]. congruence. }
    symmetry in Hv. destruct (reserve_key_complete w1 _ _ _ _ _ _ Hi1 Hfs Hv Hr2 y e1 He1 Hk1) as (e' & He' & Hc).
    exists e'. split; [done|]. destruct Hc as (?&?&?&?). split_and!; congruence.
  - symmetry in Hv. destruct (reserve_key_complete w1 _ _ _ _ _ _ Hi1 Hfs Hv Hr2 y e1 He1 Hk1) as (e' & He' & Hc).
    exists e'. split; [done|]. destruct Hc as (?&?&?&?). split_and!; congruence.
Qed.

(** ** the event of a default-policy pod frees every IP of its key *)
Lemma default_released_by_event_l w n q o oun fl w' :
  Inv2 (w_ipam w) → w_queue w !! n = Some q → policy_of q = 0 → f_store fl = None →
  (∀ x e, i_alloc (w_ipam w) !! x = Some e → e_key e = pod_key q → e_uid e = [] ∨ e_uid e = pd_uid q) →
  pstep w (PEvent n o oun fl) = (w', ROk) →
  ∀ x e, i_alloc (w_ipam w) !! x = Some e → e_key e = pod_key q → i_alloc (w_ipam w') !! x = None.
Proof.
  intros Hi Hq Hpol Hfs Huid Hstep x e He Hk. cbn [pstep] in Hstep. rewrite Hq in Hstep.
  destruct (unbind_section true w q o oun fl) as [w2 r2] eqn:Eu.
  destruct r2; [|done..]. injection Hstep as <-. cbn [set_queue w_ipam].
  destruct (unbind_section_cases w q o oun fl) as [[Ht _]|(_ & w1 & _ & Hi1 & [(r & Hr & Hu)|Hu])].
  - exfalso. unfold f1_test in Ht. apply existsb_exists in Ht as ([y ey] & Hin & Hb). cbn [snd] in Hb.
    apply by_key_spec in Hin as [Hy Hky]. apply andb_true_iff in Hb as [Hb H3]. apply andb_true_iff in Hb as [H1 _].
    destruct (Huid y ey Hy Hky) as [E|E]; rewrite E in *; [done|]. by rewrite str_eqb_refl in H3.
  - rewrite Eu in Hu. by simplify_eq.
  - rewrite Eu in Hu. symmetry in Hu.
    assert (unbind_any w1 (keyobj_of q) (policy_of q) o fl = release_key w1 (pod_key q) o fl) as Hrel.
    { rewrite Hpol. unfold unbind_any, unbind_dp, unbind_nondp. cbn [N.eqb orb]. by destruct (ko_is_dp _). }
    rewrite Hrel in Hu. rewrite <- Hi1 in Hi, He.
    by eapply (release_key_complete w1 _ _ _ _ _ Hi Hfs Hu).
Qed.

(** * 5. One resync pass *)
Lemma rchg_KK K P i i' : rchg K K i i' → rchg K P i i'.
Proof.
  intros H y. destruct (H y) as [?|(e & He & Hk & [?|(e' & He' & Hc)])]; [by left| |].
  - right. exists e. split_and!; try done. by left.
  - right. exists e. split_and!; try done. right. exists e'. split; [done|]. left. by destruct Hc.
Qed.

(** the frame of one resync item: nothing, or a release-side change of the item's key *)
Lemma resync_section_frame w ip o ocl fl : Inv2 (w_ipam w) →
  same_env w (resync_section w ip o ocl fl).1 ∧ Inv2 (w_ipam (resync_section w ip o ocl fl).1) ∧
  (i_alloc (w_ipam (resync_section w ip o ocl fl).1) = i_alloc (w_ipam w) ∨
   ∃ e, i_alloc (w_ipam w) !! ip = Some e ∧ resync_skip e (Keys.parse_key (e_key e)) = false ∧
        pod_running w (Keys.ko_ns (Keys.parse_key (e_key e))) (Keys.ko_pod (Keys.parse_key (e_key e))) (e_uid e) = false ∧
        rchg (e_key e) (Keys.pool_prefix (Keys.parse_key (e_key e))) (w_ipam w) (w_ipam (resync_section w ip o ocl fl).1)).
Proof.
  intros Hi. pose proof (resync_section_cases w ip o ocl fl) as Hc.
  destruct (i_alloc (w_ipam w) !! ip) as [e|] eqn:He.
  2:{ rewrite Hc. split_and!; [apply same_env_refl|done|by left]. }
  cbv zeta in Hc. destruct (resync_skip _ _) eqn:Hs.
  { rewrite Hc. split_and!; [apply same_env_refl|done|by left]. }
  destruct (pod_running _ _ _ _) eqn:Hr.
  { rewrite Hc. split_and!; [apply same_env_refl|done|by left]. }
  destruct Hc as [(w1 & r1 & Henv & Hi1 & -> & _)|(w1 & Hpre & ->)]; cbn [fst].
  { split_and!; [done|by rewrite Hi1|left; by rewrite Hi1]. }
  destruct (pre_cleared_facts w w1 (e_key e) Hi Hpre) as (Hi1 & _ & Hc1 & _). destruct Hpre as [Henv1 _].
  destruct (unbind_any_frame w1 (Keys.parse_key (e_key e)) (e_policy e) o fl Hi1) as (Henv2 & Hi2 & Hc2).
  rewrite parse_key_key in Hc2.
  split_and!; [by eapply same_env_trans|done|]. right. exists e. split_and!; try done.
  eapply rchg_trans; [apply rchg_KK, Hc1|exact Hc2].
Qed.

Lemma rchg_dom K P i i' x : rchg K P i i' → is_Some (i_alloc i' !! x) → is_Some (i_alloc i !! x).
Proof. intros H Hx. destruct (H x) as [<-|(e & -> & _)]; [done|by eexists]. Qed.

(** nothing is left to do for the IP [x]: an entry under a pod key whose pod is not running and that the pass
    does not skip is one the policy keeps for the pod *)
Definition done_at (w : world) (x : N) : Prop :=
  ∀ e q, i_alloc (w_ipam w) !! x = Some e → wf_pod q → e_key e = pod_key q → e_policy e ≤ 2 →
         resync_skip e (keyobj_of q) = false → pod_running w (pd_ns q) (pd_name q) (e_uid e) = false →
         policy_verdict w (keyobj_of q) (e_policy e) = KeepForPod.

Lemma pod_running_empty_uid w ns name u : pod_running w ns name [] = false → pod_running w ns name u = false.
Proof.
  unfold pod_running. destruct (_ || _)%bool; [done|]. intros H. apply orb_false_iff in H as [H1 H2].
  assert (∀ q, running_and_uid [] q = false → running_and_uid u q = false) as Hq.
  { intros [q|]; [|done]. unfold running_and_uid. cbn [Keys.is_empty negb andb]. intros ->. by destruct (_ && _)%bool. }
  by rewrite (Hq _ H1), (Hq _ H2).
Qed.

Lemma resync_skip_cleared e e' k : e_key e' = e_key e → e_policy e' = e_policy e → e_uid e' = [] → e_node e' = [] →
  resync_skip e' k = false → resync_skip e k = false.
Proof.
  unfold resync_skip. intros -> -> -> ->. cbn [Keys.is_empty andb].
  destruct (Keys.is_empty (e_key e)), (Keys.is_empty (Keys.ko_pod k)), (Keys.is_empty (Keys.ko_app k)); cbn [orb]; try done.
  intros H. rewrite <- !andb_assoc, H. by rewrite !andb_false_r.
Qed.

Lemma done_at_env w w' x : same_env w w' → i_alloc (w_ipam w') !! x = i_alloc (w_ipam w) !! x → done_at w x → done_at w' x.
Proof.
  intros Henv E Hd e q He Wq Hk Hpol Hskip Hrun. rewrite E in He. rewrite (pod_running_env _ _ _ _ _ Henv) in Hrun.
  destruct Henv as (_ & _ & _ & Hs & _). apply (verdict_pod_ext w w'); [done|]. by apply Hd.
Qed.

Lemma done_at_stable w y o ocl fl x : Inv2 (w_ipam w) → done_at w x → done_at (resync_section w y o ocl fl).1 x.
Proof.
  intros Hi Hd. destruct (resync_section_frame w y o ocl fl Hi) as (Henv & _ & [E|(ey & _ & _ & _ & Hc)]).
  { apply (done_at_env w); [done|by rewrite E|done]. }
  destruct (Hc x) as [E|(e & He & Hk & [Hn|(e' & He' & Hcl)])].
  - by apply (done_at_env w).
  - intros e1 q He1. congruence.
  - intros e1 q He1 Wq Hk1 Hpol Hskip Hrun. rewrite He' in He1. simplify_eq.
    destruct Hcl as [(Hk' & Hu & Hn & Hp)|(Hk' & _)].
    2:{ exfalso. rewrite Hk' in Hk1. by apply (pool_prefix_not_pod_key _ q Wq) in Hk1. }
    rewrite (pod_running_env _ _ _ _ _ Henv), Hu in Hrun. apply (pod_running_empty_uid _ _ _ (e_uid e)) in Hrun.
    destruct Henv as (_ & _ & _ & Hs & _). apply (verdict_pod_ext w); [done|]. rewrite Hp.
    apply Hd; try done; try congruence. eapply resync_skip_cleared; [| | | |exact Hskip]; congruence.
Qed.

(** the item of [x] settles [x] *)
Lemma done_at_item w x o ocl w' r :
  Inv2 (w_ipam w) → resync_section w x o ocl no_faults = (w', r) → r ≠ SStuck → done_at w' x.
Proof.
  intros Hi Hres Hr. pose proof (resync_section_cases w x o ocl no_faults) as Hc.
  destruct (i_alloc (w_ipam w) !! x) as [e|] eqn:He.
  2:{ rewrite Hres in Hc. injection Hc as -> _. intros e q He'. congruence. }
  cbv zeta in Hc. destruct (resync_skip e _) eqn:Hs.
  { rewrite Hres in Hc. injection Hc as -> _. intros e1 q He1 Wq Hk _ Hskip _. rewrite He in He1. simplify_eq.
    rewrite Hk, (parse_pod_key q Wq) in Hs. congruence. }
  destruct (pod_running _ _ _ _) eqn:Hrn.
  { rewrite Hres in Hc. injection Hc as -> _. intros e1 q He1 Wq Hk _ _ Hrun. rewrite He in He1. simplify_eq.
    rewrite Hk, (parse_pod_key q Wq) in Hrn. change (pod_running w (pd_ns q) (pd_name q) (e_uid e1) = true) in Hrn. congruence. }
  destruct Hc as [(w1 & r1 & _ & _ & Hres1 & [-> |Hf])|(w1 & Hpre & Hres1)].
  { rewrite Hres in Hres1. by simplify_eq. }
  { by destruct Hf. }
  rewrite Hres in Hres1. injection Hres1 as -> ->.
  destruct (pre_cleared_facts w w1 (e_key e) Hi Hpre) as (Hi1 & Hsk & Hc1 & Hall). destruct Hpre as [Henv1 _].
  set (k := Keys.parse_key (e_key e)) in *.
  destruct (unbind_any_frame w1 k (e_policy e) o no_faults Hi1) as (Henv2 & Hi2 & Hc2).
  unfold k in Hc2 at 1 2. rewrite parse_key_key in Hc2.
  pose proof (rchg_trans _ _ _ _ _ (rchg_KK _ (Keys.pool_prefix k) _ _ Hc1) Hc2) as Hc.
  intros e' q He' Wq Hk' Hpol' Hskip' Hrun'.
  (* the key of the item is the pod key *)
  assert (e_key e = pod_key q ∧ e_policy e' = e_policy e) as [Hk Hp].
  { destruct (Hc x) as [E|(e0 & He0 & Hk0 & [Hn|(e1 & He1 & Hcl)])].
    - rewrite E, He in He'. by simplify_eq.
    - congruence.
    - rewrite He in He0. rewrite He' in He1. simplify_eq. destruct Hcl as [(Hk1 & _ & _ & Hp1)|(Hk1 & _)]; [split; congruence|].
      exfalso. rewrite Hk1 in Hk'. by apply (pool_prefix_not_pod_key _ q Wq) in Hk'. }
  assert (k = keyobj_of q) as Ek by (unfold k; by rewrite Hk, (parse_pod_key q Wq)).
  rewrite Ek in *. clear k Ek. rewrite Hp in *.
  destruct (Hall x e He eq_refl) as (e1 & He1 & Hk1 & Hp1).
  pose proof (unbind_any_cases w1 (keyobj_of q) (e_policy e) o no_faults Hpol') as Hv.
  change (Keys.ko_key (keyobj_of q)) with (pod_key q) in Hv. change (Keys.ko_pod (keyobj_of q)) with (pd_name q) in Hv.
  specialize (Hv (λ E, pool_prefix_not_pod_key (keyobj_of q) q Wq (eq_sym E)) (pod_index_pod_key q Wq)).
  destruct (unbind_any w1 (keyobj_of q) (e_policy e) o no_faults) as [w2 r2] eqn:Eu. cbn [fst snd] in *.
  assert (r2 ≠ SStuck) as Hr2 by (intros ->; done).
  assert (w_sts w2 = w_sts w1) as Hs2 by (by destruct Henv2 as (_ & _ & _ & ? & _)).
  destruct (policy_verdict w1 (keyobj_of q) (e_policy e)) eqn:Ev.
  - exfalso. symmetry in Hv. rewrite Hk in Hk1.
    pose proof (release_key_complete w1 _ _ no_faults _ _ Hi1 eq_refl Hv Hr2 x e1 He1 Hk1). congruence.
  - by apply (verdict_pod_ext w1 w2).
  - exfalso. symmetry in Hv. rewrite Hk in Hk1.
    destruct (reserve_key_complete w1 _ _ _ no_faults _ _ Hi1 eq_refl Hv Hr2 x e1 He1 Hk1) as (e2 & He2 & Hk2 & _).
    rewrite He' in He2. simplify_eq. rewrite Hk2 in Hk'. by apply (pool_prefix_not_pod_key _ q Wq) in Hk'.
Qed.

Lemma resync_pass_done w items w' : resync_pass w items w' → Inv2 (w_ipam w) →
  Inv2 (w_ipam w') ∧ same_env w w' ∧
  (∀ x, is_Some (i_alloc (w_ipam w') !! x) → is_Some (i_alloc (w_ipam w) !! x)) ∧
  (∀ x, x ∈ items ∨ done_at w x → done_at w' x).
Proof.
  induction 1 as [w|w ip items o ocl w1 r w' Hres Hr Hpass IH]; intros Hi.
  { split_and!; [done|apply same_env_refl|done|]. intros x [Hx|Hx]; [by apply elem_of_nil in Hx|done]. }
  destruct (resync_section_frame w ip o ocl no_faults Hi) as (Henv & Hi1 & Hch). rewrite Hres in Henv, Hi1, Hch. cbn [fst] in *.
  destruct (IH Hi1) as (Hi' & Henv' & Hdom & Hdone). split_and!; [done|by eapply same_env_trans| |].
  - intros x Hx. apply Hdom in Hx. destruct Hch as [E|(e & _ & _ & _ & Hc)]; [by rewrite <- E|by eapply rchg_dom].
  - intros x [Hx|Hx].
    + apply elem_of_cons in Hx as [-> |Hx]; apply Hdone; [right|by left]. exact (done_at_item w ip o ocl w1 r Hi Hres Hr).
    + apply Hdone. right. pose proof (done_at_stable w ip o ocl no_faults x Hi Hx) as H. by rewrite Hres in H.
Qed.

Lemma resync_pass_exact_l w items w' :
  Inv2 (w_ipam w) → (∀ x, is_Some (i_alloc (w_ipam w) !! x) → x ∈ items) → resync_pass w items w' →
  ∀ x e q, i_alloc (w_ipam w') !! x = Some e → wf_pod q → e_key e = pod_key q → e_policy e ≤ 2 →
           resync_skip e (keyobj_of q) = false → pod_running w' (pd_ns q) (pd_name q) (e_uid e) = false →
           policy_verdict w' (keyobj_of q) (e_policy e) = KeepForPod.
Proof.
  intros Hi Hcov Hpass x e q He. destruct (resync_pass_done _ _ _ Hpass Hi) as (_ & _ & Hdom & Hdone).
  apply (Hdone x); [|done]. left. apply Hcov, Hdom. by eexists.
Qed.

(** * 6. Safety: an IP leaves a pod key only with a licence *)
Definition keeps (i' : ipam) (x : N) (K : str) : Prop := ∃ e', i_alloc i' !! x = Some e' ∧ e_key e' = K.

Lemma lost_keeps i' x K : lost i' x K → keeps i' x K → False.
Proof. intros Hl (e' & He' & Hk). by apply (Hl e' He'). Qed.

Lemma verdict_allows_ext w w1 q pol x i' :
  w_sts w1 = w_sts w → w_dps w1 = w_dps w → same_keys (w_ipam w) (w_ipam w1) →
  verdict_allows w1 q pol x i' → verdict_allows w q pol x i'.
Proof. intros Hs Hd Hk. unfold verdict_allows. by rewrite (verdict_ext w w1 _ _ Hs Hd Hk). Qed.

(** the policy decision *)
Lemma unbind_any_licence w1 q pol o fl x e :
  wf_pod q → pol ≤ 2 → i_alloc (w_ipam w1) !! x = Some e → e_key e = pod_key q →
  lost (w_ipam (unbind_any w1 (keyobj_of q) pol o fl).1) x (pod_key q) →
  verdict_allows w1 q pol x (w_ipam (unbind_any w1 (keyobj_of q) pol o fl).1).
Proof.
  intros Wq Hpol He Hk Hlost.
  pose proof (unbind_any_cases w1 (keyobj_of q) pol o fl Hpol) as Hv.
  change (Keys.ko_key (keyobj_of q)) with (pod_key q) in Hv. change (Keys.ko_pod (keyobj_of q)) with (pd_name q) in Hv.
  specialize (Hv (λ E, pool_prefix_not_pod_key (keyobj_of q) q Wq (eq_sym E)) (pod_index_pod_key q Wq)).
  unfold verdict_allows.
  destruct (unbind_any w1 (keyobj_of q) pol o fl) as [w2 r2] eqn:Eu. cbn [fst] in *.
  destruct (policy_verdict w1 (keyobj_of q) pol).
  - symmetry in Hv. destruct (release_key_frame _ _ _ _ _ _ Hv) as [_ Hy].
    destruct (Hy x) as [E|(e0 & _ & _ & ->)]; [|done]. exfalso. apply (lost_keeps _ _ _ Hlost). exists e. by rewrite E.
  - exfalso. apply (lost_keeps _ _ _ Hlost). destruct Hv as [Hv|(Hv & _)].
    + symmetry in Hv. destruct (reserve_key_spec _ _ _ _ _ _ _ Hv) as [_ Hy].
      destruct (Hy x) as [E|(e0 & e' & _ & _ & He' & Hc)]; [exists e; by rewrite E|]. exists e'. by destruct Hc.
    + injection Hv as <- _. by exists e.
  - symmetry in Hv. destruct (reserve_key_spec _ _ _ _ _ _ _ Hv) as [_ Hy].
    destruct (Hy x) as [E|(e0 & e' & _ & _ & He' & Hc)].
    + exfalso. apply (lost_keeps _ _ _ Hlost). exists e. by rewrite E.
    + rewrite He'. by destruct Hc as (? & ? & _).
Qed.

Lemma rchg_other K P i i' x e : rchg K P i i' → i_alloc i !! x = Some e → e_key e ≠ K → i_alloc i' !! x = Some e.
Proof. intros H He Hk. destruct (H x) as [->|(e0 & He0 & Hk0 & _)]; [done|]. congruence. Qed.

(** a queued pod event *)
Lemma event_licence w n o oun fl x e q :
  WInv w → i_alloc (w_ipam w) !! x = Some e → wf_pod q → e_key e = pod_key q →
  lost (w_ipam (pstep w (PEvent n o oun fl)).1) x (pod_key q) →
  licence w (PEvent n o oun fl) x q (w_ipam (pstep w (PEvent n o oun fl)).1).
Proof.
  intros Hw He Wq Hk. cbn [pstep]. destruct (w_queue w !! n) as [qe|] eqn:En.
  2:{ intros Hl. exfalso. apply (lost_keeps _ _ _ Hl). by exists e. }
  pose proof (wi_queue w Hw) as HQ. rewrite Forall_forall in HQ.
  destruct (HQ qe) as [Wqe Hqe]; [by eapply elem_of_list_lookup_2|].
  assert (w_ipam (match unbind_section true w qe o oun fl with
                  | (w', SOk) => (set_queue w' (take n (w_queue w') ++ drop (S n) (w_queue w')), ROk)
                  | (w', SErr) => (w', RErr) | (w', SStuck) => (w', RStuck) end).1 =
          w_ipam (unbind_section true w qe o oun fl).1) as ->.
  { by destruct (unbind_section true w qe o oun fl) as [w2 [| |]]. }
  pose proof (wi_ipam w Hw) as Hi.
  destruct (unbind_section_cases w qe o oun fl) as [[_ ->]|(_ & w1 & Henv & Hi1 & [(r & _ & ->)| ->])]; cbn [fst].
  { intros Hl. exfalso. apply (lost_keeps _ _ _ Hl). by exists e. }
  { intros Hl. exfalso. apply (lost_keeps _ _ _ Hl). exists e. by rewrite Hi1. }
  destruct (str_eqb_spec (pod_key qe) (pod_key q)) as [Ekk|Ekk].
  - assert (keyobj_of qe = keyobj_of q) as Eko by (by rewrite <- (parse_pod_key qe Wqe), Ekk, (parse_pod_key q Wq)).
    rewrite Eko. intros Hl. eapply lic_event; try done. intros Hpol.
    destruct Henv as (_ & _ & _ & Hs & Hd & _).
    apply (verdict_allows_ext w w1); [done|done|apply same_keys_eq; by rewrite Hi1|].
    eapply unbind_any_licence; try done. by rewrite Hi1.
  - intros Hl. exfalso. apply (lost_keeps _ _ _ Hl). exists e. split; [|done].
    rewrite <- Hi1 in Hi, He. destruct (unbind_any_frame w1 (keyobj_of qe) (policy_of qe) o fl Hi) as (_ & _ & Hc).
    eapply rchg_other; [exact Hc|done|]. change (Keys.ko_key (keyobj_of qe)) with (pod_key qe). congruence.
Qed.

(** one resync item *)
Lemma resync_licence w x0 o ocl fl x e q :
  WInv w → i_alloc (w_ipam w) !! x = Some e → wf_pod q → e_key e = pod_key q →
  lost (w_ipam (pstep w (PResync x0 o ocl fl)).1) x (pod_key q) →
  licence w (PResync x0 o ocl fl) x q (w_ipam (pstep w (PResync x0 o ocl fl)).1).
Proof.
  intros Hw He Wq Hk. cbn [pstep].
  assert (w_ipam (match resync_section w x0 o ocl fl with
                  | (w', SStuck) => (w', RStuck) | (w', _) => (w', ROk) end).1 =
          w_ipam (resync_section w x0 o ocl fl).1) as ->.
  { by destruct (resync_section w x0 o ocl fl) as [w2 [| |]]. }
  pose proof (wi_ipam w Hw) as Hi.
  assert (keeps (w_ipam w) x (pod_key q)) as Hkeep by (by exists e).
  pose proof (resync_section_cases w x0 o ocl fl) as Hc.
  destruct (i_alloc (w_ipam w) !! x0) as [e0|] eqn:He0.
  2:{ rewrite Hc. intros Hl. by destruct (lost_keeps _ _ _ Hl). }
  cbv zeta in Hc. destruct (resync_skip _ _) eqn:Hs.
  { rewrite Hc. intros Hl. by destruct (lost_keeps _ _ _ Hl). }
  destruct (pod_running _ _ _ _) eqn:Hr.
  { rewrite Hc. intros Hl. by destruct (lost_keeps _ _ _ Hl). }
  destruct Hc as [(w1 & r1 & Henv & Hi1 & -> & _)|(w1 & Hpre & ->)]; cbn [fst].
  { intros Hl. exfalso. apply (lost_keeps _ _ _ Hl). by rewrite Hi1. }
  destruct (pre_cleared_facts w w1 (e_key e0) Hi Hpre) as (Hi1 & Hsk & Hc1 & Hall). destruct Hpre as [Henv1 _].
  destruct (str_eqb_spec (e_key e0) (pod_key q)) as [Ekk|Ekk].
  - rewrite Ekk, (parse_pod_key q Wq) in *. intros Hl.
    destruct (Hall x e He Hk) as (e1 & He1 & Hk1 & _).
    eapply lic_resync; try done. intros Hpol.
    destruct Henv1 as (_ & _ & _ & Hs1 & Hd1 & _).
    apply (verdict_allows_ext w w1); [done|done|done|]. by eapply unbind_any_licence.
  - intros Hl. exfalso. apply (lost_keeps _ _ _ Hl). exists e. split; [|done].
    destruct (unbind_any_frame w1 (Keys.parse_key (e_key e0)) (e_policy e0) o fl Hi1) as (_ & _ & Hc2).
    rewrite parse_key_key in Hc2.
    eapply rchg_other; [exact Hc2| |congruence]. eapply rchg_other; [exact Hc1|done|congruence].
Qed.

(** an API release *)
Lemma api_release_frame w k ip ocl fl :
  i_alloc (w_ipam (api_release_section w k ip ocl fl).1) = i_alloc (w_ipam w) ∨
  ∃ e0, by_ip (w_ipam w) ip = Some e0 ∧ e_key e0 = Keys.ko_key k ∧
        pod_running w (Keys.ko_ns k) (Keys.ko_pod k) (e_uid e0) = false ∧
        ∀ y, i_alloc (w_ipam (api_release_section w k ip ocl fl).1) !! y = i_alloc (w_ipam w) !! y ∨
             (keeps (w_ipam w) y (Keys.ko_key k) ∧ keeps (w_ipam (api_release_section w k ip ocl fl).1) y (Keys.ko_key k)) ∨
             (y = ip ∧ i_alloc (w_ipam (api_release_section w k ip ocl fl).1) !! y = None).
Proof.
  unfold api_release_section. destruct (by_ip (w_ipam w) ip) as [e0|] eqn:Hb.
  2:{ left. by destruct (Keys.is_empty _). }
  destruct (str_eqb_spec (e_key e0) (Keys.ko_key k)) as [Ek|Ek]; cbn [negb].
  2:{ left. by destruct (Keys.is_empty _). }
  destruct (pod_running _ _ _ _) eqn:Erun; [by left|].
  right. exists e0. split_and!; try done.
  match goal with |- ∀ y, i_alloc (w_ipam (match ?r with _ => _ end).1) !! y = _ ∨ _ => set (s1 := r) end.
  assert (∀ y, i_alloc (w_ipam s1.1) !! y = i_alloc (w_ipam w) !! y ∨
               (keeps (w_ipam w) y (Keys.ko_key k) ∧ keeps (w_ipam s1.1) y (Keys.ko_key k))) as Hs1.
  { unfold s1. destruct (_ && _)%bool; [|by left].
    destruct (bool_decide _); [by left|].
    match goal with |- context [update_attr ?s0 ?K0 ip ?a0 ?f0] => destruct (update_attr s0 K0 ip a0 f0) as [s' ra] eqn:Er end.
    cbn [fst snd].
    destruct ra; cbn [fst set_ipam w_ipam cloud_unassign]; try (intros y; by left).
    apply update_attr_spec in Er as [(_ & e & He & Hk & Ha & _)|[? _]]; [|done].
    cbn [cloud_unassign w_ipam] in *. intros y. rewrite Ha.
    destruct (decide (y = ip)) as [->|Hne]; [|left; by apply lookup_insert_ne].
    right. split; [exists e; split; [done|congruence]|]. eexists. split; [rewrite Ha; apply lookup_insert|]. done. }
  destruct s1 as [w1 [| |]]; cbn [fst] in *; try (intros y; destruct (Hs1 y); [by left|right; by left]).
  destruct (release (w_ipam w1) (Keys.ko_key k) ip (bool_decide (f_store fl = Some 0%nat))) as [s2 r2] eqn:Er.
  cbn [fst set_ipam w_ipam].
  destruct (release_spec _ _ _ _ _ _ Er) as [(_ & e & He & Hk & Ha & _)|[_ ->]].
  2:{ intros y. destruct (Hs1 y); [by left|right; by left]. }
  intros y. destruct (decide (y = ip)) as [->|Hne].
  - right; right. by rewrite Ha, lookup_delete.
  - destruct (Hs1 y) as [E|(Hk0 & e' & He' & Hk')]; [left; by rewrite Ha, lookup_delete_ne|]. right; left.
    split; [done|]. exists e'. rewrite Ha, lookup_delete_ne by done. done.
Qed.

Lemma api_release_licence w k ip ocl fl x e q :
  WInv w → k = Keys.parse_key (Keys.ko_key k) → i_alloc (w_ipam w) !! x = Some e → wf_pod q → e_key e = pod_key q →
  lost (w_ipam (pstep w (PApiRelease k ip ocl fl)).1) x (pod_key q) →
  licence w (PApiRelease k ip ocl fl) x q (w_ipam (pstep w (PApiRelease k ip ocl fl)).1).
Proof.
  intros Hw Hkp He Wq Hk. cbn [pstep].
  assert (w_ipam (match api_release_section w k ip ocl fl with
                  | (w', SOk) => (w', ROk) | (w', SErr) => (w', RErr) | (w', SStuck) => (w', RStuck) end).1 =
          w_ipam (api_release_section w k ip ocl fl).1) as ->.
  { by destruct (api_release_section w k ip ocl fl) as [w2 [| |]]. }
  intros Hl. destruct (api_release_frame w k ip ocl fl) as [E|(e0 & Hb & Hk0 & Hrun & Hy)].
  { exfalso. apply (lost_keeps _ _ _ Hl). exists e. by rewrite E. }
  destruct (Hy x) as [E|[((e1 & He1 & Hk1) & e' & He' & Hk')|[-> Hn]]].
  - exfalso. apply (lost_keeps _ _ _ Hl). exists e. by rewrite E.
  - exfalso. apply (lost_keeps _ _ _ Hl). exists e'. split; congruence.
  - unfold by_ip in Hb. rewrite He in Hb. simplify_eq.
    assert (k = keyobj_of q) as Ek by (by rewrite Hkp, <- Hk0, Hk, (parse_pod_key q Wq)).
    eapply lic_api; try done; [congruence|]. by rewrite Ek in Hrun.
Qed.

(** ** the steps that never take an IP away from a pod key *)
Lemma sync_ips_keeps p fl x e : ∀ ips idx w,
  Inv2 (w_ipam w) → i_alloc (w_ipam w) !! x = Some e → i_alloc (w_ipam (sync_ips w p ips fl idx)) !! x = Some e.
Proof.
  induction ips as [|y rest IH]; intros idx w Hi He; [done|]. cbn [sync_ips].
  destruct (by_ip (w_ipam w) y) as [e0|]; [|by apply IH]. destruct (Keys.is_empty (e_key e0)); [|by apply IH].
  destruct (existsb _ (by_key (w_ipam w) (pod_key p))); [by apply IH|].
  apply IH; cbn [set_ipam w_ipam]; [by apply inv2_alloc_specific|].
  destruct (alloc_specific (w_ipam w) (pod_key p) y _ _) as [s' r] eqn:Ea. cbn [fst].
  destruct (alloc_specific_spec _ _ _ _ _ _ _ Ea) as [(_ & Hy & -> & _)|[_ ->]]; [|done].
  rewrite lookup_insert_ne; [done|]. intros ->. destruct Hi as [Hinv _]. rewrite (inv_disj _ Hinv _ Hy) in He. done.
Qed.

Lemma sync_pod_ip_keeps w p fl x e :
  Inv2 (w_ipam w) → i_alloc (w_ipam w) !! x = Some e → i_alloc (w_ipam (sync_pod_ip w p fl)) !! x = Some e.
Proof. intros Hi He. unfold sync_pod_ip. destruct (_ =? _); [by apply sync_ips_keeps|done]. Qed.

Lemma env_step_keeps w ev x e :
  Inv2 (w_ipam w) → i_alloc (w_ipam w) !! x = Some e → i_alloc (w_ipam (env_step w ev)) !! x = Some e.
Proof.
  intros Hi He. destruct ev as [p|key|key ph|key|key r|key r|name r|n]; cbn [env_step]; try done.
  - by destruct (w_pods w !! key).
  - unfold informer_sync. destruct (w_pods w !! key) as [p|], (w_lister w !! key) as [old|]; try done.
    destruct (negb (str_eqb _ _)); [done|]. destruct (_ && _)%bool; [done|]. by apply sync_pod_ip_keeps.
Qed.

Lemma filter_keeps w p nodes o fl x e q :
  Inv2 (w_ipam w) → i_alloc (w_ipam w) !! x = Some e → wf_pod q → e_key e = pod_key q →
  i_alloc (w_ipam (filter_section w p nodes o fl).1) !! x = Some e.
Proof.
  intros Hi He Wq Hk. destruct (filter_section w p nodes o fl) as [w' r] eqn:E. cbn [fst].
  apply filter_section_frame in E as [->|(sn & a & ch & fail & i' & _ & -> & [Hal|[ox Hal]])]; [done| |]; cbn [set_ipam w_ipam].
  - destruct (alloc_with_key_spec _ _ _ _ _ _ _ _ _ Hal) as [(_ & x1 & e1 & He1 & Hk1 & _ & -> & _)|[? _]]; [|done].
    rewrite lookup_insert_ne; [done|]. intros ->. rewrite He in He1. simplify_eq.
    rewrite Hk in Hk1. symmetry in Hk1. by apply (pool_prefix_not_pod_key _ q Wq) in Hk1.
  - destruct (alloc_in_subnet_spec _ _ _ _ _ _ _ _ _ Hal) as [(_ & x1 & _ & Hx1 & _ & -> & _)|[? _]]; [|done].
    rewrite lookup_insert_ne; [done|]. intros ->. destruct Hi as [Hinv _]. rewrite (inv_disj _ Hinv _ Hx1) in He. done.
Qed.

Lemma bind_keeps w ns name uid node o fl x e :
  WInv w → uid ≠ [] → i_alloc (w_ipam w) !! x = Some e →
  keeps (w_ipam (bind_section true true w ns name uid node o fl).1) x (e_key e).
Proof.
  intros Hw Hu He. destruct (bind_section true true w ns name uid node o fl) as [w' r] eqn:E. cbn [fst].
  apply bind_section_frame in E; [|done|done].
  destruct E as [[-> _]|(l & w2 & _ & _ & _ & _ & _ & _ & _ & Hc & Hrest)]; [by exists e|].
  assert (keeps (w_ipam w2) x (e_key e)) as Hk2.
  { destruct (Hc x) as [E|(e' & He' & Hk' & _ & Hold)]; [exists e; by rewrite E|].
    exists e'. split; [done|]. rewrite Hk'. by apply Hold. }
  destruct Hrest as [[-> _]|(ips & w3 & out & Hb & _ & Hout)]; [done|].
  apply api_bind_cases in Hb. destruct out.
  - destruct Hb as (q0 & _ & _ & _ & ->). by destruct Hout as [-> _].
  - destruct Hb as [-> _]. by destruct Hout as [-> _].
  - subst w3. by destruct Hout as [-> _].
Qed.

Lemma configure_keeps_or s conf lf s' r l x e :
  Inv2 s → step s (OConfigure conf lf []) = (s', r, l) → i_alloc s !! x = Some e →
  keeps s' x (e_key e) ∨ ∃ ps, decode_pools conf = Some ps ∧ configured ps x = false.
Proof.
  intros Hi Hs He. destruct (decode_pools conf) as [ps|] eqn:Ed.
  - destruct (configured ps x) eqn:Ec; [|right; by exists ps]. left.
    destruct (configure_keeps _ _ _ _ _ _ Hi Hs x e He) as (e' & He' & Hso & _).
    { intros ps0 E0. rewrite Ed in E0. by simplify_eq. }
    exists e'. split; [done|]. by symmetry.
  - left. destruct (configure_keeps _ _ _ _ _ _ Hi Hs x e He) as (e' & He' & Hso & _).
    { intros ps0 E0. by rewrite Ed in E0. }
    exists e'. split; [done|]. by symmetry.
Qed.

Lemma restart_keeps_or s conf s' r l x e :
  Inv2 s → step s (ORestart conf) = (s', r, l) → i_alloc s !! x = Some e →
  keeps s' x (e_key e) ∨ ∃ ps, decode_pools conf = Some ps ∧ configured ps x = false.
Proof.
  intros Hi Hs He. destruct (decode_pools conf) as [ps|] eqn:Ed.
  - destruct (configured ps x) eqn:Ec; [|right; by exists ps]. left.
    destruct (restart_keeps _ _ _ _ _ Hi Hs x e He) as (e' & He' & Hso & _).
    { intros ps0 E0. rewrite Ed in E0. by simplify_eq. }
    exists e'. split; [done|]. by symmetry.
  - left. destruct (restart_keeps _ _ _ _ _ Hi Hs x e He) as (e' & He' & Hso & _).
    { intros ps0 E0. by rewrite Ed in E0. }
    exists e'. split; [done|]. by symmetry.
Qed.

(** ** the safety theorem *)
Theorem release_only_when_licensed_l w o x e q :
  WInv w → wf_op w o → i_alloc (w_ipam w) !! x = Some e → wf_pod q → e_key e = pod_key q →
  lost (w_ipam (pstep w o).1) x (pod_key q) → licence w o x q (w_ipam (pstep w o).1).
Proof.
  intros Hw Hwf He Wq Hk. pose proof (wi_ipam w Hw) as Hi.
  destruct o as [ev|key nodes orc fl|ns name uid node orc fl|n orc oun fl|ip orc ocl fl|k ip ocl fl|sp fl|io|conf].
  - intros Hl. exfalso. apply (lost_keeps _ _ _ Hl). exists e. split; [|done]. cbn [pstep fst]. by apply env_step_keeps.
  - intros Hl. exfalso. apply (lost_keeps _ _ _ Hl). exists e. split; [|done]. cbn [pstep].
    destruct (w_pods w !! key) as [p|]; [|done].
    pose proof (filter_keeps w p nodes orc fl x e q Hi He Wq Hk) as H.
    by destruct (filter_section w p nodes orc fl) as [w' [| |]].
  - intros Hl. exfalso. apply (lost_keeps _ _ _ Hl). rewrite <- Hk. cbn [pstep].
    pose proof (bind_keeps w ns name uid node orc fl x e Hw Hwf He) as H.
    by destruct (bind_section true true w ns name uid node orc fl) as [w' [| |]].
  - by eapply event_licence.
  - by eapply resync_licence.
  - by eapply api_release_licence.
  - intros Hl. exfalso. apply (lost_keeps _ _ _ Hl). exists e. split; [|done]. cbn [pstep].
    cbn [fst]. unfold sync_given. destruct (w_lister w !! pk sp) as [cur|]; [|by apply sync_pod_ip_keeps].
    destruct (str_eqb (pd_uid cur) (pd_uid sp)); [by apply sync_pod_ip_keeps|done].
  - destruct io; cbn [wf_op] in Hwf; try done. destruct Hwf as [-> _]. cbn [pstep fst set_ipam w_ipam].
    destruct (step (w_ipam w) (OConfigure conf listfail [])) as [[s' r] l] eqn:Es. cbn [fst].
    intros Hl. destruct (configure_keeps_or _ _ _ _ _ _ x e Hi Es He) as [Hkp|(ps & Hd & Hc)].
    + exfalso. apply (lost_keeps _ _ _ Hl). by rewrite <- Hk.
    + by eapply lic_reload.
  - cbn [pstep fst set_queue set_lister set_ipam w_ipam].
    destruct (step (w_ipam w) (ORestart conf)) as [[s' r] l] eqn:Es. cbn [fst].
    intros Hl. destruct (restart_keeps_or _ _ _ _ _ x e Hi Es He) as [Hkp|(ps & Hd & Hc)].
    + exfalso. apply (lost_keeps _ _ _ Hl). by rewrite <- Hk.
    + by eapply lic_restart.
Qed.

(** * 7. What a user relies on: never / immutable IPs survive pod events and resync *)
Lemma lost_or_keeps i' x K : lost i' x K ∨ keeps i' x K.
Proof.
  destruct (i_alloc i' !! x) as [e'|] eqn:He'.
  - destruct (str_eqb_spec (e_key e') K) as [Ek|Ek]; [right; by exists e'|]. left. intros e0 He0. congruence.
  - left. intros e0 He0. congruence.
Qed.

(** the pod's kind can reserve at all: bare pods need a name with a numeric suffix *)
Definition can_reserve (q : pod) : Prop := pd_kind q = KBare → is_Some (pod_index (pd_name q)).

Lemma never_verdict w q : can_reserve q → policy_verdict w (keyobj_of q) 2 ≠ MustFree.
Proof.
  intros Hc. unfold policy_verdict. rewrite ko_is_dp_pod, ko_is_sts_pod. cbn [N.eqb Pos.eqb andb].
  destruct (pd_kind q) eqn:Ek; cbn; try done.
  rewrite (bool_decide_eq_false_2 (KBare = KDp)), (bool_decide_eq_false_2 (KBare = KSts)) by done.
  change (Keys.ko_pod (keyobj_of q)) with (pd_name q). by rewrite (bool_decide_eq_true_2 _ (Hc Ek)).
Qed.

(** the IP [x] is still reserved: under the pod key, or parked under the application / pool prefix *)
Definition still_reserved (i' : ipam) (x : N) (q : pod) : Prop :=
  ∃ e', i_alloc i' !! x = Some e' ∧ (e_key e' = pod_key q ∨ e_key e' = Keys.pool_prefix (keyobj_of q)).

Theorem never_kept_l w x e q :
  WInv w → i_alloc (w_ipam w) !! x = Some e → wf_pod q → e_key e = pod_key q → can_reserve q →
  (∀ n orc oun fl qe, w_queue w !! n = Some qe → pod_key qe = pod_key q → policy_of qe = 2 →
     still_reserved (w_ipam (pstep w (PEvent n orc oun fl)).1) x q) ∧
  (∀ x0 orc ocl fl e0, i_alloc (w_ipam w) !! x0 = Some e0 → e_key e0 = pod_key q → e_policy e0 = 2 →
     still_reserved (w_ipam (pstep w (PResync x0 orc ocl fl)).1) x q).
Proof.
  intros Hw He Wq Hk Hc. split.
  - intros n orc oun fl qe Hq Hkq Hpol.
    destruct (lost_or_keeps (w_ipam (pstep w (PEvent n orc oun fl)).1) x (pod_key q)) as [Hl|(e' & He' & Hk')];
      [|exists e'; by split; [|left]].
    pose proof (release_only_when_licensed_l w (PEvent n orc oun fl) x e q Hw I He Wq Hk Hl) as Hlic.
    inversion Hlic as [? ? ? ? Ho|? ? ? Ho|? ? Ho|n' orc' oun' fl' qe' Ho Hq' _ _ Hv|? ? ? ? ? Ho]; try discriminate Ho.
    injection Ho as <- _ _ _. rewrite Hq in Hq'. injection Hq' as <-. rewrite Hpol in Hv. specialize (Hv ltac:(lia)).
    unfold verdict_allows in Hv. unfold still_reserved. destruct (i_alloc (w_ipam (pstep w _).1) !! x) as [e'|].
    + exists e'. split; [done|right]. by destruct Hv.
    + by destruct (never_verdict w q Hc).
  - intros x0 orc ocl fl e0 He0 Hk0 Hpol.
    destruct (lost_or_keeps (w_ipam (pstep w (PResync x0 orc ocl fl)).1) x (pod_key q)) as [Hl|(e' & He' & Hk')];
      [|exists e'; by split; [|left]].
    pose proof (release_only_when_licensed_l w (PResync x0 orc ocl fl) x e q Hw I He Wq Hk Hl) as Hlic.
    inversion Hlic as [? ? ? ? Ho|? ? ? Ho|? ? Ho|? ? ? ? ? Ho|x0' orc' ocl' fl' e0' Ho He0' _ _ Hv]; try discriminate Ho.
    injection Ho as <- _ _ _. rewrite He0 in He0'. injection He0' as <-. rewrite Hpol in Hv. specialize (Hv ltac:(lia)).
    unfold verdict_allows in Hv. unfold still_reserved. destruct (i_alloc (w_ipam (pstep w _).1) !! x) as [e'|].
    + exists e'. split; [done|right]. by destruct Hv.
    + by destruct (never_verdict w q Hc).
Qed.

Lemma immutable_sts_verdict w q r idx :
  pd_kind q = KSts → w_sts w !! (pd_ns q, pd_app q) = Some r → pod_ordinal (pd_name q) = Some idx → idx < r →
  policy_verdict w (keyobj_of q) 1 = KeepForPod.
Proof.
  intros Hk Hs Hi Hlt. unfold policy_verdict. rewrite ko_is_dp_pod, ko_is_sts_pod, Hk. cbn [N.eqb Pos.eqb].
  rewrite bool_decide_eq_false_2 by done. rewrite bool_decide_eq_true_2 by done.
  change (Keys.ko_ns (keyobj_of q)) with (pd_ns q). change (Keys.ko_pod (keyobj_of q)) with (pd_name q).
  replace (Keys.ko_app (keyobj_of q)) with (pd_app q) by (unfold keyobj_of, app_of; by rewrite Hk).
  rewrite Hs, Hi. by destruct (N.ltb_spec idx r); [|lia].
Qed.

Theorem immutable_kept_sts_l w x e q r idx :
  WInv w → i_alloc (w_ipam w) !! x = Some e → wf_pod q → e_key e = pod_key q →
  pd_kind q = KSts → w_sts w !! (pd_ns q, pd_app q) = Some r → pod_ordinal (pd_name q) = Some idx → idx < r →
  (∀ n orc oun fl qe, w_queue w !! n = Some qe → pod_key qe = pod_key q → policy_of qe = 1 →
     keeps (w_ipam (pstep w (PEvent n orc oun fl)).1) x (pod_key q)) ∧
  (∀ x0 orc ocl fl e0, i_alloc (w_ipam w) !! x0 = Some e0 → e_key e0 = pod_key q → e_policy e0 = 1 →
     keeps (w_ipam (pstep w (PResync x0 orc ocl fl)).1) x (pod_key q)).
Proof.
  intros Hw He Wq Hk Hkind Hs Hi Hlt. pose proof (immutable_sts_verdict w q r idx Hkind Hs Hi Hlt) as Hver. split.
  - intros n orc oun fl qe Hq Hkq Hpol.
    destruct (lost_or_keeps (w_ipam (pstep w (PEvent n orc oun fl)).1) x (pod_key q)) as [Hl|?]; [|done].
    pose proof (release_only_when_licensed_l w (PEvent n orc oun fl) x e q Hw I He Wq Hk Hl) as Hlic.
    inversion Hlic as [? ? ? ? Ho|? ? ? Ho|? ? Ho|n' orc' oun' fl' qe' Ho Hq' _ _ Hv|? ? ? ? ? Ho]; try discriminate Ho.
    injection Ho as <- _ _ _. rewrite Hq in Hq'. injection Hq' as <-. rewrite Hpol in Hv. specialize (Hv ltac:(lia)).
    unfold verdict_allows in Hv. rewrite Hver in Hv. destruct (i_alloc (w_ipam (pstep w _).1) !! x); [by destruct Hv as (_ & _ & ?)|done].
  - intros x0 orc ocl fl e0 He0 Hk0 Hpol.
    destruct (lost_or_keeps (w_ipam (pstep w (PResync x0 orc ocl fl)).1) x (pod_key q)) as [Hl|?]; [|done].
    pose proof (release_only_when_licensed_l w (PResync x0 orc ocl fl) x e q Hw I He Wq Hk Hl) as Hlic.
    inversion Hlic as [? ? ? ? Ho|? ? ? Ho|? ? Ho|? ? ? ? ? Ho|x0' orc' ocl' fl' e0' Ho He0' _ _ Hv]; try discriminate Ho.
    injection Ho as <- _ _ _. rewrite He0 in He0'. injection He0' as <-. rewrite Hpol in Hv. specialize (Hv ltac:(lia)).
    unfold verdict_allows in Hv. rewrite Hver in Hv. destruct (i_alloc (w_ipam (pstep w _).1) !! x); [by destruct Hv as (_ & _ & ?)|done].
Qed.

(** * 8. The last sentence of the property, in terms of the API server *)

(** the pod incarnation an IP is stored for no longer exists in the API server (or has finished) *)
Definition pod_gone (w : world) (q : pod) (stored_uid : str) : Prop :=
  match w_pods w !! pk q with
  | None => True
  | Some p => finished p = true ∨ (stored_uid ≠ [] ∧ pd_uid p ≠ stored_uid)
  end.

Lemma pod_gone_not_running w q u :
  w_lister w = w_pods w → pod_gone w q u → pod_running w (pd_ns q) (pd_name q) u = false.
Proof.
  intros El Hg. unfold pod_running. destruct (_ || _)%bool; [done|]. rewrite El, orb_diag.
  unfold pod_gone in Hg. change (w_pods w !! (pd_ns q, pd_name q)) with (w_pods w !! pk q).
  destruct (w_pods w !! pk q) as [p|]; [|done]. unfold running_and_uid.
  destruct Hg as [->|[Hu Hne]]; [by destruct (_ && _)%bool|].
  destruct u; [done|]. cbn [Keys.is_empty negb andb]. by destruct (str_eqb_spec (a :: u) (pd_uid p)).
Qed.

Theorem resync_pass_no_orphans_l w items w' :
  WInv w → w_lister w = w_pods w → (∀ x, is_Some (i_alloc (w_ipam w) !! x) → x ∈ items) → resync_pass w items w' →
  ∀ x e q, i_alloc (w_ipam w') !! x = Some e → wf_pod q → e_key e = pod_key q → e_policy e ≤ 2 →
           resync_skip e (keyobj_of q) = false → pod_gone w' q (e_uid e) →
           policy_verdict w' (keyobj_of q) (e_policy e) = KeepForPod.
Proof.
  intros Hw El Hcov Hpass x e q He Wq Hk Hpol Hskip Hg.
  destruct (resync_pass_done _ _ _ Hpass (wi_ipam w Hw)) as (_ & (Hp & Hl & _) & _).
  eapply (resync_pass_exact_l w items w' (wi_ipam w Hw) Hcov Hpass x e q); try done.
  apply pod_gone_not_running; [congruence|done].
Qed.

(** * 9. K1: the reserve of a deleted deployment is never released by resync *)
Lemma prefix_reserve_never_resynced w x e ip o ocl fl :
  Inv2 (w_ipam w) → i_alloc (w_ipam w) !! x = Some e →
  Keys.is_empty (Keys.ko_pod (Keys.parse_key (e_key e))) = true →
  i_alloc (w_ipam (resync_section w ip o ocl fl).1) !! x = Some e.
Proof.
  intros Hi He Hpod. destruct (resync_section_frame w ip o ocl fl Hi) as (_ & _ & [E|(ey & _ & Hs & _ & Hc)]).
  { by rewrite E. }
  eapply rchg_other; [exact Hc|done|]. intros Ek. unfold resync_skip in Hs. rewrite <- Ek, Hpod in Hs.
  by rewrite orb_true_r in Hs.
Qed.

Lemma prefix_reserve_survives_pass w items w' x e :
  resync_pass w items w' → Inv2 (w_ipam w) → i_alloc (w_ipam w) !! x = Some e →
  Keys.is_empty (Keys.ko_pod (Keys.parse_key (e_key e))) = true →
  i_alloc (w_ipam w') !! x = Some e.
Proof.
  induction 1 as [w|w ip items o ocl w1 r w' Hres Hr Hpass IH]; intros Hi He Hpod; [done|].
  destruct (resync_section_frame w ip o ocl no_faults Hi) as (_ & Hi1 & _).
  pose proof (prefix_reserve_never_resynced w x e ip o ocl no_faults Hi He Hpod) as He1.
  rewrite Hres in Hi1, He1. by apply IH.
Qed.

(** * 10. Concrete worlds *)

(** a boolean check of the well-formedness of the histories used below *)
Definition c03_wf_pod_b (p : pod) : bool :=
  let ok s := negb (Keys.is_empty s) && negb (contains_char Keys.us s) in
  ok (pd_ns p) && ok (pd_name p) && negb (Keys.is_empty (pd_uid p)) &&
  match pd_kind p with KBare => true | _ => ok (pd_app p) end && negb (contains_char Keys.us (pd_pool p)).
Lemma c03_wf_pod_b_sound p : c03_wf_pod_b p = true → wf_pod p.
Proof.
  unfold c03_wf_pod_b. intros H. apply andb_true_iff in H as [H H5]. apply andb_true_iff in H as [H H4].
  apply andb_true_iff in H as [H H3]. apply andb_true_iff in H as [H1 H2]. split.
  - by apply small_name_ok'.
  - by apply small_name_ok'.
  - by destruct (pd_uid p).
  - destruct (pd_kind p); try done; by apply small_name_ok'.
  - apply contains_char_false. by apply negb_true_iff.
Qed.

Definition c03_fresh_b (w : world) (u : str) : bool :=
  forallb (λ kv : pkey * pod, negb (str_eqb (pd_uid kv.2) u)) (map_to_list (w_pods w)) &&
  forallb (λ kv : pkey * pod, negb (str_eqb (pd_uid kv.2) u)) (map_to_list (w_lister w)) &&
  forallb (λ q, negb (str_eqb (pd_uid q) u)) (w_queue w).
Lemma c03_fresh_b_sound w u : c03_fresh_b w u = true → uid_fresh w u.
Proof.
  unfold c03_fresh_b. intros H. apply andb_true_iff in H as [H H3]. apply andb_true_iff in H as [H1 H2].
  rewrite forallb_forall in H1, H2, H3. split_and!.
  - intros k q Hq. apply elem_of_map_to_list, elem_of_list_In in Hq. specialize (H1 _ Hq). cbn in H1.
    by destruct (str_eqb_spec (pd_uid q) u).
  - intros k q Hq. apply elem_of_map_to_list, elem_of_list_In in Hq. specialize (H2 _ Hq). cbn in H2.
    by destruct (str_eqb_spec (pd_uid q) u).
  - apply Forall_forall. intros q Hq. apply elem_of_list_In in Hq. specialize (H3 _ Hq). cbn in H3.
    by destruct (str_eqb_spec (pd_uid q) u).
Qed.

Definition c03_wf_op_b (w : world) (o : pop) : bool :=
  match o with
  | PEnv (EPodPut p) => c03_wf_pod_b p && Keys.is_empty (pd_node p) && match pd_ips p with [] => true | _ => false end &&
                        c03_fresh_b w (pd_uid p)
  | PEnv (EPodPhase _ _) => false
  | PEnv _ => true
  | PBind _ _ uid _ _ _ => negb (Keys.is_empty uid)
  | PApiRelease _ _ _ _ => false
  | PIpam (OConfigure _ _ []) => bool_decide (w_pods w = ∅)
  | PIpam _ => false
  | PRestart _ => false
  | PSyncPod p _ => c03_wf_pod_b p
  | _ => true
  end.
Lemma c03_wf_op_b_sound w o : c03_wf_op_b w o = true → wf_op w o.
Proof.
  destruct o as [ev|key nodes orc fl|ns name uid node orc fl|n orc oun fl|ip orc ocl fl|k ip ocl fl|sp fl|io|conf];
    cbn [c03_wf_op_b wf_op]; try done.
  - destruct ev; cbn [wf_env]; try done. intros H. apply andb_true_iff in H as [H H4].
    apply andb_true_iff in H as [H H3]. apply andb_true_iff in H as [H1 H2].
    split_and!; [by apply c03_wf_pod_b_sound|by destruct (pd_ips p)|by destruct (pd_node p)|by apply c03_fresh_b_sound].
  - intros H. by destruct uid.
  - apply c03_wf_pod_b_sound.
  - destruct io; try done. destruct delfail; [|done]. intros H. apply bool_decide_eq_true in H. split; [done|].
    intros ps _ k p x Hp. rewrite H in Hp. by rewrite lookup_empty in Hp.
Qed.
Fixpoint c03_wf_hist_b (w : world) (ops : list pop) : bool :=
  match ops with [] => true | o :: r => c03_wf_op_b w o && c03_wf_hist_b (pstep w o).1 r end.
Lemma c03_wf_hist_b_sound ops : ∀ w, c03_wf_hist_b w ops = true → wf_hist w ops.
Proof.
  induction ops as [|o r IH]; intros w; cbn [c03_wf_hist_b wf_hist]; [done|].
  intros H. apply andb_true_iff in H as [H1 H2]. split; [by apply c03_wf_op_b_sound|by apply IH].
Qed.

(** one pool 10.100.0.2~10.100.0.9 routable from 10.1.0.0/24 and 10.2.0.0/24; node1 = 10.1.0.7; 10.100.0.2 = 174325762 *)
Definition c03_conf : list json :=
  [JObj [(L "nodeSubnets", JArr [JStr (L "10.1.0.0/24"); JStr (L "10.2.0.0/24")]);
         (L "ips", JArr [JStr (L "10.100.0.2~10.100.0.9")]);
         (L "subnet", JStr (L "10.100.0.0/24"));
         (L "gateway", JStr (L "10.100.0.1"));
         (L "vlan", JNum 2%Z)]].
Definition c03_nodes : gmap str N := list_to_map [(L "node1", 167837703); (L "node2", 167903241)].
Definition c03_orc (f c : option N) (l : list N) : oracle := {| o_first := f; o_choice := c; o_order := l |}.
Definition c03_ip : N := 174325762.

(** K1: a deployment pod with the immutable policy gets 10.100.0.2, is deleted (its IP is parked under the
    application prefix "dp_ns1_app_"), then the deployment is deleted *)
Definition c03_dpod : pod :=
  {| pd_ns := L "ns1"; pd_name := L "app-5c-x1"; pd_uid := L "uD"; pd_kind := KDp; pd_app := L "app"; pd_pool := [];
     pd_policy := 1; pd_ranges := []; pd_phase := 0; pd_node := []; pd_ips := [] |}.
Definition c03_dk : pkey := (L "ns1", L "app-5c-x1").
Definition c03_h_k1 : list pop := [
  PIpam (OConfigure c03_conf false []);
  PEnv (EDpSet (L "ns1", L "app") (Some 1));
  PEnv (EPodPut c03_dpod);
  PEnv (EInformer c03_dk);
  PBind (L "ns1") (L "app-5c-x1") (L "uD") (L "node1") (c03_orc None (Some c03_ip) []) no_faults;
  PEnv (EPodDelete c03_dk);
  PEnv (EInformer c03_dk);
  PEvent 0 (c03_orc None None [c03_ip]) [] no_faults;
  PEnv (EDpSet (L "ns1", L "app") None) ].
Definition c03_w_k1 : world := prun (world0 false c03_nodes) c03_h_k1.

Lemma c03_w_k1_winv : WInv c03_w_k1.
Proof. apply winv_reachable, c03_wf_hist_b_sound. vm_compute. reflexivity. Qed.

Theorem dp_reserve_leak_refuted_l :
  ∃ w x e, WInv w ∧ w_pods w = ∅ ∧ w_lister w = ∅ ∧ w_queue w = [] ∧ w_dps w = ∅ ∧
    i_alloc (w_ipam w) !! x = Some e ∧ e_key e = L "dp_ns1_app_" ∧ e_policy e = 1 ∧ e_uid e = [] ∧
    (∀ ip o ocl fl, i_alloc (w_ipam (resync_section w ip o ocl fl).1) !! x = Some e) ∧
    (∀ items w', resync_pass w items w' → i_alloc (w_ipam w') !! x = Some e).
Proof.
  exists c03_w_k1, c03_ip. eexists. split; [apply c03_w_k1_winv|].
  split; [apply map_to_list_empty_iff; vm_compute; reflexivity|].
  split; [apply map_to_list_empty_iff; vm_compute; reflexivity|]. split; [vm_compute; reflexivity|].
  split; [apply map_to_list_empty_iff; vm_compute; reflexivity|].
  assert (∀ e, i_alloc (w_ipam c03_w_k1) !! c03_ip = Some e → e_key e = L "dp_ns1_app_" →
               Keys.is_empty (Keys.ko_pod (Keys.parse_key (e_key e))) = true) as Hpod.
  { intros e _ ->. vm_compute. reflexivity. }
  split; [vm_compute; reflexivity|]. split; [vm_compute; reflexivity|]. split; [vm_compute; reflexivity|].
  split; [vm_compute; reflexivity|]. split.
  - intros ip o ocl fl. apply prefix_reserve_never_resynced; [apply c03_w_k1_winv|vm_compute; reflexivity|].
    apply Hpod; vm_compute; reflexivity.
  - intros items w' Hp. eapply prefix_reserve_survives_pass; [exact Hp|apply c03_w_k1_winv|vm_compute; reflexivity|].
    apply Hpod; vm_compute; reflexivity.
Qed.

(** non-vacuity: the pod web-0 of the statefulset ns1/web (replicas 2) with policy [pol] gets 10.100.0.2 and is
    deleted; its delete event is lost; then the statefulset is scaled to [repl] (or deleted) *)
Definition c03_spod (pol : N) : pod :=
  {| pd_ns := L "ns1"; pd_name := L "web-0"; pd_uid := L "uA"; pd_kind := KSts; pd_app := L "web"; pd_pool := [];
     pd_policy := pol; pd_ranges := []; pd_phase := 0; pd_node := []; pd_ips := [] |}.
Definition c03_web0 : pkey := (L "ns1", L "web-0").
Definition c03_h_sts (pol : N) (repl : option N) : list pop := [
  PIpam (OConfigure c03_conf false []);
  PEnv (EStsSet (L "ns1", L "web") (Some 2));
  PEnv (EPodPut (c03_spod pol));
  PEnv (EInformer c03_web0);
  PBind (L "ns1") (L "web-0") (L "uA") (L "node1") (c03_orc None (Some c03_ip) []) no_faults;
  PEnv (EPodDelete c03_web0);
  PEnv (EInformer c03_web0);
  PEnv (EDropEvent 0);
  PEnv (EStsSet (L "ns1", L "web") repl) ].
Definition c03_w_sts (pol : N) (repl : option N) : world := prun (world0 false c03_nodes) (c03_h_sts pol repl).

Lemma resync_pass_one w ip o ocl :
  (resync_section w ip o ocl no_faults).2 ≠ SStuck → resync_pass w [ip] (resync_section w ip o ocl no_faults).1.
Proof.
  intros H. apply rp_cons with (o := o) (ocl := ocl) (w1 := (resync_section w ip o ocl no_faults).1)
                               (r := (resync_section w ip o ocl no_faults).2); [|done|apply rp_nil].
  by destruct (resync_section w ip o ocl no_faults).
Qed.

Lemma c03_example_l :
  let q := c03_spod 1 in
  let w := c03_w_sts 1 (Some 0) in            (* immutable, scaled to 0: must be freed *)
  let w2 := c03_w_sts 1 (Some 1) in           (* immutable, scaled to 1: kept for web-0 *)
  wf_pod q ∧ sts_named (pd_name q) ∧
  WInv w ∧ w_queue w = [] ∧ w_lister w = w_pods w ∧
  (∃ e, i_alloc (w_ipam w) !! c03_ip = Some e ∧ e_key e = pod_key q ∧ e_policy e = 1 ∧ e_uid e = L "uA" ∧
        resync_skip e (keyobj_of q) = false ∧ pod_running w (pd_ns q) (pd_name q) (e_uid e) = false ∧
        pod_gone w q (e_uid e) ∧ policy_verdict w (keyobj_of q) (e_policy e) = MustFree) ∧
  (∀ x, is_Some (i_alloc (w_ipam w) !! x) → x ∈ [c03_ip]) ∧
  (∃ w', resync_pass w [c03_ip] w' ∧ i_alloc (w_ipam w') !! c03_ip = None) ∧
  WInv w2 ∧ policy_verdict w2 (keyobj_of q) 1 = KeepForPod ∧
  (∃ w' e', resync_pass w2 [c03_ip] w' ∧ i_alloc (w_ipam w') !! c03_ip = Some e' ∧ e_key e' = pod_key q ∧
            e_uid e' = [] ∧ e_node e' = [] ∧ e_policy e' = 1).
Proof.
  intros q w w2.
  split; [apply c03_wf_pod_b_sound; vm_compute; reflexivity|].
  split; [exists (L "web"), (L "0"); split_and!; [reflexivity|discriminate|reflexivity]|].
  split; [apply winv_reachable, c03_wf_hist_b_sound; vm_compute; reflexivity|].
  split; [vm_compute; reflexivity|].
  split.
  { transitivity (∅ : gmap pkey pod); [|symmetry]; apply map_to_list_empty_iff; vm_compute; reflexivity. }
  split.
  { eexists. split; [vm_compute; reflexivity|]. split_and!; try (vm_compute; reflexivity).
    all: unfold pod_gone; replace (w_pods w !! pk q) with (@None pod) by (vm_compute; reflexivity); done. }
  split.
  { intros x [e He]. apply elem_of_list_singleton.
    apply elem_of_map_to_list in He.
    replace (map_to_list (i_alloc (w_ipam w))) with
      [(c03_ip, {| e_key := L "sts_ns1_web_web-0"; e_policy := 1; e_node := L "node1"; e_uid := L "uA"; e_reserved := false; e_time := 2 |})]
      in He by (vm_compute; reflexivity).
    apply elem_of_list_singleton in He. by injection He. }
  split.
  { eexists. split; [apply (resync_pass_one w c03_ip (c03_orc None None [c03_ip]) []); vm_compute; discriminate|].
    vm_compute. reflexivity. }
  split; [apply winv_reachable, c03_wf_hist_b_sound; vm_compute; reflexivity|].
  split; [vm_compute; reflexivity|].
  eexists _, _. split; [apply (resync_pass_one w2 c03_ip (c03_orc None None [c03_ip]) []); vm_compute; discriminate|].
  split; [vm_compute; reflexivity|]. split_and!; vm_compute; reflexivity.
Qed.

(** * 11. The statements of Props/C03.v (premise [WInv] instead of [Inv2]) *)
Lemma default_released_by_event_w w n q o oun fl w' :
  WInv w → w_queue w !! n = Some q → policy_of q = 0 → f_store fl = None →
  (∀ x e, i_alloc (w_ipam w) !! x = Some e → e_key e = pod_key q → e_uid e = [] ∨ e_uid e = pd_uid q) →
  pstep w (PEvent n o oun fl) = (w', ROk) →
  ∀ x e, i_alloc (w_ipam w) !! x = Some e → e_key e = pod_key q → i_alloc (w_ipam w') !! x = None.
Proof. intros Hw. apply default_released_by_event_l, Hw. Qed.

Lemma resync_item_exact_w w ip e q o ocl fl w' r :
  WInv w → i_alloc (w_ipam w) !! ip = Some e → wf_pod q → e_key e = pod_key q →
  resync_skip e (keyobj_of q) = false → pod_running w (pd_ns q) (pd_name q) (e_uid e) = false →
  e_policy e ≤ 2 → (pd_kind q = KSts → sts_named (pd_name q)) →
  f_store fl = None → f_cloud fl = None →
  resync_section w ip o ocl fl = (w', r) → r ≠ SStuck →
  same_env w w' ∧
  ∀ y ey, i_alloc (w_ipam w) !! y = Some ey → e_key ey = pod_key q →
    match policy_verdict w (keyobj_of q) (e_policy e) with
    | MustFree => i_alloc (w_ipam w') !! y = None
    | KeepForPod => ∃ ey', i_alloc (w_ipam w') !! y = Some ey' ∧ cleared ey ey' (pod_key q)
    | KeepForApp => ∃ ey', i_alloc (w_ipam w') !! y = Some ey' ∧ cleared ey ey' (Keys.pool_prefix (keyobj_of q))
    end.
Proof. intros Hw. apply resync_item_exact_l, Hw. Qed.

Lemma resync_pass_exact_w w items w' :
  WInv w → (∀ x, is_Some (i_alloc (w_ipam w) !! x) → x ∈ items) → resync_pass w items w' →
  ∀ x e q, i_alloc (w_ipam w') !! x = Some e → wf_pod q → e_key e = pod_key q → e_policy e ≤ 2 →
           resync_skip e (keyobj_of q) = false → pod_running w' (pd_ns q) (pd_name q) (e_uid e) = false →
           policy_verdict w' (keyobj_of q) (e_policy e) = KeepForPod.
Proof. intros Hw. apply resync_pass_exact_l, Hw. Qed.

Lemma prefix_reserve_survives_resync_w w x e ip o ocl fl :
  WInv w → i_alloc (w_ipam w) !! x = Some e → Keys.is_empty (Keys.ko_pod (Keys.parse_key (e_key e))) = true →
  i_alloc (w_ipam (resync_section w ip o ocl fl).1) !! x = Some e.
Proof. intros Hw. apply prefix_reserve_never_resynced, Hw. Qed.

(** closed under the global context *)
Print Assumptions release_only_when_licensed_l.
Print Assumptions never_kept_l.
Print Assumptions immutable_kept_sts_l.
Print Assumptions default_released_by_event_l.
Print Assumptions resync_item_exact_l.
Print Assumptions resync_pass_exact_l.
Print Assumptions resync_pass_no_orphans_l.
Print Assumptions dp_reserve_leak_refuted_l.
Print Assumptions c03_example_l.
