(** Proofs about Model/IpInfoCodec.v: the JSON scanner reads back what the printer prints (with the
    raw text of every member), the daemon extracts exactly the encoder's text, the k=v;... layer is
    lossless for it, and the plugins' decoder returns the original list. *)
From Coq Require Import List Ascii String NArith ZArith Bool Lia ZifyN ZifyNat ZifyBool Permutation.
From Galaxy.Base Require Import Strs.
From Galaxy.Model Require Import Nets Keys IpInfoCodec.
From Galaxy.Proofs Require Import NetsP KeysP PageP.
Import ListNotations.
Open Scope N_scope.

(** ---- characters ---- *)
Definition str_ok (s : str) : Prop := Forall (fun c => str_char_ok c = true) s.

Lemma digit_facts c : is_digit c = true ->
  is_ws c = false /\ str_char_ok c = true /\ Ascii.eqb c c_quote = false /\ Ascii.eqb c c_lbrack = false /\
  Ascii.eqb c c_lbrace = false /\ Ascii.eqb c c_minus = false /\ Ascii.eqb c c_rbrack = false /\
  Ascii.eqb c c_rbrace = false /\ Ascii.eqb c c_semi = false /\ is_space c = false.
Proof.
  destruct c as [b0 b1 b2 b3 b4 b5 b6 b7].
  destruct b0, b1, b2, b3, b4, b5, b6, b7; vm_compute; intros H; try discriminate H; repeat split.
Qed.

Lemma str_char_facts c : str_char_ok c = true -> Ascii.eqb c c_quote = false.
Proof.
  destruct c as [b0 b1 b2 b3 b4 b5 b6 b7].
  destruct b0, b1, b2, b3, b4, b5, b6, b7; vm_compute; intros H; try discriminate H; reflexivity.
Qed.

(** ---- numbers below 2^16: one sweep ---- *)
Definition num_sweep_ok (n : N) : bool :=
  let d := print_dec n in
  all_digits d && negb (is_empty d) &&
  match scan_nat d with Some (m, []) => m =? n | _ => false end.
Lemma num_sweep : forallb num_sweep_ok (nrange 65536) = true.
Proof. vm_compute. reflexivity. Qed.

Lemma num_ok n : n < 65536 ->
  all_digits (print_dec n) = true /\ print_dec n <> [] /\ scan_nat (print_dec n) = Some (n, []).
Proof.
  intros H. pose proof num_sweep as S. rewrite forallb_forall in S. specialize (S n (in_nrange 65536 n H)).
  unfold num_sweep_ok in S. apply andb_prop in S. destruct S as [S S3]. apply andb_prop in S. destruct S as [S1 S2].
  split; [exact S1|]. split; [destruct (print_dec n); [discriminate|discriminate]|].
  destruct (scan_nat (print_dec n)) as [[m [|? ?]]|]; try discriminate. apply N.eqb_eq in S3. subst. reflexivity.
Qed.

Definition follow_ok (rest : str) : Prop :=
  match rest with
  | [] => True
  | c :: _ => is_digit c = false /\ num_follow_ok rest = true
  end.

Lemma span_digits_app d rest acc : all_digits d = true -> follow_ok rest ->
  span_digits (d ++ rest) acc = (rev acc ++ d, rest).
Proof.
  revert acc. induction d as [|c d IH]; intros acc Hd Hf; simpl.
  - rewrite app_nil_r. destruct rest as [|c r]; [reflexivity|]. destruct Hf as [Hc _]. simpl. rewrite Hc. reflexivity.
  - simpl in Hd. apply andb_prop in Hd. destruct Hd as [Hc Hd]. rewrite Hc. rewrite IH by assumption.
    simpl. rewrite <- app_assoc. reflexivity.
Qed.

Lemma scan_nat_app d rest m : all_digits d = true -> d <> [] -> follow_ok rest ->
  scan_nat d = Some (m, []) -> scan_nat (d ++ rest) = Some (m, rest).
Proof.
  intros Hd Hne Hf. unfold scan_nat.
  rewrite (span_digits_app d rest [] Hd Hf). pose proof (span_digits_app d [] [] Hd I) as E. rewrite app_nil_r in E.
  rewrite E. simpl.
  assert (num_follow_ok rest = true) as Hn by (destruct rest; [reflexivity|apply Hf]).
  destruct d as [|z [|z2 d']]; [congruence| |]; rewrite Hn; simpl.
  - intros X; inversion X; reflexivity.
  - destruct (Ascii.eqb z "0"%char); [discriminate|]. intros X; inversion X; reflexivity.
Qed.

Lemma scan_string_ok s rest acc : str_ok s ->
  scan_string (s ++ c_quote :: rest) acc = Some (rev acc ++ s, rest).
Proof.
  revert acc. induction s as [|c s IH]; intros acc H; simpl.
  - rewrite app_nil_r. reflexivity.
  - inversion H as [|? ? Hc Hs]; subst. rewrite (str_char_facts c Hc), Hc. rewrite IH by assumption.
    simpl. rewrite <- app_assoc. reflexivity.
Qed.

(** ---- trees ---- *)
Section jv_induction.
  Variable P : jv -> Prop.
  Hypothesis Hnull : P VNull.
  Hypothesis Hbool : forall b, P (VBool b).
  Hypothesis Hnum : forall z, P (VNum z).
  Hypothesis Hnz : P VNegZero.
  Hypothesis Hstr : forall s, P (VStr s).
  Hypothesis Harr : forall l, Forall P l -> P (VArr l).
  Hypothesis Hobj : forall m, Forall (fun kv => P (snd kv)) m -> P (VObj m).
  Fixpoint jv_ind2 (v : jv) : P v :=
    match v with
    | VNull => Hnull
    | VBool b => Hbool b
    | VNum z => Hnum z
    | VNegZero => Hnz
    | VStr s => Hstr s
    | VArr l => Harr l ((fix go (l : list jv) : Forall P l :=
                           match l with
                           | [] => Forall_nil _
                           | x :: r => Forall_cons _ (jv_ind2 x) (go r)
                           end) l)
    | VObj m => Hobj m ((fix go (m : list (str * jv)) : Forall (fun kv => P (snd kv)) m :=
                           match m with
                           | [] => Forall_nil _
                           | (k, x) :: r => Forall_cons (k, x) (jv_ind2 x) (go r)
                           end) m)
    end.
End jv_induction.

(** the domain of the scanner theorems: numbers in [0, 2^16), strings and member names of
    escape-free printable ASCII *)
Fixpoint jv_ok (v : jv) : Prop :=
  match v with
  | VNull | VBool _ => True
  | VNum z => (0 <= z < 65536)%Z
  | VNegZero => False
  | VStr s => str_ok s
  | VArr l => (fix all (l : list jv) : Prop := match l with [] => True | x :: r => jv_ok x /\ all r end) l
  | VObj m => (fix all (m : list (str * jv)) : Prop :=
                 match m with [] => True | (k, x) :: r => str_ok k /\ jv_ok x /\ all r end) m
  end.

Lemma jv_ok_arr l : jv_ok (VArr l) <-> Forall jv_ok l.
Proof.
  induction l as [|x r IH]; simpl; split; intros H; auto.
  - destruct H as [H1 H2]. constructor; [exact H1|apply IH, H2].
  - inversion H; subst. split; [assumption|apply IH; assumption].
Qed.
Lemma jv_ok_obj m : jv_ok (VObj m) <-> Forall (fun kv => str_ok (fst kv) /\ jv_ok (snd kv)) m.
Proof.
  induction m as [|[k x] r IH]; simpl; split; intros H; auto.
  - destruct H as [H1 [H2 H3]]. constructor; [split; assumption|apply IH, H3].
  - inversion H as [|? ? [H1 H2] H3]; subst. split; [assumption|split; [assumption|apply IH; assumption]].
Qed.

Fixpoint size (v : jv) : nat :=
  match v with
  | VArr l => S (list_sum (map size l))
  | VObj m => S (list_sum (map (fun kv => match kv with (_, x) => size x end) m))
  | _ => 1%nat
  end.

Lemma size_pos v : (1 <= size v)%nat.
Proof. destruct v; simpl; lia. Qed.
Lemma list_sum_ge_len {A} (f : A -> nat) l : (forall x, 1 <= f x)%nat -> (List.length l <= list_sum (map f l))%nat.
Proof. intros H. induction l as [|x r IH]; simpl; [lia|]. specialize (H x). lia. Qed.
Lemma list_sum_ge_in {A} (f : A -> nat) l x : In x l -> (f x <= list_sum (map f l))%nat.
Proof. induction l as [|y r IH]; simpl; [intros []|]. intros [->|H]; [lia|]. specialize (IH H). lia. Qed.

(** first character of a printed value: not white space, not a closing bracket *)
Lemma print_head v : jv_ok v -> exists c t, print_json v = c :: t /\ is_ws c = false /\
  Ascii.eqb c c_rbrack = false /\ Ascii.eqb c c_rbrace = false.
Proof.
  assert (forall c t, is_ws c = false -> Ascii.eqb c c_rbrack = false -> Ascii.eqb c c_rbrace = false ->
          exists c' t', c :: t = c' :: t' /\ is_ws c' = false /\ Ascii.eqb c' c_rbrack = false /\
                        Ascii.eqb c' c_rbrace = false) as Mk by (intros c t; eauto 8).
  destruct v as [|b|z| |s|l|m]; simpl; intros H.
  - apply Mk; reflexivity.
  - destruct b; apply Mk; reflexivity.
  - unfold print_int. replace (z <? 0)%Z with false by lia.
    destruct (num_ok (Z.to_N z) ltac:(lia)) as [Hd [Hne _]].
    destruct (print_dec (Z.to_N z)) as [|c t]; [congruence|]. simpl in Hd. apply andb_prop in Hd. destruct Hd as [Hc _].
    pose proof (digit_facts c Hc). apply Mk; tauto.
  - contradiction.
  - apply Mk; reflexivity.
  - apply Mk; reflexivity.
  - apply Mk; reflexivity.
Qed.

Lemma skip_ws_head c t : is_ws c = false -> skip_ws (c :: t) = c :: t.
Proof. intros H. simpl. rewrite H. reflexivity. Qed.

Lemma firstn_app_len {A} (a r : list A) : firstn (List.length (a ++ r) - List.length r) (a ++ r) = a.
Proof.
  rewrite app_length. replace (List.length a + List.length r - List.length r)%nat with (List.length a + 0)%nat by lia.
  rewrite firstn_app_2. simpl. apply app_nil_r.
Qed.

(** ---- the loops ---- *)
Definition parses (pv : str -> option (jv * str)) (x : jv) : Prop :=
  forall rest, follow_ok rest -> pv (print_json x ++ rest) = Some (x, rest).

Lemma follow_comma r : follow_ok (c_comma :: r).
Proof. split; reflexivity. Qed.
Lemma follow_rbrack r : follow_ok (c_rbrack :: r).
Proof. split; reflexivity. Qed.
Lemma follow_rbrace r : follow_ok (c_rbrace :: r).
Proof. split; reflexivity. Qed.

Lemma elems_ok pv l : l <> [] -> Forall (parses pv) l -> forall g acc rest, (List.length l <= g)%nat ->
  parse_elems pv g (join c_comma (map print_json l) ++ c_rbrack :: rest) acc = Some (rev acc ++ l, rest).
Proof.
  induction l as [|x r IH]; intros Hne Hp g acc rest Hg; [congruence|].
  inversion Hp as [|? ? Hx Hr]; subst. destruct g as [|g]; [simpl in Hg; lia|].
  destruct r as [|y r'].
  - simpl. rewrite (Hx _ (follow_rbrack rest)). simpl. reflexivity.
  - change (join c_comma (map print_json (x :: y :: r'))) with
      (print_json x ++ c_comma :: join c_comma (map print_json (y :: r'))).
    rewrite <- app_assoc. simpl. rewrite (Hx _ (follow_comma _)). simpl.
    rewrite IH; [|discriminate|assumption|simpl in *; lia]. simpl. rewrite <- app_assoc. reflexivity.
Qed.

Definition with_raw (kv : str * jv) : str * jv * str := (fst kv, snd kv, print_json (snd kv)).

Lemma members_ok pv m : m <> [] -> Forall (fun kv => str_ok (fst kv) /\ jv_ok (snd kv) /\ parses pv (snd kv)) m ->
  forall g acc rest, (List.length m <= g)%nat ->
  parse_members pv g (join c_comma (map (print_member print_json) m) ++ c_rbrace :: rest) acc =
  Some (rev acc ++ map with_raw m, rest).
Proof.
  induction m as [|[k x] r IH]; intros Hne Hp g acc rest Hg; [congruence|].
  inversion Hp as [|? ? [Hk [Hok Hx]] Hr]; subst. cbn [fst snd] in *. destruct g as [|g]; [simpl in Hg; lia|].
  destruct (print_head x Hok) as [c [t [Eh [Hws _]]]].
  assert (forall tail, follow_ok tail ->
          parse_members pv (S g) ((c_quote :: k ++ c_quote :: c_colon :: print_json x) ++ tail) acc =
          match skip_ws tail with
          | c2 :: r4 => if Ascii.eqb c2 c_comma then parse_members pv g r4 ((k, x, print_json x) :: acc)
                        else if Ascii.eqb c2 c_rbrace then Some (rev ((k, x, print_json x) :: acc), r4) else None
          | [] => None
          end) as Step.
  { intros tail Ht. cbn [parse_members]. rewrite <- app_comm_cons. rewrite skip_ws_head by reflexivity.
    replace (Ascii.eqb c_quote c_quote) with true by reflexivity.
    rewrite <- app_assoc. rewrite <- app_comm_cons. rewrite scan_string_ok by assumption. cbn [rev List.app].
    rewrite skip_ws_head by reflexivity.
    replace (Ascii.eqb c_colon c_colon) with true by reflexivity.
    assert (skip_ws (print_json x ++ tail) = print_json x ++ tail) as Ews by (rewrite Eh; apply skip_ws_head, Hws).
    rewrite Ews. rewrite (Hx tail Ht). rewrite firstn_app_len. reflexivity. }
  destruct r as [|[k2 y] r'].
  - change (join c_comma (map (print_member print_json) [(k, x)])) with (c_quote :: k ++ c_quote :: c_colon :: print_json x).
    rewrite Step by apply follow_rbrace. rewrite skip_ws_head by reflexivity. simpl. reflexivity.
  - change (join c_comma (map (print_member print_json) ((k, x) :: (k2, y) :: r'))) with
      ((c_quote :: k ++ c_quote :: c_colon :: print_json x) ++
       c_comma :: join c_comma (map (print_member print_json) ((k2, y) :: r'))).
    rewrite <- app_assoc. rewrite Step by apply follow_comma. rewrite <- app_comm_cons.
    rewrite skip_ws_head by reflexivity. replace (Ascii.eqb c_comma c_comma) with true by reflexivity.
    rewrite IH; [|discriminate|assumption|simpl in *; lia]. simpl. rewrite <- app_assoc. reflexivity.
Qed.

Lemma join_cons_head c p ps : exists tl, join c (p :: ps) = p ++ tl.
Proof. destruct ps as [|q ps]; [exists []; simpl; rewrite app_nil_r; reflexivity|exists (c :: join c (q :: ps)); reflexivity]. Qed.

Lemma strip_with_raw m : strip (map with_raw m) = m.
Proof. unfold strip. rewrite map_map. induction m as [|[k x] r IH]; simpl; [reflexivity|]. f_equal. exact IH. Qed.

(** the scanner reads back every printed value of the domain, leaving the rest untouched *)
Lemma parse_print v : jv_ok v -> forall f rest, (size v <= f)%nat -> follow_ok rest ->
  parse_value f (print_json v ++ rest) = Some (v, rest).
Proof.
  induction v as [|b|z| |s|l IHl|m IHm] using jv_ind2; intros Hok f rest Hf Hr;
    (destruct f as [|f]; [simpl in Hf; lia|]).
  - reflexivity.
  - destruct b; reflexivity.
  - simpl in Hok. cbn [print_json]. unfold print_int. replace (z <? 0)%Z with false by lia.
    destruct (num_ok (Z.to_N z) ltac:(lia)) as [Hd [Hne Hs]].
    pose proof (scan_nat_app _ rest _ Hd Hne Hr Hs) as Hscan.
    destruct (print_dec (Z.to_N z)) as [|c t] eqn:Ed; [congruence|].
    assert (is_digit c = true) as Hc by (simpl in Hd; apply andb_prop in Hd; tauto).
    destruct (digit_facts c Hc) as [F1 [F2 [F3 [F4 [F5 [F6 _]]]]]].
    cbn [parse_value]. rewrite <- app_comm_cons. rewrite skip_ws_head by assumption.
    rewrite F3, F4, F5, F6, Hc. rewrite app_comm_cons, Hscan. rewrite Z2N.id by lia. reflexivity.
  - contradiction.
  - simpl in Hok. cbn [print_json parse_value]. rewrite <- app_comm_cons. rewrite skip_ws_head by reflexivity.
    replace (Ascii.eqb c_quote c_quote) with true by reflexivity. rewrite <- app_assoc.
    rewrite <- app_comm_cons. rewrite scan_string_ok by assumption. reflexivity.
  - apply jv_ok_arr in Hok. cbn [size] in Hf. cbn [print_json].
    destruct l as [|x r]; [reflexivity|].
    assert (Forall (parses (parse_value f)) (x :: r)) as Hp.
    { apply Forall_forall. intros y Hy. rewrite Forall_forall in IHl, Hok. intros rest' Hr'.
      apply IHl; [assumption|apply Hok; assumption| |assumption].
      pose proof (list_sum_ge_in size (x :: r) y Hy). lia. }
    assert (List.length (x :: r) <= f)%nat as Hlen.
    { pose proof (list_sum_ge_len size (x :: r) size_pos). lia. }
    destruct (join_cons_head c_comma (print_json x) (map print_json r)) as [tl Etl].
    inversion Hok as [|? ? Hx _]; subst. destruct (print_head x Hx) as [c [t [Eh [Hws [Hrb _]]]]].
    cbn [parse_value]. rewrite <- app_comm_cons. rewrite skip_ws_head by reflexivity.
    replace (Ascii.eqb c_lbrack c_quote) with false by reflexivity.
    replace (Ascii.eqb c_lbrack c_lbrack) with true by reflexivity.
    rewrite <- app_assoc.
    assert (skip_ws (join c_comma (map print_json (x :: r)) ++ [c_rbrack] ++ rest) =
            c :: t ++ tl ++ [c_rbrack] ++ rest) as Ews.
    { change (map print_json (x :: r)) with (print_json x :: map print_json r). rewrite Etl, Eh.
      rewrite <- !app_assoc. rewrite <- app_comm_cons. apply skip_ws_head, Hws. }
    rewrite Ews, Hrb. change ([c_rbrack] ++ rest) with (c_rbrack :: rest).
    rewrite (elems_ok (parse_value f) (x :: r) ltac:(discriminate) Hp f [] rest Hlen). reflexivity.
  - apply jv_ok_obj in Hok. cbn [size] in Hf. cbn [print_json].
    destruct m as [|[k x] r]; [reflexivity|].
    assert (Forall (fun kv => str_ok (fst kv) /\ jv_ok (snd kv) /\ parses (parse_value f) (snd kv)) ((k, x) :: r)) as Hp.
    { apply Forall_forall. intros kv Hy. rewrite Forall_forall in IHm, Hok. destruct (Hok kv Hy) as [H1 H2].
      split; [assumption|split; [assumption|]]. intros rest' Hr'.
      apply IHm; [assumption|assumption| |assumption].
      pose proof (list_sum_ge_in (fun kv => match kv with (_, x) => size x end) ((k, x) :: r) kv Hy) as G.
      destruct kv; cbn [snd]. lia. }
    assert (List.length ((k, x) :: r) <= f)%nat as Hlen.
    { pose proof (list_sum_ge_len (fun kv : str * jv => match kv with (_, x) => size x end) ((k, x) :: r)
                    ltac:(intros [? y]; apply size_pos)). lia. }
    destruct (join_cons_head c_comma (print_member print_json (k, x)) (map (print_member print_json) r)) as [tl Etl].
    cbn [parse_value]. rewrite <- app_comm_cons. rewrite skip_ws_head by reflexivity.
    replace (Ascii.eqb c_lbrace c_quote) with false by reflexivity.
    replace (Ascii.eqb c_lbrace c_lbrack) with false by reflexivity.
    replace (Ascii.eqb c_lbrace c_lbrace) with true by reflexivity.
    rewrite <- app_assoc. unfold obj_body.
    assert (exists t', join c_comma (map (print_member print_json) ((k, x) :: r)) ++ [c_rbrace] ++ rest = c_quote :: t') as [t' Et'].
    { change (map (print_member print_json) ((k, x) :: r)) with
        (print_member print_json (k, x) :: map (print_member print_json) r). rewrite Etl.
      cbn [print_member]. rewrite <- !app_comm_cons. eexists. reflexivity. }
    rewrite Et'. rewrite skip_ws_head by reflexivity.
    replace (Ascii.eqb c_quote c_rbrace) with false by reflexivity. rewrite <- Et'.
    change ([c_rbrace] ++ rest) with (c_rbrace :: rest).
    rewrite (members_ok (parse_value f) ((k, x) :: r) ltac:(discriminate) Hp f [] rest Hlen).
    cbn [rev List.app]. rewrite strip_with_raw. reflexivity.
Qed.

(** ---- fuel: the length of the text is enough ---- *)
Lemma join_len_ge c ps : (list_sum (map (@List.length ascii) ps) <= List.length (join c ps))%nat.
Proof.
  induction ps as [|p ps IH]; [simpl; lia|]. destruct ps as [|q ps]; [simpl; lia|].
  change (join c (p :: q :: ps)) with (p ++ c :: join c (q :: ps)). rewrite app_length. simpl in *. lia.
Qed.
Lemma list_sum_le {A} (f g : A -> nat) l : Forall (fun x => f x <= g x)%nat l ->
  (list_sum (map f l) <= list_sum (map g l))%nat.
Proof. induction 1; simpl; lia. Qed.

Lemma size_le_len v : jv_ok v -> (size v <= List.length (print_json v))%nat.
Proof.
  induction v as [|b|z| |s|l IHl|m IHm] using jv_ind2; intros Hok.
  - simpl; lia.
  - destruct b; simpl; lia.
  - simpl in Hok. cbn [print_json size]. unfold print_int. replace (z <? 0)%Z with false by lia.
    destruct (num_ok (Z.to_N z) ltac:(lia)) as [_ [Hne _]]. destruct (print_dec (Z.to_N z)); [congruence|simpl; lia].
  - contradiction.
  - simpl. lia.
  - apply jv_ok_arr in Hok. cbn [size print_json]. simpl List.length. rewrite app_length. simpl.
    pose proof (join_len_ge c_comma (map print_json l)) as J. rewrite map_map in J.
    assert (list_sum (map size l) <= list_sum (map (fun x => List.length (print_json x)) l))%nat as S1.
    { apply list_sum_le. rewrite Forall_forall in *. intros x Hx. apply IHl; [assumption|apply Hok; assumption]. }
    lia.
  - apply jv_ok_obj in Hok. cbn [size print_json]. simpl List.length. rewrite app_length. simpl.
    pose proof (join_len_ge c_comma (map (print_member print_json) m)) as J. rewrite map_map in J.
    assert (list_sum (map (fun kv : str * jv => match kv with (_, x) => size x end) m) <=
            list_sum (map (fun x => List.length (print_member print_json x)) m))%nat as S1.
    { apply list_sum_le. rewrite Forall_forall in *. intros [k x] Hx. specialize (IHm _ Hx). specialize (Hok _ Hx).
      cbn [snd fst] in *. cbn [print_member]. simpl List.length. rewrite app_length. simpl.
      specialize (IHm (proj2 Hok)). lia. }
    lia.
Qed.

Theorem parse_json_print v : jv_ok v -> parse_json (print_json v) = Some v.
Proof.
  intros Hok. unfold parse_json, fuel_for. pose proof (size_le_len v Hok) as Hs.
  pose proof (parse_print v Hok (S (List.length (print_json v))) [] ltac:(lia) I) as P.
  rewrite app_nil_r in P. rewrite P. reflexivity.
Qed.

(** the members of a printed object, each with the raw text of its value *)
Lemma member_len_le m kv : In kv m ->
  (List.length (print_json (snd kv)) <= List.length (join c_comma (map (print_member print_json) m)))%nat.
Proof.
  intros Hin. pose proof (join_len_ge c_comma (map (print_member print_json) m)) as J. rewrite map_map in J.
  pose proof (list_sum_ge_in (fun x => List.length (print_member print_json x)) m kv Hin) as G.
  destruct kv as [k x]. cbn [snd print_member] in *. simpl List.length in G. rewrite app_length in G. simpl in G. lia.
Qed.

Lemma len_cons {A} (a : A) l : List.length (a :: l) = S (List.length l).
Proof. reflexivity. Qed.

Theorem top_members_print m : jv_ok (VObj m) -> top_members (print_json (VObj m)) = Some (map with_raw m).
Proof.
  intros Hok. destruct m as [|[k x] r]; [reflexivity|]. apply jv_ok_obj in Hok.
  unfold top_members. set (s := print_json (VObj ((k, x) :: r))). set (F := fuel_for s).
  assert (s = c_lbrace :: join c_comma (map (print_member print_json) ((k, x) :: r)) ++ [c_rbrace]) as Es by reflexivity.
  assert (Forall (fun kv => str_ok (fst kv) /\ jv_ok (snd kv) /\ parses (parse_value F) (snd kv)) ((k, x) :: r)) as Hp.
  { apply Forall_forall. intros kv Hy. rewrite Forall_forall in Hok. destruct (Hok kv Hy) as [H1 H2].
    split; [assumption|split; [assumption|]]. intros rest' Hr'. apply parse_print; [assumption| |assumption].
    pose proof (size_le_len _ H2). pose proof (member_len_le _ _ Hy). subst F. unfold fuel_for. rewrite Es.
    rewrite (len_cons c_lbrace), app_length. lia. }
  assert (List.length ((k, x) :: r) <= F)%nat as Hlen.
  { pose proof (join_len_ge c_comma (map (print_member print_json) ((k, x) :: r))) as J. rewrite map_map in J.
    pose proof (list_sum_ge_len (fun x => List.length (print_member print_json x)) ((k, x) :: r)
                  ltac:(intros [? ?]; cbn [print_member]; simpl; lia)) as G.
    subst F. unfold fuel_for. rewrite Es. rewrite (len_cons c_lbrace), app_length. lia. }
  rewrite Es. rewrite skip_ws_head by reflexivity. replace (Ascii.eqb c_lbrace c_lbrace) with true by reflexivity.
  unfold obj_body.
  destruct (join_cons_head c_comma (print_member print_json (k, x)) (map (print_member print_json) r)) as [tl Etl].
  assert (exists t', join c_comma (map (print_member print_json) ((k, x) :: r)) ++ [c_rbrace] = c_quote :: t') as [t' Et'].
  { change (map (print_member print_json) ((k, x) :: r)) with
      (print_member print_json (k, x) :: map (print_member print_json) r). rewrite Etl.
    cbn [print_member]. rewrite <- !app_comm_cons. eexists. reflexivity. }
  rewrite Et'. rewrite skip_ws_head by reflexivity.
  replace (Ascii.eqb c_quote c_rbrace) with false by reflexivity. rewrite <- Et'.
  change [c_rbrace] with (c_rbrace :: []).
  rewrite (members_ok (parse_value F) ((k, x) :: r) ltac:(discriminate) Hp F [] [] Hlen). reflexivity.
Qed.

(** ---- what Bind writes is inside the scanner's domain ---- *)
Definition ipinfo_ok (i : ipinfo) : Prop :=
  ii_addr i < two32 /\ ii_len i <= 32 /\ ii_vlan i < 65536 /\ (forall g, ii_gw i = Some g -> g < two32).

Definition plain_b (c : ascii) : bool := str_char_ok c && negb (Ascii.eqb c c_semi) && negb (Ascii.eqb c c_eq).
Definition plain (s : str) : Prop := Forall (fun c => plain_b c = true) s.

Lemma small_dec_sweep : forallb (fun o => forallb plain_b (print_dec o)) (nrange 256) = true.
Proof. vm_compute. reflexivity. Qed.
Lemma small_dec_plain o : o < 256 -> plain (print_dec o).
Proof.
  intros H. pose proof small_dec_sweep as S. rewrite forallb_forall in S. specialize (S o (in_nrange 256 o H)).
  apply Forall_forall. rewrite forallb_forall in S. exact S.
Qed.
Lemma plain_app a b : plain a -> plain b -> plain (a ++ b).
Proof. apply Forall_app_intro || (intros; apply Forall_app; split; assumption). Qed.
Lemma plain_cons c a : plain_b c = true -> plain a -> plain (c :: a).
Proof. intros; constructor; assumption. Qed.

Ltac Zify.zify_post_hook ::= Z.div_mod_to_equations.
Lemma plain_ipv4 n : n < two32 -> plain (print_ipv4 n).
Proof.
  unfold two32. intros H. unfold print_ipv4.
  repeat (first [apply plain_app | apply plain_cons; [reflexivity|]]); apply small_dec_plain; lia.
Qed.
Lemma plain_cidr a l : a < two32 -> l <= 32 -> plain (print_cidr a l).
Proof.
  intros Ha Hl. unfold print_cidr. apply plain_app; [apply plain_ipv4; assumption|].
  apply plain_cons; [reflexivity|]. apply small_dec_plain. lia.
Qed.
Lemma plain_str_ok s : plain s -> str_ok s.
Proof.
  apply Forall_impl. intros c H. unfold plain_b in H. apply andb_prop in H. destruct H as [H _].
  apply andb_prop in H. tauto.
Qed.

Lemma lit_ok s : forallb str_char_ok s = true -> str_ok s.
Proof. intros H. apply Forall_forall. rewrite forallb_forall in H. exact H. Qed.

Lemma ipinfo_tree_ok i : ipinfo_ok i -> jv_ok (ipinfo_tree i).
Proof.
  intros [Ha [Hl [Hv Hg]]]. unfold ipinfo_tree. apply jv_ok_obj.
  constructor; [split; cbn [fst snd]; [apply lit_ok; reflexivity|apply plain_str_ok, plain_cidr; assumption]|].
  constructor; [split; cbn [fst snd]; [apply lit_ok; reflexivity|simpl; lia]|].
  constructor; [split; cbn [fst snd]; [apply lit_ok; reflexivity|]|constructor].
  destruct (ii_gw i) as [g|]; [apply plain_str_ok, plain_ipv4, Hg; reflexivity|constructor].
Qed.

Lemma ipinfos_tree_ok l : Forall ipinfo_ok l -> jv_ok (VArr (map ipinfo_tree l)).
Proof.
  intros H. apply jv_ok_arr. apply Forall_forall. intros x Hx. apply in_map_iff in Hx. destruct Hx as [i [<- Hi]].
  apply ipinfo_tree_ok. rewrite Forall_forall in H. apply H, Hi.
Qed.

Definition rr_ok (rr : option jv) : Prop := match rr with Some v => jv_ok v | None => True end.

Lemma annotation_tree_ok rr l : rr_ok rr -> Forall ipinfo_ok l -> jv_ok (annotation_tree rr l).
Proof.
  intros Hr Hl. unfold annotation_tree. apply jv_ok_obj. apply Forall_app. split.
  - destruct rr as [v|]; [|constructor]. constructor; [split; cbn [fst snd]; [apply lit_ok; reflexivity|exact Hr]|constructor].
  - constructor; [split; cbn [fst snd]; [apply lit_ok; reflexivity|]|constructor]. apply jv_ok_obj.
    destruct l as [|i l']; [constructor|].
    constructor; [split; cbn [fst snd]; [apply lit_ok; reflexivity|]|constructor]. apply ipinfos_tree_ok, Hl.
Qed.

(** the daemon's scanner hands the plugin exactly the encoder's text *)
Theorem annotation_scanned_l rr l : rr_ok rr -> Forall ipinfo_ok l ->
  ext_args (annotation rr l) =
  Some (match l with [] => [] | _ => [(L "ipinfos", enc_ipinfos l)] end).
Proof.
  intros Hr Hl. pose proof (annotation_tree_ok rr l Hr Hl) as Hok.
  unfold ext_args, annotation. unfold annotation_tree in *. rewrite top_members_print by exact Hok.
  set (cm := match l with [] => [] | _ :: _ => [(L "ipinfos", VArr (map ipinfo_tree l))] end) in *.
  assert (jv_ok (VObj cm)) as Hcm.
  { apply jv_ok_obj in Hok. apply Forall_app in Hok. destruct Hok as [_ Hc]. inversion Hc as [|? ? [_ H] _]; subst. exact H. }
  assert (filter (fun m => str_eqb (lower (fst (fst m))) (L "common"))
                 (map with_raw ((match rr with Some v => [(L "request_ip_range", v)] | None => [] end) ++
                                [(L "common", VObj cm)])) =
          [(L "common", VObj cm, print_json (VObj cm))]) as Ef by (destruct rr; reflexivity).
  rewrite Ef. rewrite top_members_print by exact Hcm.
  subst cm. destruct l; reflexivity.
Qed.

(** ---- the encoder's text and the k=v;... layer ---- *)
Definition nosemi (c : ascii) : Prop := Ascii.eqb c c_semi = false.

Lemma Forall_join (Q : ascii -> Prop) c ps : Q c -> Forall (Forall Q) ps -> Forall Q (join c ps).
Proof.
  intros Hc H. induction H as [|p ps Hp Hps IH]; [constructor|]. destruct ps as [|q ps]; [exact Hp|].
  change (join c (p :: q :: ps)) with (p ++ c :: join c (q :: ps)). apply Forall_app. split; [exact Hp|].
  constructor; [exact Hc|exact IH].
Qed.

Lemma plain_nosemi s : plain s -> Forall nosemi s.
Proof.
  apply Forall_impl. intros c H. unfold plain_b in H. apply andb_prop in H. destruct H as [H _].
  apply andb_prop in H. destruct H as [_ H]. unfold nosemi. destruct (Ascii.eqb c c_semi); [discriminate|reflexivity].
Qed.
Lemma digits_nosemi s : all_digits s = true -> Forall nosemi s.
Proof.
  intros H. apply Forall_forall. intros c Hc. unfold all_digits in H. rewrite forallb_forall in H.
  pose proof (digit_facts c (H c Hc)). unfold nosemi. tauto.
Qed.

Lemma enc_one_nosemi i : ipinfo_ok i -> Forall nosemi (print_json (ipinfo_tree i)).
Proof.
  intros [Ha [Hl [Hv Hg]]].
  assert (Forall nosemi (print_cidr (ii_addr i) (ii_len i))) as H1 by (apply plain_nosemi, plain_cidr; assumption).
  assert (Forall nosemi (print_int (Z.of_N (ii_vlan i)))) as H2.
  { unfold print_int. replace (Z.of_N (ii_vlan i) <? 0)%Z with false by lia. rewrite N2Z.id.
    apply digits_nosemi. apply (num_ok _ Hv). }
  assert (Forall nosemi (match ii_gw i with Some g => print_ipv4 g | None => [] end)) as H3.
  { destruct (ii_gw i) as [g|]; [apply plain_nosemi, plain_ipv4, Hg; reflexivity|constructor]. }
  unfold ipinfo_tree. cbn [print_json map print_member join].
  repeat first [ apply Forall_nil | exact H1 | exact H2 | exact H3
               | apply Forall_cons; [reflexivity|] | apply Forall_app; split ].
Qed.

Theorem enc_no_semicolon_l l : Forall ipinfo_ok l -> free c_semi (enc_ipinfos l).
Proof.
  intros H. assert (Forall nosemi (enc_ipinfos l)) as F.
  { unfold enc_ipinfos. cbn [print_json]. constructor; [reflexivity|]. apply Forall_app. split; [|repeat constructor].
    apply Forall_join; [reflexivity|]. apply Forall_forall. intros s Hs. rewrite map_map in Hs.
    apply in_map_iff in Hs. destruct Hs as [i [<- Hi]]. apply enc_one_nosemi. rewrite Forall_forall in H. apply H, Hi. }
  intros Hin. rewrite Forall_forall in F. specialize (F _ Hin). unfold nosemi in F. rewrite Ascii.eqb_refl in F. discriminate.
Qed.

Lemma enc_shape l : exists X, enc_ipinfos l = c_lbrack :: X ++ [c_rbrack].
Proof. eexists. reflexivity. Qed.

Lemma trim_space_id c X c' : is_space c = false -> is_space c' = false ->
  trim_space (c :: X ++ [c']) = c :: X ++ [c'].
Proof.
  intros Hc Hc'. unfold trim_space. cbn [trim_left]. rewrite Hc.
  assert (rev (c :: X ++ [c']) = c' :: rev X ++ [c]) as E by (simpl; rewrite rev_app_distr; reflexivity).
  rewrite E. cbn [trim_left]. rewrite Hc'. rewrite <- E. apply rev_involutive.
Qed.

Theorem enc_no_outer_space_l l : trim_space (enc_ipinfos l) = enc_ipinfos l /\ enc_ipinfos l <> [].
Proof.
  destruct (enc_shape l) as [X ->]. split; [apply trim_space_id; reflexivity|discriminate].
Qed.

Lemma trim_right_last s c : Ascii.eqb c c_semi = false -> trim_right_semis (s ++ [c]) = s ++ [c].
Proof.
  intros H. unfold trim_right_semis. rewrite rev_app_distr. cbn [rev List.app drop_semis]. rewrite H.
  change (c :: rev s) with (rev [c] ++ rev s). rewrite <- rev_app_distr. apply rev_involutive.
Qed.

Definition ipinfos_key : str := L "ipinfos".

Theorem ipinfos_key_no_equals_l : free c_eq ipinfos_key /\ free c_semi ipinfos_key /\ trim_space ipinfos_key = ipinfos_key.
Proof. split; [|split]; [apply contains_char_false; reflexivity|apply contains_char_false; reflexivity|reflexivity]. Qed.

(** the last field of the argument string wins, whatever precedes it *)
Lemma get_arg_last key v pre : free c_semi (key ++ c_eq :: v) -> free c_eq key ->
  trim_space key = key -> trim_space v = v ->
  get_arg key (pre ++ c_semi :: key ++ c_eq :: v) = Some v.
Proof.
  intros Hs He Hk Hv. unfold get_arg, parse_args. rewrite split_app_sep, (split_free c_semi _ Hs).
  rewrite flat_map_app. cbn [flat_map]. rewrite cut_app by assumption. rewrite app_nil_r, fold_left_app.
  cbn [fold_left fst snd]. rewrite Hk, Hv, str_eqb_refl. reflexivity.
Qed.

Lemma accumulate_last kubelet pre b : accumulate kubelet (pre ++ [b]) =
  trim_right_semis (accumulate kubelet pre ++ c_semi :: b).
Proof. unfold accumulate. rewrite fold_left_app. reflexivity. Qed.

Lemma allocate_accumulated kubelet pre l : Forall ipinfo_ok l ->
  allocate (accumulate kubelet (pre ++ [build_args [(ipinfos_key, enc_ipinfos l)]])) = dec_ipinfos (enc_ipinfos l).
Proof.
  intros Hl. rewrite accumulate_last. unfold build_args. cbn [map join fst snd].
  destruct (enc_shape l) as [X EX].
  assert (trim_right_semis (accumulate kubelet pre ++ c_semi :: ipinfos_key ++ c_eq :: enc_ipinfos l) =
          accumulate kubelet pre ++ c_semi :: ipinfos_key ++ c_eq :: enc_ipinfos l) as Et.
  { rewrite EX. replace (accumulate kubelet pre ++ c_semi :: ipinfos_key ++ c_eq :: c_lbrack :: X ++ [c_rbrack])
      with ((accumulate kubelet pre ++ c_semi :: ipinfos_key ++ c_eq :: c_lbrack :: X) ++ [c_rbrack])
      by (rewrite <- !app_assoc; cbn [List.app]; rewrite <- !app_assoc; reflexivity).
    apply trim_right_last. reflexivity. }
  rewrite Et. unfold allocate.
  destruct ipinfos_key_no_equals_l as [K1 [K2 K3]]. destruct (enc_no_outer_space_l l) as [T1 T2].
  rewrite get_arg_last; try assumption.
  - destruct (enc_ipinfos l); [congruence|reflexivity].
  - apply free_app; [exact K2|]. intros [E|Hin]; [discriminate E|]. exact (enc_no_semicolon_l l Hl Hin).
Qed.

(** ---- the plugins' decoder on the encoder's text ---- *)
Definition dinfo_of (i : ipinfo) : dinfo :=
  {| d_ip := Some (ii_addr i, ii_len i); d_vlan := ii_vlan i; d_gw := ii_gw i |}.

Lemma dec_field_ip d s : dec_field d (L "ip") (VStr s) =
  match parse_cidr s with
  | Some n => Some {| d_ip := Some n; d_vlan := d_vlan d; d_gw := d_gw d |}
  | None => None
  end.
Proof. reflexivity. Qed.
Lemma dec_field_vlan d z : dec_field d (L "vlan") (VNum z) =
  if ((0 <=? z) && (z <=? 65535))%Z then Some {| d_ip := d_ip d; d_vlan := Z.to_N z; d_gw := d_gw d |} else None.
Proof. reflexivity. Qed.
Lemma dec_field_gw d s : dec_field d (L "gateway") (VStr s) =
  match s with
  | [] => Some {| d_ip := d_ip d; d_vlan := d_vlan d; d_gw := None |}
  | _ => match parse_ipv4 s with
         | Some g => Some {| d_ip := d_ip d; d_vlan := d_vlan d; d_gw := Some g |}
         | None => None
         end
  end.
Proof. destruct s; reflexivity. Qed.

Lemma dec_elem_tree i : ipinfo_ok i -> dec_elem (ipinfo_tree i) = Some (dinfo_of i).
Proof.
  intros [Ha [Hl [Hv Hg]]]. unfold dec_elem, ipinfo_tree. cbn [dec_fields].
  rewrite dec_field_ip, (cidr_roundtrip_l _ _ Ha Hl). rewrite dec_field_vlan.
  replace ((0 <=? Z.of_N (ii_vlan i)) && (Z.of_N (ii_vlan i) <=? 65535))%Z with true by lia.
  rewrite N2Z.id. rewrite dec_field_gw. unfold dinfo_of. cbn [d_ip d_vlan d_gw dinfo0].
  destruct (ii_gw i) as [g|] eqn:Eg; [|reflexivity].
  pose proof (print_ipv4_nonempty g) as Hne. destruct (print_ipv4 g) as [|c t] eqn:Ep; [congruence|].
  rewrite <- Ep, (ipv4_roundtrip_l g (Hg g eq_refl)). reflexivity.
Qed.

Lemma dec_all_trees l : Forall ipinfo_ok l -> dec_all (map ipinfo_tree l) = Some (map dinfo_of l).
Proof.
  induction 1 as [|i l Hi Hl IH]; [reflexivity|]. cbn [map dec_all]. rewrite (dec_elem_tree i Hi), IH. reflexivity.
Qed.
Lemma to_results_of l : to_results (map dinfo_of l) = Some (map (fun i => (ii_addr i, ii_len i, ii_gw i)) l).
Proof. induction l as [|i l IH]; [reflexivity|]. cbn [map to_results dinfo_of d_ip d_gw]. rewrite IH. reflexivity. Qed.

Theorem decode_encoded l : Forall ipinfo_ok l -> l <> [] -> dec_ipinfos (enc_ipinfos l) = expected l.
Proof.
  intros Hl Hne. unfold dec_ipinfos, enc_ipinfos. rewrite (parse_json_print _ (ipinfos_tree_ok l Hl)).
  rewrite (dec_all_trees l Hl). destruct l as [|i l']; [congruence|].
  rewrite to_results_of. unfold expected. rewrite map_map. reflexivity.
Qed.

(** ---- end to end ---- *)
Theorem ipinfos_end_to_end_l l rr kubelet orders :
  Forall ipinfo_ok l -> l <> [] -> rr_ok rr -> orders <> [] ->
  exists ext, ext_args (annotation rr l) = Some ext /\
    (Forall (fun o => Permutation ext o) orders ->
     allocate (accumulate kubelet (map build_args orders)) = expected l).
Proof.
  intros Hl Hne Hr Ho. eexists. split; [apply annotation_scanned_l; assumption|].
  destruct l as [|i0 l0] eqn:El; [congruence|]. rewrite <- El in *. intros Hp.
  destruct (exists_last Ho) as [pre [o Eo]]. subst orders. apply Forall_app in Hp. destruct Hp as [_ Hp].
  inversion Hp as [|? ? Hperm _]; subst. apply Permutation_length_1_inv in Hperm. subst o.
  rewrite map_app. cbn [map]. change (L "ipinfos") with ipinfos_key.
  rewrite allocate_accumulated by assumption. apply decode_encoded; [assumption|congruence].
Qed.

(** no IP allocated: nothing is configured from IPAM (the plugin falls back to its own ipam type),
    provided the kubelet's own arguments carry no ipinfos key *)
Definition no_ipinfos_arg (s : str) : Prop := get_arg ipinfos_key s = None.

Lemma drop_semis_split s : exists n, s = repeat c_semi n ++ drop_semis s.
Proof.
  induction s as [|c s [n IH]]; [exists 0%nat; reflexivity|]. cbn [drop_semis].
  destruct (Ascii.eqb_spec c c_semi) as [->|Hne]; [exists (S n); simpl; f_equal; exact IH|exists 0%nat; reflexivity].
Qed.
Lemma repeat_rev {A} (a : A) n : rev (repeat a n) = repeat a n.
Proof.
  induction n as [|n IH]; [reflexivity|]. simpl. rewrite IH. clear IH. induction n as [|n IH]; [reflexivity|].
  simpl. f_equal. exact IH.
Qed.
Lemma trim_right_split s : exists n, s = trim_right_semis s ++ repeat c_semi n.
Proof.
  unfold trim_right_semis. destruct (drop_semis_split (rev s)) as [n E]. exists n.
  rewrite <- (rev_involutive s) at 1. rewrite E at 1. rewrite rev_app_distr, repeat_rev. reflexivity.
Qed.

Lemma parse_args_semis s n : parse_args (s ++ repeat c_semi n) = parse_args s.
Proof.
  induction n as [|n IH]; [rewrite app_nil_r; reflexivity|].
  replace (s ++ repeat c_semi (S n)) with ((s ++ repeat c_semi n) ++ [c_semi]).
  - unfold parse_args in *. change [c_semi] with (c_semi :: []). rewrite split_app_sep, flat_map_app, IH.
    cbn. apply app_nil_r.
  - rewrite <- app_assoc. f_equal. clear. induction n as [|n IH]; [reflexivity|]. simpl. f_equal. exact IH.
Qed.
Lemma get_arg_trim key s : get_arg key (trim_right_semis s) = get_arg key s.
Proof.
  destruct (trim_right_split s) as [n E]. unfold get_arg. rewrite E at 2. rewrite parse_args_semis. reflexivity.
Qed.

Theorem no_ipinfos_l rr kubelet n : rr_ok rr -> no_ipinfos_arg kubelet ->
  exists ext, ext_args (annotation rr []) = Some ext /\
    allocate (accumulate kubelet (repeat (build_args ext) n)) = DNone.
Proof.
  intros Hr Hk. exists []. split; [apply (annotation_scanned_l rr [] Hr); constructor|].
  assert (get_arg ipinfos_key (accumulate kubelet (repeat (build_args []) n)) = None) as G.
  { induction n as [|n IH]; [exact Hk|].
    replace (repeat (build_args []) (S n)) with (repeat (build_args []) n ++ [build_args []])
      by (clear; induction n as [|n IH]; [reflexivity|simpl; f_equal; exact IH]).
    rewrite accumulate_last, get_arg_trim. change (build_args []) with ([] : str).
    change (c_semi :: []) with (repeat c_semi 1). unfold get_arg in *. rewrite parse_args_semis. exact IH. }
  unfold allocate. change (L "ipinfos") with ipinfos_key. rewrite G. reflexivity.
Qed.

(** concrete non-trivial instance *)
Definition example_infos : list ipinfo :=
  [{| ii_addr := 167772165; ii_len := 24; ii_vlan := 2; ii_gw := Some 167772161 |};
   {| ii_addr := 4294967295; ii_len := 32; ii_vlan := 65535; ii_gw := None |}].
Lemma example_infos_ok : Forall ipinfo_ok example_infos /\ example_infos <> [] /\
  annotation None example_infos =
  L "{""common"":{""ipinfos"":[{""ip"":""10.0.0.5/24"",""vlan"":2,""gateway"":""10.0.0.1""},{""ip"":""255.255.255.255/32"",""vlan"":65535,""gateway"":""""}]}}".
Proof.
  split; [|split; [discriminate|vm_compute; reflexivity]].
  repeat constructor; cbn; try lia; intros g E; inversion E; subst; unfold two32; lia.
Qed.
