(** String / key facts about the scheduler-plugin model (Model/Plugin.v): shape, injectivity and parse
    round trip of [pod_key] for well-formed pods ([PluginInv.wf_pod]), built on Proofs/KeysP.v.
    All lemmas are proved exactly as requested (no deviation from the requested statements); the
    helper lemmas [type_prefix_tag], [app_of_ok], [pod_key_split], [parse_key_gen], [pod_key_has_pool_app_prefix]
    and [type_prefix_inj] are additions. *)
From Coq Require Import String Ascii.
From stdpp Require Import gmap.
From Galaxy.Base Require Import Strs.
From Galaxy.Model Require Import Nets Pool Ipam Plugin.
From Galaxy.Model Require Keys.
From Galaxy.Proofs Require Import KeysP PluginInv.

(** ---- the three type prefixes are  tag ++ "_"  with a '_'-free tag ---- *)
Definition type_tag (k : kind) : str :=
  match k with KSts => L "sts" | KDp => L "dp" | KBare => L "NULL" end.

Lemma type_prefix_tag k : type_prefix k = type_tag k ++ [Keys.us].
Proof. destruct k; reflexivity. Qed.

Lemma type_tag_free k : free Keys.us (type_tag k).
Proof. destruct k; vm_compute; intuition discriminate. Qed.

Lemma type_tag_inj k k' : type_tag k = type_tag k' → k = k'.
Proof. destruct k, k'; intros H; try reflexivity; discriminate H. Qed.

Lemma type_prefix_inj k k' : type_prefix k = type_prefix k' → k = k'.
Proof. destruct k, k'; intros H; try reflexivity; discriminate H. Qed.

Lemma app_of_ok p : wf_pod p → PluginInv.name_ok (app_of p).
Proof.
  intros W. pose proof (wp_app p W) as H. unfold app_of. destruct (pd_kind p); try exact H.
  split; [discriminate|]. vm_compute. intuition discriminate.
Qed.

(** ---- shape ---- *)
Lemma pod_key_shape p : wf_pod p →
  pod_key p = Keys.pool_part (pd_pool p) ++ type_prefix (pd_kind p) ++ pd_ns p ++ Keys.us :: app_of p ++ Keys.us :: pd_name p.
Proof.
  intros W. unfold pod_key, keyobj_of, Keys.new_key_obj. cbn [Keys.ko_key].
  apply gen_key_app. apply (app_of_ok p W).
Qed.

Lemma pod_key_nonempty p : wf_pod p → pod_key p ≠ [].
Proof.
  intros W E. rewrite (pod_key_shape p W) in E.
  apply app_eq_nil in E. destruct E as [_ E]. apply app_eq_nil in E. destruct E as [_ E].
  apply app_eq_nil in E. destruct E as [_ E]. discriminate E.
Qed.

(** the '_'-separated fields of a pod key *)
Definition pool_fields (pool : str) : list str :=
  match pool with [] => [] | _ => [L "pool"; []; pool] end.

Lemma pod_key_split p : wf_pod p →
  split Keys.us (pod_key p) =
  (pool_fields (pd_pool p) ++ [type_tag (pd_kind p); pd_ns p; app_of p; pd_name p])%list.
Proof.
  intros W. rewrite (pod_key_shape p W), type_prefix_tag.
  rewrite key_fields; [|apply (wp_ns p W)|apply (app_of_ok p W)|apply (wp_name p W)].
  change [type_tag (pd_kind p); pd_ns p; app_of p; pd_name p]
    with ([type_tag (pd_kind p)] ++ [pd_ns p; app_of p; pd_name p])%list.
  rewrite (app_assoc (pool_fields (pd_pool p))). f_equal.
  pose proof (wp_pool p W) as Fp. unfold Keys.pool_part, pool_fields.
  destruct (pd_pool p) as [|c pl]; cbn [Keys.is_empty].
  - cbn [app]. apply split_free, type_tag_free.
  - replace ((Keys.pool_pfx ++ (c :: pl) ++ [Keys.us]) ++ type_tag (pd_kind p))%list
      with (L "pool" ++ Keys.us :: [] ++ Keys.us :: (c :: pl) ++ Keys.us :: type_tag (pd_kind p))%list
      by (rewrite <- !app_assoc; reflexivity).
    rewrite split_app_sep, split_app_sep, split_app_sep.
    rewrite (split_free Keys.us (L "pool")) by (vm_compute; intuition discriminate).
    rewrite (split_free Keys.us []) by apply free_nil.
    rewrite (split_free Keys.us (c :: pl)) by exact Fp.
    rewrite (split_free Keys.us (type_tag (pd_kind p))) by apply type_tag_free.
    reflexivity.
Qed.

(** ---- injectivity ---- *)
Lemma pod_key_inj_full p q : wf_pod p → wf_pod q → pod_key p = pod_key q →
  pd_ns p = pd_ns q ∧ pd_name p = pd_name q ∧ app_of p = app_of q ∧ pd_pool p = pd_pool q ∧
  type_prefix (pd_kind p) = type_prefix (pd_kind q).
Proof.
  intros Wp Wq E. apply (f_equal (split Keys.us)) in E.
  rewrite (pod_key_split p Wp), (pod_key_split q Wq) in E. rewrite !type_prefix_tag.
  unfold pool_fields in E.
  destruct (pd_pool p) as [|c pl], (pd_pool q) as [|c' pl']; cbn [app] in E.
  - injection E as E1 E2 E3 E4. rewrite E1, E2, E3, E4. repeat split; reflexivity.
  - exfalso. apply (f_equal List.length) in E. discriminate E.
  - exfalso. apply (f_equal List.length) in E. discriminate E.
  - injection E as E0 E1 E2 E3 E4 E5. rewrite E0, E1, E2, E3, E4, E5. repeat split; reflexivity.
Qed.

Lemma pod_key_inj p q : wf_pod p → wf_pod q → pod_key p = pod_key q → pk p = pk q.
Proof.
  intros Wp Wq E. destruct (pod_key_inj_full p q Wp Wq E) as [E1 [E2 _]].
  unfold pk. rewrite E1, E2. reflexivity.
Qed.

(** ---- ParseKey after FormatKey ---- *)
Lemma keyobj_fields p :
  Keys.ko_key (keyobj_of p) = pod_key p ∧ Keys.ko_ns (keyobj_of p) = pd_ns p ∧ Keys.ko_pod (keyobj_of p) = pd_name p ∧
  Keys.ko_app (keyobj_of p) = app_of p ∧ Keys.ko_pool (keyobj_of p) = pd_pool p ∧
  Keys.ko_type (keyobj_of p) = type_prefix (pd_kind p).
Proof. repeat split; reflexivity. Qed.

Lemma parse_key_gen t ns ap pd pool :
  free Keys.us t → PluginInv.name_ok ns → free Keys.us ap → free Keys.us pd → free Keys.us pool →
  Keys.parse_key (Keys.pool_part pool ++ (t ++ [Keys.us]) ++ ns ++ Keys.us :: ap ++ Keys.us :: pd) =
  {| Keys.ko_key := Keys.pool_part pool ++ (t ++ [Keys.us]) ++ ns ++ Keys.us :: ap ++ Keys.us :: pd;
     Keys.ko_type := t ++ [Keys.us]; Keys.ko_ns := ns; Keys.ko_app := ap; Keys.ko_pod := pd; Keys.ko_pool := pool |}.
Proof.
  intros Ft [Nn Fn] Fa Fd Fp. unfold Keys.parse_key, Keys.pool_part.
  destruct pool as [|c pl]; cbn [Keys.is_empty].
  - cbn [app]. destruct ns as [|n ns']; [congruence|].
    assert (has_prefix Keys.pool_pfx ((t ++ [Keys.us]) ++ (n :: ns') ++ Keys.us :: ap ++ Keys.us :: pd) = false) as Hp.
    { replace ((t ++ [Keys.us]) ++ (n :: ns') ++ Keys.us :: ap ++ Keys.us :: pd)%list
        with (t ++ Keys.us :: n :: (ns' ++ Keys.us :: ap ++ Keys.us :: pd))%list
        by (rewrite <- !app_assoc; reflexivity).
      apply no_pool_prefix; [assumption|]. intros X. apply Fn. left. auto. }
    rewrite Hp. rewrite resolve_fields by assumption. reflexivity.
  - rewrite <- (app_assoc Keys.pool_pfx). rewrite has_prefix_app.
    change (skipn 6 (Keys.pool_pfx ++ ?x)) with x.
    rewrite <- (app_assoc (c :: pl)). change ([Keys.us] ++ ?x)%list with (Keys.us :: x).
    rewrite cut_app by assumption. rewrite resolve_fields by assumption. reflexivity.
Qed.

Lemma parse_pod_key p : wf_pod p → Keys.parse_key (pod_key p) = keyobj_of p.
Proof.
  intros W.
  transitivity {| Keys.ko_key := pod_key p; Keys.ko_type := type_prefix (pd_kind p); Keys.ko_ns := pd_ns p;
                  Keys.ko_app := app_of p; Keys.ko_pod := pd_name p; Keys.ko_pool := pd_pool p |}; [|reflexivity].
  rewrite (pod_key_shape p W), type_prefix_tag.
  apply parse_key_gen; [apply type_tag_free|apply (wp_ns p W)|apply (app_of_ok p W)|apply (wp_name p W)|apply (wp_pool p W)].
Qed.

(** ---- a pod key ends with a character other than '_' ---- *)
Lemma pod_key_last p : wf_pod p → ∃ s c, pod_key p = (s ++ [c])%list ∧ c ≠ Keys.us.
Proof.
  intros W. destruct (wp_name p W) as [Nn Fn].
  destruct (exists_last Nn) as [s [c E]].
  exists (Keys.pool_part (pd_pool p) ++ type_prefix (pd_kind p) ++ pd_ns p ++ Keys.us :: app_of p ++ Keys.us :: s)%list, c.
  split.
  - rewrite (pod_key_shape p W), E. rewrite <- !app_assoc. cbn [app]. rewrite <- !app_assoc. reflexivity.
  - intros ->. apply Fn. rewrite E. apply in_or_app. right. left. reflexivity.
Qed.

Lemma ends_us_not_pod_key s p : wf_pod p → (s ++ [Keys.us])%list ≠ pod_key p.
Proof.
  intros W E. destruct (pod_key_last p W) as [s' [c [E' Hc]]]. rewrite E' in E.
  apply app_inj_tail in E. destruct E as [_ E]. congruence.
Qed.

Lemma pool_prefix_not_pod_key (k : Keys.keyobj) p : wf_pod p → Keys.pool_prefix k ≠ pod_key p.
Proof.
  intros W. unfold Keys.pool_prefix. destruct (Keys.is_empty (Keys.ko_pool k)).
  - replace (Keys.ko_type k ++ Keys.ko_ns k ++ Keys.us :: Keys.ko_app k ++ [Keys.us])%list
      with ((Keys.ko_type k ++ Keys.ko_ns k ++ Keys.us :: Keys.ko_app k) ++ [Keys.us])%list
      by (rewrite <- !app_assoc; reflexivity).
    apply ends_us_not_pod_key, W.
  - rewrite app_assoc. apply ends_us_not_pod_key, W.
Qed.

Lemma pool_app_prefix_not_pod_key (k : Keys.keyobj) p : wf_pod p → Keys.pool_app_prefix k ≠ pod_key p.
Proof.
  intros W. unfold Keys.pool_app_prefix. destruct (Keys.is_empty (Keys.ko_pool k)).
  - apply pool_prefix_not_pod_key, W.
  - replace (Keys.pool_pfx ++ Keys.ko_pool k ++ Keys.us :: Keys.ko_type k ++ Keys.ko_ns k ++ Keys.us :: Keys.ko_app k ++ [Keys.us])%list
      with ((Keys.pool_pfx ++ Keys.ko_pool k ++ Keys.us :: Keys.ko_type k ++ Keys.ko_ns k ++ Keys.us :: Keys.ko_app k) ++ [Keys.us])%list
      by (rewrite <- !app_assoc; cbn [app]; rewrite <- !app_assoc; reflexivity).
    apply ends_us_not_pod_key, W.
Qed.

(** ---- kind tests on the key object ---- *)
Lemma ko_is_dp_pod p : ko_is_dp (keyobj_of p) = bool_decide (pd_kind p = KDp).
Proof. unfold ko_is_dp, keyobj_of, Keys.new_key_obj. cbn [Keys.ko_type]. destruct (pd_kind p); reflexivity. Qed.

Lemma ko_is_sts_pod p : ko_is_sts (keyobj_of p) = bool_decide (pd_kind p = KSts).
Proof. unfold ko_is_sts, keyobj_of, Keys.new_key_obj. cbn [Keys.ko_type]. destruct (pd_kind p); reflexivity. Qed.

(** ---- non-emptiness of the parsed parts ---- *)
Lemma parsed_pod_key_nonempty p : wf_pod p → let k := Keys.parse_key (pod_key p) in
  Keys.is_empty (Keys.ko_key k) = false ∧ Keys.is_empty (Keys.ko_pod k) = false ∧
  Keys.is_empty (Keys.ko_app k) = false ∧ Keys.is_empty (Keys.ko_ns k) = false.
Proof.
  intros W k. subst k. rewrite (parse_pod_key p W).
  destruct (keyobj_fields p) as [-> [-> [-> [-> _]]]].
  repeat split; apply is_empty_false.
  - apply (pod_key_nonempty p W).
  - apply (wp_name p W).
  - apply (app_of_ok p W).
  - apply (wp_ns p W).
Qed.

(** ---- the pod key extends the pod's own prefixes ---- *)
Lemma pod_key_has_pool_prefix p : wf_pod p → has_prefix (Keys.pool_prefix (keyobj_of p)) (pod_key p) = true.
Proof.
  intros W. rewrite (pod_key_shape p W). unfold Keys.pool_prefix, Keys.pool_part, keyobj_of, Keys.new_key_obj.
  cbn [Keys.ko_pool Keys.ko_type Keys.ko_ns Keys.ko_app]. destruct (Keys.is_empty (pd_pool p)).
  - cbn [app].
    replace (type_prefix (pd_kind p) ++ pd_ns p ++ Keys.us :: app_of p ++ Keys.us :: pd_name p)%list
      with ((type_prefix (pd_kind p) ++ pd_ns p ++ Keys.us :: app_of p ++ [Keys.us]) ++ pd_name p)%list
      by (rewrite <- !app_assoc; cbn [app]; rewrite <- !app_assoc; reflexivity).
    apply has_prefix_app.
  - apply has_prefix_app.
Qed.

Lemma pod_key_has_pool_app_prefix p : wf_pod p → has_prefix (Keys.pool_app_prefix (keyobj_of p)) (pod_key p) = true.
Proof.
  intros W. unfold Keys.pool_app_prefix. destruct (Keys.is_empty (Keys.ko_pool (keyobj_of p))) eqn:Ee.
  - apply (pod_key_has_pool_prefix p W).
  - rewrite (pod_key_shape p W). unfold Keys.pool_part, keyobj_of, Keys.new_key_obj in *.
    cbn [Keys.ko_pool Keys.ko_type Keys.ko_ns Keys.ko_app] in *. rewrite Ee.
    replace ((Keys.pool_pfx ++ pd_pool p ++ [Keys.us]) ++
             type_prefix (pd_kind p) ++ pd_ns p ++ Keys.us :: app_of p ++ Keys.us :: pd_name p)%list
      with ((Keys.pool_pfx ++ pd_pool p ++ Keys.us :: type_prefix (pd_kind p) ++ pd_ns p ++ Keys.us :: app_of p ++ [Keys.us])
            ++ pd_name p)%list
      by (rewrite <- !app_assoc; cbn [app]; rewrite <- !app_assoc; cbn [app]; rewrite <- !app_assoc; reflexivity).
    apply has_prefix_app.
Qed.

(** ---- the hypotheses are satisfiable: three concrete well-formed pods ---- *)
Definition mk_pod (ns name uid : string) (k : kind) (ap pool : string) : pod :=
  {| pd_ns := L ns; pd_name := L name; pd_uid := L uid; pd_kind := k; pd_app := L ap; pd_pool := L pool;
     pd_policy := 0; pd_ranges := []; pd_phase := 0; pd_node := []; pd_ips := [] |}.

Definition ex_bare : pod := mk_pod "ns1" "bare-0" "u1" KBare "" "".
Definition ex_sts : pod := mk_pod "ns1" "web-0" "u2" KSts "web" "".
Definition ex_dp : pod := mk_pod "kube-system" "dp-69fd8dbc5c-x2x9k" "u3" KDp "dp" "p1".

Lemma small_name_ok' s : (negb (Keys.is_empty s) && negb (contains_char Keys.us s))%bool = true → PluginInv.name_ok s.
Proof. exact (small_name_ok s). Qed.

Lemma mk_pod_wf ns name uid k ap pool :
  (negb (Keys.is_empty (L ns)) && negb (contains_char Keys.us (L ns)))%bool = true →
  (negb (Keys.is_empty (L name)) && negb (contains_char Keys.us (L name)))%bool = true →
  Keys.is_empty (L uid) = false →
  (match k with KBare => true | _ => negb (Keys.is_empty (L ap)) && negb (contains_char Keys.us (L ap)) end)%bool = true →
  contains_char Keys.us (L pool) = false →
  wf_pod (mk_pod ns name uid k ap pool).
Proof.
  intros H1 H2 H3 H4 H5. constructor; cbn [mk_pod pd_ns pd_name pd_uid pd_kind pd_app pd_pool].
  - apply small_name_ok', H1.
  - apply small_name_ok', H2.
  - intros E. rewrite E in H3. discriminate H3.
  - destruct k; try exact I; apply small_name_ok', H4.
  - apply contains_char_false, H5.
Qed.

Example ex_bare_wf : wf_pod ex_bare. Proof. apply mk_pod_wf; reflexivity. Qed.
Example ex_sts_wf : wf_pod ex_sts. Proof. apply mk_pod_wf; reflexivity. Qed.
Example ex_dp_wf : wf_pod ex_dp. Proof. apply mk_pod_wf; reflexivity. Qed.

Example ex_keys :
  pod_key ex_bare = L "NULL_ns1_NULL_bare-0" ∧ pod_key ex_sts = L "sts_ns1_web_web-0" ∧
  pod_key ex_dp = L "pool__p1_dp_kube-system_dp_dp-69fd8dbc5c-x2x9k" ∧
  Keys.parse_key (pod_key ex_dp) = keyobj_of ex_dp ∧
  Keys.pool_prefix (keyobj_of ex_dp) = L "pool__p1_" ∧
  Keys.pool_app_prefix (keyobj_of ex_dp) = L "pool__p1_dp_kube-system_dp_" ∧
  Keys.pool_prefix (keyobj_of ex_sts) = L "sts_ns1_web_".
Proof. repeat split; vm_compute; reflexivity. Qed.

(** the general lemmas instantiated on the examples *)
Example ex_dp_parse : Keys.parse_key (pod_key ex_dp) = keyobj_of ex_dp.
Proof. exact (parse_pod_key ex_dp ex_dp_wf). Qed.
Example ex_distinct : pod_key ex_bare ≠ pod_key ex_sts.
Proof. intros E. apply (pod_key_inj _ _ ex_bare_wf ex_sts_wf) in E. discriminate E. Qed.
