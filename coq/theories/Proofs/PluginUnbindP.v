(** The release-side sections of the scheduler-plugin model preserve the world invariant [WInv]
    (Proofs/PluginInv.v): a queued pod event ([unbind_section]), one resync item ([resync_section]) and an
    API release ([api_release_section]).

    Method: a world change is [confined K] when pods / informer cache / event queue are unchanged, [Inv2] is
    kept, and every entry of [i_alloc] is unchanged, or was keyed [K] and is now gone, or was keyed [K] and
    now has the stored uid [""] (under any key).  Such a change keeps [WInv] as soon as no live bound pod of
    the API server has the key [K] ([winv_confined]).  Each section either leaves the world unchanged or
    makes a confined change for a key that no live bound pod has. *)
From Coq Require Import String.
From stdpp Require Import gmap.
From Galaxy.Base Require Import Strs.
From Galaxy.Model Require Import Nets Pool Ipam Plugin.
From Galaxy.Model Require Keys.
From Galaxy.Proofs Require Import IpamP PluginInv PluginInvL PluginKeyFacts PluginIpamFacts.
Local Open Scope N_scope.

(** ** small facts *)
Lemma parse_key_key s : Keys.ko_key (Keys.parse_key s) = s.
Proof.
  unfold Keys.parse_key. destruct (has_prefix Keys.pool_pfx s).
  - destruct (cut Keys.us (skipn 6 s)) as [[pool rest]|]; [|reflexivity].
    destruct (Keys.resolve_pod_key rest) as [[[ty app] pd] ns]. reflexivity.
  - destruct (Keys.resolve_pod_key s) as [[[ty app] pd] ns]. reflexivity.
Qed.

Lemma set_ipam_self w : set_ipam w (w_ipam w) = w.
Proof. by destruct w. Qed.

Lemma is_empty_true s : Keys.is_empty s = true ↔ s = [].
Proof. destruct s; split; intros; done. Qed.
Lemma is_empty_false' s : Keys.is_empty s = false ↔ s ≠ [].
Proof. destruct s; split; intros; done. Qed.

(** ** confined changes *)
Definition chg (K : str) (i i' : ipam) : Prop :=
  ∀ y, i_alloc i' !! y = i_alloc i !! y ∨
       (∃ e, i_alloc i !! y = Some e ∧ e_key e = K ∧
             (i_alloc i' !! y = None ∨ ∃ e', i_alloc i' !! y = Some e' ∧ e_uid e' = [])).

Lemma chg_refl K i : chg K i i.
Proof. intros y. by left. Qed.

Lemma chg_eq K i i' : i_alloc i' = i_alloc i → chg K i i'.
Proof. intros E y. left. by rewrite E. Qed.

Lemma chg_trans K i1 i2 i3 : chg K i1 i2 → chg K i2 i3 → chg K i1 i3.
Proof.
  intros H12 H23 y. destruct (H23 y) as [E23|(e2 & He2 & Hk2 & Hnew)].
  - rewrite E23. apply H12.
  - destruct (H12 y) as [E12|(e1 & He1 & Hk1 & _)].
    + right. exists e2. rewrite <- E12. done.
    + right. exists e1. done.
Qed.

Definition confined (K : str) (w w' : world) : Prop :=
  w_pods w' = w_pods w ∧ w_lister w' = w_lister w ∧ w_queue w' = w_queue w ∧
  Inv2 (w_ipam w') ∧ chg K (w_ipam w) (w_ipam w').

Lemma confined_refl K w : Inv2 (w_ipam w) → confined K w w.
Proof. intros H. split_and!; try done. apply chg_refl. Qed.

Lemma confined_trans K w1 w2 w3 : confined K w1 w2 → confined K w2 w3 → confined K w1 w3.
Proof.
  intros (P1 & L1 & Q1 & I1 & C1) (P2 & L2 & Q2 & I2 & C2). split_and!; try congruence; try done.
  by apply chg_trans with (w_ipam w2).
Qed.

Lemma confined_inv2 K w w' : confined K w w' → Inv2 (w_ipam w').
Proof. by intros (_ & _ & _ & H & _). Qed.

Lemma confined_set_ipam K w i : Inv2 i → chg K (w_ipam w) i → confined K w (set_ipam w i).
Proof. intros Hi Hc. split_and!; done. Qed.

Lemma confined_cloud_unassign K w x n : Inv2 (w_ipam w) → confined K w (cloud_unassign w x n).
Proof. intros Hi. split_and!; try done. apply chg_refl. Qed.

(** the workhorse: a confined change for a key that no live bound pod has keeps the invariant *)
Lemma winv_confined K w w' :
  WInv w → confined K w w' →
  (∀ k p, w_pods w !! k = Some p → live_bound p → pod_key p ≠ K) →
  WInv w'.
Proof.
  intros [H1 H2 H3 H4 H5 H6 H7] (EP & EL & EQ & Hi & Hc) Hno.
  split; rewrite ?EP, ?EL, ?EQ; try done.
  intros k p Hp Hlive. specialize (H7 k p Hp Hlive). specialize (Hno k p Hp Hlive).
  apply (owned_frame (w_ipam w)); [done| |].
  - intros y e He Hk. destruct (Hc y) as [E|(e0 & He0 & Hk0 & _)]; [by rewrite E|].
    rewrite He in He0; simplify_eq; congruence.
  - intros y e' He' Hk. destruct (Hc y) as [E|(e0 & He0 & Hk0 & [Hn|(e1 & He1 & Hu)])].
    + left. by rewrite <- E.
    + rewrite Hn in He'. done.
    + rewrite He1 in He'. simplify_eq. by right; left.
Qed.

(** dropping a queued event keeps the invariant *)
Lemma winv_dequeue w n : WInv w → WInv (set_queue w (take n (w_queue w) ++ drop (S n) (w_queue w))).
Proof.
  intros [H1 H2 H3 H4 H5 H6 H7]. split; try done. simpl.
  apply Forall_app. split; [by apply Forall_take|by apply Forall_drop].
Qed.

(** a live bound pod of the API server counts as running for its own key's entries *)
Lemma running_live w k0 p stored :
  WInv w → w_pods w !! k0 = Some p → live_bound p → stored = [] ∨ stored = pd_uid p →
  pod_running w (pd_ns p) (pd_name p) stored = true.
Proof.
  intros Hw Hp [Hfin _] Hst. destruct (wi_pods w Hw k0 p Hp) as [Hk Wp].
  unfold pod_running.
  destruct (wp_name p Wp) as [Nn _]. destruct (wp_ns p Wp) as [Ns _].
  apply is_empty_false' in Nn. apply is_empty_false' in Ns. rewrite Nn, Ns. cbn [orb].
  apply orb_true_iff. right.
  replace (w_pods w !! (pd_ns p, pd_name p)) with (Some p) by (rewrite <- Hp, <- Hk; reflexivity).
  unfold running_and_uid.
  assert ((negb (Keys.is_empty stored) && negb (str_eqb stored (pd_uid p)))%bool = false) as ->.
  { destruct Hst as [->| ->]; [done|]. rewrite str_eqb_refl. apply andb_false_r. }
  by rewrite Hfin.
Qed.

(** ** what the building blocks do *)
Lemma release_key_frame w key o fl w' r : release_key w key o fl = (w', r) →
  w' = set_ipam w (w_ipam w') ∧ ∀ y, i_alloc (w_ipam w') !! y = i_alloc (w_ipam w) !! y ∨
     (∃ e, i_alloc (w_ipam w) !! y = Some e ∧ e_key e = key ∧ i_alloc (w_ipam w') !! y = None).
Proof.
  unfold release_key. destruct (by_key (w_ipam w) key) as [|kv l] eqn:Ebk.
  - intros [= <- <-]. split; [by rewrite set_ipam_self|]. intros y. by left.
  - set (m := map (λ kv0 : N * entry, (kv0.1, key)) (kv :: l)).
    destruct (release_ips (w_ipam w) m (o_order o) (f_store fl)) as [s' ra] eqn:Er.
    cbn [fst snd]. intros [= <- <-]. split; [done|]. cbn [set_ipam w_ipam].
    destruct (release_ips_spec _ _ _ _ _ _ Er) as [_ Hy]. intros y.
    destruct (Hy y) as [[E _]|(e & He & Hin & Hn & _)]; [by left|]. right. exists e. split_and!; try done.
    unfold m in Hin. apply in_map_iff in Hin as (kv0 & Heq & _). by simplify_eq.
Qed.

Lemma reserve_key_frame w key prefix o fl w' r : reserve_key w key prefix o fl = (w', r) →
  w' = set_ipam w (w_ipam w') ∧ ∀ y, i_alloc (w_ipam w') !! y = i_alloc (w_ipam w) !! y ∨
     (∃ e e', i_alloc (w_ipam w) !! y = Some e ∧ e_key e = key ∧ i_alloc (w_ipam w') !! y = Some e' ∧ e_key e' = prefix ∧ e_uid e' = []).
Proof.
  unfold reserve_key.
  destruct (reserve_ip (w_ipam w) key prefix free_entry_attr (o_order o) (f_store fl)) as [s' ra] eqn:Er.
  cbn [fst snd]. intros [= <- <-]. split; [done|]. cbn [set_ipam w_ipam].
  destruct (reserve_ip_spec _ _ _ _ _ _ _ _ Er) as (_ & _ & Hy). intros y.
  destruct (Hy y) as [E|(e & t & He & Hk & He')]; [by left|]. right. eexists e, _. split_and!; try done.
Qed.

Lemma reserve_ip_chg s K newk order nfail :
  chg K s (reserve_ip s K newk free_entry_attr order nfail).1.
Proof.
  destruct (reserve_ip s K newk free_entry_attr order nfail) as [s' ra] eqn:Er. cbn [fst].
  destruct (reserve_ip_spec _ _ _ _ _ _ _ _ Er) as (_ & _ & Hy). intros y.
  destruct (Hy y) as [E|(e & t & He & Hk & He')]; [by left|]. right. exists e. split_and!; try done.
  right. eexists. split; [exact He'|done].
Qed.

Lemma update_attr_chg s K x a fail : a_uid a = [] → chg K s (update_attr s K x a fail).1.
Proof.
  intros Hu. destruct (update_attr s K x a fail) as [s' ra] eqn:Er. cbn [fst].
  destruct (update_attr_spec _ _ _ _ _ _ _ Er) as [(_ & e & He & Hk & Ha & _)|[_ ->]]; [|apply chg_refl].
  intros y. rewrite Ha. destruct (decide (y = x)) as [->|Hne].
  - right. exists e. split_and!; try done. right. eexists. split; [apply lookup_insert|done].
  - left. by apply lookup_insert_ne.
Qed.

Lemma release_chg s K x fail : chg K s (release s K x fail).1.
Proof.
  destruct (release s K x fail) as [s' ra] eqn:Er. cbn [fst].
  destruct (release_spec _ _ _ _ _ _ Er) as [(_ & e & He & Hk & Ha & _)|[_ ->]]; [|apply chg_refl].
  intros y. rewrite Ha. destruct (decide (y = x)) as [->|Hne].
  - right. exists e. split_and!; try done. left. apply lookup_delete.
  - left. by apply lookup_delete_ne.
Qed.

Lemma release_key_confined w key o fl : Inv2 (w_ipam w) → confined key w (release_key w key o fl).1.
Proof.
  intros Hi. destruct (release_key w key o fl) as [w' r] eqn:E. cbn [fst].
  assert (Inv2 (w_ipam w')) as Hi'.
  { unfold release_key in E. destruct (by_key (w_ipam w) key); [by simplify_eq|].
    injection E as <- _. cbn [set_ipam w_ipam]. by apply inv2_release_ips. }
  destruct (release_key_frame _ _ _ _ _ _ E) as [-> Hy]. apply confined_set_ipam; [done|].
  intros y. destruct (Hy y) as [?|(e & He & Hk & Hn)]; [by left|]. right. exists e. split_and!; try done. by left.
Qed.

Lemma reserve_key_confined w key prefix o fl : Inv2 (w_ipam w) → confined key w (reserve_key w key prefix o fl).1.
Proof.
  intros Hi. destruct (reserve_key w key prefix o fl) as [w' r] eqn:E. cbn [fst].
  assert (Inv2 (w_ipam w')) as Hi'.
  { unfold reserve_key in E. injection E as <- _. cbn [set_ipam w_ipam]. by apply inv2_reserve_ip. }
  destruct (reserve_key_frame _ _ _ _ _ _ _ E) as [-> Hy]. apply confined_set_ipam; [done|].
  intros y. destruct (Hy y) as [?|(e & e' & He & Hk & He' & _ & Hu)]; [by left|].
  right. exists e. split_and!; try done. right. by exists e'.
Qed.

Lemma unbind_dp_confined w k policy o fl : Inv2 (w_ipam w) → confined (Keys.ko_key k) w (unbind_dp w k policy o fl).1.
Proof.
  intros Hi. unfold unbind_dp.
  destruct (policy =? 0); [by apply release_key_confined|].
  destruct (policy =? 2).
  { destruct (str_eqb _ _); [by apply confined_refl|by apply reserve_key_confined]. }
  destruct (_ =? 0); [by apply release_key_confined|].
  destruct (_ <? _); [by apply release_key_confined|].
  destruct (str_eqb _ _); [by apply confined_refl|by apply reserve_key_confined].
Qed.

Lemma unbind_nondp_confined w k policy o fl : Inv2 (w_ipam w) → confined (Keys.ko_key k) w (unbind_nondp w k policy o fl).1.
Proof.
  intros Hi. unfold unbind_nondp.
  destruct (_ || _)%bool; [by apply release_key_confined|].
  destruct (policy =? 2); [by apply reserve_key_confined|].
  destruct (policy =? 1); [|by apply confined_refl].
  destruct (ko_is_sts k); [|by apply confined_refl].
  destruct (w_sts w !! _); [|by apply release_key_confined].
  destruct (pod_index _); [|by apply confined_refl].
  destruct (_ <? _); [by apply release_key_confined|by apply reserve_key_confined].
Qed.

Lemma unbind_any_confined w k policy o fl : Inv2 (w_ipam w) →
  confined (Keys.ko_key k) w (if ko_is_dp k then unbind_dp w k policy o fl else unbind_nondp w k policy o fl).1.
Proof. intros Hi. destruct (ko_is_dp k); [by apply unbind_dp_confined|by apply unbind_nondp_confined]. Qed.

Lemma unassign_loop_confined K fl order : ∀ w idx, Inv2 (w_ipam w) → confined K w (unassign_loop w order idx fl).1.
Proof.
  induction order as [|x rest IH]; intros w idx Hi; cbn [unassign_loop].
  - by apply confined_refl.
  - destruct (i_alloc (w_ipam w) !! x) as [e|]; [|by apply confined_refl].
    destruct (bool_decide _); [by apply confined_refl|].
    eapply confined_trans; [apply (confined_cloud_unassign K w x (e_node e) Hi)|]. apply IH. done.
Qed.

(** ** a queued pod event *)
Definition f1_test (w : world) (q : pod) : bool :=
  existsb (λ kv : N * entry, negb (Keys.is_empty (e_uid kv.2)) && negb (Keys.is_empty (pd_uid q)) &&
                             negb (str_eqb (e_uid kv.2) (pd_uid q))) (by_key (w_ipam w) (pod_key q)).

Lemma unbind_section_confined w q o oun fl :
  Inv2 (w_ipam w) →
  confined (pod_key q) w (unbind_section true w q o oun fl).1 ∧
  (f1_test w q = true → unbind_section true w q o oun fl = (w, SOk)).
Proof.
  intros Hi. unfold unbind_section, f1_test. fold (pod_key q). cbn [andb].
  destruct (existsb _ (by_key (w_ipam w) (pod_key q))) eqn:Et.
  { split; [by apply confined_refl|done]. }
  split; [|done].
  match goal with |- confined _ _ (match ?r with _ => _ end).1 => set (r0 := r) end.
  assert (confined (pod_key q) w r0.1) as Hr0.
  { unfold r0. destruct (w_provider w); [|by apply confined_refl].
    destruct (_ && _ && _)%bool; [by apply unassign_loop_confined|].
    destruct (f_cloud fl); [|by apply confined_refl].
    destruct (_ && _ && _)%bool; [by apply unassign_loop_confined|by apply confined_refl]. }
  destruct r0 as [w1 [| |]]; cbn [fst] in *; try done.
  eapply confined_trans; [exact Hr0|]. apply (unbind_any_confined w1 (keyobj_of q)). by eapply confined_inv2.
Qed.

(** no live bound pod has the key of a queued event that passes the F1 test *)
Lemma event_no_live w q :
  WInv w → wf_pod q → (∀ p, w_pods w !! pk q = Some p → pd_uid p = pd_uid q → finished p = true) →
  f1_test w q = false →
  ∀ k p, w_pods w !! k = Some p → live_bound p → pod_key p ≠ pod_key q.
Proof.
  intros Hw Wq Hq Ht k p Hp Hlive Hk.
  destruct (wi_pods w Hw k p Hp) as [Hpk Wp].
  pose proof (pod_key_inj p q Wp Wq Hk) as Hpkq.
  assert (w_pods w !! pk q = Some p) as Hp' by (by rewrite <- Hpkq, Hpk).
  destruct Hlive as [Hfin Hips].
  assert (pd_uid p ≠ pd_uid q) as Hne.
  { intros Hu. specialize (Hq p Hp' Hu). congruence. }
  destruct (wi_owned w Hw k p Hp (conj Hfin Hips)) as [Ho1 _].
  destruct (pd_ips p) as [|x ips] eqn:Eips; [done|].
  destruct (Ho1 x) as (e & He & Hke & Hue); [by left|].
  assert (f1_test w q = true) as Htt; [|congruence].
  unfold f1_test. apply existsb_exists. exists (x, e). split.
  { apply by_key_spec. split; [done|congruence]. }
  cbn [snd]. rewrite Hue.
  pose proof (wp_uid p Wp) as Hup. pose proof (wp_uid q Wq) as Huq.
  apply is_empty_false' in Hup, Huq. rewrite Hup, Huq. cbn [negb andb].
  apply negb_true_iff. destruct (str_eqb_spec (pd_uid p) (pd_uid q)); [done|done].
Qed.

Lemma winv_event w n o oun fl : WInv w → WInv (pstep w (PEvent n o oun fl)).1.
Proof.
  intros Hw. cbn [pstep]. destruct (w_queue w !! n) as [q|] eqn:En; [|done].
  pose proof (wi_queue w Hw) as HQ. rewrite Forall_forall in HQ.
  destruct (HQ q) as [Wq Hq]; [by eapply elem_of_list_lookup_2|].
  destruct (unbind_section_confined w q o oun fl (wi_ipam w Hw)) as [Hc Hsame].
  assert (WInv (unbind_section true w q o oun fl).1) as Hw'.
  { destruct (f1_test w q) eqn:Et.
    - by rewrite Hsame.
    - eapply winv_confined; [exact Hw|exact Hc|]. by apply event_no_live. }
  destruct (unbind_section true w q o oun fl) as [w' [| |]]; cbn [fst] in *; try done.
  by apply winv_dequeue.
Qed.

(** ** one resync item *)
Lemma resync_section_confined w ip o ocl fl :
  Inv2 (w_ipam w) →
  (resync_section w ip o ocl fl).1 = w ∨
  ∃ e, i_alloc (w_ipam w) !! ip = Some e ∧
       pod_running w (Keys.ko_ns (Keys.parse_key (e_key e))) (Keys.ko_pod (Keys.parse_key (e_key e))) (e_uid e) = false ∧
       confined (e_key e) w (resync_section w ip o ocl fl).1.
Proof.
  intros Hi. unfold resync_section. destruct (i_alloc (w_ipam w) !! ip) as [e|] eqn:He; [|by left].
  destruct (resync_skip _ _); [by left|].
  destruct (pod_running _ _ _ _) eqn:Erun; [by left|].
  right. exists e. split_and!; try done.
  set (k := Keys.parse_key (e_key e)).
  assert (Keys.ko_key k = e_key e) as Ekk by apply parse_key_key.
  match goal with |- confined _ _ (match ?r with _ => _ end).1 => set (s1 := r) end.
  assert (confined (e_key e) w s1.1) as Hs1.
  { unfold s1. destruct (_ && _)%bool; [|by apply confined_refl].
    destruct (negb _); [by apply confined_refl|].
    match goal with |- context [unassign_loop w ?oun 0 fl] => set (oun0 := oun) end.
    pose proof (unassign_loop_confined (e_key e) fl oun0 w 0%nat Hi) as Hw1.
    destruct (unassign_loop w oun0 0 fl) as [w1 [| |]]; cbn [fst] in Hw1.
    - destruct (negb _); [by apply confined_refl|].
      match goal with |- context [reserve_ip (w_ipam w1) _ _ _ ?ocl0 None] => set (ocl1 := ocl0) end.
      assert (confined (e_key e) w1 (set_ipam w1 (reserve_ip (w_ipam w1) (e_key e) (e_key e) free_entry_attr ocl1 None).1)).
      { apply confined_set_ipam; [apply inv2_reserve_ip; by eapply confined_inv2|apply reserve_ip_chg]. }
      destruct (reserve_ip (w_ipam w1) (e_key e) (e_key e) free_entry_attr ocl1 None) as [s' ra]. cbn [fst snd] in *.
      destruct ra; cbn [fst]; try done; by eapply confined_trans.
    - destruct (f_cloud fl); [|by apply confined_refl].
      destruct (_ || _)%bool; [done|by apply confined_refl].
    - done. }
  destruct s1 as [w1 [| |]]; cbn [fst] in *; try done.
  eapply confined_trans; [exact Hs1|]. rewrite <- Ekk. apply unbind_any_confined. by eapply confined_inv2.
Qed.

(** no live bound pod has a key whose parse names a pod that is not running *)
Lemma not_running_no_live w K e ip :
  WInv w → K = e_key e →
  (i_alloc (w_ipam w) !! ip = Some e ∨ e_uid e = []) →
  pod_running w (Keys.ko_ns (Keys.parse_key K)) (Keys.ko_pod (Keys.parse_key K)) (e_uid e) = false →
  ∀ k p, w_pods w !! k = Some p → live_bound p → pod_key p ≠ K.
Proof.
  intros Hw -> He Hrun k p Hp Hlive Hk.
  destruct (wi_pods w Hw k p Hp) as [Hpk Wp].
  rewrite <- Hk, (parse_pod_key p Wp) in Hrun.
  destruct (keyobj_fields p) as (_ & Ens & Epod & _). rewrite Ens, Epod in Hrun.
  rewrite (running_live w k p (e_uid e) Hw Hp Hlive) in Hrun; [done|].
  destruct He as [He|Hu]; [|by left].
  destruct (wi_owned w Hw k p Hp Hlive) as [_ Ho2]. by apply (Ho2 ip e).
Qed.

Lemma winv_resync w ip o ocl fl : WInv w → WInv (pstep w (PResync ip o ocl fl)).1.
Proof.
  intros Hw. cbn [pstep].
  assert (WInv (resync_section w ip o ocl fl).1) as Hw'.
  { destruct (resync_section_confined w ip o ocl fl (wi_ipam w Hw)) as [->|(e & He & Hrun & Hc)]; [done|].
    eapply winv_confined; [exact Hw|exact Hc|]. eapply not_running_no_live; [done|done|by left|done]. }
  destruct (resync_section w ip o ocl fl) as [w' [| |]]; done.
Qed.

(** ** an API release *)
Lemma api_release_section_confined w k ip ocl fl :
  Inv2 (w_ipam w) →
  (api_release_section w k ip ocl fl).1 = w ∨
  ∃ e, by_ip (w_ipam w) ip = Some e ∧ e_key e = Keys.ko_key k ∧
       pod_running w (Keys.ko_ns k) (Keys.ko_pod k) (e_uid e) = false ∧
       confined (Keys.ko_key k) w (api_release_section w k ip ocl fl).1.
Proof.
  intros Hi. unfold api_release_section. destruct (by_ip (w_ipam w) ip) as [e|] eqn:He.
  2:{ left. by destruct (Keys.is_empty _). }
  destruct (str_eqb_spec (e_key e) (Keys.ko_key k)) as [Ek|Ek]; cbn [negb].
  2:{ left. by destruct (Keys.is_empty _). }
  destruct (pod_running _ _ _ _) eqn:Erun; [by left|].
  right. exists e. split_and!; try done.
  match goal with |- confined _ _ (match ?r with _ => _ end).1 => set (s1 := r) end.
  assert (confined (Keys.ko_key k) w s1.1) as Hs1.
  { unfold s1. destruct (_ && _)%bool; [|by apply confined_refl].
    destruct (bool_decide _); [by apply confined_refl|].
    set (w1 := cloud_unassign w ip (e_node e)).
    assert (confined (Keys.ko_key k) w w1) as Hw1 by (by apply confined_cloud_unassign).
    match goal with |- context [update_attr (w_ipam w1) _ ip ?a0 ?f0] => set (a1 := a0); set (f1 := f0) end.
    assert (confined (Keys.ko_key k) w1 (set_ipam w1 (update_attr (w_ipam w1) (e_key e) ip a1 f1).1)).
    { apply confined_set_ipam; [by apply inv2_update_attr|]. rewrite Ek. by apply update_attr_chg. }
    destruct (update_attr (w_ipam w1) (e_key e) ip a1 f1) as [s' ra]. cbn [fst snd] in *.
    destruct ra; cbn [fst]; try done; by eapply confined_trans. }
  destruct s1 as [w1 [| |]]; cbn [fst] in *; try done.
  eapply confined_trans; [exact Hs1|].
  apply confined_set_ipam; [apply inv2_release; by eapply confined_inv2|apply release_chg].
Qed.

Lemma winv_api_release w k ip ocl fl :
  WInv w → k = Keys.parse_key (Keys.ko_key k) → WInv (pstep w (PApiRelease k ip ocl fl)).1.
Proof.
  intros Hw Hk. cbn [pstep].
  assert (WInv (api_release_section w k ip ocl fl).1) as Hw'.
  { destruct (api_release_section_confined w k ip ocl fl (wi_ipam w Hw)) as [->|(e & He & Hke & Hrun & Hc)]; [done|].
    eapply winv_confined; [exact Hw|exact Hc|].
    rewrite Hk in Hrun. apply (not_running_no_live w (Keys.ko_key k) e ip Hw); [done| |done].
    unfold by_ip in He. destruct (i_alloc (w_ipam w) !! ip) as [e0|]; [left; congruence|].
    destruct (decide _); [|done]. right. by simplify_eq. }
  destruct (api_release_section w k ip ocl fl) as [w' [| |]]; done.
Qed.

(** closed under the global context *)
Print Assumptions release_key_frame.
Print Assumptions reserve_key_frame.
Print Assumptions winv_event.
Print Assumptions winv_resync.
Print Assumptions winv_api_release.
