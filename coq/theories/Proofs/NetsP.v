(** Proofs about Model/Nets.v: print/parse round trips of addresses, CIDRs and ranges. *)
From Coq Require Import List Ascii String NArith ZArith Bool Lia ZifyN ZifyNat ZifyBool.
From Galaxy.Base Require Import Strs.
From Galaxy.Model Require Import Nets.
Import ListNotations.
Open Scope N_scope.

Ltac Zify.zify_post_hook ::= Z.div_mod_to_equations.

(** finite sweep over the octets 0..255 *)
Definition octets : list N := map N.of_nat (seq 0 256).
Lemma in_octets o : o < 256 -> In o octets.
Proof.
  intros H. unfold octets. apply in_map_iff. exists (N.to_nat o). split; [lia|].
  apply in_seq. lia.
Qed.

Definition sep_free (s : str) : bool :=
  negb (contains_char "."%char s) && negb (contains_char "~"%char s) && negb (contains_char "/"%char s)
  && negb (contains_char ":"%char s) && match s with [] => false | _ => true end.

Lemma octet_sweep :
  forallb (fun o => sep_free (print_dec o) &&
                    match parse_octet (print_dec o) with Some v => v =? o | None => false end) octets = true.
Proof. vm_compute. reflexivity. Qed.

Lemma octet_ok o : o < 256 ->
  parse_octet (print_dec o) = Some o /\ free "."%char (print_dec o) /\ free "~"%char (print_dec o) /\
  free "/"%char (print_dec o) /\ free ":"%char (print_dec o) /\ print_dec o <> [].
Proof.
  intros H. pose proof octet_sweep as S. rewrite forallb_forall in S. specialize (S o (in_octets o H)).
  apply andb_prop in S. destruct S as [F P]. unfold sep_free in F.
  repeat (apply andb_prop in F; destruct F as [F ?]).
  repeat match goal with H : negb _ = true |- _ => apply negb_true_iff in H; apply contains_char_false in H end.
  destruct (parse_octet (print_dec o)) as [v|] eqn:E; [|discriminate].
  apply N.eqb_eq in P. subst v. repeat split; try assumption.
  destruct (print_dec o); [discriminate|congruence].
Qed.

Definition masklens : list N := map N.of_nat (seq 0 33).
Lemma masklen_sweep :
  forallb (fun l => match parse_masklen (print_dec l) with Some v => v =? l | None => false end) masklens = true.
Proof. vm_compute. reflexivity. Qed.
Lemma masklen_ok l : l <= 32 -> parse_masklen (print_dec l) = Some l.
Proof.
  intros H. pose proof masklen_sweep as S. rewrite forallb_forall in S.
  assert (In l masklens) as I.
  { unfold masklens. apply in_map_iff. exists (N.to_nat l). split; [lia|]. apply in_seq. lia. }
  specialize (S l I). destruct (parse_masklen (print_dec l)) as [v|]; [|discriminate].
  apply N.eqb_eq in S. congruence.
Qed.

Lemma free_app c a b : free c a -> free c b -> free c (a ++ b).
Proof. unfold free. intros Ha Hb Hin. apply in_app_or in Hin. tauto. Qed.
Lemma free_cons c x a : x <> c -> free c a -> free c (x :: a).
Proof. unfold free. intros Hx Ha [E|Hin]; [congruence|tauto]. Qed.

Lemma print_ipv4_join n :
  print_ipv4 n = join "."%char [print_dec (n / 16777216); print_dec ((n / 65536) mod 256);
                                print_dec ((n / 256) mod 256); print_dec (n mod 256)].
Proof. unfold print_ipv4. simpl. repeat rewrite <- app_assoc. simpl. reflexivity. Qed.

Theorem ipv4_roundtrip_l n : n < two32 -> parse_ipv4 (print_ipv4 n) = Some n.
Proof.
  unfold two32. intros H. unfold parse_ipv4. rewrite print_ipv4_join.
  assert (n / 16777216 < 256) as Ha by lia.
  assert ((n / 65536) mod 256 < 256) as Hb by lia.
  assert ((n / 256) mod 256 < 256) as Hc by lia.
  assert (n mod 256 < 256) as Hd by lia.
  destruct (octet_ok _ Ha) as [Pa [Fa _]]. destruct (octet_ok _ Hb) as [Pb [Fb _]].
  destruct (octet_ok _ Hc) as [Pc [Fc _]]. destruct (octet_ok _ Hd) as [Pd [Fd _]].
  rewrite split_join; [|discriminate|repeat constructor; assumption].
  rewrite Pa, Pb, Pc, Pd. f_equal. lia.
Qed.

Lemma print_ipv4_free c n : n < two32 -> c <> "."%char ->
  (forall o, o < 256 -> free c (print_dec o)) -> free c (print_ipv4 n).
Proof.
  unfold two32. intros H Hc Ho. unfold print_ipv4.
  repeat (first [apply free_app | apply free_cons; [congruence|]]); apply Ho; lia.
Qed.

Lemma print_ipv4_nonempty n : print_ipv4 n <> [].
Proof. unfold print_ipv4. destruct (print_dec (n / 16777216)); discriminate. Qed.

Lemma parse_octet_bound f v : parse_octet f = Some v -> v < 256.
Proof.
  unfold parse_octet. destruct f as [|c r]; [discriminate|].
  destruct (all_digits (c :: r)); [|discriminate].
  destruct (_ && _)%bool; [discriminate|].
  destruct (dec_val (c :: r) <=? 255) eqn:E; [|discriminate]. intros X; inversion X; subst. lia.
Qed.

Lemma parse_ipv4_bound s n : parse_ipv4 s = Some n -> n < two32.
Proof.
  unfold parse_ipv4, two32. destruct (split "."%char s) as [|a [|b [|c [|d [|? ?]]]]]; try discriminate.
  destruct (parse_octet a) eqn:A; [|discriminate]. destruct (parse_octet b) eqn:B; [|discriminate].
  destruct (parse_octet c) eqn:C; [|discriminate]. destruct (parse_octet d) eqn:D; [|discriminate].
  apply parse_octet_bound in A, B, C, D. intros X; inversion X; subst. lia.
Qed.

Theorem cidr_roundtrip_l a l : a < two32 -> l <= 32 -> parse_cidr (print_cidr a l) = Some (a, l).
Proof.
  intros Ha Hl. unfold parse_cidr, print_cidr. rewrite cut_app.
  - rewrite ipv4_roundtrip_l by assumption. rewrite masklen_ok by assumption. reflexivity.
  - apply print_ipv4_free; [assumption|discriminate|]. intros o Ho. apply (octet_ok o Ho).
Qed.

Lemma parse_cidr_bound s a l : parse_cidr s = Some (a, l) -> a < two32 /\ l <= 32.
Proof.
  unfold parse_cidr. destruct (cut "/"%char s) as [[x m]|]; [|discriminate].
  destruct (parse_ipv4 x) eqn:A; [|discriminate]. destruct (parse_masklen m) eqn:M; [|discriminate].
  intros X; inversion X; subst. split; [eapply parse_ipv4_bound; eassumption|].
  unfold parse_masklen in M. destruct m; [discriminate|]. destruct (all_digits _); [|discriminate].
  destruct (dec_val _ <=? 32) eqn:E; [|discriminate]. inversion M; subst. lia.
Qed.

Lemma contains_char_true_app c a b : contains_char c (a ++ c :: b) = true.
Proof.
  unfold contains_char. apply existsb_exists. exists c. split; [apply in_or_app; right; left; reflexivity|].
  apply Ascii.eqb_refl.
Qed.

Theorem range_roundtrip_l f l : f <= l -> l < two32 -> parse_range (print_range (f, l)) = Some (f, l).
Proof.
  intros Hfl Hl. assert (f < two32) as Hf by lia.
  assert (forall n, n < two32 -> free "~"%char (print_ipv4 n)) as Fr.
  { intros n Hn. apply print_ipv4_free; [assumption|discriminate|]. intros o Ho. apply (octet_ok o Ho). }
  unfold parse_range, print_range. cbn [fst snd]. destruct (f =? l) eqn:E.
  - apply N.eqb_eq in E. subst l.
    assert (contains_char "~"%char (print_ipv4 f) = false) as C by (apply contains_char_false; auto).
    rewrite C. rewrite ipv4_roundtrip_l by assumption. reflexivity.
  - rewrite contains_char_true_app. rewrite cut_app by auto.
    rewrite !ipv4_roundtrip_l by assumption.
    destruct (l <? f) eqn:L; [lia|reflexivity].
Qed.

Lemma parse_range_ordered s r : parse_range s = Some r -> fst r <= snd r /\ snd r < two32.
Proof.
  unfold parse_range. destruct (contains_char "~"%char s).
  - destruct (cut "~"%char s) as [[a b]|]; [|discriminate].
    destruct (parse_ipv4 a) eqn:A; [|discriminate]. destruct (parse_ipv4 b) eqn:B; [|discriminate].
    destruct (n0 <? n) eqn:E; [discriminate|]. intros X; inversion X; subst. cbn.
    apply parse_ipv4_bound in B. lia.
  - destruct (parse_ipv4 s) eqn:A; [|discriminate]. intros X; inversion X; subst. cbn.
    apply parse_ipv4_bound in A. lia.
Qed.
