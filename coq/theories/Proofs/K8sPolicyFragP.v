(** C16 - the positive half: compiler correctness of galaxy's NetworkPolicy translation on the fragment where
    galaxy is right (DESIGN.md appendix D).

    [enforces_partial_g_l]: for every name hash H that does not collide on the policy keys and on the pod keys of the
    nodes the flow crosses ([hash_distinct], as in C15), every cluster c in the fragment [frag_g c], every flow f with
    32-bit addresses ([flow_ok]), without cross-talk ([no_cross c f]) and with at most one hooked end per node
    ([one_hooked c f]):
        galaxy_allows H c f = k8s_allows c f
    i.e. walking FORWARD of the kernels PolicyManager.Run installs (Model/Policy.v [run] from the empty kernel) on the
    nodes of the two ends accepts the new connection exactly when the NetworkPolicy reference allows it.
    [node_enforces] is the per-node statement, [policy_chain_accepts] the characterisation of one policy chain,
    [enforces_partial_l] the corollary for the simple fragment [frag] (one direction per policy, no pod isolated in
    both directions: then [no_cross] holds for every flow), [enforces_partial_g_inj] / [enforces_partial_inj] the
    corollaries for an injective H.

    The fragment [frag_g c] (boolean, evaluated by vm_compute in the Examples of Props/C16.v):
      (1) every rule (of a direction its policy affects) has at least one peer                         [K6c outside]
      (2) every peer is an ipBlock, a namespaceSelector-only peer, or a podSelector-only peer all of whose matching
          pods live in the policy's namespace; no namespaceSelector+podSelector peer                  [K6a, K6b outside]
      (3) at most one ipBlock per rule; 32-bit CIDRs; every exception is a strictly longer prefix than its block
          (so the block and an exception never print to the same ipset element, K5d, and an exception containing
          the address is the most specific element of the hash:net set: it decides, [hashnet_match])     [K6d outside]
      (4) every port entry is numeric with protocol "tcp" or "udp"
      well-formedness: policy keys (name_namespace) distinct, pod keys distinct, pod addresses 32-bit and pairwise
      distinct.
    Premises on the flow:
      (5) [no_cross c f]: no policy selecting an egress-isolated pod that owns the source has an INGRESS rule matching
          the flow (it selects the destination, a peer matches the source, the port matches), and symmetrically for
          the destination's policies and their EGRESS rules                                             [K6e outside]
          - implied, for every flow, by [frag]: every policy affects exactly one direction and no pod is selected by an
          ingress-affecting and by an egress-affecting policy;
      (6) [one_hooked c f]: no pair (pod owning the source, pod owning the destination) lives on one node with the
          source egress-isolated and the destination ingress-isolated                                   [K6g outside];
      [flow_ok f]: source and destination addresses are 32-bit.

    Layout: the fragment; matching of set elements, ACCEPT rules and ports (prefix b_); what the compiled peer sets
    hold (prefix p_); the shape of the kernel a Run leaves on an empty node, from the C15 lemmas (prefix a_); the
    packet walk chain by chain; one policy chain, one pod chain, one node; both ends; examples. *)
From Coq Require Import List Ascii String NArith Bool Lia.
From Galaxy.Base Require Import Strs.
From Galaxy.Model Require Import Nets Netfilter Policy PolicySpec K8sPolicy.
From Galaxy.Proofs Require Import NetsP NetfilterP PolicySetsP PolicyPodsP PolicyP K8sPolicyP.
Import ListNotations.
Open Scope N_scope.

(** ---------------------------------------------------------------- the fragment (DESIGN.md appendix D) *)
Definition cidr_ok (cd : N * N) : bool := (fst cd <? two32) && (snd cd <=? 32).
Definition is_nil {A} (l : list A) : bool := match l with [] => true | _ => false end.

(** (2) the peer kinds galaxy resolves correctly; (3) the exceptions of an ipBlock are strictly longer prefixes *)
Definition peer_frag (c : cluster) (x : netpol) (q : peer) : bool :=
  match q with
  | PeerBlock cd ex => cidr_ok cd && forallb (fun e => cidr_ok e && (snd cd <? snd e)) ex
  | PeerNs _ => true
  | PeerPod l => forallb (fun p => negb (sel_matches l (pod_labels p)) || str_eqb (pod_ns p) (np_ns x)) (c_pods c)
  | PeerNsPod _ _ => false
  end.

(** (1) at least one peer, (2) good peers, (3) at most one ipBlock, (4) tcp / udp ports *)
Definition rule_frag (c : cluster) (x : netpol) (r : prule) : bool :=
  negb (is_nil (pr_peers r)) && forallb (peer_frag c x) (pr_peers r) &&
  Nat.leb (List.length (filter is_block (pr_peers r))) 1 &&
  forallb (fun e => str_eqb (fst e) (L "tcp") || str_eqb (fst e) (L "udp")) (pr_ports r).

(** the rules of the direction(s) the policy affects are in the fragment *)
Definition pol_frag_g (c : cluster) (x : netpol) : bool :=
  forallb (rule_frag c x) (if affects_in x then np_ingress x else []) &&
  forallb (rule_frag c x) (if affects_eg x then np_egress x else []).

Definition pod_ips (c : cluster) : list N :=
  flat_map (fun p => match pod_ip p with Some a => [a] | None => [] end) (c_pods c).
Fixpoint n_nodup (l : list N) : bool :=
  match l with [] => true | a :: r => negb (existsb (N.eqb a) r) && n_nodup r end.

(** the general fragment: (1)-(4) for every policy, and a well-formed cluster: distinct policy keys, distinct pod
    keys, distinct 32-bit pod addresses.  Condition (5) is the premise [no_cross] on the flow. *)
Definition frag_g (c : cluster) : bool :=
  forallb (pol_frag_g c) (c_pols c) &&
  strs_nodup (map np_key (c_pols c)) && strs_nodup (map pod_key (c_pods c)) &&
  forallb (fun a => a <? two32) (pod_ips c) && n_nodup (pod_ips c).

(** the simple fragment: moreover (5a) every policy affects exactly one direction and (5b) no pod is isolated in
    both directions - then [no_cross] holds for every flow *)
Definition frag (c : cluster) : bool :=
  frag_g c &&
  forallb (fun x => xorb (affects_in x) (affects_eg x)) (c_pols c) &&
  forallb (fun p => negb (isolated_in c p && isolated_eg c p)) (c_pods c).

(** (5) no cross-talk for this flow: no policy selecting an egress-isolated sender has an INGRESS rule that matches
    the flow (destination selected by the policy, source among the rule's peers, port), and no policy selecting an
    ingress-isolated receiver has an EGRESS rule that matches it *)
Definition no_cross (c : cluster) (f : flow) : bool :=
  forallb (fun s => negb (isolated_eg c s) ||
     forallb (fun x => negb (applies x s && affects_in x && sel_at c x (f_dst f) &&
                         existsb (fun r => port_ok r (f_proto f) (f_dport f) && peers_ok c x r (f_src f)) (np_ingress x)))
             (c_pols c)) (pods_at c (f_src f)) &&
  forallb (fun d => negb (isolated_in c d) ||
     forallb (fun x => negb (applies x d && affects_eg x && sel_at c x (f_src f) &&
                         existsb (fun r => port_ok r (f_proto f) (f_dport f) && peers_ok c x r (f_dst f)) (np_egress x)))
             (c_pols c)) (pods_at c (f_dst f)).

Definition flow_ok (f : flow) : bool := (f_src f <? two32) && (f_dst f <? two32).

(** (6) at most one hooked end per node *)
Definition one_hooked (c : cluster) (f : flow) : bool :=
  forallb (fun s => forallb (fun d => negb (str_eqb (pod_node s) (pod_node d) && isolated_eg c s && isolated_in c d))
                            (pods_at c (f_dst f))) (pods_at c (f_src f)).

(** the destination-port part of the ACCEPT rules of one compiled rule *)
Definition ports_match (tcp udp : list N) (f : flow) : bool :=
  match tcp, udp with
  | [], [] => true
  | _, _ => (negb (is_nil tcp) && str_eqb (L "tcp") (f_proto f) && existsb (fun p => p =? f_dport f) tcp) ||
            (negb (is_nil udp) && str_eqb (L "udp") (f_proto f) && existsb (fun p => p =? f_dport f) udp)
  end.

(** ================================================================ set elements, ACCEPT rules, ports *)
Definition b_step (acc : N) (c : ascii) : N := acc * 10 + digit_val c.
Definition b_us (d : Decimal.uint) : str := list_ascii_of_string (DecimalString.NilEmpty.string_of_uint d).

Lemma b_us_cons c s : list_ascii_of_string (String c s) = c :: list_ascii_of_string s.
Proof. reflexivity. Qed.

Lemma b_fold_acc d : forall acc,
  fold_left b_step (b_us d) (Npos acc) = Npos (Pos.of_uint_acc d acc).
Proof.
  unfold b_us. induction d; intros acc; [reflexivity|..];
  cbn [DecimalString.NilEmpty.string_of_uint Pos.of_uint_acc]; rewrite b_us_cons; cbn [fold_left];
  (etransitivity; [|apply IHd]); f_equal; unfold b_step;
  match goal with |- _ + digit_val ?c = _ => change (digit_val c) with 0 || change (digit_val c) with 1
    || change (digit_val c) with 2 || change (digit_val c) with 3 || change (digit_val c) with 4
    || change (digit_val c) with 5 || change (digit_val c) with 6 || change (digit_val c) with 7
    || change (digit_val c) with 8 || change (digit_val c) with 9 end; lia.
Qed.

Lemma b_fold_zero d : fold_left b_step (b_us d) 0 = Pos.of_uint d.
Proof.
  unfold b_us. induction d; simpl; try reflexivity; try exact IHd;
  (etransitivity; [|apply b_fold_acc]); reflexivity.
Qed.

Lemma dec_val_print : forall n, dec_val (print_dec n) = n.
Proof.
  intros n. unfold dec_val, print_dec. change (fold_left b_step (b_us (N.to_uint n)) 0 = n).
  rewrite b_fold_zero. change (N.of_uint (N.to_uint n) = n). apply DecimalN.Unsigned.of_to.
Qed.

(** ---- addresses *)
Lemma b_print_ipv4_inj a b : a < two32 -> b < two32 -> print_ipv4 a = print_ipv4 b -> a = b.
Proof.
  intros Ha Hb E. apply (f_equal parse_ipv4) in E. rewrite !ipv4_roundtrip_l in E by assumption.
  congruence.
Qed.

Lemma b_print_ipv4_eqb a b : a < two32 -> b < two32 -> str_eqb (print_ipv4 b) (print_ipv4 a) = (b =? a).
Proof.
  intros Ha Hb. destruct (N.eqb_spec b a) as [->|Hne].
  - apply str_eqb_refl.
  - apply str_eqb_neq. intros E. apply Hne. apply b_print_ipv4_inj; assumption.
Qed.

Lemma haship_match : forall (ps : list pod) a, a < two32 ->
  (forall p b, In p ps -> pod_ip p = Some b -> b < two32) ->
  elems_match HashIP (ip_entries ps) a = existsb (ip_is a) ps.
Proof.
  intros ps a Ha. unfold elems_match, ip_entries. induction ps as [|p ps IH]; intros Hb; [reflexivity|].
  cbn [flat_map existsb]. rewrite existsb_app. rewrite IH by (intros q b Hq; apply Hb; right; exact Hq).
  f_equal. unfold ip_is. destruct (pod_ip p) as [b|] eqn:E; [|reflexivity].
  cbn [existsb fst]. rewrite orb_false_r. apply b_print_ipv4_eqb; [assumption|].
  apply (Hb p b); [left; reflexivity|assumption].
Qed.

Lemma b_slash_free n : n < two32 -> free "/"%char (print_ipv4 n).
Proof.
  intros H. apply print_ipv4_free; [assumption|discriminate|]. intros o Ho. apply (octet_ok o Ho).
Qed.

Lemma b_parse_cidr_bare n : n < two32 -> parse_cidr (print_ipv4 n) = None.
Proof. intros H. unfold parse_cidr. rewrite cut_none by (apply b_slash_free; assumption). reflexivity. Qed.

Lemma b_pow_nz l : 2 ^ (32 - l) <> 0.
Proof. apply N.pow_nonzero. discriminate. Qed.

Lemma b_mask_le a l : mask_ip a l <= a.
Proof. unfold mask_ip. rewrite N.mul_comm. apply N.mul_div_le. apply b_pow_nz. Qed.

Lemma b_mask_idem a l : mask_ip (mask_ip a l) l = mask_ip a l.
Proof. unfold mask_ip. rewrite N.div_mul by apply b_pow_nz. reflexivity. Qed.

Lemma b_mask_32 a : mask_ip a 32 = a.
Proof. unfold mask_ip. change (2 ^ (32 - 32)) with 1. rewrite N.div_1_r. apply N.mul_1_r. Qed.

Lemma b_cidr_ok cd : cidr_ok cd = true -> fst cd < two32 /\ snd cd <= 32.
Proof. unfold cidr_ok. intros H. apply andb_prop in H. destruct H as [A B]. apply N.ltb_lt in A. apply N.leb_le in B. tauto. Qed.

Lemma b_parse_cidr_str cd : cidr_ok cd = true ->
  parse_cidr (cidr_str cd) = if snd cd =? 32 then None else Some (mask_ip (fst cd) (snd cd), snd cd).
Proof.
  intros H. apply b_cidr_ok in H. destruct H as [Ha Hl].
  assert (mask_ip (fst cd) (snd cd) < two32) as Hm by (pose proof (b_mask_le (fst cd) (snd cd)); lia).
  unfold cidr_str. cbv zeta. destruct (snd cd =? 32).
  - apply b_parse_cidr_bare; assumption.
  - apply cidr_roundtrip_l; assumption.
Qed.

Lemma addr_cidr_match : forall cd a, cidr_ok cd = true ->
  addr_elem_match (cidr_str cd) a = net_contains (fst cd) (snd cd) a.
Proof.
  intros cd a H. unfold addr_elem_match. rewrite b_parse_cidr_str by assumption.
  apply b_cidr_ok in H. destruct H as [Ha Hl].
  assert (mask_ip (fst cd) (snd cd) < two32) as Hm by (pose proof (b_mask_le (fst cd) (snd cd)); lia).
  unfold cidr_str. cbv zeta. destruct (N.eqb_spec (snd cd) 32) as [E|E].
  - rewrite ipv4_roundtrip_l by assumption. unfold net_contains. rewrite E, !b_mask_32. reflexivity.
  - unfold net_contains. rewrite b_mask_idem. reflexivity.
Qed.

(** ---- hash:net: the most specific element containing the address decides *)
Lemma b_elem_len_str cd : cidr_ok cd = true -> elem_len (cidr_str cd) = snd cd.
Proof.
  intros H. unfold elem_len. rewrite b_parse_cidr_str by assumption.
  destruct (N.eqb_spec (snd cd) 32) as [E|E]; [symmetry; exact E|reflexivity].
Qed.

Lemma best_len_cons e es a :
  best_len (e :: es) a = if addr_elem_match (fst e) a then N.max (elem_len (fst e)) (best_len es a) else best_len es a.
Proof. reflexivity. Qed.

Lemma best_len_ge es a : forall e, In e es -> addr_elem_match (fst e) a = true -> elem_len (fst e) <= best_len es a.
Proof.
  induction es as [|x es IH]; intros e Hin Hm; [destruct Hin|]. rewrite best_len_cons. destruct Hin as [<-|He].
  - rewrite Hm. lia.
  - specialize (IH e He Hm). destruct (addr_elem_match (fst x) a); lia.
Qed.

Lemma best_len_none es a : (forall e, In e es -> addr_elem_match (fst e) a = false) -> best_len es a = 0.
Proof.
  induction es as [|x es IH]; intros Hn; [reflexivity|]. rewrite best_len_cons, (Hn x) by (left; reflexivity).
  apply IH. intros e He. apply Hn. right; exact He.
Qed.

Lemma best_len_hit es a : existsb (fun e => addr_elem_match (fst e) a) es = true ->
  exists e, In e es /\ addr_elem_match (fst e) a = true /\ elem_len (fst e) = best_len es a.
Proof.
  induction es as [|x es IH]; intros Hx; [discriminate|]. rewrite best_len_cons. cbn [existsb] in Hx.
  destruct (addr_elem_match (fst x) a) eqn:Ex.
  - destruct (existsb (fun e => addr_elem_match (fst e) a) es) eqn:Et.
    + destruct (IH eq_refl) as [e [He [Hm Hl]]].
      destruct (N.max_spec (elem_len (fst x)) (best_len es a)) as [[_ ->]|[_ ->]].
      * exists e. split; [right; exact He|]. split; assumption.
      * exists x. split; [left; reflexivity|]. split; [exact Ex|reflexivity].
    + rewrite (best_len_none es a).
      * exists x. split; [left; reflexivity|]. split; [exact Ex|]. lia.
      * intros e He. destruct (addr_elem_match (fst e) a) eqn:Em; [|reflexivity].
        assert (existsb (fun e => addr_elem_match (fst e) a) es = true) as Hc
          by (apply existsb_exists; exists e; split; assumption).
        rewrite Hc in Et. discriminate.
  - destruct (IH Hx) as [e [He [Hm Hl]]]. exists e. split; [right; exact He|]. split; assumption.
Qed.

Lemma b_nm_plain (g h : str * bool -> bool) (ex : list (N * N)) :
  existsb (fun e => negb (snd e) && g e && h e) (map (fun e : N * N => (cidr_str e, true)) ex) = false.
Proof. induction ex as [|e ex IH]; [reflexivity|]. cbn [map existsb snd negb andb orb]. exact IH. Qed.

(** a block with its exceptions in one set: the kernel's rule gives the ipBlock semantics when every exception is a
    strictly longer prefix than the block (then an exception containing the address is the more specific element) *)
Lemma hashnet_match : forall cd ex a, cidr_ok cd = true ->
  forallb (fun e => cidr_ok e && (snd cd <? snd e)) ex = true ->
  elems_match HashNet ((cidr_str cd, false) :: map (fun e => (cidr_str e, true)) ex) a = block_ok cd ex a.
Proof.
  intros cd ex a Hcd Hex. unfold elems_match, block_ok. cbv zeta. rewrite best_len_cons.
  cbn [existsb fst snd negb andb]. rewrite addr_cidr_match, b_elem_len_str by assumption.
  rewrite b_nm_plain.
  rewrite forallb_forall in Hex.
  destruct (net_contains (fst cd) (snd cd) a) eqn:C; [|reflexivity]. cbn [andb orb].
  destruct (forallb (fun e => negb (net_contains (fst e) (snd e) a)) ex) eqn:Fx.
  - assert (Hn : forall e, In e (map (fun e : N * N => (cidr_str e, true)) ex) -> addr_elem_match (fst e) a = false).
    { intros e He. apply in_map_iff in He. destruct He as [y [<- Hy]]. cbn [fst].
      specialize (Hex y Hy). apply andb_true_iff in Hex. destruct Hex as [Hy1 _].
      rewrite addr_cidr_match by assumption. rewrite forallb_forall in Fx. specialize (Fx y Hy).
      apply negb_true_iff in Fx. exact Fx. }
    rewrite (best_len_none _ a Hn). rewrite N.max_0_r, N.eqb_refl. cbn [andb].
    replace (existsb _ _) with false; [reflexivity|]. symmetry. apply existsb_false. intros e He.
    rewrite (Hn e He). rewrite andb_false_r. reflexivity.
  - replace (snd cd =? _) with false; [reflexivity|]. symmetry. apply N.eqb_neq.
    assert (exists y, In y ex /\ net_contains (fst y) (snd y) a = true) as [y [Hy Cy]].
    { destruct (existsb (fun e => net_contains (fst e) (snd e) a) ex) eqn:Ee.
      - apply existsb_exists in Ee. exact Ee.
      - exfalso. rewrite existsb_false in Ee. assert (forallb (fun e => negb (net_contains (fst e) (snd e) a)) ex = true) as Hc.
        { apply forallb_forall. intros e He. rewrite (Ee e He). reflexivity. }
        rewrite Hc in Fx. discriminate. }
    specialize (Hex y Hy). apply andb_true_iff in Hex. destruct Hex as [Hy1 Hy2]. apply N.ltb_lt in Hy2.
    pose proof (best_len_ge (map (fun e : N * N => (cidr_str e, true)) ex) a (cidr_str y, true)) as Hg.
    cbn [fst] in Hg. rewrite addr_cidr_match, b_elem_len_str in Hg by assumption.
    specialize (Hg (in_map _ _ _ Hy) Cy). lia.
Qed.

Lemma cidr_str_strict : forall cd e, cidr_ok cd = true -> cidr_ok e = true -> snd cd < snd e ->
  cidr_str e <> cidr_str cd.
Proof.
  intros cd e Hcd He Hlt E. apply (f_equal parse_cidr) in E. rewrite !b_parse_cidr_str in E by assumption.
  pose proof (b_cidr_ok _ He) as [_ Hl].
  destruct (N.eqb_spec (snd cd) 32) as [A|A]; [lia|].
  destruct (N.eqb_spec (snd e) 32) as [B|B]; [discriminate|]. inversion E. lia.
Qed.

Lemma hook_addr_match : forall a b, a < two32 -> addr_match (print_ipv4 a) b = (a =? b).
Proof.
  intros a b Ha. unfold addr_match. destruct (print_ipv4 a) eqn:E; [exfalso; exact (print_ipv4_nonempty a E)|].
  rewrite <- E. unfold addr_elem_match. rewrite b_parse_cidr_bare, ipv4_roundtrip_l by assumption. reflexivity.
Qed.

(** ---- rules *)
Lemma b_uint_comma_free d : free ","%char (b_us d).
Proof. unfold free, b_us. induction d; simpl; intros Hin; try (destruct Hin as [E|Hin]; [discriminate E|auto]); auto. Qed.

Lemma b_print_dec_comma_free n : free ","%char (print_dec n).
Proof. apply b_uint_comma_free. Qed.

Lemma b_split_ports ports : ports <> [] ->
  split ","%char (join ","%char (map print_dec ports)) = map print_dec ports.
Proof.
  intros H. apply split_join.
  - destruct ports; [congruence|discriminate].
  - apply Forall_forall. intros x Hx. apply in_map_iff in Hx. destruct Hx as [n [<- _]].
    apply b_print_dec_comma_free.
Qed.

Lemma b_tm_skip ss f t r :
  str_eqb t (L "--match-set") = false -> str_eqb t (L "--dports") = false ->
  str_eqb t (L "--ctstate") = false -> toks_match ss f (t :: r) = toks_match ss f r.
Proof. intros A B C. cbn [toks_match]. rewrite A, B, C. reflexivity. Qed.

Lemma b_tm_src ss f n r :
  toks_match ss f (L "--match-set" :: n :: L "src" :: r) = set_match ss n (f_src f) && toks_match ss f r.
Proof. cbn [toks_match]. rewrite !str_eqb_refl. reflexivity. Qed.

Lemma b_tm_dst ss f n r :
  toks_match ss f (L "--match-set" :: n :: L "dst" :: r) = set_match ss n (f_dst f) && toks_match ss f r.
Proof.
  cbn [toks_match]. rewrite str_eqb_refl.
  replace (str_eqb (L "dst") (L "src")) with false by reflexivity. rewrite str_eqb_refl. reflexivity.
Qed.

Lemma b_tm_dports ss f p r :
  toks_match ss f (L "--dports" :: p :: r) =
  existsb (fun x => dec_val x =? f_dport f) (split ","%char p) && toks_match ss f r.
Proof.
  cbn [toks_match]. replace (str_eqb (L "--dports") (L "--match-set")) with false by reflexivity.
  rewrite str_eqb_refl. reflexivity.
Qed.

Lemma b_existsb_ports dp ports :
  existsb (fun x => dec_val x =? dp) (map print_dec ports) = existsb (fun p => p =? dp) ports.
Proof.
  induction ports as [|p ps IH]; [reflexivity|]. cbn [map existsb]. rewrite dec_val_print, IH. reflexivity.
Qed.

Lemma accept_rule_matches : forall ss f cm proto s d ports,
  rule_matches ss f (accept_rule cm proto s d ports) =
  (match proto with [] => true | p => str_eqb p (f_proto f) end) &&
  set_match ss s (f_src f) && set_match ss d (f_dst f) &&
  (match ports with [] => true | _ => existsb (fun p => p =? f_dport f) ports end).
Proof.
  intros. unfold rule_matches, accept_rule.
  cbn [r_src r_dst r_proto r_match addr_match andb app].
  rewrite (b_tm_skip ss f (L "-m")) by reflexivity.
  rewrite (b_tm_skip ss f (L "set")) by reflexivity.
  rewrite b_tm_src.
  rewrite (b_tm_skip ss f (L "-m")) by reflexivity.
  rewrite (b_tm_skip ss f (L "set")) by reflexivity.
  rewrite b_tm_dst. rewrite <- !andb_assoc.
  replace (match proto with [] => true | a :: l => str_eqb (a :: l) (f_proto f) end)
    with (match proto with [] => true | _ => str_eqb proto (f_proto f) end) by (destruct proto; reflexivity).
  do 3 f_equal.
  destruct ports as [|p ps]; [reflexivity|].
  rewrite (b_tm_skip ss f (L "-m")) by reflexivity.
  rewrite (b_tm_skip ss f (L "multiport")) by reflexivity.
  rewrite b_tm_dports. rewrite b_split_ports by discriminate. rewrite b_existsb_ports.
  cbn [toks_match]. apply andb_true_r.
Qed.

Lemma b_existsb_flat_map {A B} (g : B -> bool) (h : A -> list B) l :
  existsb g (flat_map h l) = existsb (fun x => existsb g (h x)) l.
Proof. induction l as [|x l IH]; [reflexivity|]. cbn [flat_map existsb]. rewrite existsb_app, IH. reflexivity. Qed.

Definition b_acc (ss : sets) (f : flow) (r : rule) : bool :=
  rule_matches ss f r && str_eqb (r_target r) (L "ACCEPT").

Lemma b_acc_any ss f cm s d :
  b_acc ss f (accept_rule cm [] s d []) = set_match ss s (f_src f) && set_match ss d (f_dst f).
Proof.
  unfold b_acc. rewrite accept_rule_matches. cbn [accept_rule r_target]. rewrite str_eqb_refl.
  rewrite !andb_true_r. reflexivity.
Qed.

Lemma b_acc_proto ss f cm proto s d p ps : proto <> [] ->
  b_acc ss f (accept_rule cm proto s d (p :: ps)) =
  str_eqb proto (f_proto f) && set_match ss s (f_src f) && set_match ss d (f_dst f) &&
  existsb (fun q => q =? f_dport f) (p :: ps).
Proof.
  intros H. unfold b_acc. rewrite accept_rule_matches. cbn [accept_rule r_target]. rewrite str_eqb_refl.
  rewrite andb_true_r. destruct proto; [congruence|reflexivity].
Qed.

Lemma b_existsb_1 {A} (g : A -> bool) x : existsb g [x] = g x.
Proof. apply orb_false_r. Qed.
Lemma b_existsb_2 {A} (g : A -> bool) x y : existsb g [x; y] = g x || g y.
Proof. cbn [existsb]. rewrite orb_false_r. reflexivity. Qed.

Lemma b_pair_accepts ss f cm s d tcp udp :
  existsb (b_acc ss f)
    ((match tcp with [] => [] | _ => [accept_rule cm (L "tcp") s d tcp] end) ++
     (match udp with [] => [] | _ => [accept_rule cm (L "udp") s d udp] end) ++
     (match tcp, udp with [], [] => [accept_rule cm [] s d []] | _, _ => [] end)) =
  set_match ss s (f_src f) && set_match ss d (f_dst f) && ports_match tcp udp f.
Proof.
  unfold ports_match.
  destruct tcp as [|t ts], udp as [|u us]; cbn [app is_nil negb].
  - rewrite b_existsb_1. rewrite b_acc_any. rewrite andb_true_r. reflexivity.
  - rewrite b_existsb_1. generalize (existsb (fun p => p =? f_dport f) []). intros e0.
    rewrite b_acc_proto by discriminate.
    generalize (existsb (fun p => p =? f_dport f) (u :: us)). intros e1.
    destruct (set_match ss s (f_src f)), (set_match ss d (f_dst f)),
      (str_eqb (L "tcp") (f_proto f)), (str_eqb (L "udp") (f_proto f)), e0, e1; reflexivity.
  - rewrite b_existsb_1. generalize (existsb (fun p => p =? f_dport f) []). intros e0.
    rewrite b_acc_proto by discriminate.
    generalize (existsb (fun p => p =? f_dport f) (t :: ts)). intros e1.
    destruct (set_match ss s (f_src f)), (set_match ss d (f_dst f)),
      (str_eqb (L "tcp") (f_proto f)), (str_eqb (L "udp") (f_proto f)), e0, e1; reflexivity.
  - rewrite b_existsb_2.
    rewrite !b_acc_proto by discriminate.
    generalize (existsb (fun p => p =? f_dport f) (u :: us)). intros e1.
    generalize (existsb (fun p => p =? f_dport f) (t :: ts)). intros e2.
    destruct (set_match ss s (f_src f)), (set_match ss d (f_dst f)),
      (str_eqb (L "tcp") (f_proto f)), (str_eqb (L "udp") (f_proto f)), e1, e2; reflexivity.
Qed.

Lemma b_ex_inner {A} (a : bool) (g : A -> bool) (P : bool) l :
  existsb (fun d => a && g d && P) l = a && existsb g l && P.
Proof.
  induction l as [|x l IH]; [destruct a; reflexivity|]. cbn [existsb]. rewrite IH.
  destruct a, (g x), P, (existsb g l); reflexivity.
Qed.

Lemma b_ex_outer {A B} (g : A -> bool) (h : B -> bool) (P : bool) l m :
  existsb (fun s => existsb (fun d => g s && h d && P) m) l = existsb g l && existsb h m && P.
Proof.
  induction l as [|x l IH]; [reflexivity|]. cbn [existsb]. rewrite IH, b_ex_inner.
  destruct (g x), (existsb h m), P, (existsb g l); reflexivity.
Qed.

Lemma b_existsb_ext {A} (g h : A -> bool) l : (forall x, g x = h x) -> existsb g l = existsb h l.
Proof. intros E. induction l as [|x l IH]; [reflexivity|]. cbn [existsb]. rewrite E, IH. reflexivity. Qed.

Lemma policy_rules_for_accepts : forall ss f cm srcs dsts tcp udp,
  chain_accepts ss (policy_rules_for cm srcs dsts tcp udp) f =
  existsb (fun s => set_match ss s (f_src f)) srcs && existsb (fun d => set_match ss d (f_dst f)) dsts &&
  ports_match tcp udp f.
Proof.
  intros. unfold chain_accepts, policy_rules_for. change (fun r => _ && _) with (b_acc ss f).
  rewrite b_existsb_flat_map.
  rewrite <- (b_ex_outer (fun s => set_match ss s (f_src f)) (fun d => set_match ss d (f_dst f))).
  apply b_existsb_ext. intros s. rewrite b_existsb_flat_map.
  apply b_existsb_ext. intros d. apply b_pair_accepts.
Qed.

(** ---- ports *)
Lemma b_ports_match_alt tcp udp f : (tcp <> [] \/ udp <> []) ->
  ports_match tcp udp f =
  (str_eqb (L "tcp") (f_proto f) && existsb (fun p => p =? f_dport f) tcp) ||
  (str_eqb (L "udp") (f_proto f) && existsb (fun p => p =? f_dport f) udp).
Proof.
  intros H. unfold ports_match. destruct tcp as [|t ts], udp as [|u us]; [destruct H; congruence|..];
  cbn [is_nil negb andb]; cbn [existsb]; rewrite ?andb_false_r, ?orb_false_r; reflexivity.
Qed.

Lemma b_ports_gen (ps : list (str * N)) pr dp :
  forallb (fun e => str_eqb (fst e) (L "tcp") || str_eqb (fst e) (L "udp")) ps = true ->
  (str_eqb (L "tcp") pr && existsb (fun p => p =? dp) (map snd (filter (fun pp => str_eqb (fst pp) (L "tcp")) ps))) ||
  (str_eqb (L "udp") pr && existsb (fun p => p =? dp) (map snd (filter (fun pp => negb (str_eqb (fst pp) (L "tcp"))) ps))) =
  existsb (fun e => str_eqb (fst e) pr && (snd e =? dp)) ps.
Proof.
  induction ps as [|e ps IH]; intros H.
  - cbn. rewrite !andb_false_r. reflexivity.
  - cbn [forallb] in H. apply andb_prop in H. destruct H as [He H]. specialize (IH H).
    cbn [filter existsb]. rewrite <- IH. destruct (str_eqb (fst e) (L "tcp")) eqn:Et.
    + apply str_eqb_eq in Et. rewrite Et. cbn [negb map existsb].
      destruct (str_eqb (L "tcp") pr), (snd e =? dp), (str_eqb (L "udp") pr); cbn;
        rewrite ?orb_true_r, ?andb_false_r; reflexivity.
    + cbn [orb] in He. apply str_eqb_eq in He. rewrite He. cbn [negb map existsb].
      destruct (str_eqb (L "tcp") pr), (snd e =? dp), (str_eqb (L "udp") pr); cbn;
        rewrite ?orb_true_r, ?andb_false_r; reflexivity.
Qed.

Lemma ports_match_ok : forall (r : prule) f,
  forallb (fun e => str_eqb (fst e) (L "tcp") || str_eqb (fst e) (L "udp")) (pr_ports r) = true ->
  ports_match (map snd (filter (fun pp => str_eqb (fst pp) (L "tcp")) (pr_ports r)))
              (map snd (filter (fun pp => negb (str_eqb (fst pp) (L "tcp"))) (pr_ports r))) f =
  port_ok r (f_proto f) (f_dport f).
Proof.
  intros r f H. unfold port_ok. destruct (pr_ports r) as [|e ps] eqn:E; [reflexivity|].
  rewrite <- (b_ports_gen (e :: ps)) by exact H. apply b_ports_match_alt.
  cbn [filter]. destruct (str_eqb (fst e) (L "tcp")); [left|right]; discriminate.
Qed.

(** ================================================================ the compiled peer sets *)
(** ---- cat_opt *)
Definition p_cat {A} (l : list (option (list A))) : list A :=
  flat_map (fun o => match o with Some b => b | None => [] end) l.

Lemma p_cat_cons {A} (o : option (list A)) l :
  p_cat (o :: l) = (match o with Some b => b | None => [] end) ++ p_cat l.
Proof. reflexivity. Qed.

Lemma p_cat_opt_gen {A} (l : list (option (list A))) : forall acc,
  fold_left (fun acc x => match acc, x with
                          | Some a, Some b => Some (a ++ b)
                          | None, Some b => Some b
                          | a, None => a
                          end) l acc =
  match acc with
  | Some a => Some (a ++ p_cat l)
  | None => if forallb (fun o => negb (is_some o)) l then None else Some (p_cat l)
  end.
Proof.
  induction l as [|o l IH]; intros acc.
  - simpl. destruct acc; [rewrite app_nil_r|]; reflexivity.
  - cbn [fold_left]. rewrite IH, p_cat_cons. destruct acc, o; simpl; try reflexivity.
    rewrite <- app_assoc. reflexivity.
Qed.

Lemma p_cat_opt_eq {A} (l : list (option (list A))) :
  cat_opt l = if forallb (fun o => negb (is_some o)) l then None else Some (p_cat l).
Proof. exact (p_cat_opt_gen l None). Qed.

Lemma p_cat_none {A} (l : list (option (list A))) :
  forallb (fun o => negb (is_some o)) l = true -> p_cat l = [].
Proof. induction l as [|[b|] l IH]; simpl; intros; try discriminate; auto. Qed.

Lemma p_elems_nil ty a : elems_match ty [] a = false.
Proof. destruct ty; reflexivity. Qed.

Lemma p_cat_opt_sets name ty (l : list (option (list (str * bool)))) a :
  existsb (fun cs => elems_match (cs_type cs) (cs_elems cs) a)
    (match (match cat_opt l with Some es => Some (mkCSet name ty es) | None => None end) with
     | Some s => [s] | None => [] end) = elems_match ty (p_cat l) a.
Proof.
  rewrite p_cat_opt_eq. destruct (forallb _ l) eqn:E.
  - rewrite (p_cat_none l E), p_elems_nil. reflexivity.
  - simpl. rewrite orb_false_r. reflexivity.
Qed.

(** ---- list helpers *)
Lemma p_existsb_filter {A} (f g : A -> bool) l : existsb f (filter g l) = existsb (fun x => g x && f x) l.
Proof. induction l as [|a l IH]; simpl; auto. destruct (g a); simpl; rewrite IH; auto. Qed.

Lemma p_existsb_ext {A} (f g : A -> bool) l : (forall x, In x l -> f x = g x) -> existsb f l = existsb g l.
Proof. induction l as [|a l IH]; simpl; intros Hx; auto. rewrite Hx, IH; auto. Qed.

Lemma p_existsb_split {A} (f g : A -> bool) l :
  existsb f l = existsb (fun x => negb (g x) && f x) l || existsb (fun x => g x && f x) l.
Proof.
  induction l as [|a l IH]; simpl; auto. rewrite IH.
  destruct (g a), (f a), (existsb (fun x => negb (g x) && f x) l), (existsb (fun x => g x && f x) l); reflexivity.
Qed.

Lemma p_existsb_cons {A} (f : A -> bool) a l : existsb f (a :: l) = f a || existsb f l.
Proof. reflexivity. Qed.

Lemma p_haship_app l1 l2 a : elems_match HashIP (l1 ++ l2) a = elems_match HashIP l1 a || elems_match HashIP l2 a.
Proof. unfold elems_match. apply existsb_app. Qed.

Lemma p_bound c : forallb (fun b => b <? two32) (pod_ips c) = true ->
  forall p b, In p (c_pods c) -> pod_ip p = Some b -> b < two32.
Proof.
  intros Hb p b Hp Hip. rewrite forallb_forall in Hb. apply N.ltb_lt. apply Hb.
  unfold pod_ips. apply in_flat_map. exists p. split; auto. rewrite Hip. left; reflexivity.
Qed.

(** ---- peers *)
Lemma p_peer_pod c x l a : peer_frag c x (PeerPod l) = true ->
  existsb (ip_is a) (pods_any_ns c l) = peer_ok c x (PeerPod l) a.
Proof.
  cbn [peer_frag peer_ok]. intros Hf. unfold pods_any_ns, pods_at. rewrite !p_existsb_filter.
  apply p_existsb_ext. intros p Hp. rewrite forallb_forall in Hf. specialize (Hf p Hp).
  destruct (sel_matches l (pod_labels p)), (ip_is a p), (str_eqb (pod_ns p) (np_ns x)); simpl in *; congruence.
Qed.

Lemma p_peer_ns c x n a : existsb (ip_is a) (pods_of_nss c n) = peer_ok c x (PeerNs n) a.
Proof.
  cbn [peer_ok]. apply eq_true_iff_eq. unfold pods_of_nss, nss_matching, pods_at, ns_matches.
  split; intros Hx; apply existsb_exists in Hx; apply existsb_exists.
  - destruct Hx as [p [Hp Hi]]. apply in_flat_map in Hp. destruct Hp as [ns [Hns Hp]].
    apply filter_In in Hns. destruct Hns as [Hns Hs]. apply filter_In in Hp. destruct Hp as [Hp He].
    exists p. split. apply filter_In; auto. apply existsb_exists. exists ns. split; auto.
    rewrite str_eqb_sym, He, Hs. reflexivity.
  - destruct Hx as [p [Hp He]]. apply filter_In in Hp. destruct Hp as [Hp Hi]. apply existsb_exists in He.
    destruct He as [ns [Hns He]]. apply andb_true_iff in He. destruct He as [He Hs].
    exists p. split; auto. apply in_flat_map. exists ns. split. apply filter_In; auto.
    apply filter_In. split; auto. rewrite str_eqb_sym. exact He.
Qed.

Lemma p_ip_part c x a : forallb (fun b => b <? two32) (pod_ips c) = true -> a < two32 ->
  forall qs, forallb (peer_frag c x) qs = true ->
  elems_match HashIP (p_cat (map (peer_ip_entries c) qs)) a =
  existsb (fun q => negb (is_block q) && peer_ok c x q a) qs.
Proof.
  intros Hb Ha. induction qs as [|q qs IH]; intros Hf. reflexivity.
  cbn [forallb] in Hf. apply andb_true_iff in Hf. destruct Hf as [Hq Hf]. specialize (IH Hf).
  rewrite map_cons, p_cat_cons, p_haship_app, p_existsb_cons, IH. f_equal.
  destruct q; cbn [peer_ip_entries is_block negb andb].
  - rewrite haship_match; auto. apply p_peer_pod; auto.
    intros p b Hp. apply (p_bound c Hb). unfold pods_any_ns in Hp. apply filter_In in Hp. tauto.
  - rewrite haship_match; auto. apply p_peer_ns.
    intros p b Hp. apply (p_bound c Hb). unfold pods_of_nss in Hp. apply in_flat_map in Hp.
    destruct Hp as [ns [_ Hp]]. apply filter_In in Hp. tauto.
  - discriminate.
  - reflexivity.
Qed.

Lemma p_net_none qs : filter is_block qs = [] -> p_cat (map peer_net_entries qs) = [].
Proof. induction qs as [|[] qs IH]; simpl; intros; try discriminate; auto. Qed.

Lemma p_noblock_false (f : peer -> bool) qs : filter is_block qs = [] ->
  existsb (fun q => is_block q && f q) qs = false.
Proof. induction qs as [|[] qs IH]; simpl; intros; try discriminate; auto. Qed.

Lemma p_le0_nil {A} (l : list A) : (List.length l <= 0)%nat -> l = [].
Proof. destruct l; simpl; intros; auto. lia. Qed.

Lemma p_net_part c x a qs : forallb (peer_frag c x) qs = true -> (List.length (filter is_block qs) <= 1)%nat ->
  elems_match HashNet (p_cat (map peer_net_entries qs)) a = existsb (fun q => is_block q && peer_ok c x q a) qs.
Proof.
  induction qs as [|q qs IH]; intros Hf Hl. reflexivity.
  cbn [forallb] in Hf. apply andb_true_iff in Hf. destruct Hf as [Hq Hf].
  rewrite map_cons, p_cat_cons, p_existsb_cons.
  destruct q; cbn [peer_net_entries is_block andb filter] in *; try (rewrite app_nil_l; apply IH; auto).
  cbn [List.length] in Hl. assert (Hn : filter is_block qs = []) by (apply p_le0_nil; lia).
  rewrite (p_net_none qs Hn), app_nil_r, (p_noblock_false _ qs Hn), orb_false_r.
  cbn [peer_ok]. apply andb_true_iff in Hq. destruct Hq as [Hc Hx].
  apply hashnet_match; auto.
Qed.

Lemma peer_sets_match : forall (H : str -> str) c x ipk netk i r a,
  rule_frag c x r = true -> forallb (fun b => b <? two32) (pod_ips c) = true -> a < two32 ->
  existsb (fun cs => elems_match (cs_type cs) (cs_elems cs) a) (crule_sets (peer_rule H c x ipk netk i r)) =
  peers_ok c x r a.
Proof.
  intros H c x ipk netk i r a Hr Hb Ha. unfold rule_frag in Hr.
  apply andb_true_iff in Hr. destruct Hr as [Hr _].
  apply andb_true_iff in Hr. destruct Hr as [Hr Hl]. apply PeanoNat.Nat.leb_le in Hl.
  apply andb_true_iff in Hr. destruct Hr as [Hn Hf].
  unfold peer_rule, crule_sets. cbn [cr_ip cr_net]. rewrite existsb_app, !p_cat_opt_sets.
  unfold peers_ok. destruct (pr_peers r) as [|q qs] eqn:E. discriminate.
  rewrite (p_ip_part c x a Hb Ha _ Hf), (p_net_part c x a _ Hf Hl).
  symmetry. apply (p_existsb_split (fun q => peer_ok c x q a) is_block).
Qed.

Lemma sel_set_match : forall c (x : netpol) a,
  forallb (fun b => b <? two32) (pod_ips c) = true -> a < two32 ->
  elems_match HashIP (ip_entries (pods_in c (np_ns x) (np_sel x))) a = existsb (applies x) (pods_at c a).
Proof.
  intros c x a Hb Ha. rewrite haship_match; auto.
  - unfold pods_in, pods_at. rewrite !p_existsb_filter. apply p_existsb_ext. intros p _.
    unfold applies. rewrite (str_eqb_sym (np_ns x)). apply andb_comm.
  - intros p b Hp. apply (p_bound c Hb). unfold pods_in in Hp. apply filter_In in Hp. tauto.
Qed.

(** ---- no conflicting flags *)
Definition p_noconf (es : list (str * bool)) : Prop :=
  existsb (fun e => existsb (fun o => str_eqb (fst e) (fst o) && negb (Bool.eqb (snd e) (snd o))) es) es = false.

Lemma p_noconf_flags es : (forall e, In e es -> snd e = false) -> p_noconf es.
Proof.
  intros Hf. apply existsb_false. intros e He. apply existsb_false. intros o Ho.
  rewrite (Hf e He), (Hf o Ho). simpl. apply andb_false_r.
Qed.

Lemma p_ip_flags ps e : In e (ip_entries ps) -> snd e = false.
Proof.
  unfold ip_entries. intros He. apply in_flat_map in He. destruct He as [p [_ He]].
  destruct (pod_ip p); simpl in He; [destruct He as [<-|[]]; reflexivity | contradiction].
Qed.

Lemma p_cat_ip_flags c qs e : In e (p_cat (map (peer_ip_entries c) qs)) -> snd e = false.
Proof.
  unfold p_cat. intros He. apply in_flat_map in He. destruct He as [o [Ho He]].
  apply in_map_iff in Ho. destruct Ho as [q [<- _]].
  destruct q; cbn [peer_ip_entries] in He; try contradiction; eapply p_ip_flags; eauto.
Qed.

Lemma p_block_noconf cd ex : cidr_ok cd = true -> forallb (fun e => cidr_ok e && (snd cd <? snd e)) ex = true ->
  p_noconf ((cidr_str cd, false) :: map (fun e => (cidr_str e, true)) ex).
Proof.
  intros Hc Hx. rewrite forallb_forall in Hx.
  assert (Hne : forall y, In y ex -> cidr_str y <> cidr_str cd).
  { intros y Hy. specialize (Hx y Hy). apply andb_true_iff in Hx. destruct Hx as [Hy1 Hy2].
    apply N.ltb_lt in Hy2. apply cidr_str_strict; auto. }
  apply existsb_false. intros e He. apply existsb_false. intros o Ho.
  destruct He as [<-|He]; destruct Ho as [<-|Ho]; cbn [fst snd].
  - apply andb_false_r.
  - apply in_map_iff in Ho. destruct Ho as [y [<- Hy]]. cbn [fst snd]. rewrite andb_true_r.
    apply str_eqb_neq. intro E. apply (Hne y Hy). auto.
  - apply in_map_iff in He. destruct He as [y [<- Hy]]. cbn [fst snd]. rewrite andb_true_r.
    apply str_eqb_neq. apply Hne; auto.
  - apply in_map_iff in He. destruct He as [y [<- Hy]]. apply in_map_iff in Ho. destruct Ho as [z [<- Hz]].
    cbn [fst snd]. apply andb_false_r.
Qed.

Lemma p_net_shape qs : (List.length (filter is_block qs) <= 1)%nat ->
  p_cat (map peer_net_entries qs) = [] \/
  exists cd ex, In (PeerBlock cd ex) qs /\
    p_cat (map peer_net_entries qs) = (cidr_str cd, false) :: map (fun e => (cidr_str e, true)) ex.
Proof.
  induction qs as [|q qs IH]; intros Hl. left; reflexivity.
  rewrite map_cons, p_cat_cons.
  destruct q; cbn [peer_net_entries is_block filter] in *;
    try (rewrite app_nil_l; destruct (IH Hl) as [E|[cd [ex [Hi E]]]]; [left; auto | right; exists cd, ex; split; [right|]; auto]).
  cbn [List.length] in Hl. assert (Hn : filter is_block qs = []) by (apply p_le0_nil; lia).
  right. exists cidr, except. split. left; reflexivity. rewrite (p_net_none qs Hn), app_nil_r. reflexivity.
Qed.

Lemma p_rule_noconf H c x k1 k2 j r cs : rule_frag c x r = true ->
  In cs (crule_sets (peer_rule H c x k1 k2 j r)) -> p_noconf (cs_elems cs).
Proof.
  unfold rule_frag. intros Hr Hin.
  apply andb_true_iff in Hr. destruct Hr as [Hr _].
  apply andb_true_iff in Hr. destruct Hr as [Hr Hl]. apply PeanoNat.Nat.leb_le in Hl.
  apply andb_true_iff in Hr. destruct Hr as [Hn Hf].
  unfold peer_rule, crule_sets in Hin. cbn [cr_ip cr_net] in Hin.
  apply in_app_or in Hin. rewrite !p_cat_opt_eq in Hin. destruct Hin as [Hin|Hin].
  - destruct (forallb _ (map (peer_ip_entries c) _)); simpl in Hin; [contradiction|].
    destruct Hin as [<-|[]]. cbn [cs_elems]. apply p_noconf_flags. intros e. apply p_cat_ip_flags.
  - destruct (forallb _ (map peer_net_entries _)); simpl in Hin; [contradiction|].
    destruct Hin as [<-|[]]. cbn [cs_elems].
    destruct (p_net_shape _ Hl) as [E|[cd [ex [Hq E]]]]; rewrite E. reflexivity.
    rewrite forallb_forall in Hf. specialize (Hf _ Hq). cbn [peer_frag] in Hf.
    apply andb_true_iff in Hf. destruct Hf. apply p_block_noconf; auto.
Qed.

Lemma frag_no_conflict : forall (H : str -> str) c,
  forallb (pol_frag_g c) (c_pols c) = true -> conflicting_flags H c = false.
Proof.
  intros H c Hf. unfold conflicting_flags. apply existsb_false. intros cs Hcs.
  change (p_noconf (cs_elems cs)).
  unfold all_sets, compile in Hcs. apply in_flat_map in Hcs. destruct Hcs as [cp [Hcp Hcs]].
  apply in_map_iff in Hcp. destruct Hcp as [x [<- Hx]]. rewrite forallb_forall in Hf. specialize (Hf x Hx).
  unfold pol_frag_g in Hf.
  apply andb_true_iff in Hf. destruct Hf as [Hin Heg].
  unfold cpolicy_sets, compile_one in Hcs. cbn [cp_sel cp_in cp_eg] in Hcs.
  destruct Hcs as [<-|Hcs].
  - cbn [cs_elems]. apply p_noconf_flags. intros e. apply p_ip_flags.
  - apply in_app_or in Hcs. destruct Hcs as [Hcs|Hcs]; apply in_flat_map in Hcs; destruct Hcs as [cr [Hcr Hcs]].
    + destruct (affects_in x); [|contradiction]. apply map_idx_In in Hcr. destruct Hcr as [j [r [Hr ->]]].
      eapply p_rule_noconf; eauto. rewrite forallb_forall in Hin; auto.
    + destruct (affects_eg x); [|contradiction]. apply map_idx_In in Hcr. destruct Hcr as [j [r [Hr ->]]].
      eapply p_rule_noconf; eauto. rewrite forallb_forall in Heg; auto.
Qed.

(** ================================================================ the installed kernel *)
(** ---- piece A: the shape of the kernel a Run leaves on an empty node *)

(** (3) matching a set that is equivalent to the compiled one *)
Lemma a_elems_sub_existsb (l1 l2 : list (str * bool)) (f : str * bool -> bool) :
  elems_sub l1 l2 = true -> existsb f l1 = true -> existsb f l2 = true.
Proof.
  unfold elems_sub. intros Hs He. apply existsb_exists in He. destruct He as [e [He Hf]].
  rewrite forallb_forall in Hs. specialize (Hs e He). apply existsb_exists in Hs.
  destruct Hs as [x [Hx Hq]]. apply andb_true_iff in Hq. destruct Hq as [Q1 Q2].
  apply str_eqb_eq in Q1. apply eqb_prop in Q2.
  assert (e = x) as E by (destruct e, x; simpl in *; congruence).
  subst x. apply existsb_exists. exists e. split; assumption.
Qed.

Lemma a_elems_eqv_existsb (l1 l2 : list (str * bool)) (f : str * bool -> bool) :
  elems_sub l1 l2 = true -> elems_sub l2 l1 = true -> existsb f l1 = existsb f l2.
Proof.
  intros S1 S2. destruct (existsb f l1) eqn:E1.
  - symmetry. eapply a_elems_sub_existsb; eassumption.
  - destruct (existsb f l2) eqn:E2; [|reflexivity].
    rewrite (a_elems_sub_existsb l2 l1 f S2 E2) in E1. discriminate.
Qed.

Lemma a_best_len_sub (l1 l2 : list (str * bool)) a : elems_sub l1 l2 = true -> best_len l1 a <= best_len l2 a.
Proof.
  intros Hs. destruct (existsb (fun e => addr_elem_match (fst e) a) l1) eqn:E1.
  - destruct (best_len_hit l1 a E1) as [e [He [Hm <-]]].
    unfold elems_sub in Hs. rewrite forallb_forall in Hs. specialize (Hs e He). apply existsb_exists in Hs.
    destruct Hs as [x [Hx Hq]]. apply andb_true_iff in Hq. destruct Hq as [Q1 _]. apply str_eqb_eq in Q1.
    rewrite Q1. apply best_len_ge; [exact Hx|]. rewrite <- Q1. exact Hm.
  - rewrite (best_len_none l1 a); [apply N.le_0_l|]. rewrite existsb_false in E1. exact E1.
Qed.

Lemma a_best_len_eqv (l1 l2 : list (str * bool)) a :
  elems_sub l1 l2 = true -> elems_sub l2 l1 = true -> best_len l1 a = best_len l2 a.
Proof. intros S1 S2. pose proof (a_best_len_sub l1 l2 a S1). pose proof (a_best_len_sub l2 l1 a S2). lia. Qed.

Lemma a_cset_eqv_match cs x a :
  cset_eqv cs x = true -> elems_match (s_type x) (s_elems x) a = elems_match (cs_type cs) (cs_elems cs) a.
Proof.
  unfold cset_eqv. rewrite !andb_true_iff. intros [[T S1] S2]. apply settype_eqb_eq in T. rewrite <- T.
  unfold elems_match. destruct (cs_type cs); [| |reflexivity].
  - apply a_elems_eqv_existsb; assumption.
  - cbv zeta. rewrite (a_best_len_eqv _ _ a S2 S1).
    rewrite (a_elems_eqv_existsb _ _ (fun e => negb (snd e) && addr_elem_match (fst e) a && (elem_len (fst e) =? best_len (cs_elems cs) a)) S2 S1).
    rewrite (a_elems_eqv_existsb _ _ (fun e => snd e && addr_elem_match (fst e) a && (elem_len (fst e) =? best_len (cs_elems cs) a)) S2 S1).
    reflexivity.
Qed.

(** (4) FORWARD only ever gains rules during syncPods *)
Definition a_fwd_in (r : rule) (t : table) : Prop := exists rs, tlookup forward t = Some rs /\ In r rs.

Lemma a_fwd_same r t t' : tlookup forward t' = tlookup forward t -> a_fwd_in r t -> a_fwd_in r t'.
Proof. intros E [rs [Hl Hin]]. exists rs. split; [rewrite E; exact Hl|exact Hin]. Qed.

Lemma a_ensure_rule_keep r pre sn c x t : a_fwd_in r t -> a_fwd_in r (fst (ensure_rule pre sn c x t)).
Proof.
  intros Hin. unfold ensure_rule. destruct (negb (rule_ok sn t x)); [exact Hin|].
  destruct (tlookup c t) as [rs|] eqn:El; [|exact Hin]. destruct (rule_in x rs); [exact Hin|].
  cbn [fst]. destruct Hin as [rs0 [Hl Hr]]. destruct (str_eqb_spec forward c) as [E|E].
  - subst c. rewrite El in Hl. inversion Hl. subst rs0.
    eexists. split; [apply tlookup_tset_same|]. destruct pre; [right; exact Hr|apply in_or_app; left; exact Hr].
  - exists rs0. split; [rewrite tlookup_tset_other by exact E; exact Hl|exact Hr].
Qed.

Lemma a_ensure_rule_in pre sn c x t t' :
  ensure_rule pre sn c x t = (t', true) -> exists rs, tlookup c t' = Some rs /\ In x rs.
Proof.
  unfold ensure_rule. destruct (negb (rule_ok sn t x)); [discriminate|].
  destruct (tlookup c t) as [rs|] eqn:El; [|discriminate]. destruct (rule_in x rs) eqn:Ei.
  - intros E. inversion E. subst t'. exists rs. split; [exact El|apply rule_in_In; exact Ei].
  - intros E. inversion E. subst t'. eexists. split; [apply tlookup_tset_same|].
    destruct pre; [left; reflexivity|apply in_or_app; right; left; reflexivity].
Qed.

Lemma a_delete_rule_same sn c x t : c <> forward ->
  tlookup forward (fst (delete_rule sn c x t)) = tlookup forward t.
Proof.
  intros Hc. unfold delete_rule. destruct (negb (rule_ok sn t x)); [reflexivity|].
  destruct (tlookup c t) as [rs|]; [|reflexivity]. destruct (rule_in x rs); [|reflexivity].
  cbn [fst]. apply tlookup_tset_other. intros E. apply Hc. symmetry. exact E.
Qed.

Lemma a_del_by_keyword_same sn c pc t : c <> forward ->
  tlookup forward (del_by_keyword sn c pc t) = tlookup forward t.
Proof.
  intros Hc. unfold del_by_keyword. destruct (tlookup c t) as [rs|]; [|reflexivity].
  destruct (find _ rs); [|reflexivity]. apply a_delete_rule_same. exact Hc.
Qed.

Lemma a_flush_same c t : c <> forward -> tlookup forward (fst (flush_chain c t)) = tlookup forward t.
Proof.
  intros Hc. unfold flush_chain. destruct (has_chain c t); [|reflexivity].
  cbn [fst]. apply tlookup_tset_other. intros E. apply Hc. symmetry. exact E.
Qed.

Lemma a_tremove_same c t : c <> forward -> tlookup forward (tremove c t) = tlookup forward t.
Proof.
  intros Hc. rewrite tlookup_tremove. destruct (str_eqb_spec forward c) as [E|E]; [|reflexivity].
  exfalso. apply Hc. symmetry. exact E.
Qed.

Lemma a_delete_chain_same c t : c <> forward -> tlookup forward (fst (delete_chain c t)) = tlookup forward t.
Proof.
  intros Hc. unfold delete_chain, apply_line. destruct (tlookup c t) as [[|r rs]|]; try reflexivity.
  destruct (is_builtin c || referenced c t); [reflexivity|]. cbn [fst]. apply a_tremove_same. exact Hc.
Qed.

Definition a_line_chain (l : line) : str :=
  match l with LChain c => c | LAppend c _ => c | LDelete c => c end.

Lemma a_apply_line_same sn t l t' : a_line_chain l <> forward -> apply_line sn t l = Some t' ->
  tlookup forward t' = tlookup forward t.
Proof.
  intros Hc. assert (forward <> a_line_chain l) as Hc' by (intros E; apply Hc; symmetry; exact E).
  destruct l as [c|c r|c]; cbn [a_line_chain apply_line] in *.
  - destruct (is_builtin c); intros E; inversion E; [reflexivity|]. apply tlookup_tset_other. exact Hc'.
  - destruct (tlookup c t) as [rs|]; [|discriminate]. destruct (rule_ok sn t r); [|discriminate].
    intros E. inversion E. apply tlookup_tset_other. exact Hc'.
  - destruct (tlookup c t) as [[|r rs]|]; try discriminate.
    destruct (is_builtin c || referenced c t); [discriminate|]. intros E. inversion E.
    apply a_tremove_same. exact Hc.
Qed.

Lemma a_apply_lines_same sn ls : forall t t', (forall l, In l ls -> a_line_chain l <> forward) ->
  apply_lines sn t ls = Some t' -> tlookup forward t' = tlookup forward t.
Proof.
  induction ls as [|l ls IH]; intros t t' Hc; cbn [apply_lines].
  - intros E. inversion E. reflexivity.
  - destruct (apply_line sn t l) as [t1|] eqn:E1; [|discriminate]. intros E.
    rewrite (IH t1 t' (fun l' Hl => Hc l' (or_intror Hl)) E).
    eapply a_apply_line_same; [apply Hc; left; reflexivity|exact E1].
Qed.

Lemma a_restore_same sn t ls : (forall l, In l ls -> a_line_chain l <> forward) ->
  tlookup forward (fst (restore sn t ls)) = tlookup forward t.
Proof.
  intros Hc. unfold restore. destruct (apply_lines sn t ls) as [t'|] eqn:E; [|reflexivity].
  cbn [fst]. eapply a_apply_lines_same; eassumption.
Qed.

Lemma a_ensure_chain_same c t : c <> forward -> tlookup forward (ensure_chain c t) = tlookup forward t.
Proof.
  intros Hc. rewrite tlookup_ensure_chain. destruct (str_eqb_spec forward c) as [E|E]; [|reflexivity].
  exfalso. apply Hc. symmetry. exact E.
Qed.

Lemma a_ingress_ne_fwd : ingress_chain <> forward.
Proof. intros E. vm_compute in E. discriminate. Qed.
Lemma a_egress_ne_fwd : egress_chain <> forward.
Proof. intros E. vm_compute in E. discriminate. Qed.
Lemma a_pod_ne_fwd H p : pod_chain H p <> forward.
Proof. intros E. unfold pod_chain, forward in E. cbn in E. discriminate. Qed.

Lemma a_ensure_basic_keep r sn t : a_fwd_in r t -> a_fwd_in r (fst (ensure_basic_chain sn t)).
Proof.
  intros Hin. unfold ensure_basic_chain.
  set (ta := ensure_chain egress_chain (ensure_chain ingress_chain t)).
  assert (a_fwd_in r ta) as Ha.
  { eapply a_fwd_same; [|exact Hin]. subst ta.
    rewrite a_ensure_chain_same by exact a_egress_ne_fwd. apply a_ensure_chain_same. exact a_ingress_ne_fwd. }
  pose proof (a_ensure_rule_keep r true sn (L "FORWARD") (jump ingress_chain) ta Ha) as H1.
  destruct (ensure_rule true sn (L "FORWARD") (jump ingress_chain) ta) as [t1 ok1]. cbn [fst] in H1.
  destruct ok1; cbn [negb]; [|exact H1].
  pose proof (a_ensure_rule_keep r true sn (L "FORWARD") (jump egress_chain) t1 H1) as H2.
  destruct (ensure_rule true sn (L "FORWARD") (jump egress_chain) t1) as [t2 ok2]. cbn [fst] in H2.
  destruct ok2; cbn [negb]; [|exact H2].
  pose proof (a_ensure_rule_keep r true sn (L "OUTPUT") (jump ingress_chain) t2 H2) as H3.
  destruct (ensure_rule true sn (L "OUTPUT") (jump ingress_chain) t2) as [t3 ok3]. cbn [fst] in H3.
  destruct ok3; cbn [negb]; [|exact H3].
  apply a_ensure_rule_keep. exact H3.
Qed.

Lemma a_ensure_basic_in sn t t' : ensure_basic_chain sn t = (t', true) ->
  a_fwd_in (jump ingress_chain) t' /\ a_fwd_in (jump egress_chain) t'.
Proof.
  unfold ensure_basic_chain.
  set (ta := ensure_chain egress_chain (ensure_chain ingress_chain t)).
  destruct (ensure_rule true sn (L "FORWARD") (jump ingress_chain) ta) as [t1 ok1] eqn:E1.
  destruct ok1; cbn [negb]; [|discriminate].
  destruct (ensure_rule true sn (L "FORWARD") (jump egress_chain) t1) as [t2 ok2] eqn:E2.
  destruct ok2; cbn [negb]; [|discriminate].
  destruct (ensure_rule true sn (L "OUTPUT") (jump ingress_chain) t2) as [t3 ok3] eqn:E3.
  destruct ok3; cbn [negb]; [|discriminate].
  intros E4.
  assert (a_fwd_in (jump ingress_chain) t1) as I1 by exact (a_ensure_rule_in _ _ _ _ _ _ E1).
  assert (a_fwd_in (jump egress_chain) t2) as I2 by exact (a_ensure_rule_in _ _ _ _ _ _ E2).
  assert (a_fwd_in (jump ingress_chain) t2) as I1'.
  { pose proof (a_ensure_rule_keep _ true sn (L "FORWARD") (jump egress_chain) t1 I1) as K. rewrite E2 in K. exact K. }
  assert (forall r, a_fwd_in r t2 -> a_fwd_in r t') as K.
  { intros r Hr. pose proof (a_ensure_rule_keep _ true sn (L "OUTPUT") (jump ingress_chain) t2 Hr) as K3.
    rewrite E3 in K3. cbn [fst] in K3.
    pose proof (a_ensure_rule_keep _ true sn (L "INPUT") (jump egress_chain) t3 K3) as K4.
    rewrite E4 in K4. exact K4. }
  split; apply K; assumption.
Qed.

Section a_Fold.
Variable H : str -> str.

Lemma a_delete_pod_same p k : tlookup forward (k_filter (delete_pod_chains H p k)) = tlookup forward (k_filter k).
Proof.
  unfold delete_pod_chains.
  set (t := del_by_keyword _ egress_chain _ (del_by_keyword _ ingress_chain _ (k_filter k))).
  assert (tlookup forward t = tlookup forward (k_filter k)) as Et.
  { subst t. rewrite a_del_by_keyword_same by exact a_egress_ne_fwd.
    apply a_del_by_keyword_same. exact a_ingress_ne_fwd. }
  pose proof (a_flush_same (pod_chain H p) t (a_pod_ne_fwd H p)) as Ef.
  destruct (flush_chain (pod_chain H p) t) as [t1 ok]. cbn [fst] in Ef.
  destruct ok; cbn [negb k_filter]; [|exact Et].
  rewrite a_delete_chain_same by apply a_pod_ne_fwd. congruence.
Qed.

Lemma a_pod_batch_chains pols p l : In l (pod_batch H pols p) -> a_line_chain l <> forward.
Proof.
  unfold pod_batch. intros [E|Hin].
  - subst l. apply a_pod_ne_fwd.
  - apply in_map_iff in Hin. destruct Hin as [r [E _]]. subst l. apply a_pod_ne_fwd.
Qed.

Lemma a_hook_step_keep r (sel : bool) sn c x t : c <> forward -> a_fwd_in r t ->
  a_fwd_in r (fst (if sel then ensure_rule false sn c x t else delete_rule sn c x t)).
Proof.
  intros Hc Hin. destruct sel; [apply a_ensure_rule_keep; exact Hin|].
  eapply a_fwd_same; [apply a_delete_rule_same; exact Hc|exact Hin].
Qed.

(** after ensureBasicChain: whatever is in FORWARD stays *)
Lemma a_sync_tail_keep r pols p a sn s t1 :
  a_fwd_in r t1 ->
  a_fwd_in r (k_filter (fst (
      let '(t2, ok2) := restore sn t1 (pod_batch H pols p) in
      if negb ok2 then (mkK t2 s, false) else
      let '(t3, ok3) := if in_selected pols p then ensure_rule false sn ingress_chain (in_hook H p a) t2
                        else delete_rule sn ingress_chain (in_hook H p a) t2 in
      if negb ok3 then (mkK t3 s, false) else
      let '(t4, ok4) := if eg_selected pols p then ensure_rule false sn egress_chain (eg_hook H p a) t3
                        else delete_rule sn egress_chain (eg_hook H p a) t3 in
      (mkK t4 s, ok4)))).
Proof.
  intros H1.
  pose proof (a_restore_same sn t1 (pod_batch H pols p) (a_pod_batch_chains pols p)) as E2.
  destruct (restore sn t1 (pod_batch H pols p)) as [t2 ok2]. cbn [fst] in E2.
  assert (a_fwd_in r t2) as H2 by (eapply a_fwd_same; eassumption).
  destruct ok2; cbn [negb]; [|exact H2].
  pose proof (a_hook_step_keep r (in_selected pols p) sn ingress_chain (in_hook H p a) t2 a_ingress_ne_fwd H2) as H3.
  destruct (if in_selected pols p then ensure_rule false sn ingress_chain (in_hook H p a) t2
            else delete_rule sn ingress_chain (in_hook H p a) t2) as [t3 ok3]. cbn [fst] in H3.
  destruct ok3; cbn [negb]; [|exact H3].
  pose proof (a_hook_step_keep r (eg_selected pols p) sn egress_chain (eg_hook H p a) t3 a_egress_ne_fwd H3) as H4.
  destruct (if eg_selected pols p then ensure_rule false sn egress_chain (eg_hook H p a) t3
            else delete_rule sn egress_chain (eg_hook H p a) t3) as [t4 ok4]. exact H4.
Qed.

Lemma a_sync_pod_keep r pols p k : a_fwd_in r (k_filter k) -> a_fwd_in r (k_filter (fst (sync_pod_chains H pols p k))).
Proof.
  intros Hin. unfold sync_pod_chains.
  destruct (negb (in_selected pols p) && negb (eg_selected pols p)).
  - cbn [fst]. eapply a_fwd_same; [apply a_delete_pod_same|exact Hin].
  - destruct (pod_ip p) as [a|]; [|exact Hin].
    pose proof (a_ensure_basic_keep r (set_names (k_sets k)) (k_filter k) Hin) as H1.
    destruct (ensure_basic_chain (set_names (k_sets k)) (k_filter k)) as [t1 ok1]. cbn [fst] in H1.
    destruct ok1; cbn [negb]; [|exact H1].
    apply a_sync_tail_keep. exact H1.
Qed.

Lemma a_sync_pod_in pols p k k' : sync_pod_chains H pols p k = (k', true) -> wants pols p = true ->
  a_fwd_in (jump ingress_chain) (k_filter k') /\ a_fwd_in (jump egress_chain) (k_filter k').
Proof.
  intros E Hw. unfold wants in Hw. apply andb_true_iff in Hw. destruct Hw as [Hsel Hip].
  destruct (pod_ip p) as [a|] eqn:Ea; [|discriminate].
  assert (negb (in_selected pols p) && negb (eg_selected pols p) = false) as En.
  { destruct (in_selected pols p); destruct (eg_selected pols p); try reflexivity. discriminate. }
  unfold sync_pod_chains in E. rewrite En, Ea in E.
  destruct (ensure_basic_chain (set_names (k_sets k)) (k_filter k)) as [t1 ok1] eqn:E1.
  destruct ok1; cbn [negb] in E; [|discriminate].
  destruct (a_ensure_basic_in _ _ _ E1) as [I1 I2].
  pose proof (a_sync_tail_keep _ pols p a (set_names (k_sets k)) (k_sets k) t1 I1) as K1.
  pose proof (a_sync_tail_keep _ pols p a (set_names (k_sets k)) (k_sets k) t1 I2) as K2.
  rewrite E in K1, K2. split; assumption.
Qed.

Lemma a_fold_false pols ps : forall k, snd (fold_left (sync_pods_step H pols) ps (k, false)) = false.
Proof.
  induction ps as [|p ps IH]; intros k; [reflexivity|]. cbn [fold_left].
  unfold sync_pods_step at 2. cbn [fst snd]. destruct (sync_pod_chains H pols p k) as [k1 ok]. apply IH.
Qed.

Lemma a_fold_keep r pols ps : forall k b, a_fwd_in r (k_filter k) ->
  a_fwd_in r (k_filter (fst (fold_left (sync_pods_step H pols) ps (k, b)))).
Proof.
  induction ps as [|p ps IH]; intros k b Hin; [exact Hin|]. cbn [fold_left].
  unfold sync_pods_step at 2. cbn [fst snd].
  pose proof (a_sync_pod_keep r pols p k Hin) as K.
  destruct (sync_pod_chains H pols p k) as [k1 ok]. apply IH. exact K.
Qed.

Lemma a_fold_in pols ps : forall k k', fold_left (sync_pods_step H pols) ps (k, true) = (k', true) ->
  existsb (wants pols) ps = true ->
  a_fwd_in (jump ingress_chain) (k_filter k') /\ a_fwd_in (jump egress_chain) (k_filter k').
Proof.
  induction ps as [|p ps IH]; intros k k' E Hw; [discriminate|]. cbn [fold_left] in E.
  unfold sync_pods_step at 2 in E. cbn [fst snd] in E.
  destruct (sync_pod_chains H pols p k) as [k1 ok] eqn:E1. cbn [andb] in E.
  destruct ok.
  2:{ pose proof (a_fold_false pols ps k1) as F. rewrite E in F. discriminate. }
  cbn [existsb] in Hw. destruct (wants pols p) eqn:Wp.
  - destruct (a_sync_pod_in pols p k k1 E1 Wp) as [I1 I2].
    pose proof (a_fold_keep _ pols ps k1 true I1) as K1. pose proof (a_fold_keep _ pols ps k1 true I2) as K2.
    rewrite E in K1, K2. split; assumption.
  - apply (IH k1 k' E). exact Hw.
Qed.
End a_Fold.

(** FORWARD of the empty kernel is empty: everything in it afterwards is one of the two jumps *)
Lemma a_strip_nil rs : strip_glx_jumps rs = [] ->
  forall r, In r rs -> r = jump ingress_chain \/ r = jump egress_chain.
Proof.
  unfold strip_glx_jumps. intros E r Hin.
  destruct (rule_eqb r (jump ingress_chain) || rule_eqb r (jump egress_chain)) eqn:Er.
  - apply orb_true_iff in Er. destruct Er as [Er|Er]; apply rule_eqb_eq in Er; [left|right]; exact Er.
  - exfalso. assert (In r (filter (fun r => negb (rule_eqb r (jump ingress_chain) || rule_eqb r (jump egress_chain))) rs)) as F.
    { apply filter_In. split; [exact Hin|]. rewrite Er. reflexivity. }
    rewrite E in F. destruct F.
Qed.

Lemma a_empty_fresh : fresh empty_kernel = true.
Proof. vm_compute. reflexivity. Qed.

Theorem installed_shape : forall (H : str -> str) (host : str) (c : cluster),
  hash_distinct H host c = true -> conflicting_flags H c = false ->
  let K := installed H host c in
  let pols := compile H c in
  let ps := local_pods host c in
  (forall cs a, In cs (all_sets pols) ->
     set_match (k_sets K) (cs_name cs) a = elems_match (cs_type cs) (cs_elems cs) a) /\
  (forall cp, In cp pols -> tlookup (policy_chain H (cp_np cp)) (k_filter K) = Some (policy_chain_rules cp)) /\
  (forall p, In p ps -> wants pols p = true ->
     tlookup (pod_chain H p) (k_filter K) = Some (pod_chain_rules H pols p)) /\
  tlookup ingress_chain (k_filter K) = (if existsb (wants pols) ps then Some (in_hooks_of H pols ps) else None) /\
  tlookup egress_chain (k_filter K) = (if existsb (wants pols) ps then Some (eg_hooks_of H pols ps) else None) /\
  exists rs, tlookup forward (k_filter K) = Some rs /\
     (forall r, In r rs -> r = jump ingress_chain \/ r = jump egress_chain) /\
     (existsb (wants pols) ps = true -> In (jump ingress_chain) rs /\ In (jump egress_chain) rs).
Proof.
  intros H host c Hd0 Hc.
  pose proof (hash_distinct_names H host c Hd0) as Hd.
  pose proof a_empty_fresh as Hf.
  destruct (sync_rules_fresh H host c empty_kernel Hf Hd Hc) as [t1 [s1 [R [S1 [S2 [S3 [S4 [Lk N1']]]]]]]].
  destruct (fresh_parts empty_kernel Hf) as [N1 [N2 [F1 [F2 [F3 [G1 G2]]]]]].
  unfold names_distinct in Hd. rewrite !andb_true_iff in Hd. destruct Hd as [[D1 D2] D3].
  apply strs_nodup_NoDup in D2. apply strs_nodup_NoDup in D3.
  set (pols := compile H c) in *. set (t0 := k_filter empty_kernel) in *.
  set (ps := local_pods host c) in *.
  assert (forall x, has_prefix plcy_prefix x = false -> tlookup x t1 = tlookup x t0) as Lk0.
  { intros x Hx. rewrite Lk. destruct (mem x (map (chain_of H) pols)) eqn:Em; [|reflexivity].
    apply mem_chain_of_plcy in Em. congruence. }
  assert (forall x, has_prefix glx x = true -> has_chain x t0 = false) as G1'.
  { intros x Hx. destruct (has_chain x t0) eqn:E; [|reflexivity]. apply G1 in E. congruence. }
  assert (forall cp, In cp pols -> tlookup (chain_of H cp) t1 = Some (policy_chain_rules cp)) as Lkp.
  { intros cp Hcp. rewrite Lk.
    assert (mem (chain_of H cp) (map (chain_of H) pols) = true) as Hm by (apply mem_In; apply in_map; exact Hcp).
    rewrite Hm. f_equal. apply appends_for_policy; [|exact Hcp].
    unfold pols. rewrite compile_chain_names. exact D2. }
  destruct (sync_pods_fresh_l H pols ps s1 t1 D3 N1') as [t' [Fold [N' [P3 [P4 [P5 [P6 [P7 P8]]]]]]]].
  { unfold has_chain. rewrite Lk0 by reflexivity. exact F1. }
  { unfold has_chain. rewrite Lk0 by reflexivity. exact F2. }
  { unfold has_chain. rewrite Lk0 by reflexivity. exact F3. }
  { intros x Hx. unfold has_chain. rewrite Lk0 by (apply pod_not_plcy; exact Hx).
    apply G1'. apply pod_is_glx. exact Hx. }
  { unfold has_chain. rewrite Lk0 by reflexivity. apply G1'. reflexivity. }
  { unfold has_chain. rewrite Lk0 by reflexivity. apply G1'. reflexivity. }
  { intros cp Hcp. unfold has_chain. change (policy_chain H (cp_np cp)) with (chain_of H cp).
    rewrite (Lkp cp Hcp). reflexivity. }
  assert (installed H host c = mkK t' s1) as EK.
  { unfold installed, run. cbn [fst snd]. change (m_pols (recompile H c mgr0)) with pols. rewrite R.
    rewrite sync_pods_unfold. fold ps. rewrite Fold. reflexivity. }
  cbv zeta. rewrite EK. cbn [k_filter k_sets]. fold pols. fold ps.
  split; [|split; [|split; [|split; [|split]]]].
  - intros cs a Hcs. destruct (S1 cs Hcs) as [x [Hx Hy]]. unfold set_match. rewrite Hx.
    apply a_cset_eqv_match. exact Hy.
  - intros cp Hcp. pose proof (chain_of_plcy H cp) as Hp. destruct (plcy_not_hook _ Hp) as [Hi [He [Hh _]]].
    change (policy_chain H (cp_np cp)) with (chain_of H cp).
    rewrite P8; [|apply plcy_not_pod; exact Hp|exact Hi|exact He|exact Hh]. exact (Lkp cp Hcp).
  - exact P3.
  - exact P5.
  - exact P6.
  - destruct (P7 (L "FORWARD") forward_hook) as [rs0 [rs' [L1 [L2 E]]]].
    rewrite Lk0 in L1 by reflexivity.
    assert (rs0 = []) as E0 by (vm_compute in L1; inversion L1; reflexivity). subst rs0.
    exists rs'. split; [exact L2|]. split.
    + apply a_strip_nil. exact E.
    + intros Hw. destruct (a_fold_in H pols ps _ _ Fold Hw) as [[ra [La Ia]] [rb [Lb Ib]]].
      cbn [k_filter] in La, Lb. unfold forward in La, Lb. rewrite L2 in La, Lb.
      inversion La. inversion Lb. subst. split; assumption.
Qed.

(** ================================================================ the packet walk *)
(** ---------------------------------------------------------------- list facts *)
Lemma forallb_map_c {A B} (g : A -> B) (p : B -> bool) l : forallb p (map g l) = forallb (fun a => p (g a)) l.
Proof. induction l as [|a l IH]; [reflexivity|]. simpl. rewrite IH. reflexivity. Qed.
Lemma existsb_map_c {A B} (g : A -> B) (p : B -> bool) l : existsb p (map g l) = existsb (fun a => p (g a)) l.
Proof. induction l as [|a l IH]; [reflexivity|]. simpl. rewrite IH. reflexivity. Qed.
Lemma existsb_ext_in {A} (p q : A -> bool) l : (forall a, In a l -> p a = q a) -> existsb p l = existsb q l.
Proof.
  induction l as [|a l IH]; intros E; [reflexivity|]. simpl. rewrite (E a) by (left; reflexivity).
  rewrite IH; [reflexivity|]. intros b Hb. apply E. right. exact Hb.
Qed.
Lemma existsb_filter_c {A} (s p : A -> bool) l : existsb p (filter s l) = existsb (fun a => s a && p a) l.
Proof. induction l as [|a l IH]; [reflexivity|]. simpl. destruct (s a); simpl; rewrite IH; reflexivity. Qed.
Lemma existsb_flat_map_c {A B} (g : A -> list B) (p : B -> bool) l :
  existsb p (flat_map g l) = existsb (fun a => existsb p (g a)) l.
Proof. induction l as [|a l IH]; [reflexivity|]. simpl. rewrite existsb_app, IH. reflexivity. Qed.
Lemma existsb_map_idx {A B} (g : N -> A -> B) (p : B -> bool) (q : A -> bool) l : forall i,
  (forall j r, In r l -> In (g j r) (map_idx g i l) -> p (g j r) = q r) ->
  existsb p (map_idx g i l) = existsb q l.
Proof.
  induction l as [|a l IH]; intros i E; [reflexivity|]. simpl.
  rewrite (E i a) by (left; reflexivity). rewrite (IH (i + 1)); [reflexivity|].
  intros j r Hr Hin. apply E; right; assumption.
Qed.

(** ---------------------------------------------------------------- the packet walk, one step at a time *)
Section Walk.
Variable k : kernel.
Variable f : flow.

Lemma walk_nil n : walk (S n) k f [] = OFall.
Proof. reflexivity. Qed.

Lemma walk_cons n r rs : walk (S n) k f (r :: rs) =
  if rule_matches (k_sets k) f r then
    if str_eqb (r_target r) (L "ACCEPT") then OAccept
    else if str_eqb (r_target r) (L "DROP") || str_eqb (r_target r) (L "REJECT") then ODrop
    else if str_eqb (r_target r) (L "RETURN") then OFall
    else match tlookup (r_target r) (k_filter k) with
         | Some rs2 => match walk n k f rs2 with OFall => walk (S n) k f rs | o => o end
         | None => walk (S n) k f rs
         end
  else walk (S n) k f rs.
Proof. reflexivity. Qed.

Lemma walk_skip n r rs : rule_matches (k_sets k) f r = false -> walk (S n) k f (r :: rs) = walk (S n) k f rs.
Proof. intros E. rewrite walk_cons, E. reflexivity. Qed.

Lemma glx_not_std t : has_prefix glx t = true ->
  str_eqb t (L "ACCEPT") = false /\ str_eqb t (L "DROP") || str_eqb t (L "REJECT") = false /\
  str_eqb t (L "RETURN") = false.
Proof.
  intros E. apply has_prefix_iff in E. destruct E as [r E]. subst t.
  repeat split; try apply orb_false_iff; repeat split; apply str_eqb_neq; discriminate.
Qed.

(** a matching jump into a GLX chain *)
Lemma walk_jump n r rs : rule_matches (k_sets k) f r = true -> has_prefix glx (r_target r) = true ->
  walk (S n) k f (r :: rs) =
  match tlookup (r_target r) (k_filter k) with
  | Some rs2 => match walk n k f rs2 with OFall => walk (S n) k f rs | o => o end
  | None => walk (S n) k f rs
  end.
Proof.
  intros M G. destruct (glx_not_std _ G) as [E1 [E2 E3]]. rewrite walk_cons, M, E1, E2, E3. reflexivity.
Qed.

(** a chain of ACCEPT rules *)
Lemma walk_accepts n rs : (forall r, In r rs -> r_target r = L "ACCEPT") ->
  walk (S n) k f rs = if chain_accepts (k_sets k) rs f then OAccept else OFall.
Proof.
  induction rs as [|r rs IH]; intros T; [reflexivity|].
  rewrite walk_cons. unfold chain_accepts. cbn [existsb]. rewrite (T r) by (left; reflexivity).
  change (str_eqb (L "ACCEPT") (L "ACCEPT")) with true. rewrite andb_true_r.
  destruct (rule_matches (k_sets k) f r); [reflexivity|]. cbn [orb]. apply IH.
  intros r' Hr'. apply T. right. exact Hr'.
Qed.
End Walk.

Lemma policy_chain_targets cp r : In r (policy_chain_rules cp) -> r_target r = L "ACCEPT".
Proof.
  unfold policy_chain_rules. intros Hin. apply in_app_or in Hin.
  destruct Hin as [Hin|Hin]; apply in_flat_map in Hin; destruct Hin as [cr [_ Hin]];
    apply policy_rules_for_In in Hin; destruct Hin as [s [d [proto [ports [_ [_ E]]]]]]; subst r; reflexivity.
Qed.

Lemma jump_matches ss f t : rule_matches ss f (jump t) = true.
Proof. reflexivity. Qed.
Lemma pod_jump_matches H ss f p x : rule_matches ss f (pod_jump H p x) = true.
Proof. reflexivity. Qed.
Lemma drop_matches ss f p : rule_matches ss f (drop_rule p) = true.
Proof. reflexivity. Qed.
Lemma ct_no_match ss f p : rule_matches ss f (ct_rule p) = false.
Proof. reflexivity. Qed.

(** ---------------------------------------------------------------- pod chain, hook chains, FORWARD *)
Section Chains.
Variable H : str -> str.
Variable k : kernel.
Variable f : flow.
Variable pols : list cpolicy.
Hypothesis Hpol : forall cp, In cp pols ->
  tlookup (policy_chain H (cp_np cp)) (k_filter k) = Some (policy_chain_rules cp).

(** the verdict of the pod chain: some selecting policy's chain accepts *)
Definition pod_accepts (p : pod) : bool :=
  existsb (fun cp => selects cp p && chain_accepts (k_sets k) (policy_chain_rules cp) f) pols.
Definition pod_out (p : pod) : outcome := if pod_accepts p then OAccept else ODrop.

Lemma walk_pod_jumps n p l : (forall cp, In cp l -> In cp pols) ->
  walk (S (S n)) k f (map (fun cp => pod_jump H p (cp_np cp)) l ++ [drop_rule p]) =
  if existsb (fun cp => chain_accepts (k_sets k) (policy_chain_rules cp) f) l then OAccept else ODrop.
Proof.
  induction l as [|cp l IH]; intros Hin.
  - reflexivity.
  - cbn [map app existsb]. rewrite walk_jump; [|apply pod_jump_matches|apply policy_chain_glx].
    cbn [pod_jump r_target]. rewrite (Hpol cp) by (apply Hin; left; reflexivity).
    rewrite walk_accepts by (apply policy_chain_targets).
    destruct (chain_accepts (k_sets k) (policy_chain_rules cp) f); [reflexivity|]. cbn [orb].
    apply IH. intros cp' Hcp'. apply Hin. right. exact Hcp'.
Qed.

Lemma walk_pod_chain n p : walk (S (S n)) k f (pod_chain_rules H pols p) = pod_out p.
Proof.
  unfold pod_chain_rules. rewrite walk_skip by apply ct_no_match.
  rewrite walk_pod_jumps by (intros cp Hcp; apply filter_In in Hcp; apply Hcp).
  rewrite existsb_filter_c. reflexivity.
Qed.

Variable ps : list pod.
Hypothesis Hpod : forall p, In p ps -> wants pols p = true ->
  tlookup (pod_chain H p) (k_filter k) = Some (pod_chain_rules H pols p).
Hypothesis Hip : forall p a, In p ps -> pod_ip p = Some a -> a < two32.

Lemma pod_out_not_fall p : pod_out p <> OFall.
Proof. unfold pod_out. destruct (pod_accepts p); discriminate. Qed.

Lemma in_hook_matches p a : a < two32 -> rule_matches (k_sets k) f (in_hook H p a) = (a =? f_dst f).
Proof.
  intros Ha. unfold rule_matches, in_hook. cbn [r_src r_dst r_proto r_match toks_match addr_match].
  rewrite hook_addr_match by exact Ha. rewrite !andb_true_r. reflexivity.
Qed.
Lemma eg_hook_matches p a : a < two32 -> rule_matches (k_sets k) f (eg_hook H p a) = (a =? f_src f).
Proof.
  intros Ha. unfold rule_matches, eg_hook. cbn [r_src r_dst r_proto r_match toks_match addr_match].
  rewrite hook_addr_match by exact Ha. rewrite !andb_true_r. reflexivity.
Qed.

Lemma ip_is_some a p b : pod_ip p = Some b -> ip_is a p = (b =? a).
Proof. intros E. unfold ip_is. rewrite E. reflexivity. Qed.
Lemma ip_is_none a p : pod_ip p = None -> ip_is a p = false.
Proof. intros E. unfold ip_is. rewrite E. reflexivity. Qed.

(** GLX-INGRESS / GLX-EGRESS: the first hook whose address is the packet's decides *)
Lemma walk_in_hooks n l : (forall p, In p l -> In p ps) ->
  walk (S (S (S n))) k f (in_hooks_of H pols l) =
  match find (fun p => ip_is (f_dst f) p && in_selected pols p) l with
  | Some d => pod_out d
  | None => OFall
  end.
Proof.
  induction l as [|p l IH]; intros Hin; [reflexivity|].
  assert (forall q, In q l -> In q ps) as Hin' by (intros q Hq; apply Hin; right; exact Hq).
  unfold in_hooks_of. cbn [flat_map find]. fold (in_hooks_of H pols l).
  destruct (pod_ip p) as [a|] eqn:Ea.
  - rewrite (ip_is_some _ _ _ Ea). destruct (in_selected pols p) eqn:Es.
    + cbn [app]. rewrite walk_cons, in_hook_matches by (eapply Hip; [apply Hin; left; reflexivity|exact Ea]).
      destruct (a =? f_dst f) eqn:Em; cbn [andb]; [|apply IH; exact Hin'].
      destruct (glx_not_std _ (pod_chain_glx H p)) as [E1 [E2 E3]].
      cbn [in_hook r_target]. rewrite E1, E2, E3, Hpod.
      * rewrite walk_pod_chain. pose proof (pod_out_not_fall p). destruct (pod_out p); congruence.
      * apply Hin. left. reflexivity.
      * unfold wants. rewrite Es, Ea. reflexivity.
    + rewrite andb_false_r. cbn [app]. apply IH. exact Hin'.
  - rewrite (ip_is_none _ _ Ea). cbn [andb app]. apply IH. exact Hin'.
Qed.

Lemma walk_eg_hooks n l : (forall p, In p l -> In p ps) ->
  walk (S (S (S n))) k f (eg_hooks_of H pols l) =
  match find (fun p => ip_is (f_src f) p && eg_selected pols p) l with
  | Some s => pod_out s
  | None => OFall
  end.
Proof.
  induction l as [|p l IH]; intros Hin; [reflexivity|].
  assert (forall q, In q l -> In q ps) as Hin' by (intros q Hq; apply Hin; right; exact Hq).
  unfold eg_hooks_of. cbn [flat_map find]. fold (eg_hooks_of H pols l).
  destruct (pod_ip p) as [a|] eqn:Ea.
  - rewrite (ip_is_some _ _ _ Ea). destruct (eg_selected pols p) eqn:Es.
    + cbn [app]. rewrite walk_cons, eg_hook_matches by (eapply Hip; [apply Hin; left; reflexivity|exact Ea]).
      destruct (a =? f_src f) eqn:Em; cbn [andb]; [|apply IH; exact Hin'].
      destruct (glx_not_std _ (pod_chain_glx H p)) as [E1 [E2 E3]].
      cbn [eg_hook r_target]. rewrite E1, E2, E3, Hpod.
      * rewrite walk_pod_chain. pose proof (pod_out_not_fall p). destruct (pod_out p); congruence.
      * apply Hin. left. reflexivity.
      * unfold wants. rewrite Es, Ea, orb_true_r. reflexivity.
    + rewrite andb_false_r. cbn [app]. apply IH. exact Hin'.
  - rewrite (ip_is_none _ _ Ea). cbn [andb app]. apply IH. exact Hin'.
Qed.

(** a chain of jumps to two GLX chains A and B *)
Definition chain_out (n : nat) (c : str) : outcome :=
  match tlookup c (k_filter k) with Some rs => walk n k f rs | None => OFall end.

Lemma walk_jump_out n c rs : has_prefix glx c = true ->
  walk (S n) k f (jump c :: rs) = match chain_out n c with OFall => walk (S n) k f rs | o => o end.
Proof.
  intros G. rewrite walk_jump; [|apply jump_matches|exact G]. cbn [jump r_target]. unfold chain_out.
  destruct (tlookup c (k_filter k)); reflexivity.
Qed.

Lemma walk_jumps_fall n A B rs : has_prefix glx A = true -> has_prefix glx B = true ->
  (forall r, In r rs -> r = jump A \/ r = jump B) ->
  chain_out n A = OFall -> chain_out n B = OFall -> walk (S n) k f rs = OFall.
Proof.
  intros GA GB Hrs EA EB. induction rs as [|r rs IH]; [reflexivity|].
  assert (walk (S n) k f rs = OFall) as IH' by (apply IH; intros r' Hr'; apply Hrs; right; exact Hr').
  destruct (Hrs r (or_introl eq_refl)) as [E|E]; subst r; rewrite walk_jump_out by assumption.
  - rewrite EA. exact IH'.
  - rewrite EB. exact IH'.
Qed.

Lemma walk_jumps_one n A B rs : has_prefix glx A = true -> has_prefix glx B = true ->
  (forall r, In r rs -> r = jump A \/ r = jump B) ->
  chain_out n A = OFall -> In (jump B) rs -> walk (S n) k f rs = chain_out n B.
Proof.
  intros GA GB Hrs EA. induction rs as [|r rs IH]; intros HB; [destruct HB|].
  assert (forall r', In r' rs -> r' = jump A \/ r' = jump B) as Hrs' by (intros r' Hr'; apply Hrs; right; exact Hr').
  destruct (Hrs r (or_introl eq_refl)) as [E|E]; subst r; rewrite walk_jump_out by assumption.
  - rewrite EA. destruct HB as [E|HB]; [|apply IH; assumption].
    inversion E as [E']. subst B. rewrite EA.
    apply walk_jumps_fall with (A := A) (B := A); assumption.
  - destruct (chain_out n B) eqn:EB; try reflexivity.
    apply walk_jumps_fall with (A := A) (B := B); assumption.
Qed.
End Chains.

(** ---------------------------------------------------------------- reference-side facts *)
Lemma chain_accepts_app ss a b f : chain_accepts ss (a ++ b) f = chain_accepts ss a f || chain_accepts ss b f.
Proof. unfold chain_accepts. apply existsb_app. Qed.
Lemma chain_accepts_flat_map {A} ss (g : A -> list rule) l f :
  chain_accepts ss (flat_map g l) f = existsb (fun a => chain_accepts ss (g a) f) l.
Proof. unfold chain_accepts. apply existsb_flat_map_c. Qed.

Lemma in_selected_iso H c p : in_selected (compile H c) p = isolated_in c p.
Proof.
  unfold in_selected, isolated_in, compile. rewrite existsb_map_c. apply existsb_ext_in. intros x _.
  unfold selects, compile_one. cbn [cp_np cp_in]. destruct (affects_in x); reflexivity.
Qed.
Lemma eg_selected_iso H c p : eg_selected (compile H c) p = isolated_eg c p.
Proof.
  unfold eg_selected, isolated_eg, compile. rewrite existsb_map_c. apply existsb_ext_in. intros x _.
  unfold selects, compile_one. cbn [cp_np cp_eg]. destruct (affects_eg x); reflexivity.
Qed.

Definition ips_of (l : list pod) : list N :=
  flat_map (fun p => match pod_ip p with Some a => [a] | None => [] end) l.
Lemma ips_of_in l p a : In p l -> pod_ip p = Some a -> In a (ips_of l).
Proof. intros Hp Ea. unfold ips_of. apply in_flat_map. exists p. split; [exact Hp|]. rewrite Ea. left. reflexivity. Qed.
Lemma ip_is_inv a p : ip_is a p = true -> pod_ip p = Some a.
Proof. unfold ip_is. destruct (pod_ip p) as [b|]; [|discriminate]. intros E. apply N.eqb_eq in E. congruence. Qed.

Lemma ips_unique l a p q : n_nodup (ips_of l) = true -> In p l -> In q l ->
  ip_is a p = true -> ip_is a q = true -> p = q.
Proof.
  induction l as [|x l IH]; intros Hn Hp Hq Ep Eq; [destruct Hp|].
  assert (n_nodup (ips_of l) = true) as Hn'.
  { unfold ips_of in Hn. cbn [flat_map] in Hn. fold (ips_of l) in Hn. destruct (pod_ip x); [|exact Hn].
    cbn [app n_nodup] in Hn. apply andb_true_iff in Hn. apply Hn. }
  assert (forall y, In y l -> ip_is a x = true -> ip_is a y = true -> False) as Hno.
  { intros y Hy Ex Ey. apply ip_is_inv in Ex. pose proof (ips_of_in l y a Hy (ip_is_inv _ _ Ey)) as Hin.
    unfold ips_of in Hn. cbn [flat_map] in Hn. fold (ips_of l) in Hn. rewrite Ex in Hn.
    cbn [app n_nodup] in Hn. apply andb_true_iff in Hn. destruct Hn as [Hn _]. apply negb_true_iff in Hn.
    rewrite existsb_false in Hn. specialize (Hn a Hin). rewrite N.eqb_refl in Hn. discriminate. }
  destruct Hp as [Hp|Hp]; destruct Hq as [Hq|Hq].
  - congruence.
  - subst x. exfalso. eapply Hno; eassumption.
  - subst x. exfalso. eapply Hno; eassumption.
  - apply IH; assumption.
Qed.

Lemma forallb_all_eq {A} (g : A -> bool) l p : In p l -> (forall q, In q l -> q = p) -> forallb g l = g p.
Proof.
  intros Hp Hall. apply eq_iff_eq_true. rewrite forallb_forall. split.
  - intros Hf. apply Hf. exact Hp.
  - intros Hg q Hq. rewrite (Hall q Hq). exact Hg.
Qed.
Lemma forallb_true_intro {A} (g : A -> bool) l : (forall q, In q l -> g q = true) -> forallb g l = true.
Proof. intros Hq. apply forallb_forall. exact Hq. Qed.

(** ---------------------------------------------------------------- one node *)
Section Node.
Variable H : str -> str.
Variable n : str.
Variable c : cluster.
Variable f : flow.
Hypothesis Hd : hash_distinct H n c = true.
Hypothesis Hfrag : frag_g c = true.
Hypothesis Hflow : flow_ok f = true.

Let K := installed H n c.
Let pols := compile H c.
Let ps := local_pods n c.

Lemma frag_parts :
  forallb (pol_frag_g c) (c_pols c) = true /\
  forallb (fun a => a <? two32) (pod_ips c) = true /\ n_nodup (pod_ips c) = true.
Proof.
  unfold frag_g in Hfrag. rewrite !andb_true_iff in Hfrag. destruct Hfrag as [[[[F1 _] _] F5] F6].
  repeat split; assumption.
Qed.

Lemma flow_parts : f_src f < two32 /\ f_dst f < two32.
Proof. unfold flow_ok in Hflow. apply andb_true_iff in Hflow. destruct Hflow as [A B]. apply N.ltb_lt in A, B. split; assumption. Qed.

Lemma pod_ip_bound p a : In p (c_pods c) -> pod_ip p = Some a -> a < two32.
Proof.
  intros Hp Ea. destruct frag_parts as [_ [F5 _]]. rewrite forallb_forall in F5.
  apply N.ltb_lt. apply F5. exact (ips_of_in _ p a Hp Ea).
Qed.

Lemma local_in p : In p ps -> In p (c_pods c) /\ pod_node p = n.
Proof.
  unfold ps, local_pods. intros Hp. apply filter_In in Hp. destruct Hp as [Hp E]. apply str_eqb_eq in E. split; assumption.
Qed.
Lemma in_local p : In p (c_pods c) -> pod_node p = n -> In p ps.
Proof. intros Hp E. unfold ps, local_pods. apply filter_In. split; [exact Hp|]. apply str_eqb_eq. exact E. Qed.

Lemma pods_unique a p q : In p (c_pods c) -> In q (c_pods c) -> ip_is a p = true -> ip_is a q = true -> p = q.
Proof. destruct frag_parts as [_ [_ F6]]. apply ips_unique. exact F6. Qed.

Lemma shape :
  (forall cs a, In cs (all_sets pols) ->
     set_match (k_sets K) (cs_name cs) a = elems_match (cs_type cs) (cs_elems cs) a) /\
  (forall cp, In cp pols -> tlookup (policy_chain H (cp_np cp)) (k_filter K) = Some (policy_chain_rules cp)) /\
  (forall p, In p ps -> wants pols p = true ->
     tlookup (pod_chain H p) (k_filter K) = Some (pod_chain_rules H pols p)) /\
  tlookup ingress_chain (k_filter K) = (if existsb (wants pols) ps then Some (in_hooks_of H pols ps) else None) /\
  tlookup egress_chain (k_filter K) = (if existsb (wants pols) ps then Some (eg_hooks_of H pols ps) else None) /\
  exists rs, tlookup forward (k_filter K) = Some rs /\
     (forall r, In r rs -> r = jump ingress_chain \/ r = jump egress_chain) /\
     (existsb (wants pols) ps = true -> In (jump ingress_chain) rs /\ In (jump egress_chain) rs).
Proof. apply installed_shape; [exact Hd|]. apply frag_no_conflict. apply frag_parts. Qed.

(** the sets of a compiled rule are installed *)
Lemma rule_sets_installed x (l : list crule) cr cs a :
  In x (c_pols c) ->
  (cp_in (compile_one H c x) = Some l \/ cp_eg (compile_one H c x) = Some l) -> In cr l -> In cs (crule_sets cr) ->
  set_match (k_sets K) (cs_name cs) a = elems_match (cs_type cs) (cs_elems cs) a.
Proof.
  intros Hx Hl Hcr Hcs. apply shape. apply cpolicy_sets_in_all with (cp := compile_one H c x).
  - unfold pols, compile. apply in_map. exact Hx.
  - unfold cpolicy_sets. right. apply in_or_app. destruct Hl as [E|E]; rewrite E; [left|right];
      apply in_flat_map; exists cr; split; assumption.
Qed.
Lemma sel_set_installed x a : In x (c_pols c) -> a < two32 ->
  set_match (k_sets K) (sel_set_name H x) a = sel_at c x a.
Proof.
  intros Hx Ha. destruct shape as [S _].
  change (sel_set_name H x) with (cs_name (cp_sel (compile_one H c x))).
  rewrite (S (cp_sel (compile_one H c x)) a).
  - cbn [compile_one cp_sel cs_type cs_elems]. apply sel_set_match; [apply frag_parts|exact Ha].
  - apply cpolicy_sets_in_all with (cp := compile_one H c x); [unfold pols, compile; apply in_map; exact Hx|].
    left. reflexivity.
Qed.

Lemma pol_frag_of x : In x (c_pols c) -> pol_frag_g c x = true.
Proof. intros Hx. destruct frag_parts as [F1 _]. rewrite forallb_forall in F1. apply F1. exact Hx. Qed.

Lemma existsb_and_const {A} (b : bool) (g : A -> bool) l : existsb (fun a => b && g a) l = b && existsb g l.
Proof. destruct b; [reflexivity|]. cbn [andb]. induction l as [|a l IH]; [reflexivity|exact IH]. Qed.

(** ONE POLICY CHAIN: the chain of policy x ACCEPTs the packet exactly when x affects ingress, selects the
    destination and some ingress rule has a matching port and a peer matching the source - or x affects egress,
    selects the source and some egress rule has a matching port and a peer matching the destination *)
Lemma policy_chain_accepts x : In x (c_pols c) ->
  chain_accepts (k_sets K) (policy_chain_rules (compile_one H c x)) f =
  affects_in x && (sel_at c x (f_dst f) &&
     existsb (fun r => port_ok r (f_proto f) (f_dport f) && peers_ok c x r (f_src f)) (np_ingress x)) ||
  affects_eg x && (sel_at c x (f_src f) &&
     existsb (fun r => port_ok r (f_proto f) (f_dport f) && peers_ok c x r (f_dst f)) (np_egress x)).
Proof.
  intros Hx. pose proof (pol_frag_of x Hx) as PF. unfold pol_frag_g in PF. apply andb_true_iff in PF.
  destruct PF as [PI PE]. destruct flow_parts as [Fs Fd].
  unfold policy_chain_rules. rewrite chain_accepts_app. f_equal.
  - (* ingress rules: source in the peer sets, destination in the selected set *)
    unfold compile_one. cbn [cp_in cp_np cp_sel cs_name]. destruct (affects_in x) eqn:Ein; [|reflexivity].
    cbn [andb]. rewrite chain_accepts_flat_map, <- existsb_and_const.
    apply existsb_map_idx. intros j r Hr Hin.
    rewrite policy_rules_for_accepts. cbn [existsb]. rewrite orb_false_r.
    rewrite forallb_forall in PI. pose proof (PI r Hr) as RF.
    rewrite (sel_set_installed x (f_dst f) Hx Fd).
    rewrite existsb_map_c.
    rewrite (existsb_ext_in _ (fun cs => elems_match (cs_type cs) (cs_elems cs) (f_src f))).
    2:{ intros cs Hcs. apply (rule_sets_installed x (map_idx (peer_rule H c x (L "sip") (L "snet")) 0 (np_ingress x))
                                (peer_rule H c x (L "sip") (L "snet") j r)); try assumption.
        left. unfold compile_one. cbn [cp_in]. rewrite Ein. reflexivity. }
    rewrite peer_sets_match; [|exact RF|apply frag_parts|exact Fs].
    cbn [peer_rule cr_tcp cr_udp]. rewrite ports_match_ok.
    + destruct (sel_at c x (f_dst f)), (peers_ok c x r (f_src f)), (port_ok r (f_proto f) (f_dport f)); reflexivity.
    + unfold rule_frag in RF. rewrite !andb_true_iff in RF. apply RF.
  - (* egress rules: source in the selected set, destination in the peer sets *)
    unfold compile_one. cbn [cp_eg cp_np cp_sel cs_name]. destruct (affects_eg x) eqn:Eeg; [|reflexivity].
    cbn [andb]. rewrite chain_accepts_flat_map, <- existsb_and_const.
    apply existsb_map_idx. intros j r Hr Hin.
    rewrite policy_rules_for_accepts. cbn [existsb]. rewrite orb_false_r.
    rewrite forallb_forall in PE. pose proof (PE r Hr) as RF.
    rewrite (sel_set_installed x (f_src f) Hx Fs).
    rewrite existsb_map_c.
    rewrite (existsb_ext_in _ (fun cs => elems_match (cs_type cs) (cs_elems cs) (f_dst f))).
    2:{ intros cs Hcs. apply (rule_sets_installed x (map_idx (peer_rule H c x (L "dip") (L "dnet")) 0 (np_egress x))
                                (peer_rule H c x (L "dip") (L "dnet") j r)); try assumption.
        right. unfold compile_one. cbn [cp_eg]. rewrite Eeg. reflexivity. }
    rewrite peer_sets_match; [|exact RF|apply frag_parts|exact Fd].
    cbn [peer_rule cr_tcp cr_udp]. rewrite ports_match_ok.
    + destruct (sel_at c x (f_src f)), (peers_ok c x r (f_dst f)), (port_ok r (f_proto f) (f_dport f)); reflexivity.
    + unfold rule_frag in RF. rewrite !andb_true_iff in RF. apply RF.
Qed.

Hypothesis Hnc : no_cross c f = true.

Lemma sel_at_self x p a : In p (c_pods c) -> ip_is a p = true -> applies x p = true -> sel_at c x a = true.
Proof.
  intros Hp Eip Eap. unfold sel_at. apply existsb_exists. exists p. split; [|exact Eap].
  unfold pods_at. apply filter_In. split; assumption.
Qed.

(** ONE POD CHAIN: the pod chain of an egress-isolated sender computes egress_ok; of an ingress-isolated receiver,
    ingress_ok (the rules of the other direction do not match the flow: [no_cross]) *)
Lemma pod_accepts_eg s : In s (c_pods c) -> ip_is (f_src f) s = true ->
  isolated_eg c s = true -> pod_accepts K f pols s = egress_ok c s f.
Proof.
  intros Hs Eip Eiso. unfold egress_ok. rewrite Eiso. cbn [negb orb].
  unfold pod_accepts, pols, compile. rewrite existsb_map_c. apply existsb_ext_in. intros x Hx.
  unfold selects. cbn [compile_one cp_np]. destruct (applies x s) eqn:Eap; [|reflexivity]. cbn [andb].
  fold (compile_one H c x). rewrite (policy_chain_accepts x Hx).
  rewrite (sel_at_self x s (f_src f) Hs Eip Eap). cbn [andb].
  unfold no_cross in Hnc. apply andb_true_iff in Hnc. destruct Hnc as [N1 _].
  rewrite forallb_forall in N1. specialize (N1 s (proj2 (filter_In _ _ _) (conj Hs Eip))).
  rewrite Eiso in N1. cbn [negb orb] in N1. rewrite forallb_forall in N1. specialize (N1 x Hx).
  rewrite Eap in N1. cbn [andb] in N1. apply negb_true_iff in N1. rewrite <- !andb_assoc in N1. rewrite N1.
  reflexivity.
Qed.

Lemma pod_accepts_in d : In d (c_pods c) -> ip_is (f_dst f) d = true ->
  isolated_in c d = true -> pod_accepts K f pols d = ingress_ok c d f.
Proof.
  intros Hs Eip Eiso. unfold ingress_ok. rewrite Eiso. cbn [negb orb].
  unfold pod_accepts, pols, compile. rewrite existsb_map_c. apply existsb_ext_in. intros x Hx.
  unfold selects. cbn [compile_one cp_np]. destruct (applies x d) eqn:Eap; [|reflexivity]. cbn [andb].
  fold (compile_one H c x). rewrite (policy_chain_accepts x Hx).
  rewrite (sel_at_self x d (f_dst f) Hs Eip Eap). cbn [andb].
  unfold no_cross in Hnc. apply andb_true_iff in Hnc. destruct Hnc as [_ N2].
  rewrite forallb_forall in N2. specialize (N2 d (proj2 (filter_In _ _ _) (conj Hs Eip))).
  rewrite Eiso in N2. cbn [negb orb] in N2. rewrite forallb_forall in N2. specialize (N2 x Hx).
  rewrite Eap in N2. cbn [andb] in N2. apply negb_true_iff in N2. rewrite <- !andb_assoc in N2. rewrite N2.
  rewrite orb_false_r. reflexivity.
Qed.

(** the outcomes of the two hook chains *)
Definition eg_hooked : option pod := find (fun p => ip_is (f_src f) p && eg_selected pols p) ps.
Definition in_hooked : option pod := find (fun p => ip_is (f_dst f) p && in_selected pols p) ps.

Lemma local_ip_bound p a : In p ps -> pod_ip p = Some a -> a < two32.
Proof. intros Hp. apply pod_ip_bound. apply local_in. exact Hp. Qed.

Lemma egress_out m : chain_out K f (S (S (S m))) egress_chain =
  match eg_hooked with Some s => pod_out K f pols s | None => OFall end.
Proof.
  destruct shape as [_ [SP [SD [_ [SE _]]]]]. unfold chain_out, eg_hooked. rewrite SE.
  rewrite <- (walk_eg_hooks H K f pols SP ps SD local_ip_bound m ps (fun p Hp => Hp)).
  destruct (existsb (wants pols) ps) eqn:Ew; [reflexivity|].
  rewrite eg_hooks_of_nowant by exact Ew. reflexivity.
Qed.
Lemma ingress_out m : chain_out K f (S (S (S m))) ingress_chain =
  match in_hooked with Some d => pod_out K f pols d | None => OFall end.
Proof.
  destruct shape as [_ [SP [SD [SI _]]]]. unfold chain_out, in_hooked. rewrite SI.
  rewrite <- (walk_in_hooks H K f pols SP ps SD local_ip_bound m ps (fun p Hp => Hp)).
  destruct (existsb (wants pols) ps) eqn:Ew; [reflexivity|].
  rewrite in_hooks_of_nowant by exact Ew. reflexivity.
Qed.

Lemma hooked_wants p (g : pod -> bool) a : In p ps -> ip_is a p = true ->
  in_selected pols p || eg_selected pols p = true -> existsb (wants pols) ps = true.
Proof.
  intros Hp Eip Es. apply existsb_exists. exists p. split; [exact Hp|]. unfold wants. rewrite Es.
  rewrite (ip_is_inv _ _ Eip). reflexivity.
Qed.

(** the per-node theorem: on the fragment, for a flow with at most one hooked end on this node, FORWARD of the
    installed kernel accepts exactly when every local pod owning the source address may send (egress_ok) and every
    local pod owning the destination address may receive (ingress_ok) *)
Theorem node_enforces : one_hooked c f = true ->
  verdict K forward f =
  forallb (fun s => negb (str_eqb (pod_node s) n) || egress_ok c s f) (pods_at c (f_src f)) &&
  forallb (fun d => negb (str_eqb (pod_node d) n) || ingress_ok c d f) (pods_at c (f_dst f)).
Proof.
  intros Hone. destruct shape as [_ [_ [_ [_ [_ [rs [SF [Sj Sw]]]]]]]].
  unfold verdict. rewrite SF. change walk_fuel with (S (S (S (S 4)))).
  pose proof (egress_out 4) as OE. pose proof (ingress_out 4) as OI.
  assert (forall p a, find (fun p => ip_is a p && eg_selected pols p) ps = None ->
            In p (pods_at c a) -> negb (str_eqb (pod_node p) n) || egress_ok c p f = true) as NoE.
  { intros p a Ef Hp. unfold pods_at in Hp. apply filter_In in Hp. destruct Hp as [Hp Eip].
    destruct (str_eqb_spec (pod_node p) n) as [En|En]; [|reflexivity]. cbn [negb orb].
    pose proof (find_none _ _ Ef p (in_local p Hp En)) as Ex. cbv beta in Ex. rewrite Eip in Ex. cbn [andb] in Ex.
    unfold pols in Ex. rewrite eg_selected_iso in Ex. unfold egress_ok. rewrite Ex. reflexivity. }
  assert (forall p a, find (fun p => ip_is a p && in_selected pols p) ps = None ->
            In p (pods_at c a) -> negb (str_eqb (pod_node p) n) || ingress_ok c p f = true) as NoI.
  { intros p a Ef Hp. unfold pods_at in Hp. apply filter_In in Hp. destruct Hp as [Hp Eip].
    destruct (str_eqb_spec (pod_node p) n) as [En|En]; [|reflexivity]. cbn [negb orb].
    pose proof (find_none _ _ Ef p (in_local p Hp En)) as Ex. cbv beta in Ex. rewrite Eip in Ex. cbn [andb] in Ex.
    unfold pols in Ex. rewrite in_selected_iso in Ex. unfold ingress_ok. rewrite Ex. reflexivity. }
  unfold eg_hooked in OE. unfold in_hooked in OI.
  destruct (find (fun p => ip_is (f_src f) p && eg_selected pols p) ps) as [s|] eqn:Es;
  destruct (find (fun p => ip_is (f_dst f) p && in_selected pols p) ps) as [d|] eqn:Ed.
  - (* both ends hooked on this node: excluded *)
    exfalso. apply find_some in Es. destruct Es as [Hs Es]. apply andb_true_iff in Es. destruct Es as [Es1 Es2].
    apply find_some in Ed. destruct Ed as [Hd' Ed]. apply andb_true_iff in Ed. destruct Ed as [Ed1 Ed2].
    destruct (local_in s Hs) as [Hs1 Hs2]. destruct (local_in d Hd') as [Hd1 Hd2].
    unfold one_hooked in Hone. rewrite forallb_forall in Hone.
    assert (In s (pods_at c (f_src f))) as Ps by (apply filter_In; split; assumption).
    assert (In d (pods_at c (f_dst f))) as Pd by (apply filter_In; split; assumption).
    specialize (Hone s Ps). rewrite forallb_forall in Hone. specialize (Hone d Pd).
    unfold pols in Es2, Ed2. rewrite eg_selected_iso in Es2. rewrite in_selected_iso in Ed2.
    rewrite Hs2, Hd2, str_eqb_refl, Es2, Ed2 in Hone. discriminate.
  - (* the sender is hooked *)
    apply find_some in Es. destruct Es as [Hs Es]. apply andb_true_iff in Es. destruct Es as [Es1 Es2].
    destruct (local_in s Hs) as [Hs1 Hs2].
    assert (existsb (wants pols) ps = true) as Ew.
    { apply (hooked_wants s (fun _ => true) (f_src f) Hs Es1). rewrite Es2. apply orb_true_r. }
    rewrite (walk_jumps_one K f _ ingress_chain egress_chain rs ingress_glx egress_glx Sj OI (proj2 (Sw Ew))).
    rewrite OE.
    rewrite (forallb_all_eq _ _ s).
    + rewrite Hs2, str_eqb_refl. cbn [negb orb]. rewrite (forallb_true_intro _ _ (fun q Hq => NoI q _ Ed Hq)).
      rewrite andb_true_r. unfold pols in Es2. rewrite eg_selected_iso in Es2.
      rewrite <- (pod_accepts_eg s Hs1 Es1 Es2). unfold pod_out. destruct (pod_accepts K f pols s); reflexivity.
    + apply filter_In. split; assumption.
    + intros q Hq. apply filter_In in Hq. destruct Hq as [Hq Eq]. exact (pods_unique _ q s Hq Hs1 Eq Es1).
  - (* the receiver is hooked *)
    apply find_some in Ed. destruct Ed as [Hd' Ed]. apply andb_true_iff in Ed. destruct Ed as [Ed1 Ed2].
    destruct (local_in d Hd') as [Hd1 Hd2].
    assert (existsb (wants pols) ps = true) as Ew.
    { apply (hooked_wants d (fun _ => true) (f_dst f) Hd' Ed1). rewrite Ed2. reflexivity. }
    rewrite (walk_jumps_one K f _ egress_chain ingress_chain rs egress_glx ingress_glx
               (fun r Hr => match Sj r Hr with or_introl e => or_intror e | or_intror e => or_introl e end) OE (proj1 (Sw Ew))).
    rewrite OI.
    rewrite (forallb_all_eq _ (pods_at c (f_dst f)) d).
    + rewrite Hd2, str_eqb_refl. cbn [negb orb]. rewrite (forallb_true_intro _ _ (fun q Hq => NoE q _ Es Hq)).
      cbn [andb]. unfold pols in Ed2. rewrite in_selected_iso in Ed2.
      rewrite <- (pod_accepts_in d Hd1 Ed1 Ed2). unfold pod_out. destruct (pod_accepts K f pols d); reflexivity.
    + apply filter_In. split; assumption.
    + intros q Hq. apply filter_In in Hq. destruct Hq as [Hq Eq]. exact (pods_unique _ q d Hq Hd1 Eq Ed1).
  - (* no hooked end *)
    rewrite (walk_jumps_fall K f _ ingress_chain egress_chain rs ingress_glx egress_glx Sj OI OE).
    rewrite (forallb_true_intro _ _ (fun q Hq => NoE q _ Es Hq)).
    rewrite (forallb_true_intro _ _ (fun q Hq => NoI q _ Ed Hq)). reflexivity.
Qed.
End Node.

(** ---------------------------------------------------------------- both ends: galaxy_allows = k8s_allows *)
Lemma forallb_ext_in_c {A} (p q : A -> bool) l : (forall a, In a l -> p a = q a) -> forallb p l = forallb q l.
Proof.
  induction l as [|a l IH]; intros E; [reflexivity|]. simpl. rewrite (E a) by (left; reflexivity).
  rewrite IH; [reflexivity|]. intros b Hb. apply E. right. exact Hb.
Qed.

Theorem enforces_partial_g_l (H : str -> str) (c : cluster) (f : flow) :
  (forall n, In n (flow_nodes c f) -> hash_distinct H n c = true) ->
  frag_g c = true -> flow_ok f = true -> no_cross c f = true -> one_hooked c f = true ->
  galaxy_allows H c f = k8s_allows c f.
Proof.
  intros Hd Hfrag Hflow Hnc Hone. unfold galaxy_allows, allows_on.
  rewrite (forallb_ext_in_c _ (fun n =>
     forallb (fun s => negb (str_eqb (pod_node s) n) || egress_ok c s f) (pods_at c (f_src f)) &&
     forallb (fun d => negb (str_eqb (pod_node d) n) || ingress_ok c d f) (pods_at c (f_dst f)))).
  2:{ intros n Hn. apply node_enforces; try assumption. apply Hd. exact Hn. }
  unfold k8s_allows. apply eq_iff_eq_true. rewrite andb_true_iff, (forallb_forall _ (flow_nodes c f)). split.
  - intros HV. split; apply forallb_forall.
    + intros s Hs. assert (In (pod_node s) (flow_nodes c f)) as Hn.
      { unfold flow_nodes. apply in_or_app. left. apply in_map. exact Hs. }
      specialize (HV _ Hn). apply andb_true_iff in HV. destruct HV as [HV _].
      rewrite forallb_forall in HV. specialize (HV s Hs). rewrite str_eqb_refl in HV. exact HV.
    + intros d Hd'. assert (In (pod_node d) (flow_nodes c f)) as Hn.
      { unfold flow_nodes. apply in_or_app. right. apply in_map. exact Hd'. }
      specialize (HV _ Hn). apply andb_true_iff in HV. destruct HV as [_ HV].
      rewrite forallb_forall in HV. specialize (HV d Hd'). rewrite str_eqb_refl in HV. exact HV.
  - intros [HE HI] n _. rewrite forallb_forall in HE, HI. apply andb_true_iff. split; apply forallb_forall.
    + intros s Hs. rewrite (HE s Hs). apply orb_true_r.
    + intros d Hd'. rewrite (HI d Hd'). apply orb_true_r.
Qed.

(** the simple fragment implies the general one and excludes cross-talk for every flow *)
Lemma frag_frag_g c : frag c = true -> frag_g c = true.
Proof. unfold frag. rewrite !andb_true_iff. intros [[G _] _]. exact G. Qed.

Lemma frag_no_cross c f : frag c = true -> no_cross c f = true.
Proof.
  unfold frag. rewrite !andb_true_iff. intros [[_ _] F2]. rewrite forallb_forall in F2.
  assert (forall p x, In p (c_pods c) -> In x (c_pols c) -> applies x p = true ->
            isolated_eg c p = true -> affects_in x = true -> False) as K1.
  { intros p x Hp Hx Eap Eeg Ein. specialize (F2 p Hp). rewrite Eeg, andb_true_r in F2.
    apply negb_true_iff in F2. unfold isolated_in in F2. rewrite existsb_false in F2. specialize (F2 x Hx).
    rewrite Eap, Ein in F2. discriminate. }
  assert (forall p x, In p (c_pods c) -> In x (c_pols c) -> applies x p = true ->
            isolated_in c p = true -> affects_eg x = true -> False) as K2.
  { intros p x Hp Hx Eap Ein Eeg. specialize (F2 p Hp). rewrite Ein in F2. cbn [andb] in F2.
    apply negb_true_iff in F2. unfold isolated_eg in F2. rewrite existsb_false in F2. specialize (F2 x Hx).
    rewrite Eap, Eeg in F2. discriminate. }
  unfold no_cross. apply andb_true_iff. split; apply forallb_forall; intros p Hp;
    unfold pods_at in Hp; apply filter_In in Hp; destruct Hp as [Hp _].
  - destruct (isolated_eg c p) eqn:Eiso; [|reflexivity]. cbn [negb orb]. apply forallb_forall. intros x Hx.
    destruct (applies x p) eqn:Eap; [|reflexivity]. destruct (affects_in x) eqn:Ein; [|reflexivity].
    exfalso. exact (K1 p x Hp Hx Eap Eiso Ein).
  - destruct (isolated_in c p) eqn:Eiso; [|reflexivity]. cbn [negb orb]. apply forallb_forall. intros x Hx.
    destruct (applies x p) eqn:Eap; [|reflexivity]. destruct (affects_eg x) eqn:Eeg; [|reflexivity].
    exfalso. exact (K2 p x Hp Hx Eap Eiso Eeg).
Qed.

Theorem enforces_partial_l (H : str -> str) (c : cluster) (f : flow) :
  (forall n, In n (flow_nodes c f) -> hash_distinct H n c = true) ->
  frag c = true -> flow_ok f = true -> one_hooked c f = true ->
  galaxy_allows H c f = k8s_allows c f.
Proof.
  intros Hd Hfrag Hflow Hone. apply enforces_partial_g_l; try assumption.
  - apply frag_frag_g. exact Hfrag.
  - apply frag_no_cross. exact Hfrag.
Qed.

(** an injective hash does not collide on the keys of a well-formed cluster *)
Lemma NoDup_map_filter {A B} (g : A -> B) (p : A -> bool) l : NoDup (map g l) -> NoDup (map g (filter p l)).
Proof.
  induction l as [|a l IH]; intros Hn; [constructor|]. cbn [map] in Hn. inversion Hn as [|? ? Hnin Hn']. subst.
  cbn [filter]. destruct (p a); [|apply IH; exact Hn']. cbn [map]. constructor; [|apply IH; exact Hn'].
  intros Hin. apply Hnin. apply in_map_iff in Hin. destruct Hin as [x [E Hx]]. apply filter_In in Hx.
  apply in_map_iff. exists x. split; [exact E|apply Hx].
Qed.

Lemma frag_hash_distinct (H : str -> str) n c : (forall a b, H a = H b -> a = b) -> frag_g c = true ->
  hash_distinct H n c = true.
Proof.
  intros Hinj Hf. unfold frag_g in Hf. rewrite !andb_true_iff in Hf. destruct Hf as [[[[_ F3] F4] _] _].
  apply strs_nodup_NoDup in F3. apply strs_nodup_NoDup in F4.
  unfold hash_distinct. apply andb_true_iff. split; apply strs_nodup_NoDup.
  - rewrite <- (map_map np_key H). apply FinFun.Injective_map_NoDup; [exact Hinj|exact F3].
  - rewrite <- (map_map pod_key H). apply FinFun.Injective_map_NoDup; [exact Hinj|].
    unfold local_pods. apply NoDup_map_filter. exact F4.
Qed.

Theorem enforces_partial_g_inj (H : str -> str) : (forall a b, H a = H b -> a = b) ->
  forall (c : cluster) (f : flow), frag_g c = true -> flow_ok f = true -> no_cross c f = true ->
  one_hooked c f = true -> galaxy_allows H c f = k8s_allows c f.
Proof.
  intros Hinj c f Hfrag Hflow Hnc Hone. apply enforces_partial_g_l; try assumption.
  intros n _. apply frag_hash_distinct; assumption.
Qed.

Theorem enforces_partial_inj (H : str -> str) : (forall a b, H a = H b -> a = b) ->
  forall (c : cluster) (f : flow), frag c = true -> flow_ok f = true -> one_hooked c f = true ->
  galaxy_allows H c f = k8s_allows c f.
Proof.
  intros Hinj c f Hfrag Hflow Hone. apply enforces_partial_g_inj; try assumption.
  - apply frag_frag_g. exact Hfrag.
  - apply frag_no_cross. exact Hfrag.
Qed.

(** ---------------------------------------------------------------- the fragment is inhabited *)
(** two namespaces, five pods on two nodes, two policies: "web-in" (ingress of the app=web pods of ns1: tcp/80 and
    udp/53 from the app=cli pods and from 192.168.0.0/16 except 192.168.1.0/24; anything from the team=b
    namespaces) and "db-out" (egress of the app=db pod: tcp/443 to anywhere except 10.0.0.0/8) *)
Definition xp_db := mkPod (L "ns1") (L "db") [(L "app", L "db")] (Some (K8sPolicyP.ip4 10 0 0 4)) (L "node1").
Definition xp_bat := mkPod (L "ns2") (L "bat") [(L "app", L "bat")] (Some (K8sPolicyP.ip4 10 0 1 1)) (L "node2").
Definition xp_c := mkCluster nss2 [web; web2; cli1; xp_bat; xp_db]
  [mkPol (L "ns1") (L "web-in") selweb true false
     [mkPRule [(L "tcp", 80); (L "udp", 53)]
              [PeerPod selcli; PeerBlock (K8sPolicyP.ip4 192 168 0 0, 16) [(K8sPolicyP.ip4 192 168 1 0, 24)]];
      mkPRule [] [PeerNs [(L "team", L "b")]]] [];
   mkPol (L "ns1") (L "db-out") [(L "app", L "db")] false true []
     [mkPRule [(L "tcp", 443)] [PeerBlock (K8sPolicyP.ip4 0 0 0 0, 0) [(K8sPolicyP.ip4 10 0 0 0, 8)]]]].
(** cli (node1) -> web (node1) tcp/80: allowed by the podSelector peer; tcp/22: denied *)
Definition xp_f1 := mkFlow (K8sPolicyP.ip4 10 0 0 3) (K8sPolicyP.ip4 10 0 0 1) (L "tcp") 80.
Definition xp_f2 := mkFlow (K8sPolicyP.ip4 10 0 0 3) (K8sPolicyP.ip4 10 0 0 1) (L "tcp") 22.
(** db (node1) -> 8.8.8.8 tcp/443: allowed by the ipBlock; db -> web2 (node2) tcp/443: denied by its exception *)
Definition xp_f3 := mkFlow (K8sPolicyP.ip4 10 0 0 4) (K8sPolicyP.ip4 8 8 8 8) (L "tcp") 443.
Definition xp_f4 := mkFlow (K8sPolicyP.ip4 10 0 0 4) (K8sPolicyP.ip4 10 0 0 2) (L "tcp") 443.
(** 192.168.0.7 -> web2 (node2) udp/53: allowed by the ipBlock; 192.168.1.7 (inside the exception): denied *)
Definition xp_f5 := mkFlow (K8sPolicyP.ip4 192 168 0 7) (K8sPolicyP.ip4 10 0 0 2) (L "udp") 53.
Definition xp_f6 := mkFlow (K8sPolicyP.ip4 192 168 1 7) (K8sPolicyP.ip4 10 0 0 2) (L "udp") 53.

Definition xp_flows := [xp_f1; xp_f2; xp_f3; xp_f4; xp_f5; xp_f6].
Lemma enforces_partial_example_l :
  (frag xp_c = true) /\ (List.length (c_pols xp_c) = 2%nat) /\
  (forallb (fun f => flow_ok f && one_hooked xp_c f) xp_flows = true) /\
  (map (k8s_allows xp_c) xp_flows = [true; false; true; false; true; false]) /\
  (map (galaxy_allows Hx xp_c) xp_flows = [true; false; true; false; true; false]).
Proof. vm_compute. repeat split. Qed.

(** the general fragment: "web-both" affects BOTH directions of the app=web pods (ingress tcp/80 from app=cli, egress
    tcp/5432 to app=db), "db-in" lets the app=web pods reach the db; the cluster is outside the simple fragment,
    the five flows below satisfy [no_cross] and [one_hooked]; the K6e witness does not satisfy [no_cross] *)
Definition xq_c := mkCluster nss2 [web; web2; cli1; xp_bat; xp_db]
  [mkPol (L "ns1") (L "web-both") selweb true true
     [mkPRule [(L "tcp", 80)] [PeerPod selcli]] [mkPRule [(L "tcp", 5432)] [PeerPod [(L "app", L "db")]]];
   mkPol (L "ns1") (L "db-in") [(L "app", L "db")] true false [mkPRule [(L "tcp", 5432)] [PeerPod selweb]] []].
Definition xq_flows :=
  [mkFlow (K8sPolicyP.ip4 10 0 0 3) (K8sPolicyP.ip4 10 0 0 1) (L "tcp") 80;        (* cli -> web: allowed *)
   mkFlow (K8sPolicyP.ip4 10 0 0 2) (K8sPolicyP.ip4 10 0 0 4) (L "tcp") 5432;      (* web2 (node2) -> db (node1): allowed *)
   mkFlow (K8sPolicyP.ip4 10 0 0 2) (K8sPolicyP.ip4 10 0 0 4) (L "tcp") 80;        (* wrong port: denied *)
   mkFlow (K8sPolicyP.ip4 10 0 0 2) (K8sPolicyP.ip4 8 8 8 8) (L "tcp") 443;        (* web2 -> outside: denied *)
   mkFlow (K8sPolicyP.ip4 10 0 0 1) (K8sPolicyP.ip4 10 0 0 2) (L "tcp") 80].       (* web -> web2: denied *)

Lemma enforces_partial_example_g_l :
  (frag_g xq_c = true) /\ (frag xq_c = false) /\
  (forallb (fun f => flow_ok f && no_cross xq_c f && one_hooked xq_c f) xq_flows = true) /\
  (map (k8s_allows xq_c) xq_flows = [true; true; false; false; false]) /\
  (map (galaxy_allows Hx xq_c) xq_flows = [true; true; false; false; false]) /\
  (no_cross Ce fe = false).
Proof. vm_compute. repeat split. Qed.
