(** Proofs about Model/Page.v: the pages of a list tile it; the sort is a permutation. *)
From Coq Require Import List Ascii String NArith ZArith Bool Lia ZifyN ZifyNat ZifyBool Permutation Sorted.
From Galaxy.Base Require Import Strs.
From Galaxy.Model Require Import Page.
Import ListNotations.
Open Scope N_scope.

Ltac Zify.zify_post_hook ::= Z.div_mod_to_equations.

(** [0; 1; ...; n-1] *)
Fixpoint nrange_from (fuel : nat) (start : N) : list N :=
  match fuel with
  | O => []
  | S f => start :: nrange_from f (start + 1)
  end.
Definition nrange (n : N) : list N := nrange_from (N.to_nat n) 0.
Lemma in_nrange_from f s x : s <= x < s + N.of_nat f -> In x (nrange_from f s).
Proof.
  revert s. induction f as [|f IH]; intros s H; [lia|]. simpl.
  destruct (N.eq_dec s x) as [->|Hne]; [left; reflexivity|right; apply IH; lia].
Qed.
Lemma in_nrange n x : x < n -> In x (nrange n).
Proof. intros H. apply in_nrange_from. lia. Qed.
Lemma nrange_from_map f s : nrange_from f s = map (fun k => s + N.of_nat k) (seq 0 f).
Proof.
  revert s. induction f as [|f IH]; intros s; [reflexivity|]. simpl. f_equal; [lia|].
  rewrite IH, <- seq_shift, map_map. apply map_ext. intros k. lia.
Qed.
Lemma nrange_map n : nrange n = map N.of_nat (seq 0 (N.to_nat n)).
Proof. unfold nrange. rewrite nrange_from_map. apply map_ext. intros k. lia. Qed.

(** finite sweeps: a page number 0..99999 / a size 1..9999 printed in decimal is read back as itself *)
Lemma page_text_sweep : forallb (fun n => parse_page (print_dec n) =? n) (nrange 100000) = true.
Proof. vm_compute. reflexivity. Qed.
Lemma size_text_sweep : forallb (fun n => (n =? 0) || (parse_size (print_dec n) =? n)) (nrange 10000) = true.
Proof. vm_compute. reflexivity. Qed.

Lemma parse_page_print n : n <= 99999 -> parse_page (print_dec n) = n.
Proof.
  intros H. pose proof page_text_sweep as S. rewrite forallb_forall in S.
  specialize (S n (in_nrange 100000 n ltac:(lia))). apply N.eqb_eq in S. exact S.
Qed.
Lemma parse_size_print n : 1 <= n <= 9999 -> parse_size (print_dec n) = n.
Proof.
  intros H. pose proof size_text_sweep as S. rewrite forallb_forall in S.
  specialize (S n (in_nrange 10000 n ltac:(lia))). apply orb_prop in S. destruct S as [S|S]; apply N.eqb_eq in S; lia.
Qed.

Lemma firstn_add {A} (a b : nat) (l : list A) : firstn (a + b) l = firstn a l ++ firstn b (skipn a l).
Proof.
  revert l. induction a as [|a IH]; intros l; [reflexivity|].
  destruct l as [|x l]; simpl; [destruct b; reflexivity|]. f_equal. apply IH.
Qed.

(** fips[start:end] in terms of the page number *)
Lemma page_content_eq {A} (p size : N) (l : list A) : 1 <= size ->
  page_content p size l = firstn (N.to_nat size) (skipn (N.to_nat (p * size)) l).
Proof.
  intros Hs. unfold page_content, page_end, page_start. set (len := N.of_nat (List.length l)).
  destruct (N.le_gt_cases (p * size) len) as [Hle|Hgt].
  - replace (N.min (p * size) len) with (p * size) by lia.
    pose proof (skipn_length (N.to_nat (p * size)) l) as SL.
    destruct (N.le_gt_cases (p * size + size) len) as [H2|H2].
    + replace (N.min (p * size + size) len) with (p * size + size) by lia. f_equal. lia.
    + replace (N.min (p * size + size) len) with len by lia.
      rewrite !firstn_all2; [reflexivity| |]; rewrite SL; subst len; lia.
  - replace (N.min (p * size) len) with len by lia. replace (N.min (len + size) len) with len by lia.
    rewrite !skipn_all2 by (subst len; lia). destruct (N.to_nat (len - len)), (N.to_nat size); reflexivity.
Qed.

Lemma pages_concat {A} (size : nat) (l : list A) (k : nat) :
  List.concat (map (fun p => firstn size (skipn (p * size) l)) (seq 0 k)) = firstn (k * size) l.
Proof.
  induction k as [|k IH]; [reflexivity|].
  rewrite seq_S, map_app, concat_app, IH. simpl. rewrite app_nil_r.
  replace (size + k * size)%nat with (k * size + size)%nat by lia. symmetry. apply firstn_add.
Qed.

Theorem pages_partition_l {A} (l : list A) (size : N) :
  1 <= size <= 9999 -> N.of_nat (List.length l) <= 100000 * size ->
  List.concat (map (fun n => request_page n size l) (nrange (total_pages size (N.of_nat (List.length l))))) = l.
Proof.
  intros Hs Hl. set (len := N.of_nat (List.length l)). set (T := total_pages size len).
  assert (T <= 100000) as HT by (subst T; unfold total_pages; nia).
  assert (len <= T * size) as Hcov by (subst T; unfold total_pages; nia).
  rewrite nrange_map, map_map.
  rewrite (map_ext_in _ (fun p => firstn (N.to_nat size) (skipn (p * N.to_nat size) l))).
  - rewrite pages_concat. apply firstn_all2. subst len. nia.
  - intros p Hp. apply in_seq in Hp. unfold request_page.
    rewrite parse_page_print by lia. rewrite parse_size_print by lia.
    rewrite page_content_eq by lia. do 2 f_equal. lia.
Qed.

Theorem pages_beyond_empty_l {A} (l : list A) (size n : N) :
  1 <= size <= 9999 -> total_pages size (N.of_nat (List.length l)) <= n -> n <= 99999 ->
  request_page n size l = [].
Proof.
  intros Hs Hn Hc. unfold request_page. rewrite parse_page_print by lia. rewrite parse_size_print by lia.
  rewrite page_content_eq by lia. rewrite skipn_all2; [destruct (N.to_nat size); reflexivity|].
  unfold total_pages in Hn. nia.
Qed.

(** the sort *)
Lemma insert_perm {A} (key : A -> str) x l : Permutation (insert_by key x l) (x :: l).
Proof.
  induction l as [|y r IH]; simpl; [apply Permutation_refl|].
  destruct (str_ltb (key y) (key x)); [|apply Permutation_refl].
  eapply Permutation_trans; [apply perm_skip, IH|apply perm_swap].
Qed.
Theorem sort_perm_l {A} (key : A -> str) l : Permutation (sort_by key l) l.
Proof.
  induction l as [|x l IH]; simpl; [constructor|].
  eapply Permutation_trans; [apply insert_perm|apply perm_skip, IH].
Qed.

Lemma str_ltb_asym a b : str_ltb a b = true -> str_ltb b a = false.
Proof.
  revert b. induction a as [|x a IH]; intros [|y b] H; simpl in *; try congruence.
  destruct (N_of_ascii x <? N_of_ascii y) eqn:E1.
  - replace (N_of_ascii y <? N_of_ascii x) with false by lia. reflexivity.
  - destruct (N_of_ascii y <? N_of_ascii x) eqn:E2; [discriminate|]. apply IH, H.
Qed.

(** neighbours in the result are in non-descending order of their keys *)
Definition key_le {A} (key : A -> str) (a b : A) : Prop := str_ltb (key b) (key a) = false.
Lemma insert_sorted {A} (key : A -> str) x l :
  LocallySorted (key_le key) l -> LocallySorted (key_le key) (insert_by key x l).
Proof.
  induction l as [|y r IH]; intros S; simpl; [constructor|].
  destruct (str_ltb (key y) (key x)) eqn:E.
  - assert (LocallySorted (key_le key) r) as Sr by (inversion S; [constructor|assumption]).
    specialize (IH Sr). destruct r as [|z r']; simpl in *.
    + constructor; [constructor|]. unfold key_le. apply str_ltb_asym, E.
    + destruct (str_ltb (key z) (key x)) eqn:E2.
      * constructor; [exact IH|]. inversion S; assumption.
      * constructor; [exact IH|]. unfold key_le. apply str_ltb_asym, E.
  - constructor; [exact S|exact E].
Qed.
Theorem sort_sorted_l {A} (key : A -> str) l : LocallySorted (key_le key) (sort_by key l).
Proof. induction l as [|x l IH]; simpl; [constructor|apply insert_sorted, IH]. Qed.
