(** Four more statements about the scheduler plugin model (Model/Plugin.v), each the twin of a run-time monitor:
    - C01: a resync item passes by an entry whose key does not name a pod ([resync_skip]);
    - C02: a restart / a configuration reload keeps every allocation whose address stays configured;
    - C08: the IP ByKeyAndIPRanges answers for a range list is the FIRST address of the walk that the key holds;
    - C03: the events of two pods of one immutable deployment, handled one after the other, free exactly the surplus.
    The property theorems are in Props/C01.v, Props/C02.v, Props/C08p.v, Props/C03.v. *)
From Coq Require Import String.
From stdpp Require Import gmap.
From Galaxy.Base Require Import Strs.
From Galaxy.Model Require Import Nets Pool Ipam Plugin PluginInfo.
From Galaxy.Model Require Keys.
From Galaxy.Proofs Require Import KeysP IpamP PluginInv PluginInvL PluginKeyFacts PluginIpamFacts PluginUnbindP PluginBindP PluginP
  PluginPolicyP PluginPoolP PluginStickyP PluginReplicasP PluginAnswerP.
Local Open Scope N_scope.

(** * C01: resync passes by keys without a pod *)

(** ParseKey of the entry's key gives no pod name or no app name (a pool reserve "pool__p_", an app reserve
    "dp_ns_app_", a key ParseKey cannot split into exactly four fields): the resync item does nothing at all, whatever the
    oracles and faults *)
Lemma resync_passes_by_keys_without_a_pod_l w ip o ocl fl e :
  i_alloc (w_ipam w) !! ip = Some e →
  Keys.ko_pod (Keys.parse_key (e_key e)) = [] ∨ Keys.ko_app (Keys.parse_key (e_key e)) = [] →
  resync_skip e (Keys.parse_key (e_key e)) = true ∧ resync_section w ip o ocl fl = (w, SOk).
Proof.
  intros He Hk.
  assert (resync_skip e (Keys.parse_key (e_key e)) = true) as Hs.
  { unfold resync_skip. rewrite !orb_true_iff. destruct Hk as [E|E]; rewrite E; [left; left; right|left; right]; done. }
  split; [done|]. unfold resync_section. rewrite He. cbv zeta. by rewrite Hs.
Qed.

(** the key of a deployment pod whose pool annotation contains '_' ("team_a"): ParseKey cuts the pool name at the first
    '_' and is left with five fields, so it returns neither pod nor app name *)
Definition us_pool_key : str := L "pool__team_a_dp_ns1_api_api-7f9c6d-w1".

Lemma us_pool_key_parse :
  Keys.ko_pod (Keys.parse_key us_pool_key) = [] ∧ Keys.ko_app (Keys.parse_key us_pool_key) = [] ∧
  Keys.ko_pool (Keys.parse_key us_pool_key) = L "team".
Proof. vm_compute. done. Qed.

Lemma us_pool_key_skipped e : e_key e = us_pool_key → resync_skip e (Keys.parse_key (e_key e)) = true.
Proof.
  intros ->. unfold resync_skip. destruct us_pool_key_parse as (-> & _). cbn [Keys.is_empty]. by rewrite orb_true_r.
Qed.

(** a concrete world: 10.100.0.3 is held under that key for the running pod (uid u9, node1); the resync item of the
    address is skipped although no pod object of the world has that uid *)
Definition us_pool_world : world :=
  simple_world (ipam_take (ipam_init ex_conf2)
                  [(us_pool_key, ip4 10 100 0 3, {| a_policy := 2; a_node := L "node1"; a_uid := L "u9" |})])
               wit_pod ex_nodes ∅ ∅.

Lemma ex_resync_skips_us_pool_l :
  let w := us_pool_world in let x := ip4 10 100 0 3 in
  WInv w ∧
  (∃ e, i_alloc (w_ipam w) !! x = Some e ∧ e_key e = us_pool_key ∧ e_uid e = L "u9" ∧ e_node e = L "node1" ∧
        Keys.ko_pod (Keys.parse_key (e_key e)) = [] ∧ resync_skip e (Keys.parse_key (e_key e)) = true ∧
        pod_running w (Keys.ko_ns (Keys.parse_key (e_key e))) (Keys.ko_pod (Keys.parse_key (e_key e))) (e_uid e) = false) ∧
  ∀ o ocl fl, resync_section w x o ocl fl = (w, SOk).
Proof.
  split_and!.
  - apply winv_simple; [apply ipam_take_inv2, ipam_init_inv2|apply wit_pod_wf|done].
  - eexists. split; [vm_compute; reflexivity|]. split_and!; vm_compute; reflexivity.
  - intros o ocl fl. eapply resync_passes_by_keys_without_a_pod_l; [vm_compute; reflexivity|]. left. vm_compute. reflexivity.
Qed.

(** * C02: a restart / reload keeps the configured allocations *)

(** the entry the rebuilt table holds is the STORE's object: same key, policy, node, uid and reserved label as the entry
    of before ([proj], Proofs/IpamP.v); the time stamp is the store object's *)
Lemma rebuild_keeps_configured s0 s ps x e : Inv2 s → i_store s0 = i_store s → pools_ok ps →
  i_alloc s !! x = Some e → configured (sort_pools ps) x = true →
  ∃ e', i_alloc (configure_with s0 ps (i_store s0) ∅) !! x = Some e' ∧ i_store s !! x = Some e' ∧ proj e' = proj e.
Proof.
  intros H2 Hst Hok He Hc. destruct (reload_lossless_l s0 ps ∅ Hok) as [Hin _]. destruct (Hin x Hc) as [Ha _].
  destruct (inv2_alloc_store _ _ _ H2 He) as (o & Ho & Hpr). exists o. rewrite Ha, Hst. done.
Qed.

Lemma restart_keeps_configured_allocations_l w conf ps w' r x e :
  WInv w → decode_pools conf = Some ps → pstep w (PRestart conf) = (w', r) →
  i_alloc (w_ipam w) !! x = Some e → configured (sort_pools ps) x = true →
  r = ROk ∧ ∃ e', i_alloc (w_ipam w') !! x = Some e' ∧ i_store (w_ipam w) !! x = Some e' ∧ proj e' = proj e.
Proof.
  intros HW Hd Hs He Hc. cbn [pstep step] in Hs. rewrite Hd in Hs. cbn [fst snd] in Hs. injection Hs as <- <-.
  split; [done|]. cbn [set_queue set_lister set_ipam w_ipam]. unfold restart.
  match goal with |- ∃ e', i_alloc (configure_with ?s0 _ _ _) !! x = _ ∧ _ =>
    apply (rebuild_keeps_configured s0 (w_ipam w)) end; [apply (wi_ipam w HW)|done|by eapply decode_pools_ok|done|done].
Qed.

Lemma reload_keeps_configured_allocations_l w conf ps w' r x e :
  WInv w → decode_pools conf = Some ps → pstep w (PIpam (OConfigure conf false [])) = (w', r) →
  i_alloc (w_ipam w) !! x = Some e → configured (sort_pools ps) x = true →
  r = ROk ∧ ∃ e', i_alloc (w_ipam w') !! x = Some e' ∧ i_store (w_ipam w) !! x = Some e' ∧ proj e' = proj e.
Proof.
  intros HW Hd Hs He Hc. cbn [pstep step] in Hs. rewrite Hd in Hs. unfold configure in Hs. cbn [fst snd] in Hs.
  injection Hs as <- <-. split; [done|]. cbn [set_ipam w_ipam].
  apply (rebuild_keeps_configured (w_ipam w) (w_ipam w)); [apply (wi_ipam w HW)|done|by eapply decode_pools_ok|done|done].
Qed.

(** the entry itself - time stamp included - when memory and store hold the same object *)
Lemma kept_exactly (e e' : entry) (st : gmap N entry) x : st !! x = Some e' → st !! x = Some e → e' = e.
Proof. congruence. Qed.

(** * C08: the held slot is the first in walk order *)

(** the inner loop of [first_in_ranges], as a function of its own *)
Definition fir_go (f : N → bool) (r : range) (rest : list range) : nat → N → option (option N) :=
  fix go (fuel : nat) (cur : N) {struct fuel} : option (option N) :=
    match fuel with
    | O => None
    | S fuel' =>
        if cur <=? snd r then
          if f cur then Some (Some cur)
          else if cur =? snd r then first_in_ranges f fuel' rest
          else go fuel' (cur + 1)
        else first_in_ranges f fuel' rest
    end.

Lemma fir_go_S f r rest fuel cur : fir_go f r rest (S fuel) cur =
  if cur <=? snd r then
    if f cur then Some (Some cur)
    else if cur =? snd r then first_in_ranges f fuel rest
    else fir_go f r rest fuel (cur + 1)
  else first_in_ranges f fuel rest.
Proof. reflexivity. Qed.

Lemma fir_cons f r rest fuel : first_in_ranges f fuel (r :: rest) = fir_go f r rest fuel (fst r).
Proof. reflexivity. Qed.

(** the walk reads the predicate only: two predicates that agree give the same answer *)
Lemma first_in_ranges_ext f g : (∀ y, f y = g y) → ∀ rs fuel, first_in_ranges f fuel rs = first_in_ranges g fuel rs.
Proof.
  intros Hfg. induction rs as [|r rs IH]; intros fuel; [done|]. rewrite !fir_cons. generalize (fst r).
  induction fuel as [|fuel IHf]; intros cur; [done|]. rewrite !fir_go_S. by rewrite Hfg, IH, IHf.
Qed.

(** within the range the walk is in, every address before the answer was tested and refused *)
Lemma fir_go_smallest f r rest : ∀ fuel cur x, fir_go f r rest fuel cur = Some (Some x) →
  ∀ y, cur <= y → y <= snd r → y < x → f y = false.
Proof.
  induction fuel as [|fuel IHf]; intros cur x H y Hy1 Hy2 Hy3; [done|]. rewrite fir_go_S in H.
  destruct (cur <=? snd r) eqn:Ele; [|apply N.leb_gt in Ele; lia].
  destruct (f cur) eqn:Ef; [injection H as <-; lia|].
  destruct (decide (y = cur)) as [->|Hne]; [done|].
  destruct (cur =? snd r) eqn:Eeq; [apply N.eqb_eq in Eeq; lia|].
  apply (IHf (cur + 1) x H); lia.
Qed.

(** "the walk of [rl] meets [y] before [x]", said with the model's own walk: searching for the two addresses it answers [y] *)
Definition met_before (rl : list range) (y x : N) : Prop :=
  y ≠ x ∧ first_in_ranges (λ z, (z =? y) || (z =? x)) (ranges_fuel rl) rl = Some (Some y).

Lemma slot_is_first s key rl x : slot_of s key rl = Some x →
  holds s key x ∧ in_ranges rl x = true ∧ ∀ y, met_before rl y x → ¬ holds s key y.
Proof.
  intros Hs. destruct (slot_of_some _ _ _ _ Hs) as [Hk Hin]. split; [by apply holds_keyedb|]. split; [done|].
  intros y [Hne Hm] Hy. apply holds_keyedb in Hy. unfold slot_of in Hs.
  destruct (first_in_ranges (keyedb s key) (ranges_fuel rl) rl) as [[z|]|] eqn:E; try discriminate. injection Hs as ->.
  assert (first_in_ranges (λ z, (z =? y) || (z =? x)) (ranges_fuel rl) rl = Some (Some x)) as E2.
  { eapply first_in_ranges_mono; [|exact E|by rewrite N.eqb_refl, orb_true_r].
    intros z Hz. apply orb_true_iff in Hz as [Hz|Hz]; apply N.eqb_eq in Hz; by subst. }
  congruence.
Qed.

Lemma by_key_ranges_lookup s key rss i : by_key_ranges s key rss !! i = slot_of s key <$> rss !! i.
Proof. rewrite by_key_ranges_map. apply list_lookup_fmap. Qed.

Lemma held_slot_is_first_in_walk_order_l s key rss i x rl :
  by_key_ranges s key rss !! i = Some (Some x) → rss !! i = Some rl →
  holds s key x ∧ in_ranges rl x = true ∧ ∀ y, met_before rl y x → ¬ holds s key y.
Proof. rewrite by_key_ranges_lookup. intros H Hr. rewrite Hr in H. injection H as H. by apply slot_is_first. Qed.

(** the answer depends only on the SET of addresses the key holds *)
Lemma by_key_ranges_deterministic_l s s' key rss :
  (∀ y, holds s key y ↔ holds s' key y) → by_key_ranges s key rss = by_key_ranges s' key rss.
Proof.
  intros H. rewrite !by_key_ranges_map. apply map_ext. intros rl. unfold slot_of.
  rewrite (first_in_ranges_ext (keyedb s key) (keyedb s' key)); [done|].
  intros y. specialize (H y). rewrite !holds_keyedb in H. destruct (keyedb s key y), (keyedb s' key y); try done.
  - by destruct H as [H _]; specialize (H eq_refl).
  - by destruct H as [_ H]; specialize (H eq_refl).
Qed.

(** a range list that starts with the range [lo, hi]: no held address of [lo, hi] lies below the answer; for the single
    range [lo, hi] the answer is the SMALLEST held address of the range *)
Lemma held_slot_first_range_l s key rss i x lo hi (rest : list range) :
  by_key_ranges s key rss !! i = Some (Some x) → rss !! i = Some (((lo, hi) : range) :: rest) →
  ∀ y, lo <= y → y <= hi → holds s key y → x <= y.
Proof.
  rewrite by_key_ranges_lookup. intros H Hr y Hy1 Hy2 Hy. rewrite Hr in H. injection H as H. unfold slot_of in H.
  destruct (first_in_ranges _ _ _) as [[z|]|] eqn:E; try discriminate. injection H as ->. rewrite fir_cons in E.
  apply holds_keyedb in Hy. destruct (N.le_gt_cases x y) as [?|Hlt]; [done|].
  rewrite (fir_go_smallest _ _ _ _ _ _ E y) in Hy; [done|done|done|lia].
Qed.

Lemma held_slot_single_range_l s key rss i x lo hi :
  by_key_ranges s key rss !! i = Some (Some x) → rss !! i = Some [((lo, hi) : range)] →
  holds s key x ∧ lo <= x ∧ x <= hi ∧ ∀ y, lo <= y → y <= hi → holds s key y → x <= y.
Proof.
  intros H Hr. destruct (held_slot_is_first_in_walk_order_l _ _ _ _ _ _ H Hr) as (Hh & Hin & _).
  split; [done|]. unfold in_ranges in Hin. cbn [existsb] in Hin. rewrite orb_false_r in Hin.
  unfold range_contains in Hin. cbn [fst snd] in Hin. apply andb_true_iff in Hin as [H1 H2]. apply N.leb_le in H1, H2.
  split; [done|]. split; [done|]. by eapply held_slot_first_range_l.
Qed.

(** a concrete request: the key holds 10.100.0.3 and 10.100.0.4; for the single range 10.100.0.2-10.100.0.4 the answer is
    10.100.0.3, and 10.100.0.4 - held, in the range, but met later - is not *)
Definition walk_ipam : ipam :=
  ipam_take (ipam_init ex_conf2) [(pod_key wit_pod, ip4 10 100 0 4, held_attr 2); (pod_key wit_pod, ip4 10 100 0 3, held_attr 2)].

Lemma ex_held_slot_first_l :
  let rss := [[((ip4 10 100 0 2, ip4 10 100 0 4) : range)]] in
  Inv2 walk_ipam ∧ by_key_ranges walk_ipam (pod_key wit_pod) rss !! 0%nat = Some (Some (ip4 10 100 0 3)) ∧
  holds walk_ipam (pod_key wit_pod) (ip4 10 100 0 4) ∧ in_ranges [(ip4 10 100 0 2, ip4 10 100 0 4)] (ip4 10 100 0 4) = true ∧
  met_before [(ip4 10 100 0 2, ip4 10 100 0 4)] (ip4 10 100 0 2) (ip4 10 100 0 3) ∧
  ¬ holds walk_ipam (pod_key wit_pod) (ip4 10 100 0 2).
Proof.
  split_and!.
  - apply ipam_take_inv2, ipam_init_inv2.
  - vm_compute. reflexivity.
  - apply holds_keyedb. vm_compute. reflexivity.
  - vm_compute. reflexivity.
  - split; [done|]. vm_compute. reflexivity.
  - rewrite holds_keyedb. vm_compute. discriminate.
Qed.

(** * C03: the events of two pods of one immutable deployment free exactly the surplus *)

(** [y] is counted under the prefix [X] *)
Definition pheld (i : ipam) (X : str) (y : N) : Prop := ∃ e, i_alloc i !! y = Some e ∧ has_prefix X (e_key e) = true.

Lemma cnt_same_members i i' X : (∀ y, pheld i X y ↔ pheld i' X y) → cnt i' X = cnt i X.
Proof.
  intros H. rewrite !cnt_fst. apply Permutation_length, NoDup_Permutation; [apply by_prefix_nodup..|].
  intros y. rewrite !in_fst_by_prefix. symmetry. apply H.
Qed.

Lemma cnt_minus_one i i' X x : pheld i X x → ¬ pheld i' X x → (∀ y, y ≠ x → pheld i X y ↔ pheld i' X y) →
  cnt i X = S (cnt i' X).
Proof.
  intros Hx Hnx H. rewrite !cnt_fst.
  change (S (List.length (map fst (by_prefix i' X)))) with (List.length (x :: map fst (by_prefix i' X))).
  apply Permutation_length, NoDup_Permutation; [apply by_prefix_nodup| |].
  - constructor; [by rewrite in_fst_by_prefix|apply by_prefix_nodup].
  - intros y. rewrite elem_of_cons, !in_fst_by_prefix. fold (pheld i X y) (pheld i' X y).
    destruct (decide (y = x)) as [->|Hne]; [naive_solver|]. rewrite (H y Hne). naive_solver.
Qed.

Lemma dp_workload_key q : pd_kind q = KDp →
  (Keys.ko_ns (keyobj_of q), Keys.ko_app (keyobj_of q)) = (pd_ns q, pd_app q).
Proof. intros Hk. unfold keyobj_of, Keys.new_key_obj, app_of. cbn [Keys.ko_ns Keys.ko_app]. by rewrite Hk. Qed.

(** a handled event: workloads untouched, the event leaves the queue, and the tables change only at entries of the pod's
    key - freed, or parked under the app's prefix (no premise on the stored UIDs: an ignored event changes nothing) *)
Lemma handled_event_effect w n q o oun fl w' :
  WInv w → w_queue w !! n = Some q → pstep w (PEvent n o oun fl) = (w', ROk) →
  WInv w' ∧ w_dps w' = w_dps w ∧ w_queue w' = take n (w_queue w) ++ drop (S n) (w_queue w) ∧
  rchg (pod_key q) (Keys.pool_prefix (keyobj_of q)) (w_ipam w) (w_ipam w').
Proof.
  intros HW Hq Hstep. split.
  { pose proof (winv_event w n o oun fl HW) as H. by rewrite Hstep in H. }
  cbn [pstep] in Hstep. rewrite Hq in Hstep.
  destruct (unbind_section true w q o oun fl) as [w2 r2] eqn:Eu.
  destruct r2; [|done..]. injection Hstep as <-. cbn [set_queue w_ipam w_dps w_queue].
  destruct (unbind_section_cases w q o oun fl) as [[_ Hu]|(_ & w1 & Henv & Hi1 & [(r & Hr & Hu)|Hu])].
  - rewrite Eu in Hu. injection Hu as ->. split_and!; [done|done|apply rchg_refl].
  - rewrite Eu in Hu. by simplify_eq.
  - rewrite Eu in Hu. pose proof (wi_ipam w HW) as Hinv. rewrite <- Hi1 in Hinv.
    destruct (unbind_any_frame w1 (keyobj_of q) (policy_of q) o fl Hinv) as (Henv2 & _ & Hc).
    rewrite <- Hu in Henv2, Hc. cbn [fst] in Henv2, Hc. rewrite Hi1 in Hc.
    destruct Henv as (_ & _ & Hq1 & _ & Hd1 & _). destruct Henv2 as (_ & _ & Hq2 & _ & Hd2 & _).
    split_and!; [congruence|congruence|done].
Qed.

(** one event of a pod whose key holds exactly one IP: the count under the app's prefix drops by one when the app holds
    more IPs than the deployment has replicas, and stays otherwise (the IP is parked under the prefix itself) *)
Lemma immutable_event_count w n q o oun fl w' x1 e1 :
  WInv w → w_queue w !! n = Some q → pd_kind q = KDp → policy_of q = 1 → f_store fl = None →
  i_alloc (w_ipam w) !! x1 = Some e1 → e_key e1 = pod_key q → e_uid e1 = pd_uid q →
  (∀ y e, i_alloc (w_ipam w) !! y = Some e → e_key e = pod_key q → y = x1) →
  default 0 (w_dps w !! (pd_ns q, pd_app q)) ≠ 0 →
  pstep w (PEvent n o oun fl) = (w', ROk) →
  cnt (w_ipam w') (Keys.pool_prefix (keyobj_of q)) =
    if default 0 (w_dps w !! (pd_ns q, pd_app q)) <? N.of_nat (cnt (w_ipam w) (Keys.pool_prefix (keyobj_of q)))
    then (cnt (w_ipam w) (Keys.pool_prefix (keyobj_of q)) - 1)%nat else cnt (w_ipam w) (Keys.pool_prefix (keyobj_of q)).
Proof.
  intros HW Hq Hk Hpol Hfs He1 Hk1 Hu1 Huniq Hr Hstep. set (P := Keys.pool_prefix (keyobj_of q)).
  assert (wf_pod q) as Wq.
  { pose proof (wi_queue w HW) as HQ. rewrite Forall_forall in HQ. apply (HQ q). by eapply elem_of_list_lookup_2. }
  assert (∀ x e, i_alloc (w_ipam w) !! x = Some e → e_key e = pod_key q → e_uid e = [] ∨ e_uid e = pd_uid q) as Huid.
  { intros x e He Hke. rewrite (Huniq x e He Hke) in He. right. congruence. }
  destruct (handled_event_effect _ _ _ _ _ _ _ HW Hq Hstep) as (_ & _ & _ & Hc).
  assert (∀ y, y ≠ x1 → i_alloc (w_ipam w') !! y = i_alloc (w_ipam w) !! y) as Hother.
  { intros y Hne. destruct (Hc y) as [?|(e & He & Hke & _)]; [done|]. destruct Hne. by eapply Huniq. }
  assert (pheld (w_ipam w) P x1) as Hp1.
  { exists e1. split; [done|]. rewrite Hk1. by apply pod_key_has_pool_prefix. }
  rewrite <- (dp_workload_key q Hk) in Hr |- *.
  destruct (N.ltb_spec (default 0 (w_dps w !! (Keys.ko_ns (keyobj_of q), Keys.ko_app (keyobj_of q))))
                       (N.of_nat (cnt (w_ipam w) P))) as [Hlt|Hge].
  - pose proof (immutable_dp_over_replicas_releases_l _ _ _ _ _ _ _ HW Hq Hk Hpol Hfs Huid Hlt Hstep x1 e1 He1 Hk1) as Hgone.
    rewrite (cnt_minus_one (w_ipam w) (w_ipam w') P x1 Hp1); [lia| |].
    + intros (e & He & _). congruence.
    + intros y Hne. unfold pheld. by rewrite (Hother y Hne).
  - destruct (immutable_dp_within_replicas_reserves_l w n q o oun fl w' HW Hq Hk Hpol Hfs Huid Hr) as [Hpark _]; [unfold cnt, P in Hge; lia|exact Hstep|].
    destruct (Hpark x1 e1 He1 Hk1) as (e' & He' & Hk' & _).
    apply (cnt_same_members (w_ipam w) (w_ipam w') P). intros y. destruct (decide (y = x1)) as [->|Hne].
    + split; intros _; [|done]. exists e'. split; [done|]. rewrite Hk'. apply has_prefix_refl.
    + unfold pheld. by rewrite (Hother y Hne).
Qed.

Lemma same_app_prefix q1 q2 : pd_kind q1 = KDp → pd_kind q2 = KDp → pd_pool q1 = [] → pd_pool q2 = [] →
  pd_ns q2 = pd_ns q1 → pd_app q2 = pd_app q1 → Keys.pool_prefix (keyobj_of q2) = Keys.pool_prefix (keyobj_of q1).
Proof.
  intros Hk1 Hk2 Hp1 Hp2 Hns Happ. unfold Keys.pool_prefix, keyobj_of, Keys.new_key_obj, app_of.
  cbn [Keys.ko_pool Keys.ko_type Keys.ko_ns Keys.ko_app]. by rewrite Hp1, Hp2, Hk1, Hk2, Hns, Happ.
Qed.

(** the two events: the first and the second queued event, each taken from the head of the queue (positions 0 and 0) *)
Lemma two_events_release_the_surplus_l w q1 q2 o1 oun1 fl1 o2 oun2 fl2 w1 w2 x1 e1 x2 e2 :
  WInv w → w_queue w !! 0%nat = Some q1 → w_queue w !! 1%nat = Some q2 →
  pd_kind q1 = KDp → pd_kind q2 = KDp → policy_of q1 = 1 → policy_of q2 = 1 →
  pd_ns q2 = pd_ns q1 → pd_app q2 = pd_app q1 → pd_name q2 ≠ pd_name q1 →
  f_store fl1 = None → f_store fl2 = None →
  i_alloc (w_ipam w) !! x1 = Some e1 → e_key e1 = pod_key q1 → e_uid e1 = pd_uid q1 →
  (∀ y e, i_alloc (w_ipam w) !! y = Some e → e_key e = pod_key q1 → y = x1) →
  i_alloc (w_ipam w) !! x2 = Some e2 → e_key e2 = pod_key q2 → e_uid e2 = pd_uid q2 →
  (∀ y e, i_alloc (w_ipam w) !! y = Some e → e_key e = pod_key q2 → y = x2) →
  default 0 (w_dps w !! (pd_ns q1, pd_app q1)) ≠ 0 →
  pstep w (PEvent 0 o1 oun1 fl1) = (w1, ROk) → pstep w1 (PEvent 0 o2 oun2 fl2) = (w2, ROk) →
  let prefix := Keys.pool_prefix (keyobj_of q1) in
  let n0 := List.length (by_prefix (w_ipam w) prefix) in
  let r := N.to_nat (default 0 (w_dps w !! (pd_ns q1, pd_app q1))) in
  List.length (by_prefix (w_ipam w2) prefix) = (n0 - min 2 (n0 - r))%nat.
Proof.
  intros HW Hq1 Hq2 Hk1 Hk2 Hpol1 Hpol2 Hns Happ Hname Hf1 Hf2 He1 Hke1 Hu1 Huniq1 He2 Hke2 Hu2 Huniq2 Hr Hs1 Hs2.
  assert (wf_pod q1 ∧ wf_pod q2) as [Wq1 Wq2].
  { pose proof (wi_queue w HW) as HQ. rewrite Forall_forall in HQ.
    split; [apply (HQ q1)|apply (HQ q2)]; by eapply elem_of_list_lookup_2. }
  assert (pod_key q2 ≠ pod_key q1) as Hkne.
  { intros E. apply (pod_key_inj _ _ Wq2 Wq1) in E. unfold pk in E. congruence. }
  pose proof (same_app_prefix q1 q2 Hk1 Hk2 (policy1_no_pool _ Hpol1) (policy1_no_pool _ Hpol2) Hns Happ) as HP.
  destruct (handled_event_effect _ _ _ _ _ _ _ HW Hq1 Hs1) as (HW1 & Hd1 & Hqu1 & Hc1).
  assert (w_queue w1 !! 0%nat = Some q2) as Hq2'.
  { rewrite Hqu1. change (take 0 (w_queue w)) with (@nil pod). by rewrite app_nil_l, lookup_drop. }
  assert (i_alloc (w_ipam w1) !! x2 = Some e2) as He2'.
  { destruct (Hc1 x2) as [->|(e & He & Hke & _)]; [done|]. congruence. }
  assert (∀ y e, i_alloc (w_ipam w1) !! y = Some e → e_key e = pod_key q2 → y = x2) as Huniq2'.
  { intros y e He Hke. destruct (Hc1 y) as [E|(e0 & He0 & Hke0 & [Hn|(e' & He' & [Hcl|Hcl])])].
    - rewrite E in He. by eapply Huniq2.
    - congruence.
    - destruct Hcl as [Hcl _]. congruence.
    - destruct Hcl as [Hcl _]. rewrite He in He'. injection He' as <-. rewrite Hke in Hcl.
      by destruct (pool_prefix_not_pod_key (keyobj_of q1) q2 Wq2). }
  pose proof (immutable_event_count _ _ _ _ _ _ _ _ _ HW Hq1 Hk1 Hpol1 Hf1 He1 Hke1 Hu1 Huniq1 Hr Hs1) as Hc01.
  assert (default 0 (w_dps w1 !! (pd_ns q2, pd_app q2)) = default 0 (w_dps w !! (pd_ns q1, pd_app q1))) as Hr2
    by (by rewrite Hd1, Hns, Happ).
  pose proof (immutable_event_count w1 0%nat q2 o2 oun2 fl2 w2 x2 e2 HW1 Hq2' Hk2 Hpol2 Hf2 He2' Hke2 Hu2 Huniq2') as Hc12.
  rewrite Hr2, HP in Hc12. specialize (Hc12 Hr Hs2). unfold cnt in Hc01, Hc12. cbv zeta.
  rewrite Hc12, Hc01. clear Hc12 Hc01.
  set (n0 := List.length (by_prefix (w_ipam w) (Keys.pool_prefix (keyobj_of q1)))).
  set (r := default 0 (w_dps w !! (pd_ns q1, pd_app q1))) in *.
  destruct (N.ltb_spec r (N.of_nat n0)) as [H1|H1].
  - destruct (N.ltb_spec r (N.of_nat (n0 - 1))) as [H2|H2]; lia.
  - destruct (N.ltb_spec r (N.of_nat n0)) as [H2|H2]; lia.
Qed.

(** ** concrete worlds for the two events: [c03_w_dp repl] of Proofs/PluginReplicasP.v, continued with the deletion of the
    second pod app-5c-x2 (the informer delivers it): the events of app-5c-x1 (10.100.0.2) and app-5c-x2 (10.100.0.3) are
    queued, in this order; the app holds 2 IPs *)
Definition c03_h_dp2 (repl : N) : list pop := c03_h_dp repl ++ [PEnv (EPodDelete c03_dk2); PEnv (EInformer c03_dk2)].
Definition c03_w_dp2 (repl : N) : world := prun (world0 false c03_nodes) (c03_h_dp2 repl).

Lemma uniq_check_sound i key x :
  forallb (λ kv : N * entry, negb (str_eqb (e_key kv.2) key) || (kv.1 =? x)) (map_to_list (i_alloc i)) = true →
  ∀ y e, i_alloc i !! y = Some e → e_key e = key → y = x.
Proof.
  intros H y e He Hk. rewrite forallb_forall in H. apply elem_of_map_to_list, elem_of_list_In in He.
  specialize (H _ He). cbn [fst snd] in H. rewrite Hk, str_eqb_refl in H. cbn [negb orb] in H. by apply N.eqb_eq.
Qed.

(** [repl] = 1: the first event frees 10.100.0.2 (2 IPs > 1 replica), the second parks 10.100.0.3 (1 IP, 1 replica):
    2 - min 2 (2 - 1) = 1 IP stays.  [repl] = 2: both are parked, 2 - min 2 (2 - 2) = 2 IPs stay *)
Lemma c03_two_events_example_l :
  let q1 := c03_dpod in let q2 := c03_dpod2 in
  let ev1 := PEvent 0 (c03_orc None None [c03_ip]) [] no_faults in
  let ev2 := PEvent 0 (c03_orc None None [c03_ip + 1]) [] no_faults in
  let prefix := Keys.pool_prefix (keyobj_of q1) in
  ∀ repl, repl = 1 ∨ repl = 2 →
  let w := c03_w_dp2 repl in
  WInv w ∧ w_queue w !! 0%nat = Some q1 ∧ w_queue w !! 1%nat = Some q2 ∧
  pd_kind q1 = KDp ∧ pd_kind q2 = KDp ∧ policy_of q1 = 1 ∧ policy_of q2 = 1 ∧
  pd_ns q2 = pd_ns q1 ∧ pd_app q2 = pd_app q1 ∧ pd_name q2 ≠ pd_name q1 ∧
  (∃ e1, i_alloc (w_ipam w) !! c03_ip = Some e1 ∧ e_key e1 = pod_key q1 ∧ e_uid e1 = pd_uid q1) ∧
  (∀ y e, i_alloc (w_ipam w) !! y = Some e → e_key e = pod_key q1 → y = c03_ip) ∧
  (∃ e2, i_alloc (w_ipam w) !! (c03_ip + 1) = Some e2 ∧ e_key e2 = pod_key q2 ∧ e_uid e2 = pd_uid q2) ∧
  (∀ y e, i_alloc (w_ipam w) !! y = Some e → e_key e = pod_key q2 → y = c03_ip + 1) ∧
  default 0 (w_dps w !! (pd_ns q1, pd_app q1)) = repl ∧
  List.length (by_prefix (w_ipam w) prefix) = 2%nat ∧
  (pstep w ev1).2 = ROk ∧ (pstep (pstep w ev1).1 ev2).2 = ROk ∧
  List.length (by_prefix (w_ipam (pstep (pstep w ev1).1 ev2).1) prefix) = (if repl =? 1 then 1%nat else 2%nat).
Proof.
  intros q1 q2 ev1 ev2 prefix repl Hrepl.
  destruct Hrepl as [-> | ->]; cbv zeta.
  - split; [apply (winv_reachable false c03_nodes (c03_h_dp2 1)), c03_wf_hist_b_sound; vm_compute; reflexivity|].
    split; [vm_compute; reflexivity|]. split; [vm_compute; reflexivity|].
    split; [reflexivity|]. split; [reflexivity|]. split; [reflexivity|]. split; [reflexivity|].
    split; [reflexivity|]. split; [reflexivity|]. split; [vm_compute; discriminate|].
    split; [eexists; split; [vm_compute; reflexivity|split; vm_compute; reflexivity]|].
    split; [apply uniq_check_sound; vm_compute; reflexivity|].
    split; [eexists; split; [vm_compute; reflexivity|split; vm_compute; reflexivity]|].
    split; [apply uniq_check_sound; vm_compute; reflexivity|].
    split_and!; vm_compute; reflexivity.
  - split; [apply (winv_reachable false c03_nodes (c03_h_dp2 2)), c03_wf_hist_b_sound; vm_compute; reflexivity|].
    split; [vm_compute; reflexivity|]. split; [vm_compute; reflexivity|].
    split; [reflexivity|]. split; [reflexivity|]. split; [reflexivity|]. split; [reflexivity|].
    split; [reflexivity|]. split; [reflexivity|]. split; [vm_compute; discriminate|].
    split; [eexists; split; [vm_compute; reflexivity|split; vm_compute; reflexivity]|].
    split; [apply uniq_check_sound; vm_compute; reflexivity|].
    split; [eexists; split; [vm_compute; reflexivity|split; vm_compute; reflexivity]|].
    split; [apply uniq_check_sound; vm_compute; reflexivity|].
    split_and!; vm_compute; reflexivity.
Qed.

(** ** concrete worlds for the restart / reload *)

(** [ex_sticky_world] (Proofs/PluginStickyP.v): 10.100.0.3 is reserved under the key of web-0; restarted, or reloaded, with
    the configuration it runs with, the entry is there as it was *)
Lemma ex_restart_keeps_l :
  let w := ex_sticky_world in let x := ip4 10 100 0 3 in
  ∃ ps e, WInv w ∧ decode_pools ex_conf2 = Some ps ∧ i_alloc (w_ipam w) !! x = Some e ∧ e_key e = pod_key wit_pod ∧
          configured (sort_pools ps) x = true ∧
          pstep w (PRestart ex_conf2) = ((pstep w (PRestart ex_conf2)).1, ROk) ∧
          i_alloc (w_ipam (pstep w (PRestart ex_conf2)).1) !! x = Some e ∧
          pstep w (PIpam (OConfigure ex_conf2 false [])) = ((pstep w (PIpam (OConfigure ex_conf2 false []))).1, ROk) ∧
          i_alloc (w_ipam (pstep w (PIpam (OConfigure ex_conf2 false []))).1) !! x = Some e.
Proof.
  eexists _, _. split_and!.
  - apply winv_simple; [apply ipam_take_inv2, ipam_init_inv2|apply wit_pod_wf|done].
  - vm_compute. reflexivity.
  - vm_compute. reflexivity.
  - vm_compute. reflexivity.
  - vm_compute. reflexivity.
  - apply injective_projections; [reflexivity|vm_compute; reflexivity].
  - vm_compute. reflexivity.
  - apply injective_projections; [reflexivity|vm_compute; reflexivity].
  - vm_compute. reflexivity.
Qed.

(** "unchanged" cannot include the time stamp under [WInv] alone: [WInv] relates memory and store up to [proj] (key, policy,
    node, uid, reserved label).  An administrator's reservation of 10.100.0.3 is created in the store at clock t and enters
    memory when its event is delivered, at clock t + 1: both tables agree in the sense of the invariant, and the rebuilt
    table carries the store's time stamp - the entry of before is NOT there literally *)
Definition resv_ipam : ipam :=
  run (ipam_init ex_conf2) [OAdminReserve (ip4 10 100 0 3) (pod_key wit_pod) 2; OWatch (ip4 10 100 0 3)].
Definition resv_world : world := simple_world resv_ipam wit_pod ex_nodes ∅ ∅.

Lemma resv_ipam_inv2 : Inv2 resv_ipam.
Proof.
  split_and!.
  - apply run_inv. destruct (ipam_init_inv2 ex_conf2) as [H _]. exact H.
  - apply leibniz_equiv, elements_empty_inv. vm_compute. reflexivity.
  - assert (forallb (λ kv : N * entry, configured (i_pools resv_ipam) kv.1) (map_to_list (i_store resv_ipam)) = true) as HF
      by (vm_compute; reflexivity).
    intros y [o Ho]. rewrite forallb_forall in HF. apply elem_of_map_to_list, elem_of_list_In in Ho. apply (HF _ Ho).
Qed.

Lemma restart_keeps_exact_entry_refuted_l :
  let w := resv_world in let x := ip4 10 100 0 3 in
  ∃ ps e e', WInv w ∧ decode_pools ex_conf2 = Some ps ∧ i_alloc (w_ipam w) !! x = Some e ∧
             configured (sort_pools ps) x = true ∧ e' ≠ e ∧ proj e' = proj e ∧
             i_alloc (w_ipam (pstep w (PRestart ex_conf2)).1) !! x = Some e' ∧
             i_alloc (w_ipam (pstep w (PIpam (OConfigure ex_conf2 false []))).1) !! x = Some e'.
Proof.
  eexists _, _, _. split_and!.
  - apply winv_simple; [apply resv_ipam_inv2|apply wit_pod_wf|done].
  - vm_compute. reflexivity.
  - vm_compute. reflexivity.
  - vm_compute. reflexivity.
  - shelve.
  - shelve.
  - vm_compute. reflexivity.
  - vm_compute. reflexivity.
  Unshelve.
  + vm_compute. discriminate.
  + vm_compute. reflexivity.
Qed.

(** closed under the global context *)
Print Assumptions resync_passes_by_keys_without_a_pod_l.
Print Assumptions ex_resync_skips_us_pool_l.
Print Assumptions restart_keeps_configured_allocations_l.
Print Assumptions reload_keeps_configured_allocations_l.
Print Assumptions ex_restart_keeps_l.
Print Assumptions restart_keeps_exact_entry_refuted_l.
Print Assumptions held_slot_is_first_in_walk_order_l.
Print Assumptions by_key_ranges_deterministic_l.
Print Assumptions held_slot_single_range_l.
Print Assumptions ex_held_slot_first_l.
Print Assumptions two_events_release_the_surplus_l.
Print Assumptions c03_two_events_example_l.
