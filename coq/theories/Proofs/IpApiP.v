(** Proofs about Model/IpApi.v: a release request (POST) with several entries - what it can remove
    (exactness) and that the order of the entries does not matter for entries that denote the
    current key of their IP. *)
From Coq Require Import List Ascii String NArith Bool Lia Permutation.
From Galaxy.Base Require Import Strs.
From Galaxy.Model Require Import Keys IpApi.
From Galaxy.Proofs Require Import KeysP.
Import ListNotations.

Definition str_dec : forall a b : str, {a = b} + {a <> b} := list_eq_dec ascii_dec.

Lemma str_eqb_sym a b : str_eqb a b = str_eqb b a.
Proof. destruct (str_eqb_spec a b), (str_eqb_spec b a); congruence. Qed.

(** ---- lists ---- *)
Lemma filter_all {A} (l : list A) : filter (fun _ => true) l = l.
Proof. induction l as [|a l IH]; simpl; [reflexivity|]. rewrite IH. reflexivity. Qed.

Lemma filter_filter_and {A} (p q : A -> bool) (l : list A) :
  filter p (filter q l) = filter (fun a => q a && p a) l.
Proof.
  induction l as [|a l IH]; simpl; [reflexivity|].
  destruct (q a); simpl; [destruct (p a)|]; rewrite IH; reflexivity.
Qed.

Lemma nodup_map_filter {A B} (f : A -> B) (p : A -> bool) (l : list A) :
  NoDup (map f l) -> NoDup (map f (filter p l)).
Proof.
  induction l as [|a l IH]; simpl; intros Hnd; [constructor|].
  inversion Hnd as [|? ? Hni Hnd']; subst.
  destruct (p a); simpl; [|auto]. constructor; [|auto].
  intros Hin. apply Hni. apply in_map_iff in Hin. destruct Hin as [b [Hb Hin]].
  apply filter_In in Hin. apply in_map_iff. exists b. tauto.
Qed.

Lemma existsb_perm {A} (f : A -> bool) (l l' : list A) : Permutation l l' -> existsb f l = existsb f l'.
Proof.
  induction 1 as [|x l l' _ IH|x y l|l l' l'' _ IH1 _ IH2]; simpl.
  - reflexivity.
  - rewrite IH. reflexivity.
  - destruct (f x), (f y); reflexivity.
  - congruence.
Qed.

(** ---- lookup_ip ---- *)
Lemma lookup_ip_in s ip k : lookup_ip s ip = Some k -> In (ip, k) s.
Proof.
  induction s as [|[i c] r IH]; simpl; [discriminate|].
  destruct (str_eqb_spec i ip) as [->|_]; intros H.
  - injection H as ->. left; reflexivity.
  - right; auto.
Qed.

(** with pairwise distinct IP texts, [lookup_ip] characterises membership *)
Lemma in_lookup_ip s ip k : NoDup (map fst s) -> In (ip, k) s -> lookup_ip s ip = Some k.
Proof.
  induction s as [|[i c] r IH]; simpl; intros Hnd Hin; [contradiction|].
  inversion Hnd as [|? ? Hni Hnd']; subst.
  destruct Hin as [Heq|Hin].
  - injection Heq as -> ->. rewrite str_eqb_refl. reflexivity.
  - destruct (str_eqb_spec i ip) as [->|_]; [|auto].
    exfalso. apply Hni. apply (in_map fst) in Hin. exact Hin.
Qed.

Lemma lookup_ip_iff s ip k : NoDup (map fst s) -> (In (ip, k) s <-> lookup_ip s ip = Some k).
Proof. intros Hnd. split; [apply in_lookup_ip; exact Hnd|apply lookup_ip_in]. Qed.

Lemma lookup_ip_none_in s ip a : lookup_ip s ip = None -> In a s -> str_eqb ip (fst a) = false.
Proof.
  induction s as [|[i c] r IH]; simpl; intros Hl Hin; [contradiction|].
  destruct (str_eqb_spec i ip) as [->|Hne]; [discriminate|].
  destruct Hin as [<-|Hin]; [|auto]. simpl. apply str_eqb_neq. congruence.
Qed.

Lemma lookup_ip_drop_same s ip : lookup_ip (filter (fun a => negb (str_eqb (fst a) ip)) s) ip = None.
Proof.
  induction s as [|[i c] r IH]; simpl; [reflexivity|].
  destruct (str_eqb i ip) eqn:E; simpl; [exact IH|]. rewrite E. exact IH.
Qed.

Lemma lookup_ip_drop_other s ip ip' :
  ip' <> ip -> lookup_ip (filter (fun a => negb (str_eqb (fst a) ip)) s) ip' = lookup_ip s ip'.
Proof.
  intros Hne. induction s as [|[i c] r IH]; simpl; [reflexivity|].
  destruct (str_eqb_spec i ip) as [->|_]; simpl.
  - rewrite (str_eqb_neq ip ip') by congruence. exact IH.
  - rewrite IH. reflexivity.
Qed.

(** ---- one entry ---- *)
Lemma post_entry_incl fl s pods ip e a : In a (snd (post_entry fl s pods ip e)) -> In a s.
Proof.
  unfold post_entry; simpl. destruct (api_release _ _ _ _); auto.
  intros H. apply filter_In in H. tauto.
Qed.

Lemma post_entry_nodup fl s pods ip e :
  NoDup (map fst s) -> NoDup (map fst (snd (post_entry fl s pods ip e))).
Proof.
  intros Hnd. unfold post_entry; simpl. destruct (api_release _ _ _ _); auto.
  apply nodup_map_filter. exact Hnd.
Qed.

(** an element survives one entry, or it is the posted IP under the key the entry denotes *)
Lemma post_entry_exact fl s pods ip0 e0 ip key :
  NoDup (map fst s) -> In (ip, key) s ->
  In (ip, key) (snd (post_entry fl s pods ip0 e0)) \/ (ip = ip0 /\ key = release_key fl e0).
Proof.
  intros Hnd Hin. unfold post_entry; simpl.
  destruct (api_release fl e0 (lookup_ip s ip0) (pod_listed pods e0)) eqn:E; auto.
  destruct (str_eqb_spec ip ip0) as [->|Hne].
  - right. split; [reflexivity|]. apply release_exact_l in E.
    rewrite (in_lookup_ip _ _ _ Hnd Hin) in E. congruence.
  - left. apply filter_In. split; [exact Hin|]. simpl. rewrite (str_eqb_neq _ _ Hne). reflexivity.
Qed.

Lemma post_entry_released fl s pods ip e :
  releasable e (pod_listed pods e) = true -> lookup_ip s ip = Some (release_key fl e) ->
  post_entry fl s pods ip e = (RReleased, filter (fun a => negb (str_eqb (fst a) ip)) s).
Proof.
  intros Hr Hl. unfold post_entry, api_release. rewrite Hr, Hl. simpl. rewrite str_eqb_refl. reflexivity.
Qed.

Lemma post_entry_noop fl s pods ip e :
  releasable e (pod_listed pods e) = true -> lookup_ip s ip = None -> is_empty (release_key fl e) = false ->
  post_entry fl s pods ip e = (RNoop, s).
Proof.
  intros Hr Hl He. unfold post_entry, api_release. rewrite Hr, Hl. simpl. rewrite He. reflexivity.
Qed.

(** ---- several entries ---- *)
Lemma post_entries_nil fl s pods : post_entries fl s pods [] = (false, s).
Proof. reflexivity. Qed.

(** the fold from an arbitrary accumulator *)
Lemma post_entries_acc fl pods es : forall u s,
  fold_left (fun acc e => let '(o, s') := post_entry fl (snd acc) pods (fst e) (snd e) in
                          (fst acc || rel_reported_unreleased o, s')) es (u, s)
  = (u || fst (post_entries fl s pods es), snd (post_entries fl s pods es)).
Proof.
  unfold post_entries. induction es as [|a es IH]; intros u s; cbn [fold_left fst snd].
  - rewrite orb_false_r. reflexivity.
  - destruct (post_entry fl s pods (fst a) (snd a)) as [o s1].
    rewrite (IH (u || rel_reported_unreleased o) s1), (IH (false || rel_reported_unreleased o) s1).
    cbn [fst snd]. rewrite orb_false_l, orb_assoc. reflexivity.
Qed.

Lemma post_entries_cons fl s pods ip e r :
  post_entries fl s pods ((ip, e) :: r) =
  (rel_reported_unreleased (fst (post_entry fl s pods ip e)) || fst (post_entries fl (snd (post_entry fl s pods ip e)) pods r),
   snd (post_entries fl (snd (post_entry fl s pods ip e)) pods r)).
Proof.
  unfold post_entries at 1. cbn [fold_left fst snd].
  destruct (post_entry fl s pods ip e) as [o s1]. rewrite post_entries_acc. reflexivity.
Qed.

Lemma post_entries_app_fs fl s pods es1 es2 :
  post_entries fl s pods (es1 ++ es2) =
  (fst (post_entries fl s pods es1) || fst (post_entries fl (snd (post_entries fl s pods es1)) pods es2),
   snd (post_entries fl (snd (post_entries fl s pods es1)) pods es2)).
Proof.
  unfold post_entries at 1. rewrite fold_left_app.
  change (fold_left _ es1 (false, s)) with (post_entries fl s pods es1).
  destruct (post_entries fl s pods es1) as [u1 s1]. apply post_entries_acc.
Qed.

(** a request is the same as its two halves posted one after the other *)
Theorem post_entries_app fl s pods es1 es2 :
  post_entries fl s pods (es1 ++ es2) =
  let '(u1, s1) := post_entries fl s pods es1 in
  let '(u2, s2) := post_entries fl s1 pods es2 in (u1 || u2, s2).
Proof.
  rewrite post_entries_app_fs. destruct (post_entries fl s pods es1) as [u1 s1]. cbn [fst snd].
  destruct (post_entries fl s1 pods es2) as [u2 s2]. reflexivity.
Qed.

(** release exactness for a request with several entries: nothing is added or re-keyed, only posted IPs
    disappear, each only when its key is the key SOME entry posted with that IP denotes *)
Theorem post_entries_exact_l fl s pods es :
  (forall a, In a (snd (post_entries fl s pods es)) -> In a s) /\
  (NoDup (map fst s) ->
   forall ip key, In (ip, key) s -> ~ In (ip, key) (snd (post_entries fl s pods es)) ->
                  exists e, In (ip, e) es /\ key = release_key fl e).
Proof.
  revert s. induction es as [|[ip0 e0] r IH]; intros s.
  - rewrite post_entries_nil. cbn [snd]. split; [auto|]. intros _ ip key Hin Hn. contradiction.
  - rewrite post_entries_cons. cbn [snd].
    destruct (IH (snd (post_entry fl s pods ip0 e0))) as [IHa IHb]. split.
    + intros a Ha. eapply post_entry_incl, IHa, Ha.
    + intros Hnd ip key Hin Hn.
      destruct (post_entry_exact fl s pods ip0 e0 ip key Hnd Hin) as [H1|[-> ->]].
      * destruct (IHb (post_entry_nodup fl s pods ip0 e0 Hnd) ip key H1 Hn) as [e [He Hk]].
        exists e. split; [right; exact He|exact Hk].
      * exists e0. split; [left; reflexivity|reflexivity].
Qed.

(** the IP texts stay pairwise distinct *)
Lemma post_entries_nodup fl s pods es :
  NoDup (map fst s) -> NoDup (map fst (snd (post_entries fl s pods es))).
Proof.
  revert s. induction es as [|[ip0 e0] r IH]; intros s Hnd; [exact Hnd|].
  rewrite post_entries_cons. cbn [snd]. apply IH, post_entry_nodup, Hnd.
Qed.

(** General form of the round trip (the induction needs it): every entry is releasable and either denotes
    the current key of its IP, or its IP is not allocated and the key it denotes is not empty.  An IP whose
    key is the EMPTY key may be posted once only: posted again it is not allocated any more, and an
    unallocated IP posted with the empty key is an error (RFail, reported). *)
Lemma post_entries_release_gen fl pods es : forall s,
  (forall ip e, In (ip, e) es ->
     releasable e (pod_listed pods e) = true /\
     ((lookup_ip s ip = Some (release_key fl e) /\
       (is_empty (release_key fl e) = true -> (count_occ str_dec (map fst es) ip <= 1)%nat)) \/
      (lookup_ip s ip = None /\ is_empty (release_key fl e) = false))) ->
  post_entries fl s pods es = (false, filter (fun a => negb (existsb (fun e => str_eqb (fst e) (fst a)) es)) s).
Proof.
  induction es as [|[ip e] r IH]; intros s H.
  - rewrite post_entries_nil. cbn [existsb negb]. rewrite filter_all. reflexivity.
  - rewrite post_entries_cons. destruct (H ip e (or_introl eq_refl)) as [Hrel [[Hl _]|[Hl Hne]]].
    + (* released *)
      rewrite (post_entry_released fl s pods ip e Hrel Hl). cbn [fst snd rel_reported_unreleased]. rewrite IH.
      * cbn [fst snd orb]. f_equal. rewrite filter_filter_and. apply filter_ext. intros a.
        cbn [existsb fst]. rewrite negb_orb, (str_eqb_sym ip (fst a)). reflexivity.
      * intros ip' e' Hin'. destruct (H ip' e' (or_intror Hin')) as [Hrel' Hc']. split; [exact Hrel'|].
        destruct (str_dec ip' ip) as [->|Hd].
        -- right. split; [apply lookup_ip_drop_same|].
           destruct Hc' as [[_ Hcnt]|[Hl' _]]; [|congruence].
           destruct (is_empty (release_key fl e')) eqn:Ee; [|reflexivity]. exfalso.
           specialize (Hcnt eq_refl). cbn [map fst] in Hcnt.
           rewrite count_occ_cons_eq in Hcnt by reflexivity.
           assert (Hpos : (count_occ str_dec (map fst r) ip > 0)%nat).
           { apply count_occ_In. apply (in_map fst) in Hin'. exact Hin'. }
           lia.
        -- rewrite (lookup_ip_drop_other s ip ip' Hd).
           destruct Hc' as [[Hl' Hcnt]|Hc']; [left|right; exact Hc']. split; [exact Hl'|].
           intros Ee. specialize (Hcnt Ee). cbn [map fst] in Hcnt.
           rewrite count_occ_cons_neq in Hcnt by congruence. exact Hcnt.
    + (* not allocated (any more), non-empty key: nothing happens *)
      rewrite (post_entry_noop fl s pods ip e Hrel Hl Hne). cbn [fst snd rel_reported_unreleased]. rewrite IH.
      * cbn [fst snd orb]. f_equal. apply filter_ext_in. intros a Ha.
        cbn [existsb fst]. rewrite (lookup_ip_none_in s ip a Hl Ha). reflexivity.
      * intros ip' e' Hin'. destruct (H ip' e' (or_intror Hin')) as [Hrel' Hc']. split; [exact Hrel'|].
        destruct Hc' as [[Hl' Hcnt]|Hc']; [left|right; exact Hc']. split; [exact Hl'|].
        intros Ee. specialize (Hcnt Ee). cbn [map fst] in Hcnt.
        destruct (str_dec ip ip') as [->|Hd].
        -- rewrite count_occ_cons_eq in Hcnt by reflexivity. lia.
        -- rewrite count_occ_cons_neq in Hcnt by exact Hd. exact Hcnt.
Qed.

(** list/release round trip for a request with several entries, in ANY order: when every entry denotes
    the current key of its IP and its pod is not running, nothing is reported unreleased and exactly the
    posted IPs are gone.  Duplicates are allowed, except for an IP whose key is the empty key (see above).
    [NoDup (map fst s)] is not needed. *)
Theorem post_entries_roundtrip_l fl s pods es :
  (forall ip e, In (ip, e) es ->
     lookup_ip s ip = Some (release_key fl e) /\ releasable e (pod_listed pods e) = true) ->
  (forall ip e, In (ip, e) es -> is_empty (release_key fl e) = true -> (count_occ str_dec (map fst es) ip <= 1)%nat) ->
  post_entries fl s pods es = (false, filter (fun a => negb (existsb (fun e => str_eqb (fst e) (fst a)) es)) s).
Proof.
  intros Hk Hd. apply post_entries_release_gen. intros ip e Hin.
  destruct (Hk ip e Hin) as [Hl Hr]. split; [exact Hr|]. left. split; [exact Hl|]. apply (Hd ip e Hin).
Qed.

(** the two simple sufficient conditions for the hypothesis on duplicates *)
Corollary post_entries_roundtrip_distinct fl s pods es :
  (forall ip e, In (ip, e) es ->
     lookup_ip s ip = Some (release_key fl e) /\ releasable e (pod_listed pods e) = true) ->
  NoDup (map fst es) ->
  post_entries fl s pods es = (false, filter (fun a => negb (existsb (fun e => str_eqb (fst e) (fst a)) es)) s).
Proof.
  intros Hk Hnd. apply post_entries_roundtrip_l; [exact Hk|]. intros ip e _ _.
  apply (proj1 (NoDup_count_occ str_dec (map fst es)) Hnd).
Qed.

Corollary post_entries_roundtrip_nonempty fl s pods es :
  (forall ip e, In (ip, e) es ->
     lookup_ip s ip = Some (release_key fl e) /\ releasable e (pod_listed pods e) = true) ->
  (forall ip e, In (ip, e) es -> is_empty (release_key fl e) = false) ->
  post_entries fl s pods es = (false, filter (fun a => negb (existsb (fun e => str_eqb (fst e) (fst a)) es)) s).
Proof.
  intros Hk Hne. apply post_entries_roundtrip_l; [exact Hk|]. intros ip e Hin He.
  rewrite (Hne ip e Hin) in He. discriminate.
Qed.

(** order independence: any rearrangement of such a request has the same answer and the same effect *)
Theorem post_entries_perm_l fl s pods es es' :
  (forall ip e, In (ip, e) es ->
     lookup_ip s ip = Some (release_key fl e) /\ releasable e (pod_listed pods e) = true) ->
  (forall ip e, In (ip, e) es -> is_empty (release_key fl e) = true -> (count_occ str_dec (map fst es) ip <= 1)%nat) ->
  Permutation es es' ->
  post_entries fl s pods es' = post_entries fl s pods es.
Proof.
  intros Hk Hd Hp.
  rewrite (post_entries_roundtrip_l fl s pods es Hk Hd).
  rewrite (post_entries_roundtrip_l fl s pods es').
  - f_equal. apply filter_ext. intros a. rewrite (existsb_perm _ _ _ Hp). reflexivity.
  - intros ip e Hin. apply Hk. apply (Permutation_in _ (Permutation_sym Hp) Hin).
  - intros ip e Hin He.
    rewrite <- (proj1 (Permutation_count_occ str_dec _ _) (Permutation_map fst Hp) ip).
    apply (Hd ip e); [apply (Permutation_in _ (Permutation_sym Hp) Hin)|exact He].
Qed.

(** round trip and order independence in one statement *)
Theorem post_entries_roundtrip_any_order_l fl s pods es :
  (forall ip e, In (ip, e) es ->
     lookup_ip s ip = Some (release_key fl e) /\ releasable e (pod_listed pods e) = true) ->
  (forall ip e, In (ip, e) es -> is_empty (release_key fl e) = true -> (count_occ str_dec (map fst es) ip <= 1)%nat) ->
  forall es', Permutation es es' ->
  post_entries fl s pods es' = (false, filter (fun a => negb (existsb (fun e => str_eqb (fst e) (fst a)) es)) s).
Proof.
  intros Hk Hd es' Hp. rewrite (post_entries_perm_l fl s pods es es' Hk Hd Hp).
  apply post_entries_roundtrip_l; assumption.
Qed.

(** ---- non-vacuity: three app types in one request, the statefulset entry without appType in the middle ---- *)
Open Scope string_scope.
Definition ex_state : ipstate :=
  [(L "10.0.0.1", L "dp_ns1_api_api-7f9c-x1"); (L "10.0.0.2", L "sts_ns1_web_web-0");
   (L "10.0.0.3", L "NULL_ns1_NULL_bare-0"); (L "10.0.0.4", L "sts_ns1_web_web-1")].
Definition ex_pods : list (str * str) := [(L "ns1", L "web-1")].
Definition ex_entries : list (str * entry) :=
  [(L "10.0.0.1", convert (L "dp_ns1_api_api-7f9c-x1"));
   (L "10.0.0.2", blank_type (convert (L "sts_ns1_web_web-0")));
   (L "10.0.0.3", convert (L "NULL_ns1_NULL_bare-0"))].

Example post_entries_example :
  (* the owner-less key is the one FormatKey produces *)
  option_map ko_key (format_key {| pd_name := L "bare-0"; pd_ns := L "ns1"; pd_owners := []; pd_pool := [] |})
    = Some (L "NULL_ns1_NULL_bare-0") /\
  (* the hypotheses of the round trip hold *)
  NoDup (map fst ex_state) /\ NoDup (map fst ex_entries) /\
  Forall (fun x => lookup_ip ex_state (fst x) = Some (release_key cur_kflags (snd x)) /\
                   releasable (snd x) (pod_listed ex_pods (snd x)) = true /\
                   is_empty (release_key cur_kflags (snd x)) = false) ex_entries /\
  e_type (snd (nth 1 ex_entries (L "", convert []))) = [] /\
  (* all three are released, nothing is reported, the fourth IP stays *)
  post_entries cur_kflags ex_state ex_pods ex_entries = (false, [(L "10.0.0.4", L "sts_ns1_web_web-1")]) /\
  post_entries cur_kflags ex_state ex_pods (rev ex_entries) = (false, [(L "10.0.0.4", L "sts_ns1_web_web-1")]).
Proof.
  assert (Hnin : forall (x : str) l, existsb (str_eqb x) l = false -> ~ In x l).
  { intros x l H Hin. assert (existsb (str_eqb x) l = true); [|congruence].
    apply existsb_exists. exists x. split; [exact Hin|apply str_eqb_refl]. }
  split; [vm_compute; reflexivity|].
  split; [repeat (constructor; [apply Hnin; vm_compute; reflexivity|]); constructor|].
  split; [repeat (constructor; [apply Hnin; vm_compute; reflexivity|]); constructor|].
  split; [repeat (constructor; [vm_compute; repeat split; reflexivity|]); constructor|].
  repeat split; vm_compute; reflexivity.
Qed.
