(** C14 - lemmas about Model/PortMap.v (port-mapping procedures over the strict NAT table, port space). *)
From Coq Require Import List Ascii String NArith Bool Lia Permutation.
From Galaxy.Base Require Import Strs.
From Galaxy.Model Require Import Netfilter PortMap.
From Galaxy.Proofs Require Import NetfilterP.
Import ListNotations.
Open Scope N_scope.

(** ---- predicates used by the C14 theorem statements *)

(** a chain name that is new to the table: not a chain, not jumped to, and a KUBE-HP- name *)
Definition fresh_chain (t : table) (c : str) : Prop :=
  tlookup c t = None /\ referenced c t = false /\ has_prefix hp_prefix c = true.

(** the port's protocol is not the one word that would turn the jump rule's "-m <proto> --dport N"
    into an ipset match (the model reads the token after --match-set as a set name; the Kubernetes
    API only allows TCP / UDP / SCTP) *)
Definition proto_plain (p : port) : Prop := lower (p_proto p) <> L "--match-set".

Section Sync.
Variable cname : port -> str.

(** what SetupPortMappingForAllPods may assume: the table is a finite map containing the built-in
    chains it hooks, the ports' chain names are distinct KUBE-HP- names, and no chain that is not
    galaxy's jumps into a KUBE-HP- chain other than those of the ports *)
Definition sync_pre (ps : list port) (t : table) : Prop :=
  NoDup (map fst t) /\ NoDup (map cname ps) /\
  (forall p, In p ps -> has_prefix hp_prefix (cname p) = true) /\
  (forall p, In p ps -> proto_plain p) /\
  has_chain (L "OUTPUT") t = true /\ has_chain (L "PREROUTING") t = true /\
  (forall c rs r, tlookup c t = Some rs -> foreign_chain c = true -> In r rs ->
     has_prefix hp_prefix (r_target r) = true -> In (r_target r) (map cname ps)).

(** what it guarantees *)
Definition sync_post (ps : list port) (t t' : table) : Prop :=
  (forall p, In p ps -> tlookup (cname p) t' = Some [masq_rule p; dnat_rule p]) /\
  tlookup hostports t' = Some (map (jump_rule cname) ps) /\
  tlookup markmasq t' = Some [mark_rule] /\
  (forall c, has_prefix hp_prefix c = true -> ~ In c (map cname ps) -> tlookup c t' = None) /\
  (forall c, foreign_chain c = true -> tlookup c t' = tlookup c (fst (ensure_basic t))).
End Sync.

(** the protocols OpenHostports accepts are plain *)
Lemma known_proto_plain p : known_proto (lower (p_proto p)) = true -> proto_plain p.
Proof.
  unfold proto_plain. intros H E. rewrite E in H. vm_compute in H. discriminate.
Qed.

(** ================================================================== the node's port space *)
Definition hport_eq_dec : forall a b : hport, {a = b} + {a <> b}.
Proof.
  intros [a1 a2] [b1 b2].
  destruct (list_eq_dec ascii_dec a1 b1) as [E1|E1]; destruct (N.eq_dec a2 b2) as [E2|E2];
    [left|right|right|right]; congruence.
Defined.

Lemma hport_eqb_eq a b : hport_eqb a b = true <-> a = b.
Proof.
  destruct a as [a1 a2]. destruct b as [b1 b2]. unfold hport_eqb. simpl.
  rewrite andb_true_iff, str_eqb_eq, N.eqb_eq. split.
  - intros [H1 H2]. subst. reflexivity.
  - intros E. inversion E. split; reflexivity.
Qed.

Lemma hmem_In x l : hmem x l = true <-> In x l.
Proof.
  unfold hmem. rewrite existsb_exists. split.
  - intros [y [Hin Hy]]. apply hport_eqb_eq in Hy. subst. exact Hin.
  - intros Hin. exists x. split; [exact Hin|]. apply hport_eqb_eq. reflexivity.
Qed.

Lemma hmem_false x l : hmem x l = false <-> ~ In x l.
Proof. rewrite <- hmem_In. destruct (hmem x l); split; intros H; congruence. Qed.

Notation cnt := (count_occ hport_eq_dec).

Lemma cnt_filter_le (f : hport -> bool) l x : (cnt (filter f l) x <= cnt l x)%nat.
Proof.
  induction l as [|a l IH]; simpl; [lia|].
  destruct (f a); simpl; destruct (hport_eq_dec a x); lia.
Qed.

Lemma cnt_held_remove_le pod h x :
  (cnt (flat_map snd (held_remove pod h)) x <= cnt (flat_map snd h) x)%nat.
Proof.
  induction h as [|[n l] h IH]; simpl; [lia|].
  destruct (str_eqb pod n); simpl; rewrite ?count_occ_app; lia.
Qed.

Definition held_or_nil (pod : str) (h : list (str * list hport)) : list hport :=
  match held_lookup pod h with Some l => l | None => [] end.

Lemma cnt_held_split pod h x :
  (cnt (held_or_nil pod h) x + cnt (flat_map snd (held_remove pod h)) x <= cnt (flat_map snd h) x)%nat.
Proof.
  unfold held_or_nil. induction h as [|[n l] h IH]; simpl; [lia|].
  destruct (str_eqb pod n); simpl; rewrite ?count_occ_app.
  - pose proof (cnt_held_remove_le pod h x) as H. lia.
  - lia.
Qed.

Lemma NoDup_snoc {A} (l : list A) x : NoDup l -> ~ In x l -> NoDup (l ++ [x]).
Proof.
  intros Hnd Hx. apply (Permutation_NoDup (Permutation_cons_append l x)).
  constructor; assumption.
Qed.

(** the sockets a successful OpenHostports loop opened are distinct and were free before *)
Lemma open_loop_inv random ps : forall oracle busy got out got' out',
  NoDup got -> (forall x, In x got -> ~ In x busy) ->
  open_loop random ps oracle busy got out = OpenOk got' out' ->
  NoDup got' /\ (forall x, In x got' -> ~ In x busy).
Proof.
  induction ps as [|p ps IH]; intros oracle busy got out got' out' Hnd Hfree Hrun.
  - simpl in Hrun. inversion Hrun. subst. split; assumption.
  - simpl in Hrun.
    destruct ((p_host p =? 0) && negb random) eqn:E1.
    { eapply IH; eassumption. }
    destruct (negb (known_proto (lower (p_proto p)))) eqn:E2; [discriminate|].
    assert (forall y, hmem y (busy ++ got) = false ->
              NoDup (got ++ [y]) /\ (forall x, In x (got ++ [y]) -> ~ In x busy)) as Hstep.
    { intros y Hy. apply hmem_false in Hy. split.
      - apply NoDup_snoc; [exact Hnd|]. intros H. apply Hy. apply in_or_app. right. exact H.
      - intros x Hx. apply in_app_or in Hx. destruct Hx as [Hx|[Hx|[]]].
        + apply Hfree. exact Hx.
        + subst x. intros H. apply Hy. apply in_or_app. left. exact H. }
    destruct (p_host p =? 0) eqn:E3.
    + destruct oracle as [|o os]; [discriminate|].
      destruct ((o =? 0) || hmem (lower (p_proto p), o) (busy ++ got)) eqn:E4; [discriminate|].
      apply orb_false_iff in E4. destruct E4 as [_ E4].
      destruct (Hstep _ E4) as [H1 H2]. eapply IH; eassumption.
    + destruct (hmem (lower (p_proto p), p_host p) (busy ++ got)) eqn:E4; [discriminate|].
      destruct (Hstep _ E4) as [H1 H2]. eapply IH; eassumption.
Qed.

Lemma open_hostports_cases pod random ps oracle st :
  fst (open_hostports pod random ps oracle st) = st \/
  exists got out, open_loop random ps oracle (bound st) [] [] = OpenOk got out /\
    fst (open_hostports pod random ps oracle st) =
    mkPS (ps_foreign st) ((pod, got) :: held_remove pod (ps_held st))
         (ps_leaked st ++ held_or_nil pod (ps_held st)).
Proof.
  unfold open_hostports. destruct (open_loop random ps oracle (bound st) [] []) as [got out| |] eqn:E.
  - destruct got as [|g got0].
    + left. reflexivity.
    + right. exists (g :: got0), out. split; reflexivity.
  - left. reflexivity.
  - left. reflexivity.
Qed.

Lemma pstep_nodup st o : NoDup (bound st) -> NoDup (bound (pstep st o)).
Proof.
  intros Hnd. destruct o as [pod random ps oracle|pod|x|x]; simpl.
  - destruct (open_hostports_cases pod random ps oracle st) as [E|[got [out [Hrun E]]]];
      rewrite E; [exact Hnd|].
    destruct (open_loop_inv random ps oracle (bound st) [] [] got out (NoDup_nil _)
                (fun x (H : In x []) => False_ind _ H) Hrun) as [Hg Hfree].
    apply (NoDup_count_occ hport_eq_dec). intros x.
    pose proof (proj1 (NoDup_count_occ hport_eq_dec _) Hnd x) as Hb.
    pose proof (proj1 (NoDup_count_occ hport_eq_dec _) Hg x) as Hgx.
    pose proof (cnt_held_split pod (ps_held st) x) as Hs.
    assert (In x got -> cnt (bound st) x = 0%nat) as Hz.
    { intros Hin. apply count_occ_not_In. apply Hfree. exact Hin. }
    assert (~ In x got -> cnt got x = 0%nat) as Hz'.
    { intros Hin. apply count_occ_not_In. exact Hin. }
    unfold bound, held_ports in *. simpl. rewrite !count_occ_app in *.
    destruct (in_dec hport_eq_dec x got) as [Hin|Hin]; [specialize (Hz Hin)|specialize (Hz' Hin)]; lia.
  - apply (NoDup_count_occ hport_eq_dec). intros x.
    pose proof (proj1 (NoDup_count_occ hport_eq_dec _) Hnd x) as Hb.
    pose proof (cnt_held_remove_le pod (ps_held st) x) as Hs.
    unfold bound, held_ports in *. simpl. rewrite !count_occ_app in *. lia.
  - unfold foreign_bind. destruct (hmem x (bound st)) eqn:E; [exact Hnd|].
    apply hmem_false in E. unfold bound in *. simpl. constructor; assumption.
  - apply (NoDup_count_occ hport_eq_dec). intros y.
    pose proof (proj1 (NoDup_count_occ hport_eq_dec _) Hnd y) as Hb.
    pose proof (cnt_filter_le (fun z => negb (hport_eqb x z)) (ps_foreign st) y) as Hs.
    unfold bound, held_ports in *. simpl. rewrite !count_occ_app in *. lia.
Qed.

Lemma ports_distinct_l : forall (st : pstate) (ops : list pop),
  NoDup (bound st) -> NoDup (bound (prun st ops)).
Proof.
  intros st ops. revert st. unfold prun. induction ops as [|o ops IH]; intros st Hnd; simpl.
  - exact Hnd.
  - apply IH. apply pstep_nodup. exact Hnd.
Qed.

Lemma held_lookup_incl pod h l : held_lookup pod h = Some l -> incl l (flat_map snd h).
Proof.
  induction h as [|[n x] h IH]; simpl; intros H; [discriminate|].
  destruct (str_eqb pod n).
  - inversion H. subst. intros y Hy. apply in_or_app. left. exact Hy.
  - intros y Hy. apply in_or_app. right. apply (IH H). exact Hy.
Qed.

Lemma held_lookup_remove_other pod p h :
  pod <> p -> held_lookup pod (held_remove p h) = held_lookup pod h.
Proof.
  intros Hne. induction h as [|[n x] h IH]; simpl; [reflexivity|].
  destruct (str_eqb_spec p n) as [E|E].
  - subst n. apply str_eqb_neq in Hne. rewrite Hne. exact IH.
  - simpl. rewrite IH. reflexivity.
Qed.

Lemma incl_bound_held st l : incl l (held_ports st) -> incl l (bound st).
Proof.
  intros H y Hy. unfold bound. apply in_or_app. right. apply in_or_app. right. apply H. exact Hy.
Qed.

Lemma ports_held_l : forall (st : pstate) (o : pop) (pod : str) (l : list hport),
  held_lookup pod (ps_held st) = Some l -> o <> PClose pod ->
  incl l (bound (pstep st o)) /\
  (match o with POpen p _ _ _ => p <> pod | _ => True end -> held_lookup pod (ps_held (pstep st o)) = Some l).
Proof.
  intros st o pod l Hl Ho.
  assert (incl l (bound st)) as Hst.
  { apply incl_bound_held. unfold held_ports. apply (held_lookup_incl pod). exact Hl. }
  destruct o as [p random ps oracle|p|x|x]; simpl.
  - destruct (open_hostports_cases p random ps oracle st) as [E|[got [out [Hrun E]]]]; rewrite E.
    + split; [exact Hst|intros _; exact Hl].
    + destruct (str_eqb_spec p pod) as [Ep|Ep].
      * subst p. split; [|intros H; congruence].
        intros y Hy. unfold bound. simpl. apply in_or_app. right. apply in_or_app. left.
        apply in_or_app. right. unfold held_or_nil. rewrite Hl. exact Hy.
      * assert (held_lookup pod ((p, got) :: held_remove p (ps_held st)) = Some l) as Hl'.
        { simpl. assert (str_eqb pod p = false) as E' by (apply str_eqb_neq; congruence).
          rewrite E'. rewrite held_lookup_remove_other by congruence. exact Hl. }
        split; [|intros _; exact Hl'].
        apply incl_bound_held. unfold held_ports. simpl ps_held. apply (held_lookup_incl pod). exact Hl'.
  - assert (pod <> p) as Hne by (intros E; subst p; apply Ho; reflexivity).
    assert (held_lookup pod (held_remove p (ps_held st)) = Some l) as Hl'.
    { rewrite held_lookup_remove_other by exact Hne. exact Hl. }
    split; [|intros _; exact Hl'].
    apply incl_bound_held. unfold held_ports. simpl. apply (held_lookup_incl pod). exact Hl'.
  - unfold foreign_bind. destruct (hmem x (bound st)).
    + split; [exact Hst|intros _; exact Hl].
    + split; [|intros _; exact Hl].
      apply incl_bound_held. unfold held_ports. simpl. apply (held_lookup_incl pod). exact Hl.
  - split; [|intros _; exact Hl].
    apply incl_bound_held. unfold held_ports. simpl. apply (held_lookup_incl pod). exact Hl.
Qed.

Lemma failed_open_l : forall (st : pstate) pod random ps oracle,
  snd (open_hostports pod random ps oracle st) = OpenErr -> fst (open_hostports pod random ps oracle st) = st.
Proof.
  intros st pod random ps oracle. unfold open_hostports.
  destruct (open_loop random ps oracle (bound st) [] []) as [got out| |].
  - destruct got as [|g got0]; simpl; [reflexivity|discriminate].
  - reflexivity.
  - reflexivity.
Qed.

(** ================================================================== chain names *)
Lemma hp_not_builtin c : has_prefix hp_prefix c = true -> is_builtin c = false.
Proof.
  intros H. destruct (is_builtin c) eqn:E; [|reflexivity].
  unfold is_builtin in E. apply mem_In in E. unfold builtin_chains in E. simpl in E.
  repeat (destruct E as [E|E]; [subst c; vm_compute in H; discriminate|]). contradiction.
Qed.

Lemma hp_neq c d : has_prefix hp_prefix c = true -> has_prefix hp_prefix d = false -> c <> d.
Proof. intros H1 H2 E. subst. congruence. Qed.

Lemma hostports_no_prefix : has_prefix hp_prefix hostports = false.
Proof. vm_compute. reflexivity. Qed.
Lemma markmasq_no_prefix : has_prefix hp_prefix markmasq = false.
Proof. vm_compute. reflexivity. Qed.
Lemma hostports_not_builtin : is_builtin hostports = false.
Proof. vm_compute. reflexivity. Qed.
Lemma markmasq_not_builtin : is_builtin markmasq = false.
Proof. vm_compute. reflexivity. Qed.
Lemma hostports_ne_markmasq : hostports <> markmasq.
Proof. intros E. vm_compute in E. discriminate. Qed.

Lemma hp_ne_hostports c : has_prefix hp_prefix c = true -> c <> hostports.
Proof. intros H. apply hp_neq; [exact H|exact hostports_no_prefix]. Qed.
Lemma hp_ne_markmasq c : has_prefix hp_prefix c = true -> c <> markmasq.
Proof. intros H. apply hp_neq; [exact H|exact markmasq_no_prefix]. Qed.

Lemma foreign_chain_iff c :
  foreign_chain c = true <-> has_prefix hp_prefix c = false /\ c <> hostports /\ c <> markmasq.
Proof.
  unfold foreign_chain. rewrite !andb_true_iff, !negb_true_iff, !str_eqb_neq. tauto.
Qed.

(** the rules galaxy writes name no ipset *)
Lemma dash_m_not_match_set : str_eqb (L "-m") (L "--match-set") = false.
Proof. vm_compute. reflexivity. Qed.
Lemma dport_not_match_set : str_eqb (L "--dport") (L "--match-set") = false.
Proof. vm_compute. reflexivity. Qed.

Lemma rule_sets_mark : rule_sets mark_rule = [].
Proof. reflexivity. Qed.
Lemma rule_sets_portal : rule_sets portal_rule = [].
Proof. vm_compute. reflexivity. Qed.
Lemma rule_sets_masq p : rule_sets (masq_rule p) = [].
Proof. reflexivity. Qed.
Lemma rule_sets_dnat p : rule_sets (dnat_rule p) = [].
Proof.
  unfold rule_sets, dnat_rule. cbn [r_match]. rewrite rule_sets_of_cons2, dash_m_not_match_set. reflexivity.
Qed.

Lemma mark_rule_no_hp c : has_prefix hp_prefix c = true -> chain_refs c [mark_rule] = false.
Proof.
  intros H. apply chain_refs_false. intros r [E|[]]. subst r. intros E. subst c. vm_compute in H. discriminate.
Qed.
Lemma portal_rule_no_hp c : has_prefix hp_prefix c = true -> r_target portal_rule <> c.
Proof. intros H E. subst c. vm_compute in H. discriminate. Qed.
Lemma masq_rule_no_hp p c : has_prefix hp_prefix c = true -> r_target (masq_rule p) <> c.
Proof. intros H E. subst c. vm_compute in H. discriminate. Qed.
Lemma dnat_rule_no_hp p c : has_prefix hp_prefix c = true -> r_target (dnat_rule p) <> c.
Proof. intros H E. subst c. vm_compute in H. discriminate. Qed.

(** ================================================================== removing rules one by one *)
Definition rule_eq_dec (a b : rule) : {a = b} + {a <> b}.
Proof.
  destruct (rule_eqb a b) eqn:E.
  - left. apply rule_eqb_eq. exact E.
  - right. intros H. apply rule_eqb_eq in H. congruence.
Defined.
Notation rcount := (count_occ rule_eq_dec).

(** DeleteRule for each rule of [J] in turn, seen on the chain's rule list *)
Fixpoint rmfold (J rs : list rule) : list rule :=
  match J with
  | [] => rs
  | r :: J' => rmfold J' (remove_first r rs)
  end.
Definition notin (J : list rule) (x : rule) : bool := negb (rule_in x J).

Lemma in_firstn {A} k (l : list A) x : In x (firstn k l) -> In x l.
Proof. intros H. rewrite <- (firstn_skipn k l). apply in_or_app. left. exact H. Qed.

Lemma NoDup_firstn {A} k (l : list A) : NoDup l -> NoDup (firstn k l).
Proof.
  revert k. induction l as [|a l IH]; intros k H; destruct k as [|k]; simpl; try constructor.
  - inversion H as [|? ? Ha Hl]. subst. intros Hin. apply Ha. exact (in_firstn k l a Hin).
  - inversion H as [|? ? Ha Hl]. subst. apply IH. exact Hl.
Qed.

Lemma rcount_firstn_le k (l : list rule) x : (rcount (firstn k l) x <= rcount l x)%nat.
Proof. rewrite <- (firstn_skipn k l) at 2. rewrite count_occ_app. lia. Qed.

Lemma rcount_remove_first r x rs :
  rcount (remove_first r rs) x = if rule_eq_dec r x then Nat.pred (rcount rs x) else rcount rs x.
Proof.
  induction rs as [|y rs IH].
  - simpl. destruct (rule_eq_dec r x); reflexivity.
  - cbn [remove_first]. destruct (rule_eqb r y) eqn:E.
    + apply rule_eqb_eq in E. subst y. destruct (rule_eq_dec r x) as [E1|E1].
      * rewrite (count_occ_cons_eq rule_eq_dec rs E1). reflexivity.
      * rewrite (count_occ_cons_neq rule_eq_dec rs E1). reflexivity.
    + destruct (rule_eq_dec y x) as [E2|E2].
      * rewrite !(count_occ_cons_eq rule_eq_dec _ E2), IH.
        destruct (rule_eq_dec r x) as [E1|E1]; [|reflexivity].
        exfalso. subst. rewrite rule_eqb_refl in E. discriminate.
      * rewrite !(count_occ_cons_neq rule_eq_dec _ E2), IH. reflexivity.
Qed.

Lemma rcount_rmfold J : forall rs x, rcount (rmfold J rs) x = (rcount rs x - rcount J x)%nat.
Proof.
  induction J as [|r J IH]; intros rs x; cbn [rmfold].
  - simpl. lia.
  - rewrite IH, rcount_remove_first. destruct (rule_eq_dec r x) as [E|E].
    + rewrite (count_occ_cons_eq rule_eq_dec J E). lia.
    + rewrite (count_occ_cons_neq rule_eq_dec J E). reflexivity.
Qed.

Lemma rmfold_nil J : rmfold J [] = [].
Proof. induction J as [|r J IH]; [reflexivity|exact IH]. Qed.

Lemma filter_remove_first J r rs :
  rule_in r J = true -> filter (notin J) (remove_first r rs) = filter (notin J) rs.
Proof.
  intros H. induction rs as [|y rs IH]; [reflexivity|].
  cbn [remove_first]. destruct (rule_eqb r y) eqn:E.
  - apply rule_eqb_eq in E. subst y. cbn [filter]. unfold notin at 2. rewrite H. reflexivity.
  - cbn [filter]. rewrite IH. reflexivity.
Qed.

Lemma filter_rmfold J0 J : forall rs,
  (forall r, In r J -> In r J0) -> filter (notin J0) (rmfold J rs) = filter (notin J0) rs.
Proof.
  induction J as [|r J IH]; intros rs H; [reflexivity|].
  cbn [rmfold]. rewrite IH by (intros r' Hr'; apply H; right; exact Hr').
  apply filter_remove_first. apply rule_in_In. apply H. left. reflexivity.
Qed.

Lemma filter_notin_id J l : (forall r, In r J -> ~ In r l) -> filter (notin J) l = l.
Proof.
  induction l as [|y l IH]; intros H; [reflexivity|].
  cbn [filter]. assert (notin J y = true) as E.
  { unfold notin. destruct (rule_in y J) eqn:Ey; [|reflexivity].
    apply rule_in_In in Ey. exfalso. apply (H y Ey). left. reflexivity. }
  rewrite E. f_equal. apply IH. intros r Hr Hin. apply (H r Hr). right. exact Hin.
Qed.

Lemma filter_notin_none J l : (forall r, In r l -> In r J) -> filter (notin J) l = [].
Proof.
  induction l as [|y l IH]; intros H; [reflexivity|].
  cbn [filter]. assert (notin J y = false) as E.
  { unfold notin. assert (rule_in y J = true) as Ey by (apply rule_in_In; apply H; left; reflexivity).
    rewrite Ey. reflexivity. }
  rewrite E. apply IH. intros r Hr. apply H. right. exact Hr.
Qed.

(** when no rule of [J] occurs more often than [J] names it, deleting them one by one leaves exactly
    the other rules, in order *)
Lemma rmfold_exact J X :
  (forall r, In r J -> (rcount X r <= rcount J r)%nat) -> rmfold J X = filter (notin J) X.
Proof.
  intros H. transitivity (filter (notin J) (rmfold J X)).
  - symmetry. apply filter_notin_id. intros r Hr. apply (count_occ_not_In rule_eq_dec).
    rewrite rcount_rmfold. specialize (H r Hr). lia.
  - apply filter_rmfold. intros r Hr. exact Hr.
Qed.

(** deleting some of the rules first and then all of them ends in the same list, provided the full
    loop leaves none of them *)
Lemma rmfold_resume J J' rs :
  (forall r, In r J' -> In r J) -> (forall r, In r J -> ~ In r (rmfold J rs)) ->
  rmfold J (rmfold J' rs) = rmfold J rs.
Proof.
  intros Hsub Hnone.
  assert (forall r, In r J -> (rcount rs r <= rcount J r)%nat) as Hc.
  { intros r Hr. pose proof (Hnone r Hr) as H. apply (count_occ_not_In rule_eq_dec) in H.
    rewrite rcount_rmfold in H. lia. }
  rewrite (rmfold_exact J rs Hc). rewrite rmfold_exact.
  - apply filter_rmfold. exact Hsub.
  - intros r Hr. rewrite rcount_rmfold. specialize (Hc r Hr). lia.
Qed.

(** ------------------------------------------------------------------ table facts *)
Lemma tset_same_id c rs t : tlookup c t = Some rs -> tset c rs t = t.
Proof.
  induction t as [|[n x] t IH]; simpl; intros H; [discriminate|].
  destruct (str_eqb c n) eqn:E.
  - inversion H. reflexivity.
  - rewrite IH by exact H. reflexivity.
Qed.

Lemma tset_tset c a b t : tset c b (tset c a t) = tset c b t.
Proof.
  induction t as [|[n x] t IH]; simpl.
  - rewrite str_eqb_refl. reflexivity.
  - destruct (str_eqb c n) eqn:E; simpl; rewrite E; [reflexivity|]. rewrite IH. reflexivity.
Qed.

Lemma rule_ok_tset_chain sets c rs0 rs t r :
  tlookup c t = Some rs0 -> rule_ok sets (tset c rs t) r = rule_ok sets t r.
Proof.
  intros H. apply rule_ok_ext. rewrite has_chain_tset.
  destruct (str_eqb_spec (r_target r) c) as [E|E]; [|reflexivity].
  rewrite E. rewrite (has_chain_some _ _ _ H). reflexivity.
Qed.

(** DeleteRule: an error when the rule cannot be checked (its target chain is missing); otherwise the
    first copy of the rule, if any, is taken out of the chain, if there is one *)
Lemma delete_rule_cases sets c r t :
  delete_rule sets c r t =
  if rule_ok sets t r then
    match tlookup c t with
    | Some rs => (tset c (remove_first r rs) t, true)
    | None => (t, true)
    end
  else (t, false).
Proof.
  unfold delete_rule. destruct (rule_ok sets t r); [|reflexivity]. cbn [negb].
  destruct (tlookup c t) as [rs|] eqn:E; [|reflexivity].
  destruct (rule_in r rs) eqn:Ei; [reflexivity|].
  rewrite remove_first_absent by exact Ei. rewrite tset_same_id by exact E. reflexivity.
Qed.

(** ================================================================== the NAT table procedures *)
Section Tables.
Variable cname : port -> str.

Lemma rule_sets_jump p : proto_plain p -> rule_sets (jump_rule cname p) = [].
Proof.
  unfold proto_plain. intros H. apply str_eqb_neq in H.
  unfold rule_sets, jump_rule. cbn [r_match].
  rewrite rule_sets_of_cons2, dash_m_not_match_set.
  rewrite rule_sets_of_cons2, H.
  rewrite rule_sets_of_cons2, dport_not_match_set. reflexivity.
Qed.

(** the batches as segments of chain lines, appends and deletes *)
Definition pod_aps (p : port) : list (str * rule) :=
  [(cname p, masq_rule p); (cname p, dnat_rule p)].
Definition all_aps (p : port) : list (str * rule) :=
  (hostports, jump_rule cname p) :: pod_aps p.

Lemma pod_lines_aps ps : flat_map (pod_chain_lines cname) ps = LAppends (flat_map pod_aps ps).
Proof.
  induction ps as [|p ps IH]; [reflexivity|].
  cbn [flat_map]. rewrite LAppends_app, IH. reflexivity.
Qed.

Lemma all_lines_aps ps : flat_map (setup_all_lines cname) ps = LAppends (flat_map all_aps ps).
Proof.
  induction ps as [|p ps IH]; [reflexivity|].
  cbn [flat_map]. rewrite LAppends_app, IH. reflexivity.
Qed.

Lemma setup_batch_eq ps :
  setup_batch cname ps =
  map LChain (markmasq :: map cname ps) ++ LAppends ((markmasq, mark_rule) :: flat_map pod_aps ps).
Proof.
  unfold setup_batch. rewrite pod_lines_aps. cbn [map]. rewrite map_map. reflexivity.
Qed.

Lemma clean_batch_eq ps :
  clean_batch cname ps = map LChain (map cname ps) ++ map LDelete (map cname ps).
Proof. unfold clean_batch. rewrite !map_map. reflexivity. Qed.

Lemma setup_all_batch_eq ps stale :
  setup_all_batch cname ps stale =
  map LChain (markmasq :: hostports :: map cname ps ++ stale) ++
  (LAppends ((markmasq, mark_rule) :: flat_map all_aps ps) ++ map LDelete stale).
Proof.
  unfold setup_all_batch. rewrite all_lines_aps. cbn [map]. rewrite map_app, map_map.
  cbn [app]. rewrite <- app_assoc. reflexivity.
Qed.

(** which rules each chain receives *)
Lemma pod_aps_for_other x ps : ~ In x (map cname ps) -> appends_for x (flat_map pod_aps ps) = [].
Proof.
  intros H. apply appends_for_none. intros c r Hin E. apply in_flat_map in Hin.
  destruct Hin as [p [Hp Hin]]. apply H. unfold pod_aps in Hin.
  destruct Hin as [E1|[E1|[]]]; inversion E1; subst; apply in_map; exact Hp.
Qed.

Lemma pod_aps_for_self p : appends_for (cname p) (pod_aps p) = [masq_rule p; dnat_rule p].
Proof. unfold pod_aps. rewrite !appends_for_cons, !str_eqb_refl. reflexivity. Qed.

Lemma pod_aps_for_neq x p : cname p <> x -> appends_for x (pod_aps p) = [].
Proof.
  intros H. apply str_eqb_neq in H. unfold pod_aps. rewrite !appends_for_cons, !H. reflexivity.
Qed.

Lemma pod_aps_for_name ps p : NoDup (map cname ps) -> In p ps ->
  appends_for (cname p) (flat_map pod_aps ps) = [masq_rule p; dnat_rule p].
Proof.
  induction ps as [|q ps IH]; intros Hnd Hin; [contradiction|].
  cbn [map] in Hnd. inversion Hnd as [|? ? Hq Hnd']. subst.
  cbn [flat_map]. rewrite appends_for_app. destruct Hin as [E|Hin].
  - subst q. rewrite pod_aps_for_self, pod_aps_for_other by exact Hq. reflexivity.
  - assert (cname q <> cname p) as Hne.
    { intros E. apply Hq. rewrite E. apply in_map. exact Hin. }
    rewrite pod_aps_for_neq by exact Hne. rewrite IH by assumption. reflexivity.
Qed.

Lemma all_aps_for_nonhost x ps :
  x <> hostports -> appends_for x (flat_map all_aps ps) = appends_for x (flat_map pod_aps ps).
Proof.
  intros H. assert (str_eqb hostports x = false) as E by (apply str_eqb_neq; congruence).
  induction ps as [|q ps IH]; [reflexivity|].
  cbn [flat_map]. rewrite !appends_for_app, IH. f_equal.
  unfold all_aps. rewrite appends_for_cons, E. reflexivity.
Qed.

Lemma all_aps_for_hostports ps :
  (forall q, In q ps -> cname q <> hostports) ->
  appends_for hostports (flat_map all_aps ps) = map (jump_rule cname) ps.
Proof.
  induction ps as [|q ps IH]; intros H; [reflexivity|].
  cbn [flat_map map]. rewrite appends_for_app. rewrite IH.
  - unfold all_aps. rewrite appends_for_cons, str_eqb_refl.
    rewrite pod_aps_for_neq; [reflexivity|]. apply H. left. reflexivity.
  - intros q' Hq'. apply H. right. exact Hq'.
Qed.

(** the EnsureRule / DeleteRule loops over the jumps from KUBE-HOSTPORTS *)
Definition jumps_pre (ps : list port) (t : table) (rs : list rule) : Prop :=
  forall p, In p ps ->
    has_chain (cname p) t = true /\ is_builtin (cname p) = false /\
    rule_sets (jump_rule cname p) = [] /\ chain_refs (cname p) rs = false.

Lemma jump_rule_ok p t :
  has_chain (cname p) t = true -> is_builtin (cname p) = false -> rule_sets (jump_rule cname p) = [] ->
  rule_ok [] t (jump_rule cname p) = true.
Proof. intros H1 H2 H3. apply rule_ok_chain; assumption. Qed.

Lemma ensure_jumps_ok : forall ps t rs,
  NoDup (map cname ps) -> tlookup hostports t = Some rs -> jumps_pre ps t rs ->
  exists t', ensure_jumps cname ps t = (t', true) /\
    (forall x, tlookup x t' =
       if str_eqb x hostports then Some (rs ++ map (jump_rule cname) ps) else tlookup x t) /\
    tpres t t'.
Proof.
  induction ps as [|p ps IH]; intros t rs Hnd Hl Hpre.
  - exists t. split; [reflexivity|]. split; [|apply tpres_refl].
    intros x. destruct (str_eqb_spec x hostports) as [E|E]; [|reflexivity].
    subst x. cbn [map]. rewrite app_nil_r. exact Hl.
  - cbn [map] in Hnd. inversion Hnd as [|? ? Hp Hnd']. subst.
    destruct (Hpre p (or_introl eq_refl)) as [Hc [Hb [Hs Hr]]].
    pose proof (jump_rule_ok p t Hc Hb Hs) as Hok.
    assert (rule_in (jump_rule cname p) rs = false) as Hin by (apply rule_in_no_refs; exact Hr).
    destruct (IH (tset hostports (rs ++ [jump_rule cname p]) t) (rs ++ [jump_rule cname p]) Hnd')
      as [t' [He [Hl' Hp']]].
    { apply tlookup_tset_same. }
    { intros q Hq. destruct (Hpre q (or_intror Hq)) as [Hc' [Hb' [Hs' Hr']]].
      split; [|split; [exact Hb'|split; [exact Hs'|]]].
      - rewrite has_chain_tset, Hc'. apply orb_true_r.
      - rewrite chain_refs_app, Hr'. cbn [orb]. rewrite chain_refs_cons. cbn [chain_refs existsb].
        rewrite orb_false_r. apply str_eqb_neq. cbn [jump_rule r_target].
        intros E. apply Hp. rewrite E. apply in_map. exact Hq. }
    exists t'. split; [|split].
    + cbn [ensure_jumps]. rewrite (ensure_rule_new [] hostports _ t rs Hok Hl Hin). exact He.
    + intros x. rewrite Hl'. destruct (str_eqb_spec x hostports) as [E|E].
      * cbn [map]. rewrite <- app_assoc. reflexivity.
      * apply tlookup_tset_other. exact E.
    + eapply tpres_trans; [apply tpres_tset|exact Hp'].
Qed.

Lemma delete_jumps_ok : forall ps t rs,
  NoDup (map cname ps) -> tlookup hostports t = Some (rs ++ map (jump_rule cname) ps) ->
  jumps_pre ps t rs ->
  exists t', delete_jumps cname ps t = (t', true) /\
    (forall x, tlookup x t' = if str_eqb x hostports then Some rs else tlookup x t) /\
    tpres t t'.
Proof.
  induction ps as [|p ps IH]; intros t rs Hnd Hl Hpre.
  - exists t. split; [reflexivity|]. split; [|apply tpres_refl].
    intros x. destruct (str_eqb_spec x hostports) as [E|E]; [|reflexivity].
    subst x. cbn [map] in Hl. rewrite app_nil_r in Hl. exact Hl.
  - cbn [map] in Hnd, Hl. inversion Hnd as [|? ? Hp Hnd']. subst.
    destruct (Hpre p (or_introl eq_refl)) as [Hc [Hb [Hs Hr]]].
    pose proof (jump_rule_ok p t Hc Hb Hs) as Hok.
    assert (rule_in (jump_rule cname p) rs = false) as Hin by (apply rule_in_no_refs; exact Hr).
    assert (rule_in (jump_rule cname p) (rs ++ jump_rule cname p :: map (jump_rule cname) ps) = true) as Hin'.
    { rewrite rule_in_app. cbn [rule_in existsb]. rewrite rule_eqb_refl. cbn [orb]. apply orb_true_r. }
    destruct (IH (tset hostports (rs ++ map (jump_rule cname) ps) t) rs Hnd') as [t' [He [Hl' Hp']]].
    { apply tlookup_tset_same. }
    { intros q Hq. destruct (Hpre q (or_intror Hq)) as [Hc' [Hb' [Hs' Hr']]].
      split; [|split; [exact Hb'|split; [exact Hs'|exact Hr']]].
      rewrite has_chain_tset, Hc'. apply orb_true_r. }
    exists t'. split; [|split].
    + cbn [delete_jumps]. rewrite (delete_rule_present [] hostports _ t _ Hok Hl Hin').
      rewrite remove_first_mid by exact Hin. exact He.
    + intros x. rewrite Hl'. destruct (str_eqb_spec x hostports) as [E|E]; [reflexivity|].
      apply tlookup_tset_other. exact E.
    + eapply tpres_trans; [apply tpres_tset|exact Hp'].
Qed.

(** ---- the DeleteRule loop as one update of KUBE-HOSTPORTS *)
Definition jumps (ps : list port) : list rule := map (jump_rule cname) ps.

Lemma delete_jumps_nochain ps : forall t t' ok,
  tlookup hostports t = None -> delete_jumps cname ps t = (t', ok) -> t' = t.
Proof.
  induction ps as [|p ps IH]; intros t t' ok Hl H; cbn [delete_jumps] in H.
  - inversion H. reflexivity.
  - rewrite delete_rule_cases, Hl in H. destruct (rule_ok [] t (jump_rule cname p)).
    + exact (IH _ _ _ Hl H).
    + inversion H. reflexivity.
Qed.

Lemma delete_jumps_chain ps : forall t rs t',
  tlookup hostports t = Some rs -> delete_jumps cname ps t = (t', true) ->
  t' = tset hostports (rmfold (jumps ps) rs) t /\
  forall p, In p ps -> rule_ok [] t (jump_rule cname p) = true.
Proof.
  induction ps as [|p ps IH]; intros t rs t' Hl H; cbn [delete_jumps] in H.
  - inversion H. subst t'. split; [|intros p []]. symmetry. apply tset_same_id. exact Hl.
  - rewrite delete_rule_cases, Hl in H.
    destruct (rule_ok [] t (jump_rule cname p)) eqn:Eok; [|discriminate].
    destruct (IH _ _ _ (tlookup_tset_same hostports _ t) H) as [E Hok]. split.
    + rewrite E, tset_tset. reflexivity.
    + intros q [Hq|Hq]; [subst q; exact Eok|].
      rewrite <- (Hok q Hq). symmetry. apply (rule_ok_tset_chain [] hostports rs). exact Hl.
Qed.

Lemma delete_jumps_chain_run ps : forall t rs,
  tlookup hostports t = Some rs ->
  (forall p, In p ps -> rule_ok [] t (jump_rule cname p) = true) ->
  delete_jumps cname ps t = (tset hostports (rmfold (jumps ps) rs) t, true).
Proof.
  induction ps as [|p ps IH]; intros t rs Hl Hok; cbn [delete_jumps].
  - cbn [jumps map rmfold]. rewrite tset_same_id by exact Hl. reflexivity.
  - rewrite delete_rule_cases, Hl, (Hok p (or_introl eq_refl)).
    rewrite (IH _ (remove_first (jump_rule cname p) rs)).
    + rewrite tset_tset. reflexivity.
    + apply tlookup_tset_same.
    + intros q Hq. rewrite (rule_ok_tset_chain [] hostports rs) by exact Hl. apply Hok. right. exact Hq.
Qed.

(** chain lines in general (built-in chains are left alone) *)
Lemma chain_lines_lookup sets cs : forall t,
  exists t', apply_lines sets t (map LChain cs) = Some t' /\
    forall x, tlookup x t' = if mem x cs && negb (is_builtin x) then Some [] else tlookup x t.
Proof.
  induction cs as [|c cs IH]; intros t.
  - exists t. split; [reflexivity|]. intros x. reflexivity.
  - cbn [map apply_lines apply_line]. destruct (is_builtin c) eqn:Eb.
    + destruct (IH t) as [t' [Ha Hl]]. exists t'. split; [exact Ha|].
      intros x. rewrite Hl, mem_cons. destruct (str_eqb_spec x c) as [E|E]; [|reflexivity].
      subst x. rewrite Eb. cbn [negb]. rewrite !andb_false_r. reflexivity.
    + destruct (IH (tset c [] t)) as [t' [Ha Hl]]. exists t'. split; [exact Ha|].
      intros x. rewrite Hl, mem_cons, tlookup_tset. destruct (str_eqb_spec x c) as [E|E]; [|reflexivity].
      subst x. rewrite Eb. cbn [negb orb]. rewrite andb_true_r. destruct (mem c cs); reflexivity.
Qed.

(** chain lines over chains that are already there and empty change nothing *)
Lemma chain_lines_fix sets cs : forall t,
  (forall c, In c cs -> is_builtin c = false -> tlookup c t = Some []) ->
  apply_lines sets t (map LChain cs) = Some t.
Proof.
  induction cs as [|c cs IH]; intros t H; [reflexivity|].
  cbn [map apply_lines apply_line]. destruct (is_builtin c) eqn:Eb.
  - apply IH. intros c' Hc'. apply H. right. exact Hc'.
  - rewrite tset_same_id by (apply H; [left; reflexivity|exact Eb]).
    apply IH. intros c' Hc'. apply H. right. exact Hc'.
Qed.

(** accepted -X lines: no chain that stays had a rule jumping to a deleted chain *)
Lemma delete_lines_unref sets cs : forall t t',
  apply_lines sets t (map LDelete cs) = Some t' ->
  forall c x rs, In c cs -> ~ In x cs -> tlookup x t = Some rs -> chain_refs c rs = false.
Proof.
  induction cs as [|a cs IH]; intros t t' H c x rs Hc Hx Hl; [contradiction|].
  cbn [map apply_lines apply_line] in H.
  destruct (tlookup a t) as [[|r0 l0]|] eqn:Ea; try discriminate.
  destruct (is_builtin a || referenced a t) eqn:Er; [discriminate|].
  apply orb_false_iff in Er. destruct Er as [_ Er].
  destruct Hc as [Hc|Hc].
  - subst a. exact (referenced_false_lookup _ _ _ _ Er Hl).
  - apply (IH _ _ H c x rs Hc).
    + intros Hin. apply Hx. right. exact Hin.
    + rewrite tlookup_tremove. assert (str_eqb x a = false) as E.
      { apply str_eqb_neq. intros E. apply Hx. left. symmetry. exact E. }
      rewrite E. exact Hl.
Qed.

(** ---- CleanPortMapping from any table that is the original one plus (some of) the ports' chains,
    a rewritten KUBE-MARK-MASQ and some of the ports' jump rules at the end of KUBE-HOSTPORTS: it is
    accepted and gives back the original table (KUBE-MARK-MASQ stays as it is) *)
Lemma clean_from (t tX : table) (ps : list port) (rs0 Jx : list rule) :
  tlookup hostports t = Some rs0 ->
  NoDup (map cname ps) ->
  (forall p, In p ps -> proto_plain p) ->
  (forall p, In p ps -> fresh_chain t (cname p)) ->
  tpres t tX ->
  (forall x, x <> markmasq -> x <> hostports -> ~ In x (map cname ps) -> tlookup x tX = tlookup x t) ->
  (forall rsm c, tlookup markmasq tX = Some rsm -> In c (map cname ps) -> chain_refs c rsm = false) ->
  tlookup hostports tX = Some (rs0 ++ Jx) ->
  (forall r, (rcount Jx r <= rcount (jumps ps) r)%nat) ->
  exists t2, clean cname ps tX = (t2, true) /\
    (forall c, c <> markmasq -> tlookup c t2 = tlookup c t) /\
    tlookup markmasq t2 = tlookup markmasq tX.
Proof.
  intros Hh Hnd Hplain Hfresh HpX HXo HXm HXh HJx.
  assert (forall c, In c (map cname ps) ->
            has_prefix hp_prefix c = true /\ tlookup c t = None /\ referenced c t = false) as Hnames.
  { intros c Hin. apply in_map_iff in Hin. destruct Hin as [p [E Hp]]. subst c.
    destruct (Hfresh p Hp) as [H1 [H2 H3]]. split; [exact H3|split; assumption]. }
  assert (~ In markmasq (map cname ps)) as Hmm.
  { intros Hin. destruct (Hnames _ Hin) as [H _]. rewrite markmasq_no_prefix in H. discriminate. }
  assert (~ In hostports (map cname ps)) as Hhp.
  { intros Hin. destruct (Hnames _ Hin) as [H _]. rewrite hostports_no_prefix in H. discriminate. }
  assert (forall c, In c (map cname ps) -> is_builtin c = false) as Hnb.
  { intros c Hin. apply hp_not_builtin. apply Hnames. exact Hin. }
  assert (mem hostports (map cname ps) = false) as Emh by (apply mem_false; exact Hhp).
  assert (mem markmasq (map cname ps) = false) as Emm by (apply mem_false; exact Hmm).
  (* the first batch: the ports' chains exist and are empty *)
  destruct (apply_chain_lines [] (map cname ps) tX Hnb) as [tA [HaA [HlA HpA]]].
  assert (tlookup hostports tA = Some (rs0 ++ Jx)) as HAh by (rewrite HlA, Emh; exact HXh).
  (* the jumps *)
  assert (forall r, In r (jumps ps) -> ~ In r rs0) as Hrs0.
  { intros r Hr Hin. unfold jumps in Hr. apply in_map_iff in Hr. destruct Hr as [p [E Hp]]. subst r.
    destruct (Hnames _ (in_map cname _ _ Hp)) as [_ [_ H3]].
    pose proof (referenced_false_lookup _ _ _ _ H3 Hh) as Hr.
    assert (rule_in (jump_rule cname p) rs0 = false) as Hri by (apply rule_in_no_refs; exact Hr).
    apply rule_in_In in Hin. congruence. }
  assert (rmfold (jumps ps) (rs0 ++ Jx) = rs0) as Hrm.
  { rewrite rmfold_exact.
    - rewrite filter_app, filter_notin_id by exact Hrs0. rewrite filter_notin_none; [apply app_nil_r|].
      intros r Hr. apply (count_occ_In rule_eq_dec). apply (count_occ_In rule_eq_dec) in Hr.
      specialize (HJx r). lia.
    - intros r Hr. rewrite count_occ_app.
      pose proof (Hrs0 r Hr) as H0. apply (count_occ_not_In rule_eq_dec) in H0.
      specialize (HJx r). lia. }
  assert (delete_jumps cname ps tA = (tset hostports rs0 tA, true)) as HeD.
  { rewrite (delete_jumps_chain_run ps tA _ HAh); [rewrite Hrm; reflexivity|].
    intros p Hp. apply jump_rule_ok.
    - apply (has_chain_some _ _ []). rewrite HlA.
      assert (mem (cname p) (map cname ps) = true) as E by (apply mem_In; apply in_map; exact Hp).
      rewrite E. reflexivity.
    - apply Hnb. apply in_map. exact Hp.
    - apply rule_sets_jump. apply Hplain. exact Hp. }
  set (tD := tset hostports rs0 tA) in *.
  assert (forall x, tlookup x tD = if str_eqb x hostports then Some rs0 else tlookup x tA) as HlD.
  { intros x. unfold tD. apply tlookup_tset. }
  (* the second batch *)
  destruct (apply_chain_lines [] (map cname ps) tD Hnb) as [tE [HaE [HlE HpE]]].
  assert (tpres t tE) as HpresE.
  { eapply tpres_trans; [exact HpX|]. eapply tpres_trans; [exact HpA|].
    eapply tpres_trans; [apply tpres_tset|exact HpE]. }
  destruct (apply_deletes [] (map cname ps) tE Hnd) as [tF [HaF [HlF HpF]]].
  { intros c Hin. destruct (Hnames c Hin) as [H1 [H2 H3]].
    split; [|split; [apply Hnb; exact Hin|]].
    - rewrite HlE. apply mem_In in Hin. rewrite Hin. reflexivity.
    - apply referenced_false_intro.
      + apply (tpres_srefs_false t tE c HpresE). apply referenced_false_srefs. exact H3.
      + intros n rs. rewrite HlE. destruct (mem n (map cname ps)) eqn:Em.
        { intros E. inversion E. reflexivity. }
        rewrite HlD. destruct (str_eqb_spec n hostports) as [En|En].
        { intros E. inversion E. subst rs. exact (referenced_false_lookup _ _ _ _ H3 Hh). }
        rewrite HlA, Em. destruct (str_eqb_spec n markmasq) as [En'|En'].
        { subst n. intros E. exact (HXm rs c E Hin). }
        apply mem_false in Em. rewrite HXo by assumption.
        intros E. exact (referenced_false_lookup _ _ _ _ H3 E). }
  exists tF. split; [|split].
  - unfold clean, clean_pre_batch. rewrite <- (map_map cname LChain).
    rewrite (restore_some _ _ _ _ HaA). rewrite HeD. rewrite clean_batch_eq.
    apply restore_some. exact (apply_lines_app_some _ _ _ _ _ _ HaE HaF).
  - intros c Hc. rewrite HlF. destruct (mem c (map cname ps)) eqn:Em.
    + apply mem_In in Em. destruct (Hnames c Em) as [_ [H2 _]]. symmetry. exact H2.
    + rewrite HlE, Em, HlD. destruct (str_eqb_spec c hostports) as [En|En].
      * subst c. symmetry. exact Hh.
      * rewrite HlA, Em. apply mem_false in Em. apply HXo; assumption.
  - rewrite HlF, Emm, HlE, Emm, HlD.
    assert (str_eqb markmasq hostports = false) as E.
    { apply str_eqb_neq. intros E. symmetry in E. exact (hostports_ne_markmasq E). }
    rewrite E, HlA, Emm. reflexivity.
Qed.

(** ---- SetupPortMapping: the batch, then the first [m] EnsureRule calls *)
Lemma setup_prefix_l : forall (t : table) (ps : list port) (rs0 : list rule) (m : nat),
  tlookup hostports t = Some rs0 ->
  NoDup (map cname ps) ->
  (forall p, In p ps -> proto_plain p) ->
  (forall p, In p ps -> fresh_chain t (cname p)) ->
  exists tB tC, restore [] t (setup_batch cname ps) = (tB, true) /\
    ensure_jumps cname (firstn m ps) tB = (tC, true) /\
    tpres t tC /\
    (forall x, x <> markmasq -> x <> hostports -> ~ In x (map cname ps) -> tlookup x tC = tlookup x t) /\
    tlookup markmasq tC = Some [mark_rule] /\
    tlookup hostports tC = Some (rs0 ++ jumps (firstn m ps)).
Proof.
  intros t ps rs0 m Hh Hnd Hplain Hfresh.
  assert (forall c, In c (map cname ps) ->
            has_prefix hp_prefix c = true /\ tlookup c t = None /\ referenced c t = false) as Hnames.
  { intros c Hin. apply in_map_iff in Hin. destruct Hin as [p [E Hp]]. subst c.
    destruct (Hfresh p Hp) as [H1 [H2 H3]]. split; [exact H3|split; assumption]. }
  assert (~ In markmasq (map cname ps)) as Hmm.
  { intros Hin. destruct (Hnames _ Hin) as [H _]. rewrite markmasq_no_prefix in H. discriminate. }
  assert (~ In hostports (map cname ps)) as Hhp.
  { intros Hin. destruct (Hnames _ Hin) as [H _]. rewrite hostports_no_prefix in H. discriminate. }
  (* the set-up batch: chain lines *)
  destruct (apply_chain_lines [] (markmasq :: map cname ps) t) as [tA [HaA [HlA HpA]]].
  { intros c [E|Hin].
    - subst c. exact markmasq_not_builtin.
    - apply hp_not_builtin. apply Hnames. exact Hin. }
  assert (tlookup markmasq tA = Some []) as HAm.
  { rewrite HlA, mem_cons, str_eqb_refl. reflexivity. }
  assert (forall p, In p ps -> tlookup (cname p) tA = Some []) as HAp.
  { intros p Hp. rewrite HlA. assert (mem (cname p) (markmasq :: map cname ps) = true) as E.
    { apply mem_In. right. apply in_map. exact Hp. }
    rewrite E. reflexivity. }
  (* the set-up batch: appends *)
  destruct (apply_appends [] ((markmasq, mark_rule) :: flat_map pod_aps ps) tA) as [tB [HaB [HlB [HpB _]]]].
  { intros c r [E|Hin].
    - inversion E. subst c r. split; [exact (has_chain_some _ _ _ HAm)|].
      apply rule_ok_std; reflexivity.
    - apply in_flat_map in Hin. destruct Hin as [p [Hp Hin]].
      pose proof (has_chain_some _ _ _ (HAp p Hp)) as Hc.
      unfold pod_aps in Hin. destruct Hin as [E|[E|[]]]; inversion E; subst c r; (split; [exact Hc|]).
      + apply rule_ok_chain; [exact (has_chain_some _ _ _ HAm)|exact markmasq_not_builtin|apply rule_sets_masq].
      + apply rule_ok_std; [reflexivity|apply rule_sets_dnat]. }
  assert (tlookup markmasq tB = Some [mark_rule]) as HBm.
  { rewrite HlB, HAm, appends_for_cons, str_eqb_refl, pod_aps_for_other by exact Hmm. reflexivity. }
  assert (forall p, In p ps -> tlookup (cname p) tB = Some [masq_rule p; dnat_rule p]) as HBp.
  { intros p Hp. rewrite HlB, (HAp p Hp), appends_for_cons.
    assert (str_eqb markmasq (cname p) = false) as E.
    { apply str_eqb_neq. intros E. apply Hmm. rewrite E. apply in_map. exact Hp. }
    rewrite E, pod_aps_for_name by assumption. reflexivity. }
  assert (forall x, x <> markmasq -> ~ In x (map cname ps) -> tlookup x tB = tlookup x t) as HBo.
  { intros x Hx1 Hx2. rewrite HlB, HlA, mem_cons.
    assert (str_eqb x markmasq = false) as E1 by (apply str_eqb_neq; exact Hx1).
    assert (str_eqb markmasq x = false) as E2 by (apply str_eqb_neq; congruence).
    assert (mem x (map cname ps) = false) as E3 by (apply mem_false; exact Hx2).
    rewrite E1, E3. cbn [orb]. rewrite appends_for_cons, E2, pod_aps_for_other by exact Hx2.
    destruct (tlookup x t) as [rs|]; [rewrite app_nil_r|]; reflexivity. }
  assert (apply_lines [] t (setup_batch cname ps) = Some tB) as Hbatch.
  { rewrite setup_batch_eq. exact (apply_lines_app_some _ _ _ _ _ _ HaA HaB). }
  (* the jumps *)
  assert (tlookup hostports tB = Some rs0) as HBh.
  { rewrite HBo; [exact Hh|exact hostports_ne_markmasq|exact Hhp]. }
  assert (NoDup (map cname (firstn m ps))) as Hndm.
  { rewrite <- firstn_map. apply NoDup_firstn. exact Hnd. }
  destruct (ensure_jumps_ok (firstn m ps) tB rs0 Hndm HBh) as [tC [HeC [HlC HpC]]].
  { intros p Hp. apply in_firstn in Hp.
    destruct (Hnames (cname p) (in_map cname _ _ Hp)) as [H1 [H2 H3]].
    split; [exact (has_chain_some _ _ _ (HBp p Hp))|]. split; [apply hp_not_builtin; exact H1|].
    split; [apply rule_sets_jump; apply Hplain; exact Hp|].
    exact (referenced_false_lookup _ _ _ _ H3 Hh). }
  exists tB, tC. split; [exact (restore_some _ _ _ _ Hbatch)|]. split; [exact HeC|].
  split; [|split; [|split]].
  - eapply tpres_trans; [exact HpA|]. eapply tpres_trans; [exact HpB|exact HpC].
  - intros x Hx1 Hx2 Hx3. rewrite HlC. apply str_eqb_neq in Hx2. rewrite Hx2. apply HBo; assumption.
  - rewrite HlC. assert (str_eqb markmasq hostports = false) as E.
    { apply str_eqb_neq. intros E. symmetry in E. exact (hostports_ne_markmasq E). }
    rewrite E. exact HBm.
  - rewrite HlC, str_eqb_refl. reflexivity.
Qed.

(** the set-up batch and the first [m] jumps, then a complete CleanPortMapping *)
Lemma setup_prefix_clean_l : forall (t : table) (ps : list port) (m : nat),
  has_chain hostports t = true ->
  NoDup (map cname ps) ->
  (forall p, In p ps -> proto_plain p) ->
  (forall p, In p ps -> fresh_chain t (cname p)) ->
  exists tB tC t2, restore [] t (setup_batch cname ps) = (tB, true) /\
    ensure_jumps cname (firstn m ps) tB = (tC, true) /\
    clean cname ps tC = (t2, true) /\
    forall c, c <> markmasq -> tlookup c t2 = tlookup c t.
Proof.
  intros t ps m Hh Hnd Hplain Hfresh.
  apply has_chain_lookup in Hh. destruct Hh as [rs0 Hh].
  destruct (setup_prefix_l t ps rs0 m Hh Hnd Hplain Hfresh) as [tB [tC [Hb [He [Hp [Ho [Hm Hhc]]]]]]].
  destruct (clean_from t tC ps rs0 (jumps (firstn m ps)) Hh Hnd Hplain Hfresh Hp Ho) as [t2 [Hc [Hl _]]].
  - intros rsm c E Hin. rewrite Hm in E. inversion E. subst rsm. apply mark_rule_no_hp.
    apply in_map_iff in Hin. destruct Hin as [p [Ep Hp']]. subst c. apply (Hfresh p Hp').
  - exact Hhc.
  - intros r. unfold jumps. rewrite <- firstn_map. apply rcount_firstn_le.
  - exists tB, tC, t2. split; [exact Hb|]. split; [exact He|]. split; [exact Hc|exact Hl].
Qed.

(** ---- SetupPortMapping followed by CleanPortMapping *)
Lemma setup_clean_inverse_l : forall (t : table) (ps : list port),
  has_chain hostports t = true ->
  NoDup (map cname ps) ->
  (forall p, In p ps -> proto_plain p) ->
  (forall p, In p ps -> fresh_chain t (cname p)) ->
  exists t1 t2, setup cname ps t = (t1, true) /\ clean cname ps t1 = (t2, true) /\
    forall c, c <> markmasq -> tlookup c t2 = tlookup c t.
Proof.
  intros t ps Hh Hnd Hplain Hfresh.
  destruct (setup_prefix_clean_l t ps (List.length ps) Hh Hnd Hplain Hfresh) as [tB [tC [t2 [Hb [He [Hc Hl]]]]]].
  rewrite firstn_all in He.
  exists tC, t2. split; [|split; [exact Hc|exact Hl]].
  unfold setup. rewrite Hb. exact He.
Qed.

(** CleanPortMapping for ports none of whose chains exists (a set-up whose batch was refused): accepted,
    and the table is as before *)
Lemma clean_fresh_l : forall (t : table) (ps : list port),
  has_chain hostports t = true ->
  NoDup (map cname ps) ->
  (forall p, In p ps -> proto_plain p) ->
  (forall p, In p ps -> fresh_chain t (cname p)) ->
  exists t2, clean cname ps t = (t2, true) /\ forall c, tlookup c t2 = tlookup c t.
Proof.
  intros t ps Hh Hnd Hplain Hfresh.
  apply has_chain_lookup in Hh. destruct Hh as [rs0 Hh].
  destruct (clean_from t t ps rs0 [] Hh Hnd Hplain Hfresh (tpres_refl t)) as [t2 [Hc [Hl Hm]]].
  - intros x _ _ _. reflexivity.
  - intros rsm c E Hin. apply in_map_iff in Hin. destruct Hin as [p [Ep Hp]]. subst c.
    destruct (Hfresh p Hp) as [_ [H3 _]]. exact (referenced_false_lookup _ _ _ _ H3 E).
  - rewrite app_nil_r. exact Hh.
  - intros r. simpl. lia.
  - exists t2. split; [exact Hc|]. intros c.
    destruct (str_eqb_spec c markmasq) as [E|E]; [subst c; exact Hm|apply Hl; exact E].
Qed.

(** ---- CleanPortMapping never fails for lack of the ports' chains *)
Lemma delete_jumps_nochain_run ps : forall t,
  tlookup hostports t = None ->
  (forall p, In p ps -> rule_ok [] t (jump_rule cname p) = true) ->
  delete_jumps cname ps t = (t, true).
Proof.
  induction ps as [|p ps IH]; intros t Hl Hok; cbn [delete_jumps]; [reflexivity|].
  rewrite delete_rule_cases, Hl, (Hok p (or_introl eq_refl)).
  apply IH; [exact Hl|]. intros q Hq. apply Hok. right. exact Hq.
Qed.

(** what CleanPortMapping needs: the table is a finite map; the ports' chain names are distinct, not
    built-in chains and not KUBE-HOSTPORTS; no chain that stays, other than KUBE-HOSTPORTS, jumps to one
    of the ports' chains (-X of a referenced chain is refused); and the rules of KUBE-HOSTPORTS that jump
    to the ports' chains are the ports' jump rules, none more often than the ports name it.
    Nothing is asked of the ports' chains themselves: they may hold anything or not exist. *)
Definition clean_pre (ps : list port) (t : table) : Prop :=
  NoDup (map fst t) /\ NoDup (map cname ps) /\
  (forall p, In p ps -> is_builtin (cname p) = false /\ cname p <> hostports /\ proto_plain p) /\
  (forall c rs r, tlookup c t = Some rs -> c <> hostports -> ~ In c (map cname ps) -> In r rs ->
     ~ In (r_target r) (map cname ps)) /\
  (forall rs r, tlookup hostports t = Some rs -> In (r_target r) (map cname ps) ->
     (rcount rs r <= rcount (jumps ps) r)%nat).

(** what it guarantees: the ports' chains are gone, KUBE-HOSTPORTS keeps exactly its rules that do not
    jump to them, every other chain is untouched *)
Definition clean_post (ps : list port) (t t' : table) : Prop :=
  (forall p, In p ps -> tlookup (cname p) t' = None) /\
  (forall c, c <> hostports -> ~ In c (map cname ps) -> tlookup c t' = tlookup c t) /\
  tlookup hostports t' =
    match tlookup hostports t with
    | Some rs => Some (filter (fun r => negb (mem (r_target r) (map cname ps))) rs)
    | None => None
    end.

Lemma clean_total_l : forall (t : table) (ps : list port),
  clean_pre ps t -> exists t', clean cname ps t = (t', true) /\ clean_post ps t t'.
Proof.
  intros t ps [Hndt [Hnd [Hports [Hother Hhost]]]].
  assert (forall c, In c (map cname ps) -> is_builtin c = false) as Hnb.
  { intros c Hin. apply in_map_iff in Hin. destruct Hin as [p [E Hp]]. subst c. apply (Hports p Hp). }
  assert (~ In hostports (map cname ps)) as Hhp.
  { intros Hin. apply in_map_iff in Hin. destruct Hin as [p [E Hp]].
    destruct (Hports p Hp) as [_ [H _]]. exact (H E). }
  assert (mem hostports (map cname ps) = false) as Emh by (apply mem_false; exact Hhp).
  (* the first batch *)
  destruct (apply_chain_lines [] (map cname ps) t Hnb) as [tA [HaA [HlA HpA]]].
  assert (forall p, In p ps -> rule_ok [] tA (jump_rule cname p) = true) as HokA.
  { intros p Hp. apply jump_rule_ok.
    - apply (has_chain_some _ _ []). rewrite HlA.
      assert (mem (cname p) (map cname ps) = true) as E by (apply mem_In; apply in_map; exact Hp).
      rewrite E. reflexivity.
    - apply Hnb. apply in_map. exact Hp.
    - apply rule_sets_jump. apply (Hports p Hp). }
  (* the jumps *)
  set (keep := fun r : rule => negb (mem (r_target r) (map cname ps))).
  assert (exists tD, delete_jumps cname ps tA = (tD, true) /\ tpres tA tD /\
            (forall x, x <> hostports -> tlookup x tD = tlookup x tA) /\
            tlookup hostports tD =
              match tlookup hostports t with Some rs => Some (filter keep rs) | None => None end)
    as [tD [HeD [HpD [HlD HDh]]]].
  { destruct (tlookup hostports t) as [rs|] eqn:Eh.
    - assert (tlookup hostports tA = Some rs) as HAh by (rewrite HlA, Emh; exact Eh).
      exists (tset hostports (filter keep rs) tA). split; [|split; [apply tpres_tset|split]].
      + rewrite (delete_jumps_chain_run ps tA rs HAh HokA). f_equal. f_equal.
        rewrite rmfold_exact.
        * apply filter_ext_in. intros r Hr. unfold notin, keep. f_equal.
          destruct (rule_in r (jumps ps)) eqn:Ej.
          -- apply rule_in_In in Ej. unfold jumps in Ej. apply in_map_iff in Ej.
             destruct Ej as [p [E Hp]]. subst r. symmetry. apply mem_In. cbn [jump_rule r_target].
             apply in_map. exact Hp.
          -- symmetry. apply mem_false. intros Hin.
             pose proof (Hhost rs r eq_refl Hin) as Hc.
             assert (~ In r (jumps ps)) as Hnj.
             { intros H. apply rule_in_In in H. congruence. }
             apply (count_occ_not_In rule_eq_dec) in Hnj.
             apply (count_occ_In rule_eq_dec) in Hr. lia.
        * intros r Hr. apply (Hhost rs r eq_refl). unfold jumps in Hr. apply in_map_iff in Hr.
          destruct Hr as [p [E Hp]]. subst r. cbn [jump_rule r_target]. apply in_map. exact Hp.
      + intros x Hx. apply tlookup_tset_other. exact Hx.
      + apply tlookup_tset_same.
    - assert (tlookup hostports tA = None) as HAh by (rewrite HlA, Emh; exact Eh).
      exists tA. split; [exact (delete_jumps_nochain_run ps tA HAh HokA)|].
      split; [apply tpres_refl|]. split; [intros x _; reflexivity|exact HAh]. }
  (* the second batch *)
  destruct (apply_chain_lines [] (map cname ps) tD Hnb) as [tE [HaE [HlE HpE]]].
  assert (tpres t tE) as HpresE.
  { eapply tpres_trans; [exact HpA|]. eapply tpres_trans; [exact HpD|exact HpE]. }
  destruct (apply_deletes [] (map cname ps) tE Hnd) as [tF [HaF [HlF HpF]]].
  { intros c Hin. split; [|split; [apply Hnb; exact Hin|]].
    - rewrite HlE. apply mem_In in Hin. rewrite Hin. reflexivity.
    - apply referenced_false_intro.
      + apply (tpres_srefs_false t tE c HpresE). apply srefs_NoDup. exact Hndt.
      + intros n rs. rewrite HlE. destruct (mem n (map cname ps)) eqn:Em.
        { intros E. inversion E. reflexivity. }
        destruct (str_eqb_spec n hostports) as [En|En].
        * subst n. rewrite HDh. destruct (tlookup hostports t) as [rsh|]; [|discriminate].
          intros E. inversion E. apply chain_refs_false. intros r Hr Et.
          apply filter_In in Hr. destruct Hr as [_ Hk]. unfold keep in Hk.
          apply negb_true_iff in Hk. apply mem_false in Hk. apply Hk. rewrite Et. exact Hin.
        * rewrite HlD by exact En. rewrite HlA, Em. intros E.
          apply chain_refs_false. intros r Hr Et. apply mem_false in Em.
          apply (Hother n rs r E En Em Hr). rewrite Et. exact Hin. }
  exists tF. split; [|split; [|split]].
  - unfold clean, clean_pre_batch. rewrite <- (map_map cname LChain).
    rewrite (restore_some _ _ _ _ HaA). rewrite HeD. rewrite clean_batch_eq.
    apply restore_some. exact (apply_lines_app_some _ _ _ _ _ _ HaE HaF).
  - intros p Hp. rewrite HlF.
    assert (mem (cname p) (map cname ps) = true) as E by (apply mem_In; apply in_map; exact Hp).
    rewrite E. reflexivity.
  - intros c Hc1 Hc2. apply mem_false in Hc2. rewrite HlF, Hc2, HlE, Hc2.
    rewrite HlD by exact Hc1. rewrite HlA, Hc2. reflexivity.
  - rewrite HlF, Emh, HlE, Emh. exact HDh.
Qed.

(** in particular when nothing at all jumps to the ports' chains - e.g. when they do not exist *)
Lemma clean_unreferenced_l : forall (t : table) (ps : list port),
  NoDup (map fst t) -> NoDup (map cname ps) ->
  (forall p, In p ps -> is_builtin (cname p) = false /\ cname p <> hostports /\ proto_plain p) ->
  (forall p, In p ps -> referenced (cname p) t = false) ->
  exists t', clean cname ps t = (t', true) /\ clean_post ps t t'.
Proof.
  intros t ps Hndt Hnd Hports Href. apply clean_total_l.
  assert (forall c n rs r, In c (map cname ps) -> tlookup n t = Some rs -> In r rs -> r_target r <> c) as H.
  { intros c n rs r Hin Hl Hr. apply in_map_iff in Hin. destruct Hin as [p [E Hp]]. subst c.
    pose proof (referenced_false_lookup _ _ _ _ (Href p Hp) Hl) as Hc.
    exact (proj1 (chain_refs_false _ _) Hc r Hr). }
  split; [exact Hndt|]. split; [exact Hnd|]. split; [exact Hports|]. split.
  - intros c rs r Hl _ _ Hr Hin. exact (H _ c rs r Hin Hl Hr eq_refl).
  - intros rs r Hl Hin.
    assert (~ In r rs) as Hn by (intros Hr; exact (H _ hostports rs r Hin Hl Hr eq_refl)).
    apply (count_occ_not_In rule_eq_dec) in Hn. lia.
Qed.

(** ---- EnsureBasicRule *)
Lemma output_ne_hostports : L "OUTPUT" <> hostports.
Proof. intros E. vm_compute in E. discriminate. Qed.
Lemma prerouting_ne_hostports : L "PREROUTING" <> hostports.
Proof. intros E. vm_compute in E. discriminate. Qed.
Lemma output_ne_prerouting : L "OUTPUT" <> L "PREROUTING".
Proof. intros E. vm_compute in E. discriminate. Qed.
Lemma output_foreign : foreign_chain (L "OUTPUT") = true.
Proof. vm_compute. reflexivity. Qed.
Lemma prerouting_foreign : foreign_chain (L "PREROUTING") = true.
Proof. vm_compute. reflexivity. Qed.

Lemma portal_rule_ok t : has_chain hostports t = true -> rule_ok [] t portal_rule = true.
Proof.
  intros H. apply rule_ok_chain; [exact H|exact hostports_not_builtin|exact rule_sets_portal].
Qed.

Definition has_portal (c : str) (t : table) : Prop :=
  exists rs, tlookup c t = Some rs /\ rule_in portal_rule rs = true.

Lemma ensure_basic_ok t :
  has_chain (L "OUTPUT") t = true -> has_chain (L "PREROUTING") t = true ->
  exists tb, ensure_basic t = (tb, true) /\ tpres t tb /\ has_chain hostports tb = true /\
    (forall x rs', x <> hostports -> tlookup x tb = Some rs' ->
       exists rs, tlookup x t = Some rs /\ (rs' = rs \/ rs' = rs ++ [portal_rule])) /\
    has_portal (L "OUTPUT") tb /\ has_portal (L "PREROUTING") tb.
Proof.
  intros Ho Hp.
  apply has_chain_lookup in Ho. destruct Ho as [ro Ho].
  apply has_chain_lookup in Hp. destruct Hp as [rp Hp].
  pose proof (has_chain_ensure_chain hostports t) as Hh1.
  assert (forall x, x <> hostports -> tlookup x (ensure_chain hostports t) = tlookup x t) as Hl1.
  { intros x Hx. rewrite tlookup_ensure_chain. apply str_eqb_neq in Hx. rewrite Hx. reflexivity. }
  assert (tlookup (L "OUTPUT") (ensure_chain hostports t) = Some ro) as Ho1.
  { rewrite Hl1; [exact Ho|exact output_ne_hostports]. }
  destruct (ensure_rule_append [] (L "OUTPUT") portal_rule _ ro (portal_rule_ok _ Hh1) Ho1)
    as [t2 [He2 [Hp2 [Hl2 [ro' [Ho2 [Hin2 Hor2]]]]]]].
  assert (has_chain hostports t2 = true) as Hh2.
  { rewrite (has_chain_ext hostports t2 (ensure_chain hostports t)); [exact Hh1|].
    apply Hl2. intros E. symmetry in E. exact (output_ne_hostports E). }
  assert (tlookup (L "PREROUTING") t2 = Some rp) as Hp2'.
  { rewrite Hl2; [|intros E; symmetry in E; exact (output_ne_prerouting E)].
    rewrite Hl1; [exact Hp|exact prerouting_ne_hostports]. }
  destruct (ensure_rule_append [] (L "PREROUTING") portal_rule _ rp (portal_rule_ok _ Hh2) Hp2')
    as [t3 [He3 [Hp3 [Hl3 [rp' [Hp3' [Hin3 Hor3]]]]]]].
  exists t3. split; [|split; [|split; [|split; [|split]]]].
  - unfold ensure_basic. rewrite He2. exact He3.
  - eapply tpres_trans; [apply tpres_ensure_chain|]. eapply tpres_trans; [exact Hp2|exact Hp3].
  - rewrite (has_chain_ext hostports t3 t2); [exact Hh2|].
    apply Hl3. intros E. symmetry in E. exact (prerouting_ne_hostports E).
  - intros x rs' Hx Hl. destruct (str_eqb_spec x (L "PREROUTING")) as [E|E].
    + subst x. rewrite Hp3' in Hl. inversion Hl. subst rs'. exists rp. split; [exact Hp|exact Hor3].
    + rewrite Hl3 in Hl by exact E. destruct (str_eqb_spec x (L "OUTPUT")) as [E'|E'].
      * subst x. rewrite Ho2 in Hl. inversion Hl. subst rs'. exists ro. split; [exact Ho|exact Hor2].
      * rewrite Hl2 in Hl by exact E'. rewrite Hl1 in Hl by exact Hx.
        exists rs'. split; [exact Hl|left; reflexivity].
  - exists ro'. split; [|exact Hin2]. rewrite Hl3; [exact Ho2|exact output_ne_prerouting].
  - exists rp'. split; [exact Hp3'|exact Hin3].
Qed.

(** once the chain and both portal rules are there, EnsureBasicRule changes nothing *)
Lemma ensure_basic_fix t :
  has_chain hostports t = true -> has_portal (L "OUTPUT") t -> has_portal (L "PREROUTING") t ->
  ensure_basic t = (t, true).
Proof.
  intros Hh [ro [Ho Hino]] [rp [Hp Hinp]]. unfold ensure_basic.
  rewrite (ensure_chain_has _ _ Hh).
  rewrite (ensure_rule_present false [] _ _ _ _ (portal_rule_ok _ Hh) Ho Hino).
  exact (ensure_rule_present false [] _ _ _ _ (portal_rule_ok _ Hh) Hp Hinp).
Qed.

(** EnsureBasicRule adds no jump into a KUBE-HP- chain *)
Lemma ensure_basic_foreign t tb (names : list str) :
  (forall x rs', x <> hostports -> tlookup x tb = Some rs' ->
     exists rs, tlookup x t = Some rs /\ (rs' = rs \/ rs' = rs ++ [portal_rule])) ->
  (forall c rs r, tlookup c t = Some rs -> foreign_chain c = true -> In r rs ->
     has_prefix hp_prefix (r_target r) = true -> In (r_target r) names) ->
  forall c rs r, tlookup c tb = Some rs -> foreign_chain c = true -> In r rs ->
     has_prefix hp_prefix (r_target r) = true -> In (r_target r) names.
Proof.
  intros Hb Hf c rs r Hl Hc Hin Hpf.
  pose proof (proj1 (foreign_chain_iff c) Hc) as [_ [Hne _]].
  destruct (Hb c rs Hne Hl) as [rs0 [Hl0 [E|E]]]; subst rs.
  - exact (Hf c rs0 r Hl0 Hc Hin Hpf).
  - apply in_app_or in Hin. destruct Hin as [Hin|[Hin|[]]].
    + exact (Hf c rs0 r Hl0 Hc Hin Hpf).
    + subst r. exfalso. exact (portal_rule_no_hp _ Hpf eq_refl).
Qed.

(** ---- SetupPortMappingForAllPods *)
Lemma stale_chains_In ps t c :
  In c (stale_chains cname ps t) <->
  In c (map fst t) /\ has_prefix hp_prefix c = true /\ ~ In c (map cname ps).
Proof.
  unfold stale_chains, chain_names. rewrite filter_In, andb_true_iff, negb_true_iff, mem_false. tauto.
Qed.

Lemma setup_all_exact_strong : forall (t : table) (ps : list port),
  sync_pre cname ps t ->
  exists t', setup_all cname ps t = (t', true) /\ sync_post cname ps t t' /\ NoDup (map fst t').
Proof.
  intros t ps [Hnd [Hndn [Hpref [Hplain [Hout [Hprer Hforeign]]]]]].
  destruct (ensure_basic_ok t Hout Hprer) as [tb [Heb [Hpb [Hbh [Hbo _]]]]].
  pose proof (ensure_basic_foreign t tb (map cname ps) Hbo Hforeign) as HFb.
  pose proof (proj2 Hpb Hnd) as Hndb.
  remember (stale_chains cname ps tb) as stale eqn:Estale.
  assert (forall c, In c stale <->
            In c (map fst tb) /\ has_prefix hp_prefix c = true /\ ~ In c (map cname ps)) as Hst.
  { intros c. subst stale. apply stale_chains_In. }
  assert (NoDup stale) as Hnds.
  { subst stale. unfold stale_chains. apply NoDup_filter. exact Hndb. }
  assert (forall c, In c (map cname ps) -> has_prefix hp_prefix c = true) as Hnp.
  { intros c Hin. apply in_map_iff in Hin. destruct Hin as [p [E Hp]]. subst c. apply Hpref. exact Hp. }
  assert (~ In markmasq (map cname ps)) as Hmm.
  { intros Hin. apply Hnp in Hin. rewrite markmasq_no_prefix in Hin. discriminate. }
  assert (~ In hostports (map cname ps)) as Hhp.
  { intros Hin. apply Hnp in Hin. rewrite hostports_no_prefix in Hin. discriminate. }
  assert (~ In markmasq stale) as Hms.
  { intros Hin. apply Hst in Hin. destruct Hin as [_ [H _]]. rewrite markmasq_no_prefix in H. discriminate. }
  assert (~ In hostports stale) as Hhs.
  { intros Hin. apply Hst in Hin. destruct Hin as [_ [H _]]. rewrite hostports_no_prefix in H. discriminate. }
  assert (forall q, In q ps -> cname q <> hostports) as Hqh.
  { intros q Hq E. apply Hhp. rewrite <- E. apply in_map. exact Hq. }
  (* chain lines *)
  destruct (apply_chain_lines [] (markmasq :: hostports :: map cname ps ++ stale) tb) as [tA [HaA [HlA HpA]]].
  { intros c [E|[E|Hin]].
    - subst c. exact markmasq_not_builtin.
    - subst c. exact hostports_not_builtin.
    - apply hp_not_builtin. apply in_app_or in Hin. destruct Hin as [Hin|Hin].
      + apply Hnp. exact Hin.
      + apply Hst in Hin. destruct Hin as [_ [H _]]. exact H. }
  assert (forall x, In x (markmasq :: hostports :: map cname ps ++ stale) -> tlookup x tA = Some []) as HAin.
  { intros x Hin. rewrite HlA. apply mem_In in Hin. rewrite Hin. reflexivity. }
  assert (forall x, ~ In x (markmasq :: hostports :: map cname ps ++ stale) -> tlookup x tA = tlookup x tb) as HAout.
  { intros x Hin. rewrite HlA. apply mem_false in Hin. rewrite Hin. reflexivity. }
  assert (tlookup markmasq tA = Some []) as HAm by (apply HAin; left; reflexivity).
  assert (tlookup hostports tA = Some []) as HAh by (apply HAin; right; left; reflexivity).
  assert (forall p, In p ps -> tlookup (cname p) tA = Some []) as HAp.
  { intros p Hp. apply HAin. right. right. apply in_or_app. left. apply in_map. exact Hp. }
  (* appends *)
  destruct (apply_appends [] ((markmasq, mark_rule) :: flat_map all_aps ps) tA) as [tB [HaB [HlB [HpB _]]]].
  { intros c r [E|Hin].
    - inversion E. subst c r. split; [exact (has_chain_some _ _ _ HAm)|].
      apply rule_ok_std; reflexivity.
    - apply in_flat_map in Hin. destruct Hin as [p [Hp Hin]].
      pose proof (has_chain_some _ _ _ (HAp p Hp)) as Hc.
      unfold all_aps, pod_aps in Hin. destruct Hin as [E|[E|[E|[]]]]; inversion E; subst c r.
      + split; [exact (has_chain_some _ _ _ HAh)|].
        apply jump_rule_ok; [exact Hc|apply hp_not_builtin; apply Hpref; exact Hp|].
        apply rule_sets_jump. apply Hplain. exact Hp.
      + split; [exact Hc|].
        apply rule_ok_chain; [exact (has_chain_some _ _ _ HAm)|exact markmasq_not_builtin|apply rule_sets_masq].
      + split; [exact Hc|]. apply rule_ok_std; [reflexivity|apply rule_sets_dnat]. }
  assert (tlookup markmasq tB = Some [mark_rule]) as HBm.
  { rewrite HlB, HAm, appends_for_cons, str_eqb_refl.
    rewrite all_aps_for_nonhost by (intros E; symmetry in E; exact (hostports_ne_markmasq E)).
    rewrite pod_aps_for_other by exact Hmm. reflexivity. }
  assert (tlookup hostports tB = Some (map (jump_rule cname) ps)) as HBh.
  { rewrite HlB, HAh, appends_for_cons.
    assert (str_eqb markmasq hostports = false) as E.
    { apply str_eqb_neq. intros E. symmetry in E. exact (hostports_ne_markmasq E). }
    rewrite E, all_aps_for_hostports by exact Hqh. reflexivity. }
  assert (forall p, In p ps -> tlookup (cname p) tB = Some [masq_rule p; dnat_rule p]) as HBp.
  { intros p Hp. rewrite HlB, (HAp p Hp), appends_for_cons.
    assert (str_eqb markmasq (cname p) = false) as E.
    { apply str_eqb_neq. intros E. apply Hmm. rewrite E. apply in_map. exact Hp. }
    rewrite E, all_aps_for_nonhost by (apply Hqh; exact Hp).
    rewrite pod_aps_for_name by assumption. reflexivity. }
  assert (forall x, x <> markmasq -> x <> hostports -> ~ In x (map cname ps) -> tlookup x tB = tlookup x tA) as HBo.
  { intros x Hx1 Hx2 Hx3. rewrite HlB, appends_for_cons.
    assert (str_eqb markmasq x = false) as E by (apply str_eqb_neq; congruence).
    rewrite E, all_aps_for_nonhost by exact Hx2. rewrite pod_aps_for_other by exact Hx3.
    destruct (tlookup x tA) as [rs|]; [rewrite app_nil_r|]; reflexivity. }
  assert (forall c, In c stale -> tlookup c tB = Some []) as HBs.
  { intros c Hin. pose proof (proj1 (Hst c) Hin) as [_ [H1 H2]].
    rewrite HBo; [|apply hp_ne_markmasq; exact H1|apply hp_ne_hostports; exact H1|exact H2].
    apply HAin. right. right. apply in_or_app. right. exact Hin. }
  assert (forall x, ~ In x (markmasq :: hostports :: map cname ps ++ stale) -> tlookup x tB = tlookup x tb) as HBout.
  { intros x Hx. rewrite HBo.
    - apply HAout. exact Hx.
    - intros E. apply Hx. left. congruence.
    - intros E. apply Hx. right. left. congruence.
    - intros Hin. apply Hx. right. right. apply in_or_app. left. exact Hin. }
  assert (NoDup (map fst tB)) as HndB.
  { apply (proj2 HpB). apply (proj2 HpA). exact Hndb. }
  (* deletes of the stale chains *)
  destruct (apply_deletes [] stale tB Hnds) as [tC [HaC [HlC HpC]]].
  { intros c Hin. pose proof (proj1 (Hst c) Hin) as [_ [Hc1 Hc2]].
    split; [apply HBs; exact Hin|]. split; [apply hp_not_builtin; exact Hc1|].
    destruct (referenced c tB) eqn:Eref; [|reflexivity]. exfalso.
    apply (referenced_NoDup_iff c tB HndB) in Eref. destruct Eref as [n [rs [Hl Hr]]].
    destruct (str_eqb_spec n markmasq) as [E1|E1].
    { subst n. rewrite HBm in Hl. inversion Hl. subst rs. rewrite (mark_rule_no_hp c Hc1) in Hr. discriminate. }
    destruct (str_eqb_spec n hostports) as [E2|E2].
    { subst n. rewrite HBh in Hl. inversion Hl. subst rs. apply chain_refs_In in Hr.
      destruct Hr as [r [Hin' Hr]]. apply in_map_iff in Hin'. destruct Hin' as [p [E Hp]]. subst r.
      cbn [jump_rule r_target] in Hr. apply Hc2. rewrite <- Hr. apply in_map. exact Hp. }
    destruct (in_dec (list_eq_dec ascii_dec) n (map cname ps)) as [E3|E3].
    { apply in_map_iff in E3. destruct E3 as [p [E Hp]]. subst n. rewrite (HBp p Hp) in Hl.
      inversion Hl. subst rs. apply chain_refs_In in Hr. destruct Hr as [r [Hin' Hr]].
      destruct Hin' as [E|[E|[]]]; subst r.
      - exact (masq_rule_no_hp p c Hc1 Hr).
      - exact (dnat_rule_no_hp p c Hc1 Hr). }
    destruct (in_dec (list_eq_dec ascii_dec) n stale) as [E4|E4].
    { rewrite (HBs n E4) in Hl. inversion Hl. subst rs. discriminate. }
    assert (~ In n (markmasq :: hostports :: map cname ps ++ stale)) as Hnot.
    { intros [E|[E|Hin']]; [congruence|congruence|].
      apply in_app_or in Hin'. destruct Hin' as [Hin'|Hin']; contradiction. }
    rewrite (HBout n Hnot) in Hl.
    assert (foreign_chain n = true) as Hfn.
    { apply foreign_chain_iff. split; [|split; assumption].
      destruct (has_prefix hp_prefix n) eqn:Epn; [|reflexivity]. exfalso. apply E4. apply Hst.
      split; [|split; [exact Epn|exact E3]]. apply has_chain_In. exact (has_chain_some _ _ _ Hl). }
    apply chain_refs_In in Hr. destruct Hr as [r [Hin' Hr]].
    apply Hc2. rewrite <- Hr. apply (HFb n rs r Hl Hfn Hin'). rewrite Hr. exact Hc1. }
  assert (forall x, ~ In x stale -> tlookup x tC = tlookup x tB) as HCo.
  { intros x Hx. rewrite HlC. apply mem_false in Hx. rewrite Hx. reflexivity. }
  exists tC. split; [|split].
  - unfold setup_all. rewrite Heb. rewrite <- Estale. rewrite setup_all_batch_eq. apply restore_some.
    apply (apply_lines_app_some _ _ _ _ _ _ HaA). exact (apply_lines_app_some _ _ _ _ _ _ HaB HaC).
  - split; [|split; [|split; [|split]]].
    + intros p Hp. rewrite HCo; [exact (HBp p Hp)|].
      intros Hin. apply Hst in Hin. destruct Hin as [_ [_ H]]. apply H. apply in_map. exact Hp.
    + rewrite HCo; [exact HBh|exact Hhs].
    + rewrite HCo; [exact HBm|exact Hms].
    + intros c Hc1 Hc2. rewrite HlC. destruct (mem c stale) eqn:Em; [reflexivity|].
      apply mem_false in Em. rewrite HBout.
      * apply tlookup_None. intros Hin. apply Em. apply Hst. split; [exact Hin|split; assumption].
      * intros [E|[E|Hin]].
        -- symmetry in E. exact (hp_ne_markmasq c Hc1 E).
        -- symmetry in E. exact (hp_ne_hostports c Hc1 E).
        -- apply in_app_or in Hin. destruct Hin as [Hin|Hin]; contradiction.
    + intros c Hc. rewrite Heb. cbn [fst].
      pose proof (proj1 (foreign_chain_iff c) Hc) as [Hc1 [Hc2 Hc3]].
      assert (~ In c stale) as Hcs.
      { intros Hin. apply Hst in Hin. destruct Hin as [_ [H _]]. congruence. }
      rewrite HCo by exact Hcs. apply HBout.
      intros [E|[E|Hin]]; [congruence|congruence|].
      apply in_app_or in Hin. destruct Hin as [Hin|Hin]; [|contradiction].
      apply Hnp in Hin. congruence.
  - apply (proj2 HpC). exact HndB.
Qed.

Lemma setup_all_exact_l : forall (t : table) (ps : list port),
  sync_pre cname ps t ->
  exists t', setup_all cname ps t = (t', true) /\ sync_post cname ps t t'.
Proof.
  intros t ps Hpre. destruct (setup_all_exact_strong t ps Hpre) as [t' [H1 [H2 _]]].
  exists t'. split; assumption.
Qed.

Lemma setup_all_idem_l : forall (t t' : table) (ps : list port),
  sync_pre cname ps t -> setup_all cname ps t = (t', true) ->
  exists t'', setup_all cname ps t' = (t'', true) /\ forall c, tlookup c t'' = tlookup c t'.
Proof.
  intros t t' ps Hpre Hrun.
  destruct (setup_all_exact_strong t ps Hpre) as [t1 [Hr1 [Hpost Hnd1]]].
  rewrite Hrun in Hr1. inversion Hr1. subst t1. clear Hr1.
  destruct Hpre as [Hnd [Hndn [Hpref [Hplain [Hout [Hprer Hforeign]]]]]].
  destruct (ensure_basic_ok t Hout Hprer) as [tb [Heb [Hpb [Hbh [Hbo [Hpo Hpp]]]]]].
  pose proof (ensure_basic_foreign t tb (map cname ps) Hbo Hforeign) as HFb.
  destruct Hpost as [P1 [P2 [P3 [P4 P5]]]]. rewrite Heb in P5. cbn [fst] in P5.
  assert (has_portal (L "OUTPUT") t') as Hpo'.
  { destruct Hpo as [ro [H1 H2]]. exists ro. split; [|exact H2]. rewrite P5; [exact H1|exact output_foreign]. }
  assert (has_portal (L "PREROUTING") t') as Hpp'.
  { destruct Hpp as [rp [H1 H2]]. exists rp. split; [|exact H2]. rewrite P5; [exact H1|exact prerouting_foreign]. }
  assert (sync_pre cname ps t') as Hpre'.
  { split; [exact Hnd1|]. split; [exact Hndn|]. split; [exact Hpref|]. split; [exact Hplain|].
    split; [|split].
    - destruct Hpo' as [ro [H1 _]]. exact (has_chain_some _ _ _ H1).
    - destruct Hpp' as [rp [H1 _]]. exact (has_chain_some _ _ _ H1).
    - intros c rs r Hl Hc Hin Hpf. rewrite (P5 c Hc) in Hl. exact (HFb c rs r Hl Hc Hin Hpf). }
  destruct (setup_all_exact_strong t' ps Hpre') as [t'' [Hr2 [Hpost2 _]]].
  exists t''. split; [exact Hr2|].
  destruct Hpost2 as [Q1 [Q2 [Q3 [Q4 Q5]]]].
  rewrite (ensure_basic_fix t' (has_chain_some _ _ _ P2) Hpo' Hpp') in Q5. cbn [fst] in Q5.
  intros c.
  destruct (str_eqb_spec c hostports) as [E1|E1]; [subst c; rewrite P2, Q2; reflexivity|].
  destruct (str_eqb_spec c markmasq) as [E2|E2]; [subst c; rewrite P3, Q3; reflexivity|].
  destruct (has_prefix hp_prefix c) eqn:E3.
  - destruct (in_dec (list_eq_dec ascii_dec) c (map cname ps)) as [E4|E4].
    + apply in_map_iff in E4. destruct E4 as [p [E Hp]]. subst c. rewrite (P1 p Hp), (Q1 p Hp). reflexivity.
    + rewrite (P4 c E3 E4), (Q4 c E3 E4). reflexivity.
  - apply Q5. apply foreign_chain_iff. split; [exact E3|split; assumption].
Qed.

End Tables.

(** ================================================================== a concrete instance *)
Definition example_cname (p : port) : str :=
  if p_host p =? 8080 then L "KUBE-HP-AAAAAAAAAAAAAAAA"
  else if p_host p =? 8443 then L "KUBE-HP-BBBBBBBBBBBBBBBB"
  else L "KUBE-HP-CCCCCCCCCCCCCCCC".

Definition example_ports : list port :=
  [mkPort 8080 80 (L "TCP") [] (L "web-0") (L "10.0.0.5")].
Definition example_new_ports : list port :=
  [mkPort 8443 443 (L "TCP") [] (L "api-0") (L "10.0.0.6")].

Definition example_accept : rule := mkRule [] [] [] [] [] (L "ACCEPT") [].
Definition example_to_docker : rule := mkRule [] [] [] [] [] (L "DOCKER") [].

Definition example_table : table :=
  [ (L "PREROUTING", [example_to_docker]);
    (L "INPUT", []);
    (L "OUTPUT", []);
    (L "POSTROUTING", []);
    (hostports, [jump_rule example_cname (mkPort 8080 80 (L "TCP") [] (L "web-0") (L "10.0.0.5"))]);
    (L "KUBE-HP-AAAAAAAAAAAAAAAA",
       [masq_rule (mkPort 8080 80 (L "TCP") [] (L "web-0") (L "10.0.0.5"));
        dnat_rule (mkPort 8080 80 (L "TCP") [] (L "web-0") (L "10.0.0.5"))]);
    (L "KUBE-HP-STALESTALESTALE0",
       [dnat_rule (mkPort 9090 90 (L "TCP") [] (L "gone-0") (L "10.0.0.9"))]);
    (L "DOCKER", [example_accept]) ].

Lemma c14_example_l :
  sync_pre example_cname example_ports example_table /\
  (forall p, In p example_new_ports -> fresh_chain example_table (example_cname p)) /\
  List.length example_table = 8%nat.
Proof.
  split; [|split; [|reflexivity]].
  - unfold sync_pre. split; [|split; [|split; [|split; [|split; [|split]]]]].
    + vm_compute. repeat constructor; simpl; intuition discriminate.
    + vm_compute. repeat constructor. intros H; exact H.
    + intros p [E|[]]. subst p. vm_compute. reflexivity.
    + intros p [E|[]]. subst p. unfold proto_plain. intros E. vm_compute in E. discriminate.
    + vm_compute. reflexivity.
    + vm_compute. reflexivity.
    + intros c rs r Hl Hf Hin Hpf. apply tlookup_In in Hl. unfold example_table in Hl.
      repeat (destruct Hl as [Hl|Hl];
              [inversion Hl; subst c rs; clear Hl;
               try (vm_compute in Hf; discriminate);
               repeat (destruct Hin as [Hin|Hin]; [subst r; vm_compute in Hpf; discriminate|]);
               contradiction|]).
      contradiction.
  - intros p [E|[]]. subst p. unfold fresh_chain. vm_compute. repeat split; reflexivity.
Qed.
