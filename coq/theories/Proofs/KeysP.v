(** Proofs about Model/Keys.v: shape of generated keys, injectivity, parse/format and
    list/release round trips. *)
From Coq Require Import List Ascii String NArith Bool Lia.
From Galaxy.Base Require Import Strs.
From Galaxy.Model Require Import Keys.
Import ListNotations.

(** ---- strings ---- *)
Lemma free_app c a b : free c a -> free c b -> free c (a ++ b).
Proof. unfold free. intros Ha Hb Hin. apply in_app_or in Hin. tauto. Qed.
Lemma free_app_l c a b : free c (a ++ b) -> free c a.
Proof. unfold free. intros H Hin. apply H. apply in_or_app. tauto. Qed.
Lemma free_nil c : free c [].
Proof. intros H. inversion H. Qed.

Lemma split_aux_app_sep c a b cur : split_aux c (a ++ c :: b) cur = split_aux c a cur ++ split c b.
Proof.
  revert cur. induction a as [|x a IH]; intros cur; simpl.
  - rewrite Ascii.eqb_refl. reflexivity.
  - destruct (Ascii.eqb x c); [simpl; f_equal|]; apply IH.
Qed.
Lemma split_app_sep c a b : split c (a ++ c :: b) = split c a ++ split c b.
Proof. apply split_aux_app_sep. Qed.
Lemma split_free c p : free c p -> split c p = [p].
Proof. intros H. apply (split_join c [p]); [discriminate|repeat constructor; assumption]. Qed.

Lemma cut_aux_some c s cur a b : cut_aux c s cur = Some (a, b) -> rev cur ++ s = a ++ c :: b /\ (free c (rev cur) -> free c a).
Proof.
  revert cur. induction s as [|x s IH]; intros cur H; simpl in H; [discriminate|].
  destruct (Ascii.eqb_spec x c) as [->|Hne].
  - inversion H; subst. split; [reflexivity|tauto].
  - apply IH in H. simpl in H. rewrite <- app_assoc in H. simpl in H. destruct H as [E F]. split; [exact E|].
    intros Fc. apply F. apply free_app; [assumption|]. intros [X|[]]. congruence.
Qed.
Lemma cut_some c s a b : cut c s = Some (a, b) -> s = a ++ c :: b /\ free c a.
Proof. intros H. apply cut_aux_some in H. simpl in H. destruct H as [E F]. split; [exact E|apply F, free_nil]. Qed.

Lemma has_prefix_app p s : has_prefix p (p ++ s) = true.
Proof. induction p as [|a p IH]; simpl; [reflexivity|]. rewrite Ascii.eqb_refl. exact IH. Qed.
Lemma has_prefix_inv p s : has_prefix p s = true -> exists r, s = p ++ r.
Proof.
  revert s. induction p as [|a p IH]; intros s H; simpl in H; [exists s; reflexivity|].
  destruct s as [|b s]; [discriminate|]. apply andb_prop in H. destruct H as [E H].
  apply Ascii.eqb_eq in E. subst b. destruct (IH _ H) as [r ->]. exists r. reflexivity.
Qed.

Lemma tail3_inj {A} (l1 l2 : list A) a b c a' b' c' :
  l1 ++ [a; b; c] = l2 ++ [a'; b'; c'] -> a = a' /\ b = b' /\ c = c'.
Proof.
  intros H. change [a; b; c] with ([a; b] ++ [c]) in H. change [a'; b'; c'] with ([a'; b'] ++ [c']) in H.
  rewrite !app_assoc in H. apply app_inj_tail in H. destruct H as [H ->].
  change [a; b] with ([a] ++ [b]) in H. change [a'; b'] with ([a'] ++ [b']) in H.
  rewrite !app_assoc in H. apply app_inj_tail in H. destruct H as [H ->].
  apply app_inj_tail in H. destruct H as [_ ->]. auto.
Qed.

(** ---- ASCII lower-casing: three facts by a sweep over the 256 bytes ---- *)
Lemma lower_char_facts (c : ascii) :
  lower_char (lower_char c) = lower_char c /\ (lower_char c = us -> c = us) /\ lower_char c <> "N"%char.
Proof.
  destruct c as [b0 b1 b2 b3 b4 b5 b6 b7].
  destruct b0, b1, b2, b3, b4, b5, b6, b7; vm_compute; (split; [reflexivity|split; [intros H; first [exact H|discriminate H]|discriminate]]).
Qed.
Lemma lower_idem s : lower (lower s) = lower s.
Proof. unfold lower. rewrite map_map. apply map_ext. intros c. apply lower_char_facts. Qed.
Lemma lower_free_us s : free us s -> free us (lower s).
Proof.
  unfold free, lower. intros H Hin. apply in_map_iff in Hin. destruct Hin as [c [E I]].
  apply lower_char_facts in E. subst c. contradiction.
Qed.
Lemma lower_not_null s : lower s <> noref_app.
Proof.
  destruct s as [|c s]; [discriminate|]. simpl. intros H. unfold noref_app in H. simpl in H.
  injection H as E _. exact (proj2 (proj2 (lower_char_facts c)) E).
Qed.
Lemma lower_nonempty s : s <> [] -> lower s <> [].
Proof. destruct s; [congruence|discriminate]. Qed.

(** ---- key shape ---- *)
Definition name_ok (s : str) : Prop := s <> [] /\ free us s.

Lemma is_empty_false s : s <> [] -> is_empty s = false.
Proof. destruct s; [congruence|reflexivity]. Qed.
Lemma is_empty_true s : is_empty s = true -> s = [].
Proof. destruct s; [reflexivity|discriminate]. Qed.

Lemma gen_key_app ty ns app pd pool : app <> [] ->
  gen_key ty ns app pd pool = pool_part pool ++ ty ++ ns ++ us :: app ++ us :: pd.
Proof. intros H. unfold gen_key. rewrite (is_empty_false app H), !andb_false_r. reflexivity. Qed.

(** every type prefix FormatKey can produce ends in '_' *)
Lemma get_app_type_prefix_shape kind : exists t, get_app_type_prefix kind = t ++ [us] /\ (free us kind -> free us t).
Proof.
  unfold get_app_type_prefix. destruct (_ || _).
  - exists (L "sts"). split; [reflexivity|]. intros _. vm_compute. intuition discriminate.
  - destruct (_ || _).
    + exists (L "dp"). split; [reflexivity|]. intros _. vm_compute. intuition discriminate.
    + exists (lower kind). split; [reflexivity|apply lower_free_us].
Qed.

Lemma before_last_prefix c s d : before_last c s = Some d -> exists r, s = d ++ c :: r.
Proof.
  unfold before_last. destruct (cut c (rev s)) as [[a b]|] eqn:E; [|discriminate]. intros H. inversion H; subst.
  apply cut_some in E. destruct E as [E _]. exists (rev a).
  rewrite <- (rev_involutive s), E, rev_app_distr. simpl. rewrite <- app_assoc. reflexivity.
Qed.

(** what FormatKey returns on success *)
Definition owners_ok (p : pod) : Prop := Forall (fun o => name_ok (o_name o)) (pd_owners p).
Definition kind_free (p : pod) : Prop := Forall (fun o => free us (o_kind o)) (pd_owners p).
Definition kind_nonempty (p : pod) : Prop := Forall (fun o => o_kind o <> []) (pd_owners p).

(** the type prefixes FormatKey produces *)
Inductive fk_type : str -> Prop :=
| fk_noref : fk_type noref_pfx
| fk_sts : fk_type sts_pfx
| fk_dp : fk_type dp_pfx
| fk_kind kind : kind <> [] -> fk_type (get_app_type_prefix kind).

Lemma format_key_shape p k : format_key p = Some k -> owners_ok p ->
  ko_ns k = pd_ns p /\ ko_pod k = pd_name p /\ ko_pool k = pd_pool p /\ name_ok (ko_app k) /\
  ko_key k = gen_key (ko_type k) (ko_ns k) (ko_app k) (ko_pod k) (ko_pool k) /\
  (exists t, ko_type k = t ++ [us] /\ (kind_free p -> free us t)) /\
  (kind_nonempty p -> fk_type (ko_type k)).
Proof.
  unfold format_key, owners_ok. intros H Ho. destruct (pd_owners p) as [|o os] eqn:Eo.
  - inversion H; subst; cbn. repeat split; try discriminate.
    + vm_compute. intuition discriminate.
    + exists (L "NULL"). split; [reflexivity|]. intros _. vm_compute. intuition discriminate.
    + intros _. constructor.
  - inversion Ho as [|? ? Hn _]; subst. destruct (str_eqb (o_kind o) (L "StatefulSet")).
    + inversion H; subst; cbn. repeat split; try apply Hn.
      * exists (L "sts"). split; [reflexivity|]. intros _. vm_compute. intuition discriminate.
      * intros _. constructor.
    + destruct (str_eqb_spec (o_kind o) (L "ReplicaSet")) as [Ek|Ek]; cbn in H.
      * destruct (is_empty (resolve_deployment_name p)) eqn:Ed; [discriminate|].
        inversion H; subst; cbn. repeat split.
        -- intros X. rewrite X in Ed. discriminate.
        -- unfold resolve_deployment_name. rewrite Eo. destruct os; [|apply free_nil].
           destruct (str_eqb _ _); [|apply free_nil].
           destruct (before_last "-"%char (o_name o)) as [d|] eqn:Eb; [|apply Hn].
           apply before_last_prefix in Eb. destruct Eb as [r Er]. destruct Hn as [_ Hf]. rewrite Er in Hf.
           eapply free_app_l; eassumption.
        -- exists (L "dp"). split; [reflexivity|]. intros _. vm_compute. intuition discriminate.
        -- intros _. constructor.
      * inversion H; subst; cbn. repeat split; try apply Hn.
        -- destruct (get_app_type_prefix_shape (o_kind o)) as [t [E F]]. exists t. split; [exact E|].
           intros Hk. unfold kind_free in Hk. rewrite Eo in Hk. inversion Hk; subst. auto.
        -- intros Hk. unfold kind_nonempty in Hk. rewrite Eo in Hk. inversion Hk; subst. constructor. assumption.
Qed.

(** [_]-separated fields of a generated key: whatever precedes, the last three are ns, app, pod *)
Lemma key_fields hd t ns app pd : free us ns -> free us app -> free us pd ->
  split us (hd ++ (t ++ [us]) ++ ns ++ us :: app ++ us :: pd) = split us (hd ++ t) ++ [ns; app; pd].
Proof.
  intros Fn Fa Fp.
  replace (hd ++ (t ++ [us]) ++ ns ++ us :: app ++ us :: pd) with ((hd ++ t) ++ us :: ns ++ us :: app ++ us :: pd)
    by (rewrite <- !app_assoc; reflexivity).
  rewrite split_app_sep. f_equal. rewrite split_app_sep, (split_free us ns Fn). simpl. f_equal.
  rewrite split_app_sep, (split_free us app Fa), (split_free us pd Fp). reflexivity.
Qed.

Theorem key_injective_l p q kp kq :
  format_key p = Some kp -> format_key q = Some kq ->
  name_ok (pd_ns p) -> name_ok (pd_name p) -> owners_ok p ->
  name_ok (pd_ns q) -> name_ok (pd_name q) -> owners_ok q ->
  ko_key kp = ko_key kq ->
  pd_ns p = pd_ns q /\ ko_app kp = ko_app kq /\ pd_name p = pd_name q.
Proof.
  intros Fp Fq Np Pp Op Nq Pq Oq E.
  destruct (format_key_shape _ _ Fp Op) as [Hn [Hp [_ [Ha [Hk [[t [Ht _]] _]]]]]].
  destruct (format_key_shape _ _ Fq Oq) as [Hn' [Hp' [_ [Ha' [Hk' [[t' [Ht' _]] _]]]]]].
  rewrite Hk, Hk' in E. rewrite gen_key_app in E by apply Ha. rewrite gen_key_app in E by apply Ha'.
  rewrite Ht, Ht', Hn, Hp, Hn', Hp' in E. apply (f_equal (split us)) in E.
  rewrite !key_fields in E; try (apply Np || apply Pp || apply Nq || apply Pq || apply Ha || apply Ha').
  apply tail3_inj in E. tauto.
Qed.

(** ---- ParseKey after FormatKey ---- *)
Lemma no_pool_prefix t n rest : free us t -> n <> us -> has_prefix pool_pfx (t ++ us :: n :: rest) = false.
Proof.
  intros Ft Hn. destruct (has_prefix pool_pfx (t ++ us :: n :: rest)) eqn:E; [|reflexivity].
  apply has_prefix_inv in E. destruct E as [r E].
  assert (cut us (t ++ us :: n :: rest) = Some (t, n :: rest)) as C1 by (apply cut_app; assumption).
  rewrite E in C1. change (pool_pfx ++ r) with (L "pool" ++ us :: us :: r) in C1.
  rewrite cut_app in C1 by (vm_compute; intuition discriminate). inversion C1; subst. congruence.
Qed.

Lemma resolve_fields t ns app pd : free us t -> free us ns -> free us app -> free us pd ->
  resolve_pod_key ((t ++ [us]) ++ ns ++ us :: app ++ us :: pd) = (t ++ [us], app, pd, ns).
Proof.
  intros Ft Fn Fa Fp. unfold resolve_pod_key.
  pose proof (key_fields [] t ns app pd Fn Fa Fp) as K. simpl in K. rewrite K, (split_free us t Ft). reflexivity.
Qed.

Definition pool_ok (p : pod) : Prop := free us (pd_pool p).

Theorem parse_format_l p k :
  format_key p = Some k -> name_ok (pd_ns p) -> name_ok (pd_name p) -> owners_ok p -> kind_free p -> pool_ok p ->
  parse_key (ko_key k) = k.
Proof.
  intros F Nn Np Oo Kf Pf.
  destruct (format_key_shape _ _ F Oo) as [Hn [Hp [Hpool [Ha [Hk [[t [Ht Hft]] _]]]]]]. specialize (Hft Kf).
  destruct k as [key ty ns ap pd pool]. cbn in *. subst ns pd pool ty.
  rewrite gen_key_app in Hk by apply Ha. subst key.
  destruct Nn as [Nn1 Nn2], Np as [Np1 Np2], Ha as [Ha1 Ha2]. unfold pool_ok in Pf.
  unfold parse_key, pool_part. destruct (pd_pool p) as [|c pl] eqn:Epool; cbn [is_empty].
  - cbn [List.app]. destruct (pd_ns p) as [|n ns'] eqn:Ens; [congruence|].
    replace ((t ++ [us]) ++ (n :: ns') ++ us :: ap ++ us :: pd_name p)
      with (t ++ us :: n :: (ns' ++ us :: ap ++ us :: pd_name p)) at 1 by (rewrite <- !app_assoc; reflexivity).
    rewrite no_pool_prefix; [|assumption|intros X; apply Nn2; left; auto].
    rewrite resolve_fields by assumption. reflexivity.
  - rewrite <- !app_assoc. rewrite has_prefix_app. change (skipn 6 (pool_pfx ++ ?x)) with x.
    cbn [List.app]. 
    replace (c :: pl ++ us :: t ++ us :: pd_ns p ++ us :: ap ++ us :: pd_name p)
      with ((c :: pl) ++ us :: (t ++ [us]) ++ pd_ns p ++ us :: ap ++ us :: pd_name p)
      by (rewrite <- !app_assoc; reflexivity).
    rewrite cut_app by assumption. rewrite resolve_fields by assumption. reflexivity.
Qed.

(** ---- the list entry of a key, posted back ---- *)
Lemma str_eqb_eq a b : str_eqb a b = true -> a = b.
Proof. destruct (str_eqb_spec a b); [auto|discriminate]. Qed.
Lemma str_eqb_neq a b : a <> b -> str_eqb a b = false.
Proof. destruct (str_eqb_spec a b); [contradiction|reflexivity]. Qed.

Lemma get_app_type_prefix_lower l : lower l = l -> l <> [] ->
  release_prefix fixed_kflags (get_app_type (get_app_type_prefix l)) = get_app_type_prefix l.
Proof.
  intros Hl Hne. unfold get_app_type_prefix. rewrite Hl.
  destruct (str_eqb l (L "statefulset") || str_eqb l (L "statefulsets")) eqn:E1; [reflexivity|].
  destruct (str_eqb l (L "replicaset") || str_eqb l (L "deployment")) eqn:E2; [reflexivity|].
  unfold get_app_type.
  destruct (str_eqb (l ++ [us]) dp_pfx) eqn:Ed; [apply str_eqb_eq in Ed; rewrite Ed; reflexivity|].
  destruct (str_eqb (l ++ [us]) sts_pfx) eqn:Es; [apply str_eqb_eq in Es; rewrite Es; reflexivity|].
  rewrite removelast_last. unfold release_prefix. cbn [fixed_kflags f5_omitted_is_sts f6_null_exact].
  rewrite (is_empty_false l Hne). cbn [andb].
  rewrite (str_eqb_neq l noref_app) by (rewrite <- Hl; apply lower_not_null).
  unfold get_app_type_prefix. rewrite Hl, E1, E2. reflexivity.
Qed.

Lemma type_roundtrip ty : fk_type ty -> release_prefix fixed_kflags (get_app_type ty) = ty.
Proof.
  intros H. destruct H as [| | |kind Hk]; try reflexivity.
  assert (get_app_type_prefix kind = get_app_type_prefix (lower kind)) as E
    by (unfold get_app_type_prefix; rewrite lower_idem; reflexivity).
  rewrite E. apply get_app_type_prefix_lower; [apply lower_idem|apply lower_nonempty; assumption].
Qed.

(** the three kinds of keys IPAM stores for a pod: the pod's key, its pool prefix, its app prefix *)
Definition stored_keys (k : keyobj) : list str := [ko_key k; pool_prefix k; pool_app_prefix k].

Lemma resolve_empty : resolve_pod_key [] = ([], [], [], []).
Proof. reflexivity. Qed.

Lemma convert_pool_key pool t ns ap pd :
  pool <> [] -> free us pool -> free us t -> free us ns -> free us ap -> free us pd ->
  convert (pool_pfx ++ pool ++ us :: (t ++ [us]) ++ ns ++ us :: ap ++ us :: pd) =
  {| e_ns := ns; e_app := ap; e_pod := pd; e_pool := pool; e_type := get_app_type (t ++ [us]) |}.
Proof.
  intros Hp Fp Ft Fn Fa Fd. unfold convert, parse_key. rewrite has_prefix_app.
  change (skipn 6 (pool_pfx ++ ?x)) with x. rewrite cut_app by assumption.
  rewrite resolve_fields by assumption. reflexivity.
Qed.

Lemma convert_plain_key t n ns' ap pd :
  free us t -> n <> us -> free us (n :: ns') -> free us ap -> free us pd ->
  convert ((t ++ [us]) ++ (n :: ns') ++ us :: ap ++ us :: pd) =
  {| e_ns := n :: ns'; e_app := ap; e_pod := pd; e_pool := []; e_type := get_app_type (t ++ [us]) |}.
Proof.
  intros Ft Hn Fn Fa Fd. unfold convert, parse_key.
  assert (has_prefix pool_pfx ((t ++ [us]) ++ (n :: ns') ++ us :: ap ++ us :: pd) = false) as E.
  { replace ((t ++ [us]) ++ (n :: ns') ++ us :: ap ++ us :: pd)
      with (t ++ us :: n :: (ns' ++ us :: ap ++ us :: pd)) by (rewrite <- !app_assoc; reflexivity).
    apply no_pool_prefix; assumption. }
  rewrite E. rewrite resolve_fields by assumption. reflexivity.
Qed.

Theorem list_release_roundtrip_l p k :
  format_key p = Some k -> name_ok (pd_ns p) -> name_ok (pd_name p) -> owners_ok p ->
  kind_free p -> kind_nonempty p -> pool_ok p ->
  forall key, In key (stored_keys k) -> release_key fixed_kflags (convert key) = key.
Proof.
  intros F Nn Np Oo Kf Kn Pf key Hin.
  destruct (format_key_shape _ _ F Oo) as [Hn [Hp [Hpool [Ha [Hk [[t [Ht Hft]] Hty]]]]]].
  specialize (Hft Kf). specialize (Hty Kn). apply type_roundtrip in Hty.
  destruct k as [kk ty ns ap pd pool]. cbn in *. subst ns pd pool.
  rewrite gen_key_app in Hk by apply Ha. subst kk.
  destruct Nn as [Nn1 Nn2], Np as [Np1 Np2], Ha as [Ha1 Ha2]. unfold pool_ok in Pf.
  assert (free us ([] : str)) as Fnil by apply free_nil.
  unfold pool_prefix, pool_app_prefix, pool_part in *. cbn [ko_pool ko_type ko_ns ko_app ko_pod] in *.
  destruct (pd_ns p) as [|n ns'] eqn:Ens; [congruence|].
  assert (n <> us) as Hnus by (intros X; apply Nn2; left; auto).
  destruct (pd_pool p) as [|c pl] eqn:Epool; cbn [is_empty] in *; subst ty.
  - (* no pool: the pod key, and (twice) the prefix type_ns_app_ *)
    assert (release_key fixed_kflags (convert ((t ++ [us]) ++ (n :: ns') ++ us :: ap ++ [us])) =
            (t ++ [us]) ++ (n :: ns') ++ us :: ap ++ [us]) as Epfx.
    { rewrite (convert_plain_key t n ns' ap []) by assumption.
      unfold release_key. cbn [e_type e_ns e_app e_pod e_pool]. rewrite Hty, gen_key_app by assumption. reflexivity. }
    destruct Hin as [<-|[<-|[<-|[]]]]; [|exact Epfx|exact Epfx].
    rewrite !app_nil_l. rewrite (convert_plain_key t n ns' ap (pd_name p)) by assumption.
    unfold release_key. cbn [e_type e_ns e_app e_pod e_pool]. rewrite Hty, gen_key_app by assumption. reflexivity.
  - assert (c :: pl <> []) as Hpne by discriminate.
    destruct Hin as [<-|[<-|[<-|[]]]].
    + rewrite <- !app_assoc. cbn [List.app].
      replace (pool_pfx ++ c :: pl ++ us :: t ++ us :: n :: ns' ++ us :: ap ++ us :: pd_name p)
        with (pool_pfx ++ (c :: pl) ++ us :: (t ++ [us]) ++ (n :: ns') ++ us :: ap ++ us :: pd_name p)
        by (rewrite <- !app_assoc; reflexivity).
      rewrite convert_pool_key by assumption.
      unfold release_key. cbn [e_type e_ns e_app e_pod e_pool]. rewrite Hty, gen_key_app by assumption.
      unfold pool_part. cbn [is_empty]. rewrite <- !app_assoc. reflexivity.
    + (* pool__<pool>_ : all other fields empty, type omitted *)
      unfold convert, parse_key. rewrite has_prefix_app. change (skipn 6 (pool_pfx ++ ?x)) with x.
      rewrite cut_app by assumption. reflexivity.
    + replace (pool_pfx ++ (c :: pl) ++ us :: (t ++ [us]) ++ (n :: ns') ++ us :: ap ++ [us])
        with (pool_pfx ++ (c :: pl) ++ us :: (t ++ [us]) ++ (n :: ns') ++ us :: ap ++ us :: []) by reflexivity.
      rewrite convert_pool_key by assumption.
      unfold release_key. cbn [e_type e_ns e_app e_pod e_pool]. rewrite Hty, gen_key_app by assumption.
      unfold pool_part. cbn [is_empty]. rewrite <- !app_assoc. reflexivity.
Qed.

(** "app type omitted means statefulset" *)
Theorem blank_type_is_statefulset_l e :
  release_key fixed_kflags (blank_type e) = gen_key sts_pfx (e_ns e) (e_app e) (e_pod e) (e_pool e) /\
  release_key fixed_kflags (blank_type e) =
  release_key fixed_kflags {| e_ns := e_ns e; e_app := e_app e; e_pod := e_pod e; e_pool := e_pool e;
                              e_type := L "statefulset" |}.
Proof. split; reflexivity. Qed.

(** ---- release exactness ---- *)
Theorem release_exact_l fl e cur found :
  api_release fl e cur found = RReleased -> cur = Some (release_key fl e).
Proof.
  unfold api_release. destruct (negb (releasable e found)); [discriminate|].
  destruct cur as [c|].
  - destruct (str_eqb_spec c (release_key fl e)) as [->|]; [reflexivity|]. destruct (is_empty c); discriminate.
  - destruct (is_empty _); discriminate.
Qed.

(** posting the listed entry of pod q's key against an IP currently owned by pod p releases it
    only if p and q are the same (namespace, app, pod name) *)
Theorem release_exact_owner_l p kp q kq found :
  format_key p = Some kp -> name_ok (pd_ns p) -> name_ok (pd_name p) -> owners_ok p ->
  format_key q = Some kq -> name_ok (pd_ns q) -> name_ok (pd_name q) -> owners_ok q ->
  kind_free q -> kind_nonempty q -> pool_ok q ->
  api_release fixed_kflags (convert (ko_key kq)) (Some (ko_key kp)) found = RReleased ->
  pd_ns p = pd_ns q /\ ko_app kp = ko_app kq /\ pd_name p = pd_name q.
Proof.
  intros Fp Np Pp Op Fq Nq Pq Oq Kf Kn Pl R. apply release_exact_l in R. inversion R as [E].
  rewrite (list_release_roundtrip_l q kq Fq Nq Pq Oq Kf Kn Pl (ko_key kq)) in E by (left; reflexivity).
  eapply key_injective_l; eassumption.
Qed.

(** ---- witnesses ---- *)
Definition pod_k4 : pod :=
  {| pd_name := L "dp-abc-x"; pd_ns := L "ns1";
     pd_owners := [{| o_kind := L "ReplicaSet"; o_name := L "dp-abc" |}]; pd_pool := L "my_pool" |}.
Definition pod_bare : pod := {| pd_name := L "bare-0"; pd_ns := L "ns1"; pd_owners := []; pd_pool := [] |}.
Definition pod_sts : pod :=
  {| pd_name := L "sts-0"; pd_ns := L "ns1"; pd_owners := [{| o_kind := L "StatefulSet"; o_name := L "sts" |}];
     pd_pool := [] |}.

Lemma small_name_ok s : (negb (is_empty s) && negb (contains_char us s))%bool = true -> name_ok s.
Proof.
  intros H. apply andb_prop in H. destruct H as [H1 H2]. split.
  - destruct s; [discriminate|discriminate].
  - apply contains_char_false. destruct (contains_char us s); [discriminate|reflexivity].
Qed.

Theorem parse_format_refuted_pool_underscore_l :
  exists p k, format_key p = Some k /\ name_ok (pd_ns p) /\ name_ok (pd_name p) /\ owners_ok p /\ kind_free p /\
              ko_key k = L "pool__my_pool_dp_ns1_dp_dp-abc-x" /\ ko_pool k = L "my_pool" /\
              ko_pool (parse_key (ko_key k)) = L "my" /\ ko_app (parse_key (ko_key k)) = [] /\
              parse_key (ko_key k) <> k.
Proof.
  exists pod_k4. eexists. split; [vm_compute; reflexivity|].
  split; [apply small_name_ok; reflexivity|]. split; [apply small_name_ok; reflexivity|].
  split; [repeat constructor; apply small_name_ok; reflexivity|].
  split; [repeat constructor; apply contains_char_false; reflexivity|].
  repeat split; try (vm_compute; reflexivity). vm_compute. intros H. discriminate H.
Qed.

Theorem list_release_refuted_pool_underscore_l :
  exists p k, format_key p = Some k /\ name_ok (pd_ns p) /\ name_ok (pd_name p) /\ owners_ok p /\
              release_key fixed_kflags (convert (ko_key k)) = L "pool__my_" /\
              release_key fixed_kflags (convert (ko_key k)) <> ko_key k.
Proof.
  exists pod_k4. eexists. split; [vm_compute; reflexivity|].
  split; [apply small_name_ok; reflexivity|]. split; [apply small_name_ok; reflexivity|].
  split; [repeat constructor; apply small_name_ok; reflexivity|].
  split; [vm_compute; reflexivity|]. vm_compute. intros H. discriminate H.
Qed.

(** F5 on the pinned commit: the blanked entry of a statefulset pod addresses the key _ns1_sts_sts-0 *)
Theorem list_release_refuted_omitted_type_l :
  exists p k, format_key p = Some k /\
              release_key {| f5_omitted_is_sts := false; f6_null_exact := true |} (blank_type (convert (ko_key k)))
              = L "_ns1_sts_sts-0" /\
              gen_key sts_pfx (L "ns1") (L "sts") (L "sts-0") [] = ko_key k /\
              api_release {| f5_omitted_is_sts := false; f6_null_exact := true |}
                          (blank_type (convert (ko_key k))) (Some (ko_key k)) false = ROther.
Proof. exists pod_sts. eexists. split; [vm_compute; reflexivity|]. repeat split; vm_compute; reflexivity. Qed.

(** F6 on the pinned commit: the listed entry of a pod without owner addresses the key null_ns1_NULL_bare-0 *)
Theorem list_release_refuted_null_type_l :
  exists p k, format_key p = Some k /\ ko_key k = L "NULL_ns1_NULL_bare-0" /\
              release_key {| f5_omitted_is_sts := true; f6_null_exact := false |} (convert (ko_key k))
              = L "null_ns1_NULL_bare-0" /\
              api_release {| f5_omitted_is_sts := true; f6_null_exact := false |}
                          (convert (ko_key k)) (Some (ko_key k)) false = ROther.
Proof. exists pod_bare. eexists. split; [vm_compute; reflexivity|]. repeat split; vm_compute; reflexivity. Qed.

(** the hypotheses of the key theorems are met by a concrete non-trivial pod *)
Definition pod_example : pod :=
  {| pd_name := L "dp1234567890dp1234567890dp1234567890dp1234567890dp1234567848p74"; pd_ns := L "kube-system";
     pd_owners := [{| o_kind := L "ReplicaSet";
                      o_name := L "dp1234567890dp1234567890dp1234567890dp1234567890dp1234567890dp1-69fd8dbc5c" |}];
     pd_pool := L "my-pool" |}.
Lemma example_pod_ok :
  exists k, format_key pod_example = Some k /\ name_ok (pd_ns pod_example) /\ name_ok (pd_name pod_example) /\
            owners_ok pod_example /\ kind_free pod_example /\ kind_nonempty pod_example /\ pool_ok pod_example /\
            ko_app k = L "dp1234567890dp1234567890dp1234567890dp1234567890dp1234567890dp1" /\
            List.length (ko_key k) = 156%nat.
Proof.
  eexists. split; [vm_compute; reflexivity|].
  split; [apply small_name_ok; reflexivity|]. split; [apply small_name_ok; reflexivity|].
  split; [repeat constructor; apply small_name_ok; reflexivity|].
  split; [repeat constructor; apply contains_char_false; reflexivity|].
  split; [repeat constructor; discriminate|].
  split; [apply contains_char_false; reflexivity|]. split; vm_compute; reflexivity.
Qed.
