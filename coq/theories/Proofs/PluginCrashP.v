(** C05, second half, at the scheduler-plugin level: the process dies between two API calls of a section
    and is restarted (Model/PluginCrash.v).

    After a restart both tables are a function of the STORE alone ([restart_from_store_tables]), so the
    world invariant of the restarted process follows from a relation between the store the dead process
    left behind and the store of a world that satisfied [WInv]: nothing that existed was altered, and
    every additional object is keyed [K] with stored uid [U] such that a live bound pod with key [K] has
    uid [U] ([winv_restart_from_store]).  [winv_restart] is the instance "no additional object"; Bind dying
    inside its multi-IP allocation ([bind_crash]) is the instance "a prefix of the picks, keyed by the
    informer's pod with its uid" - a live bound pod with that key IS the informer's pod ([wi_seen]). *)
From Coq Require Import String.
From stdpp Require Import gmap.
From Galaxy.Base Require Import Strs.
From Galaxy.Model Require Import Nets Pool Ipam Plugin PluginCrash.
From Galaxy.Model Require Keys.
From Galaxy.Proofs Require Import IpamP PluginInv PluginInvL PluginKeyFacts PluginIpamFacts PluginEnvP PluginBindP
  PluginP PluginPolicyP PluginWitness.
Local Open Scope N_scope.

(** ** the store a (partially executed) create phase leaves *)

(** nothing that existed is touched; every additional object is the entry the request creates *)
Lemma create_all_store key a t : ∀ ips st nfail st' created ok,
  create_all st key a t ips nfail = (st', created, ok) →
  (∀ x o, st !! x = Some o → st' !! x = Some o) ∧
  (∀ x o, st' !! x = Some o → st !! x = Some o ∨ (st !! x = None ∧ o = mk_entry key a false t)).
Proof.
  induction ips as [|y ips IH]; intros st nfail st' created ok H; simpl in H.
  - inversion H; subst. split; auto.
  - assert (Hstep : ∀ nf st2 cr2 ok2, st !! y = None →
              create_all (<[y := mk_entry key a false t]> st) key a t ips nf = (st2, cr2, ok2) →
              (∀ x o, st !! x = Some o → st2 !! x = Some o) ∧
              (∀ x o, st2 !! x = Some o → st !! x = Some o ∨ (st !! x = None ∧ o = mk_entry key a false t))).
    { intros nf st2 cr2 ok2 Ey E. destruct (IH _ _ _ _ _ E) as [Hk Hn]. split.
      - intros x o Hx. apply Hk. destruct (decide (x = y)) as [->|Hne]; [congruence|by rewrite lookup_insert_ne].
      - intros x o Hx. destruct (Hn x o Hx) as [H1|[H1 H2]].
        + destruct (decide (x = y)) as [->|Hne].
          * rewrite lookup_insert in H1. injection H1 as <-. by right.
          * rewrite lookup_insert_ne in H1 by done. by left.
        + destruct (decide (x = y)) as [->|Hne]; [rewrite lookup_insert in H1; discriminate|].
          rewrite lookup_insert_ne in H1 by done. by right. }
    destruct nfail as [[|n]|].
    + inversion H; subst. split; auto.
    + unfold st_create in H. destruct (st !! y) eqn:Ey; [inversion H; subst; split; auto|].
      destruct (create_all _ key a t ips (Some n)) as [[st2 cr2] ok2] eqn:E. inversion H; subst.
      by apply (Hstep (Some n) _ cr2 ok).
    + unfold st_create in H. destruct (st !! y) eqn:Ey; [inversion H; subst; split; auto|].
      destruct (create_all _ key a t ips None) as [[st2 cr2] ok2] eqn:E. inversion H; subst.
      by apply (Hstep None _ cr2 ok).
Qed.

(** ** the restarted crdIpam: the tables are a function of the store only *)

Lemma step_restart_ok s conf ps : decode_pools conf = Some ps → (step s (ORestart conf)).1.1 = restart s ps.
Proof. intros E. simpl. by rewrite E. Qed.

Lemma step_restart_bad s conf : decode_pools conf = None → (step s (ORestart conf)).1.1 = s.
Proof. intros E. simpl. by rewrite E. Qed.

(** whatever the memory of the dead process was - no premise on [s] *)
Lemma restart_from_store_tables s ps : pools_ok ps →
  Inv2 (restart s ps) ∧
  (∀ x, configured ps x = true → i_alloc (restart s ps) !! x = i_store s !! x) ∧
  (∀ x, configured ps x = false → i_alloc (restart s ps) !! x = None).
Proof.
  intros Hok. unfold restart.
  match goal with |- Inv2 (configure_with ?s0 _ _ _) ∧ _ =>
    pose proof (inv2_configure_with s0 ps Hok eq_refl) as H2;
    destruct (reload_lossless_l s0 ps ∅ Hok) as [Hin Hout] end.
  split; [exact H2|]. split.
  - intros x Hx. rewrite <- configured_sort in Hx. apply (Hin x Hx).
  - intros x Hx. rewrite <- configured_sort in Hx. apply (Hout x Hx).
Qed.

(** ** the restarted world *)

Lemma restart_world_lister w conf : w_lister (restart_world w conf) = w_pods (restart_world w conf).
Proof. done. Qed.
Lemma restart_world_queue w conf : w_queue (restart_world w conf) = [].
Proof. done. Qed.
Lemma restart_world_pods w conf : w_pods (restart_world w conf) = w_pods w.
Proof. done. Qed.

(** the generalisation of [winv_restart]: [st] is the store the dead process left; it extends the store of
    a world satisfying [WInv] by objects keyed [K] with stored uid [U] *)
Lemma winv_restart_from_store w st K U conf :
  WInv w → keeps_live w conf → is_Some (decode_pools conf) →
  (∀ x o, i_store (w_ipam w) !! x = Some o → st !! x = Some o) →
  (∀ x o, st !! x = Some o → i_store (w_ipam w) !! x = Some o ∨ (e_key o = K ∧ e_uid o = U)) →
  (∀ k q, w_pods w !! k = Some q → live_bound q → pod_key q = K → pd_uid q = U) →
  WInv (restart_world (set_ipam w (set_store (w_ipam w) st)) conf).
Proof.
  intros HW Hkl [ps Eps] Hkeep Hnew Hown.
  pose proof (decode_pools_ok _ _ Eps) as Hok.
  unfold restart_world. cbn [pstep fst].
  change (w_ipam (set_ipam w (set_store (w_ipam w) st))) with (set_store (w_ipam w) st).
  rewrite (step_restart_ok _ _ _ Eps).
  destruct (restart_from_store_tables (set_store (w_ipam w) st) ps Hok) as (Hi' & Hin & Hout).
  change (i_store (set_store (w_ipam w) st)) with st in Hin.
  remember (restart (set_store (w_ipam w) st) ps) as i' eqn:Ei'. clear Ei'.
  pose proof (wi_ipam _ HW) as Hi.
  destruct HW as [H1 H2 H3 H4 H5 H6 H7]. split; simpl; try done.
  - intros k p l0 Hp Hl _. rewrite Hp in Hl. injection Hl as <-. apply same_static_refl.
  - intros k p Hp _. by exists p.
  - intros k p Hp Hlive. destruct (H7 k p Hp Hlive) as [Ho1 Ho2]. split.
    + intros x Hx. destruct (Ho1 x Hx) as (e & He & Hk & Hu).
      destruct (inv2_alloc_store _ _ _ Hi He) as (o & Ho & Hpr).
      apply proj_same_owner in Hpr as (Ek & Eu & _).
      exists o. split_and!; [|congruence..].
      rewrite Hin; [by apply Hkeep|]. apply (Hkl ps Eps k p x Hp); [apply Hlive|done].
    + intros x e' He' Hk.
      destruct (configured ps x) eqn:Ec; [|rewrite (Hout x Ec) in He'; discriminate].
      rewrite (Hin x Ec) in He'. destruct (Hnew x e' He') as [Hs|[HK HU]].
      * destruct (inv2_store_alloc _ _ _ Hi Hs) as (e & He & Hpr).
        apply proj_same_owner in Hpr as (Ek & Eu & _). rewrite <- Eu. apply (Ho2 x e He). congruence.
      * right. rewrite HU. symmetry. apply (Hown k p Hp Hlive). congruence.
Qed.

(** [winv_restart] for a decodable configuration is the instance "no additional object" *)
Lemma set_store_same s : set_store s (i_store s) = s.
Proof. by destruct s. Qed.
Lemma set_ipam_same w : set_ipam w (w_ipam w) = w.
Proof. by destruct w. Qed.

Lemma winv_restart_again w conf : WInv w → keeps_live w conf → WInv (restart_world w conf).
Proof.
  intros HW Hkl. destruct (decode_pools conf) as [ps|] eqn:Eps.
  - rewrite <- (set_ipam_same w) at 1. rewrite <- (set_store_same (w_ipam w)) at 1.
    apply (winv_restart_from_store w (i_store (w_ipam w)) [] []); try done; auto.
    intros k q Hq Hlive Hk. exfalso. destruct (wi_pods _ HW k q Hq) as [_ Wq].
    by apply (pod_key_nonempty q Wq).
  - by apply winv_restart.
Qed.

(** ** Bind dying inside its multi-IP allocation *)

(** what [bind_crash] leaves: the world with a store that extends the old one by objects keyed by the
    informer's pod and stored for its uid, at IPs that had no object *)
Lemma bind_crash_store w ns name uid node k wc : bind_crash w ns name uid node k = Some wc →
  ∃ l st, w_lister w !! (ns, name) = Some l ∧ wc = set_ipam w (set_store (w_ipam w) st) ∧
    (∀ x o, i_store (w_ipam w) !! x = Some o → st !! x = Some o) ∧
    (∀ x o, st !! x = Some o → i_store (w_ipam w) !! x = Some o ∨
            (i_store (w_ipam w) !! x = None ∧ e_key o = pod_key l ∧ e_uid o = pd_uid l ∧
             e_policy o = policy_of l ∧ e_node o = node ∧ e_reserved o = false)).
Proof.
  unfold bind_crash. destruct (w_lister w !! (ns, name)) as [l|] eqn:El; [|done].
  destruct (negb _); [done|]. cbv zeta.
  destruct (pd_ranges l) as [|r0 rss] eqn:Er; [done|].
  destruct (existsb _ _); [done|].
  match goal with |- context [List.concat ?m] => generalize (List.concat m) end.
  intros missing. destruct missing as [|m0 ms]; [done|].
  destruct (w_nodes w !! node) as [nip|]; [|done].
  destruct (node_subnet _ nip) as [sn|]; [|done].
  unfold alloc_ranges_crash. destruct (pick_ips _ _ _ _) as [ips|]; [|done].
  intros [= <-].
  match goal with |- context [create_all ?s ?ky ?a ?t ?l0 ?nf] =>
    destruct (create_all s ky a t l0 nf) as [[st' cr] ok] eqn:E end.
  exists l, st'. split; [done|]. split; [done|].
  apply create_all_store in E as [Hk Hn]. split; [exact Hk|].
  intros x o Hx. destruct (Hn x o Hx) as [?|[Hnone ->]]; [by left|]. right. done.
Qed.

Lemma crash_in_bind_restart_safe_l w ns name uid node k wc conf :
  WInv w → bind_crash w ns name uid node k = Some wc → keeps_live w conf → is_Some (decode_pools conf) →
  WInv (restart_world wc conf).
Proof.
  intros HW Hc Hkl Hdec. destruct (bind_crash_store _ _ _ _ _ _ _ Hc) as (l & st & El & -> & Hkeep & Hnew).
  apply (winv_restart_from_store w st (pod_key l) (pd_uid l)); try done.
  - intros x o Hx. destruct (Hnew x o Hx) as [?|(_ & ? & ? & _)]; auto.
  - intros kq q Hq Hlive Hk.
    destruct (wi_pods _ HW kq q Hq) as [Hpk Wq]. destruct (wi_lister _ HW _ l El) as [Hpl Wl].
    assert (Hkk : pk q = pk l) by (by apply pod_key_inj).
    destruct (wi_seen _ HW kq q Hq (proj2 Hlive)) as (l' & Hl' & Hu).
    assert (El2 : w_lister w !! kq = Some l) by (rewrite <- Hpk, Hkk, Hpl; exact El).
    pose proof (eq_trans (eq_sym El2) Hl') as Hll. by injection Hll as <-.
Qed.

(** a process death at any other call = that call failing cleanly, then a restart *)
Lemma crash_elsewhere_restart_safe_l w o conf :
  WInv w → wf_op w o → keeps_live (pstep w o).1 conf → WInv (restart_world (pstep w o).1 conf).
Proof. intros HW Hwf Hkl. apply winv_restart; [by apply winv_step|done]. Qed.

(** ** what the invariant of the restarted world promises *)

Lemma after_restart_no_double_owner_l w' : WInv w' →
  (∀ x, x ∈ i_unalloc (w_ipam w') → i_alloc (w_ipam w') !! x = None) ∧
  (∀ k1 k2 p q x, w_pods w' !! k1 = Some p → w_pods w' !! k2 = Some q → k1 ≠ k2 → live_bound p → live_bound q →
                  x ∈ pd_ips p → x ∉ pd_ips q).
Proof.
  intros HW. split.
  - intros x. by apply one_owner_l.
  - intros k1 k2 p q x Hp Hq Hne Hlp Hlq Hxp Hxq. exact (live_pods_disjoint_l w' k1 k2 p q x HW Hp Hq Hne Hlp Hlq Hxp Hxq).
Qed.

Lemma after_restart_resync_no_leak_l w conf items w' :
  WInv (restart_world w conf) →
  (∀ x, is_Some (i_alloc (w_ipam (restart_world w conf)) !! x) → x ∈ items) →
  resync_pass (restart_world w conf) items w' →
  ∀ x e q, i_alloc (w_ipam w') !! x = Some e → wf_pod q → e_key e = pod_key q → e_policy e ≤ 2 →
           resync_skip e (keyobj_of q) = false → pod_gone w' q (e_uid e) →
           policy_verdict w' (keyobj_of q) (e_policy e) = KeepForPod.
Proof. intros HW. apply resync_pass_no_orphans_l; [done|apply restart_world_lister]. Qed.

(** ** non-vacuity: a pod requesting two ranges, both free; Bind dies after the first of its two creations *)
Definition h_crash : list pop := [
  PIpam (OConfigure conf1 false []);
  PEnv (EStsSet (L "ns1", L "web") (Some 1));
  PEnv (EPodPut (spod "web-0" "uA" [[(ip2, ip2)]; [(ip5, ip5)]]));
  PEnv (EInformer web0) ].
Definition w_crash : world := prun (world0 false nodes1) h_crash.
Definition wc_crash : world := Eval vm_compute in
  match bind_crash w_crash (L "ns1") (L "web-0") (L "uA") (L "node1") 1 with Some wc => wc | None => w_crash end.

Lemma wc_crash_eq : bind_crash w_crash (L "ns1") (L "web-0") (L "uA") (L "node1") 1 = Some wc_crash.
Proof. vm_compute. reflexivity. Qed.

Lemma crash_example :
  wf_hist (world0 false nodes1) h_crash ∧
  ∃ wc, bind_crash w_crash (L "ns1") (L "web-0") (L "uA") (L "node1") 1 = Some wc ∧
    size (i_store (w_ipam wc)) = S (size (i_store (w_ipam w_crash))) ∧
    i_store (w_ipam w_crash) !! ip2 = None ∧ i_store (w_ipam wc) !! ip5 = None ∧
    (∃ o, i_store (w_ipam wc) !! ip2 = Some o ∧ e_key o = L "sts_ns1_web_web-0" ∧ e_uid o = L "uA") ∧
    i_alloc (w_ipam wc) = i_alloc (w_ipam w_crash) ∧ i_unalloc (w_ipam wc) = i_unalloc (w_ipam w_crash) ∧
    bool_decide (ip2 ∈ i_unalloc (w_ipam wc)) = true ∧
    keeps_live w_crash conf1 ∧
    (∃ e, i_alloc (w_ipam (restart_world wc conf1)) !! ip2 = Some e ∧ e_key e = L "sts_ns1_web_web-0" ∧ e_uid e = L "uA") ∧
    bool_decide (ip2 ∈ i_unalloc (w_ipam (restart_world wc conf1))) = false ∧
    i_alloc (w_ipam (restart_world wc conf1)) !! ip5 = None ∧
    WInv (restart_world wc conf1).
Proof.
  assert (Hwf : wf_hist (world0 false nodes1) h_crash) by (apply wf_hist_b_sound; vm_compute; reflexivity).
  split; [exact Hwf|].
  exists wc_crash. split; [exact wc_crash_eq|].
  assert (Hkl : keeps_live w_crash conf1) by (apply keeps_live_b_sound; vm_compute; reflexivity).
  split; [vm_compute; reflexivity|]. split; [vm_compute; reflexivity|]. split; [vm_compute; reflexivity|].
  split; [eexists; split; [vm_compute; reflexivity|split; vm_compute; reflexivity]|].
  split; [vm_compute; reflexivity|]. split; [vm_compute; reflexivity|]. split; [vm_compute; reflexivity|].
  split; [exact Hkl|].
  split; [eexists; split; [vm_compute; reflexivity|split; vm_compute; reflexivity]|].
  split; [vm_compute; reflexivity|]. split; [vm_compute; reflexivity|].
  apply (crash_in_bind_restart_safe_l w_crash _ _ _ _ _ _ _ (winv_reachable _ _ _ Hwf) wc_crash_eq Hkl).
  vm_compute. eexists. reflexivity.
Qed.

(** why the restarted process must have a configuration it can decode: with an undecodable one the model's
    [ORestart] changes nothing ("Init fails"), i.e. the dead process's memory would still be there next to the
    store it left - and that pair is NOT consistent: the created object is unknown to memory *)
Lemma crash_needs_decodable_conf :
  ∃ wc, bind_crash w_crash (L "ns1") (L "web-0") (L "uA") (L "node1") 1 = Some wc ∧
        keeps_live w_crash [JNull] ∧ decode_pools [JNull] = None ∧ ¬ WInv (restart_world wc [JNull]).
Proof.
  exists wc_crash. split; [exact wc_crash_eq|].
  split; [apply keeps_live_b_sound; vm_compute; reflexivity|]. split; [vm_compute; reflexivity|].
  intros HW. destruct (wi_ipam _ HW) as (HI & Hpe & _).
  assert (Hc : configured (i_pools (w_ipam (restart_world wc_crash [JNull]))) ip2 = true) by (vm_compute; reflexivity).
  pose proof (agree_quiescent_l _ HI Hpe ip2 Hc) as Hag. unfold agree_at in Hag.
  vm_compute in Hag. discriminate Hag.
Qed.

Print Assumptions winv_restart_from_store.
Print Assumptions crash_in_bind_restart_safe_l.
Print Assumptions crash_elsewhere_restart_safe_l.
Print Assumptions after_restart_resync_no_leak_l.
Print Assumptions crash_example.
Print Assumptions crash_needs_decodable_conf.
