(** C09, crdIpam level: an allocation request never rewrites or removes an object that is already in the store -
    in particular an administrator's reservation (label [e_reserved]), whether the informer has delivered it or not.
    The request may succeed, fail at any store call (injected fault, or AlreadyExists because of a reservation the
    process has not seen yet) or be rolled back (AllocateInSubnetsAndIPRange deletes what it created so far): the
    objects that were there before it are the same afterwards, and none of them is handed out. *)
From Coq Require Import String.
From stdpp Require Import gmap.
From Galaxy.Base Require Import Strs.
From Galaxy.Model Require Import Nets Pool Ipam.
From Galaxy.Proofs Require Import NetsP PoolP IpamP.
Local Open Scope N_scope.

(** Create, then the cache: the object is new, the others stay *)
Lemma create_both_store s x key a fail s' : create_both s x key a fail = Some s' →
  i_store s !! x = None ∧ i_store s' = <[x := mk_entry key a false (i_clock s)]> (i_store s).
Proof.
  unfold create_both, st_create. destruct fail; [discriminate|].
  destruct (i_store s !! x) eqn:Es; [discriminate|]. intros H. inversion H; subst. done.
Qed.

Lemma create_both_keeps s x key a fail s' y e : create_both s x key a fail = Some s' →
  i_store s !! y = Some e → i_store s' !! y = Some e.
Proof.
  intros H Hy. apply create_both_store in H as [Hn ->].
  destruct (decide (y = x)) as [->|Hne]; [congruence|]. by rewrite lookup_insert_ne.
Qed.

(** the IPs a request names when it does not succeed: none *)
Lemma fresh_alloc_fail_no_ips s o s' r ips : fresh_alloc_op o = true → step s o = (s', r, ips) → r ≠ AOk → ips = [].
Proof.
  intros Hf H Hr. destruct o; try discriminate; simpl in H.
  - by inversion H.
  - unfold alloc_in_subnet in H. destruct choice as [y|].
    + destruct (subnet_candidate s sn y); [|by inversion H].
      destruct (create_both s y key a fail); inversion H; subst; done.
    + destruct (forallb _ _); by inversion H.
  - by destruct (alloc_ranges_atomic_l _ _ _ _ _ _ _ _ _ H Hr).
Qed.

(** an allocation request - AllocateSpecificIP, AllocateInSubnet, AllocateInSubnetsAndIPRange; any outcome, any
    injected fault, any oracle choice - leaves every object that was in the store exactly as it was.  ([Inv s] is the
    premise asked for; the proof does not use it: the statement holds in every state.) *)
Theorem requests_keep_store_objects s o s' r ips : Inv s → fresh_alloc_op o = true →
  step s o = (s', r, ips) → ∀ x e, i_store s !! x = Some e → i_store s' !! x = Some e.
Proof.
  intros _ Hf H x e Hx. destruct o; try discriminate; simpl in H.
  - (* AllocateSpecificIP *)
    unfold alloc_specific in H. destruct (decide (ip ∈ i_unalloc s)); [|by inversion H; subst].
    destruct (create_both s ip key a fail) as [s1|] eqn:E; inversion H; subst; [|done].
    by eapply create_both_keeps.
  - (* AllocateInSubnet *)
    unfold alloc_in_subnet in H. destruct choice as [y|].
    + destruct (subnet_candidate s sn y); [|by inversion H; subst].
      destruct (create_both s y key a fail) as [s1|] eqn:E; inversion H; subst; [|done].
      by eapply create_both_keeps.
    + destruct (forallb _ _); by inversion H; subst.
  - (* AllocateInSubnetsAndIPRange: all created, or what was created is deleted again *)
    unfold alloc_ranges in H. destruct (pick_ips s sn rss []) as [L|]; [|by inversion H; subst].
    destruct (create_all (i_store s) key a (i_clock s) L nfail) as [[st created] ok] eqn:EC.
    destruct (create_all_spec _ _ _ _ _ _ _ _ _ EC) as [Hrb Hok]. destruct ok.
    + inversion H; subst; clear H. destruct (Hok eq_refl) as (_ & _ & Hnone & ->).
      destruct (fold_mem_create (mk_entry key a false (i_clock s)) ips
                  (set_store s (fold_left (λ m y, <[y:=mk_entry key a false (i_clock s)]> m) ips (i_store s))))
        as (H1 & _). simpl in *. rewrite H1, fold_insert_lookup.
      destruct (decide (x ∈ ips)) as [Hin|]; [|done]. rewrite (Hnone x Hin) in Hx. discriminate.
    + inversion H; subst; clear H. simpl. by rewrite Hrb.
Qed.

(** ... and names none of them: the IPs a request hands out had no object in the store *)
Theorem requests_never_name_stored s o s' r ips : Inv s → fresh_alloc_op o = true →
  step s o = (s', r, ips) → ∀ x, is_Some (i_store s !! x) → x ∉ ips.
Proof.
  intros HI Hf H x [e Hx] Hin. destruct (decide (r = AOk)) as [->|Hr].
  - destruct (never_hand_reserved_l _ _ _ _ HI Hf H x (or_introl Hin)) as [Hn _]. congruence.
  - rewrite (fresh_alloc_fail_no_ips _ _ _ _ _ Hf H Hr) in Hin. inversion Hin.
Qed.

(** the form of Props/C09.v *)
Theorem reservations_survive_requests_l s o s' r ips : Inv s → fresh_alloc_op o = true →
  step s o = (s', r, ips) → ∀ x e, i_store s !! x = Some e → e_reserved e = true → i_store s' !! x = Some e ∧ x ∉ ips.
Proof.
  intros HI Hf H x e Hx _. split.
  - by eapply requests_keep_store_objects.
  - eapply requests_never_name_stored; eauto.
Qed.

(** ... in every reachable state of the crdIpam model *)
Theorem reservations_survive_requests_r : ∀ ops o s' r ips, let s := run ipam0 ops in fresh_alloc_op o = true →
  step s o = (s', r, ips) → ∀ x e, i_store s !! x = Some e → e_reserved e = true → i_store s' !! x = Some e ∧ x ∉ ips.
Proof. intros ops o s' r ips s. apply reservations_survive_requests_l. apply run_inv, inv0. Qed.

(** the premises are satisfiable and every outcome occurs: one pool 10.100.0.2~10.100.0.3 ([w0] of Proofs/IpamP.v); an
    administrator reserves 10.100.0.2 and the event is not delivered yet, so the address is still free in memory.
    (1) AllocateInSubnet picks it: Create answers AlreadyExists, the request fails, the reservation is untouched;
    (2) AllocateInSubnetsAndIPRange for [10.100.0.3] and [10.100.0.2]: the first object is created, the second Create
        fails, the first is deleted again - the store is what it was;
    (3) AllocateInSubnet picks 10.100.0.3: success, the reservation is untouched and not handed out. *)
Definition resv_ip : N := 174325762.
Definition resv_sn : subnet := (167772416, 24).
Definition resv_state : ipam := admin_reserve w0 resv_ip (L "pool__reserved_"%string) 2.
Definition resv_obj : entry :=
  {| e_key := L "pool__reserved_"%string; e_policy := 2; e_node := []; e_uid := []; e_reserved := true; e_time := 2 |}.

Example reservations_survive_requests_ex :
  let s := resv_state in
  let k := L "sts_ns1_a_a-0"%string in
  Inv s ∧ map_to_list (i_store s) = [(resv_ip, resv_obj)] ∧ e_reserved resv_obj = true ∧
  bool_decide (resv_ip ∈ i_unalloc s) = true ∧ bool_decide (resv_ip ∈ i_pending s) = true ∧
  (let '(s1, r1, ips1) := step s (OAllocInSubnet k resv_sn wattr (Some resv_ip) false) in
   r1 = AErr ∧ ips1 = [] ∧ map_to_list (i_store s1) = [(resv_ip, resv_obj)]) ∧
  (let '(s2, r2, ips2) := step s (OAllocRanges k resv_sn [[(resv_ip + 1, resv_ip + 1)]; [(resv_ip, resv_ip)]] wattr None) in
   r2 = AErr ∧ ips2 = [] ∧ map_to_list (i_store s2) = [(resv_ip, resv_obj)]) ∧
  (let '(s3, r3, ips3) := step s (OAllocInSubnet k resv_sn wattr (Some (resv_ip + 1)) false) in
   r3 = AOk ∧ ips3 = [resv_ip + 1] ∧ i_store s3 !! resv_ip = Some resv_obj ∧ is_Some (i_store s3 !! (resv_ip + 1))).
Proof.
  split_and!.
  - apply admin_reserve_inv. unfold w0. apply (configure_with_inv ipam0). repeat constructor; simpl; unfold two32; lia.
  - vm_compute. reflexivity.
  - reflexivity.
  - vm_compute. reflexivity.
  - vm_compute. reflexivity.
  - vm_compute. done.
  - vm_compute. done.
  - vm_compute. split_and!; eauto.
Qed.

Print Assumptions requests_keep_store_objects.
Print Assumptions reservations_survive_requests_l.
Print Assumptions reservations_survive_requests_r.
Print Assumptions reservations_survive_requests_ex.
