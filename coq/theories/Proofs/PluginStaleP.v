(** Pod-IP sync with a pod object listed or queued EARLIER (defect F16, repaired by 08c3290).

    syncPodIP is handed a pod object: the periodic pass lists the informer's pods and then walks the list, a pod
    update handler runs some time after its event was queued.  When the pod was deleted and created again under its
    name meanwhile, the object is an earlier incarnation.  Before the repair the object was used as it was: the released
    IP of the old incarnation came back under the shared key, stored for the OLD uid, and the next resync item of that
    IP found "pod not running" and released every IP of the key - the running pod's included.  The repaired code
    ([sync_given true], the [PSyncPod] step) asks the informer again, skips an object of another UID and continues with
    the informer's current object.

    Here: what a history may hand to the sync ([wf_op]: any well-formed pod object - the informer's current object and
    every object the informer or the API server showed at an earlier point of the history are such), the corollary of
    the step theorem for ANY object, and the concrete history that refutes the old behaviour. *)
From Coq Require Import String.
From stdpp Require Import gmap.
From Galaxy.Base Require Import Strs.
From Galaxy.Model Require Import Nets Pool Ipam Plugin.
From Galaxy.Model Require Keys.
From Galaxy.Proofs Require Import IpamP PluginInv PluginInvL PluginKeyFacts PluginIpamFacts PluginEnvP PluginUnbindP PluginP PluginWitness.
Local Open Scope N_scope.

(** ** which objects a well-formed history may hand to the sync *)

(** (a) the informer's current object *)
Lemma sync_wf_current w p fl : WInv w → w_lister w !! pk p = Some p → wf_op w (PSyncPod p fl).
Proof. intros HW Hl. cbn [wf_op]. by apply (wi_lister _ HW _ p Hl). Qed.

(** every object the informer, the API server or the event queue shows in a world satisfying the invariant, in ANY
    other world: the condition does not depend on the world *)
Lemma sync_wf_shown w w' k p fl : WInv w →
  w_lister w !! k = Some p ∨ w_pods w !! k = Some p ∨ p ∈ w_queue w → wf_op w' (PSyncPod p fl).
Proof.
  intros HW [Hl|[Hp|Hq]]; cbn [wf_op].
  - by apply (wi_lister _ HW _ p Hl).
  - by apply (wi_pods _ HW _ p Hp).
  - pose proof (wi_queue _ HW) as HQ. rewrite Forall_forall in HQ. by apply HQ.
Qed.

Lemma wf_hist_app w ops1 ops2 : wf_hist w (ops1 ++ ops2) ↔ wf_hist w ops1 ∧ wf_hist (prun w ops1) ops2.
Proof.
  revert w. induction ops1 as [|o ops1 IH]; intros w; cbn [app wf_hist]; [unfold prun; cbn; tauto|].
  rewrite IH. unfold prun. cbn [fold_left]. tauto.
Qed.

Lemma prun_app w ops1 ops2 : prun w (ops1 ++ ops2) = prun (prun w ops1) ops2.
Proof. unfold prun. by rewrite fold_left_app. Qed.

(** (b) an EARLIER object: whatever the informer or the API server showed after a prefix of the history may be handed
    to a sync at any later point - in particular an object whose pod has been deleted and created again under its
    name since (the UID of the new pod is fresh: [wf_env]) *)
Theorem sync_wf_earlier provider nodes ops1 ops2 k p fl :
  wf_hist (world0 provider nodes) (ops1 ++ ops2) →
  w_lister (prun (world0 provider nodes) ops1) !! k = Some p ∨ w_pods (prun (world0 provider nodes) ops1) !! k = Some p →
  wf_hist (world0 provider nodes) (ops1 ++ ops2 ++ [PSyncPod p fl]).
Proof.
  intros Hwf Hshown. rewrite app_assoc. apply wf_hist_app. split; [done|]. cbn [wf_hist]. split; [|done].
  apply wf_hist_app in Hwf as [H1 _]. apply (sync_wf_shown (prun (world0 provider nodes) ops1) _ k).
  - by apply winv_reachable.
  - destruct Hshown as [?|?]; [by left|right; by left].
Qed.

(** ** the sync never touches the pods, the informer cache or the queue *)
Lemma sync_ips_pods p fl : ∀ ips idx w, w_pods (sync_ips w p ips fl idx) = w_pods w ∧
  w_lister (sync_ips w p ips fl idx) = w_lister w ∧ w_queue (sync_ips w p ips fl idx) = w_queue w.
Proof.
  induction ips as [|x rest IH]; intros idx w; [done|]. cbn [sync_ips].
  destruct (by_ip (w_ipam w) x) as [e|]; [|apply IH]. destruct (Keys.is_empty (e_key e)); [|apply IH].
  destruct (existsb _ (by_key (w_ipam w) (pod_key p))); [apply IH|].
  destruct (IH (S idx) (set_ipam w (alloc_specific (w_ipam w) (pod_key p) x
              {| a_policy := policy_of p; a_node := pd_node p; a_uid := pd_uid p |} (bool_decide (f_store fl = Some idx))).1))
    as (H1 & H2 & H3).
  rewrite H1, H2, H3. done.
Qed.

Lemma sync_pod_ip_pods w p fl : w_pods (sync_pod_ip w p fl) = w_pods w ∧
  w_lister (sync_pod_ip w p fl) = w_lister w ∧ w_queue (sync_pod_ip w p fl) = w_queue w.
Proof. unfold sync_pod_ip. destruct (pd_phase p =? 1); [apply sync_ips_pods|done]. Qed.

Lemma sync_given_pods f16 w p fl : w_pods (sync_given f16 w p fl) = w_pods w ∧
  w_lister (sync_given f16 w p fl) = w_lister w ∧ w_queue (sync_given f16 w p fl) = w_queue w.
Proof.
  unfold sync_given. destruct (w_lister w !! pk p) as [cur|]; [|apply sync_pod_ip_pods].
  destruct f16; [|apply sync_pod_ip_pods]. destruct (str_eqb _ _); [apply sync_pod_ip_pods|done].
Qed.

(** an object of an earlier incarnation is skipped *)
Lemma sync_given_stale w p cur fl : w_lister w !! pk p = Some cur → pd_uid cur ≠ pd_uid p → sync_given true w p fl = w.
Proof.
  intros El Hne. unfold sync_given. rewrite El. by destruct (str_eqb_spec (pd_uid cur) (pd_uid p)).
Qed.

Lemma pstep_resync_fst w ip o ocl fl : (pstep w (PResync ip o ocl fl)).1 = (resync_section w ip o ocl fl).1.
Proof. cbn [pstep]. by destruct (resync_section w ip o ocl fl) as [w' []]. Qed.

(** ** every live bound pod still owns its IPs after a pod-IP sync with ANY pod object *)
Theorem stale_sync_keeps_owners w p fl k q :
  WInv w → wf_op w (PSyncPod p fl) → w_pods w !! k = Some q → live_bound q →
  owned (w_ipam (sync_given true w p fl)) q.
Proof.
  intros HW Hwf Hq Hlb. pose proof (winv_sync_pod w p fl HW Hwf) as HW'. cbn [pstep fst] in HW'.
  apply (wi_owned _ HW' k q); [|done]. by rewrite (proj1 (sync_given_pods true w p fl)).
Qed.

(** ** the old behaviour, on the history the real code ran
    Statefulset pod web-0 (uid uA) requests 10.100.0.3, is created, seen by the informer, filtered, bound on node1
    and runs; the informer sees it running - this object [pod_a] is what a periodic pass lists, or what an update
    event is queued with; web-0 is deleted, the informer sees it, the delete event is handled (default policy:
    10.100.0.3 released); web-0 (uid uB) requesting 10.100.0.5 is created, seen, filtered, bound on node1, runs and is
    seen running.  Then the sync is run with [pod_a], and then the resync item of 10.100.0.3. *)
Definition h_f16_a : list pop := [
  PIpam (OConfigure conf1 false []);
  PEnv (EStsSet (L "ns1", L "web") (Some 1));
  PEnv (EPodPut (spod "web-0" "uA" [[(ip3, ip3)]]));
  PEnv (EInformer web0);
  PFilter web0 [L "node1"] (orc None None []) no_faults;
  PBind (L "ns1") (L "web-0") (L "uA") (L "node1") (orc None None []) no_faults;
  PEnv (EPodPhase web0 1);
  PEnv (EInformer web0) ].                                 (* the informer shows [pod_a] *)
Definition h_f16_del : list pop := [
  PEnv (EPodDelete web0);
  PEnv (EInformer web0);                                   (* delete event of A queued *)
  PEvent 0 (orc None None [ip3]) [] no_faults ].           (* handled: 10.100.0.3 released *)
Definition h_f16_new : list pop := [
  PEnv (EPodPut (spod "web-0" "uB" [[(ip5, ip5)]]));
  PEnv (EInformer web0);
  PFilter web0 [L "node1"] (orc None None []) no_faults;
  PBind (L "ns1") (L "web-0") (L "uB") (L "node1") (orc None None []) no_faults;
  PEnv (EPodPhase web0 1);
  PEnv (EInformer web0) ].
Definition h_f16_gone : list pop := h_f16_a ++ h_f16_del.
Definition h_f16 : list pop := h_f16_a ++ (h_f16_del ++ h_f16_new).

Definition pod_a : pod :=
  {| pd_ns := L "ns1"; pd_name := L "web-0"; pd_uid := L "uA"; pd_kind := KSts; pd_app := L "web"; pd_pool := [];
     pd_policy := 0; pd_ranges := [[(ip3, ip3)]]; pd_phase := 1; pd_node := L "node1"; pd_ips := [ip3] |}.
Definition pod_b : pod :=
  {| pd_ns := L "ns1"; pd_name := L "web-0"; pd_uid := L "uB"; pd_kind := KSts; pd_app := L "web"; pd_pool := [];
     pd_policy := 0; pd_ranges := [[(ip5, ip5)]]; pd_phase := 1; pd_node := L "node1"; pd_ips := [ip5] |}.

Lemma h_f16_wf : wf_hist (world0 false nodes1) h_f16.
Proof. apply wf_hist_b_sound. vm_compute. reflexivity. Qed.

(** no step of the history is stuck (all oracles are valid) and both binds succeed *)
Lemma h_f16_trace : trace_fl true true true (world0 false nodes1) h_f16 =
  [ROk; ROk; ROk; ROk; RNodes [L "node1"]; RIps [ip3]; ROk; ROk; ROk; ROk; ROk; ROk; ROk; RNodes [L "node1"]; RIps [ip5]; ROk; ROk].
Proof. vm_compute. reflexivity. Qed.

(** [pod_a] is the object the informer showed after the first part of the history *)
Lemma h_f16_pod_a_shown : w_lister (prun (world0 false nodes1) h_f16_a) !! pk pod_a = Some pod_a.
Proof. vm_compute. reflexivity. Qed.

Lemma h_f16_final : let w := prun (world0 false nodes1) h_f16 in
  w_pods w !! pk pod_b = Some pod_b ∧ w_lister w !! pk pod_b = Some pod_b ∧
  i_alloc (w_ipam w) !! ip3 = None ∧ ip3 ∈ i_unalloc (w_ipam w).
Proof.
  cbv zeta. split_and!; vm_compute; reflexivity.
Qed.

Definition o_f16 : oracle := orc None None [ip3; ip5].

(** the pod-IP sync as it was when F16 was found: the given object used as it is, and no test of the UIDs the key's
    other IPs are stored for (that test, F18, came later: Model/Plugin.v [sync_ips]).  Exact copies of [sync_ips] /
    [sync_pod_ip] without the F18 test. *)
Fixpoint sync_ips_old (w : world) (p : pod) (ips : list N) (fl : faults) (idx : nat) : world :=
  match ips with
  | [] => w
  | x :: rest =>
      let w' := match by_ip (w_ipam w) x with
                | Some e => if Keys.is_empty (e_key e) then
                              let a := {| a_policy := policy_of p; a_node := pd_node p; a_uid := pd_uid p |} in
                              set_ipam w (fst (alloc_specific (w_ipam w) (pod_key p) x a (bool_decide (f_store fl = Some idx))))
                            else w
                | None => w
                end in
      sync_ips_old w' p rest fl (S idx)
  end.
Definition sync_pod_ip_old (w : world) (p : pod) (fl : faults) : world :=
  if pd_phase p =? 1 then sync_ips_old w p (pd_ips p) fl 0 else w.

Theorem stale_sync_refuted_old_l : ∃ nodes ops ops1 pa q x o ocl,
  wf_hist (world0 false nodes) (ops1 ++ ops) ∧
  let w := prun (world0 false nodes) (ops1 ++ ops) in
  (* [pa] is an earlier object of the pod of that name: Running, annotated with its IP [x] *)
  w_lister (prun (world0 false nodes) ops1) !! pk pa = Some pa ∧ pd_phase pa = 1 ∧ pd_ips pa = [x] ∧
  wf_op w (PSyncPod pa no_faults) ∧
  (* [q] is the pod of that name now: another incarnation, live, bound to another IP, owning it *)
  w_pods w !! pk q = Some q ∧ w_lister w !! pk q = Some q ∧ pk q = pk pa ∧ pd_uid q ≠ pd_uid pa ∧ x ∉ pd_ips q ∧
  live_bound q ∧ owned (w_ipam w) q ∧
  (* old behaviour (the given object synced as it is, no F18 test): after the sync with [pa] and the resync item of [x]
     (not stuck), [q] no longer owns its IP *)
  (resync_section (sync_pod_ip_old w pa no_faults) x o ocl no_faults).2 = SOk ∧
  ¬ owned (w_ipam (resync_section (sync_pod_ip_old w pa no_faults) x o ocl no_faults).1) q ∧
  (∀ y, y ∈ pd_ips q → i_alloc (w_ipam (resync_section (sync_pod_ip_old w pa no_faults) x o ocl no_faults).1) !! y = None) ∧
  (* repaired behaviour, same continuation: [q] keeps it *)
  (resync_section (sync_given true w pa no_faults) x o ocl no_faults).2 = SOk ∧
  owned (w_ipam (resync_section (sync_given true w pa no_faults) x o ocl no_faults).1) q ∧
  (* the later F18 test alone (the given object used as it is, [sync_given false]) also refuses this sync: the key holds
     the IP of [q], stored for another UID *)
  sync_given false w pa no_faults = w.
Proof.
  exists nodes1, (h_f16_del ++ h_f16_new), h_f16_a, pod_a, pod_b, ip3, o_f16, []. fold h_f16.
  pose proof h_f16_wf as Hwf. pose proof (winv_reachable _ _ _ Hwf) as HW.
  destruct h_f16_final as (Hp & Hl & Hfree & _).
  assert (live_bound pod_b) as Hlb by (split; [reflexivity|discriminate]).
  split; [done|]. cbv zeta. split_and!.
  - exact h_f16_pod_a_shown.
  - reflexivity.
  - reflexivity.
  - cbn [wf_op]. apply wf_pod_b_sound. vm_compute. reflexivity.
  - exact Hp.
  - exact Hl.
  - reflexivity.
  - discriminate.
  - intros Hx. apply elem_of_list_singleton in Hx. discriminate Hx.
  - exact Hlb.
  - by apply (wi_owned _ HW _ pod_b Hp).
  - vm_compute. reflexivity.
  - intros [Ho _]. destruct (Ho ip5) as (e & He & _); [apply elem_of_list_here|]. vm_compute in He. discriminate He.
  - intros y Hy. apply elem_of_list_singleton in Hy. subst y. vm_compute. reflexivity.
  - vm_compute. reflexivity.
  - rewrite (sync_given_stale _ pod_a pod_b no_faults Hl); [|discriminate].
    pose proof (winv_resync _ ip3 o_f16 [] no_faults HW) as HW'. rewrite pstep_resync_fst in HW'.
    apply (wi_owned _ HW' (pk pod_b) pod_b); [|done]. vm_compute. reflexivity.
  - vm_compute. reflexivity.
Qed.

(** the repaired step on the witness: the sync with the earlier object changes nothing at all *)
Lemma stale_sync_repaired_on_witness :
  let w := prun (world0 false nodes1) h_f16 in
  (pstep w (PSyncPod pod_a no_faults)).1 = w ∧
  wf_hist (world0 false nodes1) (h_f16 ++ [PSyncPod pod_a no_faults; PResync ip3 o_f16 [] no_faults]) ∧
  let w' := prun (world0 false nodes1) (h_f16 ++ [PSyncPod pod_a no_faults; PResync ip3 o_f16 [] no_faults]) in
  w_pods w' !! pk pod_b = Some pod_b ∧ live_bound pod_b ∧ owned (w_ipam w') pod_b ∧
  ∃ e, i_alloc (w_ipam w') !! ip5 = Some e ∧ e_key e = pod_key pod_b ∧ e_uid e = pd_uid pod_b.
Proof.
  cbv zeta. destruct h_f16_final as (Hp & Hl & _).
  assert (wf_hist (world0 false nodes1) (h_f16 ++ [PSyncPod pod_a no_faults; PResync ip3 o_f16 [] no_faults])) as Hwf
    by (apply wf_hist_b_sound; vm_compute; reflexivity).
  assert (live_bound pod_b) as Hlb by (split; [reflexivity|discriminate]).
  split_and!; [|done| |done|..].
  - cbn [pstep fst]. apply (sync_given_stale _ pod_a pod_b no_faults Hl). discriminate.
  - vm_compute. reflexivity.
  - apply (wi_owned _ (winv_reachable _ _ _ Hwf) (pk pod_b) pod_b); [vm_compute; reflexivity|done].
  - eexists. split; [vm_compute; reflexivity|]. split; vm_compute; reflexivity.
Qed.

(** non-vacuity of the new clause of [wf_op]: a reachable world and an object of an earlier incarnation (its UID is not
    the one the informer shows) that a well-formed history hands to the sync *)
Lemma stale_sync_nonvacuous_l : ∃ nodes ops p cur,
  let w := prun (world0 false nodes) ops in
  wf_hist (world0 false nodes) (ops ++ [PSyncPod p no_faults]) ∧
  w_lister w !! pk p = Some cur ∧ pd_uid cur ≠ pd_uid p ∧ pd_phase p = 1 ∧ pd_ips p ≠ [] ∧
  wf_op w (PSyncPod p no_faults).
Proof.
  exists nodes1, h_f16, pod_a, pod_b. cbv zeta. destruct h_f16_final as (_ & Hl & _).
  split_and!; [apply wf_hist_b_sound; vm_compute; reflexivity|exact Hl|discriminate|reflexivity|discriminate|].
  cbn [wf_op]. apply wf_pod_b_sound. vm_compute. reflexivity.
Qed.

(** "a pod the informer does not show is synced as given": after web-0 (uA) is gone and its IP released, the sync with
    [pod_a] takes 10.100.0.3 back under the pod's key for uA (no pod of that name exists: nothing is owned by a live
    pod, the invariant holds); the resync item of the IP then finds no running pod and releases it again *)
Lemma stale_sync_gone_pod :
  let w := prun (world0 false nodes1) h_f16_gone in
  wf_hist (world0 false nodes1) (h_f16_gone ++ [PSyncPod pod_a no_faults; PResync ip3 (orc None None [ip3]) [] no_faults]) ∧
  w_lister w !! pk pod_a = None ∧ w_pods w !! pk pod_a = None ∧ i_alloc (w_ipam w) !! ip3 = None ∧
  (∃ e, i_alloc (w_ipam (pstep w (PSyncPod pod_a no_faults)).1) !! ip3 = Some e ∧ e_key e = pod_key pod_a ∧ e_uid e = pd_uid pod_a) ∧
  WInv (pstep w (PSyncPod pod_a no_faults)).1 ∧
  i_alloc (w_ipam (prun w [PSyncPod pod_a no_faults; PResync ip3 (orc None None [ip3]) [] no_faults])) !! ip3 = None.
Proof.
  cbv zeta.
  assert (wf_hist (world0 false nodes1) (h_f16_gone ++ [PSyncPod pod_a no_faults; PResync ip3 (orc None None [ip3]) [] no_faults])) as Hwf
    by (apply wf_hist_b_sound; vm_compute; reflexivity).
  split_and!; [done|vm_compute; reflexivity..| | |vm_compute; reflexivity].
  - eexists. split; [vm_compute; reflexivity|]. split; vm_compute; reflexivity.
  - apply wf_hist_app in Hwf as [H1 [H2 _]]. apply winv_step; [by apply winv_reachable|done].
Qed.

Print Assumptions sync_wf_earlier.
Print Assumptions stale_sync_keeps_owners.
Print Assumptions stale_sync_refuted_old_l.
Print Assumptions stale_sync_repaired_on_witness.
Print Assumptions stale_sync_nonvacuous_l.
Print Assumptions stale_sync_gone_pod.
