(** Invariants of the crdIpam model (C05, C08, C09; foundation of the plugin layer). *)
From Coq Require Import String.
From stdpp Require Import gmap.
From Galaxy.Base Require Import Strs.
From Galaxy.Model Require Import Nets Pool Ipam.
From Galaxy.Proofs Require Import NetsP PoolP.
Local Open Scope N_scope.

(** owner, policy, attributes and the reserved label; the update time is not compared *)
Definition proj (e : entry) : str * N * str * str * bool := (e_key e, e_policy e, e_node e, e_uid e, e_reserved e).

Definition agree_at (s : ipam) (x : N) : Prop := proj <$> (i_alloc s !! x) = proj <$> (i_store s !! x).
(** an administrator's change whose event is still undelivered *)
Definition pend_ok (s : ipam) (x : N) : Prop :=
  (∃ o, i_store s !! x = Some o ∧ e_reserved o = true ∧ e_node o = [] ∧ e_uid o = [] ∧ i_alloc s !! x = None) ∨
  (i_store s !! x = None ∧ ∃ e, i_alloc s !! x = Some e ∧ e_reserved e = true).

Record Inv (s : ipam) : Prop := {
  inv_disj : ∀ x, x ∈ i_unalloc s → i_alloc s !! x = None;
  inv_conf : ∀ x, (is_Some (i_alloc s !! x) ∨ x ∈ i_unalloc s) ↔ configured (i_pools s) x = true;
  inv_agree : ∀ x, configured (i_pools s) x = true → agree_at s x ∨ (x ∈ i_pending s ∧ pend_ok s x);
  inv_pools : Forall (λ p, Forall range_ok (p_ranges p)) (i_pools s) }.

Lemma inv0 : Inv ipam0.
Proof.
  split; simpl.
  - intros x Hx. set_solver.
  - intros x. split; [intros [[? H]|H]; [rewrite lookup_empty in H; discriminate|set_solver]|discriminate].
  - discriminate.
  - constructor.
Qed.

(** ** the three store-first primitives *)

Lemma proj_assign e o key a t : proj e = proj o → proj (assign e key a t) = proj (assign o key a t).
Proof. unfold proj, assign, mk_entry. simpl. intros H. injection H as _ _ _ _ Hr. rewrite Hr. reflexivity. Qed.

Lemma create_both_inv s x key a fail s' :
  Inv s → x ∈ i_unalloc s → create_both s x key a fail = Some s' →
  Inv s' ∧ i_store s !! x = None ∧ i_pools s' = i_pools s ∧ i_pending s' = i_pending s ∧
  i_alloc s' = <[x := mk_entry key a false (i_clock s)]> (i_alloc s) ∧ i_unalloc s' = i_unalloc s ∖ {[x]} ∧
  i_store s' = <[x := mk_entry key a false (i_clock s)]> (i_store s).
Proof.
  intros [Hd Hc Ha Hp] Hx H. unfold create_both in H. destruct fail; [discriminate|].
  unfold st_create in H. destruct (i_store s !! x) eqn:Es; [discriminate|]. inversion H; subst; clear H. simpl.
  split; [|repeat split; done]. split; simpl.
  - intros y Hy. apply elem_of_difference in Hy as [Hy Hne]. rewrite lookup_insert_ne by set_solver. auto.
  - intros y. rewrite <- Hc. destruct (decide (y = x)) as [->|Hne].
    + rewrite lookup_insert. split; [intros _; right; done|intros _; left; eauto].
    + rewrite lookup_insert_ne by done. split; (intros [?|?]; [left; done|right; set_solver]).
  - intros y Hy. unfold agree_at, pend_ok. simpl. destruct (decide (y = x)) as [->|Hne].
    + left. rewrite !lookup_insert. done.
    + rewrite !lookup_insert_ne by done. apply (Ha y Hy).
  - done.
Qed.

Lemma update_both_inv s x e key a t fail s' :
  Inv s → i_alloc s !! x = Some e → update_both s x e key a t fail = Some s' →
  Inv s' ∧ i_pools s' = i_pools s ∧ i_pending s' = i_pending s ∧ i_unalloc s' = i_unalloc s ∧
  i_alloc s' = <[x := assign e key a t]> (i_alloc s) ∧ i_clock s' = i_clock s ∧
  ∃ o, i_store s !! x = Some o ∧ i_store s' = <[x := assign o key a t]> (i_store s).
Proof.
  intros [Hd Hc Ha Hp] He H. unfold update_both in H. destruct fail; [discriminate|].
  unfold st_update in H. destruct (i_store s !! x) as [o|] eqn:Es; [|discriminate]. inversion H; subst; clear H. simpl.
  split; [|repeat split; eauto]. split; simpl.
  - intros y Hy. destruct (decide (y = x)) as [->|Hne]; [rewrite (Hd x Hy) in He; discriminate|].
    rewrite lookup_insert_ne by done. auto.
  - intros y. rewrite <- Hc. destruct (decide (y = x)) as [->|Hne].
    + rewrite lookup_insert, He. split; intros _; left; eauto.
    + rewrite lookup_insert_ne by done. done.
  - intros y Hy. unfold agree_at, pend_ok. simpl. destruct (decide (y = x)) as [->|Hne].
    + left. rewrite !lookup_insert. simpl. f_equal. apply proj_assign.
      destruct (Ha x Hy) as [Hag|[_ [(o' & Ho' & _ & _ & _ & Hn)|[Hn _]]]].
      * unfold agree_at in Hag. rewrite He, Es in Hag. simpl in Hag. congruence.
      * congruence.
      * congruence.
    + rewrite !lookup_insert_ne by done. apply (Ha y Hy).
  - done.
Qed.

Lemma delete_both_inv s x e fail s' :
  Inv s → i_alloc s !! x = Some e → delete_both s x fail = Some s' →
  Inv s' ∧ i_pools s' = i_pools s ∧ i_pending s' = i_pending s ∧ i_unalloc s' = i_unalloc s ∪ {[x]} ∧
  i_alloc s' = delete x (i_alloc s) ∧ i_store s' = delete x (i_store s) ∧ i_clock s' = i_clock s ∧
  is_Some (i_store s !! x).
Proof.
  intros [Hd Hc Ha Hp] He H. unfold delete_both in H. destruct fail; [discriminate|].
  unfold st_delete in H. destruct (i_store s !! x) as [o|] eqn:Es; [|discriminate]. inversion H; subst; clear H. simpl.
  split; [|repeat split; eauto]. split; simpl.
  - intros y Hy. destruct (decide (y = x)) as [->|Hne]; [apply lookup_delete|].
    rewrite lookup_delete_ne by done. apply Hd. set_solver.
  - intros y. rewrite <- Hc. destruct (decide (y = x)) as [->|Hne].
    + rewrite lookup_delete, He. split; [intros _; left; eauto|intros _; right; set_solver].
    + rewrite lookup_delete_ne by done. split; (intros [?|?]; [left; done|right; set_solver]).
  - intros y Hy. unfold agree_at, pend_ok. simpl. destruct (decide (y = x)) as [->|Hne].
    + left. rewrite !lookup_delete. done.
    + rewrite !lookup_delete_ne by done. apply (Ha y Hy).
  - done.
Qed.

Lemma tick_inv s : Inv s → Inv (tick s).
Proof. intros [Hd Hc Ha Hp]. split; simpl; auto. Qed.

(** ** single-object methods *)

Lemma alloc_specific_inv s key x a fail : Inv s → Inv (alloc_specific s key x a fail).1.
Proof.
  intros HI. unfold alloc_specific. destruct (decide (x ∈ i_unalloc s)) as [Hx|]; [|done].
  destruct (create_both s x key a fail) as [s'|] eqn:E; [|done]. simpl.
  apply (create_both_inv _ _ _ _ _ _ HI Hx E).
Qed.

Lemma subnet_candidate_unalloc s sn x : subnet_candidate s sn x = true → x ∈ i_unalloc s.
Proof. unfold subnet_candidate. intros H. apply andb_prop in H as [H _]. by apply bool_decide_eq_true in H. Qed.

Lemma alloc_in_subnet_inv s key sn a choice fail : Inv s → Inv (alloc_in_subnet s key sn a choice fail).1.1.
Proof.
  intros HI. unfold alloc_in_subnet. destruct choice as [x|].
  - destruct (subnet_candidate s sn x) eqn:C; [|done].
    destruct (create_both s x key a fail) as [s'|] eqn:E; [|done]. simpl.
    apply (create_both_inv _ _ _ _ _ _ HI (subnet_candidate_unalloc _ _ _ C) E).
  - destruct (forallb _ _); done.
Qed.

Lemma alloc_with_key_inv s oldk newk sn a choice fail : Inv s → Inv (alloc_with_key s oldk newk sn a choice fail).1.
Proof.
  intros HI. unfold alloc_with_key. destruct choice as [x|].
  - destruct (i_alloc s !! x) as [e|] eqn:He; [|done].
    destruct (_ && _); [|done].
    destruct (update_both s x e newk a (i_clock s) fail) as [s'|] eqn:E; [|done]. simpl.
    apply tick_inv. apply (update_both_inv _ _ _ _ _ _ _ _ HI He E).
  - match goal with |- context [match ?l with [] => _ | _ :: _ => _ end] => destruct l end; done.
Qed.

Lemma update_attr_inv s key x a fail : Inv s → Inv (update_attr s key x a fail).1.
Proof.
  intros HI. unfold update_attr. destruct (i_alloc s !! x) as [e|] eqn:He; [|done].
  destruct (str_eqb _ _); [|done].
  destruct (update_both s x e key a (i_clock s) fail) as [s'|] eqn:E; [|done]. simpl.
  apply tick_inv. apply (update_both_inv _ _ _ _ _ _ _ _ HI He E).
Qed.

Lemma release_inv s key x fail : Inv s → Inv (release s key x fail).1.
Proof.
  intros HI. unfold release. destruct (i_alloc s !! x) as [e|] eqn:He; [|done].
  destruct (str_eqb _ _); [|done].
  destruct (delete_both s x fail) as [s'|] eqn:E; [|done]. simpl.
  apply (delete_both_inv _ _ _ _ _ HI He E).
Qed.

(** ** loops *)

Lemma reserve_loop_inv oldk newk a t order : ∀ s nfail, Inv s → Inv (reserve_loop s oldk newk a t order nfail).1.
Proof.
  induction order as [|x order IH]; intros s nfail HI; simpl; [done|].
  destruct (i_alloc s !! x) as [e|] eqn:He; [|done].
  destruct (reserve_needed oldk newk a e); [|done].
  match goal with |- context [update_both ?s0 ?x0 ?e0 ?k0 ?a0 ?t0 ?f0] =>
    destruct (update_both s0 x0 e0 k0 a0 t0 f0) as [s'|] eqn:E end; [|done].
  apply IH. apply (update_both_inv _ _ _ _ _ _ _ _ HI He E).
Qed.

Lemma reserve_ip_inv s oldk newk a order nfail : Inv s → Inv (reserve_ip s oldk newk a order nfail).1.
Proof.
  intros HI. unfold reserve_ip. pose proof (reserve_loop_inv oldk newk a (i_clock s) order s nfail HI) as HL.
  destruct (bool_decide (NoDup order)); [|done].
  destruct (reserve_loop s oldk newk a (i_clock s) order nfail) as [s' r]. simpl in *.
  destruct r; simpl; try (apply tick_inv; done).
  destruct (bool_decide _); simpl; [apply tick_inv; done|done].
Qed.

Lemma release_loop_inv m order : ∀ s nfail, Inv s → Inv (release_loop s m order nfail).1.
Proof.
  induction order as [|x order IH]; intros s nfail HI; simpl; [done|].
  destruct (i_alloc s !! x) as [e|] eqn:He; [|done].
  destruct (List.find _ m) as [[y k]|]; [|done].
  destruct (str_eqb _ _); [|done].
  match goal with |- context [delete_both ?s0 ?x0 ?f0] => destruct (delete_both s0 x0 f0) as [s'|] eqn:E end; [|done].
  apply IH. apply (delete_both_inv _ _ _ _ _ HI He E).
Qed.

Lemma release_ips_inv s m order nfail : Inv s → Inv (release_ips s m order nfail).1.
Proof.
  intros HI. unfold release_ips. pose proof (release_loop_inv m order s nfail HI) as HL.
  destruct (bool_decide (NoDup order)); [|done].
  destruct (release_loop s m order nfail) as [s' r]. simpl in *.
  destruct r; simpl; try done. destruct (bool_decide _); done.
Qed.

(** ** multi-IP allocation (C08) *)

Lemma first_in_ranges_spec f : ∀ rs fuel x, first_in_ranges f fuel rs = Some (Some x) →
  f x = true ∧ existsb (λ r, range_contains r x) rs = true.
Proof.
  induction rs as [|r rs IH]; intros fuel x H; simpl in H; [discriminate|].
  assert (∀ fuel cur, fst r <= cur →
    (fix go (fuel : nat) (cur : N) {struct fuel} : option (option N) :=
       match fuel with
       | 0%nat => None
       | S fuel' =>
           if cur <=? snd r
           then if f cur then Some (Some cur)
                else if cur =? snd r then first_in_ranges f fuel' rs else go fuel' (cur + 1)
           else first_in_ranges f fuel' rs
       end) fuel cur = Some (Some x) →
    f x = true ∧ existsb (λ r0, range_contains r0 x) (r :: rs) = true) as Hgo.
  { clear H fuel. induction fuel as [|fuel IHf]; intros cur Hcur H; [discriminate|].
    destruct (cur <=? snd r) eqn:Ele.
    - destruct (f cur) eqn:Ef.
      + inversion H; subst. split; [done|]. simpl. unfold range_contains at 1.
        replace (fst r <=? x) with true by (symmetry; apply N.leb_le; done). rewrite Ele. done.
      + destruct (cur =? snd r).
        * destruct (IH _ _ H) as [? Hex]. split; [done|]. simpl. rewrite Hex. apply orb_true_r.
        * apply IHf in H; [done|]. lia.
    - destruct (IH _ _ H) as [? Hex]. split; [done|]. simpl. rewrite Hex. apply orb_true_r. }
  apply (Hgo fuel (fst r)); [lia|exact H].
Qed.

Lemma pick_ips_spec s sn : ∀ rss picked L, pick_ips s sn rss picked = Some L →
  ∃ L', L = rev picked ++ L' ∧ length L' = length rss ∧
        Forall2 (λ x rs, subnet_candidate s sn x = true ∧ existsb (λ r, range_contains r x) rs = true) L' rss ∧
        (NoDup picked → NoDup L).
Proof.
  induction rss as [|rs rss IH]; intros picked L H; simpl in H.
  - inversion H; subst. exists []. rewrite app_nil_r. split_and!; [done|done|constructor|].
    intros Hn. by apply NoDup_ListNoDup, List.NoDup_rev, NoDup_ListNoDup.
  - destruct (first_in_ranges _ _ rs) as [[x|]|] eqn:E; try discriminate.
    apply first_in_ranges_spec in E as [Hf Hex]. apply andb_prop in Hf as [Hc Hnp].
    destruct (IH _ _ H) as (L' & -> & Hlen & HF & Hnd). exists (x :: L'). split_and!.
    + simpl. rewrite <- app_assoc. done.
    + simpl. lia.
    + constructor; done.
    + intros Hn. apply Hnd. constructor; [|done]. intros Hin.
      apply negb_true_iff in Hnp. assert (existsb (N.eqb x) picked = true) as Hex'; [|congruence].
      apply existsb_exists. exists x. split; [by apply elem_of_list_In|apply N.eqb_refl].
Qed.

Lemma rollback_delete_comm created : ∀ st x,
  rollback (delete x st) created = delete x (rollback st created).
Proof.
  unfold rollback. induction created as [|y created IH]; intros st x; simpl; [done|].
  rewrite delete_commute. apply IH.
Qed.

Lemma create_all_spec key a t : ∀ ips st nfail st' created ok,
  create_all st key a t ips nfail = (st', created, ok) →
  rollback st' created = st ∧
  (ok = true → created = ips ∧ NoDup ips ∧ (∀ x, x ∈ ips → st !! x = None) ∧
               st' = fold_left (λ m x, <[x := mk_entry key a false t]> m) ips st).
Proof.
  induction ips as [|x ips IH]; intros st nfail st' created ok H; simpl in H.
  - inversion H; subst. split; [done|]. intros _. split_and!; [done|constructor|set_solver|done].
  - destruct nfail as [[|n]|].
    + inversion H; subst. split; [done|discriminate].
    + unfold st_create in H. destruct (st !! x) eqn:Ex; [inversion H; subst; split; [done|discriminate]|].
      destruct (create_all _ key a t ips (Some n)) as [[st2 cr2] ok2] eqn:E. inversion H; subst.
      destruct (IH _ _ _ _ _ E) as [Hrb Hok]. split.
      * unfold rollback in *. simpl. fold (rollback (delete x st') cr2). rewrite rollback_delete_comm.
        unfold rollback. rewrite Hrb. by apply delete_insert.
      * intros ->. destruct (Hok eq_refl) as (-> & Hnd & Hnone & ->). split_and!; [done| | |done].
        -- constructor; [|done]. intros Hin. specialize (Hnone x Hin). rewrite lookup_insert in Hnone. discriminate.
        -- intros y Hy. apply elem_of_cons in Hy as [->|Hy]; [done|]. specialize (Hnone y Hy).
           destruct (decide (y = x)) as [->|Hne]; [rewrite lookup_insert in Hnone; discriminate|].
           by rewrite lookup_insert_ne in Hnone.
    + unfold st_create in H. destruct (st !! x) eqn:Ex; [inversion H; subst; split; [done|discriminate]|].
      destruct (create_all _ key a t ips None) as [[st2 cr2] ok2] eqn:E. inversion H; subst.
      destruct (IH _ _ _ _ _ E) as [Hrb Hok]. split.
      * unfold rollback in *. simpl. fold (rollback (delete x st') cr2). rewrite rollback_delete_comm.
        unfold rollback. rewrite Hrb. by apply delete_insert.
      * intros ->. destruct (Hok eq_refl) as (-> & Hnd & Hnone & ->). split_and!; [done| | |done].
        -- constructor; [|done]. intros Hin. specialize (Hnone x Hin). rewrite lookup_insert in Hnone. discriminate.
        -- intros y Hy. apply elem_of_cons in Hy as [->|Hy]; [done|]. specialize (Hnone y Hy).
           destruct (decide (y = x)) as [->|Hne]; [rewrite lookup_insert in Hnone; discriminate|].
           by rewrite lookup_insert_ne in Hnone.
Qed.

Lemma fold_insert_lookup {A} (e : A) ips : ∀ (m : gmap N A) y,
  fold_left (λ m x, <[x := e]> m) ips m !! y = if decide (y ∈ ips) then Some e else m !! y.
Proof.
  induction ips as [|x ips IH]; intros m y; simpl.
  - destruct (decide (y ∈ [])); [set_solver|done].
  - rewrite IH. destruct (decide (y ∈ ips)) as [Hin|Hnin].
    + destruct (decide (y ∈ x :: ips)); [done|set_solver].
    + destruct (decide (y = x)) as [->|Hne].
      * rewrite lookup_insert. destruct (decide (x ∈ x :: ips)); [done|set_solver].
      * rewrite lookup_insert_ne by done. destruct (decide (y ∈ x :: ips)); [set_solver|done].
Qed.

Lemma fold_mem_create e ips : ∀ s,
  let s' := fold_left (λ s' x, mem_create s' x e) ips s in
  i_store s' = i_store s ∧ i_pools s' = i_pools s ∧ i_pending s' = i_pending s ∧ i_clock s' = i_clock s ∧
  i_alloc s' = fold_left (λ m x, <[x := e]> m) ips (i_alloc s) ∧
  i_unalloc s' = i_unalloc s ∖ list_to_set ips.
Proof.
  induction ips as [|x ips IH]; intros s; simpl.
  - split_and!; try done. set_solver.
  - destruct (IH (mem_create s x e)) as (H1 & H2 & H3 & H4 & H5 & H6). simpl in *.
    split_and!; try done. rewrite H6. set_solver.
Qed.

(** the state an all-or-nothing allocation reaches when it succeeds *)
Lemma alloc_ranges_ok_state s key sn rss a nfail s' ips :
  Inv s → alloc_ranges s key sn rss a nfail = (s', AOk, ips) →
  Inv s' ∧ NoDup ips ∧ length ips = length rss ∧
  Forall2 (λ x rs, subnet_candidate s sn x = true ∧ existsb (λ r, range_contains r x) rs = true) ips rss ∧
  (∀ y, i_alloc s' !! y = if decide (y ∈ ips) then Some (mk_entry key a false (i_clock s)) else i_alloc s !! y) ∧
  (∀ y, i_store s' !! y = if decide (y ∈ ips) then Some (mk_entry key a false (i_clock s)) else i_store s !! y) ∧
  (∀ y, y ∈ ips → i_store s !! y = None) ∧
  i_unalloc s' = i_unalloc s ∖ list_to_set ips ∧ i_pools s' = i_pools s.
Proof.
  intros HI H. unfold alloc_ranges in H. destruct (pick_ips s sn rss []) as [L|] eqn:EP; [|inversion H].
  destruct (create_all _ key a (i_clock s) L nfail) as [[st created] ok] eqn:EC.
  destruct ok; [|inversion H]. inversion H; subst; clear H.
  destruct (pick_ips_spec _ _ _ _ _ EP) as (L' & HL & Hlen & HF & Hnd). simpl in HL. subst L'.
  destruct (create_all_spec _ _ _ _ _ _ _ _ _ EC) as [_ Hok]. destruct (Hok eq_refl) as (_ & HND & Hnone & ->).
  set (e := mk_entry key a false (i_clock s)).
  destruct (fold_mem_create e ips (set_store s (fold_left (λ m x, <[x:=e]> m) ips (i_store s))))
    as (H1 & H2 & H3 & H4 & H5 & H6). simpl in *.
  assert (∀ y, y ∈ ips → y ∈ i_unalloc s) as Hun.
  { intros y Hy. rewrite Forall2_lookup in HF. apply elem_of_list_lookup in Hy as [i Hi].
    specialize (HF i). rewrite Hi in HF. inversion HF as [? ? [Hc _]|]; subst.
    eapply subnet_candidate_unalloc; eassumption. }
  destruct HI as [Hd Hc Ha Hp].
  split_and!; try done.
  - apply tick_inv. split.
    + intros y Hy. rewrite H6 in Hy. rewrite H5, fold_insert_lookup.
      destruct (decide (y ∈ ips)); [set_solver|]. apply Hd. set_solver.
    + intros y. rewrite H2. rewrite <- Hc. rewrite H5, H6, fold_insert_lookup.
      destruct (decide (y ∈ ips)) as [Hin|Hnin].
      * split; [intros _; right; auto|intros _; left; eauto].
      * split; (intros [?|?]; [left; done|right; set_solver]).
    + intros y. rewrite H2. intros Hy. unfold agree_at, pend_ok. rewrite H1, H3, H5. rewrite !fold_insert_lookup.
      destruct (decide (y ∈ ips)); [left; done|]. apply (Ha y Hy).
    + rewrite H2. done.
  - intros y. rewrite H5. apply fold_insert_lookup.
  - intros y. rewrite H1. apply fold_insert_lookup.
Qed.

(** all or nothing: whenever the call does not succeed - not enough IPs, or the j-th Create fails
    for ANY j (injected or a name conflict) - nothing changed at all, in memory or in the store *)
Lemma alloc_ranges_atomic_l s key sn rss a nfail s' r ips :
  alloc_ranges s key sn rss a nfail = (s', r, ips) → r ≠ AOk → s' = s ∧ ips = [].
Proof.
  intros H Hr. unfold alloc_ranges in H. destruct (pick_ips s sn rss []) as [L|]; [|inversion H; done].
  destruct (create_all _ key a (i_clock s) L nfail) as [[st created] ok] eqn:EC.
  destruct ok; [inversion H; subst; done|]. inversion H; subst. split; [|done].
  destruct (create_all_spec _ _ _ _ _ _ _ _ _ EC) as [-> _]. destruct s; done.
Qed.

Lemma alloc_ranges_inv s key sn rss a nfail : Inv s → Inv (alloc_ranges s key sn rss a nfail).1.1.
Proof.
  intros HI. destruct (alloc_ranges s key sn rss a nfail) as [[s' r] ips] eqn:E. simpl.
  destruct (decide (r = AOk)) as [->|Hne].
  - apply (alloc_ranges_ok_state _ _ _ _ _ _ _ _ HI E).
  - destruct (alloc_ranges_atomic_l _ _ _ _ _ _ _ _ _ E Hne) as [-> _]. done.
Qed.

(** ** configuration reload and restart (C05, C09) *)

Definition pools_ok (ps : list pool) : Prop := Forall (λ p, Forall range_ok (p_ranges p)) ps.

Lemma existsb_insert_gw (f : pool → bool) p l : existsb f (insert_by_gateway p l) = f p || existsb f l.
Proof.
  induction l as [|q l IH]; simpl; [done|]. destruct (_ <=? _); simpl; [done|].
  rewrite IH. destruct (f p), (f q); done.
Qed.
Lemma configured_sort ps x : configured (sort_pools ps) x = configured ps x.
Proof.
  unfold configured, sort_pools. induction ps as [|p ps IH]; simpl; [done|].
  rewrite existsb_insert_gw, IH. done.
Qed.
Lemma Forall_insert_gw (P : pool → Prop) p l : P p → Forall P l → Forall P (insert_by_gateway p l).
Proof.
  intros Hp. induction 1 as [|q l Hq Hl IH]; simpl; [by constructor|].
  destruct (_ <=? _); [by repeat constructor|]. by constructor.
Qed.
Lemma pools_ok_sort ps : pools_ok ps → pools_ok (sort_pools ps).
Proof. unfold pools_ok, sort_pools. induction 1; simpl; [constructor|]. by apply Forall_insert_gw. Qed.

Lemma all_pool_ips_spec ps x : pools_ok ps → x ∈ all_pool_ips ps ↔ configured ps x = true.
Proof.
  intros Hok. unfold pools_ok in Hok. rewrite Forall_forall in Hok.
  unfold all_pool_ips, configured. rewrite elem_of_list_In, in_concat, existsb_exists. split.
  - intros (l & Hl & Hx). apply in_map_iff in Hl as (p & <- & Hp). exists p. split; [done|].
    assert (Forall range_ok (p_ranges p)) as Hr by (apply Hok; by apply elem_of_list_In).
    rewrite enumerate_spec in Hx by done. by apply contains_enumerate_l.
  - intros (p & Hp & Hc). exists (pool_list p). split.
    + apply in_map_iff. exists p. split; [|done].
      rewrite enumerate_spec; [done|]. apply Hok. by apply elem_of_list_In.
    + apply contains_enumerate_l; [|done]. apply Hok. by apply elem_of_list_In.
Qed.

Lemma configure_with_inv s pools delfail : pools_ok pools → Inv (configure_with s pools (i_store s) delfail).
Proof.
  intros Hok. unfold configure_with, rebuild. set (ps := sort_pools pools).
  assert (pools_ok ps) as Hps by (by apply pools_ok_sort).
  set (al := filter (λ kv, configured ps kv.1 = true) (i_store s)).
  assert (∀ y, al !! y = if configured ps y then i_store s !! y else None) as Hal.
  { intros y. unfold al. destruct (configured ps y) eqn:Ec.
    - destruct (i_store s !! y) as [e|] eqn:Es.
      + apply map_filter_lookup_Some. done.
      + apply map_filter_lookup_None. left. done.
    - apply map_filter_lookup_None. right. intros e _. simpl. congruence. }
  split; simpl.
  - intros y Hy. apply elem_of_list_to_set in Hy. apply elem_of_list_In in Hy. apply filter_In in Hy as [_ Hn].
    apply negb_true_iff, bool_decide_eq_false in Hn. by apply not_elem_of_dom.
  - intros y. rewrite elem_of_list_to_set. rewrite Hal. split.
    + intros [[e He]|Hy].
      * destruct (configured ps y); [done|discriminate].
      * apply elem_of_list_In, filter_In in Hy as [Hy _]. apply elem_of_list_In in Hy. by apply all_pool_ips_spec.
    + intros Hc. rewrite Hc. destruct (i_store s !! y) as [e|] eqn:Es; [left; eauto|right].
      apply elem_of_list_In, filter_In. split; [apply elem_of_list_In; by apply all_pool_ips_spec|].
      apply negb_true_iff, bool_decide_eq_false. apply not_elem_of_dom. rewrite Hal, Hc. done.
  - intros y Hc. left. unfold agree_at. simpl. rewrite Hal, Hc. f_equal. symmetry.
    destruct (i_store s !! y) as [e|] eqn:Es.
    + apply lookup_difference_Some. split; [done|]. apply map_filter_lookup_None. right.
      intros e' _ [Hnc _]. simpl in Hnc. congruence.
    + apply lookup_difference_None. by left.
  - done.
Qed.

Lemma decode_pools_ok js ps : decode_pools js = Some ps → pools_ok ps.
Proof.
  revert ps. induction js as [|j js IH]; intros ps H; simpl in H.
  - inversion H. constructor.
  - destruct (unmarshal_pool cur_flags j) as [p| |] eqn:Ep; try discriminate.
    destruct (decode_pools js) as [ps'|]; [|discriminate]. inversion H; subst.
    constructor; [|by apply IH]. apply (wf_ranges _ (accepted_wf _ _ Ep)).
Qed.

(** ** administrator and informer *)

Lemma agree_none s x : agree_at s x → i_store s !! x = None → i_alloc s !! x = None.
Proof. unfold agree_at. intros H Hs. rewrite Hs in H. by destruct (i_alloc s !! x). Qed.

Lemma admin_reserve_inv s x key policy : Inv s → Inv (admin_reserve s x key policy).
Proof.
  intros HI. unfold admin_reserve. destruct (decide (x ∈ i_pending s)) as [|Hnp]; [done|].
  unfold st_create. destruct (i_store s !! x) eqn:Es; [done|]. destruct HI as [Hd Hc Ha Hp]. split; simpl; try done.
  intros y Hy. unfold agree_at, pend_ok. simpl. destruct (decide (y = x)) as [->|Hne].
  - right. split; [set_solver|]. left. rewrite lookup_insert. eexists. split_and!; [done|done|done|done|].
    destruct (Ha x Hy) as [Hag|[? _]]; [|done]. by apply agree_none.
  - rewrite lookup_insert_ne by done. destruct (Ha y Hy) as [?|[? ?]]; [by left|right]. split; [set_solver|done].
Qed.

Lemma admin_unreserve_inv s x : Inv s → Inv (admin_unreserve s x).
Proof.
  intros HI. unfold admin_unreserve. destruct (decide (x ∈ i_pending s)) as [|Hnp]; [done|].
  destruct (i_store s !! x) as [o|] eqn:Es; [|done]. destruct (e_reserved o) eqn:Er; [|done].
  destruct HI as [Hd Hc Ha Hp]. split; simpl; try done.
  intros y Hy. unfold agree_at, pend_ok. simpl. destruct (decide (y = x)) as [->|Hne].
  - right. split; [set_solver|]. right. rewrite lookup_delete. split; [done|].
    destruct (Ha x Hy) as [Hag|[? _]]; [|done]. unfold agree_at in Hag. rewrite Es in Hag.
    destruct (i_alloc s !! x) as [e|]; [|discriminate]. exists e. split; [done|].
    simpl in Hag. injection Hag as _ _ _ _ Hr. congruence.
  - rewrite lookup_delete_ne by done. destruct (Ha y Hy) as [?|[? ?]]; [by left|right]. split; [set_solver|done].
Qed.

Lemma unpend_other s x y : y ≠ x → Inv s → configured (i_pools s) y = true →
  agree_at (unpend s x) y ∨ (y ∈ i_pending (unpend s x) ∧ pend_ok (unpend s x) y).
Proof.
  intros Hne HI Hy. destruct (inv_agree _ HI y Hy) as [?|[? ?]]; [by left|right]. split; [simpl; set_solver|done].
Qed.

Lemma watch_deliver_inv s x : Inv s → Inv (watch_deliver true s x).1.
Proof.
  intros HI. unfold watch_deliver. destruct (decide (x ∈ i_pending s)) as [Hp|]; [|done].
  pose proof HI as [Hd Hc Ha Hpo].
  assert (∀ s', i_store s' = i_store s → i_alloc s' = i_alloc s → i_unalloc s' = i_unalloc s → i_pools s' = i_pools s →
          i_pending s' = i_pending s ∖ {[x]} →
          (configured (i_pools s) x = true → agree_at s x) → Inv s') as Hsame.
  { intros s' E1 E2 E3 E4 E5 Hx. split; rewrite ?E1, ?E2, ?E3, ?E4; try done.
    intros y Hy. unfold agree_at, pend_ok. rewrite E1, E2, E5. destruct (decide (y = x)) as [->|Hne]; [left; by apply Hx|].
    destruct (Ha y Hy) as [?|[? ?]]; [by left|right]. split; [set_solver|done]. }
  destruct (i_store s !! x) as [o|] eqn:Es.
  - destruct (e_reserved o) eqn:Er.
    + destruct (i_alloc s !! x) as [e|] eqn:Eal.
      * simpl. apply Hsame; try done. intros Hx. destruct (Ha x Hx) as [?|[_ [(o' & _ & _ & _ & _ & Hn)|[Hn _]]]]; [done|congruence|congruence].
      * destruct (decide (x ∈ i_unalloc s)) as [Hun|Hnun].
        -- simpl. apply tick_inv. split; simpl.
           ++ intros y Hy. apply elem_of_difference in Hy as [Hy Hne]. rewrite lookup_insert_ne by set_solver. auto.
           ++ intros y. rewrite <- Hc. destruct (decide (y = x)) as [->|Hne].
              ** rewrite lookup_insert. split; [intros _; by right|intros _; left; eauto].
              ** rewrite lookup_insert_ne by done. split; (intros [?|?]; [by left|right; set_solver]).
           ++ intros y Hy. unfold agree_at, pend_ok. simpl. destruct (decide (y = x)) as [->|Hne].
              ** left. rewrite lookup_insert, Es. simpl. unfold proj. simpl.
                 destruct (Ha x Hy) as [Hag|[_ [(o' & Ho' & _ & Hnode & Huid & _)|[Hn _]]]].
                 --- unfold agree_at in Hag. rewrite Eal, Es in Hag. discriminate.
                 --- rewrite Es in Ho'. inversion Ho'; subst. rewrite Hnode, Huid, Er. done.
                 --- congruence.
              ** rewrite lookup_insert_ne by done. destruct (Ha y Hy) as [?|[? ?]]; [by left|right]. split; [set_solver|done].
           ++ done.
        -- simpl. apply Hsame; try done. intros Hx. exfalso. apply Hc in Hx as [[? ?]|?]; [congruence|done].
    + unfold del_event. destruct (i_alloc s !! x) as [e|] eqn:Eal.
      * assert (configured (i_pools s) x = true) as Hx by (apply Hc; left; eauto).
        assert (agree_at s x) as Hag.
        { destruct (Ha x Hx) as [?|[_ [(o' & Ho' & Hr' & _)|[Hn _]]]]; [done|congruence|congruence]. }
        pose proof Hag as Hag0. unfold agree_at in Hag. rewrite Eal, Es in Hag. simpl in Hag.
        injection Hag as _ _ _ _ Hr. rewrite Hr, Er. simpl. apply Hsame; done.
      * simpl. apply Hsame; try done. intros Hx.
        destruct (Ha x Hx) as [?|[_ [(o' & Ho' & Hr' & _)|[Hn _]]]]; [done|congruence|congruence].
  - unfold del_event. destruct (i_alloc s !! x) as [e|] eqn:Eal.
    + destruct (e_reserved e) eqn:Er; simpl.
      * split; simpl.
        -- intros y Hy. destruct (decide (y = x)) as [->|Hne]; [apply lookup_delete|].
           rewrite lookup_delete_ne by done. apply Hd. set_solver.
        -- intros y. rewrite <- Hc. destruct (decide (y = x)) as [->|Hne].
           ++ rewrite lookup_delete, Eal. split; [intros _; left; eauto|intros _; right; set_solver].
           ++ rewrite lookup_delete_ne by done. split; (intros [?|?]; [by left|right; set_solver]).
        -- intros y Hy. unfold agree_at, pend_ok. simpl. destruct (decide (y = x)) as [->|Hne].
           ++ left. rewrite lookup_delete, Es. done.
           ++ rewrite lookup_delete_ne by done. destruct (Ha y Hy) as [?|[? ?]]; [by left|right]. split; [set_solver|done].
        -- done.
      * apply Hsame; try done. intros Hx.
        destruct (Ha x Hx) as [?|[_ [(o' & Ho' & _)|[_ (e' & He' & Hr')]]]]; [done|congruence|congruence].
    + simpl. apply Hsame; try done. intros _. unfold agree_at. rewrite Es, Eal. done.
Qed.

(** ** every operation, any fault, any oracle preserves the invariant *)

Theorem step_inv s o : Inv s → Inv (step s o).1.1.
Proof.
  intros HI. destruct o; simpl.
  - destruct (decode_pools conf) as [ps|] eqn:E; [|done]. unfold configure. destruct listfail; [done|]. simpl.
    apply configure_with_inv. by eapply decode_pools_ok.
  - destruct (decode_pools conf) as [ps|] eqn:E; [|done]. simpl. unfold restart.
    match goal with |- Inv (configure_with ?s0 _ _ _) => apply (configure_with_inv s0) end. by eapply decode_pools_ok.
  - by apply alloc_specific_inv.
  - by apply alloc_in_subnet_inv.
  - by apply alloc_with_key_inv.
  - by apply reserve_ip_inv.
  - by apply update_attr_inv.
  - by apply release_inv.
  - by apply release_ips_inv.
  - by apply alloc_ranges_inv.
  - by apply admin_reserve_inv.
  - by apply admin_unreserve_inv.
  - by apply watch_deliver_inv.
Qed.

Theorem run_inv ops : ∀ s, Inv s → Inv (run s ops).
Proof. unfold run. induction ops as [|o ops IH]; intros s HI; simpl; [done|]. apply IH. by apply step_inv. Qed.

(** ** C05: memory = store; a restart reconstructs exactly the state *)

Theorem agree_quiescent_l s : Inv s → i_pending s = ∅ → ∀ x, configured (i_pools s) x = true → agree_at s x.
Proof. intros HI Hp x Hx. destruct (inv_agree _ HI x Hx) as [?|[Hin _]]; [done|]. rewrite Hp in Hin. set_solver. Qed.

Theorem restart_exact_l s : Inv s → i_pending s = ∅ →
  let s' := restart s (i_pools s) in
  proj <$> i_alloc s' = proj <$> i_alloc s ∧ i_unalloc s' = i_unalloc s ∧
  (∀ x, configured (i_pools s) x = true → i_store s' !! x = i_store s !! x).
Proof.
  intros HI Hp. pose proof HI as [Hd Hc Ha Hpo]. unfold restart, configure_with, rebuild. simpl.
  set (ps := sort_pools (i_pools s)).
  assert (∀ y, configured ps y = configured (i_pools s) y) as Hcs by (intros; apply configured_sort).
  set (al := filter (λ kv, configured ps kv.1 = true) (i_store s)).
  assert (∀ y, al !! y = if configured ps y then i_store s !! y else None) as Hal.
  { intros y. unfold al. destruct (configured ps y) eqn:Ec.
    - destruct (i_store s !! y) as [e|] eqn:Es.
      + apply map_filter_lookup_Some. done.
      + apply map_filter_lookup_None. left. done.
    - apply map_filter_lookup_None. right. intros e _. simpl. congruence. }
  assert (∀ y, proj <$> al !! y = proj <$> i_alloc s !! y) as Hpa.
  { intros y. rewrite Hal, Hcs. destruct (configured (i_pools s) y) eqn:Ec.
    - symmetry. by apply agree_quiescent_l.
    - destruct (i_alloc s !! y) eqn:Eal; [|done]. assert (configured (i_pools s) y = true); [|congruence].
      apply Hc. left. eauto. }
  split_and!.
  - apply map_eq. intros y. rewrite !lookup_fmap. apply Hpa.
  - apply set_eq. intros y. rewrite elem_of_list_to_set, elem_of_list_In, filter_In, <- elem_of_list_In.
    rewrite all_pool_ips_spec by (by apply pools_ok_sort). rewrite Hcs. split.
    + intros [Hy Hn]. apply negb_true_iff, bool_decide_eq_false, not_elem_of_dom in Hn.
      apply Hc in Hy as [[e He]|?]; [|done]. specialize (Hpa y). rewrite Hn, He in Hpa. discriminate.
    + intros Hy. split; [apply Hc; by right|]. apply negb_true_iff, bool_decide_eq_false, not_elem_of_dom.
      specialize (Hpa y). rewrite (Hd y Hy) in Hpa. by destruct (al !! y).
  - intros y Hy. destruct (i_store s !! y) as [e|] eqn:Es.
    + apply lookup_difference_Some. split; [done|]. apply map_filter_lookup_None. right.
      intros e' _ [Hnc _]. simpl in Hnc. rewrite Hcs in Hnc. congruence.
    + apply lookup_difference_None. by left.
Qed.

(** ** C09: what a reload keeps and what it drops; fresh allocations avoid reserved and de-configured IPs *)

Theorem reload_lossless_l s ps delfail : pools_ok ps →
  let s' := configure_with s ps (i_store s) delfail in
  (∀ x, configured (sort_pools ps) x = true → i_alloc s' !! x = i_store s !! x ∧ i_store s' !! x = i_store s !! x) ∧
  (∀ x, configured (sort_pools ps) x = false → i_alloc s' !! x = None ∧ x ∉ i_unalloc s' ∧ (x ∉ delfail → i_store s' !! x = None)).
Proof.
  intros Hok. unfold configure_with, rebuild. simpl. set (ps' := sort_pools ps). split.
  - intros x Hx. split.
    + destruct (i_store s !! x) as [e|] eqn:Es; [by apply map_filter_lookup_Some|].
      apply map_filter_lookup_None. by left.
    + destruct (i_store s !! x) as [e|] eqn:Es.
      * apply lookup_difference_Some. split; [done|]. apply map_filter_lookup_None. right.
        intros e' _ [Hnc _]. simpl in Hnc. congruence.
      * apply lookup_difference_None. by left.
  - intros x Hx. split_and!.
    + apply map_filter_lookup_None. right. intros e _. simpl. congruence.
    + rewrite elem_of_list_to_set, elem_of_list_In, filter_In, <- elem_of_list_In. intros [Hin _].
      apply all_pool_ips_spec in Hin; [congruence|by apply pools_ok_sort].
    + intros Hnd. destruct (i_store s !! x) as [e|] eqn:Es.
      * apply lookup_difference_None. right. exists e. by apply map_filter_lookup_Some.
      * apply lookup_difference_None. by left.
Qed.

(** fresh allocations: every IP handed out by AllocateInSubnet / AllocateInSubnetsAndIPRange /
    AllocateSpecificIP was free in memory, had NO object in the store (so no reservation, seen or
    not yet seen) and lies in the loaded configuration *)
Definition fresh_alloc_op (o : op) : bool :=
  match o with OAllocSpecific _ _ _ _ | OAllocInSubnet _ _ _ _ _ | OAllocRanges _ _ _ _ _ => true | _ => false end.

Theorem never_hand_reserved_l s o s' ips : Inv s → fresh_alloc_op o = true → step s o = (s', AOk, ips) →
  ∀ x, (x ∈ ips ∨ ∃ key a f, o = OAllocSpecific key x a f) →
       i_store s !! x = None ∧ x ∈ i_unalloc s ∧ configured (i_pools s) x = true ∧ is_Some (i_alloc s' !! x).
Proof.
  intros HI Hf H x Hx. destruct o; try discriminate; simpl in H.
  - (* AllocateSpecificIP *)
    unfold alloc_specific in H. destruct (decide (ip ∈ i_unalloc s)) as [Hun|]; [|inversion H].
    destruct (create_both s ip key a fail) as [s1|] eqn:E; [|inversion H]. inversion H; subst; clear H.
    destruct Hx as [Hx|(k & a' & f & Heq)]; [set_solver|]. inversion Heq; subst.
    destruct (create_both_inv _ _ _ _ _ _ HI Hun E) as (_ & Hs & _ & _ & Hal & _).
    split_and!; [done|done|apply (inv_conf _ HI); by right|]. rewrite Hal, lookup_insert. eauto.
  - (* AllocateInSubnet *)
    unfold alloc_in_subnet in H. destruct choice as [y|].
    + destruct (subnet_candidate s sn y) eqn:C; [|inversion H].
      destruct (create_both s y key a fail) as [s1|] eqn:E; [|inversion H]. inversion H; subst; clear H.
      destruct Hx as [Hx|(k & a' & f & Heq)]; [|discriminate]. apply elem_of_list_singleton in Hx as ->.
      pose proof (subnet_candidate_unalloc _ _ _ C) as Hun.
      destruct (create_both_inv _ _ _ _ _ _ HI Hun E) as (_ & Hs & _ & _ & Hal & _).
      split_and!; [done|done|apply (inv_conf _ HI); by right|]. rewrite Hal, lookup_insert. eauto.
    + destruct (forallb _ _); inversion H.
  - (* AllocateInSubnetsAndIPRange *)
    destruct Hx as [Hx|(k & a' & f & Heq)]; [|discriminate].
    destruct (alloc_ranges_ok_state _ _ _ _ _ _ _ _ HI H) as (_ & _ & _ & HF & Hal & _ & Hnone & _).
    assert (x ∈ i_unalloc s) as Hun.
    { rewrite Forall2_lookup in HF. apply elem_of_list_lookup in Hx as [i Hi].
      specialize (HF i). rewrite Hi in HF. inversion HF as [? ? [Hc _]|]; subst.
      eapply subnet_candidate_unalloc; eassumption. }
    split_and!; [by apply Hnone|done|apply (inv_conf _ HI); by right|]. rewrite Hal.
    destruct (decide (x ∈ ips)); [eauto|done].
Qed.

(** ** the two defects of the pinned commit that broke these invariants (repaired: F3, F11) *)

Definition wpool : pool := {| p_nodesubnets := [(167772416, 24)]; p_gateway := 174325761; p_masklen := 24; p_vlan := 0;
                             p_ranges := [(174325762, 174325763)] |}.
Definition wattr : attr := {| a_policy := 0; a_node := L "node1"%string; a_uid := L "uid-a"%string |}.
Definition w0 : ipam := configure_with ipam0 [wpool] ∅ ∅.

(** F3: ConfigurePool listed the store before taking the lock; an allocation made in between is persisted but lost from memory *)
Lemma agree_refuted_reload_window :
  let snapshot := configure_old_list w0 in
  let s1 := (alloc_in_subnet w0 (L "sts_ns1_a_a-0"%string) (167772416, 24) wattr (Some 174325762) false).1.1 in
  let s2 := configure_old_apply s1 [wpool] snapshot in
  is_Some (i_store s2 !! 174325762) ∧ i_alloc s2 !! 174325762 = None ∧ bool_decide (174325762 ∈ i_unalloc s2) = true.
Proof. vm_compute. split_and!; [eauto|done|done]. Qed.

(** F11: a stale delete event of a removed reservation evicted whatever entry the cache held for the IP *)
Lemma agree_refuted_stale_event :
  let s1 := admin_reserve w0 174325762 (L "pool__reserved_"%string) 2 in
  let s2 := (watch_deliver false s1 174325762).1 in
  let s3 := admin_unreserve s2 174325762 in
  let s4 := configure_with s3 [wpool] (i_store s3) ∅ in
  let s5 := (alloc_in_subnet s4 (L "sts_ns1_a_a-0"%string) (167772416, 24) wattr (Some 174325762) false).1.1 in
  let s6 := (watch_deliver false s5 174325762).1 in
  (∃ e, i_store s6 !! 174325762 = Some e ∧ e_key e = L "sts_ns1_a_a-0"%string) ∧ i_alloc s6 !! 174325762 = None ∧
  (* the repaired handler ignores the stale event *)
  (∃ e, i_alloc (watch_deliver true s5 174325762).1 !! 174325762 = Some e ∧ e_key e = L "sts_ns1_a_a-0"%string).
Proof. vm_compute. split_and!; eauto. Qed.

(** non-vacuity: a reachable state with allocations, a reservation and two pools *)
Lemma inv_example : ∃ s, Inv s ∧ size (i_alloc s) = 1%nat ∧ size (i_unalloc s) = 1%nat.
Proof.
  exists (alloc_in_subnet w0 (L "sts_ns1_a_a-0"%string) (167772416, 24) wattr (Some 174325762) false).1.1. split.
  - apply alloc_in_subnet_inv. unfold w0. apply (configure_with_inv ipam0).
    repeat constructor; simpl; unfold two32; lia.
  - vm_compute. done.
Qed.
