(** C15: SyncPodChains / syncPods on a table without pod chains: every batch and command is accepted and the
    result is exactly the wanted pod chains and hook rules. *)
From Coq Require Import List Ascii String NArith Bool Lia.
From Galaxy.Base Require Import Strs.
From Galaxy.Model Require Import Nets Netfilter Policy PolicySpec.
From Galaxy.Proofs Require Import NetfilterP.
Import ListNotations.

(** ------------------------------------------------------------------ names *)
Lemma has_prefix_app a b x : has_prefix (a ++ b) x = true -> has_prefix a x = true.
Proof.
  revert x. induction a as [|c a IH]; intros x Hp; [reflexivity|].
  destruct x as [|d x]; simpl in *; [discriminate|].
  apply andb_true_iff in Hp. destruct Hp as [H1 H2]. rewrite H1. simpl. apply IH. exact H2.
Qed.

Lemma pod_prefix_glx x : has_prefix pod_prefix x = true -> has_prefix glx x = true.
Proof. intros Hp. apply (has_prefix_app glx (L "-POD")). exact Hp. Qed.

Lemma glx_not_builtin c : has_prefix glx c = true -> is_builtin c = false.
Proof.
  intros Hp. destruct (is_builtin c) eqn:E; [|reflexivity].
  unfold is_builtin in E. apply mem_In in E. unfold builtin_chains in E. simpl in E.
  repeat (destruct E as [E|E]; [subst c; vm_compute in Hp; discriminate|]). contradiction.
Qed.

Lemma glx_not_hook c : has_prefix glx c = true -> hook_chain c = false.
Proof.
  intros Hp. unfold hook_chain.
  destruct (str_eqb_spec c (L "FORWARD")) as [E|_]; [subst c; vm_compute in Hp; discriminate|].
  destruct (str_eqb_spec c (L "INPUT")) as [E|_]; [subst c; vm_compute in Hp; discriminate|].
  destruct (str_eqb_spec c (L "OUTPUT")) as [E|_]; [subst c; vm_compute in Hp; discriminate|].
  reflexivity.
Qed.

Lemma pod_not_hook c : has_prefix pod_prefix c = true -> hook_chain c = false.
Proof. intros Hp. apply glx_not_hook. apply pod_prefix_glx. exact Hp. Qed.

Lemma ingress_glx : has_prefix glx ingress_chain = true.
Proof. vm_compute. reflexivity. Qed.
Lemma egress_glx : has_prefix glx egress_chain = true.
Proof. vm_compute. reflexivity. Qed.
Lemma ingress_noprefix : has_prefix pod_prefix ingress_chain = false.
Proof. vm_compute. reflexivity. Qed.
Lemma egress_noprefix : has_prefix pod_prefix egress_chain = false.
Proof. vm_compute. reflexivity. Qed.
Lemma ingress_ne_egress : ingress_chain <> egress_chain.
Proof. intros E. vm_compute in E. discriminate. Qed.
Lemma ingress_not_hook : hook_chain ingress_chain = false.
Proof. apply glx_not_hook. exact ingress_glx. Qed.
Lemma egress_not_hook : hook_chain egress_chain = false.
Proof. apply glx_not_hook. exact egress_glx. Qed.
Lemma ingress_not_builtin : is_builtin ingress_chain = false.
Proof. apply glx_not_builtin. exact ingress_glx. Qed.
Lemma egress_not_builtin : is_builtin egress_chain = false.
Proof. apply glx_not_builtin. exact egress_glx. Qed.

Lemma prefix_ne c d : has_prefix pod_prefix c = true -> has_prefix pod_prefix d = false -> c <> d.
Proof. intros H1 H2 E. subst. congruence. Qed.

Lemma forward_hook : hook_chain (L "FORWARD") = true.
Proof. vm_compute. reflexivity. Qed.
Lemma input_hook : hook_chain (L "INPUT") = true.
Proof. vm_compute. reflexivity. Qed.
Lemma output_hook : hook_chain (L "OUTPUT") = true.
Proof. vm_compute. reflexivity. Qed.

(** ------------------------------------------------------------------ rules *)
Lemma jump_sets c : rule_sets (jump c) = [].
Proof. reflexivity. Qed.

Lemma ct_rule_ok sn t p : rule_ok sn t (ct_rule p) = true.
Proof. apply rule_ok_std; vm_compute; reflexivity. Qed.

Lemma drop_rule_ok sn t p : rule_ok sn t (drop_rule p) = true.
Proof. apply rule_ok_std; vm_compute; reflexivity. Qed.

Definition is_glx_jump (r : rule) : Prop := r = jump ingress_chain \/ r = jump egress_chain.

Lemma strip_cons_glx r rs : is_glx_jump r -> strip_glx_jumps (r :: rs) = strip_glx_jumps rs.
Proof.
  intros [E|E]; subst r; unfold strip_glx_jumps; cbn [filter]; rewrite rule_eqb_refl.
  - reflexivity.
  - rewrite orb_true_r. reflexivity.
Qed.

Lemma map_LAppend c rs : map (LAppend c) rs = LAppends (map (fun r => (c, r)) rs).
Proof. unfold LAppends. rewrite map_map. reflexivity. Qed.

Lemma appends_for_same c rs : appends_for c (map (fun r => (c, r)) rs) = rs.
Proof.
  induction rs as [|r rs IH]; [reflexivity|].
  cbn [map]. rewrite appends_for_cons, str_eqb_refl, IH. reflexivity.
Qed.

Lemma appends_for_other x c rs : x <> c -> appends_for x (map (fun r => (c, r)) rs) = [].
Proof.
  intros Hx. apply appends_for_none. intros c' r Hin. apply in_map_iff in Hin.
  destruct Hin as [r' [E _]]. inversion E. subst. congruence.
Qed.

Lemma has_chain_ensure_mono x c t : has_chain x t = true -> has_chain x (ensure_chain c t) = true.
Proof.
  intros Hx. unfold ensure_chain. destruct (has_chain c t); [exact Hx|].
  rewrite has_chain_tset, Hx. apply orb_true_r.
Qed.

(** ------------------------------------------------------------------ the built-in chains gain glx jumps only *)
Definition hooks_ext (t t' : table) : Prop :=
  tpres t t' /\
  (forall x, hook_chain x = false -> tlookup x t' = tlookup x t) /\
  (forall x rs, hook_chain x = true -> tlookup x t = Some rs ->
     exists rs', tlookup x t' = Some rs' /\ strip_glx_jumps rs' = strip_glx_jumps rs).

Lemma hooks_ext_refl t : hooks_ext t t.
Proof.
  split; [apply tpres_refl|]. split; [reflexivity|].
  intros x rs _ Hl. exists rs. split; [exact Hl|reflexivity].
Qed.

Lemma hooks_ext_trans a b c : hooks_ext a b -> hooks_ext b c -> hooks_ext a c.
Proof.
  intros [P1 [O1 K1]] [P2 [O2 K2]]. split; [eapply tpres_trans; eassumption|]. split.
  - intros x Hx. rewrite O2, O1 by exact Hx. reflexivity.
  - intros x rs Hx Hl. destruct (K1 x rs Hx Hl) as [rs1 [Hl1 S1]].
    destruct (K2 x rs1 Hx Hl1) as [rs2 [Hl2 S2]]. exists rs2. split; [exact Hl2|congruence].
Qed.

Lemma hooks_ext_has t t' x : hooks_ext t t' -> has_chain x t = true -> has_chain x t' = true.
Proof.
  intros [_ [O K]] Hx. destruct (hook_chain x) eqn:E.
  - apply has_chain_lookup in Hx. destruct Hx as [rs Hl].
    destruct (K x rs E Hl) as [rs' [Hl' _]]. eapply has_chain_some. exact Hl'.
  - rewrite (has_chain_ext x t' t); [exact Hx|apply O; exact E].
Qed.

Lemma ensure_hook sn c r t :
  hook_chain c = true -> has_chain c t = true -> is_glx_jump r -> has_chain (r_target r) t = true ->
  exists t', ensure_rule true sn c r t = (t', true) /\ hooks_ext t t'.
Proof.
  intros Hc Hh Hr Ht.
  assert (rule_ok sn t r = true) as Hok.
  { apply rule_ok_chain; [exact Ht| |]; destruct Hr as [E|E]; subst r;
      first [exact ingress_not_builtin|exact egress_not_builtin|reflexivity]. }
  apply has_chain_lookup in Hh. destruct Hh as [rs Hl].
  unfold ensure_rule. rewrite Hok, Hl. cbn [negb]. destruct (rule_in r rs) eqn:E.
  - exists t. split; [reflexivity|apply hooks_ext_refl].
  - exists (tset c (r :: rs) t). split; [reflexivity|]. split; [apply tpres_tset|split].
    + intros x Hx. apply tlookup_tset_other. intros E'. subst x. congruence.
    + intros x rs0 Hx Hl0. rewrite tlookup_tset. destruct (str_eqb_spec x c) as [E'|E'].
      * subst x. rewrite Hl in Hl0. inversion Hl0. subst rs0. exists (r :: rs).
        split; [reflexivity|apply strip_cons_glx; exact Hr].
      * exists rs0. split; [exact Hl0|reflexivity].
Qed.

Lemma ensure_basic_chain_ok sn t :
  has_chain (L "FORWARD") t = true -> has_chain (L "INPUT") t = true -> has_chain (L "OUTPUT") t = true ->
  exists t', ensure_basic_chain sn t = (t', true) /\
    hooks_ext (ensure_chain egress_chain (ensure_chain ingress_chain t)) t'.
Proof.
  intros HF HI HO. unfold ensure_basic_chain. cbv zeta.
  set (ta := ensure_chain egress_chain (ensure_chain ingress_chain t)).
  assert (has_chain (L "FORWARD") ta = true) as HFa by (subst ta; do 2 apply has_chain_ensure_mono; exact HF).
  assert (has_chain (L "INPUT") ta = true) as HIa by (subst ta; do 2 apply has_chain_ensure_mono; exact HI).
  assert (has_chain (L "OUTPUT") ta = true) as HOa by (subst ta; do 2 apply has_chain_ensure_mono; exact HO).
  assert (has_chain ingress_chain ta = true) as Hia.
  { subst ta. apply has_chain_ensure_mono. apply has_chain_ensure_chain. }
  assert (has_chain egress_chain ta = true) as Hea.
  { subst ta. apply has_chain_ensure_chain. }
  destruct (ensure_hook sn (L "FORWARD") (jump ingress_chain) ta forward_hook HFa (or_introl eq_refl) Hia)
    as [t1 [E1 X1]].
  destruct (ensure_hook sn (L "FORWARD") (jump egress_chain) t1 forward_hook
              (hooks_ext_has _ _ _ X1 HFa) (or_intror eq_refl) (hooks_ext_has _ _ _ X1 Hea)) as [t2 [E2 X2]].
  pose proof (hooks_ext_trans _ _ _ X1 X2) as X12.
  destruct (ensure_hook sn (L "OUTPUT") (jump ingress_chain) t2 output_hook
              (hooks_ext_has _ _ _ X12 HOa) (or_introl eq_refl) (hooks_ext_has _ _ _ X12 Hia)) as [t3 [E3 X3]].
  pose proof (hooks_ext_trans _ _ _ X12 X3) as X13.
  destruct (ensure_hook sn (L "INPUT") (jump egress_chain) t3 input_hook
              (hooks_ext_has _ _ _ X13 HIa) (or_intror eq_refl) (hooks_ext_has _ _ _ X13 Hea)) as [t4 [E4 X4]].
  exists t4. split.
  - rewrite E1. cbn [negb]. rewrite E2. cbn [negb]. rewrite E3. cbn [negb]. exact E4.
  - exact (hooks_ext_trans _ _ _ X13 X4).
Qed.

(** EnsureRule (append) / DeleteRule of a hook whose target no rule of the chain names *)
Lemma hook_step sn c r (sel : bool) t rs :
  has_chain (r_target r) t = true -> is_builtin (r_target r) = false -> rule_sets r = [] ->
  tlookup c t = Some rs -> (forall r', In r' rs -> r_target r' <> r_target r) ->
  exists t', (if sel then ensure_rule false sn c r t else delete_rule sn c r t) = (t', true) /\ tpres t t' /\
     tlookup c t' = Some (rs ++ if sel then [r] else []) /\ (forall x, x <> c -> tlookup x t' = tlookup x t).
Proof.
  intros Ht Hb Hs Hl Hn.
  assert (rule_ok sn t r = true) as Hok by (apply rule_ok_chain; assumption).
  assert (rule_in r rs = false) as Hin.
  { apply rule_in_no_refs. apply chain_refs_false. exact Hn. }
  destruct sel.
  - rewrite (ensure_rule_new sn c r t rs Hok Hl Hin). exists (tset c (rs ++ [r]) t).
    split; [reflexivity|]. split; [apply tpres_tset|]. split; [apply tlookup_tset_same|].
    intros x Hx. apply tlookup_tset_other. exact Hx.
  - rewrite (delete_rule_absent sn c r t rs Hok Hl Hin). exists t.
    split; [reflexivity|]. split; [apply tpres_refl|]. split; [rewrite app_nil_r; exact Hl|reflexivity].
Qed.

Lemma del_by_keyword_none sn c pc t :
  (forall rs r, tlookup c t = Some rs -> In r rs -> r_target r <> pc) -> del_by_keyword sn c pc t = t.
Proof.
  intros Hn. unfold del_by_keyword. destruct (tlookup c t) as [rs|] eqn:E; [|reflexivity].
  destruct (find (fun r => str_eqb (r_target r) pc) rs) as [r|] eqn:F; [|reflexivity].
  apply find_some in F. destruct F as [F1 F2]. apply str_eqb_eq in F2.
  exfalso. exact (Hn rs r eq_refl F1 F2).
Qed.

Lemma existsb_snoc {A} (f : A -> bool) l a : existsb f (l ++ [a]) = existsb f l || f a.
Proof. rewrite existsb_app. simpl. rewrite orb_false_r. reflexivity. Qed.

Section Pods.
Variable H : str -> str.

Definition wants (pols : list cpolicy) (p : pod) : bool :=
  (in_selected pols p || eg_selected pols p) && is_some (pod_ip p).
Definition in_hooks_of (pols : list cpolicy) (ps : list pod) : list rule :=
  flat_map (fun p => match pod_ip p with
                     | Some a => if in_selected pols p then [in_hook H p a] else []
                     | None => [] end) ps.
Definition eg_hooks_of (pols : list cpolicy) (ps : list pod) : list rule :=
  flat_map (fun p => match pod_ip p with
                     | Some a => if eg_selected pols p then [eg_hook H p a] else []
                     | None => [] end) ps.
Definition sync_pods_step (pols : list cpolicy) (acc : kernel * bool) (p : pod) : kernel * bool :=
  let '(k1, ok) := sync_pod_chains H pols p (fst acc) in (k1, snd acc && ok).

Lemma sync_pods_unfold host pols c k :
  sync_pods H host pols c k = fold_left (sync_pods_step pols) (local_pods host c) (k, true).
Proof. reflexivity. Qed.

(** ---- names of the pod and policy chains *)
Lemma pod_chain_glx p : has_prefix glx (pod_chain H p) = true.
Proof. reflexivity. Qed.
Lemma pod_chain_prefix p : has_prefix pod_prefix (pod_chain H p) = true.
Proof. reflexivity. Qed.
Lemma policy_chain_glx x : has_prefix glx (policy_chain H x) = true.
Proof. reflexivity. Qed.
Lemma policy_chain_noprefix x : has_prefix pod_prefix (policy_chain H x) = false.
Proof. reflexivity. Qed.
Lemma policy_ne_ingress x : policy_chain H x <> ingress_chain.
Proof. intros E. unfold policy_chain, ingress_chain in E. cbn in E. discriminate. Qed.
Lemma policy_ne_egress x : policy_chain H x <> egress_chain.
Proof. intros E. unfold policy_chain, egress_chain in E. cbn in E. discriminate. Qed.
Lemma pod_chain_not_builtin p : is_builtin (pod_chain H p) = false.
Proof. apply glx_not_builtin. apply pod_chain_glx. Qed.
Lemma pod_chain_not_hook p : hook_chain (pod_chain H p) = false.
Proof. apply glx_not_hook. apply pod_chain_glx. Qed.
Lemma pod_ne_ingress p : pod_chain H p <> ingress_chain.
Proof. apply prefix_ne; [apply pod_chain_prefix|exact ingress_noprefix]. Qed.
Lemma pod_ne_egress p : pod_chain H p <> egress_chain.
Proof. apply prefix_ne; [apply pod_chain_prefix|exact egress_noprefix]. Qed.

(** ---- the pod batch: property theorem pod_batch_no_dangling *)
Lemma pod_chain_rules_ok pols p sn t :
  (forall cp, In cp pols -> selects cp p = true -> has_chain (policy_chain H (cp_np cp)) t = true) ->
  forall r, In r (pod_chain_rules H pols p) -> rule_ok sn t r = true.
Proof.
  intros Hpc r Hin. unfold pod_chain_rules in Hin. destruct Hin as [E|Hin].
  - subst r. apply ct_rule_ok.
  - apply in_app_or in Hin. destruct Hin as [Hin|[E|[]]].
    + apply in_map_iff in Hin. destruct Hin as [cp [E Hcp]]. subst r.
      apply filter_In in Hcp. destruct Hcp as [Hcp Hs].
      apply rule_ok_chain.
      * cbn [pod_jump r_target]. apply Hpc; assumption.
      * cbn [pod_jump r_target]. apply glx_not_builtin. apply policy_chain_glx.
      * reflexivity.
    + subst r. apply drop_rule_ok.
Qed.

Lemma pod_batch_accepted_l : forall (pols : list cpolicy) (p : pod) (sn : list str) (t : table),
  (forall cp, In cp pols -> selects cp p = true -> has_chain (policy_chain H (cp_np cp)) t = true) ->
  exists t', restore sn t (pod_batch H pols p) = (t', true) /\
    tlookup (pod_chain H p) t' = Some (pod_chain_rules H pols p) /\
    (forall x, x <> pod_chain H p -> tlookup x t' = tlookup x t) /\ tpres t t'.
Proof.
  intros pols p sn t Hpc.
  pose proof (pod_chain_not_builtin p) as Hb.
  destruct (apply_appends sn (map (fun r => (pod_chain H p, r)) (pod_chain_rules H pols p))
              (tset (pod_chain H p) [] t)) as [t' [Ha [Hl [Hp _]]]].
  { intros c r Hin. apply in_map_iff in Hin. destruct Hin as [r' [E Hin]]. inversion E. subst c r'. split.
    - rewrite has_chain_tset, str_eqb_refl. reflexivity.
    - apply (pod_chain_rules_ok pols p sn); [|exact Hin].
      intros cp Hcp Hs. rewrite has_chain_tset. rewrite (Hpc cp Hcp Hs). apply orb_true_r. }
  exists t'. split; [|split; [|split]].
  - apply restore_some. unfold pod_batch. cbn [apply_lines apply_line]. rewrite Hb.
    rewrite map_LAppend. exact Ha.
  - rewrite Hl, tlookup_tset_same. rewrite appends_for_same. reflexivity.
  - intros x Hx. rewrite Hl, tlookup_tset_other by exact Hx. rewrite appends_for_other by exact Hx.
    destruct (tlookup x t); [rewrite app_nil_r|]; reflexivity.
  - eapply tpres_trans; [apply tpres_tset|exact Hp].
Qed.

(** ---- hook lists *)
Definition in_hook_of (pols : list cpolicy) (p : pod) : list rule :=
  match pod_ip p with
  | Some a => if in_selected pols p then [in_hook H p a] else []
  | None => [] end.
Definition eg_hook_of (pols : list cpolicy) (p : pod) : list rule :=
  match pod_ip p with
  | Some a => if eg_selected pols p then [eg_hook H p a] else []
  | None => [] end.

Lemma in_hooks_of_snoc pols ps p : in_hooks_of pols (ps ++ [p]) = in_hooks_of pols ps ++ in_hook_of pols p.
Proof. unfold in_hooks_of. rewrite flat_map_app. cbn [flat_map]. rewrite app_nil_r. reflexivity. Qed.
Lemma eg_hooks_of_snoc pols ps p : eg_hooks_of pols (ps ++ [p]) = eg_hooks_of pols ps ++ eg_hook_of pols p.
Proof. unfold eg_hooks_of. rewrite flat_map_app. cbn [flat_map]. rewrite app_nil_r. reflexivity. Qed.

Lemma in_hook_of_nowant pols p : wants pols p = false -> in_hook_of pols p = [].
Proof.
  unfold wants, in_hook_of. destruct (pod_ip p); [|reflexivity].
  destruct (in_selected pols p); [|reflexivity]. simpl. discriminate.
Qed.
Lemma eg_hook_of_nowant pols p : wants pols p = false -> eg_hook_of pols p = [].
Proof.
  unfold wants, eg_hook_of. destruct (pod_ip p); [|reflexivity].
  destruct (eg_selected pols p); [|reflexivity]. rewrite orb_true_r. simpl. discriminate.
Qed.

Lemma in_hooks_of_nowant pols ps : existsb (wants pols) ps = false -> in_hooks_of pols ps = [].
Proof.
  induction ps as [|p ps IH]; [reflexivity|]. cbn [existsb]. intros Hw.
  apply orb_false_iff in Hw. destruct Hw as [H1 H2].
  change (in_hooks_of pols (p :: ps)) with (in_hook_of pols p ++ in_hooks_of pols ps).
  rewrite (in_hook_of_nowant pols p H1), (IH H2). reflexivity.
Qed.
Lemma eg_hooks_of_nowant pols ps : existsb (wants pols) ps = false -> eg_hooks_of pols ps = [].
Proof.
  induction ps as [|p ps IH]; [reflexivity|]. cbn [existsb]. intros Hw.
  apply orb_false_iff in Hw. destruct Hw as [H1 H2].
  change (eg_hooks_of pols (p :: ps)) with (eg_hook_of pols p ++ eg_hooks_of pols ps).
  rewrite (eg_hook_of_nowant pols p H1), (IH H2). reflexivity.
Qed.

Lemma in_hooks_target pols ps r :
  In r (in_hooks_of pols ps) -> exists q, In q ps /\ r_target r = pod_chain H q.
Proof.
  unfold in_hooks_of. intros Hin. apply in_flat_map in Hin. destruct Hin as [q [Hq Hin]].
  exists q. split; [exact Hq|].
  destruct (pod_ip q); [|contradiction]. destruct (in_selected pols q); [|contradiction].
  destruct Hin as [E|[]]. subst r. reflexivity.
Qed.
Lemma eg_hooks_target pols ps r :
  In r (eg_hooks_of pols ps) -> exists q, In q ps /\ r_target r = pod_chain H q.
Proof.
  unfold eg_hooks_of. intros Hin. apply in_flat_map in Hin. destruct Hin as [q [Hq Hin]].
  exists q. split; [exact Hq|].
  destruct (pod_ip q); [|contradiction]. destruct (eg_selected pols q); [|contradiction].
  destruct Hin as [E|[]]. subst r. reflexivity.
Qed.

(** ---- one pod that is not wanted: nothing changes *)
Lemma sync_pod_unwanted pols p s t :
  wants pols p = false ->
  has_chain (pod_chain H p) t = false ->
  (forall rs r, tlookup ingress_chain t = Some rs -> In r rs -> r_target r <> pod_chain H p) ->
  (forall rs r, tlookup egress_chain t = Some rs -> In r rs -> r_target r <> pod_chain H p) ->
  sync_pod_chains H pols p (mkK t s) = (mkK t s, true).
Proof.
  intros Hw Hc Hi He. unfold sync_pod_chains. unfold wants in Hw.
  destruct (in_selected pols p) eqn:Ei; destruct (eg_selected pols p) eqn:Ee; cbn [negb andb orb] in *.
  - destruct (pod_ip p); [discriminate|reflexivity].
  - destruct (pod_ip p); [discriminate|reflexivity].
  - destruct (pod_ip p); [discriminate|reflexivity].
  - unfold delete_pod_chains. cbn [k_filter k_sets].
    rewrite (del_by_keyword_none _ ingress_chain _ t Hi).
    rewrite (del_by_keyword_none _ egress_chain _ t He).
    unfold flush_chain. rewrite Hc. reflexivity.
Qed.

(** ---- one wanted pod *)
Lemma sync_pod_wanted pols p a s t :
  pod_ip p = Some a -> in_selected pols p || eg_selected pols p = true ->
  has_chain (L "FORWARD") t = true -> has_chain (L "INPUT") t = true -> has_chain (L "OUTPUT") t = true ->
  (forall cp, In cp pols -> has_chain (policy_chain H (cp_np cp)) t = true) ->
  (forall rs r, tlookup ingress_chain t = Some rs -> In r rs -> r_target r <> pod_chain H p) ->
  (forall rs r, tlookup egress_chain t = Some rs -> In r rs -> r_target r <> pod_chain H p) ->
  exists t', sync_pod_chains H pols p (mkK t s) = (mkK t' s, true) /\
    tpres t t' /\
    tlookup (pod_chain H p) t' = Some (pod_chain_rules H pols p) /\
    tlookup ingress_chain t' =
      Some ((match tlookup ingress_chain t with Some rs => rs | None => [] end) ++
            if in_selected pols p then [in_hook H p a] else []) /\
    tlookup egress_chain t' =
      Some ((match tlookup egress_chain t with Some rs => rs | None => [] end) ++
            if eg_selected pols p then [eg_hook H p a] else []) /\
    (forall x rs, hook_chain x = true -> tlookup x t = Some rs ->
       exists rs', tlookup x t' = Some rs' /\ strip_glx_jumps rs' = strip_glx_jumps rs) /\
    (forall x, x <> pod_chain H p -> x <> ingress_chain -> x <> egress_chain -> hook_chain x = false ->
       tlookup x t' = tlookup x t).
Proof.
  intros Hip Hsel HF HI HO Hpol Hin Heg.
  set (sn := set_names s).
  set (ta := ensure_chain egress_chain (ensure_chain ingress_chain t)).
  destruct (ensure_basic_chain_ok sn t HF HI HO) as [t1 [E1 X1]]. fold ta in X1.
  assert (tpres t ta) as Pa.
  { subst ta. eapply tpres_trans; apply tpres_ensure_chain. }
  assert (forall x, x <> ingress_chain -> x <> egress_chain -> tlookup x ta = tlookup x t) as La.
  { intros x H1 H2. subst ta. rewrite !tlookup_ensure_chain.
    apply str_eqb_neq in H1. apply str_eqb_neq in H2. rewrite H1, H2. reflexivity. }
  assert (tlookup ingress_chain ta = Some (match tlookup ingress_chain t with Some rs => rs | None => [] end))
    as Lai.
  { subst ta. rewrite !tlookup_ensure_chain.
    assert (str_eqb ingress_chain egress_chain = false) as E by (apply str_eqb_neq; exact ingress_ne_egress).
    rewrite E, str_eqb_refl. reflexivity. }
  assert (tlookup egress_chain ta = Some (match tlookup egress_chain t with Some rs => rs | None => [] end))
    as Lae.
  { subst ta. rewrite (tlookup_ensure_chain egress_chain egress_chain), str_eqb_refl.
    rewrite (tlookup_ensure_chain egress_chain ingress_chain).
    assert (str_eqb egress_chain ingress_chain = false) as E.
    { apply str_eqb_neq. intros E. symmetry in E. exact (ingress_ne_egress E). }
    rewrite E. reflexivity. }
  destruct X1 as [P1 [O1 K1]].
  (* the pod batch *)
  destruct (pod_batch_accepted_l pols p sn t1) as [t2 [E2 [L2 [O2 P2]]]].
  { intros cp Hcp _. apply (hooks_ext_has ta t1); [split; [exact P1|split; [exact O1|exact K1]]|].
    subst ta. do 2 apply has_chain_ensure_mono. apply Hpol. exact Hcp. }
  (* ingress hook *)
  assert (tlookup ingress_chain t2 = Some (match tlookup ingress_chain t with Some rs => rs | None => [] end))
    as L2i.
  { rewrite O2 by (intros E; symmetry in E; exact (pod_ne_ingress p E)).
    rewrite O1 by exact ingress_not_hook. exact Lai. }
  destruct (hook_step sn ingress_chain (in_hook H p a) (in_selected pols p) t2 _
              (has_chain_some _ _ _ L2) (pod_chain_not_builtin p) eq_refl L2i) as [t3 [E3 [P3 [L3 O3]]]].
  { intros r' Hr'. cbn [in_hook r_target]. destruct (tlookup ingress_chain t) as [rs|] eqn:El.
    - exact (Hin rs r' eq_refl Hr').
    - destruct Hr'. }
  (* egress hook *)
  assert (tlookup egress_chain t3 = Some (match tlookup egress_chain t with Some rs => rs | None => [] end))
    as L3e.
  { rewrite O3 by (intros E; symmetry in E; exact (ingress_ne_egress E)).
    rewrite O2 by (intros E; symmetry in E; exact (pod_ne_egress p E)).
    rewrite O1 by exact egress_not_hook. exact Lae. }
  assert (tlookup (pod_chain H p) t3 = Some (pod_chain_rules H pols p)) as L3p.
  { rewrite O3 by apply pod_ne_ingress. exact L2. }
  destruct (hook_step sn egress_chain (eg_hook H p a) (eg_selected pols p) t3 _
              (has_chain_some _ _ _ L3p) (pod_chain_not_builtin p) eq_refl L3e) as [t4 [E4 [P4 [L4 O4]]]].
  { intros r' Hr'. cbn [eg_hook r_target]. destruct (tlookup egress_chain t) as [rs|] eqn:El.
    - exact (Heg rs r' eq_refl Hr').
    - destruct Hr'. }
  exists t4. split; [|split; [|split; [|split; [|split; [|split]]]]].
  - unfold sync_pod_chains.
    assert (negb (in_selected pols p) && negb (eg_selected pols p) = false) as En.
    { destruct (in_selected pols p); destruct (eg_selected pols p); try reflexivity. discriminate. }
    rewrite En, Hip. cbn [k_filter k_sets]. fold sn.
    rewrite E1. cbn [negb]. rewrite E2. cbn [negb]. rewrite E3. cbn [negb]. rewrite E4. reflexivity.
  - eapply tpres_trans; [exact Pa|]. eapply tpres_trans; [exact P1|]. eapply tpres_trans; [exact P2|].
    eapply tpres_trans; [exact P3|exact P4].
  - rewrite O4 by apply pod_ne_egress. exact L3p.
  - rewrite O4 by exact ingress_ne_egress. exact L3.
  - exact L4.
  - intros x rs Hx Hl.
    assert (x <> ingress_chain) as N1 by (intros E; subst x; rewrite ingress_not_hook in Hx; discriminate).
    assert (x <> egress_chain) as N2 by (intros E; subst x; rewrite egress_not_hook in Hx; discriminate).
    assert (x <> pod_chain H p) as N3 by (intros E; subst x; rewrite pod_chain_not_hook in Hx; discriminate).
    rewrite <- (La x N1 N2) in Hl. destruct (K1 x rs Hx Hl) as [rs' [Hl' S']].
    exists rs'. split; [|exact S'].
    rewrite O4 by exact N2. rewrite O3 by exact N1. rewrite O2 by exact N3. exact Hl'.
  - intros x N3 N1 N2 Hx.
    rewrite O4 by exact N2. rewrite O3 by exact N1. rewrite O2 by exact N3. rewrite O1 by exact Hx.
    apply La; assumption.
Qed.

(** ---- the invariant of syncPods, relative to the starting table *)
Definition Inv (pols : list cpolicy) (t0 : table) (done : list pod) (t : table) : Prop :=
  NoDup (map fst t) /\
  (forall p, In p done -> wants pols p = true -> tlookup (pod_chain H p) t = Some (pod_chain_rules H pols p)) /\
  (forall x, has_prefix pod_prefix x = true -> has_chain x t = true ->
             exists p, In p done /\ wants pols p = true /\ x = pod_chain H p) /\
  tlookup ingress_chain t = (if existsb (wants pols) done then Some (in_hooks_of pols done) else None) /\
  tlookup egress_chain t = (if existsb (wants pols) done then Some (eg_hooks_of pols done) else None) /\
  (forall x, hook_chain x = true ->
             exists rs rs', tlookup x t0 = Some rs /\ tlookup x t = Some rs' /\
                            strip_glx_jumps rs' = strip_glx_jumps rs) /\
  (forall x, has_prefix pod_prefix x = false -> x <> ingress_chain -> x <> egress_chain -> hook_chain x = false ->
             tlookup x t = tlookup x t0).

Lemma Inv_skip pols t0 done t p : Inv pols t0 done t -> wants pols p = false -> Inv pols t0 (done ++ [p]) t.
Proof.
  intros [I1 [I2 [I3 [I4 [I5 [I6 I7]]]]]] Hw. split; [exact I1|]. split; [|split; [|split; [|split; [|split]]]].
  - intros q Hq Hwq. apply in_app_or in Hq. destruct Hq as [Hq|[E|[]]]; [exact (I2 q Hq Hwq)|].
    subst q. congruence.
  - intros x Hx Hc. destruct (I3 x Hx Hc) as [q [Hq [Hwq E]]]. exists q.
    split; [apply in_or_app; left; exact Hq|split; assumption].
  - rewrite existsb_snoc, Hw, orb_false_r, in_hooks_of_snoc, (in_hook_of_nowant pols p Hw), app_nil_r. exact I4.
  - rewrite existsb_snoc, Hw, orb_false_r, eg_hooks_of_snoc, (eg_hook_of_nowant pols p Hw), app_nil_r. exact I5.
  - exact I6.
  - exact I7.
Qed.

Lemma Inv_fresh pols t0 done t p :
  Inv pols t0 done t -> ~ In (pod_chain H p) (map (pod_chain H) done) ->
  has_chain (pod_chain H p) t = false /\
  (forall rs r, tlookup ingress_chain t = Some rs -> In r rs -> r_target r <> pod_chain H p) /\
  (forall rs r, tlookup egress_chain t = Some rs -> In r rs -> r_target r <> pod_chain H p).
Proof.
  intros [I1 [I2 [I3 [I4 [I5 [I6 I7]]]]]] Hn. split; [|split].
  - destruct (has_chain (pod_chain H p) t) eqn:E; [|reflexivity].
    destruct (I3 _ (pod_chain_prefix p) E) as [q [Hq [_ Eq]]].
    exfalso. apply Hn. rewrite Eq. apply in_map. exact Hq.
  - intros rs r Hl Hr. rewrite I4 in Hl. destruct (existsb (wants pols) done); [|discriminate].
    inversion Hl. subst rs. destruct (in_hooks_target pols done r Hr) as [q [Hq Eq]].
    rewrite Eq. intros E. apply Hn. rewrite <- E. apply in_map. exact Hq.
  - intros rs r Hl Hr. rewrite I5 in Hl. destruct (existsb (wants pols) done); [|discriminate].
    inversion Hl. subst rs. destruct (eg_hooks_target pols done r Hr) as [q [Hq Eq]].
    rewrite Eq. intros E. apply Hn. rewrite <- E. apply in_map. exact Hq.
Qed.

Lemma sync_step pols t0 s done t p :
  (forall cp, In cp pols -> has_chain (policy_chain H (cp_np cp)) t0 = true) ->
  Inv pols t0 done t -> ~ In (pod_chain H p) (map (pod_chain H) done) ->
  exists t', sync_pod_chains H pols p (mkK t s) = (mkK t' s, true) /\ Inv pols t0 (done ++ [p]) t'.
Proof.
  intros Hpol HI Hn. destruct (Inv_fresh pols t0 done t p HI Hn) as [Hc [Hfi Hfe]].
  destruct (wants pols p) eqn:Hw.
  2:{ exists t. split; [apply sync_pod_unwanted; assumption|apply Inv_skip; assumption]. }
  pose proof HI as [I1 [I2 [I3 [I4 [I5 [I6 I7]]]]]].
  pose proof Hw as Hw'. unfold wants in Hw'. apply andb_true_iff in Hw'. destruct Hw' as [Hsel Hip].
  destruct (pod_ip p) as [a|] eqn:Ea; [|discriminate].
  assert (forall x, hook_chain x = true -> has_chain x t = true) as Hhk.
  { intros x Hx. destruct (I6 x Hx) as [rs [rs' [_ [Hl _]]]]. eapply has_chain_some. exact Hl. }
  destruct (sync_pod_wanted pols p a s t Ea Hsel (Hhk _ forward_hook) (Hhk _ input_hook) (Hhk _ output_hook))
    as [t' [E [P [Lp [Li [Le [K O]]]]]]]; [|exact Hfi|exact Hfe|].
  { intros cp Hcp. rewrite (has_chain_ext _ t t0); [apply Hpol; exact Hcp|].
    apply I7; [apply policy_chain_noprefix|apply policy_ne_ingress|apply policy_ne_egress|].
    apply glx_not_hook. apply policy_chain_glx. }
  exists t'. split; [exact E|].
  assert (forall x, has_prefix pod_prefix x = true -> x <> pod_chain H p -> tlookup x t' = tlookup x t) as Opre.
  { intros x Hx Hne. apply O; [exact Hne| | |apply pod_not_hook; exact Hx].
    - apply prefix_ne; [exact Hx|exact ingress_noprefix].
    - apply prefix_ne; [exact Hx|exact egress_noprefix]. }
  split; [|split; [|split; [|split; [|split; [|split]]]]].
  - destruct P as [_ P]. apply P. exact I1.
  - intros q Hq Hwq. apply in_app_or in Hq. destruct Hq as [Hq|[E'|[]]].
    + rewrite Opre; [exact (I2 q Hq Hwq)|apply pod_chain_prefix|].
      intros E'. apply Hn. rewrite <- E'. apply in_map. exact Hq.
    + subst q. exact Lp.
  - intros x Hx Hcx. destruct (str_eqb_spec x (pod_chain H p)) as [E'|E'].
    + exists p. split; [apply in_or_app; right; left; reflexivity|split; assumption].
    + rewrite (has_chain_ext x t' t) in Hcx by (apply Opre; assumption).
      destruct (I3 x Hx Hcx) as [q [Hq [Hwq Eq]]]. exists q.
      split; [apply in_or_app; left; exact Hq|split; assumption].
  - rewrite Li, I4, existsb_snoc, Hw, orb_true_r, in_hooks_of_snoc. unfold in_hook_of. rewrite Ea.
    destruct (existsb (wants pols) done) eqn:Ex; [reflexivity|].
    rewrite (in_hooks_of_nowant pols done Ex). reflexivity.
  - rewrite Le, I5, existsb_snoc, Hw, orb_true_r, eg_hooks_of_snoc. unfold eg_hook_of. rewrite Ea.
    destruct (existsb (wants pols) done) eqn:Ex; [reflexivity|].
    rewrite (eg_hooks_of_nowant pols done Ex). reflexivity.
  - intros x Hx. destruct (I6 x Hx) as [rs [rs' [H0 [H1 S1]]]].
    destruct (K x rs' Hx H1) as [rs'' [H2 S2]]. exists rs, rs''.
    split; [exact H0|split; [exact H2|congruence]].
  - intros x Hx N1 N2 Hh. rewrite O; [apply I7; assumption| |exact N1|exact N2|exact Hh].
    intros E'. subst x. rewrite pod_chain_prefix in Hx. discriminate.
Qed.

Lemma sync_pods_step_ok pols k k' p :
  sync_pod_chains H pols p k = (k', true) -> sync_pods_step pols (k, true) p = (k', true).
Proof. intros E. unfold sync_pods_step. cbn [fst snd]. rewrite E. reflexivity. Qed.

Lemma sync_fold pols t0 s :
  (forall cp, In cp pols -> has_chain (policy_chain H (cp_np cp)) t0 = true) ->
  forall ps done t,
  Inv pols t0 done t -> NoDup (map (pod_chain H) (done ++ ps)) ->
  exists t', fold_left (sync_pods_step pols) ps (mkK t s, true) = (mkK t' s, true) /\
             Inv pols t0 (done ++ ps) t'.
Proof.
  intros Hpol. induction ps as [|p ps IH]; intros done t HI Hnd.
  - exists t. split; [reflexivity|]. rewrite app_nil_r. exact HI.
  - assert (~ In (pod_chain H p) (map (pod_chain H) done)) as Hn.
    { rewrite map_app in Hnd. cbn [map] in Hnd. apply NoDup_remove_2 in Hnd.
      intros Hin. apply Hnd. apply in_or_app. left. exact Hin. }
    destruct (sync_step pols t0 s done t p Hpol HI Hn) as [t1 [E1 HI1]].
    assert (done ++ p :: ps = (done ++ [p]) ++ ps) as Eapp by (rewrite <- app_assoc; reflexivity).
    rewrite Eapp in Hnd. destruct (IH (done ++ [p]) t1 HI1 Hnd) as [t' [E' HI']].
    exists t'. split.
    + cbn [fold_left]. rewrite (sync_pods_step_ok pols _ _ p E1). exact E'.
    + rewrite Eapp. exact HI'.
Qed.

Lemma sync_pods_fresh_l : forall (pols : list cpolicy) (ps : list pod) (s : sets) (t0 : table),
  NoDup (map (pod_chain H) ps) ->
  NoDup (map fst t0) ->
  has_chain (L "FORWARD") t0 = true -> has_chain (L "INPUT") t0 = true -> has_chain (L "OUTPUT") t0 = true ->
  (forall x, has_prefix pod_prefix x = true -> has_chain x t0 = false) ->
  has_chain ingress_chain t0 = false -> has_chain egress_chain t0 = false ->
  (forall cp, In cp pols -> has_chain (policy_chain H (cp_np cp)) t0 = true) ->
  exists t',
    fold_left (sync_pods_step pols) ps (mkK t0 s, true) = (mkK t' s, true) /\
    NoDup (map fst t') /\
    (forall p, In p ps -> wants pols p = true -> tlookup (pod_chain H p) t' = Some (pod_chain_rules H pols p)) /\
    (forall x, has_prefix pod_prefix x = true -> has_chain x t' = true ->
               exists p, In p ps /\ wants pols p = true /\ x = pod_chain H p) /\
    tlookup ingress_chain t' = (if existsb (wants pols) ps then Some (in_hooks_of pols ps) else None) /\
    tlookup egress_chain t' = (if existsb (wants pols) ps then Some (eg_hooks_of pols ps) else None) /\
    (forall x, hook_chain x = true ->
               exists rs rs', tlookup x t0 = Some rs /\ tlookup x t' = Some rs' /\
                              strip_glx_jumps rs' = strip_glx_jumps rs) /\
    (forall x, has_prefix pod_prefix x = false -> x <> ingress_chain -> x <> egress_chain -> hook_chain x = false ->
               tlookup x t' = tlookup x t0).
Proof.
  intros pols ps s t0 Hnd Hnd0 HF HI HO Hnopod Hnoin Hnoeg Hpol.
  assert (Inv pols t0 [] t0) as HI0.
  { split; [exact Hnd0|]. split; [|split; [|split; [|split; [|split]]]].
    - intros p [].
    - intros x Hx Hc. rewrite (Hnopod x Hx) in Hc. discriminate.
    - cbn [existsb]. apply has_chain_false. exact Hnoin.
    - cbn [existsb]. apply has_chain_false. exact Hnoeg.
    - intros x Hx. assert (has_chain x t0 = true) as Hc.
      { unfold hook_chain in Hx. apply orb_true_iff in Hx. destruct Hx as [Hx|Hx].
        - apply orb_true_iff in Hx. destruct Hx as [Hx|Hx]; apply str_eqb_eq in Hx; subst x; assumption.
        - apply str_eqb_eq in Hx. subst x. assumption. }
      apply has_chain_lookup in Hc. destruct Hc as [rs Hl]. exists rs, rs.
      split; [exact Hl|split; [exact Hl|reflexivity]].
    - intros; reflexivity. }
  destruct (sync_fold pols t0 s Hpol ps [] t0 HI0 Hnd) as [t' [E HI']].
  exists t'. split; [exact E|]. exact HI'.
Qed.

End Pods.
