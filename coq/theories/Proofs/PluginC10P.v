(** C10 - the cloud provider's calls are well ordered per IP: the invariant [CInv] of the scheduler-plugin
    model (Model/Plugin.v) for histories that satisfy [wf_c10] (Proofs/PluginC10Spec.v), and the one-step
    property [freed_unassigned].

    [CInv w] = the world invariant [WInv], the provider's log replays to its state ([log_wf]), an IP that
    is On a node is allocated with that node stored ([cloud_alloc]), with a provider every IP of a live bound
    pod is On the pod's node ([cloud_live]), an entry keyed by a pool prefix has no node stored
    ([pfx_node]), and without a provider the provider's state is empty.

    Method.  Release side (queued event, resync item, API release): the change is [crel K]: only IPs keyed [K]
    are unassigned, only entries keyed [K] are deleted or re-written (with an empty node), and every entry
    that changed is Off afterwards.  Bind: the change is [brel key node]: entries become keyed [key] with
    node [node] (free before, or keyed [key] before), an IP that was Off may become On [node], nothing that
    was On changes.  All other steps leave the provider alone and change the table only at IPs that are Off
    ([cinv_table]). *)
From Coq Require Import String.
From stdpp Require Import gmap.
From Galaxy.Base Require Import Strs.
From Galaxy.Model Require Import Nets Pool Ipam Plugin.
From Galaxy.Model Require Keys.
From Galaxy.Proofs Require Import IpamP PluginInv PluginInvL PluginKeyFacts PluginIpamFacts PluginEnvP PluginUnbindP.
From Galaxy.Proofs Require Import PluginBindP.
From Galaxy.Proofs Require Import PluginC10Spec.
Local Open Scope N_scope.

(** * the invariant *)
Definition pfx_node (w : world) : Prop :=
  ∀ x e k, i_alloc (w_ipam w) !! x = Some e → e_key e = Keys.pool_prefix k → e_node e = [].

Record CInv (w : world) : Prop := {
  ci_winv : WInv w;
  ci_log : log_wf w;
  ci_alloc : cloud_alloc w;
  ci_live : w_provider w = true → cloud_live w;
  ci_pfx : pfx_node w;
  ci_noprov : w_provider w = false → w_cloud w = ∅ }.

(** * the provider's log *)
Lemma log_replay_app l1 : ∀ st l2, log_replay st (l1 ++ l2) = log_replay st l1 ≫= λ st', log_replay st' l2.
Proof.
  induction l1 as [|[[b x] n] l1 IH]; intros st l2; [done|]. cbn [app log_replay]. destruct b.
  - destruct (st !! x) as [n'|]; [|apply IH]. destruct (str_eqb n n'); [apply IH|done].
  - apply IH.
Qed.

Lemma log_wf_unassign w x n : log_wf w → log_wf (cloud_unassign w x n).
Proof. unfold log_wf. cbn [cloud_unassign w_cloud w_cloudlog]. intros H. rewrite log_replay_app, H. done. Qed.

Lemma log_wf_assign w x n : log_wf w → w_cloud w !! x = None ∨ w_cloud w !! x = Some n → log_wf (cloud_assign w x n).
Proof.
  unfold log_wf. cbn [cloud_assign w_cloud w_cloudlog]. intros H Hx. rewrite log_replay_app, H. cbn [mbind option_bind log_replay].
  destruct Hx as [Hx|Hx]; rewrite Hx; [done|]. rewrite str_eqb_refl. by rewrite insert_id.
Qed.

(** * steps that leave the provider alone *)
Definition keepish (i i' : ipam) (y : N) : Prop :=
  (∀ e, i_alloc i !! y = Some e → ∃ e', i_alloc i' !! y = Some e' ∧ same_owner e e') ∧
  (∀ e', i_alloc i' !! y = Some e' → ∃ e, i_alloc i !! y = Some e ∧ same_owner e e').

Lemma keepish_eq i i' y : i_alloc i' !! y = i_alloc i !! y → keepish i i' y.
Proof. intros E. split; intros e He; exists e; (split; [congruence|apply same_owner_refl]). Qed.

Lemma cinv_table w w' :
  CInv w → WInv w' →
  w_cloud w' = w_cloud w → w_cloudlog w' = w_cloudlog w → w_provider w' = w_provider w → w_pods w' = w_pods w →
  (∀ y, keepish (w_ipam w) (w_ipam w') y ∨
        (w_cloud w !! y = None ∧ ∀ e' k, i_alloc (w_ipam w') !! y = Some e' → e_key e' = Keys.pool_prefix k → e_node e' = [])) →
  CInv w' ∧ freed_unassigned w w' ∧ w_provider w' = w_provider w.
Proof.
  intros [HW HL HA HV HP HN] HW' EC EL EP EPo Hy. split; [split|split; [|done]].
  - done.
  - unfold log_wf. by rewrite EC, EL.
  - intros x n. rewrite EC. intros Hx. destruct (HA x n Hx) as (e & He & Hn & Hne).
    destruct (Hy x) as [[Hk _]|[Hoff _]]; [|congruence].
    destruct (Hk e He) as (e' & He' & _ & _ & _ & Hnode). exists e'. split_and!; [done|congruence|done].
  - rewrite EP. intros Hp k p x. rewrite EPo, EC. by apply HV.
  - intros x e' k He' Hk. destruct (Hy x) as [[_ Hk']|[_ Hpf]]; [|by eapply Hpf].
    destruct (Hk' e' He') as (e & He & Ek & _ & _ & En). rewrite <- En. apply (HP x e k He). congruence.
  - rewrite EP, EC. done.
  - intros x e He Hch. rewrite EC. destruct (Hy x) as [[Hk _]|[Hoff _]]; [|done].
    destruct (Hk e He) as (e' & He' & Ek & _). rewrite He' in Hch. congruence.
Qed.

(** the table only grows, by entries that are not keyed by a pool prefix *)
Definition grow (w w' : world) : Prop :=
  w_cloud w' = w_cloud w ∧ w_cloudlog w' = w_cloudlog w ∧ w_provider w' = w_provider w ∧ w_pods w' = w_pods w ∧
  ∀ y, i_alloc (w_ipam w') !! y = i_alloc (w_ipam w) !! y ∨
       (i_alloc (w_ipam w) !! y = None ∧ ∀ e' k, i_alloc (w_ipam w') !! y = Some e' → e_key e' ≠ Keys.pool_prefix k).

Lemma grow_refl w w' :
  w_cloud w' = w_cloud w → w_cloudlog w' = w_cloudlog w → w_provider w' = w_provider w → w_pods w' = w_pods w →
  w_ipam w' = w_ipam w → grow w w'.
Proof. intros ? ? ? ? E. split_and!; try done. intros y. left. by rewrite E. Qed.

Lemma grow_trans w1 w2 w3 : grow w1 w2 → grow w2 w3 → grow w1 w3.
Proof.
  intros (C1 & L1 & P1 & O1 & H1) (C2 & L2 & P2 & O2 & H2). split_and!; try congruence.
  intros y. destruct (H2 y) as [E2|[N2 K2]].
  - rewrite E2. apply H1.
  - destruct (H1 y) as [E1|[N1 K1]]; right; (split; [congruence|done]).
Qed.

Lemma cinv_grow w w' : CInv w → WInv w' → grow w w' → CInv w' ∧ freed_unassigned w w' ∧ w_provider w' = w_provider w.
Proof.
  intros HC HW' (EC & EL & EP & EPo & Hy). apply cinv_table; try done.
  intros y. destruct (Hy y) as [E|[Hn Hk]]; [left; by apply keepish_eq|]. right. split.
  - destruct (w_cloud w !! y) as [n|] eqn:Ec; [|done]. destruct (ci_alloc w HC y n Ec) as (e & He & _). congruence.
  - intros e' k He' Hk'. by destruct (Hk e' k He').
Qed.

(** the table does not change, the truth pods may *)
Lemma cinv_pods w w' :
  CInv w → WInv w' →
  w_cloud w' = w_cloud w → w_cloudlog w' = w_cloudlog w → w_provider w' = w_provider w → w_ipam w' = w_ipam w →
  (∀ k p, w_pods w' !! k = Some p → live_bound p →
          ∃ k0 p0, w_pods w !! k0 = Some p0 ∧ live_bound p0 ∧ pd_ips p0 = pd_ips p ∧ pd_node p0 = pd_node p) →
  CInv w' ∧ freed_unassigned w w' ∧ w_provider w' = w_provider w.
Proof.
  intros [HW HL HA HV HP HN] HW' EC EL EP EI Hpods. split; [split|split; [|done]].
  - done.
  - unfold log_wf. by rewrite EC, EL.
  - intros x n. rewrite EC, EI. apply HA.
  - rewrite EP. intros Hp k p x Hk Hlb Hx. destruct (Hpods k p Hk Hlb) as (k0 & p0 & Hk0 & Hlb0 & Eips & Enode).
    rewrite EC, <- Enode. apply (HV Hp k0 p0 x Hk0 Hlb0). by rewrite Eips.
  - intros x e k. rewrite EI. apply HP.
  - rewrite EP, EC. done.
  - intros x e He Hch. rewrite EI, He in Hch. done.
Qed.

(** * the release side *)
Definition crel (K : str) (w w' : world) : Prop :=
  w_pods w' = w_pods w ∧ w_provider w' = w_provider w ∧
  (∀ y, w_cloud w' !! y = w_cloud w !! y ∨
        (w_cloud w' !! y = None ∧ ∃ e, i_alloc (w_ipam w) !! y = Some e ∧ e_key e = K)) ∧
  (∀ y, i_alloc (w_ipam w') !! y = i_alloc (w_ipam w) !! y ∨
        (w_cloud w' !! y = None ∧ ∃ e, i_alloc (w_ipam w) !! y = Some e ∧ e_key e = K ∧
           (i_alloc (w_ipam w') !! y = None ∨ ∃ e', i_alloc (w_ipam w') !! y = Some e' ∧ e_node e' = []))) ∧
  (log_wf w → log_wf w').

Lemma crel_refl K w : crel K w w.
Proof. split_and!; try done; intros y; by left. Qed.

Lemma crel_trans K w1 w2 w3 : crel K w1 w2 → crel K w2 w3 → crel K w1 w3.
Proof.
  intros (P1 & V1 & C1 & A1 & L1) (P2 & V2 & C2 & A2 & L2).
  assert (∀ y e2, i_alloc (w_ipam w2) !! y = Some e2 → e_key e2 = K → ∃ e, i_alloc (w_ipam w1) !! y = Some e ∧ e_key e = K) as Hback.
  { intros y e2 He2 Hk2. destruct (A1 y) as [E|(_ & e & He & Hk & _)]; [exists e2; by rewrite <- E|by exists e]. }
  assert (∀ y, w_cloud w2 !! y = None → w_cloud w3 !! y = None) as Hoff.
  { intros y Hy. destruct (C2 y) as [E|[E _]]; congruence. }
  split_and!; [congruence|congruence| | |auto].
  - intros y. destruct (C2 y) as [E2|(N2 & e2 & He2 & Hk2)].
    + rewrite E2. apply C1.
    + right. split; [done|]. by eapply Hback.
  - intros y. destruct (A2 y) as [E2|(N2 & e2 & He2 & Hk2 & Hnew)].
    + rewrite E2. destruct (A1 y) as [E1|(N1 & Hrest)]; [by left|]. right. split; [by apply Hoff|done].
    + right. split; [done|]. destruct (Hback y e2 He2 Hk2) as (e & He & Hk). exists e. done.
Qed.

Lemma crel_unassign K w x n e : i_alloc (w_ipam w) !! x = Some e → e_key e = K → crel K w (cloud_unassign w x n).
Proof.
  intros He Hk. split_and!; try done; cbn [cloud_unassign w_cloud w_ipam].
  - intros y. destruct (decide (y = x)) as [->|Hne].
    + right. rewrite lookup_delete. split; [done|]. by exists e.
    + left. by rewrite lookup_delete_ne.
  - intros y. by left.
  - apply log_wf_unassign.
Qed.

Definition key_off (K : str) (w : world) : Prop :=
  ∀ y e, i_alloc (w_ipam w) !! y = Some e → e_key e = K → w_cloud w !! y = None.

Lemma crel_set_ipam K w i' :
  key_off K w →
  (∀ y, i_alloc i' !! y = i_alloc (w_ipam w) !! y ∨
        ∃ e, i_alloc (w_ipam w) !! y = Some e ∧ e_key e = K ∧ (i_alloc i' !! y = None ∨ ∃ e', i_alloc i' !! y = Some e' ∧ e_node e' = [])) →
  crel K w (set_ipam w i').
Proof.
  intros Hoff Hy. split_and!; try done; cbn [set_ipam w_cloud w_ipam].
  - intros y. by left.
  - intros y. destruct (Hy y) as [E|(e & He & Hk & Hnew)]; [by left|]. right. split; [by eapply Hoff|]. by exists e.
Qed.

Lemma key_off_crel K w w' : crel K w w' → key_off K w → key_off K w'.
Proof.
  intros (_ & _ & C & A & _) Hoff y e' He' Hk'.
  destruct (A y) as [E|[Hn _]]; [|done]. rewrite E in He'.
  destruct (C y) as [Ec|[Hn _]]; [|done]. rewrite Ec. by eapply Hoff.
Qed.

(** what a [crel] change keeps *)
Lemma crel_cinv K w w' :
  CInv w → WInv w' → crel K w w' →
  (∀ k p, w_pods w !! k = Some p → live_bound p → pod_key p ≠ K) →
  CInv w' ∧ freed_unassigned w w' ∧ w_provider w' = w_provider w.
Proof.
  intros [HW HL HA HV HP HN] HW' (EPo & EP & C & A & L) Hno. split; [split|split; [|done]].
  - done.
  - auto.
  - intros x n Hx. destruct (C x) as [Ec|[Hn _]]; [|congruence]. rewrite Ec in Hx.
    destruct (A x) as [Ea|[Hn _]]; [|congruence]. rewrite Ea. by apply HA.
  - rewrite EP. intros Hp k p x. rewrite EPo. intros Hk Hlb Hx.
    destruct (C x) as [Ec|(_ & e & He & Hke)]; [rewrite Ec; by eapply HV|]. exfalso.
    destruct (wi_owned w HW k p Hk Hlb) as [Ho1 _]. destruct (Ho1 x Hx) as (e0 & He0 & Hk0 & _).
    apply (Hno k p Hk Hlb). congruence.
  - intros x e' k He' Hk. destruct (A x) as [Ea|(_ & e & He & Hke & [Hn|(e1 & He1 & Hnode)])].
    + rewrite Ea in He'. by eapply HP.
    + congruence.
    + congruence.
  - rewrite EP. intros Hp. specialize (HN Hp). apply map_eq. intros y. rewrite lookup_empty.
    destruct (C y) as [Ec|[Hn _]]; [|done]. by rewrite Ec, HN, lookup_empty.
  - intros x e He Hch. destruct (A x) as [Ea|[Hn _]]; [|done]. rewrite Ea, He in Hch. done.
Qed.

Lemma crel_set_queue K w w' q : crel K w w' → crel K w (set_queue w' q).
Proof. intros (P & V & C & A & L). split_and!; done. Qed.

(** ** building blocks *)
Lemma release_key_crel w key o fl : key_off key w → crel key w (release_key w key o fl).1.
Proof.
  intros Hoff. destruct (release_key w key o fl) as [w' r] eqn:E. cbn [fst].
  destruct (release_key_frame _ _ _ _ _ _ E) as [-> Hy]. apply crel_set_ipam; [done|].
  intros y. destruct (Hy y) as [?|(e & He & Hk & Hn)]; [by left|]. right. exists e. split_and!; try done. by left.
Qed.

Lemma reserve_ip_node s K newk order nfail y :
  i_alloc (reserve_ip s K newk free_entry_attr order nfail).1 !! y = i_alloc s !! y ∨
  ∃ e e', i_alloc s !! y = Some e ∧ e_key e = K ∧
          i_alloc (reserve_ip s K newk free_entry_attr order nfail).1 !! y = Some e' ∧ e_node e' = [].
Proof.
  destruct (reserve_ip s K newk free_entry_attr order nfail) as [s' ra] eqn:Er. cbn [fst].
  destruct (reserve_ip_spec _ _ _ _ _ _ _ _ Er) as (_ & _ & Hy).
  destruct (Hy y) as [E|(e & t & He & Hk & He')]; [by left|]. right. eexists e, _. split_and!; try done.
Qed.

Lemma reserve_key_crel w key prefix o fl : key_off key w → crel key w (reserve_key w key prefix o fl).1.
Proof.
  intros Hoff. unfold reserve_key. cbn [fst]. apply crel_set_ipam; [done|].
  intros y. destruct (reserve_ip_node (w_ipam w) key prefix (o_order o) (f_store fl) y) as [E|(e & e' & He & Hk & He' & Hn)]; [by left|].
  right. exists e. split_and!; try done. right. by exists e'.
Qed.

Lemma unbind_dp_crel w k policy o fl : key_off (Keys.ko_key k) w → crel (Keys.ko_key k) w (unbind_dp w k policy o fl).1.
Proof.
  intros Hoff. unfold unbind_dp.
  destruct (policy =? 0); [by apply release_key_crel|].
  destruct (policy =? 2).
  { destruct (str_eqb _ _); [by apply crel_refl|by apply reserve_key_crel]. }
  destruct (_ =? 0); [by apply release_key_crel|].
  destruct (_ <? _); [by apply release_key_crel|].
  destruct (str_eqb _ _); [by apply crel_refl|by apply reserve_key_crel].
Qed.

Lemma unbind_nondp_crel w k policy o fl : key_off (Keys.ko_key k) w → crel (Keys.ko_key k) w (unbind_nondp w k policy o fl).1.
Proof.
  intros Hoff. unfold unbind_nondp.
  destruct (_ || _)%bool; [by apply release_key_crel|].
  destruct (policy =? 2); [by apply reserve_key_crel|].
  destruct (policy =? 1); [|by apply crel_refl].
  destruct (ko_is_sts k); [|by apply crel_refl].
  destruct (w_sts w !! _); [|by apply release_key_crel].
  destruct (pod_index _); [|by apply crel_refl].
  destruct (_ <? _); [by apply release_key_crel|by apply reserve_key_crel].
Qed.

Lemma unbind_any_crel w k policy o fl : key_off (Keys.ko_key k) w →
  crel (Keys.ko_key k) w (if ko_is_dp k then unbind_dp w k policy o fl else unbind_nondp w k policy o fl).1.
Proof. intros Hoff. destruct (ko_is_dp k); [by apply unbind_dp_crel|by apply unbind_nondp_crel]. Qed.

Lemma unassign_loop_crel K fl order : ∀ w idx w' r,
  (∀ x, x ∈ order → ∃ e, i_alloc (w_ipam w) !! x = Some e ∧ e_key e = K) →
  unassign_loop w order idx fl = (w', r) →
  crel K w w' ∧ w_ipam w' = w_ipam w ∧
  (r = SOk → (∀ x, x ∈ order → w_cloud w' !! x = None) ∧
             ∀ n, f_cloud fl = Some n → (n < idx ∨ idx + List.length order ≤ n)%nat).
Proof.
  induction order as [|x rest IH]; intros w idx w' r Hord H; cbn [unassign_loop] in H.
  { inversion H; subst. split_and!; [apply crel_refl|done|]. intros _. split; [intros x Hx; by apply elem_of_nil in Hx|].
    intros n _. cbn [List.length]. lia. }
  destruct (Hord x) as (e & He & Hk); [by left|]. rewrite He in H.
  destruct (bool_decide (f_cloud fl = Some idx)) eqn:Ef.
  { inversion H; subst. split_and!; [apply crel_refl|done|done]. }
  apply bool_decide_eq_false in Ef.
  apply IH in H as (Hc & Ei & Hok).
  2:{ intros y Hy. apply Hord. by right. }
  split_and!.
  - eapply crel_trans; [by eapply (crel_unassign K w x (e_node e))|exact Hc].
  - by rewrite Ei.
  - intros ->. destruct (Hok eq_refl) as [Hoff Hn]. split.
    + intros y Hy. apply elem_of_cons in Hy as [->|Hy]; [|by apply Hoff].
      destruct Hc as (_ & _ & C & _). destruct (C x) as [Ec|[Hnone _]]; [|done]. rewrite Ec.
      cbn [cloud_unassign w_cloud]. apply lookup_delete.
    + intros n En. destruct (Hn n En) as [Hlt|Hge]; cbn [List.length]; [|lia].
      destruct (decide (n = idx)) as [->|Hne]; [done|lia].
Qed.

(** ** a queued pod event *)
Lemma unbind_section_crel w q o oun fl :
  (w_provider w = false → w_cloud w = ∅) →
  crel (pod_key q) w (unbind_section true w q o oun fl).1.
Proof.
  intros HN. unfold unbind_section. fold (pod_key q). cbn [andb].
  destruct (existsb _ (by_key (w_ipam w) (pod_key q))) eqn:Et; [apply crel_refl|].
  set (mine := by_key (w_ipam w) (pod_key q)).
  match goal with |- crel _ _ (match ?r with _ => _ end).1 => set (r0 := r) end.
  assert (∀ l, forallb (λ x, existsb (λ kv : N * entry, kv.1 =? x) mine) l = true →
               ∀ x, x ∈ l → ∃ e, i_alloc (w_ipam w) !! x = Some e ∧ e_key e = pod_key q) as Hsub.
  { intros l Hl x Hx. rewrite forallb_forall in Hl. apply elem_of_list_In in Hx. specialize (Hl x Hx).
    apply existsb_exists in Hl as ([y e] & Hin & Hy). cbn [fst] in Hy. apply N.eqb_eq in Hy as ->.
    apply by_key_spec in Hin. by exists e. }
  assert (crel (pod_key q) w r0.1 ∧ (r0.2 = SOk → key_off (pod_key q) r0.1)) as [Hr0 Hoff0].
  { subst r0. destruct (w_provider w) eqn:Ep.
    2:{ split; [apply crel_refl|]. intros _ y e _ _. cbn [fst]. by rewrite (HN eq_refl), lookup_empty. }
    match goal with |- context [if ?c then unassign_loop _ _ _ _ else _] => destruct c eqn:Ev end.
    - apply andb_true_iff in Ev as [Ev Hall]. apply andb_true_iff in Ev as [Hnd Hlen].
      apply bool_decide_eq_true in Hnd, Hlen.
      destruct (unassign_loop w oun 0 fl) as [w1 r1] eqn:El. cbn [fst snd].
      apply (unassign_loop_crel (pod_key q)) in El as (Hc & Ei & Hok); [|by apply Hsub].
      split; [done|]. intros ->. destruct (Hok eq_refl) as [Hoff _]. intros y e He Hk. rewrite Ei in He.
      apply Hoff. apply (nodup_subset_length_eq oun (map fst mine)); [done| |by rewrite map_length|].
      + intros x Hx. destruct (Hsub oun Hall x Hx) as (ex & Hex & Hkx).
        apply elem_of_list_In, in_map_iff. exists (x, ex). split; [done|]. by apply by_key_spec.
      + apply elem_of_list_In, in_map_iff. exists (y, e). split; [done|]. by apply by_key_spec.
    - destruct (f_cloud fl) as [n|] eqn:Ec; [|split; [apply crel_refl|done]].
      match goal with |- context [if ?c then unassign_loop _ _ _ _ else _] => destruct c eqn:Ev2 end; [|split; [apply crel_refl|done]].
      apply andb_true_iff in Ev2 as [Ev2 Hlen]. apply andb_true_iff in Ev2 as [Hnd Hall].
      apply bool_decide_eq_true in Hlen.
      destruct (unassign_loop w oun 0 fl) as [w1 r1] eqn:El. cbn [fst snd].
      apply (unassign_loop_crel (pod_key q)) in El as (Hc & Ei & Hok); [|by apply Hsub].
      split; [done|]. intros ->. destruct (Hok eq_refl) as [_ Hn]. destruct (Hn n Ec); lia. }
  destruct r0 as [w1 [| |]]; cbn [fst snd] in *; try done.
  eapply crel_trans; [exact Hr0|]. apply (unbind_any_crel w1 (keyobj_of q)). by apply Hoff0.
Qed.

Lemma freed_refl w w' : w_ipam w' = w_ipam w → freed_unassigned w w'.
Proof. intros E x e He Hch. rewrite E, He in Hch. done. Qed.

Lemma cinv_same w : CInv w → CInv w ∧ freed_unassigned w w ∧ w_provider w = w_provider w.
Proof. intros HC. split_and!; [done|by apply freed_refl|done]. Qed.

Lemma cinv_event w n o oun fl :
  CInv w → CInv (pstep w (PEvent n o oun fl)).1 ∧ freed_unassigned w (pstep w (PEvent n o oun fl)).1 ∧ w_provider (pstep w (PEvent n o oun fl)).1 = w_provider w.
Proof.
  intros HC. pose proof (ci_winv w HC) as HW. pose proof (winv_event w n o oun fl HW) as HW'.
  cbn [pstep] in *. destruct (w_queue w !! n) as [q|] eqn:En; [|by apply cinv_same].
  pose proof (wi_queue w HW) as HQ. rewrite Forall_forall in HQ.
  destruct (HQ q) as [Wq Hq]; [by eapply elem_of_list_lookup_2|].
  pose proof (unbind_section_crel w q o oun fl (ci_noprov w HC)) as Hc.
  destruct (unbind_section_confined w q o oun fl (wi_ipam w HW)) as [_ Hsame].
  destruct (f1_test w q) eqn:Et.
  - rewrite (Hsame eq_refl) in *. cbn [fst] in *. apply cinv_grow; [done|done|]. by apply grow_refl.
  - destruct (unbind_section true w q o oun fl) as [w1 [| |]]; cbn [fst] in *.
    + eapply crel_cinv; [done|done|by apply crel_set_queue|]. by apply event_no_live.
    + eapply crel_cinv; [done|done|done|]. by apply event_no_live.
    + eapply crel_cinv; [done|done|done|]. by apply event_no_live.
Qed.

(** ** one resync item *)
Definition assigned_of (w : world) (K : str) : list (N * entry) :=
  List.filter (λ kv : N * entry, negb (Keys.is_empty (e_node kv.2))) (by_key (w_ipam w) K).

(** an IP whose entry has no node stored is Off *)
Lemma nodeless_off w y ey : CInv w → i_alloc (w_ipam w) !! y = Some ey → e_node ey = [] → w_cloud w !! y = None.
Proof.
  intros HC Hey Hn. destruct (w_cloud w !! y) as [ny|] eqn:Ecy; [|done].
  destruct (ci_alloc w HC y ny Ecy) as (e0 & He0 & Hn0 & Hnn). rewrite Hey in He0. simplify_eq.
Qed.

Lemma in_assigned_of w K y ey : In (y, ey) (assigned_of w K) ↔ i_alloc (w_ipam w) !! y = Some ey ∧ e_key ey = K ∧ e_node ey ≠ [].
Proof.
  unfold assigned_of. rewrite filter_In, by_key_spec. cbn [snd]. rewrite negb_true_iff, is_empty_false'. tauto.
Qed.

Lemma key_off_start w K :
  CInv w → (w_provider w && match assigned_of w K with [] => false | _ => true end)%bool = false → key_off K w.
Proof.
  intros HC Hp y e' He' Hk'. apply andb_false_iff in Hp as [Hp|Hp].
  - by rewrite (ci_noprov w HC Hp), lookup_empty.
  - destruct (assigned_of w K) as [|kv l] eqn:Ea; [|done].
    destruct (Keys.is_empty (e_node e')) eqn:En.
    + apply is_empty_true in En. by eapply nodeless_off.
    + apply is_empty_false' in En. assert (In (y, e') (assigned_of w K)) as Hin by (by apply in_assigned_of).
      rewrite Ea in Hin. done.
Qed.

(** the provider part of a (repaired) resync item: UnAssignIP of every IP of the key that has a node stored, then node and
    uid of the key's IPs are cleared *)
Lemma resync_section_crel w ip o ocl fl e :
  CInv w → i_alloc (w_ipam w) !! ip = Some e →
  crel (e_key e) w (resync_section w ip o ocl fl).1.
Proof.
  intros HC He. unfold resync_section. rewrite He.
  destruct (resync_skip _ _); [apply crel_refl|].
  destruct (pod_running _ _ _ _); [apply crel_refl|].
  set (k := Keys.parse_key (e_key e)).
  assert (Keys.ko_key k = e_key e) as Ekk by apply parse_key_key.
  match goal with |- crel _ _ (match ?r with _ => _ end).1 => set (s1 := r) end.
  assert (crel (e_key e) w s1.1 ∧ (s1.2 = SOk → key_off (e_key e) s1.1)) as [Hs1 Hoff].
  { subst s1. cbv zeta. fold (assigned_of w (e_key e)).
    set (assigned := assigned_of w (e_key e)).
    destruct (w_provider w && match assigned with [] => false | _ => true end)%bool eqn:Ep.
    2:{ split; [apply crel_refl|]. intros _. by apply key_off_start. }
    set (n := List.length assigned). set (oun := take n ocl).
    match goal with |- context [if negb ?c then _ else _] => destruct c eqn:Ev end; cbn [negb]; [|split; [apply crel_refl|done]].
    apply andb_true_iff in Ev as [Hnd Hall]. apply bool_decide_eq_true in Hnd.
    assert (∀ x, x ∈ oun → ∃ ex, i_alloc (w_ipam w) !! x = Some ex ∧ e_key ex = e_key e ∧ In (x, ex) assigned) as Hsub.
    { intros x Hx. rewrite forallb_forall in Hall. apply elem_of_list_In in Hx. specialize (Hall x Hx).
      apply existsb_exists in Hall as ([y ey] & Hin & Hy). cbn [fst] in Hy. apply N.eqb_eq in Hy as ->.
      exists ey. pose proof Hin as Hin'. apply in_assigned_of in Hin' as (? & ? & _). done. }
    destruct (unassign_loop w oun 0 fl) as [w1 r1] eqn:El.
    apply (unassign_loop_crel (e_key e)) in El as (Hc & Ei & Hok).
    2:{ intros x Hx. destruct (Hsub x Hx) as (ex & ? & ? & _). by exists ex. }
    destruct r1.
    - match goal with |- context [if negb ?c then _ else _] => destruct c eqn:Efull end; cbn [negb]; [|split; [apply crel_refl|done]].
      apply bool_decide_eq_true in Efull.
      destruct (Hok eq_refl) as [Hoffun _].
      assert (key_off (e_key e) w1) as Hoff1.
      { intros y ey Hey Hky. rewrite Ei in Hey.
        destruct (Keys.is_empty (e_node ey)) eqn:Eny.
        - apply is_empty_true in Eny.
          assert (w_cloud w !! y = None) as Hcy by (by eapply nodeless_off).
          destruct Hc as (_ & _ & C & _). destruct (C y) as [Ec|[Hnone _]]; [by rewrite Ec|done].
        - apply Hoffun. apply (nodup_subset_length_eq oun (map fst assigned)); [done| |by rewrite map_length|].
          + intros x Hx. destruct (Hsub x Hx) as (ex & _ & _ & Hin). apply elem_of_list_In, in_map_iff. by exists (x, ex).
          + apply elem_of_list_In, in_map_iff. exists (y, ey). split; [done|]. apply in_assigned_of.
            apply is_empty_false' in Eny. done. }
      match goal with |- context [reserve_ip (w_ipam w1) _ _ _ ?ocl0 None] => set (ocl1 := ocl0) end.
      set (r := reserve_ip (w_ipam w1) (e_key e) (e_key e) free_entry_attr ocl1 None).
      assert (crel (e_key e) w1 (set_ipam w1 r.1)) as Hw2.
      { apply crel_set_ipam; [done|]. intros y.
        destruct (reserve_ip_node (w_ipam w1) (e_key e) (e_key e) ocl1 None y) as [E|(e0 & e' & He0 & Hk & He' & Hn)]; [by left|].
        right. exists e0. split_and!; try done. right. by exists e'. }
      destruct r.2; cbn [fst snd];
        (split; [first [done|by eapply crel_trans]|]); intros Hr; first [done|by eapply key_off_crel].
    - destruct (f_cloud fl); [|split; [apply crel_refl|done]].
      destruct (_ || _)%bool; cbn [fst snd]; split; try done; apply crel_refl.
    - split; [done|done]. }
  destruct s1 as [w1 [| |]]; cbn [fst snd] in *; try done.
  eapply crel_trans; [exact Hs1|]. rewrite <- Ekk. apply unbind_any_crel. rewrite Ekk. by apply Hoff.
Qed.

Lemma cinv_resync w ip o ocl fl :
  CInv w →
  CInv (pstep w (PResync ip o ocl fl)).1 ∧ freed_unassigned w (pstep w (PResync ip o ocl fl)).1 ∧ w_provider (pstep w (PResync ip o ocl fl)).1 = w_provider w.
Proof.
  intros HC. pose proof (ci_winv w HC) as HW. pose proof (winv_resync w ip o ocl fl HW) as HW'.
  assert ((pstep w (PResync ip o ocl fl)).1 = (resync_section w ip o ocl fl).1) as Efst.
  { cbn [pstep]. by destruct (resync_section w ip o ocl fl) as [w' [| |]]. }
  rewrite Efst in *.
  destruct (resync_section_confined w ip o ocl fl (wi_ipam w HW)) as [E|(e & He & Hrun & _)].
  { rewrite E. by apply cinv_same. }
  eapply crel_cinv; [done|done|by apply resync_section_crel|].
  eapply not_running_no_live; [done|done|by left|done].
Qed.

(** ** an API release *)
Lemma api_release_free w k ip ocl fl : i_alloc (w_ipam w) !! ip = None → (api_release_section w k ip ocl fl).1 = w.
Proof.
  intros Hn. unfold api_release_section, by_ip. rewrite Hn.
  destruct (decide (ip ∈ i_unalloc (w_ipam w))); [|by destruct (Keys.is_empty _)].
  cbn [mk_entry e_key e_node e_uid free_entry_attr a_node a_uid].
  destruct (negb _); [by destruct (Keys.is_empty _)|].
  destruct (pod_running _ _ _ _); [done|].
  rewrite andb_false_r. unfold release. rewrite Hn. cbn [fst]. apply set_ipam_self.
Qed.

(** the (repaired) API release touches the one IP only: UnAssignIP(ip), node and uid of [ip] cleared, [ip] released *)
Lemma api_release_section_crel w k ip ocl fl e :
  CInv w → i_alloc (w_ipam w) !! ip = Some e →
  crel (e_key e) w (api_release_section w k ip ocl fl).1.
Proof.
  intros HC He. unfold api_release_section, by_ip. rewrite He.
  destruct (str_eqb_spec (e_key e) (Keys.ko_key k)) as [Ek|Ek]; cbn [negb].
  2:{ destruct (Keys.is_empty _); apply crel_refl. }
  destruct (pod_running _ _ _ _); [apply crel_refl|].
  match goal with |- crel _ _ (match ?r with _ => _ end).1 => set (s1 := r) end.
  (* after the first part the IP is Off, still keyed [e_key e] if it is there at all *)
  assert (crel (e_key e) w s1.1 ∧
          (s1.2 = SOk → w_cloud s1.1 !! ip = None ∧ ∀ y, y ≠ ip → i_alloc (w_ipam s1.1) !! y = i_alloc (w_ipam w) !! y)) as [Hs1 Hoff].
  { subst s1.
    destruct (w_provider w && negb (Keys.is_empty (e_node e)))%bool eqn:Ep.
    2:{ split; [apply crel_refl|]. intros _. cbn [fst]. split; [|done].
        destruct (w_cloud w !! ip) as [n|] eqn:Ec; [|done]. exfalso.
        apply andb_false_iff in Ep as [Hp|Hp].
        - by rewrite (ci_noprov w HC Hp), lookup_empty in Ec.
        - destruct (ci_alloc w HC ip n Ec) as (e0 & He0 & Hn & Hne). rewrite He in He0. simplify_eq.
          apply negb_false_iff, is_empty_true in Hp. done. }
    destruct (bool_decide _); [split; [apply crel_refl|done]|].
    set (w1 := cloud_unassign w ip (e_node e)).
    assert (crel (e_key e) w w1) as Hw1 by (by eapply crel_unassign).
    assert (w_cloud w1 !! ip = None) as Hoff1 by (cbn [w1 cloud_unassign w_cloud]; apply lookup_delete).
    match goal with |- context [update_attr (w_ipam w1) _ ip ?a0 ?f0] => set (a1 := a0); set (f1 := f0) end.
    destruct (update_attr (w_ipam w1) (e_key e) ip a1 f1) as [s' ra] eqn:Eu. cbn [fst snd].
    apply update_attr_spec in Eu as [(-> & e0 & He0 & Hk0 & Ha & _)|[Hne ->]].
    2:{ destruct ra; try done; split; done. }
    cbn [fst snd]. split.
    - eapply crel_trans; [exact Hw1|]. split_and!; try done; cbn [set_ipam w_cloud w_ipam].
      + intros y. by left.
      + intros y. rewrite Ha. destruct (decide (y = ip)) as [->|Hne]; [|left; by apply lookup_insert_ne].
        right. split; [done|]. exists e0. split_and!; try done. right. eexists. split; [apply lookup_insert|done].
    - intros _. split; [done|]. intros y Hne. cbn [set_ipam w_ipam]. rewrite Ha. by apply lookup_insert_ne. }
  destruct s1 as [w1 [| |]]; cbn [fst snd] in *; try done.
  destruct (Hoff eq_refl) as [Hoffip Hoth].
  eapply crel_trans; [exact Hs1|].
  destruct (release (w_ipam w1) (Keys.ko_key k) ip (bool_decide (f_store fl = Some 0%nat))) as [s' ra] eqn:Er. cbn [fst].
  destruct (release_spec _ _ _ _ _ _ Er) as [(_ & e0 & He0 & Hk0 & Ha & _)|[_ ->]].
  2:{ rewrite set_ipam_self. apply crel_refl. }
  split_and!; try done; cbn [set_ipam w_cloud w_ipam].
  - intros y. by left.
  - intros y. rewrite Ha. destruct (decide (y = ip)) as [->|Hne]; [|left; by apply lookup_delete_ne].
    right. split; [done|]. exists e0. split_and!; [done|congruence|]. left. apply lookup_delete.
Qed.

Lemma cinv_api_release w k ip ocl fl :
  CInv w → k = Keys.parse_key (Keys.ko_key k) →
  CInv (pstep w (PApiRelease k ip ocl fl)).1 ∧ freed_unassigned w (pstep w (PApiRelease k ip ocl fl)).1 ∧ w_provider (pstep w (PApiRelease k ip ocl fl)).1 = w_provider w.
Proof.
  intros HC Hk. pose proof (ci_winv w HC) as HW. pose proof (winv_api_release w k ip ocl fl HW Hk) as HW'.
  assert ((pstep w (PApiRelease k ip ocl fl)).1 = (api_release_section w k ip ocl fl).1) as Efst.
  { cbn [pstep]. by destruct (api_release_section w k ip ocl fl) as [w' [| |]]. }
  rewrite Efst in *.
  destruct (i_alloc (w_ipam w) !! ip) as [e|] eqn:He.
  2:{ rewrite (api_release_free w k ip ocl fl He). by apply cinv_same. }
  destruct (api_release_section_confined w k ip ocl fl (wi_ipam w HW)) as [E|(e0 & He0 & Hke & Hrun & _)].
  { rewrite E. by apply cinv_same. }
  assert (e0 = e) as -> by (unfold by_ip in He0; rewrite He in He0; congruence).
  eapply crel_cinv; [done|done|by apply api_release_section_crel|].
  rewrite Hk in Hrun. rewrite Hke. apply (not_running_no_live w (Keys.ko_key k) e ip HW); [done|by left|done].
Qed.

(** * environment, pod-IP sync *)
Lemma grow_sync_ips p fl : wf_pod p → ∀ ips idx w, Inv2 (w_ipam w) → grow w (sync_ips w p ips fl idx).
Proof.
  intros Wp. induction ips as [|x rest IH]; intros idx w Hi; cbn [sync_ips].
  { by apply grow_refl. }
  destruct (by_ip (w_ipam w) x) as [e|]; [|by apply IH].
  destruct (Keys.is_empty (e_key e)); [|by apply IH].
  destruct (existsb _ (by_key (w_ipam w) (pod_key p))); [by apply IH|].
  set (a := {| a_policy := policy_of p; a_node := pd_node p; a_uid := pd_uid p |}).
  eapply grow_trans; [|apply IH; cbn [set_ipam w_ipam]; by apply inv2_alloc_specific].
  split_and!; try done. cbn [set_ipam w_ipam]. intros y.
  destruct (alloc_specific (w_ipam w) (pod_key p) x a (bool_decide (f_store fl = Some idx))) as [s' r] eqn:E. cbn [fst].
  apply alloc_specific_spec in E as [(_ & Hx & Ha & _ & _)|(_ & ->)]; [|by left].
  rewrite Ha. destruct (decide (y = x)) as [->|Hne]; [|left; by apply lookup_insert_ne].
  right. split; [apply inv_disj; [apply Hi|done]|]. rewrite lookup_insert. intros e' k [= <-]. cbn [mk_entry e_key].
  intros Hk. by apply (pool_prefix_not_pod_key k p Wp).
Qed.

Lemma grow_sync_pod_ip w p fl : wf_pod p → Inv2 (w_ipam w) → grow w (sync_pod_ip w p fl).
Proof. intros Wp Hi. unfold sync_pod_ip. destruct (pd_phase p =? 1); [by apply grow_sync_ips|by apply grow_refl]. Qed.

Lemma grow_informer_sync w key : WInv w → grow w (informer_sync w key).
Proof.
  intros HW. unfold informer_sync.
  destruct (w_pods w !! key) as [p|] eqn:Ep; destruct (w_lister w !! key) as [old|] eqn:El; try by apply grow_refl.
  destruct (negb (str_eqb _ _)); [by apply grow_refl|].
  destruct (_ && _)%bool; [by apply grow_refl|].
  eapply grow_trans; [|apply grow_sync_pod_ip; [by apply (wi_pods w HW key p)|apply (wi_ipam w HW)]].
  by apply grow_refl.
Qed.

Lemma cinv_env w e : CInv w → wf_env w e → CInv (env_step w e) ∧ freed_unassigned w (env_step w e) ∧ w_provider (env_step w e) = w_provider w.
Proof.
  intros HC Hwf. pose proof (ci_winv w HC) as HW. pose proof (winv_env w e HW Hwf) as HW'.
  destruct e as [p|key|key ph|key|key r|key r|name r|n]; cbn [env_step] in *.
  - apply cinv_pods; try done. cbn [set_pods w_pods]. intros k q Hq Hlb.
    destruct (decide (k = pk p)) as [->|Hne].
    + rewrite lookup_insert in Hq. injection Hq as <-. destruct Hwf as (_ & Hips & _). by destruct Hlb.
    + rewrite lookup_insert_ne in Hq by done. by exists k, q.
  - apply cinv_pods; try done. cbn [set_pods w_pods]. intros k q Hq Hlb.
    apply lookup_delete_Some in Hq as [_ Hq]. by exists k, q.
  - destruct (w_pods w !! key) as [q|] eqn:Eq; [|by apply cinv_same].
    apply cinv_pods; try done. cbn [set_pods w_pods]. intros k q' Hq' Hlb.
    destruct (decide (k = key)) as [->|Hne].
    + rewrite lookup_insert in Hq'. injection Hq' as <-. exists key, q. split_and!; try done.
      destruct Hlb as [Hfin Hips]. split; [|done].
      destruct (finished q) eqn:Efq; [|done]. by rewrite (set_phase_finished q ph (Hwf q Eq Efq)) in Hfin.
    + rewrite lookup_insert_ne in Hq' by done. by exists k, q'.
  - apply cinv_grow; [done|done|by apply grow_informer_sync].
  - apply cinv_grow; [done|done|by apply grow_refl].
  - apply cinv_grow; [done|done|by apply grow_refl].
  - apply cinv_grow; [done|done|by apply grow_refl].
  - apply cinv_grow; [done|done|by apply grow_refl].
Qed.

Lemma cinv_sync_pod w p fl : CInv w → wf_op w (PSyncPod p fl) →
  CInv (pstep w (PSyncPod p fl)).1 ∧ freed_unassigned w (pstep w (PSyncPod p fl)).1 ∧ w_provider (pstep w (PSyncPod p fl)).1 = w_provider w.
Proof.
  intros HC Hwf. pose proof (ci_winv w HC) as HW. pose proof (winv_sync_pod w p fl HW Hwf) as HW'.
  cbn [pstep fst] in *. cbn [wf_op] in Hwf. unfold sync_given in *.
  destruct (w_lister w !! pk p) as [cur|] eqn:El.
  - destruct (str_eqb (pd_uid cur) (pd_uid p)); [|by apply cinv_same].
    apply cinv_grow; [done|done|]. apply grow_sync_pod_ip; [by apply (wi_lister w HW _ cur El)|apply (wi_ipam w HW)].
  - apply cinv_grow; [done|done|]. apply grow_sync_pod_ip; [done|apply (wi_ipam w HW)].
Qed.

(** * Filter *)
Lemma cinv_filter w key nodes o fl :
  CInv w → CInv (pstep w (PFilter key nodes o fl)).1 ∧ freed_unassigned w (pstep w (PFilter key nodes o fl)).1 ∧ w_provider (pstep w (PFilter key nodes o fl)).1 = w_provider w.
Proof.
  intros HC. pose proof (ci_winv w HC) as HW. pose proof (PluginBindP.winv_filter w key nodes o fl HW) as HW'.
  cbn [pstep] in *. destruct (w_pods w !! key) as [p|] eqn:Ep; [|by apply cinv_same].
  destruct (filter_section w p nodes o fl) as [w' r] eqn:E.
  assert ((let (w'0, f) := (w', r) in match f with FNodes l => (w'0, RNodes l) | FErr => (w'0, RErr) | FStuck => (w'0, RStuck) end).1 = w') as Efst
    by (by destruct r).
  rewrite Efst in *. clear Efst.
  destruct (wi_pods w HW key p Ep) as [Hpk Wp].
  apply PluginBindP.filter_section_frame in E as [->|(sn & a & ch & fail & i' & Ha & -> & Hal)]; [by apply cinv_same|].
  apply cinv_table; try done. cbn [set_ipam w_ipam]. intros y.
  destruct Hal as [Hal|[ox Hal]].
  - apply alloc_with_key_spec in Hal as [(_ & x & e & He & Hk & _ & Hal & _)|[? _]]; [|done].
    rewrite Hal. destruct (decide (y = x)) as [->|Hne]; [|left; apply keepish_eq; rewrite Hal; by apply lookup_insert_ne].
    right. split.
    + destruct (w_cloud w !! x) as [n|] eqn:Ec; [|done]. exfalso.
      destruct (ci_alloc w HC x n Ec) as (e0 & He0 & Hn & Hnn). rewrite He in He0. simplify_eq.
      apply Hnn. by apply (ci_pfx w HC x e0 (keyobj_of p)).
    + rewrite lookup_insert. intros e' k [= <-]. cbn [assign mk_entry e_key]. intros Hk'.
      exfalso. by apply (pool_prefix_not_pod_key k p Wp).
  - apply alloc_in_subnet_spec in Hal as [(_ & x & _ & Hx & _ & Hal & _)|[? _]]; [|done].
    rewrite Hal. destruct (decide (y = x)) as [->|Hne]; [|left; apply keepish_eq; rewrite Hal; by apply lookup_insert_ne].
    right. assert (i_alloc (w_ipam w) !! x = None) as Hnone by (apply inv_disj; [apply (wi_ipam w HW)|done]). split.
    + destruct (w_cloud w !! x) as [n|] eqn:Ec; [|done]. destruct (ci_alloc w HC x n Ec) as (e0 & He0 & _). congruence.
    + rewrite lookup_insert. intros e' k [= <-]. cbn [mk_entry e_key]. intros Hk'.
      exfalso. by apply (pool_prefix_not_pod_key k p Wp).
Qed.

(** * reload and restart *)
Lemma rebuild_table w i' conf :
  CInv w → keeps_assigned w conf →
  (∀ y e', i_alloc i' !! y = Some e' → ∃ e, i_alloc (w_ipam w) !! y = Some e ∧ same_owner e e') →
  (∀ y e, i_alloc (w_ipam w) !! y = Some e → (∀ ps, decode_pools conf = Some ps → configured ps y = true) →
          ∃ e', i_alloc i' !! y = Some e' ∧ same_owner e e') →
  ∀ y, keepish (w_ipam w) i' y ∨
       (w_cloud w !! y = None ∧ ∀ e' k, i_alloc i' !! y = Some e' → e_key e' = Keys.pool_prefix k → e_node e' = []).
Proof.
  intros HC Hka Hnew Hkeep y. destruct (w_cloud w !! y) as [n|] eqn:Ec.
  - left. split; [|by apply Hnew]. intros e He. apply Hkeep; [done|]. intros ps Hps. by eapply Hka.
  - right. split; [done|]. intros e' k He' Hk. destruct (Hnew y e' He') as (e & He & Ek & _ & _ & En).
    rewrite <- En. apply (ci_pfx w HC y e k He). congruence.
Qed.

Lemma cinv_configure w conf lf :
  CInv w → keeps_live w conf → keeps_assigned w conf →
  CInv (pstep w (PIpam (OConfigure conf lf []))).1 ∧ freed_unassigned w (pstep w (PIpam (OConfigure conf lf []))).1 ∧ w_provider (pstep w (PIpam (OConfigure conf lf []))).1 = w_provider w.
Proof.
  intros HC Hkl Hka. pose proof (ci_winv w HC) as HW. pose proof (winv_configure w conf lf HW Hkl) as HW'.
  cbn [pstep] in *. cbn [fst] in *.
  destruct (step (w_ipam w) (OConfigure conf lf [])) as [[s' r] l] eqn:E. cbn [fst] in *.
  apply cinv_table; try done. cbn [set_ipam w_ipam].
  apply (rebuild_table w s' conf HC Hka).
  - intros y e' He'. by apply (configure_no_new _ _ _ _ _ _ (wi_ipam w HW) E).
  - intros y e He Hconf. by apply (configure_keeps _ _ _ _ _ _ (wi_ipam w HW) E).
Qed.

Lemma cinv_restart w conf :
  CInv w → keeps_live w conf → keeps_assigned w conf →
  CInv (pstep w (PRestart conf)).1 ∧ freed_unassigned w (pstep w (PRestart conf)).1 ∧ w_provider (pstep w (PRestart conf)).1 = w_provider w.
Proof.
  intros HC Hkl Hka. pose proof (ci_winv w HC) as HW. pose proof (winv_restart w conf HW Hkl) as HW'.
  cbn [pstep] in *. cbn [fst] in *.
  destruct (step (w_ipam w) (ORestart conf)) as [[s' r] l] eqn:E. cbn [fst] in *.
  apply cinv_table; try done. cbn [set_queue set_lister set_ipam w_ipam].
  apply (rebuild_table w s' conf HC Hka).
  - intros y e' He'. by apply (restart_no_new _ _ _ _ _ (wi_ipam w HW) E).
  - intros y e He Hconf. by apply (restart_keeps _ _ _ _ _ (wi_ipam w HW) E).
Qed.

(** * Bind *)
Definition brel (key node : str) (w w' : world) : Prop :=
  w_provider w' = w_provider w ∧
  (∀ y, i_alloc (w_ipam w') !! y = i_alloc (w_ipam w) !! y ∨
        ∃ e', i_alloc (w_ipam w') !! y = Some e' ∧ e_key e' = key ∧ e_node e' = node ∧
              ∀ e, i_alloc (w_ipam w) !! y = Some e → e_key e = key) ∧
  (∀ y, w_cloud w' !! y = w_cloud w !! y ∨ (w_provider w = true ∧ w_cloud w !! y = None ∧ w_cloud w' !! y = Some node)).

Lemma brel_refl key node w : brel key node w w.
Proof. split_and!; try done; intros y; by left. Qed.

Lemma brel_trans key node w1 w2 w3 : brel key node w1 w2 → brel key node w2 w3 → brel key node w1 w3.
Proof.
  intros (P1 & A1 & C1) (P2 & A2 & C2). split_and!; [congruence| |].
  - intros y. destruct (A2 y) as [E2|(e' & He' & Hk & Hn & Hold)].
    + rewrite E2. apply A1.
    + right. exists e'. split_and!; try done. intros e He.
      destruct (A1 y) as [E1|(e1 & He1 & Hk1 & _ & Hold1)]; [apply Hold; congruence|by apply Hold1].
  - intros y. destruct (C2 y) as [E2|(Hp & N2 & S3)].
    + rewrite E2. apply C1.
    + destruct (C1 y) as [E1|(_ & _ & S2)]; [|congruence]. right. split_and!; [congruence|congruence|done].
Qed.

Lemma update_attr_ok s key x a e : Inv2 s → i_alloc s !! x = Some e → e_key e = key → (update_attr s key x a false).2 = AOk.
Proof.
  intros Hi He Hk. unfold update_attr. rewrite He, Hk, str_eqb_refl. unfold update_both, st_update.
  destruct (inv2_alloc_store s x e Hi He) as (o & -> & _). done.
Qed.

(** one iteration of [assign_loop]: the provider call (if any), then the entry of [x] has node [node] *)
Lemma assign_one (key node : str) w x e (w2 : world) :
  node ≠ [] →
  i_alloc (w_ipam w) !! x = Some e → e_key e = key →
  (w_cloud w !! x = None ∨ w_cloud w !! x = Some node) →
  log_wf w → cloud_alloc w →
  let w1 := if w_provider w then cloud_assign w x node else w in
  w_cloud w2 = w_cloud w1 → w_cloudlog w2 = w_cloudlog w1 → w_provider w2 = w_provider w →
  (∃ e2, i_alloc (w_ipam w2) !! x = Some e2 ∧ e_key e2 = key ∧ e_node e2 = node) →
  (∀ y, y ≠ x → i_alloc (w_ipam w2) !! y = i_alloc (w_ipam w) !! y) →
  brel key node w w2 ∧ log_wf w2 ∧ cloud_alloc w2 ∧ (w_provider w = true → w_cloud w2 !! x = Some node).
Proof.
  intros Hnode He Hk Hx HL HA w1 EC EL EP (e2 & He2 & Hk2 & Hn2) Hoth.
  assert (∀ y, i_alloc (w_ipam w2) !! y = i_alloc (w_ipam w) !! y ∨
        ∃ e', i_alloc (w_ipam w2) !! y = Some e' ∧ e_key e' = key ∧ e_node e' = node ∧
              ∀ e, i_alloc (w_ipam w) !! y = Some e → e_key e = key) as HAl.
  { intros y. destruct (decide (y = x)) as [->|Hne]; [|left; by apply Hoth].
    right. exists e2. split_and!; try done. intros e0 He0. congruence. }
  unfold w1 in *. clear w1. destruct (w_provider w) eqn:Ep; cbn [cloud_assign w_cloud w_cloudlog] in EC, EL.
  - split_and!.
    + split_and!; [congruence|done|]. intros y. rewrite EC. destruct (decide (y = x)) as [->|Hne].
      * rewrite lookup_insert. destruct Hx as [Hx|Hx]; [right; by split_and!|left; symmetry; exact Hx].
      * left. by apply lookup_insert_ne.
    + unfold log_wf. rewrite EC, EL. by apply (log_wf_assign w x node).
    + intros y n. rewrite EC. destruct (decide (y = x)) as [->|Hne].
      * rewrite lookup_insert. intros [= <-]. by exists e2.
      * rewrite lookup_insert_ne by done. rewrite Hoth by done. apply HA.
    + intros _. rewrite EC. apply lookup_insert.
  - split_and!; [| | |done].
    + split_and!; [congruence|done|]. intros y. left. by rewrite EC.
    + unfold log_wf. by rewrite EC, EL.
    + intros y n. rewrite EC. destruct (decide (y = x)) as [->|Hne].
      * intros Hc. destruct Hx as [Hx|Hx]; [congruence|]. rewrite Hx in Hc. injection Hc as <-. by exists e2.
      * rewrite Hoth by done. apply HA.
Qed.

Lemma assign_loop_cloud (key node : str) a reused fl : a_node a = node → node ≠ [] → f_update fl = None →
  ∀ ips w idx ridx w' r,
  assign_loop w key node a ips reused idx ridx fl = (w', r) →
  Inv2 (w_ipam w) →
  (∀ x, x ∈ ips → ∃ e, i_alloc (w_ipam w) !! x = Some e ∧ e_key e = key ∧ (existsb (N.eqb x) reused = false → e_node e = node)) →
  (∀ y e, i_alloc (w_ipam w) !! y = Some e → e_key e = key → w_cloud w !! y = None ∨ w_cloud w !! y = Some node) →
  log_wf w → cloud_alloc w →
  brel key node w w' ∧ log_wf w' ∧ cloud_alloc w' ∧
  (r = SOk → w_provider w = true → ∀ x, x ∈ ips → w_cloud w' !! x = Some node).
Proof.
  intros Han Hnode Hfu. induction ips as [|x rest IH]; intros w idx ridx w' r H Hi Hips Hkn HL HA; cbn [assign_loop] in H.
  { inversion H; subst. split_and!; [apply brel_refl|done|done|]. intros _ _ x Hx. by apply elem_of_nil in Hx. }
  destruct (w_provider w && bool_decide (f_cloud fl = Some idx)) eqn:Ef.
  { inversion H; subst. split_and!; [apply brel_refl|done|done|done]. }
  destruct (Hips x) as (e & He & Hk & Hfresh); [by left|].
  pose proof (Hkn x e He Hk) as Hx.
  set (w1 := if w_provider w then cloud_assign w x node else w) in *.
  assert (w_ipam w1 = w_ipam w ∧ w_provider w1 = w_provider w) as [Ei1 Ep1] by (unfold w1; by destruct (w_provider w) eqn:E0).
  (* the state the loop continues from *)
  assert (∃ w2 idx' ridx', assign_loop w2 key node a rest reused idx' ridx' fl = (w', r) ∧ Inv2 (w_ipam w2) ∧
            w_cloud w2 = w_cloud w1 ∧ w_cloudlog w2 = w_cloudlog w1 ∧ w_provider w2 = w_provider w ∧
            (∃ e2, i_alloc (w_ipam w2) !! x = Some e2 ∧ e_key e2 = key ∧ e_node e2 = node) ∧
            (∀ y, y ≠ x → i_alloc (w_ipam w2) !! y = i_alloc (w_ipam w) !! y)) as (w2 & idx' & ridx' & H2 & Hi2 & EC & EL & EP & Hx2 & Hoth).
  { destruct (existsb (N.eqb x) reused) eqn:Ex.
    - rewrite Hfu in H. rewrite bool_decide_eq_false_2 in H by done.
      pose proof (update_attr_ok (w_ipam w1) key x a e) as Hok. rewrite Ei1 in Hok. specialize (Hok Hi He Hk).
      pose proof (inv2_update_attr (w_ipam w1) key x a false) as Hi'. rewrite Ei1 in Hi'. specialize (Hi' Hi).
      rewrite Ei1 in H.
      destruct (update_attr (w_ipam w) key x a false) as [i' ra] eqn:Eu. cbn [fst snd] in *. subst ra.
      apply update_attr_spec in Eu as [(_ & e0 & He0 & Hk0 & Hal & _)|[? _]]; [|done].
      exists (set_ipam w1 i'), (S idx), (S ridx). split_and!; try done; cbn [set_ipam w_ipam].
      + eexists. rewrite Hal, lookup_insert. split_and!; [reflexivity|done|done].
      + intros y Hne. rewrite Hal. by apply lookup_insert_ne.
    - exists w1, (S idx), ridx. split_and!; try done; rewrite ?Ei1; try done.
      exists e. split_and!; try done. by apply Hfresh. }
  destruct (assign_one key node w x e w2 Hnode He Hk Hx HL HA EC EL EP Hx2 Hoth) as (Hb1 & HL2 & HA2 & Hon).
  destruct Hx2 as (e2 & He2 & Hk2 & Hn2).
  apply IH in H2 as (Hb2 & HL' & HA' & Hok); try done.
  - split_and!; [by eapply brel_trans|done|done|].
    intros -> Hp y Hy. specialize (Hok eq_refl). rewrite EP in Hok. specialize (Hok Hp).
    apply elem_of_cons in Hy as [->|Hy]; [|by apply Hok].
    destruct Hb2 as (_ & _ & C2). destruct (C2 x) as [E|(_ & _ & E)]; [|done]. rewrite E. by apply Hon.
  - intros y Hy. destruct (decide (y = x)) as [->|Hne]; [by exists e2|].
    rewrite (Hoth y Hne). apply Hips. by right.
  - intros y ey Hey Hky. destruct Hb1 as (_ & _ & C1).
    assert (w_cloud w !! y = None ∨ w_cloud w !! y = Some node) as Hy.
    { destruct (decide (y = x)) as [->|Hne]; [done|]. rewrite (Hoth y Hne) in Hey. by eapply Hkn. }
    destruct (C1 y) as [E|(_ & _ & E)]; [by rewrite E|by right].
Qed.

(** the allocation step of Bind only adds entries [mk_entry key a ..] at free IPs *)
Lemma bind_alloc_cloud w key node rss slots a o fl w1 oips :
  Inv2 (w_ipam w) → (rss ≠ [] → slots = by_key_ranges (w_ipam w) key rss) →
  bind_alloc w key node rss slots a o fl = Some (w1, oips) →
  ∃ i1, w1 = set_ipam w i1 ∧ Inv2 i1 ∧
    (∀ y, i_alloc i1 !! y = i_alloc (w_ipam w) !! y ∨
          (i_alloc (w_ipam w) !! y = None ∧ i_alloc i1 !! y = Some (mk_entry key a false (i_clock (w_ipam w))))) ∧
    (∀ ips, oips = Some ips → ∀ x, x ∈ ips →
       x ∈ somes slots ∨
       (i_alloc (w_ipam w) !! x = None ∧ i_alloc i1 !! x = Some (mk_entry key a false (i_clock (w_ipam w))))).
Proof.
  intros HI Hslots H. unfold bind_alloc in H. cbv zeta in H.
  assert (∀ v, Some (w, v) = Some (w1, oips) → v = None ∨ v = Some (somes slots) →
    ∃ i1, w1 = set_ipam w i1 ∧ Inv2 i1 ∧
    (∀ y, i_alloc i1 !! y = i_alloc (w_ipam w) !! y ∨
          (i_alloc (w_ipam w) !! y = None ∧ i_alloc i1 !! y = Some (mk_entry key a false (i_clock (w_ipam w))))) ∧
    (∀ ips, oips = Some ips → ∀ x, x ∈ ips →
       x ∈ somes slots ∨
       (i_alloc (w_ipam w) !! x = None ∧ i_alloc i1 !! x = Some (mk_entry key a false (i_clock (w_ipam w)))))) as Hsame.
  { intros v Hv Hvv. inversion Hv; subst. exists (w_ipam w1). split_and!; [by rewrite set_ipam_self|done|by left|].
    intros ips Hips x Hx. left. destruct Hvv as [?|Hvv]; congruence. }
  match type of H with (if ?X then _ else _) = _ => destruct X eqn:Eneed end; [|apply (Hsame _ H); by right].
  destruct (w_nodes w !! node) as [nip|]; [|apply (Hsame _ H); by left].
  destruct (node_subnet (w_ipam w) nip) as [sn|]; [|apply (Hsame _ H); by left].
  match type of H with (match ?X with [] => _ | _ :: _ => _ end) = _ => destruct X as [|rs0 missing'] eqn:Emiss end.
  - destruct (alloc_in_subnet (w_ipam w) key sn a (o_choice o) (bool_decide (f_store fl = Some 0%nat))) as [[i' ra] ox] eqn:Ea.
    pose proof (inv2_alloc_in_subnet (w_ipam w) key sn a (o_choice o) (bool_decide (f_store fl = Some 0%nat)) HI) as HI'.
    rewrite Ea in HI'. simpl in HI'.
    apply alloc_in_subnet_spec in Ea as [(-> & x & -> & Hx & _ & Hal & _)|(Hne & -> & ->)].
    + inversion H; subst; clear H. exists i'.
      assert (i_alloc (w_ipam w) !! x = None) as Hnone by (destruct HI as [HI _]; by apply (inv_disj _ HI)).
      split_and!; try done.
      * intros y. rewrite Hal. destruct (decide (y = x)) as [->|Hne]; [|left; by apply lookup_insert_ne].
        right. by rewrite lookup_insert.
      * intros ips Hips y Hy. inversion Hips; subst. apply elem_of_list_singleton in Hy as ->. right.
        by rewrite Hal, lookup_insert.
    + destruct ra; try done; apply (Hsame _ H); by left.
  - destruct (alloc_ranges (w_ipam w) key sn (rs0 :: missing') a (f_store fl)) as [[i' ra] fresh] eqn:Ea.
    pose proof (inv2_alloc_ranges (w_ipam w) key sn (rs0 :: missing') a (f_store fl) HI) as HI'.
    rewrite Ea in HI'. simpl in HI'.
    assert (rss ≠ []) as Hrss.
    { intros ->. destruct slots; discriminate Emiss. }
    specialize (Hslots Hrss).
    apply alloc_ranges_spec in Ea as [(-> & _ & _ & Hfresh & Hal & _)|(Hne & _)]; [| |by destruct HI].
    + inversion H; subst w1 oips; clear H. exists i'.
      assert (∀ y, y ∈ fresh → i_alloc (w_ipam w) !! y = None) as Hnone.
      { intros y Hy. destruct HI as [HI _]. apply (inv_disj _ HI). by apply Hfresh. }
      split_and!; try done.
      * intros y. rewrite Hal. destruct (bool_decide (y ∈ fresh)) eqn:Ey; [|by left].
        apply bool_decide_eq_true in Ey. right. split; [by apply Hnone|done].
      * intros ips Hips y Hy. inversion Hips; subst ips; clear Hips. fold (somes (by_key_ranges i' key rss)) in Hy.
        apply elem_of_somes in Hy. destruct (by_key_ranges_keyed _ _ _ _ Hy) as (e & He & Hk).
        rewrite Hal in He. destruct (bool_decide (y ∈ fresh)) eqn:Ey.
        -- right. apply bool_decide_eq_true in Ey. split; [by apply Hnone|]. by rewrite Hal, bool_decide_eq_true_2.
        -- left. apply elem_of_somes. rewrite Hslots.
           eapply by_key_ranges_old; [|exact Hy|by exists e].
           intros z ez Hz Hkz. rewrite Hal. destruct (bool_decide (z ∈ fresh)); eexists; done.
    + destruct ra; try done; apply (Hsame _ H); by left.
Qed.

Lemma first_of_key_keyed i key o x : first_of_key i key o = Some (Some x) → ∃ e, i_alloc i !! x = Some e ∧ e_key e = key.
Proof.
  intros H. apply first_of_key_some in H as (e & He & Hk & _). by exists e.
Qed.

Lemma bind_cloud w ns name uid (node : str) o fl w' r :
  CInv w → uid ≠ [] → node ≠ [] → f_update fl = None → k3_free w ns name node →
  bind_section true true w ns name uid node o fl = (w', r) →
  w' = w ∨
  ∃ l, w_lister w !! (ns, name) = Some l ∧
    brel (pod_key l) node w w' ∧ log_wf w' ∧ cloud_alloc w' ∧
    (w_pods w' = w_pods w ∨
     ∃ q ips, w_pods w' = <[(ns, name) := bound_pod q node ips]> (w_pods w) ∧
              (w_provider w = true → ∀ x, x ∈ ips → w_cloud w' !! x = Some node)).
Proof.
  intros HC Huid Hnode Hfu Hk3 H. pose proof (ci_winv w HC) as HW. unfold bind_section in H.
  destruct (w_lister w !! (ns, name)) as [l|] eqn:El; [|left; by inversion H].
  cbn [andb] in H.
  match type of H with (if negb ?X then _ else _) = _ => destruct X eqn:Ef2 end; cbn [negb] in H; [|left; by inversion H].
  cbv zeta in H.
  match type of H with (match ?X with Some _ => _ | None => _ end) = _ => destruct X as [slots|] eqn:Eslots end;
    [|left; by inversion H].
  match type of H with (if ?X then _ else _) = _ => destruct X eqn:Ef13 end; [left; by inversion H|]. clear Ef13.
  assert (pd_ranges l ≠ [] → slots = by_key_ranges (w_ipam w) (pod_key l) (pd_ranges l)) as Hslots.
  { intros Hr. destruct (pd_ranges l); [done|]. by inversion Eslots. }
  assert (∀ x, x ∈ somes slots → ∃ e, i_alloc (w_ipam w) !! x = Some e ∧ e_key e = pod_key l) as Hkeyed.
  { intros x Hx. destruct (pd_ranges l) as [|rs rss'] eqn:Er.
    - destruct (first_of_key (w_ipam w) (pod_key l) o) as [[x0|]|] eqn:Ef; inversion Eslots; subst slots.
      + apply elem_of_somes, elem_of_list_singleton in Hx. injection Hx as ->. by eapply first_of_key_keyed.
      + apply elem_of_somes in Hx. by apply elem_of_nil in Hx.
    - assert (slots = by_key_ranges (w_ipam w) (pod_key l) (rs :: rss')) as -> by congruence.
      apply elem_of_somes in Hx. by eapply by_key_ranges_keyed. }
  clear Eslots.
  set (a := {| a_policy := policy_of l; a_node := node; a_uid := pd_uid l |}) in *.
  change (match bind_alloc w (pod_key l) node (pd_ranges l) slots a o fl with
          | Some (w1, Some ips) =>
              match assign_loop w1 (pod_key l) node a ips (somes slots) 0 0 fl with
              | (w2, SOk) =>
                  match api_bind w2 (ns, name) uid node ips (f_bind fl =? 1) with
                  | (w3, BindOk) => (w3, BOk ips)
                  | (w3, BindNotFound) => (set_queue w3 (w_queue w3 ++ [l]), BErr)
                  | (w3, BindFail) => (w3, BErr)
                  end
              | (w2, _) => (w2, BErr)
              end
          | Some (w1, None) => (w1, BErr)
          | None => (w, BStuck)
          end = (w', r)) in H.
  destruct (bind_alloc w (pod_key l) node (pd_ranges l) slots a o fl) as [[w1 oips]|] eqn:Ealloc; [|left; by inversion H].
  apply bind_alloc_cloud in Ealloc as (i1 & -> & Hi1 & Hal1 & Hips); [|apply (wi_ipam w HW)|done].
  set (w1 := set_ipam w i1) in *.
  assert (brel (pod_key l) node w w1) as Hb1.
  { split_and!; [done| |intros y; by left]. intros y. cbn [w1 set_ipam w_ipam].
    destruct (Hal1 y) as [E|[Hn E]]; [by left|]. right. eexists. split_and!; [exact E|done|done|]. intros e He. congruence. }
  assert (log_wf w1) as HL1 by exact (ci_log w HC).
  assert (cloud_alloc w1) as HA1.
  { intros y n Hy. destruct (ci_alloc w HC y n Hy) as (e & He & Hn). exists e. split; [|done]. cbn [w1 set_ipam w_ipam].
    destruct (Hal1 y) as [E|[Hnone _]]; congruence. }
  right. exists l. split; [done|].
  destruct oips as [ips|].
  2:{ inversion H; subst w'; clear H. split_and!; try done. by left. }
  specialize (Hips ips eq_refl).
  destruct (assign_loop w1 (pod_key l) node a ips (somes slots) 0 0 fl) as [w2 r2] eqn:Eloop.
  pose proof (assign_loop_frame _ _ _ _ _ _ _ _ _ _ _ Eloop) as (Ep2 & _).
  apply (assign_loop_cloud (pod_key l) node a (somes slots) fl eq_refl Hnode Hfu) in Eloop as (Hb2 & HL2 & HA2 & Hon); try done.
  2:{ intros x Hx. cbn [w1 set_ipam w_ipam]. destruct (Hips x Hx) as [Hs|[Hn E]].
      - destruct (Hkeyed x Hs) as (e & He & Hk). exists e. split_and!; [|done|].
        + destruct (Hal1 x) as [E|[Hnone _]]; congruence.
        + intros Hex. rewrite (existsb_eqb_elem x _ Hs) in Hex. done.
      - eexists. split_and!; [exact E|done|done]. }
  2:{ intros y e. cbn [w1 set_ipam w_ipam w_cloud]. intros He Hk. destruct (w_cloud w !! y) as [n|] eqn:Ec; [|by left]. right.
      destruct (Hal1 y) as [E|[Hnone _]].
      - rewrite E in He. f_equal. by apply (Hk3 l y e n).
      - destruct (ci_alloc w HC y n Ec) as (e0 & He0 & _). congruence. }
  pose proof (brel_trans _ _ _ _ _ Hb1 Hb2) as Hb.
  assert (w_pods w2 = w_pods w) as Epods by (by rewrite Ep2).
  destruct r2; [|inversion H; subst w'; split_and!; try done; by left..].
  destruct (api_bind w2 (ns, name) uid node ips (f_bind fl =? 1)) as [w3 out] eqn:Ebind.
  apply api_bind_cases in Ebind. destruct out.
  - destruct Ebind as (q & Hq & _ & _ & ->). inversion H; subst w'; clear H.
    split_and!; [|exact HL2|exact HA2|].
    + destruct Hb as (? & ? & ?). split_and!; done.
    + right. exists q, ips. cbn [set_pods w_pods w_cloud]. rewrite Epods. split; [done|]. intros Hp. by apply Hon.
  - destruct Ebind as [-> _]. inversion H; subst w'; clear H.
    split_and!; [|exact HL2|exact HA2|by left].
    destruct Hb as (? & ? & ?). split_and!; done.
  - subst w3. inversion H; subst w'; clear H. split_and!; try done. by left.
Qed.

Lemma cinv_bind w ns name uid (node : str) o fl :
  CInv w → uid ≠ [] → node ≠ [] → f_update fl = None → k3_free w ns name node →
  CInv (pstep w (PBind ns name uid node o fl)).1 ∧ freed_unassigned w (pstep w (PBind ns name uid node o fl)).1 ∧ w_provider (pstep w (PBind ns name uid node o fl)).1 = w_provider w.
Proof.
  intros HC Huid Hnode Hfu Hk3. pose proof (ci_winv w HC) as HW. pose proof (winv_bind w ns name uid node o fl HW Huid) as HW'.
  cbn [pstep] in *. destruct (bind_section true true w ns name uid node o fl) as [w' r] eqn:E.
  assert ((let (w'0, b) := (w', r) in match b with BOk ips => (w'0, RIps ips) | BErr => (w'0, RErr) | BStuck => (w'0, RStuck) end).1 = w') as Efst
    by (by destruct r).
  rewrite Efst in *. clear Efst.
  apply bind_cloud in E as [->|(l & El & (EP & A & C) & HL' & HA' & Hpods)]; try done; [by apply cinv_same|].
  destruct (wi_lister w HW _ l El) as [_ Wl].
  split; [split|split; [|done]]; try done.
  - rewrite EP. intros Hp k p x Hk Hlb Hx.
    assert (∀ k0 p0, w_pods w !! k0 = Some p0 → live_bound p0 → x ∈ pd_ips p0 → w_cloud w' !! x = Some (pd_node p0)) as Hold.
    { intros k0 p0 Hk0 Hlb0 Hx0. pose proof (ci_live w HC Hp k0 p0 x Hk0 Hlb0 Hx0) as Hc.
      destruct (C x) as [Ec|(_ & Hn & _)]; congruence. }
    destruct Hpods as [Epods|(q & ips & Epods & Hon)].
    + rewrite Epods in Hk. by eapply Hold.
    + rewrite Epods in Hk. destruct (decide (k = (ns, name))) as [->|Hne].
      * rewrite lookup_insert in Hk. injection Hk as <-. cbn [bound_pod pd_node pd_ips] in *. by apply Hon.
      * rewrite lookup_insert_ne in Hk by done. by eapply Hold.
  - intros x e' k He' Hk. destruct (A x) as [Ea|(e1 & He1 & Hk1 & _)].
    + rewrite Ea in He'. by eapply (ci_pfx w HC).
    + exfalso. apply (pool_prefix_not_pod_key k l Wl). congruence.
  - rewrite EP. intros Hp. rewrite <- (ci_noprov w HC Hp). apply map_eq. intros y.
    destruct (C y) as [Ec|(Hp' & _)]; congruence.
  - intros x e He Hch. exfalso. destruct (A x) as [Ea|(e1 & He1 & Hk1 & _ & Hold)].
    + rewrite Ea, He in Hch. done.
    + rewrite He1 in Hch. apply Hch. rewrite Hk1. symmetry. by apply Hold.
Qed.

(** * the invariant holds initially and is kept by every step of a [wf_c10] history *)
Lemma cinv_init provider nodes : CInv (world0 provider nodes).
Proof.
  split; cbn [world0 w_cloud w_cloudlog w_provider w_pods w_ipam].
  - apply winv_init.
  - done.
  - intros x n Hx. cbn [world0 w_cloud] in Hx. by rewrite lookup_empty in Hx.
  - intros _ k p x Hk. cbn [world0 w_pods] in Hk. by rewrite lookup_empty in Hk.
  - intros x e k He. cbn [world0 w_ipam ipam0 i_alloc] in He. by rewrite lookup_empty in He.
  - done.
Qed.

Lemma cinv_step_both w o : CInv w → wf_c10 w o → CInv (pstep w o).1 ∧ freed_unassigned w (pstep w o).1 ∧ w_provider (pstep w o).1 = w_provider w.
Proof.
  intros HC [Hwf Hc]. destruct o as [e|key nodes o fl|ns name uid node o fl|n o oun fl|ip o ocl fl|k ip ocl fl|sp fl|op|conf].
  - cbn [pstep fst]. by apply cinv_env.
  - by apply cinv_filter.
  - destruct Hc as (Hnode & Hfu & Hk3). by apply cinv_bind.
  - by apply cinv_event.
  - by apply cinv_resync.
  - by apply cinv_api_release.
  - by apply cinv_sync_pod.
  - destruct op; try done. destruct Hwf as [-> Hkl]. by apply cinv_configure.
  - by apply cinv_restart.
Qed.

Lemma cinv_step w o : CInv w → wf_c10 w o → CInv (pstep w o).1.
Proof. intros HC Hwf. by destruct (cinv_step_both w o HC Hwf) as (? & ? & ?). Qed.

Lemma provider_step w o : CInv w → wf_c10 w o → w_provider (pstep w o).1 = w_provider w.
Proof. intros HC Hwf. by destruct (cinv_step_both w o HC Hwf) as (? & ? & ?). Qed.

Lemma freed_unassigned_step w o : CInv w → wf_c10 w o → w_provider w = true → freed_unassigned w (pstep w o).1.
Proof. intros HC Hwf _. by destruct (cinv_step_both w o HC Hwf) as (? & ? & ?). Qed.

Lemma cinv_run ops : ∀ w, CInv w → wf_c10_hist w ops → CInv (prun w ops).
Proof.
  induction ops as [|o ops IH]; intros w HC Hh; [done|]. destruct Hh as [Ho Hh].
  cbn [prun fold_left]. apply IH; [by apply cinv_step|done].
Qed.

Lemma prun_app w ops1 ops2 : prun w (ops1 ++ ops2) = prun (prun w ops1) ops2.
Proof. unfold prun. apply fold_left_app. Qed.

Lemma wf_c10_hist_app w ops1 ops2 : wf_c10_hist w (ops1 ++ ops2) ↔ wf_c10_hist w ops1 ∧ wf_c10_hist (prun w ops1) ops2.
Proof.
  revert w. induction ops1 as [|o ops1 IH]; intros w; cbn [app wf_c10_hist]; [unfold prun; cbn; tauto|].
  rewrite IH. unfold prun. cbn [fold_left]. tauto.
Qed.

Lemma provider_run ops : ∀ w, CInv w → wf_c10_hist w ops → w_provider (prun w ops) = w_provider w.
Proof.
  induction ops as [|o ops IH]; intros w HC Hh; [done|]. destruct Hh as [Ho Hh].
  cbn [prun fold_left]. rewrite <- (provider_step w o HC Ho). apply IH; [by apply cinv_step|done].
Qed.

Print Assumptions cinv_init.
Print Assumptions cinv_step.
Print Assumptions cinv_run.
Print Assumptions freed_unassigned_step.

(** * the property theorems (Props/C10.v) *)
Lemma cloud_wellformed_l nodes ops : let w0 := world0 true nodes in wf_c10_hist w0 ops →
  let w := prun w0 ops in log_wf w ∧ cloud_live w ∧ cloud_alloc w.
Proof.
  intros w0 Hh w. pose proof (cinv_run ops w0 (cinv_init true nodes) Hh) as HC.
  split_and!; [apply HC| |apply HC]. apply (ci_live _ HC).
  unfold w. by rewrite (provider_run ops w0 (cinv_init true nodes) Hh).
Qed.

Lemma freed_before_reuse_l nodes ops o : let w0 := world0 true nodes in wf_c10_hist w0 (ops ++ [o]) →
  freed_unassigned (prun w0 ops) (prun w0 (ops ++ [o])).
Proof.
  intros w0 Hh. apply wf_c10_hist_app in Hh as [Hh [Ho _]]. rewrite prun_app.
  pose proof (cinv_run ops w0 (cinv_init true nodes) Hh) as HC.
  apply (freed_unassigned_step _ o HC Ho). by rewrite (provider_run ops w0 (cinv_init true nodes) Hh).
Qed.

(** ** concrete histories
    Configuration: one pool 10.100.0.2~10.100.0.9 (10.100.0.2 = 174325762), routable from 10.1.0.0/24 and
    10.2.0.0/24; node1 = 10.1.0.7, node2 = 10.2.0.9; a cloud provider is configured.  One pod web-0 (uid uA) of
    the statefulset ns1/web, default release policy. *)
Definition c10_conf : list json :=
  [JObj [(L "nodeSubnets", JArr [JStr (L "10.1.0.0/24"); JStr (L "10.2.0.0/24")]);
         (L "ips", JArr [JStr (L "10.100.0.2~10.100.0.9")]);
         (L "subnet", JStr (L "10.100.0.0/24"));
         (L "gateway", JStr (L "10.100.0.1"));
         (L "vlan", JNum 2%Z)]].
Definition c10_nodes : gmap str N := list_to_map [(L "node1", 167837703); (L "node2", 167903241)].
Definition c10_pod (rs : list (list range)) : pod :=
  {| pd_ns := L "ns1"; pd_name := L "web-0"; pd_uid := L "uA"; pd_kind := KSts; pd_app := L "web"; pd_pool := [];
     pd_policy := 0; pd_ranges := rs; pd_phase := 0; pd_node := []; pd_ips := [] |}.
Definition c10_web0 : pkey := (L "ns1", L "web-0").
Definition c10_orc (f c : option N) (l : list N) : oracle := {| o_first := f; o_choice := c; o_order := l |}.
Definition c10_ip2 : N := 174325762.
Definition c10_ip3 : N := 174325763.

Lemma c10_pod_wf rs : wf_pod (c10_pod rs).
Proof.
  constructor; cbn [c10_pod pd_ns pd_name pd_uid pd_kind pd_app pd_pool]; try (apply small_name_ok'; reflexivity); try discriminate.
  apply contains_char_false. reflexivity.
Qed.

Lemma uid_fresh_empty w u : w_pods w = ∅ → w_lister w = ∅ → w_queue w = [] → uid_fresh w u.
Proof.
  intros E1 E2 E3. split_and!.
  - intros k q. by rewrite E1, lookup_empty.
  - intros k q. by rewrite E2, lookup_empty.
  - rewrite E3. constructor.
Qed.
Lemma keeps_live_empty w conf : w_pods w = ∅ → keeps_live w conf.
Proof. intros E ps _ k p x. by rewrite E, lookup_empty. Qed.
Lemma keeps_assigned_empty w conf : w_cloud w = ∅ → keeps_assigned w conf.
Proof. intros E ps x n _. by rewrite E, lookup_empty. Qed.
Lemma k3_free_empty w ns name node : w_cloud w = ∅ → k3_free w ns name node.
Proof. intros E l x e n _ _ _. by rewrite E, lookup_empty. Qed.

(** K3: the binding call of Bind(node1) fails after AssignIP(ip, node1); the scheduler retries on node2 *)
Definition h_k3 : list pop := [
  PIpam (OConfigure c10_conf false []);
  PEnv (EStsSet (L "ns1", L "web") (Some 1));
  PEnv (EPodPut (c10_pod []));
  PEnv (EInformer c10_web0);
  PFilter c10_web0 [L "node1"; L "node2"] (c10_orc None None []) no_faults;
  PBind (L "ns1") (L "web-0") (L "uA") (L "node1") (c10_orc None (Some c10_ip2) [])
        {| f_store := None; f_update := None; f_cloud := None; f_bind := 1 |};
  PBind (L "ns1") (L "web-0") (L "uA") (L "node2") (c10_orc (Some c10_ip2) None []) no_faults ].

(** K3b (repaired): a pod with two requested range lists holds two IPs On node1; it is deleted.  [h_k3b] ends in
    that world; the resync item of one of the IPs, as the code was BEFORE the repair ([resync_section_old], a copy of
    the model's former [resync_section]), unassigns that one only and releases both; the repaired item unassigns both *)
Definition resync_section_old (w : world) (ip : N) (o : oracle) (oclear : list N) (fl : faults) : world * sres :=
  match i_alloc (w_ipam w) !! ip with
  | None => (w, SOk)
  | Some e =>
      let k := Keys.parse_key (e_key e) in
      if resync_skip e k then (w, SOk) else
      if pod_running w (Keys.ko_ns k) (Keys.ko_pod k) (e_uid e) then (w, SOk) else
      let step1 : world * sres :=
        if w_provider w && negb (Keys.is_empty (e_node e)) then
          if bool_decide (f_cloud fl = Some 0%nat) then (w, SErr)
          else
            let w1 := cloud_unassign w ip (e_node e) in
            let r := reserve_ip (w_ipam w1) (e_key e) (e_key e) free_entry_attr oclear None in
            match snd r with AStuck => (w1, SStuck) | _ => (set_ipam w1 (fst r), SOk) end
        else (w, SOk) in
      match step1 with
      | (w1, SOk) =>
          let r := if ko_is_dp k then unbind_dp w1 k (e_policy e) o fl else unbind_nondp w1 k (e_policy e) o fl in
          (fst r, match snd r with SStuck => SStuck | _ => SOk end)
      | (w1, SErr) => (w1, SOk)
      | r' => r'
      end
  end.

Definition h_k3b : list pop := [
  PIpam (OConfigure c10_conf false []);
  PEnv (EStsSet (L "ns1", L "web") (Some 1));
  PEnv (EPodPut (c10_pod [[(c10_ip2, c10_ip2)]; [(c10_ip3, c10_ip3)]]));
  PEnv (EInformer c10_web0);
  PFilter c10_web0 [L "node1"; L "node2"] (c10_orc None None []) no_faults;
  PBind (L "ns1") (L "web-0") (L "uA") (L "node1") (c10_orc None None []) no_faults;
  PEnv (EPodDelete c10_web0);
  PEnv (EInformer c10_web0) ].
Definition k3b_orc : oracle := c10_orc None None [c10_ip2; c10_ip3].

(** the second way the old code lost an assignment (found while proving the repair): the item's own IP has NO node
    stored while another IP of the key is On a node.  web-0 (policy: keep while the app exists) is bound with two IPs,
    deleted, its IPs reserved; the next incarnation's Bind fails cleanly at the second AssignIP: ip2 is On node1 with the
    node stored, ip3 has no node; the pod and the statefulset are deleted; the resync item of ip3 calls no provider
    and releases both IPs.  The repaired item unassigns ip2 first. *)
Definition c10_pod1 (u : string) : pod :=
  {| pd_ns := L "ns1"; pd_name := L "web-0"; pd_uid := L u; pd_kind := KSts; pd_app := L "web"; pd_pool := [];
     pd_policy := 1; pd_ranges := [[(c10_ip2, c10_ip2)]; [(c10_ip3, c10_ip3)]]; pd_phase := 0; pd_node := []; pd_ips := [] |}.
Definition h_k3b_nodeless : list pop := [
  PIpam (OConfigure c10_conf false []);
  PEnv (EStsSet (L "ns1", L "web") (Some 1));
  PEnv (EPodPut (c10_pod1 "uA"));
  PEnv (EInformer c10_web0);
  PFilter c10_web0 [L "node1"; L "node2"] (c10_orc None None []) no_faults;
  PBind (L "ns1") (L "web-0") (L "uA") (L "node1") (c10_orc None None []) no_faults;
  PEnv (EPodDelete c10_web0);
  PEnv (EInformer c10_web0);
  PEvent 0 k3b_orc [c10_ip2; c10_ip3] no_faults;
  PEnv (EPodPut (c10_pod1 "uB"));
  PEnv (EInformer c10_web0);
  PFilter c10_web0 [L "node1"; L "node2"] (c10_orc None None []) no_faults;
  PBind (L "ns1") (L "web-0") (L "uB") (L "node1") (c10_orc None None [])
        {| f_store := None; f_update := None; f_cloud := Some 1%nat; f_bind := 0 |};
  PEnv (EPodDelete c10_web0);
  PEnv (EInformer c10_web0);
  PEnv (EStsSet (L "ns1", L "web") None) ].

(** a history of the theorems' domain with a live bound pod *)
Definition h_c10_ok : list pop := [
  PIpam (OConfigure c10_conf false []);
  PEnv (EStsSet (L "ns1", L "web") (Some 1));
  PEnv (EPodPut (c10_pod []));
  PEnv (EInformer c10_web0);
  PFilter c10_web0 [L "node1"; L "node2"] (c10_orc None None []) no_faults;
  PBind (L "ns1") (L "web-0") (L "uA") (L "node1") (c10_orc None (Some c10_ip2) []) no_faults ].

Ltac c10_wf_side :=
  first [ exact I | discriminate | reflexivity | apply c10_pod_wf
        | apply keeps_live_empty; vm_compute; reflexivity
        | apply keeps_assigned_empty; vm_compute; reflexivity
        | apply k3_free_empty; vm_compute; reflexivity
        | apply uid_fresh_empty; vm_compute; reflexivity ].

Lemma h_k3_refutes : wf_hist (world0 true c10_nodes) h_k3 ∧
  log_replay ∅ (w_cloudlog (prun (world0 true c10_nodes) h_k3)) = None.
Proof.
  split; [|vm_compute; reflexivity].
  unfold h_k3. cbn [wf_hist wf_op wf_env]. split_and!; c10_wf_side.
Qed.

Lemma c10_pod1_wf u : u ≠ ""%string → wf_pod (c10_pod1 u).
Proof.
  intros Hu. constructor; cbn [c10_pod1 pd_ns pd_name pd_uid pd_kind pd_app pd_pool]; try (apply small_name_ok'; reflexivity); try discriminate.
  - by destruct u.
  - apply contains_char_false. reflexivity.
Qed.

(** before the repair the item of ip2 left ip3 On node1 although ip3 was released; the repaired item (valid oracle: the
    unassign order, then the clearing order) is not stuck and leaves the provider with nothing On *)
Local Notation w_k3b := (prun (world0 true c10_nodes) h_k3b).
Definition ocl_k3b : list N := [c10_ip2; c10_ip3; c10_ip2; c10_ip3].
Lemma w_k3b_old_on : w_cloud (resync_section_old w_k3b c10_ip2 k3b_orc [c10_ip2; c10_ip3] no_faults).1 !! c10_ip3 = Some (L "node1").
Proof. vm_compute; reflexivity. Qed.
Lemma w_k3b_old_free : i_alloc (w_ipam (resync_section_old w_k3b c10_ip2 k3b_orc [c10_ip2; c10_ip3] no_faults).1) !! c10_ip3 = None.
Proof. vm_compute; reflexivity. Qed.
Lemma w_k3b_new_ok : (resync_section w_k3b c10_ip2 k3b_orc ocl_k3b no_faults).2 = SOk.
Proof. vm_compute; reflexivity. Qed.
Lemma w_k3b_new_off_l : map_to_list (w_cloud (resync_section w_k3b c10_ip2 k3b_orc ocl_k3b no_faults).1) = [].
Proof. vm_compute; reflexivity. Qed.
Lemma w_k3b_new_off : w_cloud (resync_section w_k3b c10_ip2 k3b_orc ocl_k3b no_faults).1 = ∅.
Proof. apply map_to_list_empty_iff. exact w_k3b_new_off_l. Qed.

Lemma h_k3b_old_refutes : wf_hist (world0 true c10_nodes) h_k3b ∧
  ¬ cloud_alloc (resync_section_old w_k3b c10_ip2 k3b_orc [c10_ip2; c10_ip3] no_faults).1 ∧
  (resync_section w_k3b c10_ip2 k3b_orc ocl_k3b no_faults).2 = SOk ∧
  cloud_alloc (resync_section w_k3b c10_ip2 k3b_orc ocl_k3b no_faults).1.
Proof.
  split; [|split; [|split]].
  - unfold h_k3b. cbn [wf_hist wf_op wf_env]. split_and!; c10_wf_side.
  - intros H. destruct (H c10_ip3 (L "node1") w_k3b_old_on) as (e & He & _).
    rewrite w_k3b_old_free in He. discriminate He.
  - exact w_k3b_new_ok.
  - intros x n Hx. exfalso. rewrite w_k3b_new_off, lookup_empty in Hx. done.
Qed.

Local Notation w_k3bn := (prun (world0 true c10_nodes) h_k3b_nodeless).
Definition ocl_k3bn : list N := [c10_ip2; c10_ip2].
Lemma w_k3bn_old_on : w_cloud (resync_section_old w_k3bn c10_ip3 k3b_orc [] no_faults).1 !! c10_ip2 = Some (L "node1").
Proof. vm_compute; reflexivity. Qed.
Lemma w_k3bn_old_free : i_alloc (w_ipam (resync_section_old w_k3bn c10_ip3 k3b_orc [] no_faults).1) !! c10_ip2 = None.
Proof. vm_compute; reflexivity. Qed.
Lemma w_k3bn_new_ok : (resync_section w_k3bn c10_ip3 k3b_orc ocl_k3bn no_faults).2 = SOk.
Proof. vm_compute; reflexivity. Qed.
Lemma w_k3bn_new_off_l : map_to_list (w_cloud (resync_section w_k3bn c10_ip3 k3b_orc ocl_k3bn no_faults).1) = [].
Proof. vm_compute; reflexivity. Qed.
Lemma w_k3bn_new_off : w_cloud (resync_section w_k3bn c10_ip3 k3b_orc ocl_k3bn no_faults).1 = ∅.
Proof. apply map_to_list_empty_iff. exact w_k3bn_new_off_l. Qed.

Lemma uid_fresh_empty_l w u : map_to_list (w_pods w) = [] → map_to_list (w_lister w) = [] → w_queue w = [] → uid_fresh w u.
Proof. intros E1 E2 E3. apply uid_fresh_empty; [by apply map_to_list_empty_iff|by apply map_to_list_empty_iff|done]. Qed.

Lemma h_k3b_nodeless_old_refutes : wf_hist (world0 true c10_nodes) h_k3b_nodeless ∧
  ¬ cloud_alloc (resync_section_old w_k3bn c10_ip3 k3b_orc [] no_faults).1 ∧
  (resync_section w_k3bn c10_ip3 k3b_orc ocl_k3bn no_faults).2 = SOk ∧
  cloud_alloc (resync_section w_k3bn c10_ip3 k3b_orc ocl_k3bn no_faults).1.
Proof.
  split; [|split; [|split]].
  - unfold h_k3b_nodeless. cbn [wf_hist wf_op wf_env]. split_and!; first [c10_wf_side | by apply c10_pod1_wf | apply uid_fresh_empty_l; vm_compute; reflexivity].
  - intros H. destruct (H c10_ip2 (L "node1") w_k3bn_old_on) as (e & He & _).
    rewrite w_k3bn_old_free in He. discriminate He.
  - exact w_k3bn_new_ok.
  - intros x n Hx. exfalso. rewrite w_k3bn_new_off, lookup_empty in Hx. done.
Qed.

Lemma h_c10_ok_live : wf_c10_hist (world0 true c10_nodes) h_c10_ok ∧
  ∃ k p, w_pods (prun (world0 true c10_nodes) h_c10_ok) !! k = Some p ∧ live_bound p.
Proof.
  split.
  - unfold h_c10_ok. cbn [wf_c10_hist]. unfold wf_c10. cbn [wf_op wf_env]. split_and!; c10_wf_side.
  - exists c10_web0. eexists. split; [vm_compute; reflexivity|]. split; [reflexivity|discriminate].
Qed.

Print Assumptions cloud_wellformed_l.
Print Assumptions freed_before_reuse_l.
Print Assumptions h_k3_refutes.
Print Assumptions h_k3b_old_refutes.
Print Assumptions h_k3b_nodeless_old_refutes.
Print Assumptions h_c10_ok_live.
