(** C16 - lemmas about Model/K8sPolicy.v: the full statement [enforces], its six refutation witnesses, and
    their independence (each is explained by exactly its own divergence switch).  The positive half,
    [enforces_partial] (compiler correctness on the fragment of DESIGN.md appendix D), is in K8sPolicyFragP.v. *)
From Coq Require Import List Ascii String NArith Bool Lia.
From Galaxy.Base Require Import Strs.
From Galaxy.Model Require Import Nets Netfilter Policy K8sPolicy.
From Galaxy.Proofs Require Import NetsP.
Import ListNotations.
Open Scope N_scope.

(** the property at full strength: for every injective name hash, cluster and flow *)
Definition enforces : Prop :=
  forall H : str -> str, (forall a b, H a = H b -> a = b) ->
  forall (c : cluster) (f : flow), galaxy_allows H c f = k8s_allows c f.

(** ---------------------------------------------------------------- witnesses *)
Definition ip4 (a b c d : N) : N := a * 16777216 + b * 65536 + c * 256 + d.
Definition Hx (s : str) : str := s.
Lemma Hx_injective a b : Hx a = Hx b -> a = b.
Proof. exact (fun e => e). Qed.

Definition nss2 := [mkNs (L "ns1") [(L "team", L "a")]; mkNs (L "ns2") [(L "team", L "b")]].
Definition selweb : labels := [(L "app", L "web")].
Definition selcli : labels := [(L "app", L "cli")].
Definition web := mkPod (L "ns1") (L "web") selweb (Some (ip4 10 0 0 1)) (L "node1").
Definition web2 := mkPod (L "ns1") (L "web2") selweb (Some (ip4 10 0 0 2)) (L "node2").
Definition cli1 := mkPod (L "ns1") (L "cli") selcli (Some (ip4 10 0 0 3)) (L "node1").
Definition cli2 := mkPod (L "ns2") (L "cli") selcli (Some (ip4 10 0 1 1)) (L "node2").

(** (a) ingress from podSelector app=cli: the cli pod of ANOTHER namespace gets in *)
Definition Ca := mkCluster nss2 [web; cli2]
  [mkPol (L "ns1") (L "x") selweb true false [mkPRule [] [PeerPod selcli]] []].
Definition fa := mkFlow (ip4 10 0 1 1) (ip4 10 0 0 1) (L "tcp") 80.
(** (b) namespaceSelector team=a + podSelector app=cli: the cli pod of the team=b namespace gets in *)
Definition Cb := mkCluster nss2 [web; cli2]
  [mkPol (L "ns1") (L "x") selweb true false [mkPRule [] [PeerNsPod [(L "team", L "a")] selcli]] []].
(** (c) ports: tcp/80, from: [] (anyone): nothing is installed, the pod is unreachable *)
Definition Cc := mkCluster nss2 [web]
  [mkPol (L "ns1") (L "x") selweb true false [mkPRule [(L "tcp", 80)] []] []].
Definition fc := mkFlow (ip4 1 2 3 4) (ip4 10 0 0 1) (L "tcp") 80.
(** (d) from: 10.1.0.0/16 except 10.1.1.0/24, and 10.0.0.0/8: the first block's exception cuts a hole in the second *)
Definition Cd := mkCluster nss2 [web]
  [mkPol (L "ns1") (L "x") selweb true false
     [mkPRule [] [PeerBlock (ip4 10 1 0 0, 16) [(ip4 10 1 1 0, 24)]; PeerBlock (ip4 10 0 0 0, 8) []]] []].
Definition fd := mkFlow (ip4 10 1 1 5) (ip4 10 0 0 1) (L "tcp") 80.
(** (e) policy x selects the web pods, allows no ingress, allows egress to web pods: its egress ACCEPT rule
    lets web (node1) reach web2 (node2) through web2's INGRESS hook *)
Definition Ce := mkCluster nss2 [web; web2]
  [mkPol (L "ns1") (L "x") selweb true true [] [mkPRule [] [PeerPod selweb]]].
Definition fe := mkFlow (ip4 10 0 0 1) (ip4 10 0 0 2) (L "tcp") 80.
(** (g) cli may send to web pods (egress policy x); web accepts nothing (ingress policy y); both on node1 *)
Definition Cg := mkCluster nss2 [web; cli1]
  [mkPol (L "ns1") (L "x") selcli false true [] [mkPRule [] [PeerPod selweb]];
   mkPol (L "ns1") (L "y") selweb true false [] []].
Definition fg := mkFlow (ip4 10 0 0 3) (ip4 10 0 0 1) (L "tcp") 80.

Lemma witness_a : galaxy_allows Hx Ca fa = true /\ k8s_allows Ca fa = false. Proof. vm_compute. split; reflexivity. Qed.
Lemma witness_b : galaxy_allows Hx Cb fa = true /\ k8s_allows Cb fa = false. Proof. vm_compute. split; reflexivity. Qed.
Lemma witness_c : galaxy_allows Hx Cc fc = false /\ k8s_allows Cc fc = true. Proof. vm_compute. split; reflexivity. Qed.
Lemma witness_d : galaxy_allows Hx Cd fd = false /\ k8s_allows Cd fd = true. Proof. vm_compute. split; reflexivity. Qed.
Lemma witness_e : galaxy_allows Hx Ce fe = true /\ k8s_allows Ce fe = false. Proof. vm_compute. split; reflexivity. Qed.
Lemma witness_g : galaxy_allows Hx Cg fg = true /\ k8s_allows Cg fg = false. Proof. vm_compute. split; reflexivity. Qed.

(** hash:net, the kernel's rule: the most specific element containing the address decides.  In
    {10.0.0.0/8, 10.1.0.0/16 nomatch, 10.1.2.0/24}: 10.1.2.3 matches (the /24 is inside the nomatch /16 and more
    specific), 10.1.3.3 does not (the /16 decides), 10.2.0.1 matches (only the /8 contains it), 11.0.0.1 is outside. *)
Example hashnet_most_specific :
  map (elems_match HashNet [(L "10.0.0.0/8", false); (L "10.1.0.0/16", true); (L "10.1.2.0/24", false)])
      [ip4 10 1 2 3; ip4 10 1 3 3; ip4 10 2 0 1; ip4 11 0 0 1] = [true; false; true; false].
Proof. vm_compute. reflexivity. Qed.

Lemma differ (c : cluster) (f : flow) (b : bool) :
  galaxy_allows Hx c f = b /\ k8s_allows c f = negb b -> exists c f, galaxy_allows Hx c f <> k8s_allows c f.
Proof. intros [E1 E2]. exists c, f. rewrite E1, E2. destruct b; discriminate. Qed.

Lemma refuted_a : exists c f, galaxy_allows Hx c f <> k8s_allows c f. Proof. exact (differ Ca fa true witness_a). Qed.
Lemma refuted_b : exists c f, galaxy_allows Hx c f <> k8s_allows c f. Proof. exact (differ Cb fa true witness_b). Qed.
Lemma refuted_c : exists c f, galaxy_allows Hx c f <> k8s_allows c f. Proof. exact (differ Cc fc false witness_c). Qed.
Lemma refuted_d : exists c f, galaxy_allows Hx c f <> k8s_allows c f. Proof. exact (differ Cd fd false witness_d). Qed.
Lemma refuted_e : exists c f, galaxy_allows Hx c f <> k8s_allows c f. Proof. exact (differ Ce fe true witness_e). Qed.
Lemma refuted_g : exists c f, galaxy_allows Hx c f <> k8s_allows c f. Proof. exact (differ Cg fg true witness_g). Qed.

Lemma not_enforces : ~ enforces.
Proof.
  intros E. destruct refuted_a as [c [f Hne]]. apply Hne. apply E. exact Hx_injective.
Qed.

(** each witness is explained by exactly its own switch: the reference with that single divergence gives
    galaxy's verdict, and the witnesses are independent (no other single switch explains them) *)
Definition only (i : nat) : devs :=
  mkDevs (Nat.eqb i 0) (Nat.eqb i 1) (Nat.eqb i 2) (Nat.eqb i 3) (Nat.eqb i 4) (Nat.eqb i 5).
Lemma witnesses_independent :
  map (fun i => k8s_allows_with (only i) Ca fa) (seq 0 6) = [true; false; false; false; false; false] /\
  map (fun i => k8s_allows_with (only i) Cb fa) (seq 0 6) = [false; true; false; false; false; false] /\
  map (fun i => k8s_allows_with (only i) Cc fc) (seq 0 6) = [true; true; false; true; true; true] /\
  map (fun i => k8s_allows_with (only i) Cd fd) (seq 0 6) = [true; true; true; false; true; true] /\
  map (fun i => k8s_allows_with (only i) Ce fe) (seq 0 6) = [false; false; false; false; true; false] /\
  map (fun i => k8s_allows_with (only i) Cg fg) (seq 0 6) = [false; false; false; false; false; true].
Proof. vm_compute. repeat split. Qed.
