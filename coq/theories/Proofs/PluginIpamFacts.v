(** Frame lemmas of the crdIpam model: the EXACT effect of every model function of Model/Ipam.v on the
    tables, for the invariant proofs of the scheduler-plugin layer.
      A. [*_spec] / [*_complete]: what each function does to [i_alloc], [i_unalloc], [i_pools];
      B. [inv2_*]: the plugin layer's crdIpam invariant [Inv2] (PluginInv.v) is preserved;
      C. [configure_*] / [restart_*]: a reload / restart neither invents nor alters an allocation.
    Deviations from the requested statements: none (the [None] clause of [by_key_ranges_spec] needs no
    well-formedness premise on the ranges: [ranges_fuel] is always enough, see [first_in_ranges_total]). *)
From Coq Require Import String.
From stdpp Require Import gmap.
From Galaxy.Base Require Import Strs.
From Galaxy.Model Require Import Nets Pool Ipam.
From Galaxy.Proofs Require Import NetsP PoolP IpamP PluginInv.
Local Open Scope N_scope.

(** * the three store-first primitives: exact effect, no invariant needed *)

Lemma create_both_eq s x key a fail s' : create_both s x key a fail = Some s' →
  i_store s !! x = None ∧ i_store s' = <[x := mk_entry key a false (i_clock s)]> (i_store s) ∧
  i_alloc s' = <[x := mk_entry key a false (i_clock s)]> (i_alloc s) ∧ i_unalloc s' = i_unalloc s ∖ {[x]} ∧
  i_pools s' = i_pools s ∧ i_pending s' = i_pending s.
Proof.
  unfold create_both, st_create. destruct fail; [discriminate|]. destruct (i_store s !! x) eqn:Es; [discriminate|].
  intros H. inversion H; subst; clear H. simpl. done.
Qed.

Lemma update_both_eq s x e key a t fail s' : update_both s x e key a t fail = Some s' →
  (∃ o, i_store s !! x = Some o ∧ i_store s' = <[x := assign o key a t]> (i_store s)) ∧
  i_alloc s' = <[x := assign e key a t]> (i_alloc s) ∧ i_unalloc s' = i_unalloc s ∧
  i_pools s' = i_pools s ∧ i_pending s' = i_pending s ∧ i_clock s' = i_clock s.
Proof.
  unfold update_both, st_update. destruct fail; [discriminate|]. destruct (i_store s !! x) as [o|] eqn:Es; [|discriminate].
  intros H. inversion H; subst; clear H. simpl. split; [eauto|done].
Qed.

Lemma delete_both_eq s x fail s' : delete_both s x fail = Some s' →
  is_Some (i_store s !! x) ∧ i_store s' = delete x (i_store s) ∧
  i_alloc s' = delete x (i_alloc s) ∧ i_unalloc s' = i_unalloc s ∪ {[x]} ∧
  i_pools s' = i_pools s ∧ i_pending s' = i_pending s ∧ i_clock s' = i_clock s.
Proof.
  unfold delete_both, st_delete. destruct fail; [discriminate|]. destruct (i_store s !! x) as [o|] eqn:Es; [|discriminate].
  intros H. inversion H; subst; clear H. simpl. split; [eauto|done].
Qed.

Lemma update_store_dom (st st' : gmap N entry) x o v : st !! x = Some o → st' = <[x := v]> st →
  ∀ y, is_Some (st' !! y) ↔ is_Some (st !! y).
Proof.
  intros Hx -> y. destruct (decide (y = x)) as [->|Hne].
  - rewrite lookup_insert, Hx. split; eauto.
  - by rewrite lookup_insert_ne.
Qed.

(** * A. exact effect of each function *)

Lemma alloc_in_subnet_spec s key sn a ch fail s' r ox : alloc_in_subnet s key sn a ch fail = (s', r, ox) →
  (r = AOk ∧ ∃ x, ox = Some x ∧ x ∈ i_unalloc s ∧ ip_has_subnet (i_pools s) x sn = true ∧
      i_alloc s' = <[x := mk_entry key a false (i_clock s)]> (i_alloc s) ∧ i_unalloc s' = i_unalloc s ∖ {[x]} ∧ i_pools s' = i_pools s)
  ∨ (r ≠ AOk ∧ s' = s ∧ ox = None).
Proof.
  unfold alloc_in_subnet. destruct ch as [x|].
  - destruct (subnet_candidate s sn x) eqn:C.
    + destruct (create_both s x key a fail) as [s1|] eqn:E; intros H; inversion H; subst; clear H.
      * left. apply create_both_eq in E as (_ & _ & Ha & Hu & Hp & _).
        apply andb_prop in C as [C1 C2]. apply bool_decide_eq_true in C1.
        split; [done|]. exists x. done.
      * right. done.
    + intros H; inversion H; subst. right; done.
  - destruct (forallb _ _); intros H; inversion H; subst; right; done.
Qed.

Lemma alloc_specific_spec s key x a fail s' r : alloc_specific s key x a fail = (s', r) →
  (r = AOk ∧ x ∈ i_unalloc s ∧ i_alloc s' = <[x := mk_entry key a false (i_clock s)]> (i_alloc s) ∧ i_unalloc s' = i_unalloc s ∖ {[x]} ∧ i_pools s' = i_pools s)
  ∨ (r ≠ AOk ∧ s' = s).
Proof.
  unfold alloc_specific. destruct (decide (x ∈ i_unalloc s)) as [Hx|].
  - destruct (create_both s x key a fail) as [s1|] eqn:E; intros H; inversion H; subst; clear H.
    + left. apply create_both_eq in E as (_ & _ & Ha & Hu & Hp & _). done.
    + right. done.
  - intros H; inversion H; subst. right; done.
Qed.

Lemma alloc_with_key_spec s oldk newk sn a ch fail s' r : alloc_with_key s oldk newk sn a ch fail = (s', r) →
  (r = AOk ∧ ∃ x e, i_alloc s !! x = Some e ∧ e_key e = oldk ∧ ip_has_subnet (i_pools s) x sn = true ∧
      i_alloc s' = <[x := assign e newk a (i_clock s)]> (i_alloc s) ∧ i_unalloc s' = i_unalloc s ∧ i_pools s' = i_pools s)
  ∨ (r ≠ AOk ∧ s' = s).
Proof.
  unfold alloc_with_key. destruct ch as [x|].
  - destruct (i_alloc s !! x) as [e|] eqn:He; [|intros H; inversion H; subst; right; done].
    destruct (withkey_candidate s oldk sn x e) eqn:C; simpl; [|intros H; inversion H; subst; right; done].
    destruct (forallb _ _); simpl; [|intros H; inversion H; subst; right; done].
    destruct (update_both s x e newk a (i_clock s) fail) as [s1|] eqn:E; intros H; inversion H; subst; clear H.
    + left. apply update_both_eq in E as (_ & Ha & Hu & Hp & _).
      unfold withkey_candidate in C. apply andb_prop in C as [C C3]. apply andb_prop in C as [C1 C2].
      destruct (str_eqb_spec (e_key e) oldk) as [Hk|]; [|discriminate].
      split; [done|]. exists x, e. simpl. done.
    + right. done.
  - match goal with |- context [match ?l with [] => _ | _ :: _ => _ end] => destruct l end;
      intros H; inversion H; subst; right; done.
Qed.

Lemma update_attr_spec s key x a fail s' r : update_attr s key x a fail = (s', r) →
  (r = AOk ∧ ∃ e, i_alloc s !! x = Some e ∧ e_key e = key ∧
      i_alloc s' = <[x := assign e key a (i_clock s)]> (i_alloc s) ∧ i_unalloc s' = i_unalloc s ∧ i_pools s' = i_pools s)
  ∨ (r ≠ AOk ∧ s' = s).
Proof.
  unfold update_attr. destruct (i_alloc s !! x) as [e|] eqn:He; [|intros H; inversion H; subst; right; done].
  destruct (str_eqb_spec (e_key e) key) as [Hk|]; [|intros H; inversion H; subst; right; done].
  destruct (update_both s x e key a (i_clock s) fail) as [s1|] eqn:E; intros H; inversion H; subst; clear H.
  - left. apply update_both_eq in E as (_ & Ha & Hu & Hp & _). split; [done|]. exists e. simpl. done.
  - right. done.
Qed.

Lemma release_spec s key x fail s' r : release s key x fail = (s', r) →
  (r = AOk ∧ ∃ e, i_alloc s !! x = Some e ∧ e_key e = key ∧
      i_alloc s' = delete x (i_alloc s) ∧ i_unalloc s' = i_unalloc s ∪ {[x]} ∧ i_pools s' = i_pools s)
  ∨ (r ≠ AOk ∧ s' = s).
Proof.
  unfold release. destruct (i_alloc s !! x) as [e|] eqn:He; [|intros H; inversion H; subst; right; done].
  destruct (str_eqb_spec (e_key e) key) as [Hk|]; [|intros H; inversion H; subst; right; done].
  destruct (delete_both s x fail) as [s1|] eqn:E; intros H; inversion H; subst; clear H.
  - left. apply delete_both_eq in E as (_ & _ & Ha & Hu & Hp & _). split; [done|]. exists e. done.
  - right. done.
Qed.

(** ** ReserveIP *)

Definition rsv_attr (a : attr) (e : entry) : attr := {| a_policy := e_policy e; a_node := a_node a; a_uid := a_uid a |}.
(** what may happen to one slot of [i_alloc] during ReserveIP *)
Definition rsv_rel (oldk newk : str) (a : attr) (o o' : option entry) : Prop :=
  o' = o ∨ ∃ e t, o = Some e ∧ e_key e = oldk ∧ o' = Some (assign e newk (rsv_attr a e) t).

Lemma rsv_rel_trans oldk newk a o1 o2 o3 :
  rsv_rel oldk newk a o1 o2 → rsv_rel oldk newk a o2 o3 → rsv_rel oldk newk a o1 o3.
Proof.
  intros [->|(e & t & -> & Hk & ->)] [->|(e2 & t2 & He2 & Hk2 & ->)].
  - by left.
  - right. eauto.
  - right. eauto.
  - right. inversion He2; subst e2. exists e, t2. done.
Qed.

Lemma reserve_loop_spec oldk newk a t order : ∀ s nfail s' r, reserve_loop s oldk newk a t order nfail = (s', r) →
  i_unalloc s' = i_unalloc s ∧ i_pools s' = i_pools s ∧ i_pending s' = i_pending s ∧ i_clock s' = i_clock s ∧
  (∀ x, is_Some (i_store s' !! x) ↔ is_Some (i_store s !! x)) ∧
  ∀ y, rsv_rel oldk newk a (i_alloc s !! y) (i_alloc s' !! y).
Proof.
  induction order as [|x order IH]; intros s nfail s' r H; simpl in H.
  { inversion H; subst. split_and!; try done. intros y. by left. }
  destruct (i_alloc s !! x) as [e|] eqn:He; [|inversion H; subst; split_and!; try done; intros y; by left].
  destruct (reserve_needed oldk newk a e) eqn:Hn; [|inversion H; subst; split_and!; try done; intros y; by left].
  match type of H with context [update_both ?s0 ?x0 ?e0 ?k0 ?a0 ?t0 ?f0] =>
    destruct (update_both s0 x0 e0 k0 a0 t0 f0) as [s1|] eqn:E end;
    [|inversion H; subst; split_and!; try done; intros y; by left].
  apply update_both_eq in E as ((o & Ho & Hst) & Ha & Hu & Hp & Hpe & Hc).
  apply IH in H as (Hu' & Hp' & Hpe' & Hc' & Hst' & Hal').
  split_and!; try congruence.
  - intros y. rewrite Hst'. eapply update_store_dom; eassumption.
  - intros y. eapply rsv_rel_trans; [|apply Hal']. rewrite Ha.
    destruct (decide (y = x)) as [->|Hne]; [|left; by rewrite lookup_insert_ne].
    right. exists e, t. rewrite lookup_insert. split_and!; try done.
    unfold reserve_needed in Hn. apply andb_prop in Hn as [Hn _]. by destruct (str_eqb_spec (e_key e) oldk).
Qed.

(** ReserveIP: whatever the result (success, failure at some update, stuck), every entry is either untouched or was keyed [oldk]
   and is now re-keyed [newk] with node/uid of [a] and its OWN stored policy; nothing is added or removed *)
Lemma reserve_ip_frame s oldk newk a order nfail s' r : reserve_ip s oldk newk a order nfail = (s', r) →
  i_unalloc s' = i_unalloc s ∧ i_pools s' = i_pools s ∧ i_pending s' = i_pending s ∧
  (∀ x, is_Some (i_store s' !! x) ↔ is_Some (i_store s !! x)) ∧
  ∀ y, rsv_rel oldk newk a (i_alloc s !! y) (i_alloc s' !! y).
Proof.
  unfold reserve_ip. destruct (reserve_loop s oldk newk a (i_clock s) order nfail) as [s1 r1] eqn:EL.
  apply reserve_loop_spec in EL as (Hu & Hp & Hpe & _ & Hst & Hal). simpl.
  assert (∀ r0, (s, r0) = (s', r) → i_unalloc s' = i_unalloc s ∧ i_pools s' = i_pools s ∧ i_pending s' = i_pending s ∧
    (∀ x, is_Some (i_store s' !! x) ↔ is_Some (i_store s !! x)) ∧
    ∀ y, rsv_rel oldk newk a (i_alloc s !! y) (i_alloc s' !! y)) as Hsame.
  { intros r0 H. inversion H; subst. split_and!; try done. intros y. by left. }
  assert (∀ r0, (tick s1, r0) = (s', r) → i_unalloc s' = i_unalloc s ∧ i_pools s' = i_pools s ∧ i_pending s' = i_pending s ∧
    (∀ x, is_Some (i_store s' !! x) ↔ is_Some (i_store s !! x)) ∧
    ∀ y, rsv_rel oldk newk a (i_alloc s !! y) (i_alloc s' !! y)) as Htick.
  { intros r0 H. inversion H; subst. simpl. done. }
  destruct (bool_decide (NoDup order)); [|by apply Hsame].
  destruct r1; eauto. destruct (bool_decide _); eauto.
Qed.

Lemma reserve_ip_spec s oldk newk a order nfail s' r : reserve_ip s oldk newk a order nfail = (s', r) →
  i_unalloc s' = i_unalloc s ∧ i_pools s' = i_pools s ∧
  ∀ y, i_alloc s' !! y = i_alloc s !! y ∨
       ∃ e t, i_alloc s !! y = Some e ∧ e_key e = oldk ∧
              i_alloc s' !! y = Some (assign e newk {| a_policy := e_policy e; a_node := a_node a; a_uid := a_uid a |} t).
Proof. intros H. apply reserve_ip_frame in H as (Hu & Hp & _ & _ & Hal). split_and!; try done. Qed.

(** list helpers *)
Lemma nodup_fst_lfilter {A B} (f : A * B → bool) (l : list (A * B)) : NoDup (map fst l) → NoDup (map fst (List.filter f l)).
Proof.
  induction l as [|[x b] l IH]; simpl; [done|]. rewrite NoDup_cons. intros [Hx Hl].
  destruct (f (x, b)); simpl; [|by apply IH]. apply NoDup_cons. split; [|by apply IH].
  intros Hin. apply Hx. clear -Hin. induction l as [|[y c] l IH]; simpl in *; [done|].
  destruct (f (y, c)); simpl in *; [|right; by apply IH].
  apply elem_of_cons in Hin as [->|Hin]; [left|right; by apply IH].
Qed.
Lemma nodup_fst_filter {A B} (P : A * B → Prop) `{∀ x, Decision (P x)} (l : list (A * B)) :
  NoDup (l.*1) → NoDup ((filter P l).*1).
Proof.
  induction l as [|[x b] l IH]; [done|]. csimpl. rewrite NoDup_cons. intros [Hx Hl].
  rewrite filter_cons. destruct (decide (P (x, b))); csimpl; [|by apply IH].
  apply NoDup_cons. split; [|by apply IH]. intros Hin. apply Hx.
  apply elem_of_list_fmap in Hin as ([y c] & -> & Hin). apply elem_of_list_filter in Hin as [_ Hin].
  apply elem_of_list_fmap. exists (y, c). done.
Qed.
Lemma nodup_subset_length_eq {A} (l k : list A) : NoDup l → (∀ x, x ∈ l → x ∈ k) → length l = length k →
  ∀ x, x ∈ k → x ∈ l.
Proof.
  intros Hnd Hsub Hlen x Hx. assert (l ≡ₚ k) as Hp.
  { apply submseteq_Permutation_length_eq; [done|]. by apply NoDup_submseteq. }
  by rewrite Hp.
Qed.

Lemma reserve_loop_ok oldk newk a t order : ∀ s nfail s', NoDup order → reserve_loop s oldk newk a t order nfail = (s', AOk) →
  (∀ y, y ∈ order → ∃ e, i_alloc s !! y = Some e ∧ reserve_needed oldk newk a e = true ∧
                          i_alloc s' !! y = Some (assign e newk (rsv_attr a e) t)) ∧
  (∀ y, y ∉ order → i_alloc s' !! y = i_alloc s !! y).
Proof.
  induction order as [|x order IH]; intros s nfail s' Hnd H; simpl in H.
  { inversion H; subst. split; [intros y Hy; set_solver|done]. }
  apply NoDup_cons in Hnd as [Hx Hnd].
  destruct (i_alloc s !! x) as [e|] eqn:He; [|discriminate].
  destruct (reserve_needed oldk newk a e) eqn:Hn; [|discriminate].
  match type of H with context [update_both ?s0 ?x0 ?e0 ?k0 ?a0 ?t0 ?f0] =>
    destruct (update_both s0 x0 e0 k0 a0 t0 f0) as [s1|] eqn:E end; [|discriminate].
  apply update_both_eq in E as (_ & Ha & _).
  destruct (IH _ _ _ Hnd H) as [Hin Hout]. split.
  - intros y Hy. apply elem_of_cons in Hy as [->|Hy].
    + exists e. split_and!; try done. rewrite (Hout x Hx), Ha, lookup_insert. done.
    + destruct (Hin y Hy) as (e' & He' & Hn' & Hs'). exists e'. split_and!; try done.
      rewrite Ha, lookup_insert_ne in He'; [done|]. intros ->. done.
  - intros y Hy. apply not_elem_of_cons in Hy as [Hne Hy]. rewrite (Hout y Hy), Ha. by rewrite lookup_insert_ne.
Qed.

(** ... and on full success nothing keyed [oldk] that needed the change is left unchanged *)
Lemma reserve_ip_complete s oldk newk a order s' : reserve_ip s oldk newk a order None = (s', AOk) →
  ∀ y e, i_alloc s !! y = Some e → reserve_needed oldk newk a e = true →
         ∃ t, i_alloc s' !! y = Some (assign e newk {| a_policy := e_policy e; a_node := a_node a; a_uid := a_uid a |} t).
Proof.
  unfold reserve_ip. destruct (reserve_loop s oldk newk a (i_clock s) order None) as [s1 r1] eqn:EL. simpl.
  destruct (bool_decide (NoDup order)) eqn:Hnd; [|discriminate]. apply bool_decide_eq_true in Hnd.
  destruct r1; try discriminate. destruct (bool_decide _) eqn:Hlen; [|discriminate]. apply bool_decide_eq_true in Hlen.
  intros H. inversion H; subst; clear H. intros y e He Hn. exists (i_clock s). simpl.
  destruct (reserve_loop_ok _ _ _ _ _ _ _ _ Hnd EL) as [Hin _].
  set (todo := filter (λ kv : N * entry, reserve_needed oldk newk a kv.2 = true) (map_to_list (i_alloc s))) in *.
  assert (y ∈ order) as Hy.
  { assert (y ∈ todo.*1) as Hyt.
    { apply elem_of_list_fmap. exists (y, e). split; [done|]. apply elem_of_list_filter. split; [done|].
      by apply elem_of_map_to_list. }
    revert Hyt. apply nodup_subset_length_eq; [done| |by rewrite fmap_length].
    intros z Hz. destruct (Hin z Hz) as (e' & He' & Hn' & _). apply elem_of_list_fmap. exists (z, e'). split; [done|].
    apply elem_of_list_filter. split; [done|]. by apply elem_of_map_to_list. }
  destruct (Hin y Hy) as (e' & He' & _ & Hs'). rewrite He in He'. inversion He'; subst e'. done.
Qed.

(** ** ReleaseIPs *)

Definition rel_rel (m : list (N * str)) (s s' : ipam) (y : N) : Prop :=
  (i_alloc s' !! y = i_alloc s !! y ∧ (y ∈ i_unalloc s' ↔ y ∈ i_unalloc s)) ∨
  (∃ e, i_alloc s !! y = Some e ∧ In (y, e_key e) m ∧ i_alloc s' !! y = None ∧ y ∈ i_unalloc s').

Lemma rel_rel_trans m s1 s2 s3 y : rel_rel m s1 s2 y → rel_rel m s2 s3 y → rel_rel m s1 s3 y.
Proof.
  intros [[H1 H1']|(e & He & Hin & Hn & Hu)] [[H2 H2']|(e2 & He2 & Hin2 & Hn2 & Hu2)].
  - left. split; [congruence|]. by rewrite H2'.
  - right. exists e2. split_and!; try done. congruence.
  - right. exists e. split_and!; try done; [congruence|]. by apply H2'.
  - congruence.
Qed.

Lemma release_loop_spec m order : ∀ s nfail s' r, release_loop s m order nfail = (s', r) →
  i_pools s' = i_pools s ∧ i_pending s' = i_pending s ∧
  (∀ x, is_Some (i_store s' !! x) → is_Some (i_store s !! x)) ∧
  ∀ y, rel_rel m s s' y.
Proof.
  induction order as [|x order IH]; intros s nfail s' r H; simpl in H.
  { inversion H; subst. split_and!; try done. intros y. by left. }
  destruct (i_alloc s !! x) as [e|] eqn:He; [|inversion H; subst; split_and!; try done; intros y; by left].
  destruct (List.find _ m) as [[x' k]|] eqn:Ef; [|inversion H; subst; split_and!; try done; intros y; by left].
  destruct (str_eqb_spec (e_key e) k) as [Hk|]; [|inversion H; subst; split_and!; try done; intros y; by left].
  match type of H with context [delete_both ?s0 ?x0 ?f0] => destruct (delete_both s0 x0 f0) as [s1|] eqn:E end;
    [|inversion H; subst; split_and!; try done; intros y; by left].
  apply delete_both_eq in E as (_ & Hst & Ha & Hu & Hp & Hpe & _).
  apply IH in H as (Hp' & Hpe' & Hst' & Hal').
  split_and!; try congruence.
  - intros y Hy. apply Hst' in Hy. rewrite Hst in Hy. destruct (decide (y = x)) as [->|Hne].
    + rewrite lookup_delete in Hy. by destruct Hy.
    + by rewrite lookup_delete_ne in Hy.
  - intros y. eapply rel_rel_trans; [|apply Hal']. destruct (decide (y = x)) as [->|Hne].
    + right. exists e. rewrite Ha, Hu, lookup_delete. split_and!; try done; [|set_solver].
      apply find_some in Ef as [Hin Hx]. simpl in Hx. apply N.eqb_eq in Hx. subst. done.
    + left. rewrite Ha, Hu, lookup_delete_ne by done. split; [done|set_solver].
Qed.

Lemma release_ips_frame s m order nfail s' r : release_ips s m order nfail = (s', r) →
  i_pools s' = i_pools s ∧ i_pending s' = i_pending s ∧
  (∀ x, is_Some (i_store s' !! x) → is_Some (i_store s !! x)) ∧
  ∀ y, rel_rel m s s' y.
Proof.
  unfold release_ips. destruct (release_loop s m order nfail) as [s1 r1] eqn:EL.
  apply release_loop_spec in EL as (Hp & Hpe & Hst & Hal). simpl.
  assert (∀ r0, (s, r0) = (s', r) → i_pools s' = i_pools s ∧ i_pending s' = i_pending s ∧
    (∀ x, is_Some (i_store s' !! x) → is_Some (i_store s !! x)) ∧ ∀ y, rel_rel m s s' y) as Hsame.
  { intros r0 H. inversion H; subst. split_and!; try done. intros y. by left. }
  assert (∀ r0, (s1, r0) = (s', r) → i_pools s' = i_pools s ∧ i_pending s' = i_pending s ∧
    (∀ x, is_Some (i_store s' !! x) → is_Some (i_store s !! x)) ∧ ∀ y, rel_rel m s s' y) as Hloop.
  { intros r0 H. inversion H; subst. done. }
  destruct (bool_decide (NoDup order)); [|by apply Hsame].
  destruct r1; eauto. destruct (bool_decide _); eauto.
Qed.

(** ReleaseIPs: whatever the result, every entry is untouched or was requested with its current key and is now free *)
Lemma release_ips_spec s m order nfail s' r : release_ips s m order nfail = (s', r) →
  i_pools s' = i_pools s ∧
  ∀ y, (i_alloc s' !! y = i_alloc s !! y ∧ (y ∈ i_unalloc s' ↔ y ∈ i_unalloc s)) ∨
       (∃ e, i_alloc s !! y = Some e ∧ In (y, e_key e) m ∧ i_alloc s' !! y = None ∧ y ∈ i_unalloc s').
Proof. intros H. apply release_ips_frame in H as (Hp & _ & _ & Hal). split; [done|]. intros y. apply Hal. Qed.

Lemma release_loop_ok m order : ∀ s nfail s', release_loop s m order nfail = (s', AOk) →
  ∀ y, y ∈ order → i_alloc s' !! y = None ∧ ∃ e, i_alloc s !! y = Some e ∧ In (y, e_key e) m.
Proof.
  induction order as [|x order IH]; intros s nfail s' H y Hy; simpl in H; [set_solver|].
  destruct (i_alloc s !! x) as [e|] eqn:He; [|discriminate].
  destruct (List.find _ m) as [[x' k]|] eqn:Ef; [|discriminate].
  destruct (str_eqb_spec (e_key e) k) as [Hk|]; [|discriminate].
  match type of H with context [delete_both ?s0 ?x0 ?f0] => destruct (delete_both s0 x0 f0) as [s1|] eqn:E end; [|discriminate].
  apply delete_both_eq in E as (_ & _ & Ha & _).
  destruct (decide (y ∈ order)) as [Hin|Hnin].
  - destruct (IH _ _ _ H y Hin) as (Hn & e' & He' & Hm). split; [done|]. exists e'. split; [|done].
    rewrite Ha in He'. apply lookup_delete_Some in He' as [_ He']. done.
  - apply elem_of_cons in Hy as [->|Hy]; [|done]. split.
    + apply release_loop_spec in H as (_ & _ & _ & Hal). destruct (Hal x) as [[Hx _]|(e' & He' & _)].
      * rewrite Hx, Ha. apply lookup_delete.
      * rewrite Ha, lookup_delete in He'. discriminate.
    + exists e. split; [done|]. apply find_some in Ef as [Hin Hx]. simpl in Hx. apply N.eqb_eq in Hx. subst. done.
Qed.

Lemma release_ips_complete s m order s' : NoDup (map fst m) → release_ips s m order None = (s', AOk) →
  ∀ y e, i_alloc s !! y = Some e → In (y, e_key e) m → i_alloc s' !! y = None.
Proof.
  intros Hm. unfold release_ips. destruct (release_loop s m order None) as [s1 r1] eqn:EL. simpl.
  destruct (bool_decide (NoDup order)) eqn:Hnd; [|discriminate]. apply bool_decide_eq_true in Hnd.
  destruct r1; try discriminate. destruct (bool_decide _) eqn:Hlen; [|discriminate]. apply bool_decide_eq_true in Hlen.
  intros H. inversion H; subst; clear H. intros y e He Hin.
  pose proof (release_loop_ok _ _ _ _ _ EL) as Hok.
  apply Hok. assert (y ∈ map fst (release_matching s m)) as Hy.
  { apply elem_of_list_In, in_map_iff. exists (y, e_key e). split; [done|]. apply filter_In. split; [done|].
    simpl. rewrite He. apply str_eqb_refl. }
  revert Hy. apply nodup_subset_length_eq; [done| |by rewrite map_length].
  intros z Hz. destruct (Hok z Hz) as (_ & e' & He' & Hm').
  apply elem_of_list_In, in_map_iff. exists (z, e_key e'). split; [done|]. apply filter_In. split; [done|].
  simpl. rewrite He'. apply str_eqb_refl.
Qed.

(** ** AllocateInSubnetsAndIPRange *)

Lemma Forall2_left_elem {A B} (P : A → Prop) (Q : A → B → Prop) l k :
  Forall2 (λ x y, P x ∧ Q x y) l k → ∀ x, x ∈ l → P x.
Proof. induction 1 as [|x y l k [Hp _] _ IH]; intros z Hz; [set_solver|]. apply elem_of_cons in Hz as [->|Hz]; auto. Qed.

Lemma existsb_Exists {A} (f : A → bool) l : existsb f l = true ↔ Exists (λ x, f x = true) l.
Proof.
  rewrite existsb_exists, Exists_exists. split; intros (x & Hx & Hf); exists x; (split; [|done]); by apply elem_of_list_In.
Qed.

Lemma alloc_ranges_spec s key sn rss a nfail s' r ips : Inv s → alloc_ranges s key sn rss a nfail = (s', r, ips) →
  (r = AOk ∧ NoDup ips ∧ List.length ips = List.length rss ∧ (∀ x, x ∈ ips → x ∈ i_unalloc s ∧ ip_has_subnet (i_pools s) x sn = true) ∧
      (∀ y, i_alloc s' !! y = if bool_decide (y ∈ ips) then Some (mk_entry key a false (i_clock s)) else i_alloc s !! y) ∧
      i_unalloc s' = i_unalloc s ∖ list_to_set ips ∧ i_pools s' = i_pools s)
  ∨ (r ≠ AOk ∧ ips = [] ∧ i_alloc s' = i_alloc s ∧ i_unalloc s' = i_unalloc s ∧ i_pools s' = i_pools s).
Proof.
  intros HI H. destruct (decide (r = AOk)) as [->|Hne].
  - left. destruct (alloc_ranges_ok_state _ _ _ _ _ _ _ _ HI H) as (_ & Hnd & Hlen & HF & Hal & _ & _ & Hu & Hp).
    split_and!; try done.
    + intros x Hx. pose proof (Forall2_left_elem _ _ _ _ HF x Hx) as C. simpl in C.
      apply andb_prop in C as [C1 C2]. apply bool_decide_eq_true in C1. done.
    + intros y. rewrite Hal. destruct (decide (y ∈ ips)); [by rewrite bool_decide_eq_true_2|by rewrite bool_decide_eq_false_2].
  - right. destruct (alloc_ranges_atomic_l _ _ _ _ _ _ _ _ _ H Hne) as [-> ->]. done.
Qed.

(** the i-th picked IP lies in the i-th requested range list *)
Lemma alloc_ranges_in_ranges s key sn rss a nfail s' ips : Inv s → alloc_ranges s key sn rss a nfail = (s', AOk, ips) →
  Forall2 (λ x rs, Exists (λ r, range_contains r x = true) rs) ips rss.
Proof.
  intros HI H. destruct (alloc_ranges_ok_state _ _ _ _ _ _ _ _ HI H) as (_ & _ & _ & HF & _).
  eapply Forall2_impl; [exact HF|]. intros x rs [_ Hex]. by apply existsb_Exists.
Qed.

(** ** reads *)

Lemma ranges_total_acc (rs : list range) : ∀ c : N,
  fold_left (λ (a0 : N) (r0 : range), a0 + (snd r0 + 1 - fst r0)) rs c = c + ranges_total rs.
Proof.
  unfold ranges_total. induction rs as [|q l IH]; intros c; simpl; [lia|]. rewrite (IH (c + _)), (IH (0 + _)). lia.
Qed.
Lemma ranges_total_cons r rs : ranges_total (r :: rs) = (snd r + 1 - fst r) + ranges_total rs.
Proof. unfold ranges_total at 1. simpl. rewrite ranges_total_acc. lia. Qed.

(** [ranges_fuel] always suffices, and a walk that finds nothing has seen every address of the ranges *)
Lemma first_in_ranges_total f : ∀ rs fuel, (N.to_nat (ranges_total rs) + length rs ≤ fuel)%nat →
  ∃ o, first_in_ranges f fuel rs = Some o ∧
       (o = None → ∀ x, existsb (λ r, range_contains r x) rs = true → f x = false).
Proof.
  induction rs as [|r rs IH]; intros fuel Hfuel; simpl.
  { exists None. split; [done|]. intros _ x Hx. discriminate. }
  assert (∀ fuel cur, fst r <= cur → (∀ x, fst r <= x < cur → f x = false) →
    (N.to_nat (snd r + 1 - cur) + 1 + N.to_nat (ranges_total rs) + length rs ≤ fuel)%nat →
    ∃ o,
    (fix go (fuel : nat) (cur : N) {struct fuel} : option (option N) :=
       match fuel with
       | 0%nat => None
       | S fuel' =>
           if cur <=? snd r
           then if f cur then Some (Some cur)
                else if cur =? snd r then first_in_ranges f fuel' rs else go fuel' (cur + 1)
           else first_in_ranges f fuel' rs
       end) fuel cur = Some o ∧
    (o = None → ∀ x, existsb (λ r0, range_contains r0 x) (r :: rs) = true → f x = false)) as Hgo.
  { clear fuel Hfuel. induction fuel as [|fuel IHf]; intros cur Hcur Hseen Hfuel; [lia|].
    destruct (cur <=? snd r) eqn:Ele.
    - apply N.leb_le in Ele. destruct (f cur) eqn:Ef.
      + exists (Some cur). split; [done|discriminate].
      + destruct (cur =? snd r) eqn:Eeq.
        * apply N.eqb_eq in Eeq. destruct (IH fuel) as (o & Ho & Hnone); [lia|]. exists o. split; [done|].
          intros -> x Hx. simpl in Hx. apply orb_prop in Hx as [Hx|Hx]; [|by apply Hnone].
          unfold range_contains in Hx. apply andb_prop in Hx as [H1 H2]. apply N.leb_le in H1, H2.
          destruct (decide (x = cur)) as [->|Hne]; [done|]. apply Hseen. lia.
        * apply N.eqb_neq in Eeq. apply IHf; [lia| |lia].
          intros x Hx. destruct (decide (x = cur)) as [->|Hne]; [done|]. apply Hseen. lia.
    - apply N.leb_gt in Ele. destruct (IH fuel) as (o & Ho & Hnone); [lia|]. exists o. split; [done|].
      intros -> x Hx. simpl in Hx. apply orb_prop in Hx as [Hx|Hx]; [|by apply Hnone].
      unfold range_contains in Hx. apply andb_prop in Hx as [H1 H2]. apply N.leb_le in H1, H2. apply Hseen. lia. }
  apply Hgo; [lia|intros x Hx; lia|]. rewrite ranges_total_cons in Hfuel. simpl in Hfuel. lia.
Qed.

(** ByKeyAndIPRanges slots name IPs of the key inside the slot's ranges *)
Lemma by_key_ranges_spec s key rss : Forall2 (λ slot rs, match slot with
    | Some x => (∃ e, i_alloc s !! x = Some e ∧ e_key e = key) ∧ Exists (λ r, range_contains r x = true) rs
    | None => ∀ x e, i_alloc s !! x = Some e → e_key e = key → ¬ Exists (λ r, range_contains r x = true) rs end)
  (by_key_ranges s key rss) rss.
Proof.
  unfold by_key_ranges. induction rss as [|rs rss IH]; simpl; constructor; [|exact IH].
  set (f := λ ip : N, match i_alloc s !! ip with Some e => str_eqb (e_key e) key | None => false end).
  destruct (first_in_ranges_total f rs (ranges_fuel rs)) as (o & Ho & Hnone); [unfold ranges_fuel; lia|].
  rewrite Ho. destruct o as [x|].
  - apply first_in_ranges_spec in Ho as [Hf Hex]. split; [|by apply existsb_Exists].
    unfold f in Hf. destruct (i_alloc s !! x) as [e|]; [|discriminate]. exists e. split; [done|].
    by destruct (str_eqb_spec (e_key e) key).
  - intros x e He Hk Hex. apply existsb_Exists in Hex. specialize (Hnone eq_refl x Hex).
    unfold f in Hnone. rewrite He, Hk, str_eqb_refl in Hnone. discriminate.
Qed.

Lemma by_key_spec s key x e : In (x, e) (by_key s key) ↔ i_alloc s !! x = Some e ∧ e_key e = key.
Proof.
  unfold by_key. rewrite filter_In, <- elem_of_list_In, elem_of_map_to_list. simpl.
  destruct (str_eqb_spec (e_key e) key); naive_solver.
Qed.
Lemma by_key_nodup s key : NoDup (map fst (by_key s key)).
Proof. apply nodup_fst_lfilter. apply (NoDup_fst_map_to_list (i_alloc s)). Qed.
Lemma by_prefix_spec s pfx x e : In (x, e) (by_prefix s pfx) ↔ i_alloc s !! x = Some e ∧ has_prefix pfx (e_key e) = true.
Proof. unfold by_prefix. rewrite filter_In, <- elem_of_list_In, elem_of_map_to_list. done. Qed.
Lemma by_prefix_nodup s pfx : NoDup (map fst (by_prefix s pfx)).
Proof. apply nodup_fst_lfilter. apply (NoDup_fst_map_to_list (i_alloc s)). Qed.

(** * B. [Inv2] is preserved *)

(** every new object of the store lies in the configuration, pending set and pools unchanged *)
Lemma inv2_frame s s' : Inv2 s → Inv s' → i_pending s' = i_pending s → i_pools s' = i_pools s →
  (∀ x, is_Some (i_store s' !! x) → is_Some (i_store s !! x) ∨ configured (i_pools s) x = true) → Inv2 s'.
Proof.
  intros (HI & Hpe & Hst) HI' Hpe' Hp' Hst'. split_and!; [done|congruence|].
  intros x Hx. rewrite Hp'. apply Hst' in Hx as [Hx|Hx]; auto.
Qed.

Lemma inv2_create_both s x key a fail s' : Inv2 s → x ∈ i_unalloc s → create_both s x key a fail = Some s' → Inv2 s'.
Proof.
  intros H2 Hx E. pose proof H2 as (HI & _ & _).
  destruct (create_both_inv _ _ _ _ _ _ HI Hx E) as (HI' & _ & Hp & Hpe & _ & _ & Hst).
  apply (inv2_frame s); try done. intros y. rewrite Hst. destruct (decide (y = x)) as [->|Hne].
  - intros _. right. apply (inv_conf _ HI). by right.
  - rewrite lookup_insert_ne by done. auto.
Qed.

Lemma inv2_update_both s x e key a t fail s' : Inv2 s → i_alloc s !! x = Some e → update_both s x e key a t fail = Some s' → Inv2 s'.
Proof.
  intros H2 Hx E. pose proof H2 as (HI & _ & _).
  destruct (update_both_inv _ _ _ _ _ _ _ _ HI Hx E) as (HI' & Hp & Hpe & _ & _ & _ & o & Ho & Hst).
  apply (inv2_frame s); try done. intros y Hy. left. by apply (update_store_dom _ _ _ _ _ Ho Hst).
Qed.

Lemma inv2_delete_both s x e fail s' : Inv2 s → i_alloc s !! x = Some e → delete_both s x fail = Some s' → Inv2 s'.
Proof.
  intros H2 Hx E. pose proof H2 as (HI & _ & _).
  destruct (delete_both_inv _ _ _ _ _ HI Hx E) as (HI' & Hp & Hpe & _ & _ & Hst & _).
  apply (inv2_frame s); try done. intros y. rewrite Hst. destruct (decide (y = x)) as [->|Hne].
  - rewrite lookup_delete. intros [? ?]. discriminate.
  - rewrite lookup_delete_ne by done. auto.
Qed.

Lemma inv2_tick s : Inv2 s → Inv2 (tick s).
Proof. intros (HI & Hpe & Hst). split_and!; [by apply tick_inv|done|done]. Qed.

Lemma inv2_alloc_in_subnet s key sn a ch fail : Inv2 s → Inv2 (alloc_in_subnet s key sn a ch fail).1.1.
Proof.
  intros H2. unfold alloc_in_subnet. destruct ch as [x|].
  - destruct (subnet_candidate s sn x) eqn:C; [|done].
    destruct (create_both s x key a fail) as [s'|] eqn:E; [|done]. simpl.
    apply (inv2_create_both _ _ _ _ _ _ H2 (subnet_candidate_unalloc _ _ _ C) E).
  - destruct (forallb _ _); done.
Qed.

Lemma inv2_alloc_specific s key x a fail : Inv2 s → Inv2 (alloc_specific s key x a fail).1.
Proof.
  intros H2. unfold alloc_specific. destruct (decide (x ∈ i_unalloc s)) as [Hx|]; [|done].
  destruct (create_both s x key a fail) as [s'|] eqn:E; [|done]. simpl.
  apply (inv2_create_both _ _ _ _ _ _ H2 Hx E).
Qed.

Lemma inv2_alloc_with_key s oldk newk sn a ch fail : Inv2 s → Inv2 (alloc_with_key s oldk newk sn a ch fail).1.
Proof.
  intros H2. unfold alloc_with_key. destruct ch as [x|].
  - destruct (i_alloc s !! x) as [e|] eqn:He; [|done].
    destruct (_ && _); [|done].
    destruct (update_both s x e newk a (i_clock s) fail) as [s'|] eqn:E; [|done]. simpl.
    apply inv2_tick. apply (inv2_update_both _ _ _ _ _ _ _ _ H2 He E).
  - match goal with |- context [match ?l with [] => _ | _ :: _ => _ end] => destruct l end; done.
Qed.

Lemma inv2_update_attr s key x a fail : Inv2 s → Inv2 (update_attr s key x a fail).1.
Proof.
  intros H2. unfold update_attr. destruct (i_alloc s !! x) as [e|] eqn:He; [|done].
  destruct (str_eqb _ _); [|done].
  destruct (update_both s x e key a (i_clock s) fail) as [s'|] eqn:E; [|done]. simpl.
  apply inv2_tick. apply (inv2_update_both _ _ _ _ _ _ _ _ H2 He E).
Qed.

Lemma inv2_release s key x fail : Inv2 s → Inv2 (release s key x fail).1.
Proof.
  intros H2. unfold release. destruct (i_alloc s !! x) as [e|] eqn:He; [|done].
  destruct (str_eqb _ _); [|done].
  destruct (delete_both s x fail) as [s'|] eqn:E; [|done]. simpl.
  apply (inv2_delete_both _ _ _ _ _ H2 He E).
Qed.

Lemma inv2_reserve_ip s oldk newk a order nfail : Inv2 s → Inv2 (reserve_ip s oldk newk a order nfail).1.
Proof.
  intros H2. pose proof H2 as (HI & _ & _). pose proof (reserve_ip_inv s oldk newk a order nfail HI) as HI'.
  destruct (reserve_ip s oldk newk a order nfail) as [s' r] eqn:E. simpl in *.
  apply reserve_ip_frame in E as (_ & Hp & Hpe & Hst & _).
  apply (inv2_frame s); try done. intros x Hx. left. by apply Hst.
Qed.

Lemma inv2_release_ips s m order nfail : Inv2 s → Inv2 (release_ips s m order nfail).1.
Proof.
  intros H2. pose proof H2 as (HI & _ & _). pose proof (release_ips_inv s m order nfail HI) as HI'.
  destruct (release_ips s m order nfail) as [s' r] eqn:E. simpl in *.
  apply release_ips_frame in E as (Hp & Hpe & Hst & _).
  apply (inv2_frame s); try done. intros x Hx. left. by apply Hst.
Qed.

Lemma inv2_alloc_ranges s key sn rss a nfail : Inv2 s → Inv2 (alloc_ranges s key sn rss a nfail).1.1.
Proof.
  intros H2. pose proof H2 as (HI & Hpe & _).
  destruct (alloc_ranges s key sn rss a nfail) as [[s' r] ips] eqn:E. simpl.
  destruct (decide (r = AOk)) as [->|Hne].
  - destruct (alloc_ranges_ok_state _ _ _ _ _ _ _ _ HI E) as (HI' & _ & _ & HF & _ & Hst & _ & _ & Hp).
    apply (inv2_frame s); try done.
    + unfold alloc_ranges in E. destruct (pick_ips s sn rss []) as [L|]; [|inversion E].
      destruct (create_all _ key a (i_clock s) L nfail) as [[st created] ok]. destruct ok; [|inversion E].
      inversion E; subst; clear E. simpl.
      match goal with |- i_pending (fold_left ?g ?l ?s0) = _ =>
        destruct (fold_mem_create (mk_entry key a false (i_clock s)) l s0) as (_ & _ & Hq & _) end.
      exact Hq.
    + intros x. rewrite Hst. destruct (decide (x ∈ ips)) as [Hin|]; [|auto]. intros _. right.
      apply (inv_conf _ HI). right. eapply subnet_candidate_unalloc.
      apply (Forall2_left_elem _ _ _ _ HF x Hin).
  - destruct (alloc_ranges_atomic_l _ _ _ _ _ _ _ _ _ E Hne) as [-> _]. done.
Qed.

Lemma inv2_init : Inv2 ipam0.
Proof. split_and!; [apply inv0|done|]. intros x [e He]. simpl in He. rewrite lookup_empty in He. discriminate. Qed.

Lemma inv2_configure_with s0 ps : pools_ok ps → i_pending s0 = ∅ → Inv2 (configure_with s0 ps (i_store s0) ∅).
Proof.
  intros Hok Hpe. split_and!; [by apply configure_with_inv|done|].
  intros x Hx. destruct (reload_lossless_l s0 ps ∅ Hok) as [_ Hout].
  change (i_pools (configure_with s0 ps (i_store s0) ∅)) with (sort_pools ps).
  destruct (configured (sort_pools ps) x) eqn:Ec; [done|].
  destruct (Hout x Ec) as (_ & _ & Hnone). rewrite Hnone in Hx; [by destruct Hx|set_solver].
Qed.

(** reload with every deletion succeeding, and restart *)
Lemma inv2_configure s conf listfail : Inv2 s → Inv2 (step s (OConfigure conf listfail [])).1.1.
Proof.
  intros H2. simpl. destruct (decode_pools conf) as [ps|] eqn:E; [|done]. unfold configure. destruct listfail; [done|]. simpl.
  apply inv2_configure_with; [by eapply decode_pools_ok|apply H2].
Qed.

Lemma inv2_restart s conf : Inv2 s → Inv2 (step s (ORestart conf)).1.1.
Proof.
  intros H2. simpl. destruct (decode_pools conf) as [ps|] eqn:E; [|done]. simpl. unfold restart.
  match goal with |- Inv2 (configure_with ?s0 _ _ _) => apply (inv2_configure_with s0) end; [by eapply decode_pools_ok|done].
Qed.

(** * C. a reload / restart neither invents nor alters an allocation *)

Definition same_owner (e e' : entry) : Prop :=
  e_key e = e_key e' ∧ e_uid e = e_uid e' ∧ e_policy e = e_policy e' ∧ e_node e = e_node e'.

Lemma proj_same_owner e e' : proj e = proj e' → same_owner e e'.
Proof. unfold proj, same_owner. intros H. inversion H. done. Qed.

(** memory and store agree on every allocated IP *)
Lemma inv2_alloc_store s y e : Inv2 s → i_alloc s !! y = Some e → ∃ o, i_store s !! y = Some o ∧ proj e = proj o.
Proof.
  intros (HI & Hpe & _) He. assert (configured (i_pools s) y = true) as Hc by (apply (inv_conf _ HI); left; eauto).
  pose proof (agree_quiescent_l _ HI Hpe y Hc) as Hag. unfold agree_at in Hag. rewrite He in Hag.
  destruct (i_store s !! y) as [o|]; [|discriminate]. exists o. split; [done|]. simpl in Hag. congruence.
Qed.
Lemma inv2_store_alloc s y o : Inv2 s → i_store s !! y = Some o → ∃ e, i_alloc s !! y = Some e ∧ proj e = proj o.
Proof.
  intros (HI & Hpe & Hst) Ho. assert (configured (i_pools s) y = true) as Hc by (apply Hst; eauto).
  pose proof (agree_quiescent_l _ HI Hpe y Hc) as Hag. unfold agree_at in Hag. rewrite Ho in Hag.
  destruct (i_alloc s !! y) as [e|]; [|discriminate]. exists e. split; [done|]. simpl in Hag. congruence.
Qed.

Lemma configure_with_no_new s0 s ps : pools_ok ps → Inv2 s → i_store s0 = i_store s →
  ∀ y e', i_alloc (configure_with s0 ps (i_store s0) ∅) !! y = Some e' → ∃ e, i_alloc s !! y = Some e ∧ same_owner e e'.
Proof.
  intros Hok H2 Hst y e' He'. destruct (reload_lossless_l s0 ps ∅ Hok) as [Hin Hout].
  destruct (configured (sort_pools ps) y) eqn:Ec.
  - destruct (Hin y Ec) as [Ha _]. rewrite Ha, Hst in He'.
    destruct (inv2_store_alloc _ _ _ H2 He') as (e & He & Hpr). exists e. split; [done|]. by apply proj_same_owner.
  - destruct (Hout y Ec) as (Hn & _). rewrite Hn in He'. discriminate.
Qed.

Lemma configure_with_keeps s0 s ps : pools_ok ps → Inv2 s → i_store s0 = i_store s →
  ∀ y e, i_alloc s !! y = Some e → configured ps y = true →
         ∃ e', i_alloc (configure_with s0 ps (i_store s0) ∅) !! y = Some e' ∧ same_owner e e'.
Proof.
  intros Hok H2 Hst y e He Hc. destruct (reload_lossless_l s0 ps ∅ Hok) as [Hin _].
  rewrite <- configured_sort in Hc. destruct (Hin y Hc) as [Ha _].
  destruct (inv2_alloc_store _ _ _ H2 He) as (o & Ho & Hpr). exists o. split; [by rewrite Ha, Hst|]. by apply proj_same_owner.
Qed.

Lemma same_owner_refl e : same_owner e e.
Proof. done. Qed.

Lemma configure_no_new s conf listfail s' r l : Inv2 s → step s (OConfigure conf listfail []) = (s', r, l) →
  ∀ y e', i_alloc s' !! y = Some e' → ∃ e, i_alloc s !! y = Some e ∧ same_owner e e'.
Proof.
  intros H2 H. simpl in H. destruct (decode_pools conf) as [ps|] eqn:E.
  - unfold configure in H. destruct listfail; simpl in H; inversion H; subst; clear H.
    + intros y e' He'. exists e'. split; [done|apply same_owner_refl].
    + apply (configure_with_no_new s s); [by eapply decode_pools_ok|done|done].
  - inversion H; subst. intros y e' He'. exists e'. split; [done|apply same_owner_refl].
Qed.

Lemma configure_keeps s conf listfail s' r l : Inv2 s → step s (OConfigure conf listfail []) = (s', r, l) →
  ∀ y e, i_alloc s !! y = Some e → (∀ ps, decode_pools conf = Some ps → configured ps y = true) →
         ∃ e', i_alloc s' !! y = Some e' ∧ same_owner e e'.
Proof.
  intros H2 H. simpl in H. destruct (decode_pools conf) as [ps|] eqn:E.
  - unfold configure in H. destruct listfail; simpl in H; inversion H; subst; clear H.
    + intros y e He _. exists e. split; [done|apply same_owner_refl].
    + intros y e He Hc. apply (configure_with_keeps s s); [by eapply decode_pools_ok|done|done|done|by apply Hc].
  - inversion H; subst. intros y e He _. exists e. split; [done|apply same_owner_refl].
Qed.

Lemma restart_no_new s conf s' r l : Inv2 s → step s (ORestart conf) = (s', r, l) →
  ∀ y e', i_alloc s' !! y = Some e' → ∃ e, i_alloc s !! y = Some e ∧ same_owner e e'.
Proof.
  intros H2 H. simpl in H. destruct (decode_pools conf) as [ps|] eqn:E.
  - inversion H; subst; clear H. unfold restart.
    match goal with |- ∀ y e', i_alloc (configure_with ?s0 _ _ _) !! y = _ → _ => apply (configure_with_no_new s0 s) end;
      [by eapply decode_pools_ok|done|done].
  - inversion H; subst. intros y e' He'. exists e'. split; [done|apply same_owner_refl].
Qed.

Lemma restart_keeps s conf s' r l : Inv2 s → step s (ORestart conf) = (s', r, l) →
  ∀ y e, i_alloc s !! y = Some e → (∀ ps, decode_pools conf = Some ps → configured ps y = true) →
         ∃ e', i_alloc s' !! y = Some e' ∧ same_owner e e'.
Proof.
  intros H2 H. simpl in H. destruct (decode_pools conf) as [ps|] eqn:E.
  - inversion H; subst; clear H. unfold restart. intros y e He Hc.
    match goal with |- ∃ e', i_alloc (configure_with ?s0 _ _ _) !! y = _ ∧ _ => apply (configure_with_keeps s0 s) end;
      [by eapply decode_pools_ok|done|done|done|by apply Hc].
  - inversion H; subst. intros y e He _. exists e. split; [done|apply same_owner_refl].
Qed.

Print Assumptions reserve_ip_complete.
Print Assumptions release_ips_complete.
Print Assumptions alloc_ranges_spec.
Print Assumptions by_key_ranges_spec.
Print Assumptions inv2_alloc_ranges.
Print Assumptions configure_keeps.
Print Assumptions restart_no_new.
