(** Lemmas for C17 about Model/Gc.v. *)
From Coq Require Import List Ascii String NArith Bool Lia Arith.
From Galaxy.Base Require Import Strs.
From Galaxy.Model Require Import Nets Gc.
Import ListNotations.
Local Open Scope nat_scope.

(** ** the cleanup decision *)
Definition gone (a : answer) : Prop :=
  a = Docker DNotFound \/ a = Docker (DOk (Some (L "exited"))) \/ a = Docker (DOk (Some (L "dead"))) \/
  a = Cri CNotFound \/ a = Cri (CNotReady PNotFound) \/
  exists sts, a = Cri (CNotReady (PFound sts)) /\ Forall (fun s => s = Terminated \/ s = NoState) sts.

Lemma not_alive_forall sts : existsb cstate_alive sts = false <-> Forall (fun s => s = Terminated \/ s = NoState) sts.
Proof.
  induction sts as [|s r IH]; simpl.
  - split; intros; [constructor|reflexivity].
  - split.
    + intros H. apply orb_false_iff in H. destruct H as [H1 H2]. constructor; [|apply IH; assumption].
      destruct s; simpl in H1; try discriminate; [left|right]; reflexivity.
    + intros H. inversion H as [|? ? Hs Hr]; subst. apply orb_false_iff. split; [|apply IH; assumption].
      destruct Hs; subst; reflexivity.
Qed.

Lemma should_cleanup_exact_l a : should_cleanup a = true <-> gone a.
Proof.
  unfold gone. split.
  - destruct a as [[| |[s|]]|[| | | |[sts| |]]]; simpl; intros H; try discriminate.
    + left; reflexivity.
    + unfold status_dead in H. apply orb_true_iff in H. destruct H as [H|H].
      * destruct (str_eqb_spec s (L "exited")); [subst|discriminate]. right; left; reflexivity.
      * destruct (str_eqb_spec s (L "dead")); [subst|discriminate]. right; right; left; reflexivity.
    + right; right; right; left; reflexivity.
    + do 5 right. exists sts. split; [reflexivity|]. apply not_alive_forall. apply negb_true_iff. assumption.
    + right; right; right; right; left; reflexivity.
  - intros [->|[->|[->|[->|[->|[sts [-> H]]]]]]]; try reflexivity.
    simpl. apply negb_true_iff. apply not_alive_forall. assumption.
Qed.

(** nothing is removed on an error, for a running (or otherwise existing) container, for a ready
    sandbox, when a container of the pod is still running/waiting, or when the pod lookup errs *)
Lemma should_cleanup_never a :
  (a = Docker DErr \/ (exists s, a = Docker (DOk s) /\ s <> Some (L "exited") /\ s <> Some (L "dead")) \/
   a = Cri CErr \/ a = Cri CNil \/ a = Cri CReady \/ a = Cri (CNotReady PErr) \/
   (exists sts, a = Cri (CNotReady (PFound sts)) /\ (In Running sts \/ In Waiting sts))) ->
  should_cleanup a = false.
Proof.
  intros H. destruct (should_cleanup a) eqn:E; [|reflexivity]. exfalso. apply should_cleanup_exact_l in E.
  unfold gone in E.
  destruct H as [->|[[s [-> [N1 N2]]]|[->|[->|[->|[->|[sts [-> Hin]]]]]]]];
    destruct E as [E|[E|[E|[E|[E|[sts' [E F]]]]]]]; try discriminate; try (inversion E; subst; congruence).
  inversion E; subst sts'. rewrite Forall_forall in F.
  destruct Hin as [Hin|Hin]; destruct (F _ Hin); discriminate.
Qed.

(** ** inspect-call counters *)
Lemma str_eqb_neq a b : a <> b -> str_eqb a b = false.
Proof. destruct (str_eqb_spec a b); congruence. Qed.
Lemma calls_get_incr_eq cl c : calls_get (calls_incr cl c) c = S (calls_get cl c).
Proof.
  induction cl as [|[k n] r IH]; simpl; [rewrite str_eqb_refl; reflexivity|].
  destruct (str_eqb k c) eqn:E; simpl; rewrite E; [reflexivity|assumption].
Qed.
Lemma calls_get_incr_ne cl c c' : c' <> c -> calls_get (calls_incr cl c) c' = calls_get cl c'.
Proof.
  intros N. induction cl as [|[k n] r IH]; simpl; [rewrite str_eqb_neq by congruence; reflexivity|].
  destruct (str_eqb_spec k c) as [->|Hk]; simpl.
  - rewrite str_eqb_neq by congruence. reflexivity.
  - rewrite IH. reflexivity.
Qed.
Lemma calls_get_incr_le cl c c' : calls_get cl c' <= calls_get (calls_incr cl c) c'.
Proof.
  destruct (list_eq_dec ascii_dec c' c) as [->|N]; [rewrite calls_get_incr_eq; lia|rewrite calls_get_incr_ne by assumption; lia].
Qed.

(** ** safety of one directory pass *)
Lemma sweep_safe own orc es : forall cl es' cl' rm,
  sweep own orc es cl = (es', cl', rm) ->
  (forall name c, In (name, c) rm ->
     exists e n, In e es /\ fst e = name /\ own e = Some c /\ should_cleanup (orc c n) = true /\
                 calls_get cl c <= n < calls_get cl' c) /\
  (forall e, In e es' -> In e es) /\
  (forall e, In e es -> own e = None -> In e es') /\
  (forall e c, In e es -> own e = Some c -> (forall n, should_cleanup (orc c n) = false) -> In e es') /\
  (forall c, calls_get cl c <= calls_get cl' c).
Proof.
  induction es as [|e rest IH]; intros cl es' cl' rm H; simpl in H.
  - inversion H; subst. repeat split; try (intros; contradiction); intros; lia.
  - destruct (own e) as [c0|] eqn:O.
    + destruct (sweep own orc rest (calls_incr cl c0)) as [[es2 cl2] rm2] eqn:Sw.
      destruct (IH _ _ _ _ Sw) as (I1 & I2 & I3 & I4 & I5).
      assert (forall c, calls_get cl c <= calls_get cl2 c) as Mono.
      { intros c. pose proof (calls_get_incr_le cl c0 c). pose proof (I5 c). lia. }
      destruct (should_cleanup (orc c0 (calls_get cl c0))) eqn:A; inversion H; subst; clear H.
      * split; [|split; [|split; [|split]]]; try assumption.
        -- intros name c [Hin|Hin].
           ++ inversion Hin; subst. exists e, (calls_get cl c). split; [left; reflexivity|]. split; [reflexivity|].
              split; [assumption|]. split; [assumption|]. pose proof (I5 c). rewrite calls_get_incr_eq in H. lia.
           ++ destruct (I1 _ _ Hin) as (e1 & n & P1 & P2 & P3 & P4 & P5). exists e1, n.
              split; [right; assumption|]. repeat split; try assumption; try lia.
              pose proof (calls_get_incr_le cl c0 c). lia.
        -- intros x Hx. right. apply I2. assumption.
        -- intros x [<-|Hx] Hn; [congruence|apply I3; assumption].
        -- intros x c [<-|Hx] Hc Hall; [|apply (I4 _ _ Hx Hc Hall)].
           rewrite O in Hc. inversion Hc; subst. rewrite Hall in A. discriminate.
      * split; [|split; [|split; [|split]]]; try assumption.
        -- intros name c Hin. destruct (I1 _ _ Hin) as (e1 & n & P1 & P2 & P3 & P4 & P5). exists e1, n.
           split; [right; assumption|]. repeat split; try assumption; try lia.
           pose proof (calls_get_incr_le cl c0 c). lia.
        -- intros x [<-|Hx]; [left; reflexivity|right; apply I2; assumption].
        -- intros x [<-|Hx] Hn; [left; reflexivity|right; apply I3; assumption].
        -- intros x c [<-|Hx] Hc Hall; [left; reflexivity|right; apply (I4 _ _ Hx Hc Hall)].
    + destruct (sweep own orc rest cl) as [[es2 cl2] rm2] eqn:Sw. inversion H; subst; clear H.
      destruct (IH _ _ _ _ Sw) as (I1 & I2 & I3 & I4 & I5). split; [|split; [|split; [|split]]]; try assumption.
      * intros name c Hin. destruct (I1 _ _ Hin) as (e1 & n & P1 & P2 & P3 & P4 & P5). exists e1, n.
        split; [right; assumption|]. repeat split; try assumption; lia.
      * intros x [<-|Hx]; [left; reflexivity|right; apply I2; assumption].
      * intros x [<-|Hx] Hn; [left; reflexivity|right; apply I3; assumption].
      * intros x c [<-|Hx] Hc Hall; [left; reflexivity|right; apply (I4 _ _ Hx Hc Hall)].
Qed.

Lemma sweep_dirs_safe own orc ds : forall cl ds' cl' rms,
  sweep_dirs own orc ds cl = (ds', cl', rms) ->
  (forall i rm name c, nth_error rms i = Some rm -> In (name, c) rm ->
     exists es e n, nth_error ds i = Some (Some es) /\ In e es /\ fst e = name /\ own e = Some c /\
                    should_cleanup (orc c n) = true /\ calls_get cl c <= n < calls_get cl' c) /\
  (forall i es e, nth_error ds i = Some (Some es) -> In e es ->
     (own e = None \/ exists c, own e = Some c /\ forall n, should_cleanup (orc c n) = false) ->
     exists es', nth_error ds' i = Some (Some es') /\ In e es') /\
  (forall i es' e, nth_error ds' i = Some (Some es') -> In e es' ->
     exists es, nth_error ds i = Some (Some es) /\ In e es) /\
  (forall c, calls_get cl c <= calls_get cl' c).
Proof.
  induction ds as [|d rest IH]; intros cl ds' cl' rms H; simpl in H.
  - inversion H; subst. repeat split; try (intros [|i]; intros; discriminate); intros; lia.
  - destruct d as [es0|].
    + destruct (sweep own orc es0 cl) as [[es1 cl1] rm1] eqn:Sw.
      destruct (sweep_dirs own orc rest cl1) as [[ds2 cl2] rms2] eqn:D. inversion H; subst; clear H.
      destruct (sweep_safe _ _ _ _ _ _ _ Sw) as (S1 & S2 & S3 & S4 & S5).
      destruct (IH _ _ _ _ D) as (I1 & I2 & I3 & I4).
      split; [|split; [|split]].
      * intros [|i] rm name c Hn Hin; simpl in Hn.
        -- inversion Hn; subst. destruct (S1 _ _ Hin) as (e & n & P1 & P2 & P3 & P4 & P5).
           exists es0, e, n. simpl. repeat split; try assumption; try lia. pose proof (I4 c). lia.
        -- destruct (I1 _ _ _ _ Hn Hin) as (es & e & n & P0 & P1 & P2 & P3 & P4 & P5).
           exists es, e, n. simpl. repeat split; try assumption; try lia. pose proof (S5 c). lia.
      * intros [|i] es e Hn Hin Hown; simpl in Hn.
        -- inversion Hn; subst. exists es1. split; [reflexivity|].
           destruct Hown as [Hn0|[c [Hc Hall]]]; [apply S3; assumption|apply (S4 _ _ Hin Hc Hall)].
        -- apply (I2 _ _ _ Hn Hin Hown).
      * intros [|i] es' e Hn Hin; simpl in Hn.
        -- inversion Hn; subst. exists es0. split; [reflexivity|apply S2; assumption].
        -- apply (I3 _ _ _ Hn Hin).
      * intros c. pose proof (S5 c). pose proof (I4 c). lia.
    + destruct (sweep_dirs own orc rest cl) as [[ds2 cl2] rms2] eqn:D. inversion H; subst; clear H.
      destruct (IH _ _ _ _ D) as (I1 & I2 & I3 & I4).
      split; [|split; [|split]]; try assumption.
      * intros [|i] rm name c Hn Hin; simpl in Hn; [inversion Hn; subst; contradiction|].
        apply (I1 _ _ _ _ Hn Hin).
      * intros [|i] es e Hn Hin Hown; simpl in Hn; [discriminate|apply (I2 _ _ _ Hn Hin Hown)].
      * intros [|i] es' e Hn Hin; simpl in Hn; [discriminate|apply (I3 _ _ _ Hn Hin)].
Qed.

(** ** liveness *)
(** among the first [n] inspect answers for [c]: how many did NOT say "gone" (errors, outages, ...) *)
Fixpoint keepcount (orc : oracle) (c : str) (n : nat) : nat :=
  match n with
  | O => O
  | S m => keepcount orc c m + (if should_cleanup (orc c m) then 0 else 1)
  end.
Lemma keepcount_mono orc c n m : n <= m -> keepcount orc c n <= keepcount orc c m.
Proof. induction 1; simpl; lia. Qed.

Lemma sweep_live own orc es : forall cl es' cl' rm,
  sweep own orc es cl = (es', cl', rm) ->
  forall e c, In e es' -> own e = Some c ->
    S (keepcount orc c (calls_get cl c)) <= keepcount orc c (calls_get cl' c).
Proof.
  induction es as [|e0 rest IH]; intros cl es' cl' rm H e c Hin Hown; simpl in H.
  - inversion H; subst. contradiction.
  - destruct (own e0) as [c0|] eqn:O.
    + destruct (sweep own orc rest (calls_incr cl c0)) as [[es2 cl2] rm2] eqn:Sw.
      pose proof (sweep_safe _ _ _ _ _ _ _ Sw) as (_ & _ & _ & _ & S5).
      assert (forall x, In x es2 -> own x = Some c ->
                S (keepcount orc c (calls_get cl c)) <= keepcount orc c (calls_get cl2 c)) as Rest.
      { intros x Hx Hc. pose proof (IH _ _ _ _ Sw x c Hx Hc) as P.
        pose proof (keepcount_mono orc c _ _ (calls_get_incr_le cl c0 c)). lia. }
      destruct (should_cleanup (orc c0 (calls_get cl c0))) eqn:A; inversion H; subst; clear H.
      * apply (Rest _ Hin Hown).
      * destruct Hin as [<-|Hin]; [|apply (Rest _ Hin Hown)].
        rewrite O in Hown. inversion Hown; subst c0.
        pose proof (keepcount_mono orc c _ _ (S5 c)) as M. rewrite calls_get_incr_eq in M. simpl in M.
        rewrite A in M. lia.
    + destruct (sweep own orc rest cl) as [[es2 cl2] rm2] eqn:Sw. inversion H; subst; clear H.
      destruct Hin as [<-|Hin]; [congruence|]. apply (IH _ _ _ _ Sw e c Hin Hown).
Qed.

Lemma sweep_dirs_live own orc ds : forall cl ds' cl' rms,
  sweep_dirs own orc ds cl = (ds', cl', rms) ->
  forall es' e c, In (Some es') ds' -> In e es' -> own e = Some c ->
    S (keepcount orc c (calls_get cl c)) <= keepcount orc c (calls_get cl' c).
Proof.
  induction ds as [|d rest IH]; intros cl ds' cl' rms H es' e c Hd Hin Hown; simpl in H.
  - inversion H; subst. contradiction.
  - destruct d as [es0|].
    + destruct (sweep own orc es0 cl) as [[es1 cl1] rm1] eqn:Sw.
      destruct (sweep_dirs own orc rest cl1) as [[ds2 cl2] rms2] eqn:D. inversion H; subst; clear H.
      pose proof (sweep_safe _ _ _ _ _ _ _ Sw) as (_ & _ & _ & _ & S5).
      pose proof (sweep_dirs_safe _ _ _ _ _ _ _ D) as (_ & _ & _ & D4).
      destruct Hd as [Hd|Hd].
      * inversion Hd; subst es'. pose proof (sweep_live _ _ _ _ _ _ _ Sw e c Hin Hown).
        pose proof (keepcount_mono orc c _ _ (D4 c)). lia.
      * pose proof (IH _ _ _ _ D es' e c Hd Hin Hown). pose proof (keepcount_mono orc c _ _ (S5 c)). lia.
    + destruct (sweep_dirs own orc rest cl) as [[ds2 cl2] rms2] eqn:D. inversion H; subst; clear H.
      destruct Hd as [Hd|Hd]; [discriminate|]. apply (IH _ _ _ _ D es' e c Hd Hin Hown).
Qed.

(** some file in [f] is attributed to container [c] *)
Definition has_file (f : fs) (c : str) : Prop :=
  (exists es e, In (Some es) (ipdirs f) /\ In e es /\ owner_ip e = Some c) \/
  (exists es e, In (Some es) (gcdirs f) /\ In e es /\ owner_gc e = Some c).

Lemma round_live orc f cl f' cl' out c :
  gc_round orc f cl = (f', cl', out) -> has_file f' c ->
  has_file f c /\ S (keepcount orc c (calls_get cl c)) <= keepcount orc c (calls_get cl' c).
Proof.
  unfold gc_round. destruct (sweep_dirs owner_ip orc (ipdirs f) cl) as [[ip1 cl1] rmi] eqn:SI.
  destruct (sweep_dirs owner_gc orc (gcdirs f) cl1) as [[gc1 cl2] rmg] eqn:SG.
  intros H Hf. inversion H; subst; clear H.
  pose proof (sweep_dirs_safe _ _ _ _ _ _ _ SI) as (_ & _ & I3 & I4).
  pose proof (sweep_dirs_safe _ _ _ _ _ _ _ SG) as (_ & _ & G3 & G4).
  destruct Hf as [(es & e & Hd & Hin & Hown)|(es & e & Hd & Hin & Hown)]; simpl in Hd.
  - split.
    + left. apply In_nth_error in Hd. destruct Hd as [i Hi]. destruct (I3 _ _ _ Hi Hin) as (es0 & P1 & P2).
      exists es0, e. split; [apply (nth_error_In _ _ P1)|]. split; assumption.
    + pose proof (sweep_dirs_live _ _ _ _ _ _ _ SI es e c Hd Hin Hown).
      pose proof (keepcount_mono orc c _ _ (G4 c)). lia.
  - split.
    + right. apply In_nth_error in Hd. destruct Hd as [i Hi]. destruct (G3 _ _ _ Hi Hin) as (es0 & P1 & P2).
      exists es0, e. split; [apply (nth_error_In _ _ P1)|]. split; assumption.
    + pose proof (sweep_dirs_live _ _ _ _ _ _ _ SG es e c Hd Hin Hown).
      pose proof (keepcount_mono orc c _ _ (I4 c)). lia.
Qed.

Lemma rounds_live orc c n : forall f cl f' cl' outs,
  gc_rounds n orc f cl = (f', cl', outs) -> has_file f' c ->
  has_file f c /\ n + keepcount orc c (calls_get cl c) <= keepcount orc c (calls_get cl' c).
Proof.
  induction n as [|n IH]; intros f cl f' cl' outs H Hf; simpl in H.
  - inversion H; subst. split; [assumption|lia].
  - destruct (gc_round orc f cl) as [[f1 cl1] o] eqn:R.
    destruct (gc_rounds n orc f1 cl1) as [[f2 cl2] os] eqn:Rs. inversion H; subst; clear H.
    destruct (IH _ _ _ _ _ Rs Hf) as [H1 H2]. destruct (round_live _ _ _ _ _ _ _ R H1) as [H3 H4].
    split; [assumption|lia].
Qed.

(** if at most [k] inspect answers for [c] ever say anything but "gone" (the runtime errs at most k
    times for a dead container), no file of [c] is left after k+1 rounds *)
Lemma gc_live_l orc c k f cl f' cl' outs :
  (forall n, keepcount orc c n <= k) ->
  gc_rounds (S k) orc f cl = (f', cl', outs) -> ~ has_file f' c.
Proof.
  intros B H Hf. destruct (rounds_live _ _ _ _ _ _ _ _ H Hf) as [_ P]. pose proof (B (calls_get cl' c)). lia.
Qed.

(** safety of a whole round *)
Lemma gc_safe_l orc f cl f' cl' out :
  gc_round orc f cl = (f', cl', out) ->
  (forall i rm name c, nth_error (removed_ip out) i = Some rm -> In (name, c) rm ->
     exists es e n, nth_error (ipdirs f) i = Some (Some es) /\ In e es /\ fst e = name /\ owner_ip e = Some c /\
                    should_cleanup (orc c n) = true /\ calls_get cl c <= n < calls_get cl' c) /\
  (forall i rm name c, nth_error (removed_gc out) i = Some rm -> In (name, c) rm ->
     exists es e n, nth_error (gcdirs f) i = Some (Some es) /\ In e es /\ fst e = name /\ owner_gc e = Some c /\
                    should_cleanup (orc c n) = true /\ calls_get cl c <= n < calls_get cl' c) /\
  ports_cleaned out = map snd (List.concat (removed_gc out)).
Proof.
  unfold gc_round. destruct (sweep_dirs owner_ip orc (ipdirs f) cl) as [[ip1 cl1] rmi] eqn:SI.
  destruct (sweep_dirs owner_gc orc (gcdirs f) cl1) as [[gc1 cl2] rmg] eqn:SG.
  intros H. inversion H; subst; clear H. simpl.
  pose proof (sweep_dirs_safe _ _ _ _ _ _ _ SI) as (I1 & _ & _ & I4).
  pose proof (sweep_dirs_safe _ _ _ _ _ _ _ SG) as (G1 & _ & _ & G4).
  split; [|split; [|reflexivity]].
  - intros i rm name c Hn Hin. destruct (I1 _ _ _ _ Hn Hin) as (es & e & n & P0 & P1 & P2 & P3 & P4 & P5).
    exists es, e, n. repeat split; try assumption; try lia. pose proof (G4 c). lia.
  - intros i rm name c Hn Hin. destruct (G1 _ _ _ _ Hn Hin) as (es & e & n & P0 & P1 & P2 & P3 & P4 & P5).
    exists es, e, n. repeat split; try assumption; try lia. pose proof (I4 c). lia.
Qed.

(** files attributed to no container, and files of containers the runtime never reports gone, stay *)
Definition kept (own : dirent -> option str) (orc : oracle) (e : dirent) : Prop :=
  own e = None \/ exists c, own e = Some c /\ forall n, should_cleanup (orc c n) = false.

Lemma gc_round_keeps orc f cl f' cl' out :
  gc_round orc f cl = (f', cl', out) ->
  (forall i es e, nth_error (ipdirs f) i = Some (Some es) -> In e es -> kept owner_ip orc e ->
     exists es', nth_error (ipdirs f') i = Some (Some es') /\ In e es') /\
  (forall i es e, nth_error (gcdirs f) i = Some (Some es) -> In e es -> kept owner_gc orc e ->
     exists es', nth_error (gcdirs f') i = Some (Some es') /\ In e es').
Proof.
  unfold gc_round. destruct (sweep_dirs owner_ip orc (ipdirs f) cl) as [[ip1 cl1] rmi] eqn:SI.
  destruct (sweep_dirs owner_gc orc (gcdirs f) cl1) as [[gc1 cl2] rmg] eqn:SG.
  intros H. inversion H; subst; clear H. simpl.
  pose proof (sweep_dirs_safe _ _ _ _ _ _ _ SI) as (_ & I2 & _ & _).
  pose proof (sweep_dirs_safe _ _ _ _ _ _ _ SG) as (_ & G2 & _ & _).
  split; assumption.
Qed.

Lemma gc_rounds_keeps orc n : forall f cl f' cl' outs,
  gc_rounds n orc f cl = (f', cl', outs) ->
  (forall i es e, nth_error (ipdirs f) i = Some (Some es) -> In e es -> kept owner_ip orc e ->
     exists es', nth_error (ipdirs f') i = Some (Some es') /\ In e es') /\
  (forall i es e, nth_error (gcdirs f) i = Some (Some es) -> In e es -> kept owner_gc orc e ->
     exists es', nth_error (gcdirs f') i = Some (Some es') /\ In e es').
Proof.
  induction n as [|n IH]; intros f cl f' cl' outs H; simpl in H.
  - inversion H; subst. split; intros i es e Hn Hin _; exists es; split; assumption.
  - destruct (gc_round orc f cl) as [[f1 cl1] o] eqn:R.
    destruct (gc_rounds n orc f1 cl1) as [[f2 cl2] os] eqn:Rs. inversion H; subst; clear H.
    destruct (gc_round_keeps _ _ _ _ _ _ R) as [K1 K2]. destruct (IH _ _ _ _ _ Rs) as [J1 J2]. split.
    + intros i es e Hn Hin Hk. destruct (K1 _ _ _ Hn Hin Hk) as (es1 & A & B). apply (J1 _ _ _ A B Hk).
    + intros i es e Hn Hin Hk. destruct (K2 _ _ _ Hn Hin Hk) as (es1 & A & B). apply (J2 _ _ _ A B Hk).
Qed.
